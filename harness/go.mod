module verifharness

go 1.19

require github.com/SAP/go-dblib v0.0.0

replace github.com/SAP/go-dblib => /repo
