module verifharness

go 1.19

require github.com/SAP/go-dblib v0.0.0

require (
	github.com/hashicorp/errwrap v1.0.0 // indirect
	github.com/hashicorp/go-multierror v1.1.1 // indirect
	github.com/hashicorp/go-version v1.7.0 // indirect
)

replace github.com/SAP/go-dblib => /repo
