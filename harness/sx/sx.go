// Package sx: S-expression encoding of harness cases, the single PRNG, and the case-file writer.
package sx

import (
	"bufio"
	"fmt"
	"math/big"
	"os"
	"strconv"
	"strings"
)

// T is an S-expression tree: integer, byte string, code-point string or list.
type T interface{ write(b *strings.Builder) }

type I int64
type Big struct{ V *big.Int }
type B []byte
type U []rune // code points, printed $hex.hex
type L []T

func (v I) write(b *strings.Builder)   { b.WriteString(strconv.FormatInt(int64(v), 10)) }
func (v Big) write(b *strings.Builder) { b.WriteString(v.V.String()) }
func (v B) write(b *strings.Builder) {
	b.WriteByte('#')
	const hexd = "0123456789abcdef"
	for _, c := range v {
		b.WriteByte(hexd[c>>4])
		b.WriteByte(hexd[c&15])
	}
}
func (v U) write(b *strings.Builder) {
	b.WriteByte('$')
	for i, c := range v {
		if i > 0 {
			b.WriteByte('.')
		}
		b.WriteString(strconv.FormatInt(int64(c), 16))
	}
}
func (v L) write(b *strings.Builder) {
	b.WriteByte('(')
	for i, x := range v {
		if i > 0 {
			b.WriteByte(' ')
		}
		x.write(b)
	}
	b.WriteByte(')')
}

func Str(t T) string { var b strings.Builder; t.write(&b); return b.String() }
func Bool(v bool) T {
	if v {
		return I(1)
	}
	return I(0)
}
func U64(v uint64) T { return Big{new(big.Int).SetUint64(v)} }
func Ints(vs ...int64) L {
	l := make(L, len(vs))
	for i, v := range vs {
		l[i] = I(v)
	}
	return l
}

// Text renders a Go string as its code points.
func Text(s string) T { return U([]rune(s)) }

// Rng: splitmix64, the only source of randomness (seeded from VERIF_SEED).
type Rng struct{ s uint64 }

func NewRng(seed uint64) *Rng { return &Rng{s: seed*0x9E3779B97F4A7C15 + 0x1234567} }
func (r *Rng) U64() uint64 {
	r.s += 0x9E3779B97F4A7C15
	z := r.s
	z = (z ^ (z >> 30)) * 0xBF58476D1CE4E5B9
	z = (z ^ (z >> 27)) * 0x94D049BB133111EB
	return z ^ (z >> 31)
}
func (r *Rng) Intn(n int) int {
	if n <= 0 {
		return 0
	}
	return int(r.U64() % uint64(n))
}
func (r *Rng) Range(lo, hi int) int { return lo + r.Intn(hi-lo+1) }
func (r *Rng) Bool() bool          { return r.U64()&1 == 1 }
func (r *Rng) Bytes(n int) []byte {
	b := make([]byte, n)
	for i := range b {
		b[i] = byte(r.U64())
	}
	return b
}

// Out writes case lines: fn \t input \t output \t tag
type Out struct {
	w *bufio.Writer
	f *os.File
	N int
}

func NewOut(path string) *Out {
	f, err := os.Create(path)
	if err != nil {
		fmt.Fprintln(os.Stderr, "cannot create", path, err)
		os.Exit(2)
	}
	return &Out{w: bufio.NewWriterSize(f, 1<<20), f: f}
}
func (o *Out) Case(fn int, in, out T, tag string) {
	o.N++
	fmt.Fprintf(o.w, "%d\t%s\t%s\t%s\n", fn, Str(in), Str(out), tag)
}
func (o *Out) Close() { o.w.Flush(); o.f.Close() }

// Seed / tier from the environment or flags.
func EnvSeed() uint64 {
	if s := os.Getenv("VERIF_SEED"); s != "" {
		if v, err := strconv.ParseUint(s, 10, 64); err == nil {
			return v
		}
	}
	return 1
}
