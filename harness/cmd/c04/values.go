package main

// Canonical value representation shared by the C04 and C05 harness:
//   NULL              ()
//   integers          (1 kind v)      kind 1 uint8, 2 int8, 3 uint16, 4 int16, 5 uint32, 6 int32, 7 uint64, 8 int64, 9 int, 10 uint
//   floats            (2 32|64 bits)  the IEEE bit pattern as an unsigned integer
//   bool              (3 0|1)
//   []byte            (4 #hex)
//   string            (5 #hex)        the bytes of the Go string (all types but UNITEXT)
//   string (UNITEXT)  (6 $cp.cp...)   the code points of the Go string ([]rune conversion)
//   *Decimal          (7 precision scale (unscaled));  a Decimal without a big.Int (the library's NULL of MONEYN/DECN/NUMN)
//                     is printed as NULL () when GoValue returns it and written (7 precision scale ()) as an INPUT of Bytes
//   time.Time         (8 Y M D h m s ns)   in UTC
// Outcomes: (0 x) ok, (2) error, (-1) panic.

import (
	"math"
	"math/big"
	"time"

	"github.com/SAP/go-dblib/asetypes"
	"verifharness/sx"
)

const (
	kNull = iota
	kInt
	kFloat
	kBool
	kBytes
	kStr
	kText
	kDec
	kTime
)

const (
	iU8 = 1 + iota
	iI8
	iU16
	iI16
	iU32
	iI32
	iU64
	iI64
	iInt
	iUint
)

type val struct {
	kind int
	ik   int      // integer kind, or 32/64 for floats
	z    *big.Int // integer value / float bits / decimal unscaled value (nil: Decimal without value)
	b    []byte
	r    []rune
	p, s int
	tm   [7]int
}

func vNull() val { return val{kind: kNull} }
func vInt(k int, v int64) val {
	return val{kind: kInt, ik: k, z: big.NewInt(v)}
}
func vUint(k int, v uint64) val {
	return val{kind: kInt, ik: k, z: new(big.Int).SetUint64(v)}
}
func vF32(bits uint32) val { return val{kind: kFloat, ik: 32, z: new(big.Int).SetUint64(uint64(bits))} }
func vF64(bits uint64) val { return val{kind: kFloat, ik: 64, z: new(big.Int).SetUint64(bits)} }
func vBool(b bool) val {
	v := val{kind: kBool, z: big.NewInt(0)}
	if b {
		v.z = big.NewInt(1)
	}
	return v
}
func vBytes(b []byte) val { return val{kind: kBytes, b: b} }
func vStr(b []byte) val   { return val{kind: kStr, b: b} }
func vText(r []rune) val  { return val{kind: kText, r: r} }
func vDec(p, s int, z *big.Int) val {
	return val{kind: kDec, p: p, s: s, z: z}
}
func vTime(y, m, d, h, mi, s, ns int) val {
	return val{kind: kTime, tm: [7]int{y, m, d, h, mi, s, ns}}
}

func (v val) tree() sx.T {
	switch v.kind {
	case kNull:
		return sx.L{}
	case kInt:
		return sx.L{sx.I(1), sx.I(int64(v.ik)), sx.Big{V: v.z}}
	case kFloat:
		return sx.L{sx.I(2), sx.I(int64(v.ik)), sx.Big{V: v.z}}
	case kBool:
		return sx.L{sx.I(3), sx.Big{V: v.z}}
	case kBytes:
		return sx.L{sx.I(4), sx.B(v.b)}
	case kStr:
		return sx.L{sx.I(5), sx.B(v.b)}
	case kText:
		return sx.L{sx.I(6), sx.U(v.r)}
	case kDec:
		if v.z == nil {
			return sx.L{sx.I(7), sx.I(int64(v.p)), sx.I(int64(v.s)), sx.L{}}
		}
		return sx.L{sx.I(7), sx.I(int64(v.p)), sx.I(int64(v.s)), sx.L{sx.Big{V: v.z}}}
	case kTime:
		l := sx.L{sx.I(8)}
		for _, x := range v.tm {
			l = append(l, sx.I(int64(x)))
		}
		return l
	}
	return sx.L{sx.I(-999)}
}

func (v val) timeValue() time.Time {
	return time.Date(v.tm[0], time.Month(v.tm[1]), v.tm[2], v.tm[3], v.tm[4], v.tm[5], v.tm[6], time.UTC)
}

// goValue builds the Go value handed to DataType.Bytes.
func (v val) goValue() interface{} {
	switch v.kind {
	case kNull:
		return nil
	case kInt:
		switch v.ik {
		case iU8:
			return uint8(v.z.Uint64())
		case iI8:
			return int8(v.z.Int64())
		case iU16:
			return uint16(v.z.Uint64())
		case iI16:
			return int16(v.z.Int64())
		case iU32:
			return uint32(v.z.Uint64())
		case iI32:
			return int32(v.z.Int64())
		case iU64:
			return v.z.Uint64()
		case iI64:
			return v.z.Int64()
		case iInt:
			return int(v.z.Int64())
		case iUint:
			return uint(v.z.Uint64())
		}
	case kFloat:
		if v.ik == 32 {
			return math.Float32frombits(uint32(v.z.Uint64()))
		}
		return math.Float64frombits(v.z.Uint64())
	case kBool:
		return v.z.Sign() != 0
	case kBytes:
		return append([]byte{}, v.b...)
	case kStr:
		return string(v.b)
	case kText:
		return string(v.r)
	case kDec:
		if v.z == nil {
			return &asetypes.Decimal{Precision: v.p, Scale: v.s}
		}
		d, err := asetypes.NewDecimal(v.p, v.s)
		if err != nil {
			panic("harness: NewDecimal: " + err.Error())
		}
		d.SetBytes(new(big.Int).Abs(v.z).Bytes())
		if v.z.Sign() < 0 {
			d.Negate()
		}
		return d
	case kTime:
		return v.timeValue()
	}
	return nil
}

// canon turns what GoValue returned into the canonical form. Strings of UNITEXT
// are printed as code points, all other strings as their bytes.
func canon(t asetypes.DataType, x interface{}) sx.T {
	switch y := x.(type) {
	case nil:
		return sx.L{}
	case uint8:
		return vUint(iU8, uint64(y)).tree()
	case int8:
		return vInt(iI8, int64(y)).tree()
	case uint16:
		return vUint(iU16, uint64(y)).tree()
	case int16:
		return vInt(iI16, int64(y)).tree()
	case uint32:
		return vUint(iU32, uint64(y)).tree()
	case int32:
		return vInt(iI32, int64(y)).tree()
	case uint64:
		return vUint(iU64, y).tree()
	case int64:
		return vInt(iI64, y).tree()
	case float32:
		return vF32(math.Float32bits(y)).tree()
	case float64:
		return vF64(math.Float64bits(y)).tree()
	case bool:
		return vBool(y).tree()
	case []byte:
		return vBytes(y).tree()
	case string:
		if t == asetypes.UNITEXT {
			return vText([]rune(y)).tree()
		}
		return vStr([]byte(y)).tree()
	case *asetypes.Decimal:
		if y == nil {
			return sx.L{sx.I(-998)}
		}
		if y.String() == "<nil>" { // Decimal without a big.Int: the library's NULL of MONEYN/DECN/NUMN
			return sx.L{}
		}
		return vDec(y.Precision, y.Scale, y.Int()).tree()
	case time.Time:
		u := y.UTC()
		return vTime(u.Year(), int(u.Month()), u.Day(), u.Hour(), u.Minute(), u.Second(), u.Nanosecond()).tree()
	}
	return sx.L{sx.I(-997)}
}

// renderObj renders the Go value object x that goValue built for v in the form of val.tree(), as a SNAPSHOT (nothing in
// the result shares memory with x): what a caller who kept x would read from it now. Rendered before and after
// DataType.Bytes to see whether encoding left the caller's value alone.
func renderObj(v val, x interface{}) (o sx.T) {
	defer func() {
		if r := recover(); r != nil {
			o = sx.L{sx.I(-996)}
		}
	}()
	switch y := x.(type) {
	case int:
		return val{kind: kInt, ik: iInt, z: big.NewInt(int64(y))}.tree()
	case uint:
		return val{kind: kInt, ik: iUint, z: new(big.Int).SetUint64(uint64(y))}.tree()
	case []byte:
		return vBytes(append([]byte{}, y...)).tree()
	case string:
		if v.kind == kText {
			return vText([]rune(y)).tree()
		}
		return vStr([]byte(y)).tree()
	case *asetypes.Decimal:
		if y == nil {
			return sx.L{sx.I(-998)}
		}
		return vDec(y.Precision, y.Scale, decInt(y)).tree()
	}
	return canon(0, x) // immutable kinds (integers, floats, bool, time.Time by value) and nil
}

// decInt: a copy of the Decimal's integer, nil for a Decimal without a big.Int (Int() dereferences it)
func decInt(y *asetypes.Decimal) (z *big.Int) {
	defer func() {
		if r := recover(); r != nil {
			z = nil
		}
	}()
	return y.Int()
}

func okT(x sx.T) sx.T { return sx.L{sx.I(0), x} }

var errT = sx.L{sx.I(2)}
var panicT = sx.L{sx.I(-1)}
