package main

// Independent reference encoder used for the "bytes a conforming server produces" direction
// (C05 fn 2).  Written from the TDS 5.0 layout descriptions with its own civil-date
// arithmetic, math/big and encoding/binary; it does not call asetypes/asetime.  Its output is
// not trusted: the Coq reference layout_enc is compared with it on every case.

import (
	"encoding/binary"
	"math/big"

	"github.com/SAP/go-dblib/asetypes"
)

// days from 0000-03-01 based civil arithmetic (era algorithm), proleptic Gregorian, any year
func refDaysFromCivil(y, m, d int64) int64 {
	if m <= 2 {
		y--
	}
	var era int64
	if y >= 0 {
		era = y / 400
	} else {
		era = (y - 399) / 400
	}
	yoe := y - era*400
	mp := (m + 9) % 12
	doy := (153*mp+2)/5 + d - 1
	doe := yoe*365 + yoe/4 - yoe/100 + doy
	return era*146097 + doe - 719468 // days since 1970-01-01
}

var refDay1900 = refDaysFromCivil(1900, 1, 1)
var refDay0000 = refDaysFromCivil(0, 1, 1)

func le(n int, v uint64) []byte {
	b := make([]byte, 8)
	binary.LittleEndian.PutUint64(b, v)
	return b[:n]
}

func refUTF16LE(rs []rune) []byte {
	var out []byte
	for _, r := range rs {
		if r >= 0x10000 {
			r -= 0x10000
			hi := 0xD800 + (r >> 10)
			lo := 0xDC00 + (r & 0x3FF)
			out = append(out, byte(hi), byte(hi>>8), byte(lo), byte(lo>>8))
		} else {
			out = append(out, byte(r), byte(r>>8))
		}
	}
	return out
}

// nearest 1/300 s tick of a microsecond count (ties away from zero, us >= 0)
func refTicks(us int64) int64 { return (us*3 + 5000) / 10000 }

func refTOD(v val) int64 { // microseconds since midnight, sub-microsecond part dropped
	return int64(v.tm[3])*3600000000 + int64(v.tm[4])*60000000 + int64(v.tm[5])*1000000 + int64(v.tm[6])/1000
}

// refEncode returns the reference bytes of value v for data type t (width n for the
// types whose width is not implied), and false when the reference does not define one.
func refEncode(t asetypes.DataType, n int, v val) ([]byte, bool) {
	if v.kind == kNull {
		return []byte{}, true
	}
	switch t {
	case asetypes.INT1, asetypes.INT2, asetypes.INT4, asetypes.INT8, asetypes.UINT2, asetypes.UINT4, asetypes.UINT8,
		asetypes.INTN, asetypes.UINTN:
		if v.kind != kInt {
			return nil, false
		}
		w := map[int]int{iU8: 1, iI8: 1, iU16: 2, iI16: 2, iU32: 4, iI32: 4, iU64: 8, iI64: 8}[v.ik]
		if w == 0 {
			return nil, false
		}
		m := new(big.Int).Lsh(big.NewInt(1), uint(8*w))
		x := new(big.Int).Mod(v.z, m) // two's complement
		return le(w, x.Uint64()), true
	case asetypes.FLT4, asetypes.FLT8, asetypes.FLTN:
		if v.kind != kFloat {
			return nil, false
		}
		return le(v.ik/8, v.z.Uint64()), true
	case asetypes.BIT:
		if v.kind != kBool {
			return nil, false
		}
		return []byte{byte(v.z.Int64())}, true
	case asetypes.CHAR, asetypes.VARCHAR, asetypes.LONGCHAR, asetypes.TEXT:
		if v.kind != kStr {
			return nil, false
		}
		return append([]byte{}, v.b...), true
	case asetypes.BINARY, asetypes.VARBINARY, asetypes.LONGBINARY, asetypes.IMAGE, asetypes.XML:
		if v.kind != kBytes {
			return nil, false
		}
		return append([]byte{}, v.b...), true
	case asetypes.UNITEXT:
		if v.kind != kText {
			return nil, false
		}
		return refUTF16LE(v.r), true
	case asetypes.MONEY, asetypes.SHORTMONEY, asetypes.MONEYN:
		if v.kind != kDec || v.z == nil {
			return nil, false
		}
		if n == 4 {
			m := new(big.Int).Mod(v.z, new(big.Int).Lsh(big.NewInt(1), 32))
			return le(4, m.Uint64()), true
		}
		m := new(big.Int).Mod(v.z, new(big.Int).Lsh(big.NewInt(1), 64)).Uint64()
		return append(le(4, m>>32), le(4, m&0xffffffff)...), true
	case asetypes.DECN, asetypes.NUMN:
		if v.kind != kDec || v.z == nil {
			return nil, false
		}
		sign := byte(0)
		if v.z.Sign() < 0 {
			sign = 1
		}
		return append([]byte{sign}, new(big.Int).Abs(v.z).Bytes()...), true
	}
	if v.kind != kTime {
		return nil, false
	}
	day := refDaysFromCivil(int64(v.tm[0]), int64(v.tm[1]), int64(v.tm[2]))
	us := refTOD(v)
	switch t {
	case asetypes.DATE, asetypes.DATEN:
		return le(4, uint64(uint32(int32(day-refDay1900)))), true
	case asetypes.TIME, asetypes.TIMEN:
		tk := refTicks(us)
		if tk == 25920000 { // no tick of the next day: the last tick of the day is the nearest representable one
			tk--
		}
		return le(4, uint64(tk)), true
	case asetypes.SHORTDATE, asetypes.DATETIME, asetypes.DATETIMEN:
		if n == 4 {
			return append(le(2, uint64(uint16(day-refDay1900))), le(2, uint64(us/60000000))...), true
		}
		d, tk := day-refDay1900, refTicks(us)
		if tk == 25920000 {
			d, tk = d+1, 0
		}
		return append(le(4, uint64(uint32(int32(d)))), le(4, uint64(tk))...), true
	case asetypes.BIGDATETIMEN:
		return le(8, uint64((day-refDay0000)*86400000000+us)), true
	case asetypes.BIGTIMEN:
		return le(8, uint64(us)), true
	}
	return nil, false
}
