package main

// Package leg of C04: "The same holds when the value travels inside a parameter or row package together with its format."
//
//	fn 20 (tok (col ...)) -> ((0 #wire) (class consumed ((status value) ...))) | ((2) ()) | ((-1) ())
//	      client direction on the IMPLEMENTATION: Go value -> tds.LookupFieldData(fmt).SetValue -> ParamsPackage / RowPackage
//	      with its format package as LastPkg -> WriteTo on a PacketQueue -> wire bytes -> LookupPackage + LastPkg + ReadFrom
//	      (queue of 512-byte packets) -> FieldData.Status() / Value() of every field.
//	fn 21 (tok (col ...) #body) -> (class consumed ((status value) ...))
//	      decode direction: the body is the reference encoding of the columns (the harness' own value codec ref.go and the
//	      TDS 5.0 field layout below), read by LookupPackage + LastPkg + ReadFrom; Value() judged strictly.
//	fn 22 same input and output as fn 21, judged by what holds for the text-pointer family (Value() = the data bytes).
//	col = (format status #textpointer #timestamp value); format = the tree of the library's own FieldFmt (core.FmtTree)
//	      obtained by letting the library read a reference-encoded PARAMFMT / PARAMFMT2 / ROWFMT / ROWFMT2 package.
//
// Tag classes: pkg-params, pkg-params2, pkg-row, pkg-row2 (one column, client direction), pkg-multi (several columns),
// pkg-boundary (length-prefix boundaries), pkg-overlong / pkg-offdomain (outside the domain: compared with the model only;
// the Coq predicate col_claim decides, not the tag), pkg-ref (fn 21, plain types), pkg-ref-multi,
// pkg-txtptr-text / -unitext / -null / -bin (fn 21, single text-pointer column), pkg-txtptr-raw (fn 22).

import (
	"fmt"
	"math/big"

	"github.com/SAP/go-dblib/asetypes"
	"github.com/SAP/go-dblib/tds"
	"verifharness/pk"
	"verifharness/pk/core"
	"verifharness/sx"
)

// ---------------------------------------------------------------- reference layout of formats and field data (TDS 5.0)

type legCol struct {
	dt          asetypes.DataType
	maxLen      int64
	prec, scale int
	colStatus   bool // TDS_PARAM_COLUMNSTATUS in the format: a status byte precedes the data
	dstatus     int  // the status byte (decode direction only; a client-built field has status 0)
	txtPtr, ts  []byte
	v           val
}

func legKind(dt asetypes.DataType) int {
	switch dt {
	case asetypes.DECN, asetypes.NUMN:
		return 3
	case asetypes.BIGDATETIMEN, asetypes.BIGTIMEN:
		return 2
	case asetypes.TEXT, asetypes.IMAGE, asetypes.UNITEXT, asetypes.XML:
		return 5
	}
	return 1
}

func legLenPrefix(n int, v int64) []byte {
	switch n {
	case 4:
		return pk.LE32(v)
	case 2:
		return pk.LE16(int(v))
	}
	return []byte{byte(v)}
}

func (c legCol) fmtStatus() uint32 {
	if c.colStatus {
		return 0x8
	}
	return 0
}

// one format entry of PARAMFMT/2, ROWFMT/2
func (c legCol) fmtBytes(i int, wide, row bool) []byte {
	var b []byte
	if row && wide {
		b = pk.Cat(pk.LP8([]byte("lbl")), pk.LP8(nil), pk.LP8([]byte("dbo")), pk.LP8([]byte("t")))
	}
	b = append(b, pk.LP8([]byte(fmt.Sprintf("c%d", i)))...)
	if wide {
		b = append(b, pk.LE32(int64(c.fmtStatus()))...)
	} else {
		b = append(b, byte(c.fmtStatus()))
	}
	b = append(b, pk.LE32(0)...) // user type
	b = append(b, byte(c.dt))
	if c.dt.ByteSize() < 0 {
		b = append(b, legLenPrefix(c.dt.LengthBytes(), c.maxLen)...)
	}
	switch legKind(c.dt) {
	case 2:
		b = append(b, byte(c.scale))
	case 3:
		b = append(b, byte(c.prec), byte(c.scale))
	case 5:
		b = append(b, pk.LP16([]byte("tab"))...)
	}
	return append(b, 0) // locale
}

func legFmtToken(wide, row bool) int {
	switch {
	case row && wide:
		return int(tds.TDS_ROWFMT2)
	case row:
		return int(tds.TDS_ROWFMT)
	case wide:
		return int(tds.TDS_PARAMFMT2)
	}
	return int(tds.TDS_PARAMFMT)
}

// the library's format package, read from the reference encoding
func legLibFmt(cols []legCol, wide, row bool) (tds.Package, []tds.FieldFmt) {
	var fields []byte
	for i, c := range cols {
		fields = append(fields, c.fmtBytes(i, wide, row)...)
	}
	total := int64(2 + len(fields))
	var b []byte
	if wide {
		b = pk.LE32(total)
	} else {
		b = pk.LE16(int(total))
	}
	b = append(b, pk.LE16(len(cols))...)
	b = append(b, fields...)
	p := pk.Parse(legFmtToken(wide, row), b, nil)
	if p.Class != 0 {
		panic(fmt.Sprintf("harness: the library rejects a reference-encoded format package (class %d)", p.Class))
	}
	switch t := p.Pkg.(type) {
	case *tds.ParamFmtPackage:
		return t, t.Fmts
	case *tds.RowFmtPackage:
		return t, t.Fmts
	}
	panic("harness: unexpected format package type")
}

// reference encoding of one data field
func (c legCol) dataBytes() ([]byte, bool) {
	raw, ok := refEncode(c.dt, int(c.maxLen), c.v)
	if !ok {
		return nil, false
	}
	var b []byte
	if c.colStatus {
		b = append(b, byte(c.dstatus))
	}
	if legKind(c.dt) == 5 {
		b = append(b, pk.LP8(c.txtPtr)...)
		b = append(b, c.ts...)
		b = append(b, pk.LE32(int64(len(raw)))...)
		return append(b, raw...), true
	}
	if c.dt.ByteSize() < 0 {
		b = append(b, legLenPrefix(c.dt.LengthBytes(), int64(len(raw)))...)
	}
	return append(b, raw...), true
}

func legColsTree(cols []legCol, fmts []tds.FieldFmt) sx.T {
	l := sx.L{}
	for i, c := range cols {
		l = append(l, sx.L{core.FmtTree(fmts[i]), sx.I(int64(c.dstatus)), sx.B(c.txtPtr), sx.B(c.ts), c.v.tree()})
	}
	return l
}

// ---------------------------------------------------------------- running the implementation

// legRead: LookupPackage(tok) + LastPkg(last) + ReadFrom on a queue holding body in 512-byte packets,
// then Status() and Value() of every field.
func legRead(tok int, body []byte, last tds.Package, cols []legCol) (o sx.T) {
	defer func() {
		if r := recover(); r != nil {
			o = sx.L{sx.I(-1), sx.I(0), sx.L{}}
		}
	}()
	pkg, err := tds.LookupPackage(tds.Token(tok))
	if err != nil {
		return sx.L{sx.I(2), sx.I(0), sx.L{}}
	}
	if acc, ok := pkg.(tds.LastPkgAcceptor); ok {
		if err := acc.LastPkg(last); err != nil {
			return sx.L{sx.I(2), sx.I(0), sx.L{}}
		}
	}
	q := tds.NewPacketQueue(func() int { return 512 })
	for off := 0; off < len(body); off += 504 {
		end := off + 504
		if end > len(body) {
			end = len(body)
		}
		p := &tds.Packet{Data: append([]byte{}, body[off:end]...)}
		p.Header.Length = uint16(8 + end - off)
		q.AddPacket(p)
	}
	err = pkg.ReadFrom(q)
	if c := pk.Class(err); c != 0 {
		return sx.L{sx.I(c), sx.I(0), sx.L{}}
	}
	consumed := 0
	datas, _, ip, id, _ := q.VerifState()
	for i, d := range datas {
		if i < ip {
			consumed += len(d)
		} else if i == ip {
			consumed += id
		}
	}
	var dfs []tds.FieldData
	switch t := pkg.(type) {
	case *tds.ParamsPackage:
		dfs = t.DataFields
	case *tds.RowPackage:
		dfs = t.DataFields
	}
	vals := sx.L{}
	for i, d := range dfs {
		dt := asetypes.DataType(0)
		if i < len(cols) {
			dt = cols[i].dt
		}
		vals = append(vals, sx.L{sx.I(int64(d.Status())), canon(dt, d.Value())})
	}
	return sx.L{sx.I(0), sx.I(int64(consumed)), vals}
}

func legDataToken(row bool) int {
	if row {
		return int(tds.TDS_ROW)
	}
	return int(tds.TDS_PARAMS)
}

// client direction (fn 20)
func legClient(cols []legCol, wide, row bool, tag string) {
	last, fmts := legLibFmt(cols, wide, row)
	tok := legDataToken(row)
	in := sx.L{sx.I(int64(tok)), legColsTree(cols, fmts)}
	var pkg tds.Package
	func() {
		defer func() {
			if r := recover(); r != nil {
				pkg = nil
			}
		}()
		fields := make([]tds.FieldData, len(cols))
		for i, c := range cols {
			fd, err := tds.LookupFieldData(fmts[i])
			if err != nil {
				panic(err)
			}
			fd.SetValue(c.v.goValue())
			fields[i] = fd
		}
		pp := tds.NewParamsPackage(fields...)
		if row {
			rp := &tds.RowPackage{ParamsPackage: *pp}
			if err := rp.LastPkg(last); err != nil {
				panic(err)
			}
			pkg = rp
		} else {
			if err := pp.LastPkg(last); err != nil {
				panic(err)
			}
			pkg = pp
		}
	}()
	if pkg == nil {
		panic("harness: cannot build the data package for " + tag)
	}
	bs, err, panicked := pk.Written(pkg)
	switch {
	case panicked:
		out.Case(20, in, sx.L{sx.L{sx.I(-1)}, sx.L{}}, tag)
	case err != nil:
		out.Case(20, in, sx.L{sx.L{sx.I(2)}, sx.L{}}, tag)
	case len(bs) == 0:
		out.Case(20, in, sx.L{sx.L{sx.I(0), sx.B(bs)}, sx.L{sx.I(2), sx.I(0), sx.L{}}}, tag)
	default:
		out.Case(20, in, sx.L{sx.L{sx.I(0), sx.B(bs)}, legRead(int(bs[0]), bs[1:], last, cols)}, tag)
	}
}

// decode direction (fn 21 strict, fn 22 raw)
func legDecode(fn int, cols []legCol, wide bool, tag string) {
	last, fmts := legLibFmt(cols, wide, true)
	var body []byte
	for _, c := range cols {
		b, ok := c.dataBytes()
		if !ok {
			return
		}
		body = append(body, b...)
	}
	tok := int(tds.TDS_ROW)
	in := sx.L{sx.I(int64(tok)), legColsTree(cols, fmts), sx.B(body)}
	out.Case(fn, in, legRead(tok, body, last, cols), tag)
}

// ---------------------------------------------------------------- values

type legSample struct {
	maxLen      int64
	prec, scale int
	v           val
}

func legBytes(n int) []byte {
	b := rng.Bytes(n)
	return b
}

func legText(n int) []rune {
	r := randRunes(n)
	if len(r) > 0 && r[len(r)-1] == 0 {
		r[len(r)-1] = 'x'
	}
	return r
}

var legTimes = [][7]int{
	{1900, 1, 1, 0, 0, 0, 0}, {1899, 12, 31, 12, 0, 0, 0}, {2000, 2, 29, 23, 59, 59, 996000000}, {1753, 1, 1, 0, 0, 0, 3000000},
	{1, 1, 1, 0, 0, 0, 0}, {9999, 12, 31, 23, 59, 59, 999999999}, {1969, 12, 31, 12, 34, 56, 789000000}, {2079, 6, 6, 23, 59, 0, 0},
	{2079, 6, 6, 23, 59, 59, 999000000}, {2024, 5, 17, 12, 0, 59, 999000000}, {2000, 2, 28, 23, 59, 59, 998334000},
}

func legTime(small bool) val {
	t := legTimes[rng.Intn(len(legTimes))]
	if small {
		for t[0] < 1900 || t[0] > 2079 {
			t = legTimes[rng.Intn(len(legTimes))]
		}
	}
	return vTime(t[0], t[1], t[2], t[3], t[4], t[5], t[6])
}

// a few boundary values of an integer kind (min, max, 0, +-1, around the byte-width boundaries) and random ones
func legInts(ik int, nrand int) []*big.Int {
	all := intSamples(ik, nrand)
	keep := map[uint]bool{7: true, 8: true, 15: true, 16: true, 31: true, 32: true, 63: true}
	var r []*big.Int
	for i, x := range all {
		if i < 2 || i >= len(all)-nrand {
			r = append(r, x)
			continue
		}
		a := new(big.Int).Abs(x)
		if a.BitLen() <= 1 {
			r = append(r, x)
			continue
		}
		// 2^k - 1, 2^k, 2^k + 1 for the kept k
		for k := range keep {
			p := new(big.Int).Lsh(big.NewInt(1), k)
			d := new(big.Int).Sub(a, p)
			if d.IsInt64() && d.Int64() >= -1 && d.Int64() <= 0 {
				r = append(r, x)
				break
			}
		}
	}
	return r
}

func pow10(k int) *big.Int { return new(big.Int).Exp(big.NewInt(10), big.NewInt(int64(k)), nil) }

// in-domain samples of a data type: boundary values first, then random ones; nullable types also get NULL
func legSamples(dt asetypes.DataType, nrand int) []legSample {
	var s []legSample
	add := func(maxLen int64, v val) { s = append(s, legSample{maxLen: maxLen, v: v}) }
	ints := func(ik int, maxLen int64) {
		for _, z := range legInts(ik, nrand) {
			add(maxLen, val{kind: kInt, ik: ik, z: z})
		}
	}
	bitsF := func(w int, maxLen int64) {
		if w == 32 {
			for _, b := range []uint32{0, 0x80000000, 0x3f800000, 0x7f800000, 0xff800000, 0x7fc00001, 1, uint32(rng.U64())} {
				add(maxLen, vF32(b))
			}
		} else {
			for _, b := range []uint64{0, 1 << 63, 0x3ff0000000000000, 0x7ff0000000000000, 0x7ff8000000000001, 1, rng.U64()} {
				add(maxLen, vF64(b))
			}
		}
	}
	money := func(w int) {
		var xs []int64
		if w == 4 {
			xs = []int64{0, 1, -1, 2147483647, -2147483648, int64(int32(rng.U64()))}
		} else {
			xs = []int64{0, 1, -1, 9223372036854775807, -9223372036854775808, 4294967296, -4294967297, int64(rng.U64())}
		}
		for _, x := range xs {
			add(int64(w), vDec(20, 4, big.NewInt(x)))
		}
	}
	switch dt {
	case asetypes.INT1:
		ints(iU8, 1)
	case asetypes.INT2:
		ints(iI16, 2)
	case asetypes.INT4:
		ints(iI32, 4)
	case asetypes.INT8:
		ints(iI64, 8)
	case asetypes.UINT2:
		ints(iU16, 2)
	case asetypes.UINT4:
		ints(iU32, 4)
	case asetypes.UINT8:
		ints(iU64, 8)
	case asetypes.INTN:
		ints(iU8, 1)
		ints(iI16, 2)
		ints(iI32, 4)
		ints(iI64, 8)
		add(4, vInt(iI64, -2)) // the declared maximum is not what sizes the value: 8 bytes travel
		add(4, vNull())
	case asetypes.UINTN:
		ints(iU8, 1)
		ints(iU16, 2)
		ints(iU32, 4)
		ints(iU64, 8)
		add(8, vNull())
	case asetypes.FLT4:
		bitsF(32, 4)
	case asetypes.FLT8:
		bitsF(64, 8)
	case asetypes.FLTN:
		bitsF(32, 4)
		bitsF(64, 8)
		add(8, vNull())
	case asetypes.BIT:
		add(1, vBool(false))
		add(1, vBool(true))
	case asetypes.MONEY:
		money(8)
	case asetypes.SHORTMONEY:
		money(4)
	case asetypes.MONEYN:
		money(4)
		money(8)
		add(8, vNull())
	case asetypes.DECN, asetypes.NUMN:
		for _, ps := range [][2]int{{1, 0}, {18, 0}, {38, 38}, {38, 0}, {10, 4}, {rng.Range(1, 38), 0}} {
			p, sc := ps[0], ps[1]
			if sc > p {
				sc = p
			}
			top := new(big.Int).Sub(pow10(p), big.NewInt(1))
			r := new(big.Int).Mod(new(big.Int).SetUint64(rng.U64()), pow10(p))
			for _, x := range []*big.Int{big.NewInt(0), big.NewInt(1), big.NewInt(-1), top, new(big.Int).Neg(top), r} {
				if new(big.Int).Abs(x).Cmp(pow10(p)) >= 0 {
					continue
				}
				s = append(s, legSample{maxLen: 33, prec: p, scale: sc, v: vDec(p, sc, x)})
			}
		}
		s = append(s, legSample{maxLen: 17, prec: 38, scale: 2, v: vNull()})
	case asetypes.DATE:
		for i := 0; i < 4+nrand; i++ {
			add(4, legTime(false))
		}
	case asetypes.DATEN:
		for i := 0; i < 4+nrand; i++ {
			add(4, legTime(false))
		}
		add(4, vNull())
	case asetypes.TIME:
		for i := 0; i < 4+nrand; i++ {
			add(4, legTime(false))
		}
	case asetypes.TIMEN:
		for i := 0; i < 4+nrand; i++ {
			add(4, legTime(false))
		}
		add(4, vNull())
	case asetypes.SHORTDATE:
		for i := 0; i < 3+nrand; i++ {
			add(4, legTime(true))
		}
	case asetypes.DATETIME:
		for i := 0; i < 5+nrand; i++ {
			add(8, legTime(false))
		}
	case asetypes.DATETIMEN:
		for i := 0; i < 5+nrand; i++ {
			add(8, legTime(false))
		}
		for i := 0; i < 2; i++ {
			add(4, legTime(true))
		}
		add(8, vNull())
	case asetypes.BIGDATETIMEN:
		for i := 0; i < 4+nrand; i++ {
			s = append(s, legSample{maxLen: 8, scale: 6, v: legTime(false)})
		}
		s = append(s, legSample{maxLen: 8, scale: 6, v: vNull()})
	case asetypes.BIGTIMEN:
		for i := 0; i < 4+nrand; i++ {
			s = append(s, legSample{maxLen: 8, scale: 6, v: legTime(false)})
		}
		s = append(s, legSample{maxLen: 8, scale: 6, v: vNull()})
	case asetypes.CHAR, asetypes.VARCHAR:
		for _, n := range []int{1, 2, 17, 254, 255} {
			add(255, vStr(legBytes(n)))
		}
		add(int64(10), vStr(legBytes(10)))
		add(255, vNull())
	case asetypes.BINARY, asetypes.VARBINARY:
		for _, n := range []int{1, 3, 254, 255} {
			add(255, vBytes(legBytes(n)))
		}
		add(255, vNull())
	case asetypes.LONGCHAR:
		for _, n := range []int{1, 255, 256, 700} {
			add(2147483647, vStr(legBytes(n)))
		}
		add(2147483647, vNull())
	case asetypes.LONGBINARY:
		for _, n := range []int{1, 255, 256, 700} {
			add(2147483647, vBytes(legBytes(n)))
		}
		add(2147483647, vNull())
	case asetypes.TEXT:
		for _, n := range []int{1, 255, 256, 700} {
			add(2147483647, vStr(legBytes(n)))
		}
		add(2147483647, vNull())
	case asetypes.IMAGE, asetypes.XML:
		for _, n := range []int{1, 255, 256, 700} {
			add(2147483647, vBytes(legBytes(n)))
		}
		add(2147483647, vNull())
	case asetypes.UNITEXT:
		add(2147483647, vText([]rune{'a', 0xe9, 0x20ac, 0x1f600}))
		for _, n := range []int{1, 127, 128, 400} {
			add(2147483647, vText(legText(n)))
		}
		add(2147483647, vNull())
	}
	return s
}

var legPlain = []asetypes.DataType{
	asetypes.INT1, asetypes.INT2, asetypes.INT4, asetypes.INT8, asetypes.UINT2, asetypes.UINT4, asetypes.UINT8, asetypes.INTN, asetypes.UINTN,
	asetypes.FLT4, asetypes.FLT8, asetypes.FLTN, asetypes.BIT, asetypes.MONEY, asetypes.SHORTMONEY, asetypes.MONEYN, asetypes.DECN, asetypes.NUMN,
	asetypes.DATE, asetypes.DATEN, asetypes.TIME, asetypes.TIMEN, asetypes.SHORTDATE, asetypes.DATETIME, asetypes.DATETIMEN,
	asetypes.BIGDATETIMEN, asetypes.BIGTIMEN, asetypes.CHAR, asetypes.VARCHAR, asetypes.BINARY, asetypes.VARBINARY, asetypes.LONGCHAR, asetypes.LONGBINARY,
}
var legTxtPtr = []asetypes.DataType{asetypes.TEXT, asetypes.IMAGE, asetypes.UNITEXT, asetypes.XML}

func (s legSample) col(dt asetypes.DataType, colStatus bool) legCol {
	return legCol{dt: dt, maxLen: s.maxLen, prec: s.prec, scale: s.scale, colStatus: colStatus, v: s.v}
}

func legRandCol(dt asetypes.DataType) legCol {
	ss := legSamples(dt, 1)
	return ss[rng.Intn(len(ss))].col(dt, rng.Bool())
}

func (c legCol) withTxtPtr() legCol {
	c.txtPtr = rng.Bytes([]int{0, 16, 255}[rng.Intn(3)])
	c.ts = rng.Bytes(8)
	return c
}

func (c legCol) withStatus() legCol {
	if c.colStatus {
		c.dstatus = []int{0, 2, 255, rng.Intn(256)}[rng.Intn(4)]
	}
	return c
}

func legStringCol(dt asetypes.DataType, n int, maxLen int64) legCol {
	v := vStr(legBytes(n))
	switch dt {
	case asetypes.BINARY, asetypes.VARBINARY, asetypes.LONGBINARY, asetypes.IMAGE, asetypes.XML:
		v = vBytes(legBytes(n))
	}
	return legCol{dt: dt, maxLen: maxLen, v: v}
}

func txtptrClass(c legCol) string {
	switch {
	case c.v.kind == kNull:
		return "pkg-txtptr-null"
	case c.dt == asetypes.TEXT:
		return "pkg-txtptr-text"
	case c.dt == asetypes.UNITEXT:
		return "pkg-txtptr-unitext"
	}
	return "pkg-txtptr-bin"
}

// ---------------------------------------------------------------- generators

func genPkgLeg() {
	thorough := tier == "thorough"
	nrand, nmulti := 1, 250
	if thorough {
		nrand, nmulti = 12, 6000
	}
	kinds := []struct {
		wide, row bool
		class     string
	}{{false, false, "pkg-params"}, {true, false, "pkg-params2"}, {false, true, "pkg-row"}, {true, true, "pkg-row2"}}

	// (1) length-prefix boundaries, client direction: data lengths 0 (NULL), 1, 254, 255 inside the domain and 256, 257,
	// 300, 511, 512 beyond the 1-byte prefix; 255, 256, 65535, 65536, 70000 for the 4-byte prefix types; each also as the
	// middle column of a row so that a wrong length or a shifted stream shows in the neighbours
	for _, k := range kinds {
		for _, dt := range []asetypes.DataType{asetypes.CHAR, asetypes.VARCHAR, asetypes.BINARY, asetypes.VARBINARY} {
			for _, n := range []int{1, 2, 253, 254, 255, 256, 257, 300, 511, 512} {
				class := "pkg-boundary"
				if n > 255 {
					class = "pkg-overlong"
				}
				for _, cs := range []bool{false, true} {
					c := legStringCol(dt, n, 255)
					c.colStatus = cs
					legClient([]legCol{c}, k.wide, k.row, fmt.Sprintf("%s;%s;dt=%x;len=%d", class, k.class, int(dt), n))
					if k.wide == k.row { // params narrow and row wide
						legClient([]legCol{legRandCol(asetypes.INT4), c, legRandCol(asetypes.VARCHAR), legRandCol(asetypes.DATETIMEN)}, k.wide, k.row,
							fmt.Sprintf("%s;%s;mid;dt=%x;len=%d", class, k.class, int(dt), n))
					}
				}
			}
			// the declared maximum is not enforced by the writer (compared with the model; in the domain as long as the prefix fits)
			legClient([]legCol{legStringCol(dt, 20, 10)}, k.wide, k.row, fmt.Sprintf("pkg-boundary;%s;dt=%x;over-declared-max", k.class, int(dt)))
			// the empty string / empty byte slice is outside the value domain (it is NULL on the wire)
			legClient([]legCol{legStringCol(dt, 0, 255)}, k.wide, k.row, fmt.Sprintf("pkg-offdomain;%s;dt=%x;empty", k.class, int(dt)))
		}
		long := []int{1, 255, 256}
		if k.wide == k.row || thorough {
			long = append(long, 65535, 65536)
		}
		if thorough {
			long = append(long, 65534, 65537, 70000, 131072)
		}
		for _, dt := range []asetypes.DataType{asetypes.LONGCHAR, asetypes.LONGBINARY} {
			for _, n := range long {
				c := legStringCol(dt, n, 2147483647)
				legClient([]legCol{c}, k.wide, k.row, fmt.Sprintf("pkg-boundary;%s;dt=%x;len=%d", k.class, int(dt), n))
				if n == 65536 && (thorough || !k.row) {
					legClient([]legCol{legRandCol(asetypes.VARBINARY), c, legRandCol(asetypes.INTN)}, k.wide, k.row,
						fmt.Sprintf("pkg-boundary;%s;mid;dt=%x;len=%d", k.class, int(dt), n))
				}
			}
		}
		if !k.wide && !k.row {
			legClient([]legCol{legStringCol(asetypes.LONGCHAR, 70000, 2147483647)}, k.wide, k.row, fmt.Sprintf("pkg-boundary;%s;dt=%x;len=70000", k.class, int(asetypes.LONGCHAR)))
		}
	}

	// (2) every plain data type, fixed and nullable variants, every sample, alone: client direction in PARAMS (narrow / wide
	// format) and ROW, with and without the status byte
	for _, dt := range legPlain {
		for _, s := range legSamples(dt, nrand) {
			for ki, k := range kinds {
				if !thorough && ki == 3 {
					continue
				}
				cs := ki%2 == 1
				legClient([]legCol{s.col(dt, cs)}, k.wide, k.row, fmt.Sprintf("%s;dt=%x", k.class, int(dt)))
			}
			// decode direction from the reference encoding, with a status byte
			legDecode(21, []legCol{s.col(dt, true).withStatus()}, rng.Bool(), fmt.Sprintf("pkg-ref;dt=%x", int(dt)))
		}
	}
	// values outside the domain travel too (compared with the model only): wrong Go type, NULL for a fixed-length type,
	// a Decimal without a value, precision/scale of the value different from the format
	legClient([]legCol{{dt: asetypes.INT4, maxLen: 4, v: vNull()}}, false, false, "pkg-offdomain;null-fixed")
	legClient([]legCol{{dt: asetypes.INT4, maxLen: 4, v: vNull()}, legRandCol(asetypes.INT2)}, false, false, "pkg-offdomain;null-fixed")
	legClient([]legCol{{dt: asetypes.INT4, maxLen: 4, v: vInt(iI64, 5)}}, false, false, "pkg-offdomain;wrong-width")
	legClient([]legCol{{dt: asetypes.INT4, maxLen: 4, v: vStr([]byte("abcd"))}}, false, false, "pkg-offdomain;wrong-type")
	legClient([]legCol{{dt: asetypes.DECN, maxLen: 17, prec: 10, scale: 2, v: vDec(12, 3, big.NewInt(12345))}}, false, false, "pkg-offdomain;decimal-format")
	legClient([]legCol{{dt: asetypes.NUMN, maxLen: 17, prec: 10, scale: 2, v: vDec(10, 2, nil)}}, false, false, "pkg-offdomain;decimal-nil")
	legClient([]legCol{{dt: asetypes.MONEYN, maxLen: 8, v: vDec(20, 4, nil)}}, false, false, "pkg-offdomain;decimal-nil")
	legClient([]legCol{{dt: asetypes.DATETIMEN, maxLen: 6, v: legTime(false)}}, false, false, "pkg-offdomain;width")
	legClient([]legCol{{dt: asetypes.DATETIME, maxLen: 8, v: vTime(10000, 1, 1, 0, 0, 0, 0)}}, false, false, "pkg-offdomain;year")

	// (3) several columns per row: random mixes of all plain types (every column in the domain)
	for i := 0; i < nmulti; i++ {
		k := kinds[rng.Intn(len(kinds))]
		n := rng.Range(2, 7)
		var cols []legCol
		for j := 0; j < n; j++ {
			cols = append(cols, legRandCol(legPlain[rng.Intn(len(legPlain))]))
		}
		legClient(cols, k.wide, k.row, fmt.Sprintf("pkg-multi;%s;cols=%d", k.class, n))
		if i%2 == 0 {
			for j := range cols {
				cols[j] = cols[j].withStatus()
			}
			legDecode(21, cols, k.wide, fmt.Sprintf("pkg-ref-multi;cols=%d", n))
		}
	}

	// (4) the text-pointer family: decode direction from reference-encoded rows.  fn 21 judges Value() strictly (known
	// findings for TEXT / UNITEXT / NULL), fn 22 judges the part that holds (Value() = the data bytes)
	tlong := []int{65536}
	if thorough {
		tlong = []int{65535, 65536, 70000, 131072}
	}
	for _, dt := range legTxtPtr {
		ss := legSamples(dt, nrand)
		nshort := len(ss)
		for _, n := range tlong {
			switch dt {
			case asetypes.TEXT:
				ss = append(ss, legSample{maxLen: 2147483647, v: vStr(legBytes(n))})
			case asetypes.UNITEXT:
				ss = append(ss, legSample{maxLen: 2147483647, v: vText(legText(n / 2))})
			default:
				ss = append(ss, legSample{maxLen: 2147483647, v: vBytes(legBytes(n))})
			}
		}
		for si, s := range ss {
			for _, cs := range []bool{false, true} {
				if si >= nshort && cs && !thorough {
					continue
				}
				c := s.col(dt, cs).withTxtPtr().withStatus()
				wide := rng.Bool()
				legDecode(21, []legCol{c}, wide, fmt.Sprintf("%s;dt=%x", txtptrClass(c), int(dt)))
				legDecode(22, []legCol{c}, wide, fmt.Sprintf("pkg-txtptr-raw;dt=%x", int(dt)))
			}
		}
	}
	for i := 0; i < nmulti/2; i++ {
		n := rng.Range(2, 6)
		var cols []legCol
		for j := 0; j < n; j++ {
			if rng.Intn(2) == 0 {
				dt := legTxtPtr[rng.Intn(len(legTxtPtr))]
				ss := legSamples(dt, 1)
				cols = append(cols, ss[rng.Intn(len(ss))].col(dt, rng.Bool()).withTxtPtr().withStatus())
			} else {
				cols = append(cols, legRandCol(legPlain[rng.Intn(len(legPlain))]).withStatus())
			}
		}
		legDecode(22, cols, rng.Bool(), fmt.Sprintf("pkg-txtptr-raw;multi;cols=%d", n))
	}
}
