// c04: value-level harness of the properties C04 (round trip) and C05 (wire layout).
// Runs asetypes.DataType.Bytes / GoValue and the asetime helpers of the IMPLEMENTATION on
// generated values and writes the case file; -gen tabulates ByteSize/LengthBytes/GoReflectType/
// String for all 256 data type codes into Gen/GenC04.v.
//
//	-prop C04:  fn 1 (t len v) -> (enc-outcome dec-outcome-of-the-produced-bytes pure)      pure: see encode
//	            fn 2 (t #bytes) -> dec-outcome                      (arbitrary / malformed bytes)
//	            fn 3 t -> (ByteSize LengthBytes reflect-kind name)
//	            fn 4 (which arg) -> asetime helper result
//	            fn 9 (label n) -> (n failures)                      (thorough: sweeps checked on the Go side only)
//	            fn 20, 21, 22: the package leg (values inside TDS_PARAMS / TDS_ROW with their formats), see pkgleg.go
//	-gen may be repeated: a path named GenPkg.v receives the tables of the package layer (harness/pk.WriteGen), any
//	other path the tables of Gen/GenC04.v
//	-prop C05:  fn 1 (t len v ref) -> (enc-outcome dref pure) with ref = () or (#reference-bytes of the harness' own codec),
//	            dref = () or the implementation's decode outcome of the reference bytes, pure = (1 1) when a second
//	            Bytes call on the SAME value object gave the same outcome and the value object is unchanged (see encode)
//	            fn 4 (which arg) -> asetime helper result
package main

import (
	"encoding/binary"
	"flag"
	"fmt"
	"math/big"
	"os"
	"path/filepath"
	"strings"
	"time"

	"github.com/SAP/go-dblib/asetime"
	"github.com/SAP/go-dblib/asetypes"
	"verifharness/pk"
	"verifharness/sx"
)

var (
	prop string
	tier string
	out  *sx.Out
	rng  *sx.Rng
)

// ---------------------------------------------------------------- running the implementation

// bytesOnce: one call of DataType.Bytes on the value object x. The result is copied at once, so that nothing a later
// call does to a buffer it shares with the value object or with an earlier result can change what was observed.
func bytesOnce(t asetypes.DataType, x interface{}, n int) (o sx.T, bs []byte, ok bool) {
	defer func() {
		if r := recover(); r != nil {
			o, bs, ok = panicT, nil, false
		}
	}()
	b, err := t.Bytes(binary.LittleEndian, x, int64(n))
	if err != nil {
		return errT, nil, false
	}
	b = append([]byte{}, b...)
	return okT(sx.B(b)), b, true
}

var pureT = sx.L{sx.I(1), sx.I(1)}

// encode: the value object is built ONCE and handed to DataType.Bytes TWICE; it is rendered (renderObj) before the first
// call, after the first and after the second call. o, bs, ok describe the FIRST call. pure is the observation that
// encoding is a function of the value which leaves the value alone:
//
//	(same unchanged)                       same = 1: the second call had the outcome of the first (same bytes / error / panic),
//	                                       unchanged = 1: the value object renders after both calls as it did before
//	(same unchanged outcome2 after1 after2) when one of them is 0: the second outcome and the renderings, for the report
func encode(t asetypes.DataType, v val, n int) (o sx.T, bs []byte, ok bool, pure sx.T) {
	pure = pureT
	defer func() {
		if r := recover(); r != nil { // building the value object failed (harness)
			o, bs, ok = panicT, nil, false
		}
	}()
	x := v.goValue()
	before := sx.Str(renderObj(v, x))
	o, bs, ok = bytesOnce(t, x, n)
	after1 := renderObj(v, x)
	o2, _, _ := bytesOnce(t, x, n)
	after2 := renderObj(v, x)
	same, unchanged := sx.Str(o) == sx.Str(o2), before == sx.Str(after1) && before == sx.Str(after2)
	if !same || !unchanged {
		pure = sx.L{sx.Bool(same), sx.Bool(unchanged), o2, after1, after2}
	}
	return o, bs, ok, pure
}

func decode(t asetypes.DataType, bs []byte) (o sx.T) {
	defer func() {
		if r := recover(); r != nil {
			o = panicT
		}
	}()
	x, err := t.GoValue(binary.LittleEndian, append([]byte{}, bs...))
	if err != nil {
		return errT
	}
	return okT(canon(t, x))
}

func input(t asetypes.DataType, n int, v val) sx.T {
	return sx.L{sx.I(int64(t)), sx.I(int64(n)), v.tree()}
}

// value case: both properties
func value(t asetypes.DataType, n int, v val, tag string) {
	eo, bs, ok, pure := encode(t, v, n)
	if prop == "C04" {
		var do sx.T = sx.L{}
		if ok {
			do = decode(t, bs)
		}
		out.Case(1, input(t, n, v), sx.L{eo, do, pure}, tag)
		return
	}
	var ref, dref sx.T = sx.L{}, sx.L{}
	if rb, rok := refEncode(t, n, v); rok {
		ref, dref = sx.L{sx.B(rb)}, decode(t, rb)
	}
	out.Case(1, sx.L{sx.I(int64(t)), sx.I(int64(n)), v.tree(), ref}, sx.L{eo, dref, pure}, tag)
}

// decode-only case (C04 fn 2)
func rawDecode(t asetypes.DataType, bs []byte, tag string) {
	if prop != "C04" {
		return
	}
	out.Case(2, sx.L{sx.I(int64(t)), sx.B(bs)}, decode(t, bs), tag)
}

// goSide: thorough tier, value checked on the Go side only against the harness' reference codec (which the Coq
// reference checks on every case that goes through the model): bytes equal, decode re-encodes to the same bytes
func goSide(t asetypes.DataType, n int, v val) bool {
	_, bs, ok, pure := encode(t, v, n)
	rb, rok := refEncode(t, n, v)
	if !ok || !rok || string(bs) != string(rb) || sx.Str(pure) != sx.Str(pureT) {
		return false
	}
	ok = false
	func() {
		defer func() { recover() }()
		x, err := t.GoValue(binary.LittleEndian, bs)
		if err != nil {
			return
		}
		tm, isTime := x.(time.Time)
		if !isTime {
			return
		}
		u := tm.UTC()
		back := vTime(u.Year(), int(u.Month()), u.Day(), u.Hour(), u.Minute(), u.Second(), u.Nanosecond())
		rb2, rok2 := refEncode(t, n, back)
		ok = rok2 && string(rb2) == string(bs)
	}()
	return ok
}

// ---------------------------------------------------------------- helpers of asetime (fn 4)

func timeTree(u time.Time) sx.T {
	u = u.UTC()
	return vTime(u.Year(), int(u.Month()), u.Day(), u.Hour(), u.Minute(), u.Second(), u.Nanosecond()).tree()
}

func helper(which int, arg sx.T, f func() sx.T, tag string) {
	var o sx.T
	func() {
		defer func() {
			if r := recover(); r != nil {
				o = panicT
			}
		}()
		o = f()
	}()
	out.Case(4, sx.L{sx.I(int64(which)), arg}, o, tag)
}

func helpersOfTime(v val, tag string) {
	tm := v.timeValue()
	helper(1, v.tree(), func() sx.T { return sx.U64(asetime.TimeToMicroseconds(tm)) }, tag)
	helper(3, v.tree(), func() sx.T { return sx.I(int64(asetime.DurationFromDateTime(tm))) }, tag)
	helper(7, v.tree(), func() sx.T { return timeTree(asetime.MicrosecondsToTime(asetime.TimeToMicroseconds(tm))) }, tag)
}

func helpersOfTOD(v val, tag string) {
	tm := v.timeValue()
	helper(4, v.tree(), func() sx.T { return sx.I(int64(asetime.DurationFromTime(tm))) }, tag)
}

func helperUs(us uint64, tag string) {
	helper(2, sx.U64(us), func() sx.T { return timeTree(asetime.MicrosecondsToTime(us)) }, tag)
}

func helperM2F(us int64, tag string) {
	helper(5, sx.I(us), func() sx.T { return sx.I(int64(asetime.MillisecondToFractionalSecond(int(us)))) }, tag)
}

func helperF2M(ticks int64, tag string) {
	helper(6, sx.I(ticks), func() sx.T { return sx.I(int64(asetime.FractionalSecondToMillisecond(int(ticks)))) }, tag)
}

// ---------------------------------------------------------------- own civil stepping (selection of days)

func isLeap(y int) bool { return y%4 == 0 && (y%100 != 0 || y%400 == 0) }
func monthLen(y, m int) int {
	switch m {
	case 4, 6, 9, 11:
		return 30
	case 2:
		if isLeap(y) {
			return 29
		}
		return 28
	}
	return 31
}

func denseYear(y int) bool {
	return y <= 2 || (y >= 1890 && y <= 1910) || (y >= 2078 && y <= 2080) || y >= 9998 ||
		y == 1582 || y == 1583 || y == 1752 || y == 1753 || y == 1600 || y == 1700 || y == 1760 || y == 1580
}

// ---------------------------------------------------------------- generators

var fixedInt = []struct {
	t  asetypes.DataType
	ik int
}{{asetypes.INT1, iU8}, {asetypes.INT2, iI16}, {asetypes.INT4, iI32}, {asetypes.INT8, iI64},
	{asetypes.UINT2, iU16}, {asetypes.UINT4, iU32}, {asetypes.UINT8, iU64}}

func ikWidth(ik int) int {
	return map[int]int{iU8: 1, iI8: 1, iU16: 2, iI16: 2, iU32: 4, iI32: 4, iU64: 8, iI64: 8}[ik]
}
func ikSigned(ik int) bool { return ik == iI8 || ik == iI16 || ik == iI32 || ik == iI64 }

// boundary and random values of an integer kind of 32 or 64 bits
func intSamples(ik int, nrand int) []*big.Int {
	w := uint(8 * ikWidth(ik))
	var lo, hi *big.Int
	if ikSigned(ik) {
		lo = new(big.Int).Neg(new(big.Int).Lsh(big.NewInt(1), w-1))
		hi = new(big.Int).Sub(new(big.Int).Lsh(big.NewInt(1), w-1), big.NewInt(1))
	} else {
		lo = big.NewInt(0)
		hi = new(big.Int).Sub(new(big.Int).Lsh(big.NewInt(1), w), big.NewInt(1))
	}
	seen := map[string]bool{}
	var r []*big.Int
	add := func(x *big.Int) {
		if x.Cmp(lo) < 0 || x.Cmp(hi) > 0 || seen[x.String()] {
			return
		}
		seen[x.String()] = true
		r = append(r, x)
	}
	add(lo)
	add(hi)
	for k := uint(0); k <= w; k++ {
		p := new(big.Int).Lsh(big.NewInt(1), k)
		for _, d := range []int64{-1, 0, 1} {
			add(new(big.Int).Add(p, big.NewInt(d)))
			add(new(big.Int).Neg(new(big.Int).Add(p, big.NewInt(d))))
		}
	}
	for i := 0; i < nrand; i++ {
		x := new(big.Int).SetUint64(rng.U64())
		x.Rsh(x, uint(rng.Intn(int(w)))+64-w)
		if ikSigned(ik) && rng.Bool() {
			x.Neg(x)
		}
		add(x)
	}
	return r
}

func genInts() {
	nr := 2000
	if tier == "thorough" {
		nr = 100000
	}
	// exhaustive 8 and 16 bit
	for x := 0; x < 256; x++ {
		value(asetypes.INT1, 1, vUint(iU8, uint64(x)), "int;INT1;uint8")
		value(asetypes.INTN, 1, vUint(iU8, uint64(x)), "int;INTN;uint8")
		value(asetypes.UINTN, 1, vUint(iU8, uint64(x)), "int;UINTN;uint8")
		value(asetypes.INT1, 1, vInt(iI8, int64(int8(x))), "offdomain;INT1;int8")
		value(asetypes.INTN, 1, vInt(iI8, int64(int8(x))), "offdomain;INTN;int8")
	}
	for x := 0; x < 65536; x++ {
		value(asetypes.INT2, 2, vInt(iI16, int64(int16(x))), "int;INT2;int16")
		value(asetypes.UINT2, 2, vUint(iU16, uint64(x)), "int;UINT2;uint16")
		if tier == "thorough" || x%7 == 0 || x&0xff == 0xff || x&0xff == 0 || x >= 0x7f00 && x <= 0x8100 {
			value(asetypes.INTN, 2, vInt(iI16, int64(int16(x))), "int;INTN;int16")
			value(asetypes.UINTN, 2, vUint(iU16, uint64(x)), "int;UINTN;uint16")
		}
		if x%257 == 0 || x >= 0x7ff0 && x <= 0x8010 {
			value(asetypes.INTN, 2, vUint(iU16, uint64(x)), "offdomain;INTN;uint16-comes-back-signed")
			value(asetypes.UINTN, 2, vInt(iI16, int64(int16(x))), "offdomain;UINTN;int16")
		}
	}
	for _, f := range fixedInt {
		if ikWidth(f.ik) < 4 {
			continue
		}
		nt := map[bool]asetypes.DataType{true: asetypes.INTN, false: asetypes.UINTN}[ikSigned(f.ik)]
		for _, x := range intSamples(f.ik, nr) {
			v := val{kind: kInt, ik: f.ik, z: x}
			value(f.t, ikWidth(f.ik), v, fmt.Sprintf("int;%s", f.t))
			value(nt, ikWidth(f.ik), v, fmt.Sprintf("int;%s;%d", nt, ikWidth(f.ik)))
		}
	}
	// off the domain: width/type mismatches, Go int/uint
	for _, f := range fixedInt {
		for _, ik := range []int{iU8, iI8, iU16, iI16, iU32, iI32, iU64, iI64, iInt, iUint} {
			if ik == f.ik {
				continue
			}
			value(f.t, ikWidth(f.ik), val{kind: kInt, ik: ik, z: big.NewInt(int64(rng.Intn(100)))}, "offdomain;int-kind-mismatch")
		}
	}
	value(asetypes.INTN, 4, val{kind: kInt, ik: iU32, z: big.NewInt(4000000000)}, "offdomain;INTN;uint32-comes-back-signed")
	value(asetypes.INTN, 8, val{kind: kInt, ik: iU64, z: new(big.Int).SetUint64(1 << 63)}, "offdomain;INTN;uint64-comes-back-signed")
	value(asetypes.INTN, 8, val{kind: kInt, ik: iInt, z: big.NewInt(7)}, "offdomain;INTN;int")
}

func genFloats() {
	nr := 2000
	if tier == "thorough" {
		nr = 100000
	}
	f32 := func(b uint32, d string) {
		value(asetypes.FLT4, 4, vF32(b), "float;FLT4;"+d)
		value(asetypes.FLTN, 4, vF32(b), "float;FLTN;4;"+d)
	}
	f64 := func(b uint64, d string) {
		value(asetypes.FLT8, 8, vF64(b), "float;FLT8;"+d)
		value(asetypes.FLTN, 8, vF64(b), "float;FLTN;8;"+d)
	}
	for s := uint32(0); s < 2; s++ {
		for e := uint32(0); e < 256; e++ {
			for _, m := range []uint32{0, 1, 0x400000, 0x7fffff, uint32(rng.U64()) & 0x7fffff} {
				f32(s<<31|e<<23|m, "exponent-sweep")
			}
		}
		for i := 0; i < 64; i++ { // NaN payloads (quiet and signalling)
			f32(s<<31|0xff<<23|(uint32(rng.U64())&0x7fffff|1), "nan")
		}
	}
	for s := uint64(0); s < 2; s++ {
		for e := uint64(0); e < 2048; e++ {
			for _, m := range []uint64{0, 1, 1 << 51, 1<<52 - 1, rng.U64() & (1<<52 - 1)} {
				f64(s<<63|e<<52|m, "exponent-sweep")
			}
		}
		for i := 0; i < 64; i++ {
			f64(s<<63|0x7ff<<52|(rng.U64()&(1<<52-1)|1), "nan")
		}
	}
	for i := 0; i < nr; i++ {
		f32(uint32(rng.U64()), "random")
		f64(rng.U64(), "random")
	}
	value(asetypes.FLT4, 4, vF64(0x3ff0000000000000), "offdomain;float-width-mismatch")
	value(asetypes.FLT8, 8, vF32(0x3f800000), "offdomain;float-width-mismatch")
	value(asetypes.FLTN, 8, vInt(iI64, 1), "offdomain;FLTN;int64")
}

func genBit() {
	value(asetypes.BIT, 1, vBool(false), "bit;false")
	value(asetypes.BIT, 1, vBool(true), "bit;true")
	value(asetypes.BIT, 1, vUint(iU8, 1), "offdomain;BIT;uint8")
	for x := 0; x < 256; x++ {
		rawDecode(asetypes.BIT, []byte{byte(x)}, "malformed;BIT;any-byte")
	}
}

var charTypes = []asetypes.DataType{asetypes.CHAR, asetypes.VARCHAR, asetypes.LONGCHAR, asetypes.TEXT}
var binTypes = []asetypes.DataType{asetypes.BINARY, asetypes.VARBINARY, asetypes.LONGBINARY, asetypes.IMAGE, asetypes.XML}

func randRune() rune {
	for {
		var r rune
		switch rng.Intn(10) {
		case 0, 1:
			r = rune(rng.Range(0, 0x7f))
		case 2:
			r = rune(rng.Range(0x80, 0x7ff))
		case 3, 4:
			r = rune(rng.Range(0x800, 0xffff))
		case 5:
			r = rune(rng.Range(0x10000, 0x1ffff))
		case 6:
			r = rune(rng.Range(0x20000, 0x2ffff))
		case 7:
			r = rune(rng.Range(0x30000, 0xeffff))
		case 8:
			r = rune(rng.Range(0xf0000, 0x10ffff))
		default:
			r = []rune{0, 0xd7ff, 0xe000, 0xfffd, 0xffff, 0x10000, 0x10ffff, 0xfeff, 0xfffe}[rng.Intn(9)]
		}
		if r >= 0xd800 && r <= 0xdfff {
			continue
		}
		return r
	}
}

func randRunes(n int) []rune {
	rs := make([]rune, n)
	for i := range rs {
		rs[i] = randRune()
	}
	for rs[n-1] == 0 {
		rs[n-1] = randRune()
	}
	return rs
}

func genStrings() {
	step := 1
	for n := 1; n <= 255; n += step {
		for _, t := range charTypes {
			value(t, n, vStr(rng.Bytes(n)), fmt.Sprintf("char;%s", t))
		}
		for _, t := range binTypes {
			value(t, n, vBytes(rng.Bytes(n)), fmt.Sprintf("binary;%s", t))
		}
		value(asetypes.UNITEXT, 2*n, vText(randRunes(n)), "unitext;random-planes")
		if tier == "thorough" {
			for k := 0; k < 8; k++ {
				value(asetypes.UNITEXT, 2*n, vText(randRunes(n)), "unitext;random-planes")
			}
		}
	}
	// every byte value, every 16-bit code point block edge
	all := make([]byte, 256)
	for i := range all {
		all[i] = byte(255 - i)
	}
	for _, t := range charTypes {
		value(t, 256, vStr(all), fmt.Sprintf("char;%s;all-bytes", t))
	}
	for _, t := range binTypes {
		value(t, 256, vBytes(all), fmt.Sprintf("binary;%s;all-bytes", t))
	}
	for _, r := range []rune{1, 0x7f, 0x80, 0xff, 0x100, 0x7ff, 0x800, 0xd7ff, 0xe000, 0xfffd, 0xffff, 0x10000, 0x10001, 0x103ff, 0x10400,
		0x1f600, 0x2ffff, 0xe0001, 0xfffff, 0x100000, 0x10fc00, 0x10ffff} {
		value(asetypes.UNITEXT, 4, vText([]rune{r}), "unitext;single-boundary-code-point")
		value(asetypes.UNITEXT, 12, vText([]rune{'a', 0, r, 'b'}), "unitext;interior-nul")
	}
	value(asetypes.UNITEXT, 6, vText([]rune("abc")), "unitext;vector-abc")
	value(asetypes.UNITEXT, 0, vText([]rune("aé€😀")), "unitext;vector-design")
	// long values for the 4-byte-length types
	longs := []int{256, 65535, 65536, 70000}
	if tier == "thorough" {
		longs = append(longs, 1000, 32767, 32768, 69999, 100000)
	}
	for _, n := range longs {
		for _, t := range []asetypes.DataType{asetypes.LONGCHAR, asetypes.TEXT} {
			value(t, n, vStr(rng.Bytes(n)), fmt.Sprintf("char;%s;long", t))
		}
		for _, t := range []asetypes.DataType{asetypes.LONGBINARY, asetypes.IMAGE, asetypes.XML} {
			value(t, n, vBytes(rng.Bytes(n)), fmt.Sprintf("binary;%s;long", t))
		}
		value(asetypes.UNITEXT, 2*n, vText(randRunes(n/2)), "unitext;long")
	}
	// off the domain: empty values decode to NULL, trailing U+0000 is trimmed, []byte for char types and vice versa
	for _, t := range charTypes {
		value(t, 0, vStr([]byte{}), "offdomain;empty-string")
		value(t, 3, vBytes([]byte{1, 2, 3}), "offdomain;bytes-for-char")
		value(t, 3, vText([]rune{'a', 0xe9, 0x20ac, 0x1f600}), "offdomain;non-ascii-string-for-char")
	}
	for _, t := range binTypes {
		value(t, 0, vBytes([]byte{}), "offdomain;empty-bytes")
		value(t, 3, vStr([]byte("abc")), "offdomain;string-for-binary")
	}
	value(asetypes.UNITEXT, 0, vText([]rune{}), "offdomain;unitext-empty")
	value(asetypes.UNITEXT, 0, vText([]rune{'a', 0}), "offdomain;unitext-trailing-nul")
	value(asetypes.UNITEXT, 0, vText([]rune{0, 0}), "offdomain;unitext-only-nul")
	value(asetypes.UNITEXT, 0, vBytes([]byte{1}), "offdomain;unitext-bytes-value")
	// UNITEXT decode of arbitrary UTF-16: lone surrogates, swapped pairs, odd lengths, trailing NULs
	nd := 3000
	if tier == "thorough" {
		nd = 100000
	}
	for i := 0; i < nd; i++ {
		n := rng.Range(1, 12)
		bs := make([]byte, 0, 2*n+1)
		for k := 0; k < n; k++ {
			var u uint16
			switch rng.Intn(6) {
			case 0:
				u = uint16(rng.Range(0xd800, 0xdbff))
			case 1:
				u = uint16(rng.Range(0xdc00, 0xdfff))
			case 2:
				u = 0
			case 3:
				u = uint16(rng.Range(0, 0xff))
			default:
				u = uint16(rng.U64())
			}
			bs = append(bs, byte(u), byte(u>>8))
		}
		if rng.Intn(20) == 0 {
			bs = append(bs, byte(rng.U64()))
		}
		rawDecode(asetypes.UNITEXT, bs, "malformed;UNITEXT;arbitrary-utf16")
	}
}

func genMoney() {
	nr := 3000
	if tier == "thorough" {
		nr = 100000
	}
	for _, x := range intSamples(iI64, nr) {
		value(asetypes.MONEY, 8, vDec(20, 4, x), "money;MONEY")
		value(asetypes.MONEYN, 8, vDec(20, 4, x), "money;MONEYN;8")
	}
	for _, x := range intSamples(iI32, nr) {
		value(asetypes.SHORTMONEY, 4, vDec(10, 4, x), "money;SHORTMONEY")
		value(asetypes.MONEYN, 4, vDec(10, 4, x), "money;MONEYN;4")
	}
	value(asetypes.MONEY, 8, vDec(20, 4, new(big.Int).SetUint64(1<<63-1)), "money;vector-max")
	// off the domain: beyond int64 / int32 (wraps), other precision/scale, wrong lengths, Decimal without value
	big1 := new(big.Int).Lsh(big.NewInt(1), 64)
	for _, x := range []*big.Int{new(big.Int).Lsh(big.NewInt(1), 63), new(big.Int).Neg(new(big.Int).Add(new(big.Int).Lsh(big.NewInt(1), 63), big.NewInt(1))),
		big1, new(big.Int).Add(big1, big.NewInt(5)), new(big.Int).Neg(new(big.Int).Add(big1, big.NewInt(5))), new(big.Int).Lsh(big.NewInt(3), 100)} {
		value(asetypes.MONEY, 8, vDec(38, 4, x), "offdomain;money-beyond-int64")
		value(asetypes.SHORTMONEY, 4, vDec(38, 4, x), "offdomain;money-beyond-int32")
	}
	value(asetypes.SHORTMONEY, 4, vDec(20, 4, big.NewInt(1<<31)), "offdomain;money-beyond-int32")
	value(asetypes.SHORTMONEY, 4, vDec(20, 4, big.NewInt(-(1<<31)-1)), "offdomain;money-beyond-int32")
	for _, n := range []int{0, 1, 2, 3, 5, 7, 9, 16} {
		value(asetypes.MONEYN, n, vDec(20, 4, big.NewInt(123456)), "offdomain;money-length")
	}
	value(asetypes.MONEY, 4, vDec(20, 4, big.NewInt(1)), "offdomain;money-length")
	value(asetypes.SHORTMONEY, 8, vDec(20, 4, big.NewInt(1)), "offdomain;money-length")
	value(asetypes.MONEY, 8, vDec(20, 4, nil), "offdomain;decimal-without-value")
	for _, n := range []int{0, 4, 8} {
		value(asetypes.MONEYN, n, vDec(0, 0, nil), "null;MONEYN;decimal-without-value")
		value(asetypes.MONEYN, n, vDec(20, 4, nil), "null;MONEYN;decimal-without-value")
		value(asetypes.DECN, n, vDec(0, 0, nil), "null;DECN;decimal-without-value")
		value(asetypes.NUMN, n, vDec(18, 0, nil), "null;NUMN;decimal-without-value")
	}
	value(asetypes.MONEY, 8, vInt(iI64, 5), "offdomain;wrongtype")
	value(asetypes.MONEY, -1, vDec(20, 4, big.NewInt(1)), "offdomain;negative-length")
	for i := 0; i < 200; i++ {
		rawDecode(asetypes.MONEYN, rng.Bytes(rng.Range(0, 9)), "malformed;MONEYN;any-length")
	}
}

func genDecimals() {
	pow := func(k int) *big.Int { return new(big.Int).Exp(big.NewInt(10), big.NewInt(int64(k)), nil) }
	one := big.NewInt(1)
	emit := func(p, s int, x *big.Int, d string) {
		for _, t := range []asetypes.DataType{asetypes.DECN, asetypes.NUMN} {
			value(t, 0, vDec(p, s, x), fmt.Sprintf("decimal;%s;%s", t, d))
			if x.Sign() != 0 {
				value(t, 0, vDec(p, s, new(big.Int).Neg(x)), fmt.Sprintf("decimal;%s;%s", t, d))
			}
		}
	}
	for p := 1; p <= 38; p++ {
		for s := 0; s <= p; s++ {
			emit(p, s, big.NewInt(0), "zero")
			emit(p, s, one, "one")
			emit(p, s, new(big.Int).Sub(pow(p), one), "max")
			ks := []int{p - 1, rng.Intn(p), rng.Intn(p)}
			nr := 3
			if tier == "thorough" || (p == 38 && (s == 0 || s == 19 || s == 38)) || (p == 18 && s == 0) {
				ks = nil
				for k := 0; k < p; k++ {
					ks = append(ks, k)
				}
				nr = 20
			}
			for _, k := range ks {
				emit(p, s, pow(k), "pow10")
				if k > 0 {
					emit(p, s, new(big.Int).Sub(pow(k), one), "pow10-1")
				}
			}
			for i := 0; i < nr; i++ {
				x := new(big.Int).SetBytes(rng.Bytes(17))
				x.Mod(x, pow(rng.Range(1, p)))
				emit(p, s, x, "random")
			}
		}
	}
	// byte-length boundaries 2^(8k)-1, 2^(8k)
	for k := 1; k <= 16; k++ {
		x := new(big.Int).Lsh(one, uint(8*k))
		if len(x.String()) <= 38 {
			emit(38, 0, x, "byte-boundary")
			emit(38, 0, new(big.Int).Sub(x, one), "byte-boundary")
		}
	}
	// the machine-word boundary of the magnitude: 8 magnitude bytes with the top bit set (2^63 .. 2^64-1) and its neighbours
	p2 := func(k uint) *big.Int { return new(big.Int).Lsh(one, k) }
	for _, x := range []*big.Int{new(big.Int).Sub(p2(63), one), p2(63), new(big.Int).Add(p2(63), one), new(big.Int).Sub(p2(64), one), p2(64),
		new(big.Int).Add(p2(64), one), new(big.Int).Sub(pow(19), one), pow(19), new(big.Int).Add(p2(63), new(big.Int).SetUint64(rng.U64()>>1)),
		new(big.Int).Sub(p2(32), one), p2(32), new(big.Int).Sub(p2(31), one), p2(31)} {
		for _, p := range []int{10, 19, 20, 21, 38} {
			if len(x.String()) > p {
				continue
			}
			for _, s := range []int{0, 1, 4, p / 2, p} {
				emit(p, s, x, "word-boundary")
			}
		}
	}
	// off the domain: beyond 38 digits (still encodes), Decimal without value, wrong type
	value(asetypes.DECN, 0, vDec(38, 0, new(big.Int).Lsh(one, 200)), "offdomain;decimal-beyond-38-digits")
	value(asetypes.DECN, 0, vDec(38, 0, nil), "null;DECN;decimal-without-value")
	value(asetypes.NUMN, 0, vStr([]byte("1.5")), "offdomain;wrongtype")
	for i := 0; i < 300; i++ {
		bs := rng.Bytes(rng.Range(0, 18))
		if len(bs) > 0 && rng.Bool() {
			bs[0] = byte(rng.Intn(3))
		}
		rawDecode(asetypes.DECN, bs, "malformed;DECN;any-bytes")
		rawDecode(asetypes.NUMN, bs, "malformed;NUMN;any-bytes")
	}
}

var noon = [4]int{12, 34, 56, 789000000}

func genDays() {
	y, m, d := 1, 1, 1
	idx := 0
	sweepN, sweepFails := 0, 0
	defer func() {
		if tier == "thorough" {
			out.Case(9, sx.L{sx.B([]byte("DATETIME every day 0001-01-01..9999-12-31 at 00:00 and 12:34:56.789")), sx.I(int64(sweepN))},
				sx.Ints(int64(sweepN), int64(sweepFails)), "daysweep;go-side-only")
		}
	}()
	for y <= 9999 {
		last := d == monthLen(y, m)
		// month boundaries: the last day of every month of every year; the first day of January and March of every
		// year and of every month in every 4th year (quick tier)
		sel := tier == "thorough" || denseYear(y) || last || (m == 2 && d == 29) ||
			(d == 1 && (m == 1 || m == 3 || y%4 == 0)) || (y >= 1580 && y <= 1760 && idx%3 == 0)
		if sel {
			dense := tier == "thorough" || denseYear(y) || (y >= 1580 && y <= 1760)
			dv := vTime(y, m, d, 0, 0, 0, 0)
			nv := vTime(y, m, d, noon[0], noon[1], noon[2], noon[3])
			value(asetypes.DATE, 4, dv, "date;DATE;midnight")
			viaModel := tier != "thorough" || denseYear(y) || idx%4 == 0
			if tier == "thorough" { // every day at both times on the Go side
				sweepN += 2
				if !goSide(asetypes.DATETIME, 8, nv) {
					sweepFails++
				}
				if !goSide(asetypes.DATETIME, 8, dv) {
					sweepFails++
				}
			}
			if viaModel && (dense || last && (y%5 == 0 || y%100 == 99 || y%100 == 1)) {
				value(asetypes.DATETIME, 8, nv, "datetime;DATETIME;12:34:56.789")
			}
			if viaModel && (tier == "thorough" || denseYear(y) || d == 1 && y%5 == 0) {
				value(asetypes.DATETIME, 8, dv, "datetime;DATETIME;midnight")
			}
			if (tier != "thorough" || denseYear(y) || y%10 == 0) && (dense && d <= 3 || y%97 == 0 && d == 1) {
				value(asetypes.DATE, 4, nv, "date;DATE;with-time-part")
				value(asetypes.DATEN, 4, dv, "date;DATEN")
				value(asetypes.DATETIMEN, 8, nv, "datetime;DATETIMEN;8")
				bv := vTime(y, m, d, 23, 59, 59, 999999000)
				value(asetypes.BIGDATETIMEN, 8, bv, "bigdatetime;last-microsecond-of-day")
				value(asetypes.BIGDATETIMEN, 8, dv, "bigdatetime;midnight")
				helpersOfTime(dv, "helper;day")
				helpersOfTime(bv, "helper;day-last-microsecond")
			}
			if (m == 2 && d == 29) || (last || d == 1 || (m == 2 && d >= 28)) && (tier == "thorough" || denseYear(y) || y%25 == 0 || y%100 == 99) {
				helpersOfTime(nv, "helper;month-boundary")
			}
		}
		idx++
		d++
		if d > monthLen(y, m) {
			d = 1
			m++
			if m > 12 {
				m = 1
				y++
			}
		}
	}
}

var sampleDays = [][3]int{{1900, 1, 1}, {1899, 12, 31}, {2000, 2, 29}, {1, 1, 1}, {9999, 12, 31}, {1753, 1, 1}, {1969, 12, 31}, {2079, 6, 6}}

// the microsecond just below / at the boundary between the rounding cells of tick k and k+1
func cellBoundary(k int) int { return ((2*k+1)*5000 + 2) / 3 }

func todOf(us int, ns int) (int, int, int, int) {
	return us / 3600000000, us / 60000000 % 60, us / 1000000 % 60, us%1000000*1000 + ns
}

func genTicks() {
	const dayTicks = 25920000
	var ks []int
	for k := 0; k < 1000; k++ {
		ks = append(ks, k, dayTicks-1-k)
	}
	nr := 20000
	if tier == "thorough" {
		nr = 100000
	}
	for i := 0; i < nr; i++ {
		ks = append(ks, rng.Intn(dayTicks))
	}
	for i, k := range ks {
		day := sampleDays[i%len(sampleDays)]
		exact := k * 1000 / 300 * 1000 // what a decoder yields for tick k (millisecond truncation)
		b := cellBoundary(k)
		for j, us := range []int{exact, b - 1, b} {
			if us >= 86400000000 || (tier != "thorough" && i >= 2000 && j != i%3) {
				continue
			}
			ns := 0
			if j > 0 && rng.Intn(4) == 0 {
				ns = rng.Intn(1000)
			}
			h, mi, s, n := todOf(us, ns)
			v := vTime(day[0], day[1], day[2], h, mi, s, n)
			d := []string{"on-tick", "below-cell-boundary", "at-cell-boundary"}[j]
			cls := "datetime"
			tcls := "time"
			if us >= 86399998334 { // rounds up to the tick count of a whole day
				cls, tcls = "datetime-carry", "time-lastcell"
			}
			full := true
			value(asetypes.DATETIME, 8, v, cls+";DATETIME;tick;"+d)
			if i%8 == 0 {
				value(asetypes.DATETIMEN, 8, v, cls+";DATETIMEN;8;tick;"+d)
			}
			tv := vTime(1, 1, 1, h, mi, s, n)
			if full || j == i%3 {
				value(asetypes.TIME, 4, tv, tcls+";TIME;tick;"+d)
			}
			if i%8 == 0 {
				value(asetypes.TIMEN, 4, tv, tcls+";TIMEN;tick;"+d)
				value(asetypes.TIME, 4, v, tcls+";TIME;date-part-ignored;"+d)
				value(asetypes.BIGTIMEN, 8, tv, "bigtime;tick-sample")
				helpersOfTOD(v, "helper;time-of-day")
			}
			if i%16 == 0 {
				helperM2F(int64(us), "helper;ticks-of-us")
			}
		}
		if i%4 == 0 {
			helperF2M(int64(k), "helper;us-of-ticks")
		}
	}
	// the last half tick of a day: DATETIME carries into the next day, TIME has no next day
	for i := 0; i < 300; i++ {
		us := 86399998334 + i
		if i >= 100 {
			us = rng.Range(86399998334, 86399999999)
		}
		h, mi, s, n := todOf(us, 0)
		day := sampleDays[i%len(sampleDays)]
		value(asetypes.DATETIME, 8, vTime(day[0], day[1], day[2], h, mi, s, n), "datetime-carry;DATETIME;last-half-tick")
		value(asetypes.TIME, 4, vTime(1, 1, 1, h, mi, s, n), "time-lastcell;TIME;last-half-tick")
		value(asetypes.TIMEN, 4, vTime(1, 1, 1, h, mi, s, n), "time-lastcell;TIMEN;last-half-tick")
	}
	// 9999-12-31 within the last half tick: carries into year 10000
	value(asetypes.DATETIME, 8, vTime(9999, 12, 31, 23, 59, 59, 999000000), "datetime-carry;DATETIME;year-10000")
	// random microseconds of random days
	nm := 20000
	if tier == "thorough" {
		nm = 150000
	}
	for i := 0; i < nm; i++ {
		y, m := rng.Range(1, 9999), rng.Range(1, 12)
		d := rng.Range(1, monthLen(y, m))
		us := int(rng.U64() % 86400000000)
		h, mi, s, n := todOf(us, rng.Intn(1000)*(rng.Intn(2)))
		v := vTime(y, m, d, h, mi, s, n)
		cls := "datetime"
		if us >= 86399998334 {
			cls = "datetime-carry"
		}
		value(asetypes.DATETIME, 8, v, cls+";DATETIME;random-microsecond")
		value(asetypes.BIGDATETIMEN, 8, v, "bigdatetime;random-microsecond")
		if i%8 == 0 {
			value(asetypes.BIGTIMEN, 8, vTime(1, 1, 1, h, mi, s, n), "bigtime;random-microsecond")
			value(asetypes.BIGTIMEN, 8, v, "bigtime;date-part-ignored")
			value(asetypes.DATE, 4, v, "date;DATE;with-time-part")
			helpersOfTime(v, "helper;random-microsecond")
		}
	}
	for _, us := range []int{0, 1, 999, 1000, 999999, 1000000, 86399999999} {
		h, mi, s, n := todOf(us, 0)
		value(asetypes.BIGTIMEN, 8, vTime(1, 1, 1, h, mi, s, n), "bigtime;boundary")
		value(asetypes.BIGTIMEN, 8, vTime(1, 1, 1, h, mi, s, n+999), "bigtime;sub-microsecond-dropped")
	}
}

func genSmall() {
	// smalldatetime: days 0..65535 x minutes 0..1439
	y, m, d := 1900, 1, 1
	for day := 0; day <= 65535; day++ {
		var mins []int
		if day == 0 || day == 65535 || day == 36524 || (tier == "thorough" && day%1000 == 0) {
			for k := 0; k < 1440; k += 1 {
				mins = append(mins, k)
			}
		} else if tier == "thorough" && day%1000 != 0 {
			mins = []int{0, 1439, rng.Intn(1440), rng.Intn(1440), rng.Intn(1440), rng.Intn(1440)}
		} else if day < 3 || day > 65532 || day%1000 == 0 {
			mins = []int{0, 1439}
			for k := 0; k < 20; k++ {
				mins = append(mins, rng.Intn(1440))
			}
		} else {
			mins = []int{[]int{0, 1439, rng.Intn(1440)}[rng.Intn(3)]}
		}
		for i, mn := range mins {
			sec, ns := 0, 0
			if i%3 == 2 {
				sec, ns = rng.Intn(60), rng.Intn(1000000000)
			}
			v := vTime(y, m, d, mn/60, mn%60, sec, ns)
			value(asetypes.SHORTDATE, 4, v, "smalldatetime;SHORTDATE")
			if i == 0 && day%8 == 0 {
				value(asetypes.DATETIMEN, 4, v, "smalldatetime;DATETIMEN;4")
			}
		}
		d++
		if d > monthLen(y, m) {
			d = 1
			m++
			if m > 12 {
				m = 1
				y++
			}
		}
	}
	value(asetypes.SHORTDATE, 4, vTime(2079, 6, 6, 23, 59, 0, 0), "smalldatetime;vector-max")
	value(asetypes.SHORTDATE, 4, vTime(1899, 12, 31, 0, 0, 0, 0), "offdomain;smalldatetime-before-1900")
	value(asetypes.SHORTDATE, 4, vTime(2079, 6, 7, 0, 0, 0, 0), "offdomain;smalldatetime-after-2079")
}

// the seconds boundary of a minute, for every temporal type: the classic 8-byte/4-byte tick types ROUND to the nearest
// 1/300 s tick, so hh:mm:59.998334 and later belongs to the first tick of the NEXT minute (23:59:59.998334.. to the
// next day for DATETIME, to the last tick for TIME); the minute-granular smalldatetime layout (SHORTDATE, DATETIMEN(4)),
// DATE and the microsecond types TRUNCATE: the same instants stay in their minute / day / microsecond. Times of day
// hh:mm:59.996 .. .999999999 around that boundary and whole/half-minute seconds (0, 29, 30, 58, 59), for several
// hours and minutes incl. 23:59, on the first and last days of every type's range and the day before.
var boundaryHM = [][2]int{{0, 0}, {0, 59}, {11, 59}, {12, 0}, {12, 30}, {22, 59}, {23, 0}, {23, 58}, {23, 59}}

var boundarySecNs = [][2]int{
	{59, 996000000}, {59, 996666000}, {59, 996667000}, {59, 997000000}, {59, 998000000}, {59, 998333000}, {59, 998333999},
	{59, 998334000}, {59, 998500000}, {59, 999000000}, {59, 999999000}, {59, 999999999},
	{0, 0}, {0, 999999999}, {29, 0}, {29, 999999999}, {30, 0}, {30, 999999000}, {58, 999999999}, {59, 0},
}

func genSecondBoundaries() {
	smallDays := [][3]int{{1900, 1, 1}, {1900, 1, 2}, {2000, 2, 28}, {2000, 2, 29}, {2024, 5, 17}, {2079, 6, 5}, {2079, 6, 6}}
	dtDays := [][3]int{{1, 1, 1}, {1753, 1, 1}, {1899, 12, 30}, {1899, 12, 31}, {1900, 1, 1}, {2000, 2, 28}, {2024, 12, 31}, {9999, 12, 30}, {9999, 12, 31}}
	todDays := [][3]int{{1, 1, 1}, {2000, 2, 29}}
	each := func(days [][3]int, f func(v val, us int, d string)) {
		for _, day := range days {
			for _, hm := range boundaryHM {
				for _, sn := range boundarySecNs {
					us := hm[0]*3600000000 + hm[1]*60000000 + sn[0]*1000000 + sn[1]/1000
					d := "second-boundary"
					if sn[0] == 59 && sn[1] >= 998334000 {
						d = "second-boundary;rounds-into-next-minute"
					}
					f(vTime(day[0], day[1], day[2], hm[0], hm[1], sn[0], sn[1]), us, d)
				}
			}
		}
	}
	each(smallDays, func(v val, us int, d string) {
		value(asetypes.SHORTDATE, 4, v, "smalldatetime;SHORTDATE;"+d)
		value(asetypes.DATETIMEN, 4, v, "smalldatetime;DATETIMEN;4;"+d)
	})
	each(dtDays, func(v val, us int, d string) {
		cls := "datetime"
		if us >= 86399998334 { // rounds up to the tick count of a whole day
			cls = "datetime-carry"
		}
		value(asetypes.DATETIME, 8, v, cls+";DATETIME;"+d)
		value(asetypes.DATETIMEN, 8, v, cls+";DATETIMEN;8;"+d)
		value(asetypes.BIGDATETIMEN, 8, v, "bigdatetime;"+d)
		value(asetypes.DATE, 4, v, "date;DATE;"+d)
		value(asetypes.DATEN, 4, v, "date;DATEN;"+d)
		if v.tm[3] >= 22 || v.tm[3] == 0 {
			helpersOfTime(v, "helper;"+d)
		}
	})
	each(todDays, func(v val, us int, d string) {
		cls := "time"
		if us >= 86399998334 {
			cls = "time-lastcell"
		}
		dd := d
		if v.tm[0] != 1 {
			dd = "date-part-ignored;" + d
		}
		value(asetypes.TIME, 4, v, cls+";TIME;"+dd)
		value(asetypes.TIMEN, 4, v, cls+";TIMEN;"+dd)
		value(asetypes.BIGTIMEN, 8, v, "bigtime;"+dd)
		helpersOfTOD(v, "helper;time-of-day;"+d)
		if v.tm[0] == 1 {
			helperM2F(int64(us), "helper;ticks-of-us;"+d)
		}
	})
}

func genTemporalOff() {
	// documented vectors
	value(asetypes.DATETIME, 8, vTime(1753, 1, 1, 0, 0, 0, 0), "datetime;vector-1753")
	value(asetypes.DATETIME, 8, vTime(9999, 12, 31, 23, 59, 59, 996000000), "datetime;vector-max")
	value(asetypes.DATE, 4, vTime(9999, 12, 31, 0, 0, 0, 0), "date;vector-max")
	value(asetypes.DATE, 4, vTime(1, 1, 1, 0, 0, 0, 0), "date;vector-min")
	value(asetypes.BIGDATETIMEN, 8, vTime(1, 1, 1, 0, 0, 0, 0), "bigdatetime;vector-0001")
	value(asetypes.BIGDATETIMEN, 8, vTime(9999, 12, 31, 23, 59, 59, 999999000), "bigdatetime;vector-max")
	// outside years 1..9999 and other lengths
	for _, y := range []int{0, -1, -400, -4712, -4800, -4801, -5000, 10000, 20000, 292000, 292277, 292278, 300000, 1000000, -292000, -300000} {
		for _, md := range [][2]int{{1, 1}, {2, 28}, {3, 1}, {12, 31}} {
			v := vTime(y, md[0], md[1], 1, 2, 3, 4000)
			value(asetypes.DATE, 4, v, "offdomain;year")
			value(asetypes.DATETIME, 8, v, "offdomain;year")
			value(asetypes.BIGDATETIMEN, 8, v, "offdomain;year")
			value(asetypes.SHORTDATE, 4, v, "offdomain;year")
			if prop == "C04" {
				helpersOfTime(v, "offdomain;helper-year")
			}
		}
	}
	v := vTime(2001, 2, 3, 4, 5, 6, 7000000)
	for _, t := range []asetypes.DataType{asetypes.DATE, asetypes.DATEN, asetypes.TIME, asetypes.TIMEN, asetypes.SHORTDATE, asetypes.DATETIME,
		asetypes.DATETIMEN, asetypes.BIGDATETIMEN, asetypes.BIGTIMEN} {
		for _, n := range []int{-1, 0, 1, 2, 3, 4, 5, 7, 8, 9, 12} {
			value(t, n, v, "offdomain;temporal-length")
		}
		value(t, 8, vStr([]byte("2001-02-03")), "offdomain;wrongtype")
		value(t, 8, vInt(iI64, 5), "offdomain;wrongtype")
	}
	// decode of arbitrary bytes of every length 0..9 for the temporal types
	nd := 300
	if tier == "thorough" {
		nd = 20000
	}
	for _, t := range []asetypes.DataType{asetypes.DATE, asetypes.DATEN, asetypes.TIME, asetypes.TIMEN, asetypes.SHORTDATE, asetypes.DATETIME,
		asetypes.DATETIMEN, asetypes.BIGDATETIMEN, asetypes.BIGTIMEN} {
		for i := 0; i < nd; i++ {
			n := []int{0, 1, 2, 3, 4, 4, 4, 5, 7, 8, 8, 8, 9}[rng.Intn(13)]
			bs := rng.Bytes(n)
			if n >= 4 && rng.Bool() { // plausible day numbers
				binary.LittleEndian.PutUint32(bs, uint32(int32(rng.Range(-700000, 3000000))))
			}
			if n == 8 && rng.Intn(3) == 0 {
				binary.LittleEndian.PutUint64(bs, rng.U64()%(400000000000000000))
			}
			rawDecode(t, bs, fmt.Sprintf("malformed;%s;any-bytes", t))
		}
	}
	// microsecond helpers on arbitrary counts
	for i := 0; i < 2000; i++ {
		helperUs(rng.U64()%315569520000000000, "helper;us-to-time")
	}
	for _, us := range []uint64{0, 1, 86399999999, 86400000000, 31622400000000, 31622399999999, 315537897599999999, 59958144000000000, 59958230399999999} {
		helperUs(us, "helper;us-to-time-boundary")
	}
	for _, us := range []int64{-1, -4999, -5000, -5001, -1666, -1667, 86400000000, 86399998333, 86399998334, 1666, 1667, 4999, 5000, 5001} {
		helperM2F(us, "helper;ticks-of-us-boundary")
	}
	for _, k := range []int64{-1, -2, -3, -300, 25920000, 25919999, 4294967295, 2147483647, -2147483648} {
		helperF2M(k, "helper;us-of-ticks-boundary")
	}
}

func genNullsAndTables() {
	for c := 0; c < 256; c++ {
		t := asetypes.DataType(c)
		for _, n := range []int{0, 4} {
			value(t, n, vNull(), "null;every-type-code")
		}
		if prop == "C04" {
			out.Case(3, sx.I(int64(c)), tableRow(t), "table;every-type-code")
			for _, n := range []int{0, 1, 2, 3, 4, 5, 8, 9} {
				rawDecode(t, rng.Bytes(n), "malformed;every-type-code;random-bytes")
			}
		}
	}
}

// thorough only: every 1/300 s tick of whole days, checked on the Go side (the model is
// checked on the sampled ticks above); reported as counts
func genTickSweep() {
	if tier != "thorough" {
		return
	}
	for _, day := range [][3]int{{2000, 1, 1}, {1899, 12, 31}} {
		fails, n := 0, 0
		for k := 0; k < 25920000; k++ {
			ms := k * 1000 / 300
			tm := time.Date(day[0], time.Month(day[1]), day[2], 0, 0, 0, 0, time.UTC).Add(time.Duration(ms) * time.Millisecond)
			bs, err := asetypes.DATETIME.Bytes(binary.LittleEndian, tm, 8)
			n++
			if err != nil || len(bs) != 8 || int(binary.LittleEndian.Uint32(bs[4:])) != k {
				fails++
				continue
			}
			x, err := asetypes.DATETIME.GoValue(binary.LittleEndian, bs)
			if err != nil {
				fails++
				continue
			}
			if back, ok := x.(time.Time); !ok || !back.Equal(tm) {
				fails++
			}
		}
		out.Case(9, sx.L{sx.Ints(int64(day[0]), int64(day[1]), int64(day[2])), sx.I(int64(n))}, sx.Ints(int64(n), int64(fails)), "ticksweep;go-side-only")
	}
}

// ---------------------------------------------------------------- tabulation

func tableRow(t asetypes.DataType) sx.T {
	k := 0
	if rt := t.GoReflectType(); rt != nil {
		k = int(rt.Kind())
	}
	return sx.L{sx.I(int64(t.ByteSize())), sx.I(int64(t.LengthBytes())), sx.I(int64(k)), sx.B([]byte(t.String()))}
}

func coqZ(v int) string {
	if v < 0 {
		return fmt.Sprintf("(%d)", v)
	}
	return fmt.Sprintf("%d", v)
}

func writeGen(path string) {
	var b strings.Builder
	b.WriteString("(* GENERATED by harness/cmd/c04 from /repo by executing the code; do not edit. *)\n")
	b.WriteString("From Coq Require Import ZArith List.\nImport ListNotations.\nOpen Scope Z_scope.\n")
	names := []struct {
		n string
		t asetypes.DataType
	}{{"BIGDATETIMEN", asetypes.BIGDATETIMEN}, {"BIGTIMEN", asetypes.BIGTIMEN}, {"BINARY", asetypes.BINARY}, {"BIT", asetypes.BIT},
		{"BLOB", asetypes.BLOB}, {"BOUNDARY", asetypes.BOUNDARY}, {"CHAR", asetypes.CHAR}, {"DATE", asetypes.DATE}, {"DATEN", asetypes.DATEN},
		{"DATETIME", asetypes.DATETIME}, {"DATETIMEN", asetypes.DATETIMEN}, {"DECN", asetypes.DECN}, {"FLT4", asetypes.FLT4},
		{"FLT8", asetypes.FLT8}, {"FLTN", asetypes.FLTN}, {"IMAGE", asetypes.IMAGE}, {"INT1", asetypes.INT1}, {"INT2", asetypes.INT2},
		{"INT4", asetypes.INT4}, {"INT8", asetypes.INT8}, {"INTN", asetypes.INTN}, {"LONGBINARY", asetypes.LONGBINARY},
		{"LONGCHAR", asetypes.LONGCHAR}, {"MONEY", asetypes.MONEY}, {"MONEYN", asetypes.MONEYN}, {"NUMN", asetypes.NUMN},
		{"SENSITIVITY", asetypes.SENSITIVITY}, {"SHORTDATE", asetypes.SHORTDATE}, {"SHORTMONEY", asetypes.SHORTMONEY}, {"TEXT", asetypes.TEXT},
		{"TIME", asetypes.TIME}, {"TIMEN", asetypes.TIMEN}, {"UINT2", asetypes.UINT2}, {"UINT4", asetypes.UINT4}, {"UINT8", asetypes.UINT8},
		{"UINTN", asetypes.UINTN}, {"UNITEXT", asetypes.UNITEXT}, {"VARBINARY", asetypes.VARBINARY}, {"VARCHAR", asetypes.VARCHAR},
		{"VOID", asetypes.VOID}, {"XML", asetypes.XML}, {"INTERVAL", asetypes.INTERVAL}, {"SINT1", asetypes.SINT1},
		{"USER_TEXT", asetypes.USER_TEXT}, {"USER_IMAGE", asetypes.USER_IMAGE}, {"USER_UNITEXT", asetypes.USER_UNITEXT}}
	for _, n := range names {
		fmt.Fprintf(&b, "Definition t_%s : Z := %d.\n", n.n, int(n.t))
	}
	// constants of the packages the model refers to
	fmt.Fprintf(&b, "Definition c_dec_default_precision : Z := %d.\nDefinition c_dec_default_scale : Z := %d.\n", asetypes.ASEDecimalDefaultPrecision, asetypes.ASEDecimalDefaultScale)
	fmt.Fprintf(&b, "Definition c_money_precision : Z := %d.\nDefinition c_money_scale : Z := %d.\n", asetypes.ASEMoneyPrecision, asetypes.ASEMoneyScale)
	fmt.Fprintf(&b, "Definition c_shortmoney_precision : Z := %d.\nDefinition c_shortmoney_scale : Z := %d.\n", asetypes.ASEShortMoneyPrecision, asetypes.ASEShortMoneyScale)
	fmt.Fprintf(&b, "Definition c_day_us : Z := %d.\nDefinition c_minute_us : Z := %d.\nDefinition c_millisecond_us : Z := %d.\n", int64(asetime.Day), int64(asetime.Minute), int64(asetime.Millisecond))
	e := asetime.Epoch1900()
	fmt.Fprintf(&b, "Definition c_epoch1900 : Z * Z * Z := (%d, %d, %d).\n", e.Year(), int(e.Month()), e.Day())
	r := asetime.EpochRataDie()
	fmt.Fprintf(&b, "Definition c_epoch_ratadie : Z * Z * Z := (%d, %d, %d).\n", r.Year(), int(r.Month()), r.Day())
	// (code, (ByteSize, LengthBytes, reflect kind or 0, name))
	b.WriteString("Definition dt_table : list (Z * (Z * Z * Z * list Z)) := [\n")
	for c := 0; c < 256; c++ {
		t := asetypes.DataType(c)
		k := 0
		if rt := t.GoReflectType(); rt != nil {
			k = int(rt.Kind())
		}
		var p []string
		for _, ch := range []byte(t.String()) {
			p = append(p, fmt.Sprint(int(ch)))
		}
		sep := ";"
		if c == 255 {
			sep = ""
		}
		fmt.Fprintf(&b, " (%d, (%s, %s, %d, [%s]))%s\n", c, coqZ(t.ByteSize()), coqZ(t.LengthBytes()), k, strings.Join(p, ";"), sep)
	}
	b.WriteString("].\n")
	if old, err := os.ReadFile(path); err == nil && string(old) == b.String() {
		return // unchanged: keep the time stamp so that the compiled proofs stay up to date
	}
	if err := os.WriteFile(path, []byte(b.String()), 0o644); err != nil {
		fmt.Fprintln(os.Stderr, err)
		os.Exit(2)
	}
}

// genFlag collects repeated -gen arguments.
type genFlag []string

func (g *genFlag) String() string     { return strings.Join(*g, ",") }
func (g *genFlag) Set(v string) error { *g = append(*g, v); return nil }

func main() {
	var gens genFlag
	flag.Var(&gens, "gen", "write Gen/GenC04.v (and, named GenPkg.v, the tables of the package layer) here; may be repeated")
	outp := flag.String("out", "", "write case file here")
	flag.StringVar(&tier, "tier", "quick", "quick|thorough")
	flag.StringVar(&prop, "prop", "C04", "C04|C05")
	flag.Parse()
	for _, g := range gens {
		if filepath.Base(g) == "GenPkg.v" {
			pk.WriteGen(g) // the same tabulation as harness/cmd/pkgs -gen (the package leg of C04 is built on the Pkg models)
		} else {
			writeGen(g)
		}
	}
	if *outp == "" {
		return
	}
	rng = sx.NewRng(sx.EnvSeed())
	out = sx.NewOut(*outp)
	if prop == "C04PKG" { // development aid: the package leg alone
		prop = "C04"
		genPkgLeg()
		out.Close()
		return
	}
	// boundary enumerations first, then random structured cases, then malformed inputs
	genNullsAndTables()
	genBit()
	genTemporalOff()
	genInts()
	genFloats()
	genMoney()
	genDecimals()
	genStrings()
	genSecondBoundaries()
	genSmall()
	genDays()
	genTicks()
	genTickSweep()
	if prop == "C04" {
		genPkgLeg()
	}
	out.Close()
	fmt.Printf("%s %s: %d cases\n", prop, tier, out.N)
}
