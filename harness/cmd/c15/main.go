// c15: drives tds.PacketQueue with generated operation histories and records, per step,
// the observable result and the full internal state (verif hook) for comparison with the
// Coq model (fn 1), the flat-FIFO specification (fn 2) and the write-layout reference (fn 3).
package main

import (
	"errors"
	"flag"
	"fmt"

	"github.com/SAP/go-dblib/tds"
	"verifharness/sx"
)

type op struct {
	kind int // 0 reset, 1 add, 2 setpos, 3 discard, 4 bytes, 5 read, 6 le, 7 write, 8 try
	data []byte
	eom  bool
	a, b int
}

func (o op) tree() sx.T {
	switch o.kind {
	case 0, 3, 9, 10:
		return sx.L{sx.I(int64(o.kind))}
	case 1:
		return sx.L{sx.I(1), sx.B(o.data), sx.Bool(o.eom)}
	case 2:
		return sx.L{sx.I(2), sx.I(int64(o.a)), sx.I(int64(o.b))}
	case 4, 5, 6, 8:
		return sx.L{sx.I(int64(o.kind)), sx.I(int64(o.a))}
	case 7:
		return sx.L{sx.I(7), sx.I(int64(o.a)), sx.B(o.data)}
	}
	return sx.L{}
}

// fop tree (fn 2) omits the eom flag of Add
func (o op) ftree() sx.T {
	if o.kind == 1 {
		return sx.L{sx.I(1), sx.B(o.data)}
	}
	return o.tree()
}

func errClass(err error) int64 {
	if err == nil {
		return 0
	}
	if errors.Is(err, tds.ErrNotEnoughBytes) {
		return 1
	}
	return 2
}

func view(q *tds.PacketQueue) sx.T {
	datas, lens, ip, id, eom := q.VerifState()
	var ps sx.L
	for i := range datas {
		ps = append(ps, sx.L{sx.I(int64(lens[i])), sx.B(datas[i])})
	}
	if ps == nil {
		ps = sx.L{}
	}
	return sx.L{ps, sx.I(int64(ip)), sx.I(int64(id)), sx.Bool(eom), sx.Bool(q.AllPacketsConsumed()), sx.Bool(q.IsEOM())}
}

type queue struct {
	q        *tds.PacketQueue
	ps       int
	sip, sid int  // position saved by op 9
	saved    bool // ... and still valid (no discard / reset since)
	n        int  // operation counter: selects among the equivalent methods of the queue (typed / signed / string variants)
}

func newQueue() *queue {
	qq := &queue{ps: 512}
	qq.q = tds.NewPacketQueue(func() int { return qq.ps })
	return qq
}

// apply runs one op; returns the observable and whether it panicked
func (qq *queue) apply(o op) (obs sx.T, panicked bool) {
	defer func() {
		if r := recover(); r != nil {
			obs, panicked = sx.L{sx.I(-1)}, true
		}
	}()
	q := qq.q
	switch o.kind {
	case 0:
		q.Reset()
		qq.saved = false
		return sx.L{}, false
	case 9:
		qq.sip, qq.sid = q.Position()
		qq.saved = true
		return sx.L{}, false
	case 10:
		if qq.saved {
			q.SetPosition(qq.sip, qq.sid)
		}
		return sx.L{}, false
	case 1:
		p := &tds.Packet{Data: append([]byte{}, o.data...)}
		p.Header.Length = uint16(8 + len(o.data))
		if o.eom {
			p.Header.Status |= tds.TDS_BUFSTAT_EOM
		}
		q.AddPacket(p)
		return sx.L{}, false
	case 2:
		q.SetPosition(o.a, o.b)
		return sx.L{}, false
	case 3:
		q.DiscardUntilCurrentPosition()
		qq.saved = false
		return sx.L{}, false
	case 4:
		// Bytes(n), or one of its equivalents: String(n), and for n = 1 Byte()
		qq.n++
		var bs []byte
		var err error
		switch {
		case o.a == 1 && qq.n%3 == 0:
			var b byte
			b, err = q.Byte()
			if err == nil {
				bs = []byte{b}
			}
		case o.a >= 0 && qq.n%3 == 1:
			var str string
			str, err = q.String(o.a)
			bs = []byte(str)
		default:
			bs, err = q.Bytes(o.a)
		}
		if errClass(err) == 2 {
			bs = nil
		}
		return sx.L{sx.I(errClass(err)), sx.B(bs)}, false
	case 5:
		if o.a < 0 {
			return sx.L{sx.I(2), sx.B(nil)}, false
		}
		buf := make([]byte, o.a)
		for i := range buf {
			buf[i] = 0xEE
		}
		n, err := q.Read(buf)
		// Read must have filled the caller's buffer with the n bytes it reports
		return sx.L{sx.I(errClass(err)), sx.B(buf[:n])}, false
	case 6:
		// unsigned or signed typed read of the width (the signed result is shown as its unsigned bit pattern)
		qq.n++
		signed := qq.n%2 == 0
		var v uint64
		var err error
		switch o.a {
		case 1:
			if signed {
				var x int8
				x, err = q.Int8()
				v = uint64(uint8(x))
			} else {
				var x uint8
				x, err = q.Uint8()
				v = uint64(x)
			}
		case 2:
			if signed {
				var x int16
				x, err = q.Int16()
				v = uint64(uint16(x))
			} else {
				var x uint16
				x, err = q.Uint16()
				v = uint64(x)
			}
		case 4:
			if signed {
				var x int32
				x, err = q.Int32()
				v = uint64(uint32(x))
			} else {
				var x uint32
				x, err = q.Uint32()
				v = uint64(x)
			}
		case 8:
			if signed {
				var x int64
				x, err = q.Int64()
				v = uint64(x)
			} else {
				v, err = q.Uint64()
			}
		}
		return sx.L{sx.I(errClass(err)), sx.U64(v)}, false
	case 7:
		// WriteBytes(data), or an equivalent: the typed write of that width (unsigned / signed), WriteString, Write
		qq.ps = o.a
		qq.n++
		var err error
		d := o.data
		switch k := qq.n % 4; {
		case k == 0 && len(d) == 1:
			if qq.n%8 == 0 {
				err = q.WriteInt8(int8(d[0]))
			} else if qq.n%8 == 4 {
				err = q.WriteByte(d[0])
			} else {
				err = q.WriteUint8(d[0])
			}
		case k == 0 && len(d) == 2:
			x := uint16(d[0]) | uint16(d[1])<<8
			if qq.n%8 == 0 {
				err = q.WriteInt16(int16(x))
			} else {
				err = q.WriteUint16(x)
			}
		case k == 0 && len(d) == 4:
			x := uint32(d[0]) | uint32(d[1])<<8 | uint32(d[2])<<16 | uint32(d[3])<<24
			if qq.n%8 == 0 {
				err = q.WriteInt32(int32(x))
			} else {
				err = q.WriteUint32(x)
			}
		case k == 0 && len(d) == 8:
			var x uint64
			for i := 7; i >= 0; i-- {
				x = x<<8 | uint64(d[i])
			}
			if qq.n%8 == 0 {
				err = q.WriteInt64(int64(x))
			} else {
				err = q.WriteUint64(x)
			}
		case k == 1:
			err = q.WriteString(string(d))
		case k == 2:
			var n int
			n, err = q.Write(d)
			if err == nil && n != len(d) {
				return sx.L{sx.I(2)}, false
			}
		default:
			err = q.WriteBytes(d)
		}
		if err != nil {
			return sx.L{sx.I(2)}, false
		}
		return sx.L{}, false
	case 8:
		ip, id := q.Position()
		bs, err := q.Bytes(o.a)
		c := errClass(err)
		if c == 1 {
			q.SetPosition(ip, id)
		}
		if c == 2 {
			bs = nil
		}
		return sx.L{sx.I(c), sx.B(bs)}, false
	}
	return sx.L{}, false
}

func runFn1(out *sx.Out, ops []op, tag string) {
	qq := newQueue()
	var in, res sx.L
	for _, o := range ops {
		in = append(in, o.tree())
		obs, p := qq.apply(o)
		if p {
			res = append(res, sx.L{obs})
			break
		}
		res = append(res, sx.L{obs, view(qq.q)})
	}
	// ops after a panic are not part of the case
	out.Case(1, in[:len(res)], res, tag)
}

func runFn2(out *sx.Out, ops []op, tag string) {
	qq := newQueue()
	var in, res sx.L
	for _, o := range ops {
		in = append(in, o.ftree())
		obs, p := qq.apply(o)
		res = append(res, obs)
		if p {
			break
		}
	}
	out.Case(2, in[:len(res)], res, tag)
}

// fn 4: rx history with explicit save / restore operations
func runFn4(out *sx.Out, ops []op, tag string) {
	qq := newQueue()
	var in, res sx.L
	for _, o := range ops {
		in = append(in, o.ftree())
		obs, p := qq.apply(o)
		res = append(res, obs)
		if p {
			break
		}
	}
	out.Case(4, in[:len(res)], res, tag)
}

type write struct {
	ps   int
	data []byte
}

func runFn3(out *sx.Out, ws []write, n int, tag string) {
	qq := newQueue()
	var in sx.L
	total := 0
	for _, w := range ws {
		in = append(in, sx.L{sx.I(int64(w.ps)), sx.B(w.data)})
		total += len(w.data)
		if _, p := qq.apply(op{kind: 7, a: w.ps, data: w.data}); p {
			out.Case(3, sx.L{in, sx.I(int64(n))}, sx.L{sx.I(-1)}, "panic-in-write;"+tag)
			return
		}
	}
	v := view(qq.q)
	qq.q.SetPosition(0, 0)
	obs, _ := qq.apply(op{kind: 4, a: n})
	if n > total {
		tag = "tx-pastwrite;" + tag
	}
	out.Case(3, sx.L{in, sx.I(int64(n))}, sx.L{v, obs}, tag)
}

func seqBytes(start *int, n int) []byte {
	b := make([]byte, n)
	for i := range b {
		*start++
		b[i] = byte(*start%251 + 1)
	}
	return b
}

func main() {
	outp := flag.String("out", "", "case file")
	tier := flag.String("tier", "quick", "")
	flag.Parse()
	out := sx.NewOut(*outp)
	defer out.Close()
	rng := sx.NewRng(sx.EnvSeed())
	thorough := *tier == "thorough"

	// ---- fn 2: exhaustive short rx histories over a small alphabet
	ctr := 0
	alpha := []op{}
	for n := 0; n <= 3; n++ {
		alpha = append(alpha, op{kind: 1, data: make([]byte, n)})
	}
	for n := 0; n <= 3; n++ {
		alpha = append(alpha, op{kind: 4, a: n})
	}
	alpha = append(alpha, op{kind: 6, a: 1}, op{kind: 6, a: 2}, op{kind: 3}, op{kind: 0}, op{kind: 8, a: 2}, op{kind: 8, a: 3}, op{kind: 5, a: 2})
	maxLen := 4
	if thorough {
		maxLen = 5
	}
	var rec func(prefix []op, depth int)
	rec = func(prefix []op, depth int) {
		if len(prefix) > 0 {
			ops := make([]op, len(prefix))
			for i, o := range prefix {
				if o.kind == 1 {
					o.data = seqBytes(&ctr, len(o.data))
				}
				ops[i] = o
			}
			runFn2(out, ops, fmt.Sprintf("rx-exhaustive;len=%d", len(prefix)))
		}
		if depth == maxLen {
			return
		}
		for _, a := range alpha {
			rec(append(prefix, a), depth+1)
		}
	}
	rec(nil, 0)

	// ---- fn 4: save / restore as operations of their own: exhaustive short histories, random longer ones
	{
		alpha4 := []op{{kind: 1, data: make([]byte, 2)}, {kind: 1, data: make([]byte, 3)}, {kind: 4, a: 1}, {kind: 4, a: 3}, {kind: 4, a: 5},
			{kind: 9}, {kind: 10}, {kind: 3}, {kind: 6, a: 2}}
		max4 := 5
		if thorough {
			max4 = 6
		}
		var rec4 func(prefix []op, depth int)
		rec4 = func(prefix []op, depth int) {
			if len(prefix) >= 3 {
				ops := make([]op, len(prefix))
				for i, o := range prefix {
					if o.kind == 1 {
						o.data = seqBytes(&ctr, len(o.data))
					}
					ops[i] = o
				}
				runFn4(out, ops, fmt.Sprintf("tape-exhaustive;len=%d", len(prefix)))
			}
			if depth == max4 {
				return
			}
			for _, a := range alpha4 {
				rec4(append(prefix, a), depth+1)
			}
		}
		rec4(nil, 0)
		n4 := 2000
		if thorough {
			n4 = 60000
		}
		for c := 0; c < n4; c++ {
			l := rng.Range(5, 40)
			ops := make([]op, l)
			for i := range ops {
				switch r := rng.Intn(100); {
				case r < 28:
					ops[i] = op{kind: 1, data: rng.Bytes(rng.Intn(16))}
				case r < 50:
					ops[i] = op{kind: 4, a: rng.Intn(24)}
				case r < 60:
					ops[i] = op{kind: 6, a: []int{1, 2, 4, 8}[rng.Intn(4)]}
				case r < 72:
					ops[i] = op{kind: 9}
				case r < 86:
					ops[i] = op{kind: 10}
				case r < 93:
					ops[i] = op{kind: 3}
				case r < 95:
					ops[i] = op{kind: 0}
				default:
					ops[i] = op{kind: 8, a: rng.Intn(30)}
				}
			}
			runFn4(out, ops, "tape-random")
		}
	}

	// ---- fn 2: random longer rx histories
	nrand := 3000
	if thorough {
		nrand = 100000
	}
	for c := 0; c < nrand; c++ {
		l := rng.Range(5, 60)
		ops := make([]op, l)
		for i := range ops {
			switch r := rng.Intn(100); {
			case r < 30:
				ops[i] = op{kind: 1, data: rng.Bytes(rng.Intn(24))}
			case r < 55:
				ops[i] = op{kind: 4, a: rng.Intn(30)}
			case r < 60:
				ops[i] = op{kind: 5, a: rng.Intn(30)}
			case r < 72:
				ops[i] = op{kind: 6, a: []int{1, 2, 4, 8}[rng.Intn(4)]}
			case r < 84:
				ops[i] = op{kind: 3}
			case r < 86:
				ops[i] = op{kind: 0}
			case r < 99:
				ops[i] = op{kind: 8, a: rng.Intn(40)}
			default:
				ops[i] = op{kind: 4, a: -rng.Intn(3) - 1}
			}
		}
		runFn2(out, ops, "rx-random")
	}

	// ---- fn 1: arbitrary sequences incl. writes, position save/restore, mixed use
	nmix := 3000
	if thorough {
		nmix = 100000
	}
	for c := 0; c < nmix; c++ {
		l := rng.Range(3, 40)
		var ops []op
		var saved [][2]int
		qq := newQueue() // shadow run to know valid positions
		small := rng.Bool()
		for i := 0; i < l; i++ {
			var o op
			switch r := rng.Intn(100); {
			case r < 15:
				o = op{kind: 1, data: rng.Bytes(rng.Intn(20)), eom: rng.Intn(4) == 0}
			case r < 35:
				ps := rng.Range(9, 24)
				if !small {
					ps = rng.Range(9, 600)
				}
				n := rng.Intn(3*(ps-8) + 2)
				if rng.Intn(3) == 0 {
					n = (ps - 8) * rng.Intn(3)
				}
				o = op{kind: 7, a: ps, data: rng.Bytes(n)}
			case r < 55:
				o = op{kind: 4, a: rng.Intn(40)}
			case r < 60:
				o = op{kind: 5, a: rng.Intn(20)}
			case r < 68:
				o = op{kind: 6, a: []int{1, 2, 4, 8}[rng.Intn(4)]}
			case r < 78:
				o = op{kind: 3}
			case r < 80:
				o = op{kind: 0}
			case r < 95:
				if len(saved) > 0 && rng.Intn(4) != 0 {
					s := saved[rng.Intn(len(saved))]
					o = op{kind: 2, a: s[0], b: s[1]}
				} else {
					o = op{kind: 2, a: 0, b: 0}
				}
			default:
				o = op{kind: 4, a: -1}
			}
			ops = append(ops, o)
			if _, p := qq.apply(o); p {
				break
			}
			if o.kind == 3 || o.kind == 0 {
				if rng.Intn(10) != 0 { // mostly forget stale positions
					saved = nil
				}
			}
			ip, id := qq.q.Position()
			saved = append(saved, [2]int{ip, id})
		}
		runFn1(out, ops, "mixed")
	}

	// ---- fn 3: write layout at the boundaries, constant and changing packet sizes, rewind + read
	sizes := []int{9, 10, 16, 17, 255, 256, 257, 512, 600}
	if thorough {
		for s := 9; s <= 600; s++ {
			sizes = append(sizes, s)
		}
	}
	for _, ps := range sizes {
		body := ps - 8
		for k := 0; k <= 3; k++ {
			for d := -1; d <= 1; d++ {
				total := k*body + d
				if total < 1 {
					continue
				}
				data := rng.Bytes(total)
				// one write, two writes at every split (short) or a random split, many small writes
				splits := [][]int{{total}}
				if total <= 12 {
					for c := 1; c < total; c++ {
						splits = append(splits, []int{c, total - c})
					}
				} else {
					c := rng.Range(1, total-1)
					splits = append(splits, []int{c, total - c}, []int{body, total - body})
				}
				var many []int
				for rem := total; rem > 0; {
					c := rng.Range(1, 7)
					if c > rem {
						c = rem
					}
					many = append(many, c)
					rem -= c
				}
				splits = append(splits, many)
				for _, sp := range splits {
					var ws []write
					off := 0
					ok := true
					for _, c := range sp {
						if c <= 0 || off+c > total {
							ok = false
							break
						}
						ws = append(ws, write{ps, data[off : off+c]})
						off += c
					}
					if !ok {
						continue
					}
					capTotal := ((total + body - 1) / body) * body
					for _, n := range []int{0, 1, total - 1, total, total + 1, capTotal, capTotal + 1} {
						if n < 0 {
							continue
						}
						runFn3(out, ws, n, fmt.Sprintf("tx-const;ps=%d;k=%d;d=%d", ps, k, d))
					}
				}
			}
		}
	}
	// changing packet size between writes, partially filled packet at the change
	nch := 1500
	if thorough {
		nch = 60000
	}
	for c := 0; c < nch; c++ {
		nw := rng.Range(2, 5)
		var ws []write
		total := 0
		for i := 0; i < nw; i++ {
			ps := rng.Range(9, 40)
			if rng.Intn(4) == 0 {
				ps = rng.Range(9, 600)
			}
			n := rng.Range(1, 2*(ps-8)+3)
			if rng.Intn(3) == 0 {
				n = (ps - 8) * rng.Range(1, 2)
			}
			ws = append(ws, write{ps, rng.Bytes(n)})
			total += n
		}
		n := rng.Range(0, total)
		runFn3(out, ws, n, "tx-pschange")
	}
}
