package main

// C12 fn 6: the client sends between the packets of a package.
//
// Several channels (0 and logical ones) on one connection with the real reader goroutine; the peer's responses for the
// channels are cut into packets (cuts inside packages) and interleaved across the channels.  BETWEEN two packets, at
// scripted points, the client performs a whole message (QueuePackage ... SendPackage, or QueuePackage ... +
// SendRemainingPackets) or calls Channel.Reset - preferably on the channel whose package is incomplete at that moment,
// else on another channel.  Deterministic: a packet is fed, the harness waits until the reader has routed it and is
// parked in the next Read, only then the send runs, then the next packet is fed.
//
// input  (need nenv ps ((id nr0) ...) (op ...))   op = (0 packet) | (2 id typ ((chunk ...) ...) mode) | (3 id)
// output per op: packet -> ((id (event ...)) ...) (reported-invalid-id ...)) as fn 1
//                send / reset -> (code (#write ...))   code 0 ok | errCode | 9 did not return | -1 panic

import (
	"context"
	"fmt"
	"sort"

	"github.com/SAP/go-dblib/tds"
	"verifharness/pk"
	"verifharness/pk/core"
	"verifharness/sx"
)

type bop struct {
	kind int // 0 packet, 2 message, 3 reset
	pkt  core.Pkt
	id   int
	typ  int
	pkgs [][][]byte
	mode int
}

func (o bop) tree() sx.T {
	switch o.kind {
	case 0:
		return sx.L{sx.I(0), o.pkt.Tree()}
	case 3:
		return sx.L{sx.I(3), sx.I(int64(o.id))}
	}
	t := txop{kind: 0, id: o.id, typ: o.typ, pkgs: o.pkgs}.tree().(sx.L)
	return sx.L{sx.I(2), t[1], t[2], t[3], sx.I(int64(o.mode))}
}

func runBetween(out caser, need, nenv, ps int, ids, nr0 []int, ops []bop, tag string) {
	var chl, in sx.L
	for i, id := range ids {
		chl = append(chl, sx.L{sx.I(int64(id)), sx.I(int64(nr0[i]))})
	}
	for _, o := range ops {
		in = append(in, o.tree())
	}
	if in == nil {
		in = sx.L{}
	}
	input := sx.L{sx.I(int64(need)), sx.I(int64(nenv)), sx.I(int64(ps)), chl, in}

	e := newEnv(100000, true)
	defer e.shutdown()
	e.autoAck()
	chans := make([]*seqChan, len(ids))
	for i := range ids {
		ch, err, ok := e.newChannel()
		if !ok || err != nil || ch == nil {
			out.Case(6, input, sx.L{sx.I(-8), sx.I(int64(i))}, tag+";newchannel-failed")
			return
		}
		chans[i] = &seqChan{id: ch.VerifChannelId(), ch: ch}
	}
	for i := len(ids) - 1; i >= 0; i-- {
		if chans[i].id != ids[i] {
			chans[i].ch.VerifSetChannelId(ids[i])
			chans[i].id = ids[i]
		}
		chans[i].ch.VerifSetCurPacketNr(nr0[i])
		chans[i].register(need, nenv)
	}
	byId := map[int]*seqChan{}
	for _, c := range chans {
		byId[c.id] = c
	}
	e.conn.VerifSetPacketSize(ps)
	if !e.waitIdle() { // the acknowledgements of the SETUP packets are routed
		out.Case(6, input, sx.L{sx.I(-9)}, tag+";reader-not-idle")
		return
	}
	for _, c := range chans {
		c.drain()
	}
	connErrs(e.conn)

	res := sx.L{}
	for _, o := range ops {
		if o.kind == 0 {
			e.pc.Feed(core.WireBytes([]core.Pkt{o.pkt}))
			if !e.waitIdle() {
				res = append(res, sx.L{sx.I(-9)})
				break
			}
			touched := sx.L{}
			cerrs := connErrs(e.conn)
			for _, c := range chans {
				if evs := c.drain(); len(evs) > 0 {
					touched = append(touched, sx.L{sx.I(int64(c.id)), evs})
				}
			}
			sort.Slice(touched, func(a, b int) bool { return touched[a].(sx.L)[0].(sx.I) < touched[b].(sx.L)[0].(sx.I) })
			res = append(res, sx.L{touched, cerrs})
			continue
		}
		c := byId[o.id]
		start := e.pc.NWrites()
		var err error
		ret, pan := within(watchdog, func() {
			if o.kind == 3 {
				c.ch.Reset()
				return
			}
			c.ch.CurrentHeaderType = tds.PacketHeaderType(o.typ)
			for i, chunks := range o.pkgs {
				p := &chunkPkg{chunks}
				if o.mode == 0 && i == len(o.pkgs)-1 {
					err = c.ch.SendPackage(context.Background(), p)
				} else {
					err = c.ch.QueuePackage(context.Background(), p)
				}
				if err != nil {
					return
				}
			}
			if o.mode == 1 {
				err = c.ch.SendRemainingPackets(context.Background())
			}
		})
		code := int64(errCode(err, nil))
		switch {
		case !ret:
			code = 9
		case pan:
			code = -1
		}
		ws := sx.L{}
		for _, w := range e.pc.Writes()[start:] {
			ws = append(ws, sx.B(w))
		}
		res = append(res, sx.L{sx.I(code), ws})
		if !ret {
			break
		}
	}
	out.Case(6, input, res, tag)
}

// genBetween: per channel 1..2 responses cut into packets (cut probability 1/3, 1/6, 1/15: cuts inside packages), merged in
// random order; after a packet that leaves its channel's package incomplete a send / reset follows with probability
// 2/3 (on that channel 3 times out of 4, else on another one), after other packets with probability 1/6.  The first cases are
// fixed small ones: one or two channels, a DONE cut in two, the send exactly in the gap.
func genBetween(g *pk.Gen, out caser, n int) {
	rng := g.Rng
	done := func(count int64) []byte {
		return core.Stream([]core.Item{core.DoneItem(int(tds.TDS_DONE), 0x10, 0, count)})
	}
	k := 0
	for _, ids := range [][]int{{0}, {0, 1}, {0, 1, 2}, {0, 1, 257}} {
		for target := 0; target < len(ids); target++ {
			for what := 0; what < 3 && !tooManyHangs(); what++ {
				// every channel gets DONE(count=1000+id) cut after 4 bytes; first halves in channel order, then the client acts on
				// ids[target], then the second halves in the opposite order
				var ops []bop
				for _, id := range ids {
					b := done(int64(1000 + id))
					ops = append(ops, bop{kind: 0, pkt: core.Pkt{MsgType: 4, Channel: id, Body: b[:4]}})
				}
				act := bop{kind: 2, id: ids[target], typ: 15, pkgs: [][][]byte{{{0x21, 1, 2, 3}}}, mode: what}
				if what == 2 {
					act = bop{kind: 3, id: ids[target]}
				}
				ops = append(ops, act)
				for i := len(ids) - 1; i >= 0; i-- {
					b := done(int64(1000 + ids[i]))
					ops = append(ops, bop{kind: 0, pkt: core.Pkt{MsgType: 4, Channel: ids[i], EOM: true, Body: b[4:]}})
				}
				nr0 := make([]int, len(ids))
				for i, id := range ids {
					if id != 0 {
						nr0[i] = 1
					}
				}
				runBetween(out, 0, 0, 512, ids, nr0, ops, fmt.Sprintf("between-fixed;channels=%d;act=%d", len(ids), what))
				k++
			}
		}
	}
	sizes := []int{512, 512, 64, 16, 600}
	for ; k < n && !tooManyHangs(); k++ {
		nch := rng.Range(1, 6)
		switch k % 6 {
		case 0:
			nch = 1
		case 1:
			nch = 2
		case 2:
			nch = rng.Range(8, 16)
		}
		ids := pickIds(rng, nch, k%2 == 1)
		nr0 := make([]int, nch)
		for i := range nr0 {
			switch rng.Intn(4) {
			case 0:
				nr0[i] = 1
			case 1:
				nr0[i] = rng.Range(250, 255)
			default:
				nr0[i] = rng.Intn(256)
			}
			if ids[i] == 0 {
				nr0[i] = 0
			}
		}
		ps := sizes[rng.Intn(len(sizes))]
		streams := make([][]core.Pkt, nch)
		for i, id := range ids {
			for r := 0; r < rng.Range(1, 2); r++ {
				streams[i] = append(streams[i], responsePackets(g, id, []int{3, 6, 15}[rng.Intn(3)], false)...)
			}
		}
		var ops []bop
		pos := make([]int, nch)
		nacts, ngap := 0, 0
		for {
			var live []int
			for i := range streams {
				if pos[i] < len(streams[i]) {
					live = append(live, i)
				}
			}
			if len(live) == 0 {
				break
			}
			i := live[rng.Intn(len(live))]
			p := streams[i][pos[i]]
			ops = append(ops, bop{kind: 0, pkt: p})
			pos[i]++
			incomplete := !p.EOM && pos[i] < len(streams[i])
			var do bool
			if incomplete {
				do = rng.Intn(3) != 0
			} else {
				do = rng.Intn(6) == 0
			}
			if !do || nacts >= 12 {
				continue
			}
			j := i
			if !incomplete || rng.Intn(4) == 0 {
				j = rng.Intn(nch)
			}
			if j == i && incomplete {
				ngap++
			}
			nacts++
			if rng.Intn(5) == 0 {
				ops = append(ops, bop{kind: 3, id: ids[j]})
				continue
			}
			psm := ps
			if psm > 100 {
				psm = 100
			}
			ops = append(ops, bop{kind: 2, id: ids[j], typ: []int{15, 15, 1, 3}[rng.Intn(4)], pkgs: randomMessage(rng, psm+8), mode: rng.Intn(2)})
		}
		cls := "between"
		if ngap > 0 {
			cls = "between-gap"
		}
		runBetween(out, rng.Intn(3), rng.Intn(3), ps, ids, nr0, ops, fmt.Sprintf("%s;channels=%d;ps=%d;acts=%d;in-gap=%d", cls, nch, ps, nacts, ngap))
	}
}
