package main

// close-during-send (C13 fn 13): Close arrives WHILE a SendPackage of a message of 1..3 packets is in progress on the
// same logical channel.
//
//   input  (kind closer ps npackets k mode peer ack obs)
//   output (close-parked close-returned close-code send-returned send-code message-writes (next send close) unregistered
//           transport-closed connclose-returned reader-ended)             a scenario cut by its own watchdog: (-2)
//
//   The message needs npackets packets (packet size ps).  SendPackage is QueuePackage (writes the npackets-1 full packets
//   under the channel's read lock) followed by SendRemainingPackets (takes the read lock again, writes the last packet).
//   The transport holds back the k-th Write of the message (k = 1..npackets): the sender is parked inside a read-lock
//   section.  Then another goroutine calls Channel.Close (closer 0) or Conn.Close (closer 1; channel 0 is open too, the
//   peer answers its logout at once (peer 0) / after 300 ms (peer 1) / never (peer 2: not generated, see genCloseDuringSend)).
//   mode 1: the scenario waits until Close is seen parked in tdsChan.Lock() (goroutine dump), with ack = 1 the peer's
//           acknowledgement of the teardown (a header-only CLOSE packet) then arrives and the reader queues in
//           WritePacket's RLock behind the pending writer, 20 ms later the held Write is released.
//   mode 0: the held Write is released immediately after the closing goroutine was started (who is first at the lock is
//           the runtime's choice: the observed send result is recorded in the input as obs, -1 in mode 1).
//   kind: 1 a logical channel (kind 0, the sender on channel 0, is not generated: Close of channel 0 is a logout, i.e. a
//   second SendPackage on the same transmit queue - two senders on one channel, which C12 is about).
//   codes: close 0 nil | 1 an error list | 2 ErrChannelClosed | 9 not within the bound; send / after-calls as errCode
//   (0 nil | 1 context | 2 closed | 4 other, e.g. the transport's error) | 9 not within the bound.
//   message-writes: Writes of packets of the message (channel id, longer than a header) the transport saw.

import (
	"context"
	"errors"
	"fmt"
	"sync/atomic"
	"time"

	"github.com/SAP/go-dblib/tds"
	"verifharness/sx"
)

const cdsBound = 2500 * time.Millisecond // a call that must return gets this long in this family

type cdsCfg struct {
	kind, closer, ps, npackets, k, mode, peer, ack int
}

func runCloseDuringSend(out caser, c cdsCfg) {
	if tooManyHangs() {
		return
	}
	type result struct {
		in, out sx.T
		tag     string
	}
	tag := fmt.Sprintf("close-during-send;kind=%d;closer=%d;ps=%d;packets=%d;hold=%d;mode=%d;peer=%d;ack=%d",
		c.kind, c.closer, c.ps, c.npackets, c.k, c.mode, c.peer, c.ack)
	mkIn := func(obs int64) sx.T {
		return sx.L{sx.I(int64(c.kind)), sx.I(int64(c.closer)), sx.I(int64(c.ps)), sx.I(int64(c.npackets)), sx.I(int64(c.k)),
			sx.I(int64(c.mode)), sx.I(int64(c.peer)), sx.I(int64(c.ack)), sx.I(obs)}
	}
	done := make(chan result, 1)
	go func() {
		defer func() {
			if r := recover(); r != nil {
				done <- result{mkIn(-1), sx.L{sx.I(-1)}, tag + ";harness-panic"}
			}
		}()
		in, o, t := closeDuringSend(c, tag, mkIn)
		done <- result{in, o, t}
	}()
	// the scenario's own watchdog: every wait inside is bounded, their sum stays far below this
	limit := 8 * cdsBound
	if c.peer == 2 {
		limit += logoutMin
	}
	select {
	case r := <-done:
		out.Case(13, r.in, r.out, r.tag)
	case <-time.After(limit):
		atomic.AddInt32(&watchdogHits, 1)
		out.Case(13, mkIn(-1), sx.L{sx.I(-2)}, tag+";scenario-hung")
	}
}

func closeDuringSend(c cdsCfg, tag string, mkIn func(int64) sx.T) (sx.T, sx.T, string) {
	e := newC13(8, c.peer)
	defer e.shutdown()
	ch := e.channel(c.kind)
	if ch == nil {
		return mkIn(-1), sx.L{sx.I(-8)}, tag + ";newchannel-failed"
	}
	id := ch.VerifChannelId()
	e.conn.VerifSetPacketSize(c.ps)
	body := c.ps - 8
	payload := make([]byte, body*(c.npackets-1)+body/2+1)
	for i := range payload {
		payload[i] = byte(0x21 + i%7)
	}
	pkg := &chunkPkg{[][]byte{payload}}
	isMsg := func(w []byte) bool {
		h, ok := parseHdr(w)
		// (not the type: the teardown sets the channel's header type, packets of the message sent after it carry it too;
		// the teardown itself has no payload - the message's payload bytes are all non-zero)
		return ok && h.channel == id && len(w) > 8 && w[8] != 0
	}
	base := e.pc.NWrites()
	seen := 0
	e.pc.mu.Lock()
	e.pc.holdIf = func(w []byte) bool { // (called once per Write, under the transport's lock)
		if !isMsg(w) {
			return false
		}
		seen++
		return seen == c.k
	}
	e.pc.mu.Unlock()
	sendDone := make(chan int64, 1)
	go func() {
		code := int64(-1)
		defer func() { recover(); sendDone <- code }()
		code = int64(errCode(ch.SendPackage(context.Background(), pkg), nil))
	}()
	if !e.pc.WaitHeld(1, cdsBound) {
		e.pc.Release()
		return mkIn(-1), sx.L{sx.I(-7)}, tag + ";no-write-seen"
	}
	closeDone := make(chan int64, 1)
	go func() {
		code := int64(-1)
		defer func() { recover(); closeDone <- code }()
		var err error
		if c.closer == 1 {
			err = e.conn.Close()
		} else {
			err = ch.Close()
		}
		code = closeCode(err, true)
		if err != nil && code != 2 && c.closer == 0 && errors.Is(err, tds.ErrChannelClosed) {
			code = 2
		}
	}()
	closeParked := false
	if c.mode == 1 {
		// Close has sent the teardown and waits for the write lock while the sender is inside its read-lock section
		closeParked = waitParked("sync.RWMutex.Lock", "tds.(*Channel).Close", ch, cdsBound)
		if c.ack == 1 && closeParked {
			e.pc.Feed(wirePacket(int(tds.TDS_BUF_CLOSE), 1, id, 0, 0, nil))
			waitParked("sync.RWMutex.RLock", "tds.(*Channel).WritePacket", ch, cdsBound/2)
		}
		time.Sleep(20 * time.Millisecond)
	}
	e.pc.Release()
	bound := cdsBound
	if c.peer == 2 {
		bound = logoutMin
	}
	closeRet, closeRes := int64(0), int64(9)
	select {
	case x := <-closeDone:
		closeRet, closeRes = 1, x
	case <-time.After(bound):
		atomic.AddInt32(&watchdogHits, 1)
	}
	tclosed := b2i(e.pc.Closes() > 0)
	sendRet, sendRes := int64(0), int64(9)
	wait := cdsBound
	if closeRet == 0 {
		wait = 100 * time.Millisecond // (Close was already given the whole bound)
	}
	select {
	case x := <-sendDone:
		sendRet, sendRes = 1, x
	case <-time.After(wait):
	}
	msgWrites := 0
	for _, w := range e.pc.Writes()[base:] {
		if isMsg(w) {
			msgWrites++
		}
	}
	// afterwards every call reports the closed condition (not tried while Close or the sender is stuck inside the
	// channel: the calls would queue behind them, and each costs a full bound)
	after := sx.L{}
	connRet, readerEnded := int64(0), int64(0)
	if closeRet == 1 && sendRet == 1 {
		call := func(f func() error) {
			var err error
			r, pan := within(cdsBound, func() { err = f() })
			switch {
			case pan:
				after = append(after, sx.I(-1))
			case !r:
				after = append(after, sx.I(9))
			default:
				after = append(after, sx.I(int64(errCode(err, nil))))
			}
		}
		call(func() error { _, err := ch.NextPackage(context.Background(), false); return err })
		call(func() error { return ch.SendPackage(context.Background(), &chunkPkg{[][]byte{{0x21, 1, 2, 3}}}) })
		call(func() error { return ch.Close() })
	}
	unreg := true
	for _, x := range e.conn.VerifChannelIds() {
		if x == id {
			unreg = false
		}
	}
	if closeRet == 1 && sendRet == 1 {
		connRet = 1
		if c.closer == 0 {
			r, _ := within(cdsBound, func() { e.conn.Close() })
			connRet = b2i(r)
		}
		select {
		case <-e.readerDone:
			readerEnded = 1
		case <-time.After(cdsBound):
		}
	}
	obs := int64(-1)
	if c.mode == 0 {
		obs = sendRes
	}
	return mkIn(obs), sx.L{sx.I(b2i(closeParked)), sx.I(closeRet), sx.I(closeRes), sx.I(sendRet), sx.I(sendRes), sx.I(int64(msgWrites)),
		after, sx.I(b2i(unreg)), sx.I(tclosed), sx.I(connRet), sx.I(readerEnded)}, tag
}

// genCloseDuringSend: every (npackets, k), both closers, both modes; the scenarios only wait and run side by side
func genCloseDuringSend(out caser, thorough bool) {
	var fs []func(c caser)
	add := func(c cdsCfg) { fs = append(fs, func(o caser) { runCloseDuringSend(o, c) }) }
	reps := 1
	if thorough {
		reps = 6
	}
	for rep := 0; rep < reps; rep++ {
		for _, ps := range []int{64, 512} {
			for np := 1; np <= 3; np++ {
				for k := 1; k <= np; k++ {
					for _, mode := range []int{1, 0} {
						add(cdsCfg{kind: 1, closer: 0, ps: ps, npackets: np, k: k, mode: mode})
						for _, peer := range []int{0, 1} {
							add(cdsCfg{kind: 1, closer: 1, ps: ps, npackets: np, k: k, mode: mode, peer: peer})
						}
					}
					// the peer's acknowledgement of the teardown arrives while Close waits for the lock
					add(cdsCfg{kind: 1, closer: 0, ps: ps, npackets: np, k: k, mode: 1, ack: 1})
					if ps == 64 {
						add(cdsCfg{kind: 1, closer: 1, ps: ps, npackets: np, k: k, mode: 1, peer: (np + k) % 2, ack: 1})
					}
				}
			}
		}
		// (a peer that never answers the logout of channel 0 is not part of this family: Conn.Close then sits in that logout for
		// the documented minute before or after it reaches the logical channel, depending on Go's map iteration order, and
		// the window "Close arrives while the send is in progress" is missed or hit at random; the silent peer is the subject
		// of the conn-close families)
	}
	parallel(out, 8, fs)
}
