package main

// C13 families: scripted schedules on the real Conn / Channel with watchdogs.  Wall-clock values never reach the
// case file: only "returned within the bound" booleans and result codes.
//
// result codes of a call: (0 k) package k | (1) error wrapping a context error | (2) ErrChannelClosed |
//                         (3) ErrNoPackageReady | (4) another error | (5) io.EOF | (9) did not return within the bound
//
// fn 1  recv-cancelled     input (cap mode nfed ncalls)            output (result ...)
//        nfed packages are queued (the reader is parked on the full queue when nfed > cap), then the context is
//        cancelled (mode 0 own ctx, 1 connection ctx through Conn, 2 parent of the connection ctx, 3 own ctx with an
//        expired deadline), then NextPackage(ctx, wait=true) is called ncalls times, each in a settled state.
// fn 2  recv-cancel-during input (cap mode wait narrive (result ...))  output (1)
//        the call is started on an empty queue, then the cancellation and narrive packets race; the result history
//        is part of the input (judged for admissibility).
// fn 3  until-cancelled    input (cap mode nfed final cbkind)      output ((seen ...) result)
// fn 4  send-cancelled     input (ps mode api npackets holdAt)     output ((call-result ...) writes-after-cancel)
// fn 5  after-close        input (kind nqueued nlate)              output (close (call-result ...) writes-after delivered-after connerrs)
// fn 6  close-fill         input (kind cap nfed nconsumed peer)    output (returned code after)
// fn 7  conn-close         input (nchan cap (nqueued ...) peer transport) output (returned (closed ...) transport-closed reader-ended goroutines-ok)

import (
	"context"
	"errors"
	"fmt"
	"io"
	"runtime"
	"sync"
	"time"

	"github.com/SAP/go-dblib/tds"
	"verifharness/sx"
)

const (
	hangBound  = 4 * time.Second  // a call that must NOT block is given this long
	knownBound = 3 * time.Second  // scenarios expected to hang (known findings) are observed this long
	logoutMin  = 75 * time.Second // the documented minute of the logout wait plus slack
)

func donePkt(channel, k int, final bool) []byte {
	// a response in progress: DONE(MORE|COUNT) packages, one per packet, no EOM (at EOM the channel would add a final
	// DONE of its own); the final DONE(0) ends the response
	st, eom := 0x11, 0
	if final {
		st, eom = 0, 1
	}
	return wirePacket(4, eom, channel, 0, 0, []byte{0xfd, byte(st), 0, 0, 0, byte(k), byte(k >> 8), 0, 0})
}

func resTree(p tds.Package, err error, returned bool) sx.T {
	if !returned {
		return sx.L{sx.I(9)}
	}
	if err == io.EOF {
		return sx.L{sx.I(5)}
	}
	if err != nil {
		return sx.L{sx.I(int64(errCode(err, nil)))}
	}
	if d, ok := p.(*tds.DonePackage); ok {
		return sx.L{sx.I(0), sx.I(int64(d.Count))}
	}
	if p == nil {
		return sx.L{sx.I(6)}
	}
	return sx.L{sx.I(0), sx.I(-1)}
}

// errTree: the result of a call that returns only an error: (0) nil, else as resTree
func errTree(err error, returned bool) sx.T {
	if returned && err == nil {
		return sx.L{sx.I(0)}
	}
	return resTree(nil, err, returned)
}

// c13env: a connection whose peer acknowledges channel setups and answers logouts as configured
type c13env struct {
	*cenv
	peerLogout int // 0 answer at once, 1 answer after 300 ms, 2 never
	mu         sync.Mutex
	logouts    int
	fed, base  int // packages fed with feedDone / transport bytes read before the first of them
}

func newC13(cap int, peerLogout int) *c13env {
	e := &c13env{cenv: newEnv(cap, true), peerLogout: peerLogout}
	e.pc.onWrite = func(w []byte) {
		h, ok := parseHdr(w)
		if !ok {
			return
		}
		if h.typ == int(tds.TDS_BUF_SETUP) {
			e.pc.Feed(wirePacket(int(tds.TDS_BUF_PROTACK), 1, h.channel, 0, 0, nil))
			return
		}
		if h.channel == 0 && len(w) == 10 && w[8] == byte(tds.TDS_LOGOUT) {
			e.mu.Lock()
			e.logouts++
			mode := e.peerLogout
			e.mu.Unlock()
			switch mode {
			case 0:
				e.pc.Feed(donePkt(0, 0, true))
			case 1:
				go func() {
					time.Sleep(300 * time.Millisecond)
					e.pc.Feed(donePkt(0, 0, true))
				}()
			}
		}
	}
	return e
}

func (e *c13env) setPeer(mode int) {
	e.mu.Lock()
	e.peerLogout = mode
	e.mu.Unlock()
}

// channel of the wanted kind: 0 = channel 0, 1 = a logical channel (channel 0 is created first)
func (e *c13env) channel(kind int) *tds.Channel {
	ch, err, ok := e.newChannel()
	if !ok || err != nil {
		return nil
	}
	if kind == 0 {
		return ch
	}
	ch1, err, ok := e.newChannel()
	if !ok || err != nil {
		return nil
	}
	return ch1
}

// feedDone hands package number k (a DONE in a packet of its own) to the channel under observation
func (e *c13env) feedDone(ch *tds.Channel, k int, final bool) {
	if e.fed == 0 {
		e.base = e.pc.BytesRead()
	}
	e.fed++
	e.pc.Feed(donePkt(ch.VerifChannelId(), k, final))
}

const donePktLen = 17

// settle waits for the stable state the fed packets lead to: either the reader has processed all of them (it asks
// for more), or - more undelivered packages than the queue holds - it has read the packet whose package does not fit
// any more and is parked in the send on the full queue, holding the channel's read lock.  `taken` packages were
// taken out of the queue so far.  Returns true in the parked case.
func (e *c13env) settle(ch *tds.Channel, cap, taken int) bool {
	readerGone := func() bool {
		select {
		case <-e.readerDone:
			return true
		default:
			return false
		}
	}
	deadline := time.Now().Add(hangBound)
	if e.fed-taken <= cap {
		for time.Now().Before(deadline) && !readerGone() && !e.pc.WaitIdle(2*time.Millisecond) {
		}
		return false
	}
	want := e.base + donePktLen*(taken+cap+1)
	for time.Now().Before(deadline) && !readerGone() {
		n, _ := ch.VerifQueueLens()
		if n >= cap && e.pc.BytesRead() >= want {
			break
		}
		time.Sleep(200 * time.Microsecond)
	}
	if readerGone() {
		return false
	}
	// between reading the packet and parking in the send lie a map lookup and the read lock: wait until the reader
	// goroutine is seen blocked in the send
	waitParked("chan send", "tds.(*Channel).WritePacket", ch, hangBound)
	return true
}

type canceller struct {
	ctx    context.Context
	cancel func()
}

// ctxFor returns the context to pass to the calls and the function that cancels according to mode
func (e *c13env) ctxFor(mode int) canceller {
	switch mode {
	case 1:
		return canceller{context.Background(), func() { e.conn.VerifCancel() }}
	case 2:
		return canceller{context.Background(), func() { e.cancel() }}
	case 3:
		ctx, cancel := context.WithDeadline(context.Background(), time.Now().Add(40*time.Millisecond))
		return canceller{ctx, func() { time.Sleep(60 * time.Millisecond); _ = cancel }}
	}
	ctx, cancel := context.WithCancel(context.Background())
	return canceller{ctx, cancel}
}

// ---------------------------------------------------------------- fn 1
func runRecvCancelled(out caser, kind, cap, mode, nfed, ncalls int) {
	e := newC13(cap, 0)
	defer e.shutdown()
	ch := e.channel(kind)
	in := sx.L{sx.I(int64(kind)), sx.I(int64(cap)), sx.I(int64(mode)), sx.I(int64(nfed)), sx.I(int64(ncalls))}
	tag := fmt.Sprintf("recv-cancelled;kind=%d;cap=%d;mode=%d;fed=%d", kind, cap, mode, nfed)
	if ch == nil {
		out.Case(1, in, sx.L{sx.I(-8)}, tag+";newchannel-failed")
		return
	}
	for k := 0; k < nfed; k++ {
		e.feedDone(ch, k, false)
	}
	e.settle(ch, cap, 0)
	c := e.ctxFor(mode)
	c.cancel()
	res := sx.L{}
	taken := 0
	for k := 0; k < ncalls; k++ {
		var p tds.Package
		var err error
		ret, _ := within(hangBound, func() { p, err = ch.NextPackage(c.ctx, true) })
		res = append(res, resTree(p, err, ret))
		if !ret {
			break
		}
		if err == nil {
			taken++
		}
		e.settle(ch, cap, taken)
	}
	out.Case(1, in, res, tag)
}

// ---------------------------------------------------------------- fn 2
func runRecvDuring(out caser, kind, cap, mode int, wait bool, narrive int, order int) {
	e := newC13(cap, 0)
	defer e.shutdown()
	ch := e.channel(kind)
	tag := fmt.Sprintf("recv-cancel-during;kind=%d;mode=%d;wait=%v;arrive=%d", kind, mode, wait, narrive)
	if ch == nil {
		out.Case(2, sx.L{}, sx.L{sx.I(-8)}, tag+";newchannel-failed")
		return
	}
	id := ch.VerifChannelId()
	c := e.ctxFor(mode)
	type r struct {
		p   tds.Package
		err error
	}
	first := make(chan r, 1)
	go func() {
		p, err := ch.NextPackage(c.ctx, wait)
		first <- r{p, err}
	}()
	if wait {
		waitParked("select", "tds.(*Channel).NextPackage", ch, hangBound) // the call is parked in its select now
	}
	feed := func() {
		for k := 0; k < narrive; k++ {
			e.pc.Feed(donePkt(id, k, false))
		}
	}
	switch order {
	case 0:
		c.cancel()
		feed()
	case 1:
		feed()
		c.cancel()
	default:
		go feed()
		c.cancel()
	}
	res := sx.L{}
	select {
	case x := <-first:
		res = append(res, resTree(x.p, x.err, true))
	case <-time.After(hangBound):
		res = append(res, resTree(nil, nil, false))
	}
	// further calls with the cancelled context: queued packages in order, then context errors
	if len(res) == 1 && res[0].(sx.L)[0].(sx.I) != 9 {
		for k := 0; k < narrive+2; k++ {
			var p tds.Package
			var err error
			ret, _ := within(hangBound, func() { p, err = ch.NextPackage(c.ctx, wait) })
			res = append(res, resTree(p, err, ret))
			if !ret {
				break
			}
		}
	}
	w := 0
	if wait {
		w = 1
	}
	out.Case(2, sx.L{sx.I(int64(kind)), sx.I(int64(cap)), sx.I(int64(mode)), sx.I(int64(w)), sx.I(int64(narrive)), res}, sx.L{sx.I(1)}, tag)
}

var errCallback = errors.New("callback failed")

// ---------------------------------------------------------------- fn 3
// cbkind: 0 nil callback, 1 callback that always continues, 2 callback that stops at the 2nd package,
//         3 / 4 callback that fails (an error that is not io.EOF) at the 1st / 2nd package: the library then consumes the
//         rest of the response before it returns the callback's error - result (7)
func runUntilCancelled(out caser, kind, cap, mode, nfed int, final bool, cbkind int) {
	e := newC13(cap, 0)
	defer e.shutdown()
	ch := e.channel(kind)
	f := 0
	if final {
		f = 1
	}
	in := sx.L{sx.I(int64(kind)), sx.I(int64(cap)), sx.I(int64(mode)), sx.I(int64(nfed)), sx.I(int64(f)), sx.I(int64(cbkind))}
	tag := fmt.Sprintf("until-cancelled;kind=%d;mode=%d;fed=%d;final=%d;cb=%d", kind, mode, nfed, f, cbkind)
	if ch == nil {
		out.Case(3, in, sx.L{sx.I(-8)}, tag+";newchannel-failed")
		return
	}
	for k := 0; k < nfed; k++ {
		e.feedDone(ch, k, final && k == nfed-1)
	}
	e.settle(ch, cap, 0)
	c := e.ctxFor(mode)
	c.cancel()
	seen := sx.L{}
	var cb func(tds.Package) (bool, error)
	if cbkind > 0 {
		cb = func(p tds.Package) (bool, error) {
			if d, ok := p.(*tds.DonePackage); ok {
				seen = append(seen, sx.I(int64(d.Count)))
			} else {
				seen = append(seen, sx.I(-1))
			}
			if cbkind >= 3 && len(seen) == cbkind-2 {
				return false, errCallback
			}
			return cbkind == 2 && len(seen) == 2, nil
		}
	}
	var p tds.Package
	var err error
	ret, _ := within(hangBound, func() { p, err = ch.NextPackageUntil(c.ctx, true, cb) })
	if !ret {
		seen = sx.L{} // the callback may still be running
	}
	res := resTree(p, err, ret)
	if ret && err != nil && errors.Is(err, errCallback) {
		res = sx.L{sx.I(7)}
	}
	out.Case(3, in, sx.L{seen, res}, tag)
}

// ---------------------------------------------------------------- fn 4
// api: 0 SendPackage | 1 QueuePackage ; SendRemainingPackets | 2 QueuePackage with a LIVE context (a partly filled
// packet stays queued), then SendRemainingPackets with the cancelled one.
// holdAt >= 0: the context is live at the call; transport write number holdAt is held, the context is cancelled
// while it is held, then the write is released (cancellation during the send).
func runSendCancelled(out caser, kind, ps, mode, api, npackets, holdAt int) {
	e := newC13(8, 0)
	defer e.shutdown()
	ch := e.channel(kind)
	in := sx.L{sx.I(int64(kind)), sx.I(int64(ps)), sx.I(int64(mode)), sx.I(int64(api)), sx.I(int64(npackets)), sx.I(int64(holdAt))}
	tag := fmt.Sprintf("send-cancelled;kind=%d;mode=%d;api=%d;packets=%d;hold=%d", kind, mode, api, npackets, holdAt)
	if ch == nil {
		out.Case(4, in, sx.L{sx.I(-8)}, tag+";newchannel-failed")
		return
	}
	e.conn.VerifSetPacketSize(ps)
	body := ps - 8
	payload := make([]byte, body*(npackets-1)+body/2+1)
	for i := range payload {
		payload[i] = byte(0x21 + i%7)
	}
	pkg := &chunkPkg{[][]byte{payload}}
	c := e.ctxFor(mode)
	base := e.pc.NWrites()
	var results sx.L
	call := func(f func() error) bool {
		var err error
		ret, _ := within(hangBound, func() { err = f() })
		results = append(results, errTree(err, ret))
		return ret
	}
	if holdAt < 0 {
		live := context.Background()
		switch api {
		case 0:
			c.cancel()
			call(func() error { return ch.SendPackage(c.ctx, pkg) })
		case 1:
			c.cancel()
			if call(func() error { return ch.QueuePackage(c.ctx, pkg) }) {
				call(func() error { return ch.SendRemainingPackets(c.ctx) })
			}
		case 2:
			small := &chunkPkg{[][]byte{payload[:body/2+1]}}
			if call(func() error { return ch.QueuePackage(live, small) }) {
				base = e.pc.NWrites()
				c.cancel()
				call(func() error { return ch.SendRemainingPackets(c.ctx) })
			}
		}
		// afterwards, with the same cancelled context, once more
		call(func() error { return ch.SendPackage(c.ctx, &chunkPkg{[][]byte{{0x21, 1, 2, 3}}}) })
		out.Case(4, in, sx.L{results, sx.I(int64(e.pc.NWrites() - base))}, tag)
		return
	}
	// cancellation while write number holdAt is in progress
	e.pc.mu.Lock()
	e.pc.holdFrom = base + holdAt
	e.pc.mu.Unlock()
	done := make(chan error, 1)
	go func() { done <- ch.SendPackage(c.ctx, pkg) }()
	if !e.pc.WaitHeld(1, hangBound) {
		out.Case(4, in, sx.L{sx.L{sx.L{sx.I(9)}}, sx.I(-1)}, tag+";no-write-seen")
		e.pc.Release()
		return
	}
	c.cancel()
	e.pc.Release()
	select {
	case err := <-done:
		results = append(results, errTree(err, true))
	case <-time.After(hangBound):
		results = append(results, errTree(nil, false))
	}
	// writes after the cancellation: everything beyond the write that was in progress
	out.Case(4, in, sx.L{results, sx.I(int64(e.pc.NWrites() - base - (holdAt + 1)))}, tag)
}

// ---------------------------------------------------------------- fn 5
func runAfterClose(out caser, kind, cap, nqueued, nlate int, viaConn bool) {
	e := newC13(cap, 0)
	defer e.shutdown()
	ch := e.channel(kind)
	vc := 0
	if viaConn {
		vc = 1
	}
	in := sx.L{sx.I(int64(kind)), sx.I(int64(nqueued)), sx.I(int64(nlate)), sx.I(int64(vc))}
	tag := fmt.Sprintf("after-close;kind=%d;queued=%d;late=%d;viaconn=%d", kind, nqueued, nlate, vc)
	if ch == nil {
		out.Case(5, in, sx.L{sx.I(-8)}, tag+";newchannel-failed")
		return
	}
	id := ch.VerifChannelId()
	for k := 0; k < nqueued; k++ {
		e.feedDone(ch, k, false)
	}
	e.settle(ch, cap, 0)
	if nqueued > 0 && kind == 0 {
		// the logout reads the queued package as its answer; a reply of the peer would race with the unregistration
		e.setPeer(2)
	}
	var cerr error
	var ret bool
	if viaConn {
		ret, _ = within(hangBound, func() { cerr = e.conn.Close() })
	} else {
		ret, _ = within(hangBound, func() { cerr = ch.Close() })
	}
	closeRes := sx.I(closeCode(cerr, ret))
	if ret && cerr != nil && cerr != tds.ErrChannelClosed {
		closeRes = 1
	}
	if !ret {
		out.Case(5, in, sx.L{closeRes, sx.L{}, sx.I(0), sx.L{}, sx.L{}}, tag)
		return
	}
	base := e.pc.NWrites()
	ctx := context.Background()
	var results sx.L
	call := func(f func() (tds.Package, error)) {
		var p tds.Package
		var err error
		r, pan := within(hangBound, func() { p, err = f() })
		if pan {
			results = append(results, sx.L{sx.I(-1)})
			return
		}
		results = append(results, resTree(p, err, r))
	}
	pkg := &chunkPkg{[][]byte{{0x21, 1, 2, 3}}}
	call(func() (tds.Package, error) { return ch.NextPackage(ctx, false) })
	call(func() (tds.Package, error) { return ch.NextPackage(ctx, true) })
	call(func() (tds.Package, error) { return ch.NextPackageUntil(ctx, true, nil) })
	call(func() (tds.Package, error) {
		return ch.NextPackageUntil(ctx, false, func(tds.Package) (bool, error) { return true, nil })
	})
	call(func() (tds.Package, error) { return nil, ch.QueuePackage(ctx, pkg) })
	call(func() (tds.Package, error) { return nil, ch.SendRemainingPackets(ctx) })
	call(func() (tds.Package, error) { return nil, ch.SendPackage(ctx, pkg) })
	call(func() (tds.Package, error) { return nil, ch.Close() })
	call(func() (tds.Package, error) { ch.Reset(); return nil, tds.ErrChannelClosed })
	call(func() (tds.Package, error) { return nil, ch.Logout() })
	call(func() (tds.Package, error) { return nil, ch.Close() })
	writesAfter := e.pc.NWrites() - base
	// packets that arrive for the closed channel: nothing is delivered any more
	delivered := sx.L{}
	cerrs := sx.L{}
	if !viaConn {
		for k := 0; k < nlate; k++ {
			e.pc.Feed(donePkt(id, 100+k, false))
		}
		if nlate > 0 && !e.pc.WaitIdle(hangBound) {
			delivered = append(delivered, sx.I(-9))
		}
		cerrs = connErrs(e.conn)
		for k := 0; k < 2; k++ {
			var p tds.Package
			var err error
			r, _ := within(hangBound, func() { p, err = ch.NextPackage(ctx, false) })
			delivered = append(delivered, resTree(p, err, r))
		}
		n, m := ch.VerifQueueLens()
		delivered = append(delivered, sx.I(int64(n)), sx.I(int64(m)))
	}
	out.Case(5, in, sx.L{closeRes, results, sx.I(int64(writesAfter)), delivered, cerrs}, tag)
}

// ---------------------------------------------------------------- fn 6
// peer: 0 answers the logout at once, 1 after 300 ms, 2 never (thorough tier only).
func runCloseFill(out caser, kind, cap, nfed, nconsumed, peer int, bound time.Duration) {
	e := newC13(cap, peer)
	defer e.shutdown()
	ch := e.channel(kind)
	in := sx.L{sx.I(int64(kind)), sx.I(int64(cap)), sx.I(int64(nfed)), sx.I(int64(nconsumed)), sx.I(int64(peer))}
	undelivered := nfed - nconsumed
	limit := cap
	if kind == 0 {
		limit = cap + 1 // the logout reads one package first
	}
	class := "close-fill"
	if undelivered > limit {
		// more undelivered packages than the queue holds: the reader is parked on the full queue holding the read lock
		class = "close-full-rx-queue"
	}
	tag := fmt.Sprintf("%s;kind=%d;cap=%d;fed=%d;consumed=%d;peer=%d", class, kind, cap, nfed, nconsumed, peer)
	if ch == nil {
		out.Case(6, in, sx.L{sx.I(-8)}, tag+";newchannel-failed")
		return
	}
	for k := 0; k < nfed; k++ {
		e.feedDone(ch, k, false)
	}
	e.settle(ch, cap, 0)
	for k := 0; k < nconsumed; k++ {
		within(hangBound, func() { ch.NextPackage(context.Background(), true) })
		e.settle(ch, cap, k+1)
	}
	if undelivered > 0 && kind == 0 {
		// the logout reads a queued package as its answer; a reply of the peer would race with the unregistration
		e.setPeer(2)
	}
	var cerr error
	ret, pan := within(bound, func() { cerr = ch.Close() })
	code := closeCode(cerr, ret)
	if pan {
		code = -1
	}
	after := int64(-1)
	if ret && !pan {
		var err error
		r, _ := within(hangBound, func() { _, err = ch.NextPackage(context.Background(), true) })
		after = 9
		if r {
			after = int64(errCode(err, nil))
		}
	}
	b := int64(0)
	if ret {
		b = 1
	}
	if kind == 0 && undelivered > limit {
		// channel 0: the logout takes one package out of the full queue and wakes the parked reader; whether Close then
		// finds it parked again (and blocks for good) depends on who is faster: the outcome is part of the history
		out.Case(8, append(in, sx.I(b)), sx.L{sx.I(1)}, tag+";race")
		return
	}
	out.Case(6, in, sx.L{sx.I(b), sx.I(code), sx.I(after)}, tag)
}

// ---------------------------------------------------------------- fn 7
// transport: 0 healthy (a Read blocks until Close, then fails)
//            1 fails from the start and keeps failing, nobody reads the connection's error queue
//            2 fails exactly nfail times, then healthy
// zeroClosed: channel 0 is closed (logout) before anything else happens, so that closing the remaining channels does
// not read the connection's error queue.
func runConnClose(out caser, nchan, cap int, nqueued []int, peer, transport, nfail int, zeroClosed bool, precancel int) {
	base := stableGoroutines()
	e := newC13(cap, peer)
	var chans []*tds.Channel
	zc := int64(0)
	if zeroClosed {
		zc = 1
	}
	var ql sx.L
	for _, n := range nqueued {
		ql = append(ql, sx.I(int64(n)))
	}
	if ql == nil {
		ql = sx.L{}
	}
	pcv := int64(0)
	if precancel > 0 {
		pcv = 1
	}
	in := sx.L{sx.I(int64(nchan)), sx.I(int64(cap)), ql, sx.I(int64(peer)), sx.I(int64(transport)), sx.I(int64(nfail)), sx.I(zc), sx.I(pcv)}
	class := "conn-close"
	if transport == 1 || (transport == 2 && nfail >= 10) {
		class = "reader-parked-errch"
	}
	tag := fmt.Sprintf("%s;channels=%d;peer=%d;transport=%d;nfail=%d;zeroclosed=%d;precancel=%d", class, nchan, peer, transport, nfail, zc, precancel)
	for i := 0; i < nchan; i++ {
		ch, err, ok := e.newChannel()
		if !ok || err != nil {
			out.Case(7, in, sx.L{sx.I(-8)}, tag+";newchannel-failed")
			e.shutdown()
			return
		}
		chans = append(chans, ch)
	}
	if zeroClosed && nchan > 0 {
		within(hangBound, func() { chans[0].Close() })
	}
	for i, ch := range chans {
		if zeroClosed && i == 0 {
			continue
		}
		for k := 0; k < nqueued[i]; k++ {
			e.pc.Feed(donePkt(ch.VerifChannelId(), k, false))
		}
		if nqueued[i] > 0 && i == 0 {
			e.setPeer(2) // the logout reads the queued package as its answer
		}
	}
	e.pc.WaitIdle(hangBound)
	switch transport {
	case 1:
		e.pc.SetFailing(errors.New("connection reset by peer"), -1)
	case 2:
		if nfail > 0 {
			e.pc.SetFailing(errors.New("temporary failure"), nfail)
		}
	}
	if transport != 0 && !(transport == 2 && nfail == 0) {
		// the reader reports every failure: wait until it is parked on the full error queue, or the scripted failures
		// are over and it waits for bytes again
		deadline := time.Now().Add(hangBound)
		for time.Now().Before(deadline) {
			if parked("chan send", "tds.(*Conn).ReadFrom", e.conn) {
				break
			}
			if e.pc.FailsLeft() == 0 && e.pc.WaitIdle(time.Millisecond) {
				break
			}
			time.Sleep(500 * time.Microsecond)
		}
	}
	switch precancel {
	case 1: // the connection's own context
		e.conn.VerifCancel()
	case 2: // the context the connection was made from
		e.cancel()
	}
	ret, _ := within(hangBound, func() { e.conn.Close() })
	closed := sx.L{}
	if ret {
		for _, ch := range chans {
			var err error
			r, _ := within(hangBound, func() { _, err = ch.NextPackage(context.Background(), false) })
			c := int64(9)
			if r {
				c = int64(errCode(err, nil))
			}
			closed = append(closed, sx.I(c))
		}
	}
	tclosed := int64(0)
	if e.pc.Closes() > 0 {
		tclosed = 1
	}
	readerEnded := int64(0)
	bound := hangBound
	if class == "reader-parked-errch" {
		bound = knownBound
	}
	select {
	case <-e.readerDone:
		readerEnded = 1
	case <-time.After(bound):
	}
	gok := int64(0)
	for i := 0; i < 1200 && readerEnded == 1; i++ { // (the reader goroutine itself is one of those counted)
		if runtime.NumGoroutine() <= base {
			gok = 1
			break
		}
		time.Sleep(5 * time.Millisecond)
	}
	b := int64(0)
	if ret {
		b = 1
	}
	e.cancel()
	out.Case(7, in, sx.L{sx.I(b), closed, sx.I(tclosed), sx.I(readerEnded), sx.I(gok)}, tag)
}

// ---------------------------------------------------------------- fn 9
// Close while ANOTHER goroutine waits in NextPackage(ctx, wait=true) on the same channel.
// variant 0: Channel.Close of a logical channel | 1: Conn.Close (the consumer waits on a logical channel) |
//         2: Channel.Close of channel 0, the peer never answers the logout (the logout's own wait ends after a minute)
// cancelAfter: the consumer's context is cancelled shortly after Close was called (then Close must return);
//              otherwise it stays live for as long as Close is observed.
// input (variant cancelAfter) output (close-returned consumer-result)   consumer-result only with cancelAfter
func runCloseWaits(out caser, variant int, cancelAfter bool, bound time.Duration) {
	peer := 0
	kind := 1
	if variant == 2 {
		peer, kind = 2, 0
	}
	e := newC13(4, peer)
	defer e.shutdown()
	ch := e.channel(kind)
	ca := int64(0)
	if cancelAfter {
		ca = 1
	}
	in := sx.L{sx.I(int64(variant)), sx.I(ca)}
	tag := fmt.Sprintf("close-waits-for-consumer;variant=%d", variant)
	if cancelAfter {
		tag = fmt.Sprintf("close-consumer-cancelled;variant=%d", variant)
	}
	if ch == nil {
		out.Case(9, in, sx.L{sx.I(-8)}, tag+";newchannel-failed")
		return
	}
	ctx, cancel := context.WithCancel(context.Background())
	type r struct {
		p   tds.Package
		err error
	}
	cons := make(chan r, 1)
	go func() {
		p, err := ch.NextPackage(ctx, true)
		cons <- r{p, err}
	}()
	// wait until the consumer is parked in its select, holding the channel's read lock
	waitParked("select", "tds.(*Channel).NextPackage", ch, hangBound)
	closed := make(chan struct{})
	go func() {
		defer func() { recover(); close(closed) }()
		if variant == 1 {
			e.conn.Close()
		} else {
			ch.Close()
		}
	}()
	if cancelAfter {
		time.Sleep(50 * time.Millisecond)
		cancel()
		bound = hangBound
		if variant == 2 {
			bound = logoutMin
		}
	}
	ret := int64(0)
	select {
	case <-closed:
		ret = 1
	case <-time.After(bound):
	}
	res := sx.L{sx.I(ret)}
	if cancelAfter {
		select {
		case x := <-cons:
			res = append(res, resTree(x.p, x.err, true))
		case <-time.After(hangBound):
			res = append(res, resTree(nil, nil, false))
		}
	}
	cancel() // lets a blocked Close finish (the harness process goes on)
	out.Case(9, in, res, tag)
}

// caser is what a scenario writes its case line to (the case file, or a buffer when scenarios run in parallel)
type caser interface {
	Case(fn int, in, out sx.T, tag string)
}

type caseRec struct {
	fn      int
	in, out sx.T
	tag     string
}

type buffer struct{ recs []caseRec }

func (b *buffer) Case(fn int, in, out sx.T, tag string) {
	b.recs = append(b.recs, caseRec{fn, in, out, tag})
}

// parallel runs the scenarios at the same time (they only wait) and writes their cases in the given order
func parallel(out caser, width int, fs []func(c caser)) {
	bufs := make([]*buffer, len(fs))
	sem := make(chan struct{}, width)
	var wg sync.WaitGroup
	for i, f := range fs {
		bufs[i] = &buffer{}
		wg.Add(1)
		sem <- struct{}{}
		go func(i int, f func(c caser)) {
			defer wg.Done()
			defer func() { <-sem }()
			f(bufs[i])
		}(i, f)
	}
	wg.Wait()
	for _, b := range bufs {
		for _, r := range b.recs {
			out.Case(r.fn, r.in, r.out, r.tag)
		}
	}
}

// stableGoroutines waits until the number of goroutines stops changing (earlier scenarios wind down) and returns it
func stableGoroutines() int {
	runtime.GC()
	last, same := runtime.NumGoroutine(), 0
	for i := 0; i < 400 && same < 6; i++ {
		time.Sleep(5 * time.Millisecond)
		n := runtime.NumGoroutine()
		if n == last {
			same++
		} else {
			last, same = n, 0
		}
	}
	return last
}

func mainC13(rng *sx.Rng, out caser, thorough bool) {
	const cap = 4
	kinds := []int{0, 1}
	t0 := time.Now()
	lap := func(what string) {
		fmt.Printf("c13: %s done after %.1fs\n", what, time.Since(t0).Seconds())
	}
	// fn 7 first: the goroutine count is only meaningful while nothing else runs and nothing has leaked yet
	for _, peer := range []int{0, 1} {
		for _, nchan := range []int{0, 1, 2, 5} {
			nq := make([]int, nchan)
			for i := range nq {
				nq[i] = []int{0, 1, cap, 2}[(i+nchan)%4]
			}
			if peer == 1 && nchan > 0 {
				nq[0] = 0
			}
			runConnClose(out, nchan, cap, nq, peer, 0, 0, false, 0)
		}
	}
	runConnClose(out, 3, cap, []int{0, 2, cap}, 0, 0, 0, true, 0)
	// Conn.Close after the connection context (or its parent) was cancelled: still closes everything
	for _, pc := range []int{1, 2} {
		runConnClose(out, 0, cap, nil, 0, 0, 0, false, pc)
		runConnClose(out, 1, cap, []int{0}, 0, 0, 0, false, pc)
		runConnClose(out, 3, cap, []int{1, 0, 2}, 0, 0, 0, false, pc)
		runConnClose(out, 3, cap, []int{0, 2, cap}, 0, 0, 0, true, pc)
	}
	for _, nfail := range []int{1, 3, 9} {
		runConnClose(out, 0, cap, nil, 0, 2, nfail, false, 0)
		runConnClose(out, 2, cap, []int{0, 1}, 0, 2, nfail-1, true, 0)
	}
	lap("conn-close")
	// queue capacities: 4 everywhere; 1 (quick) and 1, 2, 8 (thorough) in the families about fill levels
	caps := []int{4, 1}
	if thorough {
		caps = []int{4, 1, 2, 8}
	}
	// fn 1: cancelled before the call, every fill level 0..cap+3
	for _, cap := range caps {
		for _, kind := range kinds {
			for mode := 0; mode < 4; mode++ {
				for nfed := 0; nfed <= cap+3; nfed++ {
					runRecvCancelled(out, kind, cap, mode, nfed, nfed+2)
				}
			}
		}
	}
	lap("recv-cancelled")
	// fn 3
	for _, kind := range kinds {
		for mode := 0; mode < 3; mode++ {
			for nfed := 0; nfed <= cap; nfed++ {
				for cb := 0; cb < 5; cb++ {
					runUntilCancelled(out, kind, cap, mode, nfed, false, cb)
					if nfed > 0 {
						runUntilCancelled(out, kind, cap, mode, nfed, true, cb)
					}
				}
			}
		}
	}
	lap("until-cancelled")
	// fn 4
	for _, kind := range kinds {
		for mode := 0; mode < 4; mode++ {
			for api := 0; api < 3; api++ {
				for _, np := range []int{1, 2, 3} {
					runSendCancelled(out, kind, []int{64, 512}[np%2], mode, api, np, -1)
				}
			}
			for hold := 0; hold < 3; hold++ {
				runSendCancelled(out, kind, 64, mode, 0, 4, hold)
			}
		}
	}
	lap("send-cancelled")
	// fn 5
	for _, kind := range kinds {
		for _, nq := range []int{0, 1, cap} {
			for _, late := range []int{0, 3} {
				runAfterClose(out, kind, cap, nq, late, false)
			}
			runAfterClose(out, kind, cap, nq, 0, true)
		}
	}
	lap("after-close")
	// fn 11 / fn 12: packets of every kind for a channel that is closed (directly, through the reader, and in the window
	// in which the reader has already looked the channel up); fn 10: several closers of one channel
	genAfterClose(out, thorough)
	lap("packets-after-close")
	ncc := 1
	if thorough {
		ncc = 12
	}
	genConcClose(out, 10, ncc)
	lap("concurrent-close")
	// fn 2: racing cancellation and arrivals
	reps := 2
	if thorough {
		reps = 40
	}
	var fs []func(c caser)
	for r := 0; r < reps; r++ {
		for _, kind := range kinds {
			for mode := 0; mode < 3; mode++ {
				for _, wait := range []bool{true, false} {
					for _, na := range []int{0, 1, 3, cap + 2} {
						kind, mode, wait, na, order := kind, mode, wait, na, rng.Intn(3)
						fs = append(fs, func(c caser) { runRecvDuring(c, kind, cap, mode, wait, na, order) })
					}
				}
			}
		}
	}
	parallel(out, 8, fs)
	lap("recv-cancel-during")
	// fn 6: response abandoned after j packages, then Close; the cases in which more packages are undelivered than
	// the queue holds block for good (known finding) and are observed in parallel
	fs = nil
	for _, cap := range caps {
		for _, kind := range kinds {
			for nfed := 0; nfed <= cap+3; nfed++ {
				for _, ncons := range []int{0, 1, 3} {
					if ncons > nfed {
						continue
					}
					for _, peer := range []int{0, 1} {
						if peer == 1 && (kind == 1 || nfed > ncons) {
							continue // the logout answer only matters for channel 0 with an empty queue
						}
						kind, cap, nfed, ncons, peer := kind, cap, nfed, ncons, peer
						bound := hangBound
						if kind == 1 && nfed-ncons > cap {
							bound = knownBound // known finding: observed for a shorter time
						}
						fs = append(fs, func(c caser) { runCloseFill(c, kind, cap, nfed, ncons, peer, bound) })
					}
				}
			}
		}
	}
	// Close while another goroutine is parked in NextPackage with a live context (known finding), and with a context
	// that is cancelled meanwhile (Close must return)
	for _, variant := range []int{0, 1} {
		variant := variant
		fs = append(fs, func(c caser) { runCloseWaits(c, variant, false, knownBound) })
		fs = append(fs, func(c caser) { runCloseWaits(c, variant, true, hangBound) })
	}
	if thorough {
		// a peer that never answers the logout: Close returns after the documented minute
		for _, nfed := range []int{0, 1} {
			nfed := nfed
			fs = append(fs, func(c caser) { runCloseFill(c, 0, cap, nfed, nfed, 2, logoutMin) })
		}
		fs = append(fs, func(c caser) { runCloseWaits(c, 2, false, logoutMin) })
		fs = append(fs, func(c caser) { runCloseWaits(c, 2, true, logoutMin) })
	}
	parallel(out, 64, fs)
	lap("close-fill")
	// fn 7 with a transport that keeps failing: the reader parks on the full error queue (known finding)
	runConnClose(out, 0, cap, nil, 0, 1, 0, false, 0)
	runConnClose(out, 2, cap, []int{0, 1}, 0, 1, 0, true, 0)
	runConnClose(out, 0, cap, nil, 0, 2, 10, false, 0)
}
