package main

// Scenarios around the END of a logical channel, shared by C12 and C13 (the fn number differs, the scenario is the same).
//
// concurrent closers (C12 fn 5, C13 fn 10)
//   input  (nclosers viaconn mode connfirst nother queued)
//   output (held-at-release (code ...) teardowns numbers-ok unregistered after-code others-ok connclose-returned reader-ended)
//   nclosers goroutines call Channel.Close on the SAME logical channel, optionally one more calls Conn.Close.  The
//   peer is slow to accept the teardown packet of that channel: the transport holds every Write of a CLOSE-type packet
//   carrying the channel's id until every closer is either parked in such a write or has returned (so whoever gets as
//   far as the teardown is inside the window between the first `closed` check and the exclusive lock while all the
//   others run), then lets the packets go.  mode 0: the closers are released into their calls together; mode 1: each
//   one is started once the previous one is parked or has returned.
//   code: 0 nil | 1 an error list of its own (e.g. "package still queued") | 2 ErrChannelClosed (for Conn.Close: its
//   error wraps ErrChannelClosed) | -1 panic | 9 did not return within the bound.  Codes are sorted (who wins depends on
//   the schedule), Conn.Close's code is among them.
//
// packets for a closed channel (C13 fn 11)
//   input  (kind closevia via ((hdronly eom typ partial) ...))
//   output (close-code (returned ...) (queued-packages queued-errors) (invalid-id ...) next-code connclose-returned reader-ended)
//   kind 0 channel 0 / 1 a logical channel; closevia 0 Channel.Close / 1 Conn.Close; via 0 the packets are handed to
//   Channel.WritePacket directly / 1 they arrive on the transport and go through the reader goroutine.
//
// packet in the window between lookup and lock (C13 fn 12)
//   input  (closer (hdronly eom typ partial))
//   output (close-parked reader-parked close-returned close-code consumer-result queued reader-idle connclose-returned reader-ended)
//   a consumer waits in NextPackage(ctx, wait) on logical channel 1 (holds the read lock) -> Close (closer 0) / Conn.Close
//   (closer 1) sends the teardown and waits for the write lock -> a packet for channel 1 arrives, the reader finds the
//   channel in the map and queues behind the pending writer in WritePacket's RLock -> the consumer's context is
//   cancelled -> Close completes -> the reader goes on inside WritePacket of the now closed channel.

import (
	"context"
	"errors"
	"fmt"
	"runtime"
	"sort"
	"sync/atomic"
	"time"

	"github.com/SAP/go-dblib/tds"
	"verifharness/sx"
)

type ccCfg struct {
	closers   int  // goroutines calling Channel.Close on the same logical channel
	viaConn   bool // one more goroutine calls Conn.Close
	mode      int  // 0 released together, 1 one after the other (each parked in the held teardown write before the next starts)
	connFirst bool // Conn.Close is the first to start (mode 1)
	nother    int  // other logical channels of the connection
	queued    int  // packages left in the channel's queue: the winner's result is an error list
	procs     int
}

func b2i(b bool) int64 {
	if b {
		return 1
	}
	return 0
}

func runConcClose(out caser, fn int, c ccCfg) {
	old := runtime.GOMAXPROCS(c.procs)
	defer runtime.GOMAXPROCS(old)
	e := newC13(8, 0)
	defer e.shutdown()
	total := c.closers + int(b2i(c.viaConn))
	in := sx.L{sx.I(int64(c.closers)), sx.I(b2i(c.viaConn)), sx.I(int64(c.mode)), sx.I(b2i(c.connFirst)), sx.I(int64(c.nother)), sx.I(int64(c.queued))}
	tag := fmt.Sprintf("concurrent-close;closers=%d;viaconn=%d;mode=%d;others=%d;queued=%d;procs=%d;race=%d",
		c.closers, b2i(c.viaConn), c.mode, c.nother, c.queued, c.procs, b2i(raceEnabled))
	ch := e.channel(1)
	if ch == nil {
		out.Case(fn, in, sx.L{sx.I(-8)}, tag+";newchannel-failed")
		return
	}
	id := ch.VerifChannelId()
	var others []*tds.Channel
	for i := 0; i < c.nother; i++ {
		o, err, ok := e.newChannel()
		if !ok || err != nil {
			out.Case(fn, in, sx.L{sx.I(-8)}, tag+";newchannel-failed")
			return
		}
		others = append(others, o)
	}
	for k := 0; k < c.queued; k++ {
		e.feedDone(ch, k, false)
	}
	e.settle(ch, 8, 0)
	// the peer is slow to accept the teardown packet of this channel
	e.pc.mu.Lock()
	e.pc.holdIf = func(w []byte) bool {
		h, ok := parseHdr(w)
		return ok && h.typ == int(tds.TDS_BUF_CLOSE) && h.channel == id
	}
	e.pc.holdClose = true
	e.pc.mu.Unlock()
	base := e.pc.NWrites()
	results := make(chan int64, total)
	start := make(chan struct{})
	closer := func(conn bool) {
		go func() {
			code := int64(-1)
			defer func() {
				if r := recover(); r != nil {
					code = -1
				}
				results <- code
			}()
			<-start
			var err error
			if conn {
				err = e.conn.Close()
			} else {
				err = ch.Close()
			}
			switch {
			case err == nil:
				code = 0
			case errors.Is(err, tds.ErrChannelClosed):
				code = 2
			default:
				code = 1
			}
		}()
	}
	order := make([]bool, 0, total) // true: Conn.Close
	if c.viaConn && c.connFirst {
		order = append(order, true)
	}
	for i := 0; i < c.closers; i++ {
		order = append(order, false)
	}
	if c.viaConn && !c.connFirst {
		order = append(order, true)
	}
	codes := make([]int, 0, total)
	drain := func() {
		for {
			select {
			case x := <-results:
				codes = append(codes, int(x))
			default:
				return
			}
		}
	}
	// settled: each of the first `want` closers is parked in the held teardown write or has returned
	settled := func(want int, d time.Duration) bool {
		deadline := time.Now().Add(d)
		for time.Now().Before(deadline) {
			drain()
			if e.pc.Held()+e.pc.HeldCloses()+len(codes) >= want {
				return true
			}
			time.Sleep(200 * time.Microsecond)
		}
		return false
	}
	if c.mode == 0 {
		for _, conn := range order {
			closer(conn)
		}
		close(start)
	} else {
		close(start)
		for k, conn := range order {
			closer(conn)
			settled(k+1, hangBound/2)
		}
	}
	settled(total, hangBound/2)
	heldAtRelease := e.pc.Held()
	e.pc.Release()
	deadline := time.After(hangBound)
	for len(codes) < total {
		select {
		case x := <-results:
			codes = append(codes, int(x))
		case <-deadline:
			for len(codes) < total {
				codes = append(codes, 9)
			}
		}
	}
	sort.Ints(codes)
	cl := sx.L{}
	for _, x := range codes {
		cl = append(cl, sx.I(int64(x)))
	}
	// the teardown packets the peer saw for this channel, and their numbers (the SETUP packet was number 0)
	teardowns, numbersOk := 0, true
	for _, w := range e.pc.Writes()[base:] {
		if h, ok := parseHdr(w); ok && h.typ == int(tds.TDS_BUF_CLOSE) && h.channel == id {
			teardowns++
			if h.nr != teardowns {
				numbersOk = false
			}
		}
	}
	unreg := true
	for _, x := range e.conn.VerifChannelIds() {
		if x == id {
			unreg = false
		}
	}
	hung := len(codes) > 0 && codes[len(codes)-1] == 9
	after := int64(9)
	if !hung {
		var err error
		if r, _ := within(hangBound, func() { _, err = ch.NextPackage(context.Background(), false) }); r {
			after = int64(errCode(err, nil))
		}
	}
	// the other channels of the connection still work (unless the connection was closed on purpose)
	othersOk := true
	if !c.viaConn && !hung {
		for k, o := range others {
			e.pc.Feed(donePkt(o.VerifChannelId(), 40+k, true))
			var p tds.Package
			var err error
			r, _ := within(hangBound, func() { p, err = o.NextPackage(context.Background(), true) })
			d, isDone := p.(*tds.DonePackage)
			if !r || err != nil || !isDone || d.Count != int32(40+k) {
				othersOk = false
			}
		}
	}
	connRet := true
	if !c.viaConn {
		connRet, _ = within(hangBound, func() { e.conn.Close() })
	}
	readerEnded := false
	select {
	case <-e.readerDone:
		readerEnded = true
	case <-time.After(hangBound):
	}
	out.Case(fn, in, sx.L{sx.I(int64(heldAtRelease)), cl, sx.I(int64(teardowns)), sx.I(b2i(numbersOk)), sx.I(b2i(unreg)), sx.I(after),
		sx.I(b2i(othersOk)), sx.I(b2i(connRet)), sx.I(b2i(readerEnded))}, tag)
}

// genConcClose: the family of concurrent closers; reps repetitions of every configuration (the schedule inside the
// window is the runtime's)
var ccModes = []int{1, 0}

func genConcClose(out caser, fn int, reps int) {
	for rep := 0; rep < reps && !tooManyHangs(); rep++ {
		for _, procs := range []int{1, 4, 16} {
			if rep == 0 && procs == 16 {
				continue
			}
			for _, mode := range ccModes {
				for _, n := range []int{2, 3} {
					runConcClose(out, fn, ccCfg{closers: n, mode: mode, nother: (n + rep) % 3, queued: 0, procs: procs})
				}
				runConcClose(out, fn, ccCfg{closers: 2, mode: mode, nother: 1, queued: 2, procs: procs})
				// Channel.Close racing with Conn.Close
				runConcClose(out, fn, ccCfg{closers: 1, viaConn: true, mode: mode, connFirst: false, nother: rep % 2, procs: procs})
				runConcClose(out, fn, ccCfg{closers: 1, viaConn: true, mode: mode, connFirst: true, nother: (rep + 1) % 2, procs: procs})
				runConcClose(out, fn, ccCfg{closers: 2, viaConn: true, mode: mode, connFirst: rep%2 == 1, nother: 1, queued: rep % 2, procs: procs})
			}
		}
	}
}

// ---------------------------------------------------------------- packets for a closed channel

type lateKind struct {
	hdrOnly, eom bool
	typ          int
	partial      bool // the body ends in the middle of a package
}

func (k lateKind) tree() sx.T {
	return sx.L{sx.I(b2i(k.hdrOnly)), sx.I(b2i(k.eom)), sx.I(int64(k.typ)), sx.I(b2i(k.partial))}
}

func (k lateKind) body(n int) []byte {
	if k.hdrOnly {
		return nil
	}
	b := []byte{0xfd, 0x11, 0, 0, 0, byte(n), byte(n >> 8), 0, 0} // DONE(MORE|COUNT), count n
	if k.partial {
		b = b[:4]
	}
	return b
}

func (k lateKind) wire(id, n int) []byte {
	return wirePacket(k.typ, int(b2i(k.eom)), id, 0, 0, k.body(n))
}

func (k lateKind) packet(id, n int) *tds.Packet {
	b := k.body(n)
	return &tds.Packet{Header: tds.PacketHeader{MsgType: tds.PacketHeaderType(k.typ), Status: tds.PacketHeaderStatus(b2i(k.eom)),
		Length: uint16(8 + len(b)), Channel: uint16(id)}, Data: b}
}

// every kind of packet: header-only (length 8) of the types a server sends (acknowledgements, data), with and without
// EOM; packets with a complete and with a partial package, with and without EOM
func lateKinds() []lateKind {
	var ks []lateKind
	for _, typ := range []int{int(tds.TDS_BUF_PROTACK), int(tds.TDS_BUF_CLOSE), int(tds.TDS_BUF_NORMAL), int(tds.TDS_BUF_RESPONSE), int(tds.TDS_BUF_SETUP)} {
		for _, eom := range []bool{true, false} {
			ks = append(ks, lateKind{hdrOnly: true, eom: eom, typ: typ})
		}
	}
	for _, eom := range []bool{true, false} {
		for _, partial := range []bool{false, true} {
			ks = append(ks, lateKind{eom: eom, typ: int(tds.TDS_BUF_RESPONSE), partial: partial})
		}
	}
	return ks
}

func runLatePackets(out caser, kind, closeVia, via int, kinds []lateKind) {
	if tooManyHangs() {
		return // (every expiry of a watchdog already is a reported case)
	}
	e := newC13(4, 0)
	defer e.shutdown()
	kl := sx.L{}
	for _, k := range kinds {
		kl = append(kl, k.tree())
	}
	in := sx.L{sx.I(int64(kind)), sx.I(int64(closeVia)), sx.I(int64(via)), kl}
	tag := fmt.Sprintf("packets-after-close;kind=%d;closevia=%d;via=%d;packets=%d", kind, closeVia, via, len(kinds))
	if len(kinds) == 1 {
		tag += fmt.Sprintf(";hdronly=%d;eom=%d;type=%d", b2i(kinds[0].hdrOnly), b2i(kinds[0].eom), kinds[0].typ)
	}
	ch := e.channel(kind)
	if ch == nil {
		out.Case(11, in, sx.L{sx.I(-8)}, tag+";newchannel-failed")
		return
	}
	id := ch.VerifChannelId()
	var cerr error
	var ret bool
	if closeVia == 1 {
		ret, _ = within(hangBound, func() { cerr = e.conn.Close() })
	} else {
		ret, _ = within(hangBound, func() { cerr = ch.Close() })
	}
	closeRes := closeCode(cerr, ret)
	if ret && cerr != nil && cerr != tds.ErrChannelClosed {
		closeRes = 1
	}
	if !ret {
		out.Case(11, in, sx.L{sx.I(closeRes), sx.L{}, sx.L{}, sx.L{}, sx.I(9), sx.I(0), sx.I(0)}, tag)
		return
	}
	connErrs(e.conn) // (nothing is expected to be queued here)
	rets := sx.L{}
	cerrs := sx.L{}
	// the ids reported invalid; the queue is emptied after every packet (it holds 10 errors, the reader parks on a full one)
	collect := func() {
		for _, x := range connErrs(e.conn) {
			if x.(sx.I) >= 0 { // (not: the read error after the transport was closed)
				cerrs = append(cerrs, x)
			}
		}
	}
	stuck := false
	for n, k := range kinds {
		if stuck {
			break
		}
		if via == 0 {
			p := k.packet(id, 100+n)
			r, pan := within(hangBound, func() { ch.WritePacket(p) })
			switch {
			case pan:
				rets = append(rets, sx.I(-1))
			case r:
				rets = append(rets, sx.I(1))
			default:
				// the call is parked inside the channel for good (it holds the read lock): leave the channel alone
				rets = append(rets, sx.I(9))
				stuck = true
				atomic.AddInt32(&watchdogHits, 1)
			}
		} else {
			e.pc.Feed(k.wire(id, 100+n))
			if e.waitIdle() {
				rets = append(rets, sx.I(1))
			} else {
				rets = append(rets, sx.I(9))
				stuck = true
			}
		}
		collect()
	}
	qn, qm := ch.VerifQueueLens()
	next := int64(9)
	if !stuck {
		var err error
		if r, _ := within(hangBound, func() { _, err = ch.NextPackage(context.Background(), false) }); r {
			next = int64(errCode(err, nil))
		}
	}
	connRet := true
	if closeVia == 0 {
		connRet, _ = within(hangBound, func() { e.conn.Close() })
	}
	readerEnded := false
	select {
	case <-e.readerDone:
		readerEnded = true
	case <-time.After(hangBound):
	}
	out.Case(11, in, sx.L{sx.I(closeRes), rets, sx.L{sx.I(int64(qn)), sx.I(int64(qm))}, cerrs, sx.I(next), sx.I(b2i(connRet)), sx.I(b2i(readerEnded))}, tag)
}

// ---------------------------------------------------------------- a packet in the window between lookup and lock

func runWindow(out caser, closer int, k lateKind) {
	if tooManyHangs() {
		return
	}
	e := newC13(4, 0)
	defer e.shutdown()
	in := sx.L{sx.I(int64(closer)), k.tree()}
	tag := fmt.Sprintf("packet-in-close-window;closer=%d;hdronly=%d;eom=%d;type=%d;partial=%d", closer, b2i(k.hdrOnly), b2i(k.eom), k.typ, b2i(k.partial))
	ch := e.channel(1)
	if ch == nil {
		out.Case(12, in, sx.L{sx.I(-8)}, tag+";newchannel-failed")
		return
	}
	id := ch.VerifChannelId()
	ctx, cancel := context.WithCancel(context.Background())
	defer cancel()
	type r struct {
		p   tds.Package
		err error
	}
	cons := make(chan r, 1)
	go func() {
		p, err := ch.NextPackage(ctx, true)
		cons <- r{p, err}
	}()
	// the consumer is parked in its select, holding the channel's read lock
	waitParked("select", "tds.(*Channel).NextPackage", ch, hangBound)
	closed := make(chan int64, 1)
	go func() {
		code := int64(-1)
		defer func() { recover(); closed <- code }()
		var err error
		if closer == 1 {
			err = e.conn.Close()
		} else {
			err = ch.Close()
		}
		code = closeCode(err, true)
		if err != nil && errors.Is(err, tds.ErrChannelClosed) {
			code = 2
		}
	}()
	// Close has sent the teardown and waits for the write lock (new read locks queue behind it)
	closeParked := waitParked("sync.RWMutex.Lock", "tds.(*Channel).Close", ch, hangBound/2)
	// the packet arrives: the reader finds the channel (still registered) and queues in WritePacket's RLock
	e.pc.Feed(k.wire(id, 7))
	readerParked := waitParked("sync.RWMutex.RLock", "tds.(*Channel).WritePacket", ch, hangBound/2)
	cancel()
	closeRet, closeRes := int64(0), int64(9)
	select {
	case c := <-closed:
		closeRet, closeRes = 1, c
	case <-time.After(hangBound):
	}
	consRes := resTree(nil, nil, false)
	select {
	case x := <-cons:
		consRes = resTree(x.p, x.err, true)
	case <-time.After(hangBound):
	}
	// the reader leaves WritePacket and asks for the next packet (closer 1: the connection is closed, it ends)
	idle := int64(0)
	if closer == 0 {
		idle = b2i(e.waitIdle())
	} else {
		select {
		case <-e.readerDone:
			idle = 1
		case <-time.After(hangBound):
		}
	}
	if idle == 0 {
		atomic.AddInt32(&watchdogHits, 1)
	}
	qn, _ := ch.VerifQueueLens()
	connRet := true
	if closer == 0 {
		connRet, _ = within(hangBound, func() { e.conn.Close() })
	}
	readerEnded := false
	select {
	case <-e.readerDone:
		readerEnded = true
	case <-time.After(hangBound):
	}
	out.Case(12, in, sx.L{sx.I(b2i(closeParked)), sx.I(b2i(readerParked)), sx.I(closeRet), sx.I(closeRes), consRes, sx.I(int64(qn)),
		sx.I(idle), sx.I(b2i(connRet)), sx.I(b2i(readerEnded))}, tag)
}

// genAfterClose: C13 fn 11 and fn 12
func genAfterClose(out caser, thorough bool) {
	kinds := lateKinds()
	var fs []func(c caser)
	for _, kind := range []int{0, 1} {
		for _, cv := range [][2]int{{0, 0}, {0, 1}, {1, 0}} {
			kind, closeVia, via := kind, cv[0], cv[1]
			// every kind alone on a fresh connection, then all of them one after the other
			for _, k := range kinds {
				k := k
				if !thorough && via == 1 && !k.hdrOnly && k.partial {
					continue
				}
				fs = append(fs, func(c caser) { runLatePackets(c, kind, closeVia, via, []lateKind{k}) })
			}
			fs = append(fs, func(c caser) { runLatePackets(c, kind, closeVia, via, kinds) })
		}
	}
	for _, closer := range []int{0, 1} {
		for _, k := range kinds {
			closer, k := closer, k
			if !thorough && k.hdrOnly && k.typ != int(tds.TDS_BUF_PROTACK) && k.typ != int(tds.TDS_BUF_CLOSE) && k.typ != int(tds.TDS_BUF_NORMAL) {
				continue
			}
			fs = append(fs, func(c caser) { runWindow(c, closer, k) })
		}
	}
	// the scenarios only wait (goroutine-state inspection, watchdogs): they run side by side
	parallel(out, 8, fs)
}
