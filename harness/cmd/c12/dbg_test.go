package main

import (
	"fmt"
	"testing"
)

func TestDbg(t *testing.T) {
	for i := 0; i < 5; i++ {
		b := &buffer{}
		runConnClose(b, 1, 4, []int{0}, 0, 1, 0)
		for _, r := range b.recs {
			fmt.Println(r.tag, r.out)
		}
	}
}
