package main

import (
	"fmt"
	"os"
	"runtime/pprof"
	"testing"
	"time"
)

func TestDbg(t *testing.T) {
	b := &buffer{}
	go func() {
		time.Sleep(1500 * time.Millisecond)
		pprof.Lookup("goroutine").WriteTo(os.Stdout, 2)
	}()
	runCloseFill(b, 1, 4, 3, 0, 0, 3*time.Second)
	for _, r := range b.recs {
		fmt.Println(r.tag, r.out)
	}
}
