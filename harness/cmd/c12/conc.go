package main

// C12 fn 3: concurrent use of 1..16 logical channels of ONE connection.
//
// g goroutines start together; each calls Conn.NewChannel (the peer acknowledges SETUP packets), then sends a few
// messages and reads each response up to its final DONE with NextPackage, then closes its channel.  The peer is a
// multiplexing server: it assembles the client's messages per channel, answers every message with a generated
// response cut into packets, and feeds the pending packets of all channels in random interleaving; now and then it
// sends a packet for a channel id that does not exist.  Everything the peer saw and sent is recorded per channel.
//
// The recorded history is the input of the check (which goroutine gets which id depends on the schedule):
//   input  (ps (id-returned-by-NewChannel ...) unknown-sent ((id closed ((typ ((chunk ...) ...)) ...) (packet ...)) ...))
//          channels sorted by id; packet = what the peer sent on that id, in order (without acknowledgement / logout reply)
//   output (((event ...) (#write ...) close-returned) ... , connection-errors-seen, problems)
//          per channel: packages delivered by NextPackage in order, the client's transport writes carrying that id in order

import (
	"context"
	"errors"
	"fmt"
	"runtime"
	"sort"
	"strings"
	"sync"
	"sync/atomic"
	"time"

	"github.com/SAP/go-dblib/tds"
	"verifharness/pk"
	"verifharness/pk/core"
	"verifharness/sx"
)

type peerChan struct {
	rx      [][]byte   // client writes carrying this id
	cur     []byte     // bodies of the message being assembled
	script  []core.Pkt // response packets sent on this id
	pending []core.Pkt // response packets not yet fed
	ack     bool       // a PROTACK is pending
	logout  bool       // a logout reply is pending
}

type muxPeer struct {
	mu       sync.Mutex
	cond     *sync.Cond
	pc       *pipeConn
	g        *pk.Gen
	chans    map[int]*peerChan
	inbox    [][]byte
	stop     bool
	setups   int
	ps       int // the packet size in force
	wantSet  int // unknown-channel packets are only sent once so many channels were set up
	unknown  int // budget of packets for channels that do not exist
	sentUnk  int
	bad      []string
	doneFeed chan struct{}
	doneHand chan struct{}
}

func newMuxPeer(pc *pipeConn, g *pk.Gen, wantSetups, unknown int) *muxPeer {
	p := &muxPeer{pc: pc, g: g, chans: map[int]*peerChan{}, wantSet: wantSetups, unknown: unknown,
		doneFeed: make(chan struct{}), doneHand: make(chan struct{})}
	p.cond = sync.NewCond(&p.mu)
	pc.onWrite = func(w []byte) {
		p.mu.Lock()
		p.inbox = append(p.inbox, w)
		p.cond.Broadcast()
		p.mu.Unlock()
	}
	go p.handle()
	go p.feed()
	return p
}

func (p *muxPeer) ch(id int) *peerChan {
	c := p.chans[id]
	if c == nil {
		c = &peerChan{}
		p.chans[id] = c
	}
	return c
}

// handle: the server's view of the client's writes
func (p *muxPeer) handle() {
	defer close(p.doneHand)
	p.mu.Lock()
	defer p.mu.Unlock()
	for {
		for len(p.inbox) == 0 && !p.stop {
			p.cond.Wait()
		}
		if len(p.inbox) == 0 && p.stop {
			return
		}
		w := p.inbox[0]
		p.inbox = p.inbox[1:]
		h, ok := parseHdr(w)
		if !ok || h.length != len(w) {
			p.bad = append(p.bad, fmt.Sprintf("malformed write of %d bytes", len(w)))
			continue
		}
		c := p.ch(h.channel)
		c.rx = append(c.rx, w)
		switch {
		case h.typ == int(tds.TDS_BUF_SETUP):
			c.ack = true
			p.setups++
		case h.typ == int(tds.TDS_BUF_CLOSE):
			// the channel is gone; nothing is pending for it (its owner read every response to the end)
		default:
			c.cur = append(c.cur, w[8:]...)
			if h.status&int(tds.TDS_BUFSTAT_EOM) != 0 {
				msg := c.cur
				c.cur = nil
				if h.channel == 0 && len(msg) == 2 && msg[0] == byte(tds.TDS_LOGOUT) {
					c.logout = true
				} else {
					var pre []core.Item
					if p.g.Rng.Intn(3) == 0 {
						// the server (re)announces the packet size in force while other channels are sending: the reader
						// goroutine stores it, the senders load it
						b := packSizePacket(h.channel, p.ps)[8:]
						pre = []core.Item{{Tok: int(b[0]), Body: b[1:]}}
					}
					pkts := responsePackets(p.g, h.channel, []int{3, 10, 30, 200}[p.g.Rng.Intn(4)], false, pre...)
					c.script = append(c.script, pkts...)
					c.pending = append(c.pending, pkts...)
				}
			}
		}
		p.cond.Broadcast()
	}
}

// feed: the server's packets of all channels, interleaved at random
func (p *muxPeer) feed() {
	defer close(p.doneFeed)
	for {
		p.mu.Lock()
		var ready []int
		for {
			ready = ready[:0]
			for id, c := range p.chans {
				if c.ack || c.logout || len(c.pending) > 0 {
					ready = append(ready, id)
				}
			}
			if len(ready) > 0 || p.stop {
				break
			}
			p.cond.Wait()
		}
		if len(ready) == 0 {
			p.mu.Unlock()
			return
		}
		sort.Ints(ready)
		id := ready[p.g.Rng.Intn(len(ready))]
		c := p.chans[id]
		var wire []byte
		switch {
		case c.ack:
			c.ack = false
			wire = wirePacket(int(tds.TDS_BUF_PROTACK), 1, id, 0, 0, nil)
		case len(c.pending) > 0:
			// now and then a packet for a channel that does not exist goes first
			acks := false
			for _, x := range p.chans {
				acks = acks || x.ack
			}
			if p.sentUnk < p.unknown && p.setups >= p.wantSet && !acks && p.g.Rng.Intn(6) == 0 {
				p.sentUnk++
				wire = append(wire, wirePacket(4, 1, 60000+p.g.Rng.Intn(5000), p.g.Rng.Intn(256), 0, []byte{0xfd, 0, 0, 0, 0, 0, 0, 0, 0})...)
			}
			wire = append(wire, core.WireBytes(c.pending[:1])...)
			c.pending = c.pending[1:]
		case c.logout:
			c.logout = false
			wire = wirePacket(4, 1, 0, 0, 0, []byte{0xfd, 0, 0, 0, 0, 0, 0, 0, 0})
		}
		yield := p.g.Rng.Intn(4) == 0
		p.mu.Unlock()
		p.pc.Feed(wire)
		if yield {
			runtime.Gosched()
		}
	}
}

func (p *muxPeer) shutdown() {
	p.mu.Lock()
	p.stop = true
	p.cond.Broadcast()
	p.mu.Unlock()
	<-p.doneFeed
	<-p.doneHand
}

type concMsg struct {
	typ  int
	pkgs [][][]byte
}

type concWorker struct {
	rng       *sx.Rng
	nmsgs     int
	id        int
	ok        bool
	msgs      []concMsg
	delivered sx.L
	connErrs  int
	problems  []string
	closeRet  bool
	closed    bool
}

func isFinalDone(p tds.Package) bool {
	d, ok := p.(*tds.DonePackage)
	return ok && d.Status == tds.TDS_DONE_FINAL
}

type concCfg struct {
	g, procs, nmsgs, unknown int
	yields                   bool
}

func runConcurrent(out caser, g *pk.Gen, c concCfg) {
	t0 := time.Now()
	defer func() {
		if d := time.Since(t0); d > 3*time.Second {
			fmt.Printf("c12: concurrent run g=%d procs=%d took %.1fs (watchdogs fired)\n", c.g, c.procs, d.Seconds())
		}
	}()
	old := runtime.GOMAXPROCS(c.procs)
	defer runtime.GOMAXPROCS(old)
	e := newEnv(100000, true)
	peer := newMuxPeer(e.pc, g, c.g, c.unknown)
	ps := e.conn.PacketSize()
	peer.ps = ps
	ws := make([]*concWorker, c.g)
	for i := range ws {
		ws[i] = &concWorker{rng: sx.NewRng(g.Rng.U64()), nmsgs: g.Rng.Range(0, c.nmsgs), id: -1}
	}
	start := make(chan struct{})
	var all, others sync.WaitGroup
	var zeroGate = make(chan struct{})
	all.Add(c.g)
	others.Add(c.g)
	ctx, cancel := context.WithTimeout(context.Background(), 12*time.Second) // watchdog for every blocking call
	defer cancel()
	for _, w := range ws {
		go func(w *concWorker) {
			defer all.Done()
			counted := false
			finish := func() {
				if !counted {
					counted = true
					others.Done()
				}
			}
			defer finish()
			defer func() {
				if r := recover(); r != nil {
					w.problems = append(w.problems, fmt.Sprintf("panic: %v", r))
				}
			}()
			<-start
			var ch *tds.Channel
			var err error
			ret, pan := within(12*time.Second, func() { ch, err = e.conn.NewChannel() })
			if !ret || pan || err != nil || ch == nil {
				w.problems = append(w.problems, fmt.Sprintf("NewChannel: returned=%v panicked=%v err=%v", ret, pan, err))
				return
			}
			w.id = ch.VerifChannelId()
			w.ok = true
			for m := 0; m < w.nmsgs; m++ {
				msg := concMsg{typ: []int{15, 15, 1, 3}[w.rng.Intn(4)], pkgs: randomMessage(w.rng, 200)}
				if w.rng.Intn(5) == 0 {
					msg.pkgs = randomMessage(w.rng, ps)
				}
				w.msgs = append(w.msgs, msg)
				ch.CurrentHeaderType = tds.PacketHeaderType(msg.typ)
				for i, chunks := range msg.pkgs {
					p := &chunkPkg{chunks}
					if i == len(msg.pkgs)-1 {
						err = ch.SendPackage(ctx, p)
					} else {
						err = ch.QueuePackage(ctx, p)
					}
					if err != nil {
						w.problems = append(w.problems, "send: "+err.Error())
						return
					}
					if c.yields && w.rng.Intn(3) == 0 {
						runtime.Gosched()
					}
				}
				for {
					p, err := ch.NextPackage(ctx, true)
					if err != nil {
						if strings.Contains(err.Error(), "invalid channel") && !errors.Is(err, context.DeadlineExceeded) {
							w.connErrs++ // a connection error reaches whoever asks next; the channel's own data is not affected
							continue
						}
						w.problems = append(w.problems, "receive: "+err.Error())
						return
					}
					w.delivered = append(w.delivered, core.RenderAny(p))
					if isFinalDone(p) {
						break
					}
					if c.yields && w.rng.Intn(8) == 0 {
						runtime.Gosched()
					}
				}
			}
			if w.id == 0 {
				// channel 0 is closed by a logout that reads an answer: wait until the others are done, so that no
				// connection error meant for "whoever asks next" is swallowed by the logout
				finish()
				<-zeroGate
			}
			w.closed = true
			w.closeRet, _ = within(12*time.Second, func() { ch.Close() })
		}(w)
	}
	close(start)
	leftover := 0
	gate := make(chan struct{})
	go func() {
		others.Wait()
		// all goroutines but the owner of channel 0 are done (or waiting at the gate): unread connection errors
		e.pc.WaitIdle(5 * time.Second)
		leftover += invalidCount(connErrs(e.conn))
		close(zeroGate)
		close(gate)
	}()
	allDone := make(chan struct{})
	go func() { all.Wait(); close(allDone) }()
	hung := false
	select {
	case <-allDone:
	case <-time.After(45 * time.Second):
		hung = true
		atomic.AddInt32(&watchdogHits, 10)
	}
	var problems []string
	select {
	case <-gate:
	case <-time.After(10 * time.Second):
		hung = true
	}
	if hung {
		problems = append(problems, "goroutines did not finish")
	}
	closeRet, _ := within(6*time.Second, func() { e.conn.Close() })
	if !closeRet {
		problems = append(problems, "Conn.Close did not return")
	}
	select {
	case <-e.readerDone:
	case <-time.After(4 * time.Second):
		problems = append(problems, "reader goroutine did not end")
	}
	peer.shutdown()
	if hung {
		e.shutdown()
		out.Case(3, sx.L{sx.I(int64(ps)), sx.L{}, sx.I(0), sx.L{}}, sx.L{sx.L{}, sx.I(-1), sx.L{pk.S("hung")}},
			fmt.Sprintf("conc;g=%d;procs=%d;hung", c.g, c.procs))
		return
	}
	leftover += invalidCount(connErrs(e.conn))
	// assemble the history per channel id
	peer.mu.Lock()
	defer peer.mu.Unlock()
	var ids sx.L
	byId := map[int]*concWorker{}
	seen := 0
	for _, w := range ws {
		problems = append(problems, w.problems...)
		seen += w.connErrs
		if w.ok {
			ids = append(ids, sx.I(int64(w.id)))
			if byId[w.id] == nil {
				byId[w.id] = w
			}
		}
	}
	if ids == nil {
		ids = sx.L{}
	}
	var keys []int
	for id := range peer.chans {
		keys = append(keys, id)
	}
	for id := range byId {
		if peer.chans[id] == nil {
			keys = append(keys, id)
		}
	}
	sort.Ints(keys)
	var in, res sx.L
	for _, id := range keys {
		pcn := peer.chans[id]
		if pcn == nil {
			pcn = &peerChan{}
		}
		w := byId[id]
		if w == nil {
			w = &concWorker{}
			problems = append(problems, fmt.Sprintf("the peer saw channel %d which no NewChannel returned", id))
		}
		var ml, pl, dl, wl sx.L
		for _, m := range w.msgs {
			ml = append(ml, sx.L{sx.I(int64(m.typ)), txop{pkgs: m.pkgs}.tree().(sx.L)[3]})
		}
		for _, p := range pcn.script {
			pl = append(pl, p.Tree())
		}
		dl = append(dl, w.delivered...)
		for _, x := range pcn.rx {
			wl = append(wl, sx.B(x))
		}
		for _, l := range []*sx.L{&ml, &pl, &dl, &wl} {
			if *l == nil {
				*l = sx.L{}
			}
		}
		in = append(in, sx.L{sx.I(int64(id)), sx.Bool(w.closed), ml, pl})
		res = append(res, sx.L{dl, wl, sx.Bool(w.closeRet || !w.closed)})
	}
	if in == nil {
		in = sx.L{}
	}
	if res == nil {
		res = sx.L{}
	}
	if len(problems) > 0 {
		atomic.AddInt32(&watchdogHits, 4) // a failing run is a reported case; a few of them are enough
	}
	pl := sx.L{}
	for _, s := range problems {
		pl = append(pl, pk.S(s))
	}
	for _, s := range peer.bad {
		pl = append(pl, pk.S(s))
	}
	race := 0
	if raceEnabled {
		race = 1
	}
	out.Case(3, sx.L{sx.I(int64(ps)), ids, sx.I(int64(peer.sentUnk)), in}, sx.L{res, sx.I(int64(seen + leftover)), pl},
		fmt.Sprintf("conc;g=%d;procs=%d;race=%d", c.g, c.procs, race))
}

func genConcurrent(g *pk.Gen, out caser, reps int) {
	gs := []int{1, 2, 3, 4, 8, 16}
	n := 0
	// creation storms: 16 goroutines released together into NewChannel, nothing else
	for rep := 0; rep < 4*reps && !tooManyHangs(); rep++ {
		runConcurrent(out, g, concCfg{g: 16, procs: []int{2, 4, 16}[rep%3], nmsgs: 0, yields: rep%2 == 0})
	}
	for rep := 0; rep < reps && !tooManyHangs(); rep++ {
		for _, procs := range []int{1, 4, 16} {
			for _, ng := range gs {
				if tooManyHangs() {
					return
				}
				c := concCfg{g: ng, procs: procs, nmsgs: 4, unknown: g.Rng.Intn(6), yields: g.Rng.Bool()}
				if rep%3 == 2 {
					c.g = g.Rng.Range(1, 16)
				}
				if n%4 == 3 {
					c.nmsgs = 1 // mostly creation and closing
				}
				runConcurrent(out, g, c)
				n++
			}
		}
	}
}

// invalidCount: the "invalid channel" errors among drained connection errors (the read error after the transport
// was closed is not one)
func invalidCount(l sx.L) int {
	n := 0
	for _, x := range l {
		if x.(sx.I) >= 0 {
			n++
		}
	}
	return n
}
