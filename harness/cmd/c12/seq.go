package main

// C12, sequential families (one harness goroutine + the real reader goroutine of the connection):
//
// fn 1  routing      input  (need nenv (id ...) (op ...))   op = (0 packet) | (1 id)  [close channel id]
//                    output per op: packet -> (((id (event ...)) ...) (reported-invalid-id ...))   close -> (code)
//                    packet = (msgtype status channel nr window eom #body) as in the rx harness; events as there.
// fn 2  tx numbering input  (ps (id ...) (op ...))   op = (0 id typ ((chunk ...) ...)) send one message | (1 id) close | (2 id newid nr) re-register
//                    output (#write ...)  every transport write in order (the SETUP packets of the channels first)
// fn 4  setup        input  ((answer ...))  one logical channel is created; the peer answers its SETUP packet with the given packets, then
//                    (if the call has not returned) the connection context is cancelled
//                    answer = (kind typ channel) kind 0 header-only packet, 1 packet with a DONE(final), 2 packet with a malformed package
//                    output (result id (#write ...))  result 0 ok | 1 error | 2 error only after the cancellation | 9 did not return

import (
	"context"
	"fmt"
	"regexp"
	"sort"
	"strconv"
	"sync/atomic"
	"time"

	"github.com/SAP/go-dblib/tds"
	"verifharness/pk"
	"verifharness/pk/core"
	"verifharness/sx"
)

const watchdog = 10 * time.Second

type cenv struct {
	pc         *pipeConn
	conn       *tds.Conn
	info       *tds.Info
	cancel     context.CancelFunc
	readerDone chan struct{}
	readerPan  bool
}

// newEnv creates a connection on a fresh pipe transport with the reader goroutine running (as NewConn does).
func newEnv(queueCap int, reader bool) *cenv {
	e := &cenv{pc: newPipe(), info: &tds.Info{}, readerDone: make(chan struct{})}
	e.info.ChannelPackageQueueSize = queueCap
	ctx, cancel := context.WithCancel(context.Background())
	e.cancel = cancel
	conn, err := tds.VerifNewConn(ctx, e.info, e.pc, false)
	if err != nil {
		panic(err)
	}
	e.conn = conn
	if reader {
		e.startReader()
	}
	return e
}

func (e *cenv) startReader() {
	go func() {
		defer func() {
			if r := recover(); r != nil {
				e.readerPan = true
			}
			close(e.readerDone)
		}()
		e.conn.ReadFrom()
	}()
}

// watchdogHits counts watchdog expiries in this process; after a few of them the remaining cases of a family are
// skipped (every expiry already is a reported case; a broken reader would otherwise cost the full bound per case)
var watchdogHits int32

func tooManyHangs() bool { return atomic.LoadInt32(&watchdogHits) > 6 }

// waitIdle waits until the reader goroutine has processed everything that was fed; false: it did not within the
// watchdog bound, or it is gone (returned / panicked)
func (e *cenv) waitIdle() bool {
	deadline := time.Now().Add(watchdog)
	for time.Now().Before(deadline) {
		if e.pc.WaitIdle(5 * time.Millisecond) {
			return true
		}
		select {
		case <-e.readerDone:
			return false
		default:
		}
	}
	atomic.AddInt32(&watchdogHits, 1)
	return false
}

// autoAck: the peer acknowledges every SETUP packet at once.
func (e *cenv) autoAck() {
	e.pc.onWrite = func(w []byte) {
		if h, ok := parseHdr(w); ok && h.typ == int(tds.TDS_BUF_SETUP) {
			e.pc.Feed(wirePacket(int(tds.TDS_BUF_PROTACK), 1, h.channel, 0, 0, nil))
		}
	}
}

// newChannel calls NewChannel under a watchdog.
func (e *cenv) newChannel() (ch *tds.Channel, err error, ok bool) {
	ret, pan := within(watchdog, func() { ch, err = e.conn.NewChannel() })
	if !ret {
		atomic.AddInt32(&watchdogHits, 1)
	}
	return ch, err, ret && !pan
}

// shutdown releases what can be released (the harness process goes on with the next case).
func (e *cenv) shutdown() {
	e.cancel()
	e.pc.Close()
}

type hookEv struct {
	before int
	t      sx.T
}

type seqChan struct {
	id    int
	ch    *tds.Channel
	hooks []hookEv
	gone  bool
}

func (sc *seqChan) register(need, nenv int) {
	for i := 0; i < need; i++ {
		i := i
		sc.ch.RegisterEEDHooks(func(e tds.EEDPackage) {
			n, _ := sc.ch.VerifQueueLens()
			_, f, _ := core.RenderCore(&e)
			sc.hooks = append(sc.hooks, hookEv{n, sx.L{sx.I(4), sx.I(int64(i)), f}})
		})
	}
	for i := 0; i < nenv; i++ {
		i := i
		sc.ch.RegisterEnvChangeHooks(func(typ tds.EnvChangeType, o, n string) {
			c, _ := sc.ch.VerifQueueLens()
			sc.hooks = append(sc.hooks, hookEv{c, sx.L{sx.I(5), sx.I(int64(i)), sx.I(int64(typ)), pk.S(o), pk.S(n)}})
		})
	}
}

// drain collects what the channel received since the last call: hook calls and delivered packages in
// order, errors last (the canonical order of the rx model).
func (sc *seqChan) drain() sx.L {
	evs := sx.L{}
	if sc.gone {
		return evs
	}
	n, _ := sc.ch.VerifQueueLens()
	hi := 0
	for j := 0; j < n; j++ {
		for hi < len(sc.hooks) && sc.hooks[hi].before <= j {
			evs = append(evs, sc.hooks[hi].t)
			hi++
		}
		pkg, err := sc.ch.NextPackage(context.Background(), false)
		if err != nil {
			evs = append(evs, sx.L{sx.I(8), sx.I(int64(errCode(err, nil)))})
			break
		}
		evs = append(evs, core.RenderAny(pkg))
	}
	for ; hi < len(sc.hooks); hi++ {
		evs = append(evs, sc.hooks[hi].t)
	}
	sc.hooks = nil
	for sc.ch.VerifNextErr() != nil {
		evs = append(evs, sx.L{sx.I(7), sx.I(0)})
	}
	return evs
}

var invalidChanRe = regexp.MustCompile(`invalid channel (\d+)`)

// connErrs drains the connection's error queue: the channel id each "invalid channel" error names (-1: another error).
func connErrs(conn *tds.Conn) sx.L {
	l := sx.L{}
	for {
		err := conn.VerifNextErr()
		if err == nil {
			return l
		}
		if m := invalidChanRe.FindStringSubmatch(err.Error()); m != nil {
			v, _ := strconv.Atoi(m[1])
			l = append(l, sx.I(int64(v)))
		} else {
			l = append(l, sx.I(-1))
		}
	}
}

type rop struct {
	kind int // 0 packet, 1 close
	pkt  core.Pkt
	id   int
}

func (o rop) tree() sx.T {
	if o.kind == 0 {
		return sx.L{sx.I(0), o.pkt.Tree()}
	}
	return sx.L{sx.I(1), sx.I(int64(o.id))}
}

func closeCode(err error, returned bool) int64 {
	switch {
	case !returned:
		return 9
	case err == nil:
		return 0
	case err == tds.ErrChannelClosed:
		return 2
	}
	return 1
}

// runRouting executes one fn-1 case on the real connection.
func runRouting(out caser, need, nenv int, ids []int, ops []rop, tag string) {
	e := newEnv(100000, true)
	defer e.shutdown()
	e.autoAck()
	// channels are created with the real protocol (ids 0..n-1), then re-registered under the wanted ids
	chans := make([]*seqChan, len(ids))
	for i := range ids {
		ch, err, ok := e.newChannel()
		if !ok || err != nil || ch == nil {
			out.Case(1, sx.L{sx.I(int64(need)), sx.I(int64(nenv)), intsTree(ids), sx.L{}}, sx.L{sx.I(-8), sx.I(int64(i))}, tag+";newchannel-failed")
			return
		}
		chans[i] = &seqChan{id: ch.VerifChannelId(), ch: ch}
	}
	// highest first, so that a wanted id never collides with a not yet moved one
	order := make([]int, len(ids))
	for i := range order {
		order[i] = i
	}
	sort.Slice(order, func(a, b int) bool { return order[a] > order[b] })
	for _, i := range order {
		if chans[i].id != ids[i] {
			chans[i].ch.VerifSetChannelId(ids[i])
			chans[i].id = ids[i]
		}
		chans[i].register(need, nenv)
	}
	byId := func(id int) *seqChan {
		for _, c := range chans {
			if c.id == id && !c.gone {
				return c
			}
		}
		return nil
	}
	var in, res sx.L
	for _, o := range ops {
		in = append(in, o.tree())
		if o.kind == 1 {
			c := byId(o.id)
			if c == nil {
				res = append(res, sx.L{sx.I(2)})
				continue
			}
			var err error
			ret, _ := within(watchdog, func() { err = c.ch.Close() })
			res = append(res, sx.L{sx.I(closeCode(err, ret))})
			if !ret {
				break
			}
			c.gone = true
			continue
		}
		e.pc.Feed(core.WireBytes([]core.Pkt{o.pkt}))
		if !e.waitIdle() {
			res = append(res, sx.L{sx.I(-9)})
			break
		}
		touched := sx.L{}
		cerrs := connErrs(e.conn)
		for _, c := range chans {
			if evs := c.drain(); len(evs) > 0 {
				touched = append(touched, sx.L{sx.I(int64(c.id)), evs})
			}
		}
		sort.Slice(touched, func(a, b int) bool { return touched[a].(sx.L)[0].(sx.I) < touched[b].(sx.L)[0].(sx.I) })
		res = append(res, sx.L{touched, cerrs})
	}
	if in == nil {
		in = sx.L{}
	}
	if res == nil {
		res = sx.L{}
	}
	out.Case(1, sx.L{sx.I(int64(need)), sx.I(int64(nenv)), intsTree(ids), in}, res, tag)
}

func intsTree(v []int) sx.L {
	l := sx.L{}
	for _, x := range v {
		l = append(l, sx.I(int64(x)))
	}
	return l
}

var specialIds = []int{255, 256, 257, 511, 512, 4660, 13330, 32768, 65280, 65534, 65535}

// pickIds: n distinct channel ids; plain 0..n-1, or some of them moved to ids whose two bytes differ.
func pickIds(rng *sx.Rng, n int, special bool) []int {
	ids := make([]int, n)
	used := map[int]bool{}
	for i := range ids {
		ids[i] = i
		used[i] = true
	}
	if special {
		for i := 1; i < n; i++ {
			if rng.Intn(2) == 0 {
				v := specialIds[rng.Intn(len(specialIds))]
				if rng.Intn(3) == 0 {
					v = rng.Range(16, 65535)
				}
				if !used[v] {
					delete(used, ids[i])
					ids[i] = v
					used[v] = true
				}
			}
		}
	}
	return ids
}

// noPackSize drops ENVCHANGE packages announcing a packet size (used where several goroutines send while
// responses arrive: the packet size is connection state negotiated before channels are used concurrently).
func noPackSize(items []core.Item) []core.Item {
	var r []core.Item
	for _, it := range items {
		if it.Tok == int(tds.TDS_ENVCHANGE) && len(it.Body) >= 2 {
			b := it.Body[2:]
			has := false
			for len(b) > 0 {
				if b[0] == byte(tds.TDS_ENV_PACKSIZE) {
					has = true
				}
				if len(b) < 2 {
					break
				}
				l1 := int(b[1])
				if len(b) < 2+l1+1 {
					break
				}
				l2 := int(b[2+l1])
				if len(b) < 3+l1+l2 {
					break
				}
				b = b[3+l1+l2:]
			}
			if has {
				continue
			}
		}
		r = append(r, it)
	}
	return r
}

// responsePackets: one generated server response for a channel, cut into packets.
func responsePackets(g *pk.Gen, channel int, cutProb int, packsize bool, pre ...core.Item) []core.Pkt {
	for {
		items := core.Response(g)
		if !packsize {
			items = noPackSize(items)
		}
		items = append(append([]core.Item{}, pre...), items...)
		msg := core.Stream(items)
		if len(msg) == 0 {
			continue
		}
		var cuts []int
		for c := 1; c < len(msg); c++ {
			if g.Rng.Intn(cutProb) == 0 {
				cuts = append(cuts, c)
			}
		}
		pkts := core.Packetise(msg, cuts)
		for i := range pkts {
			pkts[i].Channel = channel
			pkts[i].Nr = g.Rng.Intn(256)
		}
		return pkts
	}
}

// genRouting: random interleavings of per-channel packet streams, unknown ids, header-only packets, closes.
func genRouting(g *pk.Gen, out caser, n int) {
	rng := g.Rng
	for k := 0; k < n && !tooManyHangs(); k++ {
		nch := rng.Range(1, 16)
		switch k % 8 {
		case 0:
			nch = 1
		case 1:
			nch = 2
		case 2:
			nch = 16
		}
		ids := pickIds(rng, nch, k%2 == 1)
		isReg := map[int]bool{}
		for _, id := range ids {
			isReg[id] = true
		}
		// per channel streams
		streams := make([][]core.Pkt, nch)
		for i, id := range ids {
			for r := 0; r < rng.Range(1, 3); r++ {
				streams[i] = append(streams[i], responsePackets(g, id, []int{4, 12, 40}[rng.Intn(3)], true)...)
				if rng.Intn(6) == 0 {
					streams[i] = append(streams[i], core.Pkt{MsgType: []int{11, 11, 9, 15, 4}[rng.Intn(5)], Channel: id, Nr: rng.Intn(256), Status: rng.Intn(2)})
				}
			}
		}
		// candidates for ids that are not registered: neighbours and byte swaps of registered ones, random ones
		var unknown []int
		for _, id := range ids {
			for _, v := range []int{id + 1, id - 1, (id&0xff)<<8 | id>>8, id ^ 0x100, id ^ 0x8000, id & 0xff, id | 0xff00} {
				if v >= 0 && v <= 65535 && !isReg[v] {
					unknown = append(unknown, v)
				}
			}
		}
		unknown = append(unknown, 65535-rng.Intn(100))
		var ops []rop
		closed := map[int]bool{}
		pos := make([]int, nch)
		for {
			var live []int
			for i := range streams {
				if pos[i] < len(streams[i]) {
					live = append(live, i)
				}
			}
			if len(live) == 0 {
				break
			}
			i := live[rng.Intn(len(live))]
			ops = append(ops, rop{kind: 0, pkt: streams[i][pos[i]]})
			pos[i]++
			switch rng.Intn(14) {
			case 0: // a packet for a channel that does not exist
				u := unknown[rng.Intn(len(unknown))]
				if !isReg[u] {
					p := core.Pkt{MsgType: 4, Channel: u, EOM: true, Body: core.Stream([]core.Item{core.DoneItem(int(tds.TDS_DONE), 0, 0, 0)})}
					if rng.Intn(3) == 0 {
						p = core.Pkt{MsgType: 11, Channel: u}
					}
					ops = append(ops, rop{kind: 0, pkt: p})
				}
			case 1: // a logical channel is closed in the middle of its stream (not channel 0: its close is a logout, see C13)
				j := rng.Intn(nch)
				if ids[j] != 0 && !closed[ids[j]] && k%4 == 3 {
					closed[ids[j]] = true
					ops = append(ops, rop{kind: 1, id: ids[j]})
				}
			}
		}
		tag := fmt.Sprintf("route;channels=%d", nch)
		if len(closed) > 0 {
			tag = fmt.Sprintf("route-close;channels=%d", nch)
		}
		runRouting(out, rng.Intn(3), rng.Intn(3), ids, ops, tag)
	}
}
