package main

// C12 fn 2 (outgoing packets of several channels on one transport) and fn 4 (setup of a logical channel).

import (
	"context"
	"errors"
	"fmt"
	"time"

	"github.com/SAP/go-dblib/tds"
	"verifharness/sx"
)

// chunkPkg is a package whose encoding is written in the given WriteBytes calls
type chunkPkg struct{ chunks [][]byte }

func (p *chunkPkg) ReadFrom(ch tds.BytesChannel) error { return fmt.Errorf("not readable") }
func (p *chunkPkg) WriteTo(ch tds.BytesChannel) error {
	for _, c := range p.chunks {
		if err := ch.WriteBytes(c); err != nil {
			return err
		}
	}
	return nil
}
func (p *chunkPkg) String() string { return "chunkPkg" }

// errCode: 0 nil | 1 wraps a context error | 2 ErrChannelClosed | 3 ErrNoPackageReady | 4 anything else
func errCode(err error, _ interface{}) int {
	switch {
	case err == nil:
		return 0
	case errors.Is(err, tds.ErrChannelClosed):
		return 2
	case errors.Is(err, context.Canceled) || errors.Is(err, context.DeadlineExceeded):
		return 1
	case errors.Is(err, tds.ErrNoPackageReady):
		return 3
	}
	return 4
}

type txop struct {
	kind int // 0 send, 1 close, 3 the server announces a packet size on channel id
	id   int
	typ  int
	pkgs [][][]byte
	size int
}

func (o txop) tree() sx.T {
	if o.kind == 1 {
		return sx.L{sx.I(1), sx.I(int64(o.id))}
	}
	if o.kind == 3 {
		return sx.L{sx.I(3), sx.I(int64(o.id)), sx.I(int64(o.size))}
	}
	var pk sx.L
	for _, chunks := range o.pkgs {
		cs := sx.L{}
		for _, c := range chunks {
			cs = append(cs, sx.B(c))
		}
		pk = append(pk, cs)
	}
	if pk == nil {
		pk = sx.L{}
	}
	return sx.L{sx.I(0), sx.I(int64(o.id)), sx.I(int64(o.typ)), pk}
}

func splitRandom(rng *sx.Rng, data []byte, parts int) [][]byte {
	if parts <= 1 || len(data) < parts {
		return [][]byte{data}
	}
	cuts := map[int]bool{}
	for len(cuts) < parts-1 {
		cuts[rng.Range(1, len(data)-1)] = true
	}
	var res [][]byte
	last := 0
	for i := 1; i <= len(data); i++ {
		if cuts[i] || i == len(data) {
			res = append(res, data[last:i])
			last = i
		}
	}
	return res
}

// randomMessage: 1..3 packages of 1..3 chunks; total length around multiples of the body size now and then
func randomMessage(rng *sx.Rng, ps int) [][][]byte {
	body := ps - 8
	var total int
	switch rng.Intn(6) {
	case 0:
		total = body * rng.Range(1, 3)
	case 1:
		total = body*rng.Range(1, 2) + []int{-1, 1}[rng.Intn(2)]
	case 2:
		total = rng.Range(1, 5)
	default:
		total = rng.Range(1, 3*body)
	}
	if total < 1 {
		total = 1
	}
	data := rng.Bytes(total)
	data[0] = 0x21 // never the LOGOUT token
	var pkgs [][][]byte
	for _, p := range splitRandom(rng, data, rng.Range(1, 3)) {
		pkgs = append(pkgs, splitRandom(rng, p, rng.Range(1, 3)))
	}
	return pkgs
}

// runTx: channels with the given (id, nr0); operations in the given order from one goroutine; output = the transport writes.
func runTx(out caser, ps int, ids, nr0 []int, ops []txop, tag string) {
	e := newEnv(1000, true)
	defer e.shutdown()
	e.autoAck()
	chans := map[int]*tds.Channel{}
	var chl sx.L
	for i := range ids {
		ch, err, ok := e.newChannel()
		if !ok || err != nil || ch == nil {
			out.Case(2, sx.L{sx.I(int64(ps)), sx.L{}, sx.L{}}, sx.L{sx.I(-8)}, tag+";newchannel-failed")
			return
		}
		chans[i] = ch
	}
	for i := len(ids) - 1; i >= 0; i-- {
		if chans[i].VerifChannelId() != ids[i] {
			chans[i].VerifSetChannelId(ids[i])
		}
		chans[i].VerifSetCurPacketNr(nr0[i])
	}
	byId := map[int]*tds.Channel{}
	for i, id := range ids {
		byId[id] = chans[i]
		chl = append(chl, sx.L{sx.I(int64(id)), sx.I(int64(nr0[i]))})
	}
	e.conn.VerifSetPacketSize(ps)
	start := e.pc.NWrites() // the SETUP packets are not part of this family
	var in sx.L
	failed := false
	for _, o := range ops {
		in = append(in, o.tree())
		ch := byId[o.id]
		if o.kind == 3 {
			e.pc.Feed(packSizePacket(o.id, o.size))
			if !e.waitIdle() {
				failed = true
				break
			}
			continue
		}
		if o.kind == 1 {
			ret, _ := within(watchdog, func() { ch.Close() })
			if !ret {
				failed = true
				break
			}
			continue
		}
		ch.CurrentHeaderType = tds.PacketHeaderType(o.typ)
		ret, pan := within(watchdog, func() {
			for i, chunks := range o.pkgs {
				p := &chunkPkg{chunks}
				if i == len(o.pkgs)-1 {
					ch.SendPackage(context.Background(), p)
				} else {
					ch.QueuePackage(context.Background(), p)
				}
			}
		})
		if !ret || pan {
			failed = true
			break
		}
	}
	res := sx.L{}
	for _, w := range e.pc.Writes()[start:] {
		res = append(res, sx.B(w))
	}
	if failed {
		res = append(res, sx.I(-2))
	}
	if in == nil {
		in = sx.L{}
	}
	out.Case(2, sx.L{sx.I(int64(ps)), chl, in}, res, tag)
}

// packSizePacket: a response consisting of an ENVCHANGE that announces a packet size
func packSizePacket(channel, size int) []byte {
	v := []byte(fmt.Sprint(size))
	member := append([]byte{byte(tds.TDS_ENV_PACKSIZE), byte(len(v))}, v...)
	member = append(member, 3, '5', '1', '2')
	body := append([]byte{byte(tds.TDS_ENVCHANGE), byte(len(member)), byte(len(member) >> 8)}, member...)
	return wirePacket(4, 1, channel, 0, 0, body)
}

func genTx(rng *sx.Rng, out caser, n int) {
	sizes := []int{512, 512, 16, 9, 64, 2048, 600}
	for k := 0; k < n && !tooManyHangs(); k++ {
		nch := rng.Range(1, 16)
		if k%5 == 0 {
			nch = rng.Range(1, 3)
		}
		ids := pickIds(rng, nch, k%2 == 0)
		nr0 := make([]int, nch)
		for i := range nr0 {
			switch rng.Intn(4) {
			case 0:
				nr0[i] = 1
			case 1:
				nr0[i] = rng.Range(250, 255)
			default:
				nr0[i] = rng.Intn(256)
			}
			if ids[i] == 0 {
				nr0[i] = 0
			}
		}
		ps := sizes[rng.Intn(len(sizes))]
		if k%7 == 6 {
			ps = rng.Range(9, 700)
		}
		ps0 := ps
		var ops []txop
		closed := map[int]bool{}
		nops := rng.Range(2, 40)
		if ps < 32 {
			nops = rng.Range(2, 12)
		}
		for j := 0; j < nops; j++ {
			id := ids[rng.Intn(nch)]
			if rng.Intn(15) == 0 && id != 0 && !closed[id] {
				closed[id] = true
				ops = append(ops, txop{kind: 1, id: id})
				continue
			}
			// sends on a closed channel are part of the family: nothing may be written
			if closed[id] && rng.Intn(3) != 0 {
				continue
			}
			if rng.Intn(12) == 0 && !closed[id] {
				// the server announces another packet size (now and then one a packet cannot have): later messages of
				// every channel use it
				sz := []int{16, 24, 64, 512, 600, 2048, 8, 7, 70000, 0}[rng.Intn(10)]
				ops = append(ops, txop{kind: 3, id: id, size: sz})
				if sz > 8 && sz <= 65535 {
					ps = sz
				}
				continue
			}
			psm := ps
			if psm > 200 {
				psm = 200 // keep the messages small; boundary lengths relative to the real body size are C01's business
			}
			msg := randomMessage(rng, psm+8)
			if rng.Intn(4) == 0 {
				msg = randomMessage(rng, ps)
			}
			ops = append(ops, txop{kind: 0, id: id, typ: []int{15, 15, 1, 3}[rng.Intn(4)], pkgs: msg})
		}
		runTx(out, ps0, ids, nr0, ops, fmt.Sprintf("tx;channels=%d;ps=%d", nch, ps0))
	}
}

// ---------------------------------------------------------------- fn 4

type answer struct{ kind, typ, channel int }

func (a answer) wire() []byte {
	switch a.kind {
	case 0:
		return wirePacket(a.typ, 1, a.channel, 0, 0, nil)
	case 1:
		return wirePacket(a.typ, 1, a.channel, 0, 0, []byte{0xfd, 0, 0, 0, 0, 0, 0, 0, 0})
	}
	return wirePacket(a.typ, 1, a.channel, 0, 0, []byte{0x71, 5}) // LOGOUT with an option: "unhandled logout option"
}

func runSetup(out caser, answers []answer, expectWait bool, tag string) {
	e := newEnv(1000, true)
	defer e.shutdown()
	ch0, err, ok := e.newChannel()
	if !ok || err != nil || ch0 == nil {
		out.Case(4, sx.L{sx.L{}}, sx.L{sx.I(-8)}, tag+";newchannel-failed")
		return
	}
	var ch *tds.Channel
	var nerr error
	done := make(chan struct{})
	go func() {
		defer func() { recover(); close(done) }()
		ch, nerr = e.conn.NewChannel()
	}()
	code := int64(9)
	if e.pc.WaitWrites(1, watchdog) {
		for _, a := range answers {
			e.pc.Feed(a.wire())
		}
		if !expectWait {
			select {
			case <-done:
				code = 1
				if nerr == nil && ch != nil {
					code = 0
				}
			case <-time.After(watchdog):
			}
		} else {
			// nothing that ends the wait is sent (the script is built that way): the call must still be waiting after a
			// while; cancelling the connection context ends it
			select {
			case <-done:
				code = 1
				if nerr == nil && ch != nil {
					code = 0
				}
			case <-time.After(150 * time.Millisecond):
				e.cancel()
				select {
				case <-done:
					code = 2
					if nerr == nil {
						code = 0
					}
				case <-time.After(watchdog):
				}
			}
		}
	}
	var al sx.L
	for _, a := range answers {
		al = append(al, sx.L{sx.I(int64(a.kind)), sx.I(int64(a.typ)), sx.I(int64(a.channel))})
	}
	if al == nil {
		al = sx.L{}
	}
	ws := sx.L{}
	for _, w := range e.pc.Writes() {
		ws = append(ws, sx.B(w))
	}
	// the id: what the channel says if there is one, else what the SETUP packet carried
	id := int64(-1)
	if ch != nil {
		id = int64(ch.VerifChannelId())
	} else if w := e.pc.Writes(); len(w) > 0 {
		if h, ok := parseHdr(w[0]); ok {
			id = int64(h.channel)
		}
	}
	out.Case(4, sx.L{al}, sx.L{sx.I(code), sx.I(id), ws}, tag)
}

// genSetup: irrelevant packets (for channel 0) first, then at most ONE packet that ends the wait, then anything:
// the outcome does not depend on how far NewChannel got when the packets arrive.
func genSetup(rng *sx.Rng, out caser, n int) {
	run := func(relevant *answer, tag string) {
		var as []answer
		for i := 0; i < rng.Intn(3); i++ {
			as = append(as, answer{rng.Intn(2), []int{11, 4, 15}[rng.Intn(3)], 0})
		}
		if relevant != nil {
			as = append(as, *relevant)
		}
		runSetup(out, as, relevant == nil, tag)
	}
	for t := 0; t < 256; t++ { // every message type in a header-only answer
		if t < 32 || rng.Intn(8) == 0 {
			run(&answer{0, t, 1}, fmt.Sprintf("setup;header-only;type=%d", t))
		}
	}
	for k := 0; k < n; k++ {
		switch k % 6 {
		case 0:
			run(&answer{0, 11, 1}, "setup;protack")
		case 1:
			run(&answer{1, []int{4, 11}[rng.Intn(2)], 1}, "setup;package")
		case 2:
			run(&answer{2, 4, 1}, "setup;malformed")
		case 3:
			run(&answer{0, 11, []int{2, 256, 257, 65535}[rng.Intn(4)]}, "setup;ack-for-unknown-channel")
		case 4:
			if k < 12 {
				run(nil, "setup;silent-peer")
			}
		case 5:
			run(&answer{0, 11, 1}, "setup;protack")
		}
	}
}
