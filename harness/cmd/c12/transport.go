package main

// In-memory transport between the real tds.Conn (client) and a scripted peer.
//
// Read on a zero-length buffer returns (0, nil) at once (Packet.ReadFrom issues such a read for header-only
// packets; net.Conn and tls.Conn behave this way).  A Read on an empty buffer parks and is counted, so the
// harness can tell that the reader goroutine has finished everything that was fed so far ("idle": it asks
// for the next header while nothing is buffered).  Write is atomic per call and recorded; a hook is
// called for every complete write; optionally a write is held back until released (by index, or by a predicate on
// the bytes: a peer that is slow to accept e.g. the teardown packet of a logical channel).

import (
	"errors"
	"fmt"
	"runtime"
	"strings"
	"sync"
	"time"
)

var errTransportClosed = errors.New("use of closed scripted connection")

type pipeConn struct {
	mu   sync.Mutex
	cond *sync.Cond

	rbuf    []byte // peer -> client, not yet read
	maxSeg  int    // a Read returns at most so many bytes (0 = no limit)
	waiting int    // Read calls parked on an empty buffer
	closed  bool   // Close was called
	closes  int    // number of Close calls
	failing error  // if set: a Read on an empty buffer fails with it at once ...
	failN   int    // ... this many times (-1 = for good)
	nreads  int    // completed Read calls that returned data or an error
	nbytes  int    // bytes handed to the client so far

	writes    [][]byte             // client -> peer, one entry per Write call
	onWrite   func(w []byte)       // called (without the lock) after a write was recorded
	holdFrom  int                  // writes with index >= holdFrom block until release (-1 = never)
	holdIf    func(w []byte) bool  // writes for which this holds block until release (a peer slow to accept them)
	release   chan struct{}        // closed to release held writes
	held      int                  // writes currently held
	holdClose  bool                // Close blocks until release as well
	heldCloses int                 // Close calls currently held
	failWrite func(idx int) error // optional write failure
}

func newPipe() *pipeConn {
	p := &pipeConn{holdFrom: -1, release: make(chan struct{})}
	p.cond = sync.NewCond(&p.mu)
	return p
}

func (p *pipeConn) Read(b []byte) (int, error) {
	if len(b) == 0 {
		return 0, nil
	}
	p.mu.Lock()
	defer p.mu.Unlock()
	for len(p.rbuf) == 0 && !p.closed && p.failing == nil {
		p.waiting++
		p.cond.Broadcast()
		p.cond.Wait()
		p.waiting--
	}
	if len(p.rbuf) > 0 {
		n := len(b)
		if n > len(p.rbuf) {
			n = len(p.rbuf)
		}
		if p.maxSeg > 0 && n > p.maxSeg {
			n = p.maxSeg
		}
		copy(b, p.rbuf[:n])
		p.rbuf = p.rbuf[n:]
		p.nreads++
		p.nbytes += n
		p.cond.Broadcast()
		return n, nil
	}
	p.nreads++
	p.cond.Broadcast()
	if p.failing != nil {
		err := p.failing
		if p.failN > 0 {
			p.failN--
			if p.failN == 0 {
				p.failing = nil
			}
		}
		return 0, err
	}
	return 0, errTransportClosed
}

func (p *pipeConn) Write(b []byte) (int, error) {
	p.mu.Lock()
	idx := len(p.writes)
	if p.failWrite != nil {
		if err := p.failWrite(idx); err != nil {
			p.mu.Unlock()
			return 0, err
		}
	}
	if p.closed {
		p.mu.Unlock()
		return 0, errTransportClosed
	}
	hold := (p.holdFrom >= 0 && idx >= p.holdFrom) || (p.holdIf != nil && p.holdIf(b))
	w := append([]byte{}, b...)
	p.writes = append(p.writes, w)
	if hold {
		p.held++
	}
	rel := p.release
	cb := p.onWrite
	p.cond.Broadcast()
	p.mu.Unlock()
	if hold {
		<-rel
		p.mu.Lock()
		p.held--
		p.mu.Unlock()
	}
	if cb != nil {
		cb(w)
	}
	return len(b), nil
}

func (p *pipeConn) Close() error {
	p.mu.Lock()
	if p.holdClose {
		// the peer is slow to take the close as well: whoever closes the transport while writes are held (Conn.Close
		// that lost the race for a channel's teardown) is parked until the release, so that the closer that performs the
		// teardown always gets its packet out first - under load the transport would otherwise now and then be closed
		// under the feet of a Channel.Close that is still on its way to the teardown write
		p.heldCloses++
		rel := p.release
		p.cond.Broadcast()
		p.mu.Unlock()
		<-rel
		p.mu.Lock()
		p.heldCloses--
	}
	p.closed = true
	p.closes++
	p.cond.Broadcast()
	p.mu.Unlock()
	return nil
}

func (p *pipeConn) HeldCloses() int {
	p.mu.Lock()
	defer p.mu.Unlock()
	return p.heldCloses
}

// Feed hands bytes to the client side (as the server's next bytes on the wire).
func (p *pipeConn) Feed(b []byte) {
	p.mu.Lock()
	p.rbuf = append(p.rbuf, b...)
	p.cond.Broadcast()
	p.mu.Unlock()
}

// waitCond waits until f (evaluated under the lock) holds, at most d.
func (p *pipeConn) waitCond(d time.Duration, f func() bool) bool {
	deadline := time.Now().Add(d)
	stop := make(chan struct{})
	defer close(stop)
	go func() { // wake the waiter regularly so that the deadline is noticed
		t := time.NewTicker(2 * time.Millisecond)
		defer t.Stop()
		for {
			select {
			case <-stop:
				return
			case <-t.C:
				p.mu.Lock()
				p.cond.Broadcast()
				p.mu.Unlock()
			}
		}
	}()
	p.mu.Lock()
	defer p.mu.Unlock()
	for !f() {
		if time.Now().After(deadline) {
			return false
		}
		p.cond.Wait()
	}
	return true
}

// WaitIdle: everything fed has been read AND the reader asks for more (so it has finished processing).
func (p *pipeConn) WaitIdle(d time.Duration) bool {
	return p.waitCond(d, func() bool { return len(p.rbuf) == 0 && p.waiting > 0 })
}

// WaitDrained: everything fed has been read (the reader may still be busy or parked with the last packet).
func (p *pipeConn) WaitDrained(d time.Duration) bool {
	return p.waitCond(d, func() bool { return len(p.rbuf) == 0 })
}

// WaitWrites waits until at least n writes were recorded.
func (p *pipeConn) WaitWrites(n int, d time.Duration) bool {
	return p.waitCond(d, func() bool { return len(p.writes) >= n })
}

func (p *pipeConn) WaitHeld(n int, d time.Duration) bool {
	return p.waitCond(d, func() bool { return p.held >= n })
}

// Held: writes currently held back
func (p *pipeConn) Held() int {
	p.mu.Lock()
	defer p.mu.Unlock()
	return p.held
}

func (p *pipeConn) Writes() [][]byte {
	p.mu.Lock()
	defer p.mu.Unlock()
	return append([][]byte{}, p.writes...)
}

func (p *pipeConn) NWrites() int {
	p.mu.Lock()
	defer p.mu.Unlock()
	return len(p.writes)
}

// FailsLeft: scripted read failures not yet delivered (-1: failing for good)
func (p *pipeConn) FailsLeft() int {
	p.mu.Lock()
	defer p.mu.Unlock()
	if p.failing == nil {
		return 0
	}
	if p.failN <= 0 {
		return -1
	}
	return p.failN
}

func (p *pipeConn) BytesRead() int {
	p.mu.Lock()
	defer p.mu.Unlock()
	return p.nbytes
}

func (p *pipeConn) Closes() int {
	p.mu.Lock()
	defer p.mu.Unlock()
	return p.closes
}

func (p *pipeConn) Release() {
	p.mu.Lock()
	p.holdFrom = -1
	p.holdIf = nil
	p.holdClose = false
	rel := p.release
	p.release = make(chan struct{})
	p.mu.Unlock()
	close(rel)
}

// SetFailing: Reads on an empty buffer fail n times (n < 0: for good)
func (p *pipeConn) SetFailing(err error, n int) {
	p.mu.Lock()
	p.failing = err
	p.failN = n
	p.cond.Broadcast()
	p.mu.Unlock()
}

// ---- wire helpers

type whdr struct {
	typ, status, length, channel, nr, window int
}

func parseHdr(w []byte) (h whdr, ok bool) {
	if len(w) < 8 {
		return h, false
	}
	return whdr{int(w[0]), int(w[1]), int(w[2])<<8 | int(w[3]), int(w[4])<<8 | int(w[5]), int(w[6]), int(w[7])}, true
}

func wirePacket(typ, status, channel, nr, window int, body []byte) []byte {
	l := 8 + len(body)
	b := []byte{byte(typ), byte(status), byte(l >> 8), byte(l), byte(channel >> 8), byte(channel), byte(nr), byte(window)}
	return append(b, body...)
}

// parked reports whether some goroutine is blocked in the given state ("select", "chan send", ...) inside a
// function whose name contains fn - read off the goroutine dump.  Used to know that the code under test has reached
// the blocking point a scenario is about, instead of sleeping and hoping.
func parked(state, fn string, recv interface{}) bool {
	fn = fmt.Sprintf("%s(%p", fn, recv) // the receiver is the first argument word shown in the dump
	buf := make([]byte, 1<<20)
	n := runtime.Stack(buf, true)
	for _, g := range strings.Split(string(buf[:n]), "\n\n") {
		nl := strings.IndexByte(g, '\n')
		if nl < 0 {
			continue
		}
		if strings.Contains(g[:nl], "["+state) && strings.Contains(g[nl:], fn) {
			return true
		}
	}
	return false
}

// waitParked polls parked until it holds, at most d
func waitParked(state, fn string, recv interface{}, d time.Duration) bool {
	deadline := time.Now().Add(d)
	for time.Now().Before(deadline) {
		if parked(state, fn, recv) {
			return true
		}
		time.Sleep(500 * time.Microsecond)
	}
	return false
}

// within runs f in a goroutine and reports whether it returned within d (a panic counts as returned, flagged).
func within(d time.Duration, f func()) (returned bool, panicked bool) {
	done := make(chan bool, 1)
	go func() {
		defer func() {
			if r := recover(); r != nil {
				done <- true
			}
		}()
		f()
		done <- false
	}()
	select {
	case p := <-done:
		return true, p
	case <-time.After(d):
		return false, false
	}
}
