// pkgs: package-layer harness shared by C06 (fn 1,2), C07 (fn 3) and C10 (fn 4).
package main

import (
	"flag"
	"strings"

	"verifharness/pk"
	_ "verifharness/pk/b1"
	_ "verifharness/pk/b2"
	_ "verifharness/pk/core"
	"verifharness/sx"
)

func main() {
	outp := flag.String("out", "", "case file")
	gen := flag.String("gen", "", "GenPkg.v")
	tier := flag.String("tier", "quick", "")
	prop := flag.String("prop", "C06", "C06|C07|C10")
	groups := flag.String("groups", "", "comma separated generator groups (core,b1,b2); empty = all")
	flag.Parse()
	if *gen != "" {
		pk.WriteGen(*gen)
	}
	if *outp == "" {
		return
	}
	out := sx.NewOut(*outp)
	defer out.Close()
	want := map[int]bool{}
	switch *prop {
	case "C06":
		want[1], want[2] = true, true
	case "C07":
		want[3] = true
	case "C10":
		want[4], want[5] = true, true
	}
	g := &pk.Gen{Out: out, Rng: sx.NewRng(sx.EnvSeed()), Thorough: *tier == "thorough", Want: want}
	var sel map[string]bool
	if *groups != "" {
		sel = map[string]bool{}
		for _, n := range strings.Split(*groups, ",") {
			sel[n] = true
		}
	}
	pk.RunAll(g, sel)
}
