// login: Channel.Login against a scripted peer (C08, C09).
package main

import (
	"flag"
	"strings"

	"verifharness/pk"
	_ "verifharness/pk/b1"
	_ "verifharness/pk/b2"
	"verifharness/pk/lg"
	"verifharness/sx"
)

type multi []string

func (m *multi) String() string     { return strings.Join(*m, ",") }
func (m *multi) Set(v string) error { *m = append(*m, v); return nil }

func main() {
	outp := flag.String("out", "", "case file")
	var gens multi
	flag.Var(&gens, "gen", "GenPkg.v / GenLogin.v (may be given several times)")
	tier := flag.String("tier", "quick", "")
	prop := flag.String("prop", "", "C08|C09")
	flag.Parse()
	for _, f := range gens {
		if strings.HasSuffix(f, "GenLogin.v") {
			lg.WriteGen(f)
		} else {
			pk.WriteGen(f)
		}
	}
	if *outp == "" {
		return
	}
	out := sx.NewOut(*outp)
	defer out.Close()
	g := &pk.Gen{Out: out, Rng: sx.NewRng(sx.EnvSeed()), Thorough: *tier == "thorough", Want: map[int]bool{}}
	lg.Generate(g, *prop)
}
