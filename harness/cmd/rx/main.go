// rx: channel-level receive harness (C02, C03, C11, C14).
package main

import (
	"flag"

	"verifharness/pk"
	_ "verifharness/pk/b1"
	_ "verifharness/pk/b2"
	"verifharness/pk/core"
	"verifharness/sx"
)

func main() {
	outp := flag.String("out", "", "case file")
	gen := flag.String("gen", "", "GenPkg.v")
	tier := flag.String("tier", "quick", "")
	prop := flag.String("prop", "", "C02|C03|C07|C10|C11|C14 (empty = all families)")
	flag.Parse()
	if *gen != "" {
		pk.WriteGen(*gen)
	}
	if *outp == "" {
		return
	}
	out := sx.NewOut(*outp)
	defer out.Close()
	g := &pk.Gen{Out: out, Rng: sx.NewRng(sx.EnvSeed()), Thorough: *tier == "thorough", Want: map[int]bool{}}
	families := map[string][]string{
		"C02": {"one-packet", "cut1", "cut2", "cutmany", "cut-ho", "fixed", "allcuts", "history-register", "complete", "reads-1-byte", "reads-random", "header-split"},
		"C03": {"history", "history-register", "consumer", "one-packet"},
		"C07": {"history", "history-register", "cutmany", "cut-ho", "fixed"},
		"C10": {"malformed", "malformed-continue", "wire-fuzz"},
		"C11": {"one-packet", "cut1", "cutmany", "cut-ho", "history", "history-register", "consumer"},
		"C14": {"cut-offset", "reads-random-cut", "complete", "cut-timeout", "drain-cut", "write-fail"},
	}
	if fs, ok := families[*prop]; ok {
		sel := map[string]bool{}
		for _, f := range fs {
			sel[f] = true
		}
		g.TagSel = func(c string) bool { return sel[c] }
	}
	core.HarvestSamples(*outp+".samples", sx.EnvSeed(), 6)
	core.GenRx(g)
	core.GenConsumer(g)
	core.GenTransport(g)
	core.GenWriteFail(g)
}
