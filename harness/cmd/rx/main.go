// rx: channel-level receive harness (C02, C03, C11, C14).
package main

import (
	"flag"

	"verifharness/pk"
	_ "verifharness/pk/b1"
	_ "verifharness/pk/b2"
	"verifharness/pk/core"
	"verifharness/sx"
)

func main() {
	outp := flag.String("out", "", "case file")
	gen := flag.String("gen", "", "GenPkg.v")
	tier := flag.String("tier", "quick", "")
	flag.String("prop", "C02", "")
	flag.Parse()
	if *gen != "" {
		pk.WriteGen(*gen)
	}
	if *outp == "" {
		return
	}
	out := sx.NewOut(*outp)
	defer out.Close()
	g := &pk.Gen{Out: out, Rng: sx.NewRng(sx.EnvSeed()), Thorough: *tier == "thorough", Want: map[int]bool{}}
	core.GenRx(g)
	core.GenConsumer(g)
}
