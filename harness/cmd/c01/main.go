// c01: sends generated messages through a tds.Channel on a capturing transport and records
// the bytes of every transport write per message.
package main

import (
	"context"
	"flag"
	"fmt"
	"os"
	"strings"

	"github.com/SAP/go-dblib/tds"
	"verifharness/sx"
)

// capture transport: records every Write; never read from (reader goroutine not started)
// cancel (if set) is called once the cancelAt-th Write since it was armed has been recorded
type capture struct {
	writes   [][]byte
	n        int
	cancelAt int
	cancel   context.CancelFunc
}

func (c *capture) Read(p []byte) (int, error) { select {} }
func (c *capture) Write(p []byte) (int, error) {
	c.writes = append(c.writes, append([]byte{}, p...))
	c.n++
	if c.cancel != nil && c.n == c.cancelAt {
		c.cancel()
	}
	return len(p), nil
}
func (c *capture) Close() error { return nil }

// chunkPkg is a package whose encoding is written in the given WriteBytes calls
type chunkPkg struct{ chunks [][]byte }

func (p *chunkPkg) ReadFrom(ch tds.BytesChannel) error { return fmt.Errorf("not readable") }
func (p *chunkPkg) WriteTo(ch tds.BytesChannel) error {
	for _, c := range p.chunks {
		if err := ch.WriteBytes(c); err != nil {
			return err
		}
	}
	return nil
}
func (p *chunkPkg) String() string { return "chunkPkg" }

type msg struct {
	ps, typ int
	pkgs    [][][]byte    // package -> chunks
	real    []tds.Package // optional real packages instead (encoding recorded in pkgs as one chunk)
	mode    int           // 0: Queue...;SendRemaining  1: last package via SendPackage
}

func run(out *sx.Out, chanId int, nr0 int, ms []msg, tag string) {
	tr := &capture{}
	info := &tds.Info{}
	info.ChannelPackageQueueSize = 10
	conn, err := tds.VerifNewConn(context.Background(), info, tr, false)
	if err != nil {
		panic(err)
	}
	// channel 0 first (always), then a logical channel with the wanted id is simulated by
	// creating channel 0 and using the verif hook: NewChannel for ids > 0 needs a peer, so
	// ids > 0 are obtained by pre-registering: see below.
	ch, err := conn.NewChannel()
	if err != nil {
		panic(err)
	}
	if chanId > 0 {
		ch.VerifSetChannelId(chanId)
	}
	ch.VerifSetCurPacketNr(nr0)
	var in, res sx.L
	ctx := context.Background()
	for _, m := range ms {
		conn.VerifSetPacketSize(m.ps)
		ch.CurrentHeaderType = tds.PacketHeaderType(m.typ)
		tr.writes = nil
		var pk sx.L
		failed := false
		for i, chunks := range m.pkgs {
			var cs sx.L
			for _, c := range chunks {
				cs = append(cs, sx.B(c))
			}
			if cs == nil {
				cs = sx.L{}
			}
			pk = append(pk, cs)
			var p tds.Package = &chunkPkg{chunks}
			if m.real != nil {
				p = m.real[i]
			}
			var err error
			if m.mode == 1 && i == len(m.pkgs)-1 {
				err = ch.SendPackage(ctx, p)
			} else {
				err = ch.QueuePackage(ctx, p)
			}
			if err != nil {
				failed = true
			}
		}
		if m.mode == 0 || len(m.pkgs) == 0 {
			if err := ch.SendRemainingPackets(ctx); err != nil {
				failed = true
			}
		}
		in = append(in, sx.L{sx.I(int64(m.ps)), sx.I(int64(m.typ)), pk})
		var ws sx.L
		for _, w := range tr.writes {
			ws = append(ws, sx.B(w))
		}
		if ws == nil {
			ws = sx.L{}
		}
		if failed {
			ws = append(ws, sx.I(-2))
		}
		res = append(res, ws)
	}
	out.Case(1, sx.L{sx.I(int64(chanId)), sx.I(int64(nr0)), in}, res, tag)
}

// ---- fn 2: histories of calls whose context may be done / get cancelled after k packet writes
type call struct {
	kind   int // 0 QueuePackage, 1 SendPackage, 2 SendRemainingPackets
	budget int // -1 live context; k >= 0: cancelled after the k-th packet write of this call (0: already cancelled)
	chunks [][]byte
}
type seg struct {
	ps, typ int
	calls   []call
}

func doCall(ch *tds.Channel, tr *capture, c call) (failed bool, panicked bool) {
	defer func() {
		if r := recover(); r != nil {
			panicked = true
		}
	}()
	ctx, cancel := context.WithCancel(context.Background())
	defer cancel()
	tr.n, tr.cancelAt, tr.cancel = 0, 0, nil
	if c.budget == 0 {
		cancel()
	} else if c.budget > 0 {
		tr.cancelAt, tr.cancel = c.budget, cancel
	}
	defer func() { tr.cancel = nil }()
	var err error
	switch c.kind {
	case 0:
		err = ch.QueuePackage(ctx, &chunkPkg{c.chunks})
	case 1:
		err = ch.SendPackage(ctx, &chunkPkg{c.chunks})
	default:
		err = ch.SendRemainingPackets(ctx)
	}
	return err != nil, false
}

func runCalls(out *sx.Out, chanId int, nr0 int, segs []seg, tag string) {
	tr := &capture{}
	info := &tds.Info{}
	info.ChannelPackageQueueSize = 10
	conn, err := tds.VerifNewConn(context.Background(), info, tr, false)
	if err != nil {
		panic(err)
	}
	ch, err := conn.NewChannel()
	if err != nil {
		panic(err)
	}
	if chanId > 0 {
		ch.VerifSetChannelId(chanId)
	}
	ch.VerifSetCurPacketNr(nr0)
	var in, res sx.L
	panicked := false
	for _, g := range segs {
		var cin, cout sx.L
		for _, c := range g.calls {
			cs := sx.L{}
			for _, b := range c.chunks {
				cs = append(cs, sx.B(b))
			}
			cin = append(cin, sx.L{sx.I(int64(c.kind)), sx.I(int64(c.budget)), cs})
			if panicked {
				continue
			}
			// the client sets packet size / header type; the header type before every call (reset puts it back to NORMAL)
			conn.VerifSetPacketSize(g.ps)
			ch.CurrentHeaderType = tds.PacketHeaderType(g.typ)
			tr.writes = nil
			failed, pan := doCall(ch, tr, c)
			if pan {
				panicked = true
				continue
			}
			ws := sx.L{}
			for _, w := range tr.writes {
				ws = append(ws, sx.B(w))
			}
			datas, _, _, _, _ := ch.VerifTxQueue().VerifState()
			e, p := 0, 0
			if failed {
				e = 1
			}
			if len(datas) > 0 {
				p = 1
			}
			cout = append(cout, sx.L{ws, sx.I(int64(e)), sx.I(int64(p))})
		}
		in = append(in, sx.L{sx.I(int64(g.ps)), sx.I(int64(g.typ)), cin})
		if cout == nil {
			cout = sx.L{}
		}
		res = append(res, cout)
	}
	if panicked {
		res = sx.L{sx.I(-1)}
	}
	out.Case(2, sx.L{sx.I(int64(chanId)), sx.I(int64(nr0)), in}, res, tag)
}

func splitRandom(rng *sx.Rng, data []byte, parts int) [][]byte {
	if parts <= 1 || len(data) < parts {
		return [][]byte{data}
	}
	cuts := map[int]bool{}
	for len(cuts) < parts-1 {
		cuts[rng.Range(1, len(data)-1)] = true
	}
	var res [][]byte
	last := 0
	for i := 1; i <= len(data); i++ {
		if cuts[i] || i == len(data) {
			res = append(res, data[last:i])
			last = i
		}
	}
	return res
}

func main() {
	outp := flag.String("out", "", "case file")
	gen := flag.String("gen", "", "GenC01.v")
	tier := flag.String("tier", "quick", "")
	flag.Parse()
	if *gen != "" {
		var b strings.Builder
		b.WriteString("(* GENERATED by harness/cmd/c01 from /repo; do not edit. *)\nFrom Coq Require Import ZArith.\nOpen Scope Z_scope.\n")
		fmt.Fprintf(&b, "Definition hdr_size : Z := %d.\nDefinition eom_bit : Z := %d.\nDefinition buf_normal : Z := %d.\n",
			tds.PacketHeaderSize, int(tds.TDS_BUFSTAT_EOM), int(tds.TDS_BUF_NORMAL))
		old, _ := os.ReadFile(*gen)
		if string(old) != b.String() {
			os.WriteFile(*gen, []byte(b.String()), 0o644)
		}
	}
	if *outp == "" {
		return
	}
	out := sx.NewOut(*outp)
	defer out.Close()
	rng := sx.NewRng(sx.EnvSeed())
	thorough := *tier == "thorough"

	sizes := []int{9, 10, 16, 255, 256, 257, 512, 513, 1024, 2048, 4096, 16384, 65534, 65535}
	nextra := 12
	if thorough {
		for s := 9; s <= 300; s++ {
			sizes = append(sizes, s)
		}
		nextra = 200
	}
	for i := 0; i < nextra; i++ {
		sizes = append(sizes, rng.Range(9, 65535))
	}
	// all 23 header types (TDS_BUF_LANG = 1 .. TDS_BUF_CMDSEQ_RESERVED2 = 23)
	var types []int
	for t := 1; t <= 23; t++ {
		types = append(types, t)
	}
	chans := []int{0, 1, 255, 256, 65535}
	for si, ps := range sizes {
		body := ps - 8
		for k := 0; k <= 3; k++ {
			for d := -1; d <= 1; d++ {
				total := k*body + d
				if total < 1 || (ps > 5000 && k > 1) {
					continue
				}
				data := rng.Bytes(total)
				typ := types[(si+k+d+8)%len(types)]
				chanId := chans[(si+2*k+d+8)%len(chans)]
				nr0 := []int{0, 250, 255}[(si+k)%3]
				// call splits: 1 package, 2 packages (boundary at body / random), many small packages; each package 1..3 chunks
				var variants [][][]byte
				variants = append(variants, [][]byte{data})
				if total >= 2 {
					variants = append(variants, splitRandom(rng, data, 2))
					if total > body && body >= 1 {
						variants = append(variants, [][]byte{data[:body], data[body:]})
					}
					variants = append(variants, splitRandom(rng, data, rng.Range(2, 7)))
				}
				if ps > 5000 {
					if len(variants) > 2 {
						variants = variants[:2]
					}
				}
				if total <= 10 {
					for c := 1; c < total; c++ {
						variants = append(variants, [][]byte{data[:c], data[c:]})
					}
				}
				for vi, v := range variants {
					var pkgs [][][]byte
					for _, p := range v {
						pkgs = append(pkgs, splitRandom(rng, p, rng.Range(1, 3)))
					}
					m := msg{ps: ps, typ: typ, pkgs: pkgs, mode: (vi + k) % 2}
					// successive messages: the boundary message between two others, with a size change
					ps2 := sizes[(si+1)%len(sizes)]
					prelen := rng.Range(1, 2*(ps2-8)+1)
					if prelen > 3000 {
						prelen = ps2 - 8
					}
					pre := msg{ps: ps2, typ: types[(si+1)%len(types)], pkgs: [][][]byte{{rng.Bytes(prelen)}}, mode: 0}
					post := msg{ps: ps2, typ: types[(si+2)%len(types)], pkgs: [][][]byte{{rng.Bytes(rng.Range(1, 30))}}, mode: 1}
					tag := fmt.Sprintf("boundary;d=%d;k=%d;pkgs=%d", d, k, len(pkgs))
					if vi%3 == 0 {
						run(out, chanId, nr0, []msg{pre, m, post}, tag+";history")
					} else {
						run(out, chanId, nr0, []msg{m}, tag)
					}
				}
			}
		}
	}
	// real packages
	for _, ps := range []int{16, 512, 600} {
		for _, l := range []int{1, ps - 8 - 6, ps - 8 - 5, ps - 8 - 7, 2*(ps-8) - 6, 3 * (ps - 8)} {
			if l < 1 {
				continue
			}
			cmd := strings.Repeat("x", l)
			p := &tds.LanguagePackage{Cmd: cmd}
			enc := append([]byte{byte(tds.TDS_LANGUAGE)}, 0, 0, 0, 0, 0)
			ln := uint32(1 + l)
			enc[1], enc[2], enc[3], enc[4] = byte(ln), byte(ln>>8), byte(ln>>16), byte(ln>>24)
			enc = append(enc, []byte(cmd)...)
			m := msg{ps: ps, typ: int(tds.TDS_BUF_LANG), pkgs: [][][]byte{{enc}}, real: []tds.Package{p}, mode: 1}
			run(out, 0, 0, []msg{m}, "real-language")
		}
	}
	// real packages behind a filler that ends d bytes before a packet boundary: the multi-byte integer fields of the
	// package (written with WriteUint16 / WriteUint32 / WriteInt32 ...) then begin in the last bytes of a packet
	for _, ps := range []int{16, 256, 512, 65535} {
		for k := 1; k <= 2; k++ {
			for d := 0; d <= 9; d++ {
				fill := k*(ps-8) - d
				if fill < 1 {
					continue
				}
				filler := rng.Bytes(fill)
				cmd := "select 1"
				lang := &tds.LanguagePackage{Cmd: cmd}
				encL := []byte{byte(tds.TDS_LANGUAGE), byte(1 + len(cmd)), 0, 0, 0, 0}
				encL = append(encL, []byte(cmd)...)
				done := &tds.DonePackage{Status: tds.TDS_DONE_COUNT | tds.TDS_DONE_MORE, TranState: 3, Count: 0x01020304}
				encD := []byte{byte(tds.TDS_DONE), 0x11, 0, 3, 0, 4, 3, 2, 1}
				m := msg{ps: ps, typ: int(tds.TDS_BUF_LANG), pkgs: [][][]byte{{filler}, {encL}, {encD}},
					real: []tds.Package{&chunkPkg{[][]byte{filler}}, lang, done}, mode: d % 2}
				run(out, []int{0, 5}[k-1], 0, []msg{m}, fmt.Sprintf("real-straddle;d=%d;k=%d", d, k))
				m2 := msg{ps: ps, typ: int(tds.TDS_BUF_NORMAL), pkgs: [][][]byte{{filler}, {encD}, {encL}},
					real: []tds.Package{&chunkPkg{[][]byte{filler}}, done, lang}, mode: (d + 1) % 2}
				run(out, 0, 0, []msg{m2}, fmt.Sprintf("real-straddle;d=%d;k=%d", d, k))
			}
		}
	}
	// every header type: one-packet, exactly-two-packet and two-and-a-half-packet messages, both call splits, channel 0 and 7
	for _, typ := range types {
		for _, ps := range []int{24, 256} {
			body := ps - 8
			for _, total := range []int{5, body, 2 * body, 2*body + body/2} {
				for mode := 0; mode < 2; mode++ {
					m := msg{ps: ps, typ: typ, pkgs: [][][]byte{splitRandom(rng, rng.Bytes(total), 2)}, mode: mode}
					run(out, []int{0, 7}[mode], 3, []msg{m, m}, fmt.Sprintf("all-types;typ=%d", typ))
				}
			}
		}
	}
	// random histories
	nh := 400
	if thorough {
		nh = 20000
	}
	for c := 0; c < nh; c++ {
		nm := rng.Range(1, 5)
		var ms []msg
		for i := 0; i < nm; i++ {
			ps := rng.Range(9, 64)
			if rng.Intn(4) == 0 {
				ps = rng.Range(256, 4096)
			}
			np := rng.Range(1, 5)
			var pkgs [][][]byte
			for j := 0; j < np; j++ {
				n := rng.Range(1, 2*(ps-8))
				if rng.Intn(3) == 0 {
					n = (ps - 8) * rng.Range(1, 2)
				}
				pkgs = append(pkgs, splitRandom(rng, rng.Bytes(n), rng.Range(1, 3)))
			}
			ms = append(ms, msg{ps: ps, typ: types[rng.Intn(len(types))], pkgs: pkgs, mode: rng.Intn(2)})
		}
		run(out, chans[rng.Intn(len(chans))], rng.Intn(256), ms, "random-history")
	}

	// ---- interrupted sends (fn 2)
	one := func(b []byte) [][]byte { return [][]byte{b} }
	after := func(si int) seg { // a fault-free message behind every history: nothing of the earlier calls may be left behind
		ps2 := []int{24, 64, 300}[si%3]
		return seg{ps: ps2, typ: types[(si+5)%len(types)], calls: []call{
			{kind: 0, budget: -1, chunks: one(rng.Bytes(rng.Range(1, 2*(ps2-8)+1)))},
			{kind: 1, budget: -1, chunks: one(rng.Bytes(rng.Range(1, ps2-8)))}}}
	}
	ci := 0
	for si, ps := range sizes {
		body := ps - 8
		for kk := 1; kk <= 4; kk++ {
			for d := -1; d <= 1; d++ {
				total := kk*body + d
				if total < 1 {
					continue
				}
				if ps > 5000 && (si >= 14 || kk != 2 || d != (si%3)-1) {
					continue
				}
				if ps > 1024 && kk > 3 {
					continue
				}
				npk := (total + body - 1) / body // packets of the whole message
				maxb := npk
				if ps > 5000 {
					maxb = 1
				}
				for k := 0; k <= maxb; k++ {
					nvar := 5
					if ps > 300 {
						nvar = 1
					}
					for v := 0; v < nvar; v++ {
						ci++
						variant := v
						if nvar == 1 {
							variant = ci % 5
						}
						data := rng.Bytes(total)
						typ := types[(si+kk+d+k+8)%len(types)]
						chanId := chans[(ci+si)%len(chans)]
						nr0 := []int{0, 250, 255, 254}[(ci+kk)%4]
						chunks := splitRandom(rng, data, rng.Range(1, 3))
						more := rng.Bytes(rng.Range(1, body+1))
						var calls []call
						switch variant {
						case 0: // failed QueuePackage, then the flush with a live context
							calls = []call{{0, k, chunks}, {2, -1, nil}}
						case 1: // failed QueuePackage, the message goes on
							calls = []call{{0, k, chunks}, {0, -1, one(more)}, {2, -1, nil}}
						case 2:
							calls = []call{{0, k, chunks}, {1, -1, one(more)}}
						case 3: // SendPackage interrupted in either half; whatever it did, a live flush ends the message
							calls = []call{{1, k, chunks}, {2, -1, nil}}
						default: // the flush itself interrupted: message abandoned
							calls = []call{{0, -1, chunks}, {2, k, nil}, {2, -1, nil}}
						}
						runCalls(out, chanId, nr0, []seg{{ps, typ, calls}, after(ci)},
							fmt.Sprintf("intr-single;v=%d;pk=%d;d=%d;k=%d", variant, kk, d, k))
					}
				}
			}
		}
	}
	// several failed calls in a row; failures in the middle of multi-package messages
	nrep := 6
	if thorough {
		nrep = 60
	}
	for _, ps := range []int{9, 10, 16, 24, 255, 256, 257, 512} {
		body := ps - 8
		reps := nrep
		if ps > 100 {
			reps = nrep / 3
		}
		for rep := 0; rep < reps; rep++ {
			for kk := 1; kk <= 3; kk++ {
				for d := -1; d <= 1; d++ {
					ci++
					ln := func() int { // lengths around the boundaries
						l := rng.Range(0, kk)*body + rng.Range(-1, 1)
						if l < 1 {
							l = rng.Range(1, body+1)
						}
						return l
					}
					la := kk*body + d
					if la < 1 {
						la = 1
					}
					a, b, c := rng.Bytes(la), rng.Bytes(ln()), rng.Bytes(ln())
					typ := types[ci%len(types)]
					chanId := chans[ci%len(chans)]
					k1, k2, k3 := rng.Range(0, kk), rng.Range(0, 2), rng.Range(0, 3)
					// in a row
					runCalls(out, chanId, rng.Intn(256), []seg{{ps, typ, []call{
						{0, k1, one(a)}, {0, 0, one(b)}, {0, k2, splitRandom(rng, c, 2)}, {2, -1, nil}}}, after(ci)},
						fmt.Sprintf("intr-row;d=%d;pk=%d", d, kk))
					runCalls(out, chanId, rng.Intn(256), []seg{{ps, typ, []call{
						{0, 0, one(a)}, {0, k2, one(b)}, {1, k3, one(c)}, {2, k1, nil}, {0, -1, one(b)}, {1, -1, one(a)}}}, after(ci)},
						fmt.Sprintf("intr-row-abandon;d=%d;pk=%d", d, kk))
					// in the middle
					runCalls(out, chanId, rng.Intn(256), []seg{{ps, typ, []call{
						{0, -1, one(b)}, {0, k1, one(a)}, {0, -1, one(c)}, {1, k3, one(b)}, {2, -1, nil}}}, after(ci)},
						fmt.Sprintf("intr-middle;d=%d;pk=%d", d, kk))
					runCalls(out, chanId, rng.Intn(256), []seg{{ps, typ, []call{
						{0, -1, one(a)}, {0, -1, one(b)}, {0, k3, one(c)}, {0, k2, one(a)}, {1, -1, one(c)}}}, after(ci)},
						fmt.Sprintf("intr-middle;d=%d;pk=%d", d, kk))
				}
			}
		}
	}
	// flush of an empty queue with a dead context; failed flush, then nothing is left
	for _, k := range []int{0, 1} {
		runCalls(out, 1, 255, []seg{{16, 3, []call{{2, k, nil}, {0, -1, one(rng.Bytes(20))}, {2, 1, nil}, {2, 0, nil}, {2, -1, nil}}}, after(k)}, "intr-empty-flush")
	}
	// random call histories
	nr := 600
	if thorough {
		nr = 30000
	}
	for c := 0; c < nr; c++ {
		var segs []seg
		ns := rng.Range(1, 3)
		for g := 0; g < ns; g++ {
			ps := rng.Range(9, 40)
			if rng.Intn(5) == 0 {
				ps = rng.Range(200, 600)
			}
			body := ps - 8
			var calls []call
			ncall := rng.Range(1, 8)
			for j := 0; j < ncall; j++ {
				budget := -1
				if rng.Intn(2) == 0 {
					budget = rng.Range(0, 4)
				}
				n := rng.Range(1, 3*body)
				if rng.Intn(3) == 0 {
					n = body*rng.Range(1, 3) + rng.Range(-1, 1)
				}
				kind := []int{0, 0, 0, 1, 2}[rng.Intn(5)]
				cl := call{kind: kind, budget: budget}
				if kind != 2 {
					cl.chunks = splitRandom(rng, rng.Bytes(n), rng.Range(1, 3))
				}
				calls = append(calls, cl)
			}
			calls = append(calls, call{kind: 2, budget: -1})
			segs = append(segs, seg{ps, types[rng.Intn(len(types))], calls})
		}
		runCalls(out, chans[rng.Intn(len(chans))], rng.Intn(256), segs, "intr-random")
	}
}
