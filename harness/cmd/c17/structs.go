// Struct kinds used by the C17 check and the reflection helpers shared by the tabulation
// (-gen) and the case generator.
package main

import (
	"reflect"
	"sort"
	"strings"

	"github.com/SAP/go-dblib/dsn"
	"github.com/SAP/go-dblib/tds"
)

// Emb is embedded (anonymous) in Test: the URI keywords with several aliases.
type Emb struct {
	Host string `json:"hostname" multiref:"host,remote"`
	Port string `json:"port" multiref:"p"`
	User string `json:"username" multiref:"user,u"`
	Pass string `json:"password" multiref:"passwd,pass"`
}

// Opts is a NAMED struct member of Test (tagToField flattens every member of kind struct).
type Opts struct {
	Flag  bool `json:"b" multiref:"flag,f"`
	Count int  `json:"count,omitempty" multiref:"n,cnt"`
}

// Test: embedded struct, named struct member, string/bool/int members, multiref aliases,
// a json tag with an option, one member without any tag (ignored by the library).
type Test struct {
	Emb
	Database string `json:"database" multiref:"db"`
	A        string `json:"a" multiref:"aa,a-a"`
	Sub      Opts
	Untagged string
	Note     string `json:"note,omitempty" multiref:"memo"`
	Timeout  int    `json:"timeout" multiref:"t"`
	Verbose  bool   `json:"verbose" multiref:"v"`
}

// KeyInfo: a struct with the scheme and userstore-key members (URI "KEY" form); used for the
// model-vs-implementation comparison of FormatURI/ParseURI only (the KEY form drops host and
// credentials by design, so it is outside the round-trip statement).
type KeyInfo struct {
	dsn.Info
	Scheme string `json:"scheme" multiref:"proto"`
	Key    string `json:"userstorekey" multiref:"KEY,key"`
	Extra  string `json:"extra" multiref:"x"`
}

const nKinds = 4

var kindNames = []string{"dsn.Info", "tds.Info", "Test", "KeyInfo"}

func newStruct(k int) interface{} {
	switch k {
	case 0:
		return &dsn.Info{}
	case 1:
		return &tds.Info{}
	case 2:
		return &Test{}
	}
	return &KeyInfo{}
}

// leaf is one tagged, non-struct member in declaration order (own reflection walk, independent
// of dsn.TagToField).
type leaf struct {
	val     reflect.Value
	kind    int // 0 string, 1 bool, 2 int, 3 other
	json    string
	aliases []string
}

func walk(v reflect.Value, acc *[]leaf) {
	t := v.Type()
	for i := 0; i < v.NumField(); i++ {
		f := v.Field(i)
		if f.Kind() == reflect.Struct {
			walk(f, acc)
			continue
		}
		name := strings.Split(t.Field(i).Tag.Get("json"), ",")[0]
		if name == "" {
			continue
		}
		var al []string
		for _, a := range strings.Split(t.Field(i).Tag.Get("multiref"), ",") {
			if a != "" {
				al = append(al, a)
			}
		}
		k := 3
		switch f.Kind() {
		case reflect.String:
			k = 0
		case reflect.Bool:
			k = 1
		case reflect.Int:
			k = 2
		}
		*acc = append(*acc, leaf{f, k, name, al})
	}
}

func leaves(p interface{}) []leaf {
	var acc []leaf
	walk(reflect.ValueOf(p).Elem(), &acc)
	return acc
}

// tagTable runs dsn.TagToField and maps every tag to the index of the leaf it refers to
// (identified by address); -1 when the value is not one of the leaves.
func tagTable(k int, mode dsn.TagType) (keys []string, idx map[string]int) {
	p := newStruct(k)
	ls := leaves(p)
	ttf := dsn.TagToField(p, mode)
	idx = map[string]int{}
	for key, val := range ttf {
		keys = append(keys, key)
		idx[key] = -1
		if !val.CanAddr() {
			continue
		}
		for i, l := range ls {
			if l.val.Addr().Pointer() == val.Addr().Pointer() && l.val.Type() == val.Type() {
				idx[key] = i
			}
		}
	}
	sort.Strings(keys)
	return keys, idx
}
