package main

import (
	"flag"
)

func main() {
	gen := flag.String("gen", "", "write GenC17.v here")
	out := flag.String("out", "", "write case file here")
	tier := flag.String("tier", "quick", "quick|thorough")
	flag.Parse()
	if *gen != "" {
		writeGen(*gen)
	}
	_ = out
	_ = tier
}
