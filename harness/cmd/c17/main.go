// c17: connection descriptions (package dsn).  Tabulates dsn.TagToField on the real structs (-gen) and runs
// ParseSimple / FormatSimple / ParseURI / FormatURI / Parse of the implementation on generated cases (-out):
//
//	fn 1  ParseSimple(text)                      arbitrary text (exhaustive short strings over a hostile alphabet, random)
//	fn 2  FormatSimple(values)
//	fn 3  ParseSimple(FormatSimple(values))      values over the documented alphabet
//	fn 4  ParseURI(FormatURI(values))            strings over full Unicode
//	fn 5  ParseURI(text), Parse(text)            arbitrary text + structured URIs; net/url's reading of the text is part of the input
//	fn 6  ParseSimple of structured token lists  all aliases, later-wins, unknown keys, typed values
package main

import (
	"flag"
	"fmt"
	"math"
	"net/url"
	"sort"
	"strconv"
	"strings"
	"unicode/utf8"

	"github.com/SAP/go-dblib/dsn"
	"verifharness/sx"
)

type val struct {
	kind int
	s    string
	b    bool
	n    int64
}

func (v val) tree() sx.T {
	switch v.kind {
	case 0:
		return sx.Text(v.s)
	case 1:
		return sx.L{sx.Bool(v.b)}
	}
	return sx.I(v.n)
}

func valsTree(vs []val) sx.T {
	l := sx.L{}
	for _, v := range vs {
		l = append(l, v.tree())
	}
	return l
}

func zeroVals(k int) []val {
	var vs []val
	for _, l := range leaves(newStruct(k)) {
		vs = append(vs, val{kind: l.kind})
	}
	return vs
}

func fill(p interface{}, vs []val) {
	for i, l := range leaves(p) {
		switch l.kind {
		case 0:
			l.val.SetString(vs[i].s)
		case 1:
			l.val.SetBool(vs[i].b)
		case 2:
			l.val.SetInt(vs[i].n)
		}
	}
}

func read(p interface{}) []val {
	var vs []val
	for _, l := range leaves(p) {
		v := val{kind: l.kind}
		switch l.kind {
		case 0:
			v.s = l.val.String()
		case 1:
			v.b = l.val.Bool()
		case 2:
			v.n = l.val.Int()
		}
		vs = append(vs, v)
	}
	return vs
}

// guarded call: 0 ok, 2 error, -1 panic
func class(f func() error) (c int64) {
	defer func() {
		if r := recover(); r != nil {
			c = -1
		}
	}()
	if err := f(); err != nil {
		return 2
	}
	return 0
}

func outcome(c int64, p interface{}) sx.T {
	if c != 0 {
		return sx.L{sx.I(c), sx.L{}}
	}
	return sx.L{sx.I(0), valsTree(read(p))}
}

func parseInto(k int, init []val, f func(p interface{}) error) sx.T {
	p := newStruct(k)
	if init != nil {
		fill(p, init)
	}
	c := class(func() error { return f(p) })
	return outcome(c, p)
}

// what net/url makes of a string: () on error, else ((user pass)|() hostname port path ((key value)...))
func urlRec(s string) (sx.T, *url.URL) {
	u, err := url.Parse(s)
	if err != nil {
		return sx.L{}, nil
	}
	var user sx.T = sx.L{}
	if u.User != nil {
		pw, _ := u.User.Password()
		user = sx.L{sx.Text(u.User.Username()), sx.Text(pw)}
	}
	q := u.Query()
	var keys []string
	for key := range q {
		keys = append(keys, key)
	}
	sort.Strings(keys)
	pairs := sx.L{}
	for _, key := range keys {
		for _, v := range q[key] {
			pairs = append(pairs, sx.L{sx.Text(key), sx.Text(v)})
		}
	}
	return sx.L{user, sx.Text(u.Hostname()), sx.Text(u.Port()), sx.Text(u.Path), pairs}, u
}

// declared alias -> member index (own reflection walk)
func declIndex(k int) map[string]int {
	m := map[string]int{}
	for i, l := range leaves(newStruct(k)) {
		m[l.json] = i
		for _, a := range l.aliases {
			m[a] = i
		}
	}
	return m
}

// two different query keys naming one member: the result depends on Go's map iteration order
func ambiguous(k int, u *url.URL) bool {
	if u == nil {
		return false
	}
	di := declIndex(k)
	seen := map[int]bool{}
	for key := range u.Query() {
		if i, ok := di[key]; ok {
			if seen[i] {
				return true
			}
			seen[i] = true
		}
	}
	return false
}

func validText(s string) bool { return utf8.ValidString(s) }

type gen struct {
	o       *sx.Out
	r       *sx.Rng
	skipped int
}

func (g *gen) fn1(k int, text string, init []val, tag string) {
	if init == nil {
		init = zeroVals(k)
	}
	out := parseInto(k, init, func(p interface{}) error { return dsn.ParseSimple(text, p) })
	g.o.Case(1, sx.L{sx.I(int64(k)), sx.Text(text), valsTree(init)}, out, tag)
}

func (g *gen) fn23(k int, vs []val, tag string) {
	p := newStruct(k)
	fill(p, vs)
	text := dsn.FormatSimple(p)
	in := sx.L{sx.I(int64(k)), valsTree(vs)}
	g.o.Case(2, in, sx.Text(text), tag)
	g.o.Case(3, in, parseInto(k, nil, func(q interface{}) error { return dsn.ParseSimple(text, q) }), tag)
}

func (g *gen) fn4(k int, vs []val, tag string) {
	p := newStruct(k)
	fill(p, vs)
	var text string
	c := class(func() error {
		var err error
		text, err = dsn.FormatURI(p)
		return err
	})
	in := sx.L{sx.I(int64(k)), valsTree(vs)}
	if c != 0 {
		g.o.Case(4, in, sx.L{sx.L{}, sx.L{sx.I(c), sx.L{}}}, tag+";format-failed")
		return
	}
	rec, _ := urlRec(text)
	g.o.Case(4, in, sx.L{rec, parseInto(k, nil, func(q interface{}) error { return dsn.ParseURI(text, q) })}, tag)
}

func (g *gen) fn5(k int, text string, tag string) {
	rec, u := urlRec(text)
	if ambiguous(k, u) {
		g.skipped++
		return
	}
	ou := parseInto(k, nil, func(p interface{}) error { return dsn.ParseURI(text, p) })
	op := parseInto(k, nil, func(p interface{}) error { return dsn.Parse(text, p) })
	g.o.Case(5, sx.L{sx.I(int64(k)), sx.Text(text), rec}, sx.L{ou, op}, tag)
}

type tok struct {
	key   string
	style int // 0 bare, 1 "..", 2 '..'
	value string
}

func (t tok) text() string {
	switch t.style {
	case 1:
		return t.key + `="` + t.value + `"`
	case 2:
		return t.key + `='` + t.value + `'`
	}
	return t.key + "=" + t.value
}

func (g *gen) fn6(k int, init []val, toks []tok, tag string) {
	if init == nil {
		init = zeroVals(k)
	}
	var parts []string
	tl := sx.L{}
	for _, t := range toks {
		parts = append(parts, t.text())
		tl = append(tl, sx.L{sx.Text(t.key), sx.I(int64(t.style)), sx.Text(t.value)})
	}
	text := strings.Join(parts, " ")
	out := parseInto(k, init, func(p interface{}) error { return dsn.ParseSimple(text, p) })
	g.o.Case(6, sx.L{sx.I(int64(k)), valsTree(init), tl}, out, tag)
}

// ---------------------------------------------------------------- alphabets
func isPlain(r rune) bool { return strconv.IsPrint(r) && r != '"' && r != '\'' && r != '\\' }

var plainPool []rune

func init() {
	cand := []rune("  =abzAZ09.,;:!?#$%&()*+-/<>@[]^_`{|}~éßñ€ΩЖשع漢字かな한😀𝔘🜁¡¿×÷")
	for _, c := range cand {
		if isPlain(c) {
			plainPool = append(plainPool, c)
		}
	}
}

func (g *gen) plainString(max int) string {
	n := g.r.Intn(max + 1)
	var b []rune
	mode := g.r.Intn(4)
	for i := 0; i < n; i++ {
		switch {
		case mode == 0 && g.r.Intn(3) == 0:
			b = append(b, ' ')
		case mode == 1 && g.r.Intn(4) == 0:
			b = append(b, '=')
		case mode == 3:
			// any plain code point
			for {
				c := rune(g.r.Intn(0x30000))
				if g.r.Intn(3) == 0 {
					c = rune(0x20 + g.r.Intn(0x60))
				}
				if isPlain(c) {
					b = append(b, c)
					break
				}
			}
		default:
			b = append(b, plainPool[g.r.Intn(len(plainPool))])
		}
	}
	return string(b)
}

var plainBoundary = []string{"", " ", "  ", "   ", " a", "a ", "  a", "a  ", " a ", "a b", "a  b", "a   b", " a  b ", "  a   b  c  ",
	"=", "==", "a=b", "=a", "a=", " = ", "= ", " =", "a = b", "k=v w=x", "host=x", "x port=1", "x  port=1  ", "a= b", "a =b",
	"é €", " 漢 字 ", "😀", "a\u00e9=\u20ac ", "true", "false", "0", "-1", "://", "a://b", "?a=b&c=d", "%20", "a+b", "#frag", "\u00a1 \u00bf"}

func (g *gen) anyString(max int) string {
	n := g.r.Intn(max + 1)
	var b []rune
	special := []rune("%&=?#/:@ '\"+;\\\x00\n\t\x7f\u00a0\u2028\ufeff\ufffd")
	for i := 0; i < n; i++ {
		switch g.r.Intn(5) {
		case 0:
			b = append(b, special[g.r.Intn(len(special))])
		case 1:
			b = append(b, rune('a'+g.r.Intn(26)))
		case 2:
			c := rune(g.r.Intn(0x110000))
			if c >= 0xD800 && c <= 0xDFFF {
				c = 0x10FFFF
			}
			b = append(b, c)
		case 3:
			b = append(b, rune(0x10000+g.r.Intn(0x100000)))
		default:
			b = append(b, rune(g.r.Intn(0x800)))
		}
	}
	return string(b)
}

var anyBoundary = []string{"", " ", "%", "%%", "%2", "%zz", "%41", "&", "=", "?", "#", "/", ":", "@", "a b", " a ", "a@b", "a:b", "a/b", "a?b", "a#b",
	"a&b=c", "a=b", "\"", "'", "\\", "+", "a+b", ";", "a;b", "\x00", "\n", "\u00e9", "\u20ac", "\U0001F600", "\U0010FFFF", "\ufffd", "//", "://", "x://y", "[::1]", "%25", "\u00a0"}

var schemePool = []string{"", "ase", "tds+x", "A1.b-c"}

// members whose text must be acceptable to net/url as is: host (0), port (1), KeyInfo.Scheme (5)
func restricted(k, i int) []string {
	switch {
	case i == 0:
		return hostPool
	case i == 1:
		return portPool
	case k == 3 && i == 5:
		return schemePool
	}
	return nil
}

var hostPool = []string{"", "h", "host", "a.b.c.d", "srv-1.example.org", "10.0.0.1", "H-0"}
var portPool = []string{"", "0", "1", "443", "5000", "65535", "007"}
var intPool = []int64{0, 1, -1, 7, 10, -10, 50, 100, 65535, math.MaxInt32, math.MinInt32, math.MaxInt64, math.MinInt64, math.MaxInt64 - 1, math.MinInt64 + 1}

func (g *gen) randVals(k int, str func() string, uri bool) []val {
	vs := zeroVals(k)
	for i := range vs {
		switch vs[i].kind {
		case 0:
			if g.r.Intn(4) != 0 {
				vs[i].s = str()
			}
			if pool := restricted(k, i); uri && pool != nil {
				vs[i].s = pool[g.r.Intn(len(pool))]
			}
		case 1:
			vs[i].b = g.r.Bool()
		case 2:
			if g.r.Bool() {
				vs[i].n = intPool[g.r.Intn(len(intPool))]
			} else {
				vs[i].n = int64(g.r.U64()) >> uint(g.r.Intn(64))
			}
		}
	}
	return vs
}

// ---------------------------------------------------------------- case generation
func (g *gen) roundTrips(thorough bool) {
	// simple form: one member at a boundary value, others zero
	for k := 0; k < nKinds; k++ {
		z := zeroVals(k)
		g.fn23(k, z, "simple-zero")
		for i := range z {
			switch z[i].kind {
			case 0:
				for _, s := range plainBoundary {
					vs := zeroVals(k)
					vs[i].s = s
					g.fn23(k, vs, "simple-boundary")
				}
			case 1:
				vs := zeroVals(k)
				vs[i].b = true
				g.fn23(k, vs, "simple-bool")
			case 2:
				for _, n := range intPool {
					vs := zeroVals(k)
					vs[i].n = n
					g.fn23(k, vs, "simple-int")
				}
			}
		}
		// every member the same boundary value
		for _, s := range plainBoundary {
			vs := zeroVals(k)
			for i := range vs {
				vs[i].s = s
				vs[i].b = len(s)%2 == 1
				vs[i].n = int64(len(s)) - 2
			}
			g.fn23(k, vs, "simple-boundary-all")
		}
	}
	n := 6000
	if thorough {
		n = 120000
	}
	for j := 0; j < n; j++ {
		k := g.r.Intn(nKinds)
		max := 12
		if j%10 == 0 {
			max = 60
		}
		g.fn23(k, g.randVals(k, func() string { return g.plainString(max) }, false), "simple-random")
	}
	// URI form
	for k := 0; k < nKinds; k++ {
		g.fn4(k, zeroVals(k), "uri-zero")
		z := zeroVals(k)
		for i := range z {
			switch z[i].kind {
			case 0:
				pool := anyBoundary
				if rp := restricted(k, i); rp != nil {
					pool = rp
				}
				for _, s := range pool {
					vs := zeroVals(k)
					vs[i].s = s
					g.fn4(k, vs, "uri-boundary")
					// with the other credentials / host present
					vs = zeroVals(k)
					vs[0].s, vs[1].s, vs[2].s, vs[3].s = "h", "1", "u", "p"
					vs[i].s = s
					g.fn4(k, vs, "uri-boundary")
				}
			case 1:
				vs := zeroVals(k)
				vs[i].b = true
				g.fn4(k, vs, "uri-bool")
			case 2:
				for _, n := range intPool {
					vs := zeroVals(k)
					vs[i].n = n
					g.fn4(k, vs, "uri-int")
				}
			}
		}
		// user / password presence matrix
		for _, u := range []string{"", "u", " ", ":", "@", "u:p", "é"} {
			for _, pw := range []string{"", "p", " ", ":", "@", "p@h:1/?a=b", "\U0001F600"} {
				vs := zeroVals(k)
				vs[0].s, vs[1].s, vs[2].s, vs[3].s = "h", "1", u, pw
				g.fn4(k, vs, "uri-userinfo")
				vs = zeroVals(k)
				vs[2].s, vs[3].s = u, pw
				g.fn4(k, vs, "uri-userinfo")
			}
		}
	}
	n = 6000
	if thorough {
		n = 120000
	}
	for j := 0; j < n; j++ {
		k := g.r.Intn(nKinds)
		if k == 3 && g.r.Intn(3) != 0 {
			k = g.r.Intn(3)
		}
		max := 10
		if j%10 == 0 {
			max = 50
		}
		g.fn4(k, g.randVals(k, func() string { return g.anyString(max) }, true), "uri-random")
	}
}

var boolWords = []string{"1", "t", "T", "TRUE", "true", "True", "0", "f", "F", "FALSE", "false", "False",
	"", "yes", "no", "tRUE", "TRue", "2", "-1", "01", "true ", " true", "truee", "on", "Y"}
var intWords = []string{"0", "1", "-1", "+5", "-0", "+0", "007", "-007", "9223372036854775807", "9223372036854775808", "-9223372036854775808",
	"-9223372036854775809", "18446744073709551616", "99999999999999999999999", "", "-", "+", "--1", "+-1", "1_000", "0x10", "0b1", "0o7", "1e3", "1.0", " 1", "1 ", "１２", "1a", "a"}
var strWords = []string{"", "x", "a b", " a", "a ", "  ", "a  b", "a   b  c", " a  b ", "=", "a=b", "k=v w=x", "é €", "x=1 y=2", "\t", "a\u00a0b", "\u3000"}

func (g *gen) wordsFor(kind int) []string {
	switch kind {
	case 1:
		return boolWords
	case 2:
		return intWords
	}
	return strWords
}

func okBare(s string) bool { return !strings.ContainsAny(s, " '\"") }

func (g *gen) randTok(k int, keys []string, di map[string]int, ls []leaf) tok {
	key := keys[g.r.Intn(len(keys))]
	kind := ls[di[key]].kind
	ws := g.wordsFor(kind)
	v := ws[g.r.Intn(len(ws))]
	if kind == 0 && g.r.Bool() {
		v = g.plainString(10)
	}
	if kind == 2 && g.r.Bool() {
		v = strconv.FormatInt(int64(g.r.U64())>>uint(g.r.Intn(64)), 10)
	}
	style := g.r.Intn(3)
	if style == 0 && !okBare(v) {
		style = 1 + g.r.Intn(2)
	}
	return tok{key, style, v}
}

func (g *gen) structured(thorough bool) {
	for k := 0; k < nKinds; k++ {
		ls := leaves(newStruct(k))
		di := declIndex(k)
		var keys []string
		for key := range di {
			keys = append(keys, key)
		}
		sort.Strings(keys)
		// every alias, every style, every word of its kind
		for _, key := range keys {
			for _, w := range g.wordsFor(ls[di[key]].kind) {
				for style := 0; style < 3; style++ {
					if style == 0 && !okBare(w) {
						continue
					}
					g.fn6(k, nil, []tok{{key, style, w}}, "alias")
				}
			}
		}
		// later occurrence of a key or of an alias of the same member wins
		for _, k1 := range keys {
			for _, k2 := range keys {
				if di[k1] != di[k2] {
					continue
				}
				ws := g.wordsFor(ls[di[k1]].kind)
				for j := 0; j < 3; j++ {
					v1, v2 := ws[g.r.Intn(6)], ws[g.r.Intn(6)]
					if j == 0 {
						v1, v2 = ws[0], ws[7%len(ws)]
						if ls[di[k1]].kind == 1 {
							v2 = ws[6]
						}
						if ls[di[k1]].kind == 2 {
							v2 = ws[1]
						}
					}
					other := g.randTok(k, keys, di, ls)
					for di[other.key] == di[k1] {
						other = g.randTok(k, keys, di, ls)
					}
					s1, s2 := 1+g.r.Intn(2), 1+g.r.Intn(2)
					g.fn6(k, nil, []tok{{k1, s1, v1}, {k2, s2, v2}}, "later-wins")
					g.fn6(k, nil, []tok{{k1, s1, v1}, other, {k2, s2, v2}}, "later-wins")
					g.fn6(k, nil, []tok{{k2, s2, v2}, other, {k1, s1, v1}, other}, "later-wins")
				}
			}
		}
		// keys that name no member
		unknown := []string{"nokey", "Host", "HOST", "hostx", "hos", "host-", "-", "x", "database2", "d", "key", "KEY", "scheme", "json", "multiref", "é", "ho\u0073t\u0301"}
		for _, uk := range unknown {
			if _, ok := di[uk]; ok {
				continue
			}
			for style := 0; style < 3; style++ {
				g.fn6(k, nil, []tok{{uk, style, "v"}}, "unknown-key")
				g.fn6(k, nil, []tok{{keys[0], 1, "x"}, {uk, style, "v"}}, "unknown-key")
				g.fn6(k, nil, []tok{{uk, style, "v"}, {keys[0], 1, "x"}}, "unknown-key")
			}
		}
		// the empty key names no member (regression for fix a412744)
		for style := 0; style < 3; style++ {
			for _, w := range []string{"x", "true", "1", ""} {
				g.fn6(k, nil, []tok{{"", style, w}}, "emptykey")
				g.fn6(k, nil, []tok{{keys[0], 1, "x"}, {"", style, w}}, "emptykey")
			}
		}
		n := 2500
		if thorough {
			n = 40000
		}
		for j := 0; j < n; j++ {
			cnt := 1 + g.r.Intn(6)
			var toks []tok
			for c := 0; c < cnt; c++ {
				toks = append(toks, g.randTok(k, keys, di, ls))
			}
			init := zeroVals(k)
			if g.r.Intn(3) == 0 {
				init = g.randVals(k, func() string { return g.plainString(6) }, false)
			}
			g.fn6(k, init, toks, "tokens-random")
		}
	}
}

var hostile = []string{"'", "\"", " ", "=", "a", "b", "://", "?", "&", "%", "\\", "-"}

func (g *gen) enumerate(maxLen int, f func(s string)) {
	var rec func(prefix string, n int)
	rec = func(prefix string, n int) {
		f(prefix)
		if n == 0 {
			return
		}
		for _, h := range hostile {
			rec(prefix+h, n-1)
		}
	}
	rec("", maxLen)
}

var fragments = []string{"host", "hostname", "port", "user", "username", "password", "pass", "db", "database", "a", "aa", "b", "count", "n", "v", "t",
	"tls-enable", "packet-read-timeout", "=", "=", "=", "\"", "\"", "'", "'", " ", " ", "  ", "=\"", "='", "\" ", "' ", "x", "1", "true", "-5", "://", "?", "&", "%", "%2", "%41", "\\", "-", "@", ":", "/", "#", ";", "+", "é", "\t", "\n"}

func (g *gen) randHostile() string {
	n := 1 + g.r.Intn(40)
	var b strings.Builder
	for i := 0; i < n; i++ {
		if g.r.Intn(3) == 0 {
			b.WriteString(hostile[g.r.Intn(len(hostile))])
		} else {
			b.WriteString(fragments[g.r.Intn(len(fragments))])
		}
	}
	return b.String()
}

func (g *gen) totality(thorough bool) {
	n1, n5 := 4, 4
	if thorough {
		n1, n5 = 6, 5
	}
	g.enumerate(n1, func(s string) { g.fn1(2, s, nil, "total-enum") })
	g.enumerate(3, func(s string) { g.fn1(0, s, nil, "total-enum"); g.fn1(1, s, nil, "total-enum") })
	g.enumerate(n5, func(s string) { g.fn5(2, s, "total-enum") })
	g.enumerate(3, func(s string) { g.fn5(0, s, "total-enum") })
	// hand-picked
	picked := []string{`host="a`, `host="`, `host=" x"`, `host='`, `host=''`, `host='a`, `host="a'`, `host='a"`, `host=" `, `host="  `, `host=" "`, `host="" `, ` host=x`, `host=x `,
		`host=x  port=1`, `host`, `=`, `==`, `="`, `="" `, `=''`, `a="`, `a=" "`, `a="b" "`, `a="b"c"`, `a='b' b="`, `a="'b'"`, `a='"b"'`, `a=''b''`, `a=b=c`, `a=b="c`, `a=b="c d"`,
		`b=true b=x`, `count=1 count=`, `count="1"`, `count='-1'`, `count=" 1"`, `b="true"`, `b=" true"`, `a="x" a='y' aa=z`, `a=="x"`, `a= "x"`, `a ="x"`, `"a"="x"`, `a="x y" `, `a="x  y"`, `a="  x"`, `a="x  "`}
	for _, s := range picked {
		for k := 0; k < nKinds; k++ {
			g.fn1(k, s, nil, "total-picked")
			g.fn5(k, s, "total-picked")
		}
	}
	n := 20000
	if thorough {
		n = 300000
	}
	for j := 0; j < n; j++ {
		k := g.r.Intn(nKinds)
		s := g.randHostile()
		if !validText(s) {
			continue
		}
		var init []val
		if j%5 == 0 {
			init = g.randVals(k, func() string { return g.plainString(5) }, false)
		}
		g.fn1(k, s, init, "total-random")
		g.fn5(k, s, "total-random")
	}
}

// structured URIs written by net/url (independent of FormatURI) and some hand-written ones
func (g *gen) uris(thorough bool) {
	hand := []string{"x://h:1/?a=1&a=2", "x://h:1/?a=2&a=1", "x://u@h", "x://:p@h", "x://u:@h", "x://:@h", "x://@h", "x://h/dbname", "x://h/db/sub", "x://h//db", "x://h",
		"x://h:1", "x://h:/", "x://:1/", "x://[::1]:5000/", "x://h:1/?database=d", "x://h:1/db?database=d", "x://h:1/?db=d&db=e", "x://h:1/?nokey=1", "x://h:1/?=z", "x://h:1/?a", "x://h:1/?a=",
		"x://h:1/?a=%41%20b", "x://h:1/?a=%zz", "x://h:1/?a=1;b=2", "x://h:1/?b=true&count=5", "x://h:1/?b=maybe", "x://h:1/?count=x", "x://h:1/?count=9223372036854775808",
		"x://h:tls/", "x://u:p@h:1/?a=b#frag", "://?KEY=k&database=d", "x://?KEY=k&database=d", "//u:p@h:1/?database=d", "x://u%20v:p%2Fw@h/", "x://h:1/?a=b&&a=c", "x://h:1/?a=b&=c",
		"x://h:1/?tls-enable=true&packet-read-timeout=7", "x://h:1/?tls-enable=1&tls-enable=0", "x:// h", "x://h\x7f", "x://%41", "x://h:1/%2F", "x://h:1/?a=+", "x://h:1/?a=%2B"}
	for _, s := range hand {
		for k := 0; k < nKinds; k++ {
			g.fn5(k, s, "uri-hand")
		}
	}
	n := 4000
	if thorough {
		n = 60000
	}
	for j := 0; j < n; j++ {
		k := g.r.Intn(nKinds)
		ls := leaves(newStruct(k))
		di := declIndex(k)
		var keys []string
		for key := range di {
			keys = append(keys, key)
		}
		sort.Strings(keys)
		u := &url.URL{Scheme: "ase", Host: hostPool[g.r.Intn(len(hostPool))], Path: "/"}
		if g.r.Bool() {
			u.Host += ":" + portPool[g.r.Intn(len(portPool))]
		}
		switch g.r.Intn(4) {
		case 0:
			u.User = url.User(g.anyString(6))
		case 1, 2:
			u.User = url.UserPassword(g.anyString(6), g.anyString(6))
		}
		if g.r.Intn(3) == 0 {
			u.Path = "/" + g.anyString(6)
		}
		q := url.Values{}
		used := map[int]string{}
		cnt := g.r.Intn(5)
		tag := "uri-structured"
		for c := 0; c < cnt; c++ {
			key := keys[g.r.Intn(len(keys))]
			if g.r.Intn(12) == 0 {
				key = []string{"nokey", "", "Host", "x y"}[g.r.Intn(4)]
				tag = "uri-unknown-key"
				if key == "" {
					tag = "emptykey"
				}
			}
			if i, ok := di[key]; ok {
				if prev, seen := used[i]; seen && prev != key {
					continue // a different alias of the same member: result would depend on map order
				}
				used[i] = key
			}
			reps := 1 + g.r.Intn(3)
			for rep := 0; rep < reps; rep++ {
				kind := 0
				if i, ok := di[key]; ok {
					kind = ls[i].kind
				}
				ws := g.wordsFor(kind)
				v := ws[g.r.Intn(len(ws))]
				if kind == 0 && g.r.Bool() {
					v = g.anyString(8)
				}
				q.Add(key, v)
				if rep > 0 && tag == "uri-structured" {
					tag = "uri-repeated-key"
				}
			}
		}
		g.fn5(k, u.String()+"?"+q.Encode(), tag)
	}
}

func main() {
	genPath := flag.String("gen", "", "write GenC17.v here")
	out := flag.String("out", "", "write case file here")
	tier := flag.String("tier", "quick", "quick|thorough")
	flag.Parse()
	if *genPath != "" {
		writeGen(*genPath)
	}
	if *out == "" {
		return
	}
	g := &gen{o: sx.NewOut(*out), r: sx.NewRng(sx.EnvSeed())}
	thorough := *tier == "thorough"
	g.roundTrips(thorough)
	g.structured(thorough)
	g.uris(thorough)
	g.totality(thorough)
	g.o.Close()
	fmt.Printf("c17: %d cases, %d URI inputs skipped (two aliases of one member in the query)\n", g.o.N, g.skipped)
}
