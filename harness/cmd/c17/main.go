package main

import (
	"fmt"
	"github.com/SAP/go-dblib/dsn"
	"github.com/SAP/go-dblib/tds"
)

func try(f func() error) (s string) {
	defer func() {
		if r := recover(); r != nil {
			s = fmt.Sprint("PANIC ", r)
		}
	}()
	return fmt.Sprint(f())
}

func main() {
	for _, s := range []string{"=x", "host=a =y", "", " ", "host=\"a", "host=\"", "host=\" x\"", "host='a b'  port=\" 1 \"", "//u:p@h:1/?database=d", "x://h:1/?=z", "x://h:1/?user=a&username=b", "x://:pw@h:1/", "x://h:tls/"} {
		i := &dsn.Info{}
		fmt.Printf("%q: simple %s %+v\n", s, try(func() error { return dsn.ParseSimple(s, i) }), *i)
		i = &dsn.Info{}
		fmt.Printf("%q: uri %s %+v\n", s, try(func() error { return dsn.ParseURI(s, i) }), *i)
		i = &dsn.Info{}
		fmt.Printf("%q: parse %s %+v\n", s, try(func() error { return dsn.Parse(s, i) }), *i)
	}
	t := &tds.Info{}
	fmt.Println(try(func() error { return dsn.ParseSimple("=true", t) }), t.DebugLogPackages)
	fmt.Println(dsn.FormatURI(dsn.Info{Host: "h", Port: "1", Username: "", Password: "p w", Database: "a/b?c"}))
	fmt.Println(dsn.FormatURI(tds.Info{}))
	fmt.Println(dsn.FormatSimple(tds.Info{}))
	fmt.Println(dsn.FormatSimple(dsn.Info{Host: " a  b = ", Password: "é\u00a0\u3000x"}))
	fmt.Println(dsn.TagToField(&dsn.Info{}, dsn.Multiref))
}
