package main

import (
	"fmt"
	"strings"

	"github.com/SAP/go-dblib/asetypes"
	"github.com/SAP/go-dblib/tds"
	"verifharness/pk"
)

func fmtBody(dt asetypes.DataType, lenBytes int, maxLen int64, row bool) []byte {
	var f []byte
	f = append(f, pk.LP8([]byte("c"))...)
	f = append(f, 0)
	f = append(f, pk.LE32(0)...)
	f = append(f, byte(dt))
	switch lenBytes {
	case 1:
		f = append(f, byte(maxLen))
	case 4:
		f = append(f, pk.LE32(maxLen)...)
	}
	if dt == asetypes.TEXT || dt == asetypes.UNITEXT {
		f = append(f, pk.LP16([]byte("tab"))...)
	}
	f = append(f, 0)
	b := pk.LE16(2 + len(f))
	b = append(b, pk.LE16(1)...)
	return append(b, f...)
}

func try(dt asetypes.DataType, lb int, maxLen int64, v interface{}) {
	p := pk.Parse(int(tds.TDS_PARAMFMT), fmtBody(dt, lb, maxLen, false), nil)
	if p.Class != 0 {
		fmt.Println("fmt parse failed", p.Class)
		return
	}
	fp := p.Pkg.(*tds.ParamFmtPackage)
	fd, err := tds.LookupFieldData(fp.Fmts[0])
	if err != nil {
		fmt.Println(err)
		return
	}
	fd.SetValue(v)
	pp := tds.NewParamsPackage(fd)
	if err := pp.LastPkg(fp); err != nil {
		fmt.Println("lastpkg", err)
	}
	bs, err, pan := pk.Written(pp)
	fmt.Printf("dt=%s max=%d write: len=%d head=%x err=%v panic=%v\n", dt, maxLen, len(bs), bs[:min(len(bs), 8)], err, pan)
	if err != nil || pan {
		return
	}
	r := pk.Parse(int(bs[0]), bs[1:], fp)
	fmt.Printf("   read class=%d consumed=%d", r.Class, r.Consumed)
	if r.Class == 0 {
		val := r.Pkg.(*tds.ParamsPackage).DataFields[0].Value()
		s := fmt.Sprintf("%T %v", val, val)
		if len(s) > 80 {
			s = s[:80]
		}
		fmt.Printf(" value=%s", s)
	}
	fmt.Println()
}
func min(a, b int) int {
	if a < b {
		return a
	}
	return b
}

func main() {
	for _, n := range []int{1, 254, 255, 256, 257, 300, 511, 512} {
		try(asetypes.VARCHAR, 1, 255, strings.Repeat("x", n))
	}
	try(asetypes.VARCHAR, 1, 10, strings.Repeat("x", 20))
	try(asetypes.LONGCHAR, 4, 70000, strings.Repeat("x", 70000))
	try(asetypes.INTN, 1, 4, int64(7))
	try(asetypes.INTN, 1, 8, nil)
	try(asetypes.TEXT, 4, 100, "abc")
	try(asetypes.UNITEXT, 4, 100, "abc")
	// row with TEXT
	rf := fmtBody(asetypes.UNITEXT, 4, 100, true)
	p := pk.Parse(int(tds.TDS_ROWFMT), rf, nil)
	fmt.Println("rowfmt class", p.Class)
	if p.Class == 0 {
		body := pk.Cat(pk.LP8([]byte("0123456789abcdef")), []byte("TIMESTMP"), pk.LE32(4), []byte{0x61, 0, 0xe9, 0})
		r := pk.Parse(int(tds.TDS_ROW), body, p.Pkg)
		fmt.Println("row class", r.Class, r.Consumed)
		if r.Class == 0 {
			val := r.Pkg.(*tds.RowPackage).DataFields[0].Value()
			fmt.Printf("  %T %v\n", val, val)
		}
		body = pk.Cat(pk.LP8(nil), []byte("TIMESTMP"), pk.LE32(0))
		r = pk.Parse(int(tds.TDS_ROW), body, p.Pkg)
		if r.Class == 0 {
			val := r.Pkg.(*tds.RowPackage).DataFields[0].Value()
			fmt.Printf("  null: %T %v isnil=%v\n", val, val, val == nil)
		}
	}
}
