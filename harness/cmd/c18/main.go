// c18: drives namepool.Pool from 1..64 goroutines (Acquire / Release / double Release / Name.Release /
// Release(nil), bursts of simultaneous Acquires from an empty pool, forced runtime.GC()) and records the
// history of events stamped by ONE atomic clock: an Acquire is stamped after it returned, a Release
// before it is called, so the stamped order is a valid linearisation for the set of held names.
//
//	fn 1  concurrent history      input (format ((kind handle id text aux)...))  output (1 ((handle id text)...) ())
//	fn 2  single-goroutine history (strict replay), same shape
//	fn 3  fmt.Sprintf(format, uint64(id)) alone: input (format id) output text
//
// Formats: the short ones of the package's users plus a format-length family (lengthFamily: literal prefixes of
// 0..70000 bytes + %d, every length 245..260, and shapes whose text is 255 bytes for a one-digit id), each with
// >= 12 and >= 100 names held at once so that two- and three-digit ids occur.
//
// kind: 1 Acquire, 2 pool.Release(name), 3 name.Release(), 5 runtime.GC(), 9 panic.  handle = stamp of the
// Acquire event (0 = nil name).  For a release, id/text are what the Name shows before the call (0/"" when
// cleared), aux = 1 when the Name is cleared after the call.  The output lists the names still held at the
// end, read back from the objects.
package main

import (
	"flag"
	"fmt"
	"reflect"
	"runtime"
	"sort"
	"sync"
	"sync/atomic"

	"github.com/SAP/go-dblib/namepool"
	"verifharness/sx"
)

type poolI interface {
	Acquire() *namepool.Name
	Release(*namepool.Name)
}

type event struct {
	stamp uint64
	kind  int
	h     uint64
	id    uint64
	text  string
	aux   int
}

type held struct {
	n *namepool.Name
	h uint64
}

var clock uint64

func tick() uint64 { return atomic.AddUint64(&clock, 1) }

// show reads what a Name shows: (ID, Name); a nil id pointer (cleared Name) is reported as id 0.
// The text is copied here, under recover: if the implementation lets two goroutines share one Name object the
// string header can be torn (nil data, non-zero length) and must become an observable, not a harness crash.
func show(n *namepool.Name) (id uint64, text string) {
	if n == nil {
		return 0, ""
	}
	defer func() {
		if r := recover(); r != nil {
			id, text = 0, "!torn"
		}
	}()
	text = string(append([]byte(nil), n.Name()...))
	if reflect.ValueOf(n).Elem().FieldByName("id").IsNil() {
		return 0, text
	}
	return n.ID(), text
}

type worker struct {
	rng    *sx.Rng
	p      poolI
	held   []held
	stale  []held
	events []event
	dead   bool
	cap    int
	gcProb int // one GC per gcProb operations (0 = never)
}

func (w *worker) log(e event) { w.events = append(w.events, e) }

// acquire without stamping (used by bursts); ok=false when the call panicked
func (w *worker) rawAcquire() (n *namepool.Name, ok bool) {
	defer func() {
		if r := recover(); r != nil {
			ok = false
		}
	}()
	return w.p.Acquire(), true
}

func (w *worker) stampAcquired(n *namepool.Name, ok bool) {
	st := tick()
	if !ok || n == nil {
		w.log(event{stamp: st, kind: 9, h: st})
		w.dead = true
		return
	}
	id, text := show(n)
	w.log(event{stamp: st, kind: 1, h: st, id: id, text: text})
	w.held = append(w.held, held{n, st})
}

func (w *worker) acquire() {
	n, ok := w.rawAcquire()
	w.stampAcquired(n, ok)
}

// release x through pool.Release (viaName=false) or x.n.Release()
func (w *worker) release(x held, viaName bool) {
	id, text := show(x.n)
	kind := 2
	if viaName {
		kind = 3
	}
	st := tick()
	ok := func() (ok bool) {
		defer func() {
			if r := recover(); r != nil {
				ok = false
			}
		}()
		if viaName {
			x.n.Release()
		} else {
			w.p.Release(x.n)
		}
		return true
	}()
	if !ok {
		w.log(event{stamp: st, kind: 9, h: x.h})
		w.dead = true
		return
	}
	aux := 0
	id2, text2 := show(x.n)
	if id2 == 0 && text2 == "" {
		aux = 1
	}
	w.log(event{stamp: st, kind: kind, h: x.h, id: id, text: text, aux: aux})
}

func (w *worker) moveToStale(i int) held {
	x := w.held[i]
	w.held = append(w.held[:i], w.held[i+1:]...)
	w.stale = append(w.stale, x)
	if len(w.stale) > 6 {
		w.stale = w.stale[1:]
	}
	return x
}

func (w *worker) gc() {
	st := tick()
	runtime.GC()
	w.log(event{stamp: st, kind: 5})
}

func (w *worker) op() {
	if w.dead {
		return
	}
	r := w.rng.Intn(100)
	switch {
	case r < 42:
		if len(w.held) < w.cap {
			w.acquire()
		} else {
			w.release(w.moveToStale(w.rng.Intn(len(w.held))), w.rng.Bool())
		}
	case r < 72:
		if len(w.held) > 0 {
			w.release(w.moveToStale(w.rng.Intn(len(w.held))), w.rng.Bool())
		} else {
			w.acquire()
		}
	case r < 80: // immediate double release
		if len(w.held) > 0 {
			x := w.moveToStale(w.rng.Intn(len(w.held)))
			w.release(x, w.rng.Bool())
			w.release(x, w.rng.Bool())
		}
	case r < 92: // release of a stale handle, long after
		if len(w.stale) > 0 {
			w.release(w.stale[w.rng.Intn(len(w.stale))], w.rng.Bool())
		}
	case r < 94:
		w.release(held{nil, 0}, false)
	case r < 97:
		runtime.Gosched()
	default:
		if w.gcProb > 0 && w.rng.Intn(w.gcProb) == 0 {
			w.gc()
		} else {
			runtime.Gosched()
		}
	}
}

func evTree(e event) sx.T {
	return sx.L{sx.I(int64(e.kind)), sx.U64(e.h), sx.U64(e.id), sx.Text(e.text), sx.I(int64(e.aux))}
}

func emit(out *sx.Out, fn int, format string, ws []*worker, extra []event, tag string) {
	var evs []event
	evs = append(evs, extra...)
	var hs []held
	for _, w := range ws {
		evs = append(evs, w.events...)
		hs = append(hs, w.held...)
	}
	sort.Slice(evs, func(i, j int) bool { return evs[i].stamp < evs[j].stamp })
	sort.Slice(hs, func(i, j int) bool { return hs[i].h < hs[j].h })
	l := make(sx.L, 0, len(evs))
	for _, e := range evs {
		l = append(l, evTree(e))
	}
	fin := sx.L{}
	for _, x := range hs {
		id, text := show(x.n)
		fin = append(fin, sx.L{sx.U64(x.h), sx.U64(id), sx.Text(text)})
	}
	out.Case(fn, sx.L{sx.Text(format), l}, sx.L{sx.I(1), fin, sx.L{}}, fmt.Sprintf("%s;events=%d", tag, len(evs)))
}

type cfg struct {
	format string
	g      int // goroutines
	procs  int
	rounds int
	burst  int // simultaneous Acquires per goroutine at the start of a round
	ops    int // operations per goroutine per round
	gcProb int
	gcRnd  bool   // two forced GCs before every round (empties sync.Pool incl. its victim cache)
	class  string // tag class ("" = conc / conc1)
	keep   bool   // do not give names back at the end of the last round (they stay held: final read-back)
}

func concurrent(out *sx.Out, rng *sx.Rng, c cfg) {
	old := runtime.GOMAXPROCS(c.procs)
	defer runtime.GOMAXPROCS(old)
	p := namepool.Pool(c.format)
	ws := make([]*worker, c.g)
	for i := range ws {
		ws[i] = &worker{rng: sx.NewRng(rng.U64()), p: p, cap: 1 + rng.Intn(5), gcProb: c.gcProb}
	}
	var mainEv []event
	for r := 0; r < c.rounds; r++ {
		if c.gcRnd && r > 0 {
			for k := 0; k < 2; k++ {
				st := tick()
				runtime.GC()
				mainEv = append(mainEv, event{stamp: st, kind: 5})
			}
		}
		var ready, done sync.WaitGroup
		start := make(chan struct{})
		ready.Add(c.g)
		done.Add(c.g)
		for _, w := range ws {
			go func(w *worker, r int) {
				defer done.Done()
				ready.Done()
				<-start
				if !w.dead && c.burst > 0 {
					// simultaneous Acquires, stamped only after the whole burst returned
					ns := make([]*namepool.Name, 0, c.burst)
					oks := make([]bool, 0, c.burst)
					for k := 0; k < c.burst; k++ {
						n, ok := w.rawAcquire()
						ns = append(ns, n)
						oks = append(oks, ok)
					}
					for k := range ns {
						w.stampAcquired(ns[k], oks[k])
					}
				}
				for k := 0; k < c.ops; k++ {
					w.op()
				}
				// give most names back so that the next round starts from a filled (or collected) pool
				for len(w.held) > 1 && !w.dead && !(c.keep && r == c.rounds-1) {
					w.release(w.moveToStale(len(w.held)-1), w.rng.Bool())
				}
			}(w, r)
		}
		ready.Wait()
		close(start)
		done.Wait()
	}
	race := 0
	if raceEnabled {
		race = 1
	}
	class := "conc"
	if c.g == 1 {
		class = "conc1"
	}
	if c.class != "" {
		class = c.class
	}
	emit(out, 1, c.format, ws, mainEv,
		fmt.Sprintf("%s;g=%d;procs=%d;fmt=%s;rounds=%d;burst=%d;race=%d", class, c.g, c.procs, fmtLabel(c.format), c.rounds, c.burst, race))
}

// ---- single-goroutine histories

// script letters: a acquire | r<i> pool.Release(i-th acquired) | n<i> name.Release() | z Release(nil) | g GC
type sop struct {
	k byte
	i int
}

func sequential(out *sx.Out, format string, script []sop, tag string) {
	sequentialC(out, "seq", format, script, tag)
}

func sequentialC(out *sx.Out, class, format string, script []sop, tag string) {
	w := &worker{rng: sx.NewRng(1), p: namepool.Pool(format), cap: 1 << 30}
	var all []held // every name ever acquired, by acquisition index
	for _, s := range script {
		if w.dead {
			break
		}
		switch s.k {
		case 'a':
			before := len(w.held)
			w.acquire()
			if len(w.held) > before {
				all = append(all, w.held[len(w.held)-1])
			}
		case 'r', 'n':
			if s.i < len(all) {
				x := all[s.i]
				for j := range w.held {
					if w.held[j].h == x.h {
						w.held = append(w.held[:j], w.held[j+1:]...)
						break
					}
				}
				w.release(x, s.k == 'n')
			}
		case 'z':
			w.release(held{nil, 0}, false)
		case 'g':
			w.gc()
		}
	}
	emit(out, 2, format, []*worker{w}, nil, fmt.Sprintf("%s;%s;fmt=%s", class, tag, fmtLabel(format)))
}

func parseScript(s string) []sop {
	var r []sop
	for i := 0; i < len(s); i++ {
		c := s[i]
		switch c {
		case 'a', 'z', 'g':
			r = append(r, sop{k: c})
		case 'r', 'n':
			n := 0
			for i+1 < len(s) && s[i+1] >= '0' && s[i+1] <= '9' {
				n = n*10 + int(s[i+1]-'0')
				i++
			}
			r = append(r, sop{k: c, i: n})
		}
	}
	return r
}

func randomScript(rng *sx.Rng, n int) []sop {
	var r []sop
	acq := 0
	var heldIdx []int
	for len(r) < n {
		x := rng.Intn(100)
		switch {
		case x < 40 || acq == 0:
			r = append(r, sop{k: 'a'})
			heldIdx = append(heldIdx, acq)
			acq++
		case x < 70 && len(heldIdx) > 0:
			j := rng.Intn(len(heldIdx))
			k := byte('r')
			if rng.Bool() {
				k = 'n'
			}
			r = append(r, sop{k: k, i: heldIdx[j]})
			if rng.Intn(4) == 0 { // double
				r = append(r, sop{k: 'r', i: heldIdx[j]})
			}
			heldIdx = append(heldIdx[:j], heldIdx[j+1:]...)
		case x < 88:
			k := byte('r')
			if rng.Bool() {
				k = 'n'
			}
			r = append(r, sop{k: k, i: rng.Intn(acq)}) // any name, mostly stale ones
			for j := range heldIdx {
				if heldIdx[j] == r[len(r)-1].i {
					heldIdx = append(heldIdx[:j], heldIdx[j+1:]...)
					break
				}
			}
		case x < 93:
			r = append(r, sop{k: 'z'})
		case x < 96:
			r = append(r, sop{k: 'g'})
		default:
			r = append(r, sop{k: 'a'})
			heldIdx = append(heldIdx, acq)
			acq++
		}
	}
	return r
}

var fixedScripts = []struct{ name, s string }{
	{"acquire-only", "a"},
	{"recycle", "ar0a"},
	{"recycle-name-release", "an0a"},
	{"double-release-two-acquires", "ar0r0aa"},
	{"double-release-mixed", "ar0n0aa"},
	{"double-name-release", "an0n0aa"},
	{"stale-release-after-reacquire", "ar0ar0a"},      // A acquires+releases, B acquires, A releases again, C acquires
	{"stale-name-release-after-reacquire", "an0an0a"}, // same through Name.Release
	{"stale-release-twice", "ar0ar0r0aa"},
	{"release-nil", "zazr0za"},
	{"gc-empties-pool", "aar0r1ggaa"},
	{"gc-between-double", "ar0gr0gaa"},
	{"many", "aaaar1r3r1r3aaar0r2aa"},
	{"release-all-reacquire", "aaaaaaaar0r1r2r3r4r5r6r7aaaaaaaa"},
	{"lifo", "aaar2r1r0aaar5r4r3r5r4r3aaa"},
}

var formats = []string{"%d", "stmt%d", "x"}
var moreFormats = []string{"", "x%", "%d%%", "a%db%dc", "%%", "100%%_%d_%d", "name %d"}

// ---- format-length family: the property quantifies over all formats, so also over those that render to
// long texts (a name longer than 255 bytes does not fit a one-byte length prefix; the pool must not care).
// Only what Model.v renders faithfully is used: literal code points, %d, %%.

// lit returns n literal bytes without '%' and without digits; position dependent, so that a text cut or
// shifted anywhere differs from the expected one.
func lit(n int) string {
	const abc = "abcdefghijklmnopqrstuvwxyz_ABCDEFGHIJKLMNOPQRSTUVWXYZ"
	b := make([]byte, n)
	for i := range b {
		b[i] = abc[(i+i/len(abc))%len(abc)]
	}
	return string(b)
}

var fmtLabels = map[string]string{}

// fmtLabel is the format as it appears in a tag: quoted when short, a description when it belongs to the family
func fmtLabel(f string) string {
	if len(f) <= 40 {
		return fmt.Sprintf("%q", f)
	}
	if l, ok := fmtLabels[f]; ok {
		return l
	}
	return fmt.Sprintf("long(%d bytes)", len(f))
}

type lenFmt struct {
	f     string
	n     int  // bytes of the text for a one-digit id
	huge  bool // very long: few names, few events
	plain bool // literal prefix + %d
}

func lenFamily(thorough bool) []lenFmt {
	var r []lenFmt
	add := func(label, f string, n int, plain bool) {
		fmtLabels[f] = label
		r = append(r, lenFmt{f: f, n: n, huge: len(f) > 5000, plain: plain})
	}
	ls := []int{0, 1, 200}
	for l := 245; l <= 260; l++ {
		ls = append(ls, l)
	}
	ls = append(ls, 300, 1000, 70000)
	if thorough {
		ls = append(ls, 2, 100, 230, 240, 244, 261, 270, 511, 512, 4096, 65535, 65536)
	}
	for _, l := range ls {
		add(fmt.Sprintf("lit%d+%%d", l), lit(l)+"%d", l+1, true)
	}
	// the verb elsewhere / twice / none / with %% (all rendered by the model)
	add("lit127+%d+lit127", lit(127)+"%d"+lit(127), 255, false)
	add("lit3+%d+lit251", lit(3)+"%d"+lit(251), 255, false)
	add("%d+lit254", "%d"+lit(254), 255, false)
	add("lit242+%d%d", lit(242)+"%d%d", 255, false) // second %d prints %!d(MISSING) (12 bytes)
	add("lit236+noverb", lit(236), 255, false)      // no verb: %!(EXTRA uint64=N) (18 bytes) is appended
	add("lit253+%%%d", lit(253)+"%%%d", 255, false) // %% is one byte of text
	add("lit253+%d%%", lit(253)+"%d%%", 255, false)
	add("lit244+%d%", lit(244)+"%d%", 255, false)                    // trailing %: %!(NOVERB) (10 bytes)
	add("e-acute*127+%d", repeatStr("\u00e9", 127)+"%d", 255, false) // 254 bytes = 127 code points
	add("e-acute*255+%d", repeatStr("\u00e9", 255)+"%d", 511, false)
	return r
}

func repeatStr(s string, n int) string {
	b := make([]byte, 0, len(s)*n)
	for i := 0; i < n; i++ {
		b = append(b, s...)
	}
	return string(b)
}

// hold n names at once, release them all (every second one through Name.Release), optionally force GCs
// (fresh ids n+1..2n are then minted), hold n again
func holdScript(n int, gc bool, again bool) []sop {
	m := n
	if n > 100 {
		m = 12 // the second group only has to show ids above n
	}
	return holdScript2(n, m, gc, again)
}

func holdScript2(n, m int, gc bool, again bool) []sop {
	var r []sop
	for i := 0; i < n; i++ {
		r = append(r, sop{k: 'a'})
	}
	if !again {
		return r
	}
	for i := 0; i < n; i++ {
		k := byte('r')
		if i%2 == 1 {
			k = 'n'
		}
		r = append(r, sop{k: k, i: (i * 7) % n})
	}
	if gc {
		r = append(r, sop{k: 'g'}, sop{k: 'g'})
	}
	for i := 0; i < m; i++ {
		r = append(r, sop{k: 'a'})
	}
	return r
}

// one holder at a time, the pool drained by two GCs after every release: ids 1..n although nothing is held twice
func drainScript(n int) []sop {
	var r []sop
	for i := 0; i < n; i++ {
		r = append(r, sop{k: 'a'}, sop{k: 'r', i: i}, sop{k: 'g'}, sop{k: 'g'})
	}
	return append(r, sop{k: 'a'})
}

func lengthFamily(out *sx.Out, rng *sx.Rng, thorough bool) {
	fam := lenFamily(thorough)
	quickRace := raceEnabled && !thorough
	if !raceEnabled {
		// fn 3 on the family
		ids := []uint64{1, 9, 10, 11, 99, 100, 101, 999, 1000, 65535, 4294967296, 18446744073709551615}
		for _, lf := range fam {
			use := ids
			if lf.huge {
				use = []uint64{1, 10, 18446744073709551615}
			}
			for _, id := range use {
				out.Case(3, sx.L{sx.Text(lf.f), sx.U64(id)}, sx.Text(fmt.Sprintf(lf.f, id)), "sprintflen;fmt="+fmtLabel(lf.f))
			}
		}
	}
	// fn 2: sequential
	for i, lf := range fam {
		if quickRace && !(i == 0 || lf.plain && lf.n >= 254 && lf.n <= 257) {
			continue
		}
		if lf.huge {
			sequentialC(out, "seqlen", lf.f, holdScript(12, false, false), "hold12")
			if thorough {
				sequentialC(out, "seqlen", lf.f, drainScript(11), "gc-drain11")
			}
			continue
		}
		sequentialC(out, "seqlen", lf.f, holdScript(12, false, true), "hold12-recycle")
		sequentialC(out, "seqlen", lf.f, holdScript(12, true, true), "hold12-gc-hold12")
		sequentialC(out, "seqlen", lf.f, drainScript(12), "gc-drain12")
		want120 := thorough || lf.n >= 250 && lf.n <= 259 && (lf.plain || i%3 == 0) || len(lf.f) == 2 || len(lf.f) == 1002
		if quickRace {
			want120 = lf.plain && (lf.n == 255 || lf.n == 256)
		}
		if want120 {
			sequentialC(out, "seqlen", lf.f, holdScript(120, true, true), "hold120-gc-hold12")
		}
		if thorough && lf.n >= 250 && lf.n <= 259 {
			sequentialC(out, "seqlen", lf.f, holdScript(1100, false, false), "hold1100")
		}
		if thorough {
			for k := 0; k < 3; k++ {
				sequentialC(out, "seqlen", lf.f, randomScript(rng, rng.Range(40, 300)), "random")
			}
		}
	}
	// fn 1: concurrent, A: 16..32 names held at once (two-digit ids), B: 128+ (three-digit ids)
	reps := 1
	if thorough {
		reps = 2
		if raceEnabled {
			reps = 1
		}
	}
	for rep := 0; rep < reps; rep++ {
		for i, lf := range fam {
			if quickRace && !(i == 0 || lf.plain && lf.n >= 254 && lf.n <= 257 || i%8 == 7) {
				continue
			}
			if lf.huge {
				concurrent(out, rng, cfg{format: lf.f, g: 4, procs: 4, rounds: 1, burst: 3, ops: 0, class: "conclen", keep: rep%2 == 1})
				continue
			}
			a := cfg{format: lf.f, g: 4, procs: 4, rounds: 2, burst: 4, ops: 10, gcRnd: true, gcProb: 3, class: "conclen"}
			b := cfg{format: lf.f, g: 32, procs: 16, rounds: 1, burst: 4, ops: 4, class: "conclen", keep: i%2 == 0}
			if rep > 0 {
				a.g, a.burst, a.procs = rng.Range(2, 8), rng.Range(3, 8), []int{1, 4, 16}[rng.Intn(3)]
				b.g, b.burst, b.procs = rng.Range(16, 64), rng.Range(4, 8), []int{1, 4, 16}[rng.Intn(3)]
				a.rounds = rng.Range(2, 4)
			}
			concurrent(out, rng, a)
			wantB := thorough && len(lf.f) <= 1100 || lf.n >= 250 && lf.n <= 259 && (lf.plain || i%2 == 0) || len(lf.f) == 2 || len(lf.f) == 202 || len(lf.f) == 302
			if wantB && !(quickRace && !lf.plain) {
				concurrent(out, rng, b)
			}
		}
	}
}

func main() {
	outp := flag.String("out", "", "case file")
	tier := flag.String("tier", "quick", "quick|thorough")
	flag.Parse()
	if *outp == "" {
		fmt.Println("need -out")
		return
	}
	out := sx.NewOut(*outp)
	defer out.Close()
	rng := sx.NewRng(sx.EnvSeed())
	thorough := *tier == "thorough"

	if !raceEnabled {
		// fn 3: Sprintf alone
		ids := []uint64{1, 2, 9, 10, 11, 99, 100, 101, 999, 1000, 12345, 65535, 65536, 4294967295, 4294967296,
			9223372036854775807, 9223372036854775808, 18446744073709551615}
		for _, f := range append(append([]string{}, formats...), moreFormats...) {
			for _, id := range ids {
				out.Case(3, sx.L{sx.Text(f), sx.U64(id)}, sx.Text(fmt.Sprintf(f, id)), fmt.Sprintf("sprintf;fmt=%q", f))
			}
			for k := 0; k < 20; k++ {
				id := rng.U64() >> uint(rng.Intn(64))
				out.Case(3, sx.L{sx.Text(f), sx.U64(id)}, sx.Text(fmt.Sprintf(f, id)), fmt.Sprintf("sprintf;fmt=%q", f))
			}
		}
	}

	// format-length family (fn 3, fn 2, fn 1)
	lengthFamily(out, rng, thorough)

	// fn 2: single goroutine, fixed scripts then random ones
	allf := append(append([]string{}, formats...), moreFormats...)
	for _, f := range allf {
		for _, sc := range fixedScripts {
			sequential(out, f, parseScript(sc.s), sc.name)
		}
	}
	nseq := 300
	if thorough {
		nseq = 6000
	}
	if raceEnabled {
		nseq /= 10
	}
	for k := 0; k < nseq; k++ {
		f := formats[k%len(formats)]
		if k%10 == 9 {
			f = moreFormats[rng.Intn(len(moreFormats))]
		}
		sequential(out, f, randomScript(rng, rng.Range(5, 300)), "random")
	}

	// fn 1: concurrent histories
	gs := []int{1, 2, 3, 4, 8, 16, 32, 64}
	procs := []int{1, 4, 16}
	reps := 3
	target := 3200
	if thorough {
		reps = 139
		target = 900
	}
	if raceEnabled {
		reps = 1
		target = 1500
		if thorough {
			reps = 12
		}
	}
	n := 0
	for rep := 0; rep < reps; rep++ {
		for _, pr := range procs {
			for fi, f := range formats {
				for _, g := range gs {
					if raceEnabled && !thorough && (fi+rep+g)%2 == 1 && g != 64 {
						continue
					}
					c := cfg{format: f, g: g, procs: pr}
					if rep%3 == 2 {
						c.g = rng.Range(1, 64)
					}
					c.rounds = rng.Range(2, 6)
					c.burst = rng.Range(0, 4)
					if rep%2 == 0 {
						c.burst = rng.Range(2, 8)
					}
					c.gcRnd = rng.Intn(3) > 0
					c.gcProb = []int{0, 1, 3, 10}[rng.Intn(4)]
					per := target / (c.g * c.rounds)
					c.ops = per - c.burst
					if c.ops < 3 {
						c.ops = 3
					}
					if n%17 == 16 {
						c.format = moreFormats[rng.Intn(len(moreFormats))]
					}
					concurrent(out, rng, c)
					n++
				}
			}
		}
	}
	fmt.Printf("c18: %d cases (race=%v)\n", out.N, raceEnabled)
}
