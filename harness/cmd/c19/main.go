// c19: drives capability.NewCapability / Target.Version / Target.SetCapabilities / Version.Has
// of the implementation over a grid of version strings and writes
//   -gen: Gen/GenC19.v  = the grid and the complete outcome matrix of every comparer on the grid
//         (obtained by EXECUTING the comparers; the extracted model uses the matrix as `cmp`)
//   -out: the case file
// fn 1: (cmpid ((id (arg ...)) ...))            -> per grid version: (0 (has ...)) | (class a b) | (-1)
// fn 2: (arg ...)                               -> ranges built by NewCapability
// fn 3: (cmpid ((id (arg ...)) ...) (v ...))    -> per version: (err-tree (id b) ...) = SetCapability call log
// fn 9: (cmpid a b)                             -> () | (z)   comparer outcome
// fn 4, 5, 6, 7: capability objects identified by position, see objects.go
// All versions are indices into the grid; cmpid 0 = nil comparer (default path), 1 = VersionCompareSemantic
// passed explicitly, 2 = reverse lexicographic custom comparer, 3 = chaotic custom comparer.
package main

import (
	"flag"
	"fmt"
	"hash/fnv"
	"os"
	"regexp"
	"runtime"
	"strings"
	"sync"

	"github.com/SAP/go-dblib/capability"
	"verifharness/sx"
)

// index 0 must be the empty string
var grid = []string{
	"",
	// not parsable by the default comparer
	"1 1 0", "x", "1.99999999999999999999.0", "1..2", "-1.0.0", "1.2.3.x", "1.0.0+", "1.0.0 ",
	// parsable, not strict MAJOR.MINOR.PATCH
	"1", "1.0", "2", "v1.2.3", "1.2.3.4", "1.2.3.0", "01.2.3", "1.0.0rc1",
	// strict semantic versions
	"0.0.0", "0.0.1", "0.1.0", "0.9.9", "0.10.0",
	"1.0.0-0", "1.0.0-0.3.7", "1.0.0-1", "1.0.0-2", "1.0.0-10", "1.0.0-B", "1.0.0-a",
	"1.0.0-alpha", "1.0.0-alpha.1", "1.0.0-alpha.2", "1.0.0-alpha1",
	"1.0.0-beta", "1.0.0-beta.2", "1.0.0-beta.11", "1.0.0-rc.1", "1.0.0-rc.1+build.5",
	"1.0.0-x-y-z", "1.0.0-x.7.z.92",
	"1.0.0", "1.0.0+build", "1.0.0+20130313144700",
	"1.0.1", "1.1.0-rc.1", "1.1.0", "1.1.1", "1.2.0", "1.2.3-rc.1", "1.2.3", "1.2.3+meta", "1.2.4",
	"1.9.0", "1.10.0", "1.10.1", "1.11.0",
	"2.0.0-alpha", "2.0.0", "2.0.1", "2.1.0", "2.10.0",
	"3.0.0", "3.5.0", "5.1.0", "9.9.9", "10.0.0-rc.1", "10.0.0", "16.0.2", "16.0.3", "100.0.0",
}

var gridIdx = map[string]int{}

// ---------------------------------------------------------------- comparers

// reverse lexicographic; refuses strings containing a blank; results outside {-1,0,1} on purpose
func revlex(a, b string) (int, error) {
	if strings.Contains(a, " ") {
		return 0, fmt.Errorf("revlex: cannot parse %q", a)
	}
	if strings.Contains(b, " ") {
		return 0, fmt.Errorf("revlex: cannot parse %q", b)
	}
	return -strings.Compare(a, b) * (1 + len(a)%3), nil
}

// deterministic but otherwise arbitrary: not antisymmetric, not reflexive, errors per PAIR
func chaotic(a, b string) (int, error) {
	h := fnv.New32a()
	h.Write([]byte(a))
	h.Write([]byte{0})
	h.Write([]byte(b))
	s := h.Sum32()
	if s%11 == 0 {
		return 0, fmt.Errorf("chaotic: no answer for %q %q", a, b)
	}
	return int((s>>8)%5) - 2, nil
}

func comparer(id int) capability.VersionComparer {
	switch id {
	case 0:
		return nil
	case 1:
		return capability.VersionCompareSemantic
	case 2:
		return revlex
	}
	return chaotic
}

// the function a comparer id stands for (nil means the package default)
func effective(id int) capability.VersionComparer {
	if id == 0 {
		return capability.VersionCompareSemantic
	}
	return comparer(id)
}

// ---------------------------------------------------------------- observables

var (
	reBounds  = regexp.MustCompile(`^Failed to compare lower and upper bound of VersionRange '([^']*)' -> '([^']*)' in Capability `)
	reInvalid = regexp.MustCompile(`^VersionRange ''([^']*)' -> '([^']*)'' of Capability '.*' is invalid, lower bound is greater or equal to upper bound$`)
	reCompare = regexp.MustCompile(`^Received error comparing '([^']*)' against '([^']*)': `)
)

func errTree(err error) sx.T {
	if err == nil {
		return sx.L{sx.I(0)}
	}
	msg := err.Error()
	for c, re := range []*regexp.Regexp{reBounds, reInvalid, reCompare} {
		if m := re.FindStringSubmatch(msg); m != nil {
			a, oka := gridIdx[m[1]]
			b, okb := gridIdx[m[2]]
			if oka && okb {
				return sx.L{sx.I(int64(c + 1)), sx.I(int64(a)), sx.I(int64(b))}
			}
		}
	}
	return sx.L{sx.I(9)}
}

type capSpec struct {
	id   int
	args []int
}

func capsTree(caps []capSpec) sx.T {
	var l sx.L
	for _, c := range caps {
		var a sx.L
		for _, x := range c.args {
			a = append(a, sx.I(int64(x)))
		}
		l = append(l, sx.L{sx.I(int64(c.id)), a})
	}
	return l
}

func intsTree(a []int) sx.T {
	l := sx.L{}
	for _, x := range a {
		l = append(l, sx.I(int64(x)))
	}
	return l
}

func strs(args []int) []string {
	r := make([]string, len(args))
	for i, a := range args {
		r[i] = grid[a]
	}
	return r
}

// one *Capability per distinct id: the same id twice in a target is the same pointer twice
func build(caps []capSpec) []*capability.Capability {
	ptr := map[int]*capability.Capability{}
	var list []*capability.Capability
	for _, c := range caps {
		p, ok := ptr[c.id]
		if !ok {
			p = capability.NewCapability(fmt.Sprintf("cap%d", c.id), strs(c.args)...)
			ptr[c.id] = p
		}
		list = append(list, p)
	}
	return list
}

func runVersion(t capability.Target, list []*capability.Capability, foreign *capability.Capability, spec string) (res sx.T) {
	defer func() {
		if r := recover(); r != nil {
			res = sx.L{sx.I(-1)}
		}
	}()
	v, err := t.Version(spec)
	if err != nil {
		if v != nil {
			return sx.L{sx.I(-2)}
		}
		return errTree(err)
	}
	if v == nil {
		return sx.L{sx.I(-3)}
	}
	if v.VersionString() != spec {
		return sx.L{sx.I(-4)}
	}
	var bits sx.L
	for _, p := range list {
		bits = append(bits, sx.Bool(v.Has(p)))
	}
	bits = append(bits, sx.Bool(v.Has(foreign)))
	return sx.L{sx.I(0), bits}
}

func runTarget(cmpid int, caps []capSpec) sx.T {
	list := build(caps)
	foreign := capability.NewCapability("foreign", "0.0.0")
	t := capability.Target{VersionComparer: comparer(cmpid), Capabilities: list}
	var out sx.L
	for _, s := range grid {
		out = append(out, runVersion(t, list, foreign, s))
	}
	return out
}

// a Version implementation that records every SetCapability call
type recVersion struct {
	spec string
	ids  map[*capability.Capability]int
	m    map[*capability.Capability]bool
	log  sx.L
}

func (r *recVersion) VersionString() string { return r.spec }
func (r *recVersion) SetCapability(c *capability.Capability, b bool) {
	id, ok := r.ids[c]
	if !ok {
		id = -1
	}
	r.log = append(r.log, sx.L{sx.I(int64(id)), sx.Bool(b)})
	r.m[c] = b
}
func (r *recVersion) Has(c *capability.Capability) bool { return r.m[c] }

func runLog(cmpid int, caps []capSpec, versions []int) sx.T {
	list := build(caps)
	ids := map[*capability.Capability]int{}
	for i, p := range list {
		ids[p] = caps[i].id
	}
	t := capability.Target{VersionComparer: comparer(cmpid), Capabilities: list}
	var out sx.L
	for _, vi := range versions {
		func() {
			rv := &recVersion{spec: grid[vi], ids: ids, m: map[*capability.Capability]bool{}}
			defer func() {
				if r := recover(); r != nil {
					out = append(out, sx.L{sx.L{sx.I(-1)}})
				}
			}()
			err := t.SetCapabilities(rv)
			out = append(out, append(sx.L{errTree(err)}, rv.log...))
		}()
	}
	return out
}

func runPairing(args []int) sx.T {
	c := capability.NewCapability("p", strs(args)...)
	var out sx.L
	for _, r := range c.VersionRanges {
		a, oka := gridIdx[r.Introduced]
		b, okb := gridIdx[r.Removed]
		if !oka || !okb {
			return sx.L{sx.I(-5)}
		}
		out = append(out, sx.L{sx.I(int64(a)), sx.I(int64(b))})
	}
	return out
}

func runCmp(cmpid, a, b int) (res sx.T) {
	defer func() {
		if r := recover(); r != nil {
			res = sx.L{sx.I(-1), sx.I(-1)}
		}
	}()
	c, err := effective(cmpid)(grid[a], grid[b])
	if err != nil {
		return sx.L{}
	}
	return sx.L{sx.I(int64(c))}
}

// ---------------------------------------------------------------- generation

type job struct {
	fn  int
	in  sx.T
	tag string
	f   func() sx.T
	out sx.T
}

type rg [2]int // grid indices, 0 = ""

// strings a comparer accepts (compares with itself without error), "" excluded
func parsable(cmpid int) []int {
	var r []int
	f := effective(cmpid)
	for i := 1; i < len(grid); i++ {
		if _, err := f(grid[i], grid[i]); err == nil {
			r = append(r, i)
		}
	}
	return r
}

type gen struct {
	rng  *sx.Rng
	pars map[int][]int
}

func (g *gen) anyStr() int { return g.rng.Intn(len(grid)) }
func (g *gen) okStr(cmpid int) int {
	p := g.pars[cmpid]
	return p[g.rng.Intn(len(p))]
}

// a range that is valid for the comparer (two-sided with lower < upper, one-sided, or ("",""))
func (g *gen) cleanRange(cmpid int) rg {
	f := effective(cmpid)
	switch k := g.rng.Intn(20); {
	case k < 12:
		for try := 0; try < 40; try++ {
			a, b := g.okStr(cmpid), g.okStr(cmpid)
			if c, err := f(grid[a], grid[b]); err == nil && c < 0 {
				return rg{a, b}
			}
		}
		return rg{g.okStr(cmpid), 0}
	case k < 15:
		return rg{g.okStr(cmpid), 0}
	case k < 18:
		return rg{0, g.okStr(cmpid)}
	}
	return rg{0, 0}
}

func (g *gen) dirtyRange(cmpid int) rg {
	f := effective(cmpid)
	switch g.rng.Intn(5) {
	case 0: // zero width
		a := g.okStr(cmpid)
		return rg{a, a}
	case 1: // inverted
		for try := 0; try < 40; try++ {
			a, b := g.okStr(cmpid), g.okStr(cmpid)
			if c, err := f(grid[a], grid[b]); err == nil && c > 0 {
				return rg{a, b}
			}
		}
	case 2: // a bound chosen from the whole grid (possibly unparsable), the other side open
		if g.rng.Bool() {
			return rg{g.anyStr(), 0}
		}
		return rg{0, g.anyStr()}
	case 3:
		return rg{g.anyStr(), g.okStr(cmpid)}
	}
	return rg{g.anyStr(), g.anyStr()}
}

func (g *gen) ranges(cmpid, k int, clean bool) []rg {
	r := make([]rg, k)
	for i := range r {
		if clean || g.rng.Intn(3) > 0 {
			r[i] = g.cleanRange(cmpid)
		} else {
			r[i] = g.dirtyRange(cmpid)
		}
	}
	return r
}

// NewCapability arguments for a list of ranges; a trailing (x, "") may be passed as the odd tail x
func (g *gen) args(rs []rg) []int {
	var a []int
	for _, r := range rs {
		a = append(a, r[0], r[1])
	}
	if n := len(rs); n > 0 && rs[n-1][1] == 0 && rs[n-1][0] != 0 && g.rng.Bool() {
		a = a[:len(a)-1]
	}
	return a
}

func perms(n int) [][]int {
	if n == 0 {
		return [][]int{{}}
	}
	var out [][]int
	for _, p := range perms(n - 1) {
		for pos := 0; pos <= len(p); pos++ {
			q := append(append(append([]int{}, p[:pos]...), n-1), p[pos:]...)
			out = append(out, q)
		}
	}
	return out
}

func (g *gen) shuffle(n int) []int {
	p := make([]int, n)
	for i := range p {
		p[i] = i
	}
	for i := n - 1; i > 0; i-- {
		j := g.rng.Intn(i + 1)
		p[i], p[j] = p[j], p[i]
	}
	return p
}

func coqZ(v int) string {
	if v < 0 {
		return fmt.Sprintf("(%d)", v)
	}
	return fmt.Sprintf("%d", v)
}

func writeGen(path string) {
	var b strings.Builder
	b.WriteString("(* GENERATED by harness/cmd/c19 from /repo by executing the comparers on the version grid; do not edit. *)\n")
	b.WriteString("From Coq Require Import ZArith List.\nImport ListNotations.\nOpen Scope Z_scope.\n")
	b.WriteString("(* the grid of version strings as code points; index 0 is the empty string *)\n")
	b.WriteString("Definition grid : list (list Z) := [\n")
	for i, s := range grid {
		var p []string
		for _, r := range s {
			p = append(p, coqZ(int(r)))
		}
		sep := ";"
		if i == len(grid)-1 {
			sep = ""
		}
		fmt.Fprintf(&b, " [%s]%s\n", strings.Join(p, ";"), sep)
	}
	b.WriteString("].\n")
	for _, t := range []struct {
		name string
		id   int
	}{{"cmp_default", 1}, {"cmp_revlex", 2}, {"cmp_chaotic", 3}} {
		fmt.Fprintf(&b, "Definition %s : list (list (option Z)) := [\n", t.name)
		for a := range grid {
			var p []string
			for c := range grid {
				v, err := effective(t.id)(grid[a], grid[c])
				if err != nil {
					p = append(p, "None")
				} else {
					p = append(p, "Some "+coqZ(v))
				}
			}
			sep := ";"
			if a == len(grid)-1 {
				sep = ""
			}
			fmt.Fprintf(&b, " [%s]%s\n", strings.Join(p, ";"), sep)
		}
		b.WriteString("].\n")
	}
	old, _ := os.ReadFile(path)
	if string(old) != b.String() {
		if err := os.WriteFile(path, []byte(b.String()), 0o644); err != nil {
			fmt.Fprintln(os.Stderr, err)
			os.Exit(2)
		}
	}
}

func main() {
	genPath := flag.String("gen", "", "write GenC19.v here")
	outPath := flag.String("out", "", "write case file here")
	tier := flag.String("tier", "quick", "quick|thorough")
	flag.Parse()
	for i, s := range grid {
		gridIdx[s] = i
	}
	if grid[0] != "" || len(gridIdx) != len(grid) {
		fmt.Fprintln(os.Stderr, "grid must start with \"\" and be duplicate free")
		os.Exit(2)
	}
	if *genPath != "" {
		writeGen(*genPath)
	}
	if *outPath == "" {
		return
	}
	thorough := *tier == "thorough"
	g := &gen{rng: sx.NewRng(sx.EnvSeed()), pars: map[int][]int{}}
	for id := 0; id < 4; id++ {
		g.pars[id] = parsable(id)
	}
	var jobs []*job
	add := func(fn int, in sx.T, tag string, f func() sx.T) { jobs = append(jobs, &job{fn: fn, in: in, tag: tag, f: f}) }
	target := func(cmpid int, caps []capSpec, tag string) {
		cs := append([]capSpec{}, caps...)
		add(1, sx.L{sx.I(int64(cmpid)), capsTree(cs)}, tag, func() sx.T { return runTarget(cmpid, cs) })
	}
	allVersions := make([]int, len(grid))
	for i := range allVersions {
		allVersions[i] = i
	}
	logcase := func(cmpid int, caps []capSpec, vs []int, tag string) {
		cs := append([]capSpec{}, caps...)
		var vt sx.L
		for _, v := range vs {
			vt = append(vt, sx.I(int64(v)))
		}
		add(3, sx.L{sx.I(int64(cmpid)), capsTree(cs), vt}, tag, func() sx.T { return runLog(cmpid, cs, vs) })
	}

	// --- 1. boundary enumerations
	// comparer matrices (cross-checked against the independent semantic-version ordering by the spec)
	for _, id := range []int{1, 2, 3} {
		for a := range grid {
			for b := range grid {
				a, b, id := a, b, id
				add(9, sx.Ints(int64(id), int64(a), int64(b)), fmt.Sprintf("matrix;cmp=%d", id), func() sx.T { return runCmp(id, a, b) })
			}
		}
	}
	// NewCapability pairing: every argument list over {"", a, b} up to length 5
	alpha := []int{0, gridIdx["1.0.0"], gridIdx["2.0.0"]}
	var enum func(prefix []int, n int)
	enum = func(prefix []int, n int) {
		p := append([]int{}, prefix...)
		add(2, intsTree(p), fmt.Sprintf("pairing;n=%d", len(p)), func() sx.T { return runPairing(p) })
		if n == 0 {
			return
		}
		for _, a := range alpha {
			enum(append(p, a), n-1)
		}
	}
	enum(nil, 5)
	// capability without ranges, alone and next to others
	for _, id := range []int{0, 1, 2, 3} {
		target(id, []capSpec{{1, nil}}, fmt.Sprintf("norange;cmp=%d", id))
		target(id, nil, fmt.Sprintf("norange;cmp=%d;empty-target", id))
		target(id, []capSpec{{1, nil}, {2, []int{gridIdx["1.0.0"]}}, {3, []int{0}}, {4, []int{0, 0}}}, fmt.Sprintf("norange;cmp=%d;mixed", id))
	}
	// every single range over the grid (both bounds from the whole grid incl. "" and unparsable strings),
	// against every version of the grid: exhaustive for `contains` + the validity check
	singleCmps := []int{0, 2, 3}
	if thorough {
		singleCmps = []int{0, 1, 2, 3}
	}
	for _, id := range singleCmps {
		for a := range grid {
			for b := range grid {
				target(id, []capSpec{{1, []int{a, b}}}, fmt.Sprintf("single;cmp=%d", id))
			}
		}
	}
	// one-sided range passed as the odd tail
	for a := range grid {
		target(0, []capSpec{{1, []int{a}}}, "single;cmp=0;odd-tail")
		target(1, []capSpec{{1, []int{a}}}, "single;cmp=1;odd-tail")
	}

	// --- 2. random structured cases
	nsets, ntargets, nlogs := 260, 300, 400
	if thorough {
		nsets, ntargets, nlogs = 4000, 5000, 6000
	}
	// one capability with 2..4 ranges, ALL permutations of the ranges
	for s := 0; s < nsets; s++ {
		cmpid := []int{0, 0, 1, 2, 2, 3}[s%6]
		k := 2 + s%3
		rs := g.ranges(cmpid, k, s%5 < 3)
		for _, p := range perms(k) {
			pr := make([]rg, k)
			for i, j := range p {
				pr[i] = rs[j]
			}
			var a []int
			for _, r := range pr {
				a = append(a, r[0], r[1])
			}
			target(cmpid, []capSpec{{1, a}}, fmt.Sprintf("perm;cmp=%d;k=%d", cmpid, k))
		}
	}
	// several capabilities per target (0..4 ranges each), in several orders, ranges shuffled, pointer reuse
	for s := 0; s < ntargets; s++ {
		cmpid := []int{0, 1, 2, 0, 3, 2}[s%6]
		n := 1 + g.rng.Intn(4)
		clean := s%4 != 0
		rsets := make([][]rg, n)
		for i := range rsets {
			rsets[i] = g.ranges(cmpid, g.rng.Intn(5), clean)
		}
		mk := func(order []int, shuffleRanges bool) []capSpec {
			var caps []capSpec
			for _, i := range order {
				rs := rsets[i]
				if shuffleRanges {
					q := make([]rg, len(rs))
					for x, y := range g.shuffle(len(rs)) {
						q[x] = rs[y]
					}
					rs = q
				}
				caps = append(caps, capSpec{i + 1, g.args(rs)})
			}
			return caps
		}
		id := make([]int, n)
		rev := make([]int, n)
		for i := range id {
			id[i] = i
			rev[i] = n - 1 - i
		}
		tag := fmt.Sprintf("target;cmp=%d;n=%d", cmpid, n)
		target(cmpid, mk(id, false), tag)
		target(cmpid, mk(rev, false), tag+";reversed")
		target(cmpid, mk(g.shuffle(n), true), tag+";shuffled")
		target(cmpid, mk(g.shuffle(n), true), tag+";shuffled")
		// the same capability (pointer) registered twice
		caps := mk(id, false)
		dup := caps[g.rng.Intn(len(caps))]
		pos := g.rng.Intn(len(caps) + 1)
		caps = append(caps[:pos], append([]capSpec{dup}, caps[pos:]...)...)
		target(cmpid, caps, tag+";dup")
	}
	// SetCapabilities with a recording Version: the exact sequence of SetCapability calls
	for s := 0; s < nlogs; s++ {
		cmpid := s % 4
		n := 1 + g.rng.Intn(3)
		var caps []capSpec
		for i := 0; i < n; i++ {
			caps = append(caps, capSpec{i + 1, g.args(g.ranges(cmpid, g.rng.Intn(5), s%3 != 0))})
		}
		if s%7 == 0 {
			caps = append(caps, caps[0])
		}
		logcase(cmpid, caps, allVersions, fmt.Sprintf("log;cmp=%d;n=%d", cmpid, len(caps)))
	}
	// --- 3. malformed: argument lists drawn from the whole grid, odd counts, "" in any position
	nmal := 600
	if thorough {
		nmal = 8000
	}
	for s := 0; s < nmal; s++ {
		k := g.rng.Intn(10)
		a := make([]int, k)
		for i := range a {
			if g.rng.Intn(4) == 0 {
				a[i] = 0
			} else {
				a[i] = g.anyStr()
			}
		}
		if s%2 == 0 {
			aa := a
			add(2, intsTree(aa), fmt.Sprintf("pairing;n=%d;random", k), func() sx.T { return runPairing(aa) })
		} else {
			cmpid := s % 4
			target(cmpid, []capSpec{{1, a}, {2, []int{g.anyStr(), g.anyStr()}}}, fmt.Sprintf("malformed;cmp=%d", cmpid))
		}
	}

	// --- 4. capability objects with shared descriptions, struct literals, and the other exported entry points
	genObjects(g, add, thorough)

	// run the implementation (parallel, deterministic output order)
	var wg sync.WaitGroup
	nw := runtime.NumCPU()
	ch := make(chan *job, 256)
	for w := 0; w < nw; w++ {
		wg.Add(1)
		go func() {
			defer wg.Done()
			for j := range ch {
				j.out = j.f()
			}
		}()
	}
	for _, j := range jobs {
		ch <- j
	}
	close(ch)
	wg.Wait()
	o := sx.NewOut(*outPath)
	for _, j := range jobs {
		o.Case(j.fn, j.in, j.out, j.tag)
	}
	o.Close()
}
