// Capability OBJECTS: the identity of a capability is its pointer (its position in the case's object list),
// never its description.  Generators here build targets whose capabilities share descriptions (all empty,
// all equal, equal to one other capability, equal to a capability that is NOT registered), are built through
// NewCapability or as struct literals (with empty or nil VersionRanges), are listed twice or in different
// orders, and exercise the exported entry points besides Target.Version:
//   fn 4: (cmpid (obj ...) (slot ...))            -> per grid version: (0 (Has(obj) for EVERY object)) | (class a b) | (-1)
//   fn 5: (vkind v (obj ...) (op ...))            -> one result per op: calls on ONE Version object
//         (DefaultVersion.SetCapability / Has / VersionString directly, on value copies, Target.SetCapabilities on a
//         version that already carries answers, on caller-supplied types composing a DefaultVersion, on the zero value)
//   fn 6: obj                                     -> (Capability.String() (VersionRange.String() ...))
//   fn 7: (cmpid (obj ...) (slot ...) (v ...))    -> SetCapabilities on a caller-supplied recording Version (call log)
// obj = (kind $description args): kind 0 NewCapability(description, args...) (args flat), kind 1 struct literal
// (args = ((lo hi) ...)), kind 2 struct literal with nil VersionRanges.
package main

import (
	"fmt"

	"github.com/SAP/go-dblib/capability"
	"verifharness/sx"
)

type objSpec struct {
	kind int
	desc string
	args []int // kind 0: NewCapability arguments
	rs   []rg  // kind 1: VersionRanges
}

func (o objSpec) hasRanges() bool {
	if o.kind == 0 {
		n := len(o.args)
		return n >= 2 || (n == 1 && o.args[0] != 0)
	}
	return len(o.rs) > 0
}

func objTree(o objSpec) sx.T {
	var a sx.L = sx.L{}
	if o.kind == 0 {
		a = intsTree(o.args).(sx.L)
	} else {
		for _, r := range o.rs {
			a = append(a, sx.Ints(int64(r[0]), int64(r[1])))
		}
	}
	return sx.L{sx.I(int64(o.kind)), sx.Text(o.desc), a}
}

func objsTree(objs []objSpec) sx.T {
	l := sx.L{}
	for _, o := range objs {
		l = append(l, objTree(o))
	}
	return l
}

func buildObj(o objSpec) *capability.Capability {
	switch o.kind {
	case 0:
		return capability.NewCapability(o.desc, strs(o.args)...)
	case 1:
		vr := []capability.VersionRange{}
		for _, r := range o.rs {
			vr = append(vr, capability.VersionRange{Introduced: grid[r[0]], Removed: grid[r[1]]})
		}
		return &capability.Capability{Description: o.desc, VersionRanges: vr}
	}
	return &capability.Capability{Description: o.desc}
}

func buildObjs(objs []objSpec) []*capability.Capability {
	ps := make([]*capability.Capability, len(objs))
	for i, o := range objs {
		ps[i] = buildObj(o)
	}
	return ps
}

func pick(ps []*capability.Capability, slots []int) []*capability.Capability {
	l := make([]*capability.Capability, len(slots))
	for i, s := range slots {
		l[i] = ps[s]
	}
	return l
}

// fn 4
func runObjTarget(cmpid int, objs []objSpec, slots []int) sx.T {
	ps := buildObjs(objs)
	t := capability.Target{VersionComparer: comparer(cmpid), Capabilities: pick(ps, slots)}
	var out sx.L
	for _, s := range grid {
		out = append(out, runObjVersion(t, ps, s))
	}
	return out
}

func runObjVersion(t capability.Target, ps []*capability.Capability, spec string) (res sx.T) {
	defer func() {
		if r := recover(); r != nil {
			res = sx.L{sx.I(-1)}
		}
	}()
	v, err := t.Version(spec)
	if err != nil {
		if v != nil {
			return sx.L{sx.I(-2)}
		}
		return errTree(err)
	}
	if v == nil {
		return sx.L{sx.I(-3)}
	}
	if v.VersionString() != spec {
		return sx.L{sx.I(-4)}
	}
	bits := sx.L{}
	for _, p := range ps {
		bits = append(bits, sx.Bool(v.Has(p)))
	}
	return sx.L{sx.I(0), bits}
}

// fn 7
func runObjLog(cmpid int, objs []objSpec, slots []int, versions []int) sx.T {
	ps := buildObjs(objs)
	ids := map[*capability.Capability]int{}
	for i, p := range ps {
		ids[p] = i
	}
	t := capability.Target{VersionComparer: comparer(cmpid), Capabilities: pick(ps, slots)}
	var out sx.L
	for _, vi := range versions {
		func() {
			rv := &recVersion{spec: grid[vi], ids: ids, m: map[*capability.Capability]bool{}}
			defer func() {
				if r := recover(); r != nil {
					out = append(out, sx.L{sx.L{sx.I(-1)}})
				}
			}()
			err := t.SetCapabilities(rv)
			out = append(out, append(sx.L{errTree(err)}, rv.log...))
		}()
	}
	return out
}

// fn 6
func runStrings(o objSpec) sx.T {
	c := buildObj(o)
	rs := sx.L{}
	for _, r := range c.VersionRanges {
		rs = append(rs, sx.Text(r.String()))
	}
	return sx.L{sx.Text(c.String()), rs}
}

// ---------------------------------------------------------------- fn 5: scripts on one Version object

// caller-supplied Version types composing a DefaultVersion (doc.go: "Versions can be either composed into another
// struct or exported as well")
type wrapVersion struct { // embeds the interface value returned by NewDefaultVersion
	capability.Version
	note string
}
type ptrVersion struct { // embeds the concrete pointer
	*capability.DefaultVersion
	note string
}
type valVersion struct { // embeds the struct by value (a copy that shares the map)
	capability.DefaultVersion
	note string
}

type op struct {
	k     int
	obj   int
	b     bool
	cmpid int
	slots []int
	lo    int
	hi    int
}

func opTree(o op) sx.T {
	switch o.k {
	case 0, 5:
		return sx.L{sx.I(int64(o.k)), sx.I(int64(o.obj)), sx.Bool(o.b)}
	case 1, 4:
		return sx.L{sx.I(int64(o.k)), sx.I(int64(o.obj))}
	case 2:
		return sx.L{sx.I(2), sx.I(int64(o.cmpid)), intsTree(o.slots)}
	case 6:
		return sx.L{sx.I(6), sx.I(int64(o.obj)), sx.I(int64(o.lo)), sx.I(int64(o.hi))}
	}
	return sx.L{sx.I(int64(o.k))}
}

func opsTree(ops []op) sx.T {
	l := sx.L{}
	for _, o := range ops {
		l = append(l, opTree(o))
	}
	return l
}

// the Version under test and the DefaultVersion value it is made of
func makeVersion(vkind, v int) (capability.Version, *capability.DefaultVersion) {
	if vkind == 3 {
		z := &capability.DefaultVersion{}
		return z, z
	}
	iv := capability.NewDefaultVersion(grid[v])
	dv := iv.(*capability.DefaultVersion)
	switch vkind {
	case 1:
		return &wrapVersion{Version: iv, note: "w"}, dv
	case 2:
		return &ptrVersion{DefaultVersion: dv, note: "p"}, dv
	case 4:
		vv := &valVersion{DefaultVersion: *dv, note: "v"}
		return vv, &vv.DefaultVersion
	}
	return iv, dv
}

func runOp(ver capability.Version, dv *capability.DefaultVersion, ps []*capability.Capability, o op) (res sx.T) {
	defer func() {
		if r := recover(); r != nil {
			res = sx.L{sx.I(-1)}
		}
	}()
	switch o.k {
	case 0:
		ver.SetCapability(ps[o.obj], o.b)
		return sx.L{sx.I(0)}
	case 1:
		return sx.L{sx.Bool(ver.Has(ps[o.obj]))}
	case 2:
		t := capability.Target{VersionComparer: comparer(o.cmpid), Capabilities: pick(ps, o.slots)}
		return errTree(t.SetCapabilities(ver))
	case 3:
		i, ok := gridIdx[ver.VersionString()]
		if !ok {
			i = -1
		}
		return sx.L{sx.I(int64(i))}
	case 4:
		c := *dv
		return sx.L{sx.Bool(c.Has(ps[o.obj]))}
	case 5:
		c := *dv
		(&c).SetCapability(ps[o.obj], o.b)
		return sx.L{sx.I(0)}
	case 6:
		p := ps[o.obj]
		p.VersionRanges = append(p.VersionRanges, capability.VersionRange{Introduced: grid[o.lo], Removed: grid[o.hi]})
		return sx.L{}
	}
	return sx.L{sx.I(-9)}
}

func runScript(vkind, v int, objs []objSpec, ops []op) sx.T {
	ps := buildObjs(objs)
	ver, dv := makeVersion(vkind, v)
	out := sx.L{}
	for _, o := range ops {
		out = append(out, runOp(ver, dv, ps, o))
	}
	return out
}

// ---------------------------------------------------------------- generation

var descPool = []string{"", "", "a", "cap1", "bug #15", "'1.0.0' -> '2.0.0'", "Capability  -> ()", "äß€"}

// descriptions for n objects: 0 all empty, 1 all equal, 2 pairwise distinct, 3 drawn from a small pool (collisions
// likely), 4 distinct except that one object repeats another one's description
func (g *gen) descs(n, mode int) []string {
	d := make([]string, n)
	switch mode {
	case 0:
	case 1:
		s := descPool[2+g.rng.Intn(len(descPool)-2)]
		for i := range d {
			d[i] = s
		}
	case 2:
		for i := range d {
			d[i] = fmt.Sprintf("cap%d", i)
		}
	case 3:
		for i := range d {
			d[i] = descPool[g.rng.Intn(len(descPool))]
		}
	default:
		for i := range d {
			d[i] = fmt.Sprintf("cap%d", i)
		}
		if n > 1 {
			i := g.rng.Intn(n)
			j := (i + 1 + g.rng.Intn(n-1)) % n
			d[i] = d[j]
		}
	}
	return d
}

// an object with the given ranges, built one of the three ways
func (g *gen) obj(desc string, rs []rg) objSpec {
	k := g.rng.Intn(3)
	if k == 2 && len(rs) > 0 {
		k = g.rng.Intn(2)
	}
	if k == 0 {
		return objSpec{kind: 0, desc: desc, args: g.args(rs)}
	}
	return objSpec{kind: k, desc: desc, rs: rs}
}

func seqInts(n int) []int {
	r := make([]int, n)
	for i := range r {
		r[i] = i
	}
	return r
}

func genObjects(g *gen, add func(fn int, in sx.T, tag string, f func() sx.T), thorough bool) {
	objTarget := func(cmpid int, objs []objSpec, slots []int, tag string) {
		os, sl := append([]objSpec{}, objs...), append([]int{}, slots...)
		add(4, sx.L{sx.I(int64(cmpid)), objsTree(os), intsTree(sl)}, tag, func() sx.T { return runObjTarget(cmpid, os, sl) })
	}
	objLog := func(cmpid int, objs []objSpec, slots []int, vs []int, tag string) {
		os, sl := append([]objSpec{}, objs...), append([]int{}, slots...)
		add(7, sx.L{sx.I(int64(cmpid)), objsTree(os), intsTree(sl), intsTree(vs)}, tag, func() sx.T { return runObjLog(cmpid, os, sl, vs) })
	}
	script := func(vkind, v int, objs []objSpec, ops []op, tag string) {
		os, po := append([]objSpec{}, objs...), append([]op{}, ops...)
		add(5, sx.L{sx.I(int64(vkind)), sx.I(int64(v)), objsTree(os), opsTree(po)}, tag, func() sx.T { return runScript(vkind, v, os, po) })
	}
	strcase := func(o objSpec, tag string) {
		add(6, objTree(o), tag, func() sx.T { return runStrings(o) })
	}
	allVersions := seqInts(len(grid))
	ix := func(s string) int { return gridIdx[s] }

	// --- 1. boundary enumeration: two objects A = [1.0.0, 2.0.0) and B (no range / another range), every way of
	// building them, equal and distinct descriptions, every listing (both orders, one twice, one not listed)
	aRanges := []rg{{ix("1.0.0"), ix("2.0.0")}}
	type bvar struct {
		name string
		rs   []rg
	}
	bvars := []bvar{
		{"norange", nil},
		{"disjoint", []rg{{ix("3.0.0"), 0}}},
		{"same", []rg{{ix("1.0.0"), ix("2.0.0")}}},
		{"upper-only", []rg{{0, ix("1.0.0")}}},
		{"superset", []rg{{ix("0.1.0"), ix("5.1.0")}}},
		{"two", []rg{{ix("0.1.0"), ix("1.0.0")}, {ix("2.0.0"), ix("3.0.0")}}},
		{"emptyrange", []rg{{0, 0}}},
	}
	descPairs := [][2]string{{"", ""}, {"same", "same"}, {"a", "b"}}
	listings := [][]int{{0, 1}, {1, 0}, {0, 1, 0}, {1, 0, 1}, {0, 0, 1}, {1, 1, 0}, {0}, {1}, {}}
	for _, cmpid := range []int{0, 1} {
		for _, bv := range bvars {
			for di, dp := range descPairs {
				for akind := 0; akind < 2; akind++ {
					for bkind := 0; bkind < 3; bkind++ {
						if bkind == 2 && len(bv.rs) > 0 {
							continue
						}
						if cmpid == 1 && akind != bkind%2 {
							continue
						}
						a := objSpec{kind: akind, desc: dp[0], rs: aRanges}
						if akind == 0 {
							a.args = []int{aRanges[0][0], aRanges[0][1]}
						}
						b := objSpec{kind: bkind, desc: dp[1], rs: bv.rs}
						if bkind == 0 {
							b.args = nil
							for _, r := range bv.rs {
								b.args = append(b.args, r[0], r[1])
							}
						}
						for _, sl := range listings {
							objTarget(cmpid, []objSpec{a, b}, sl, fmt.Sprintf("objenum;cmp=%d;b=%s;desc=%d", cmpid, bv.name, di))
						}
					}
				}
			}
		}
	}
	// DefaultVersion used directly: answers set by the caller for objects with equal / distinct descriptions
	for _, dp := range descPairs {
		for _, vkind := range []int{0, 1, 2, 4, 3} {
			for akind := 0; akind < 3; akind++ {
				v := 0 // the zero value's VersionString is ""
				if vkind != 3 {
					v = ix("1.2.3")
				}
				objs := []objSpec{{kind: akind, desc: dp[0]}, {kind: (akind + 1) % 3, desc: dp[1]}, {kind: 1, desc: dp[0], rs: aRanges}}
				for _, first := range []bool{true, false} {
					ops := []op{{k: 3}, {k: 1, obj: 0}, {k: 1, obj: 1}, {k: 4, obj: 2},
						{k: 0, obj: 0, b: first}, {k: 1, obj: 0}, {k: 1, obj: 1}, {k: 1, obj: 2},
						{k: 0, obj: 1, b: !first}, {k: 1, obj: 0}, {k: 1, obj: 1}, {k: 4, obj: 0}, {k: 4, obj: 1},
						{k: 5, obj: 2, b: first}, {k: 1, obj: 0}, {k: 1, obj: 1}, {k: 1, obj: 2},
						{k: 2, cmpid: 0, slots: []int{2, 1}}, {k: 1, obj: 0}, {k: 1, obj: 1}, {k: 1, obj: 2},
						{k: 0, obj: 0, b: !first}, {k: 1, obj: 0}, {k: 1, obj: 1}, {k: 4, obj: 2}, {k: 3}}
					script(vkind, v, objs, ops, fmt.Sprintf("script;vkind=%d;enum", vkind))
				}
			}
		}
	}
	// VersionRange.String / Capability.String for every bound of the grid and a few descriptions
	for a := range grid {
		for _, b := range []int{0, a, ix("2.0.0")} {
			strcase(objSpec{kind: 1, desc: descPool[a%len(descPool)], rs: []rg{{a, b}}}, "strings;single")
		}
		strcase(objSpec{kind: 0, desc: descPool[a%len(descPool)], args: []int{a}}, "strings;odd-tail")
	}
	strcase(objSpec{kind: 0, desc: ""}, "strings;norange")
	strcase(objSpec{kind: 1, desc: "x"}, "strings;norange")
	strcase(objSpec{kind: 2, desc: "x"}, "strings;norange")

	// --- 2. random structured cases
	ntargets, nlogs, nscripts, nstrings := 400, 150, 500, 300
	if thorough {
		ntargets, nlogs, nscripts, nstrings = 6000, 2500, 8000, 3000
	}
	// n listed objects + up to two objects that are not listed (one repeating the description of a listed one)
	mkObjs := func(cmpid, n int, clean bool) []objSpec {
		mode := g.rng.Intn(5)
		d := g.descs(n, mode)
		objs := make([]objSpec, 0, n+2)
		for i := 0; i < n; i++ {
			objs = append(objs, g.obj(d[i], g.ranges(cmpid, g.rng.Intn(4), clean)))
		}
		return objs
	}
	for s := 0; s < ntargets; s++ {
		cmpid := []int{0, 1, 2, 0, 3, 2}[s%6]
		n := 2 + g.rng.Intn(4)
		clean := s%4 != 0
		objs := mkObjs(cmpid, n, clean)
		objs = append(objs, g.obj(objs[g.rng.Intn(n)].desc, g.ranges(cmpid, g.rng.Intn(3), true)))
		if g.rng.Bool() {
			objs = append(objs, g.obj("foreign", g.ranges(cmpid, 1, true)))
		}
		tag := fmt.Sprintf("objtarget;cmp=%d;n=%d", cmpid, n)
		id := seqInts(n)
		rev := make([]int, n)
		for i := range rev {
			rev[i] = n - 1 - i
		}
		objTarget(cmpid, objs, id, tag)
		objTarget(cmpid, objs, rev, tag+";reversed")
		objTarget(cmpid, objs, g.shuffle(n), tag+";shuffled")
		// one object listed twice, somewhere
		sl := g.shuffle(n)
		pos := g.rng.Intn(n + 1)
		dup := sl[g.rng.Intn(n)]
		sl = append(sl[:pos], append([]int{dup}, sl[pos:]...)...)
		objTarget(cmpid, objs, sl, tag+";dup")
	}
	for s := 0; s < nlogs; s++ {
		cmpid := s % 4
		n := 2 + g.rng.Intn(3)
		objs := mkObjs(cmpid, n, s%3 != 0)
		sl := g.shuffle(n)
		if s%5 == 0 {
			sl = append(sl, sl[0])
		}
		objLog(cmpid, objs, sl, allVersions, fmt.Sprintf("objlog;cmp=%d;n=%d", cmpid, len(sl)))
	}
	// scripts: interleaved SetCapability / Has / SetCapabilities (several targets, several comparers) / appended ranges
	for s := 0; s < nscripts; s++ {
		vkind := []int{0, 0, 1, 2, 4, 0, 1, 3}[s%8]
		cmpid := []int{0, 2, 0, 3, 1}[s%5]
		n := 2 + g.rng.Intn(3)
		objs := mkObjs(cmpid, n, s%4 != 0)
		v := g.okStr(cmpid)
		if s%11 == 0 {
			v = g.anyStr()
		}
		if vkind == 3 {
			v = 0
		}
		k := 4 + g.rng.Intn(10)
		var ops []op
		for i := 0; i < k; i++ {
			o := op{obj: g.rng.Intn(n)}
			switch r := g.rng.Intn(20); {
			case r < 4:
				o.k, o.b = 0, g.rng.Bool()
			case r < 9:
				o.k = 1
			case r < 13:
				o.k = 2
				o.cmpid = cmpid
				if g.rng.Intn(5) == 0 {
					o.cmpid = g.rng.Intn(4)
				}
				m := 1 + g.rng.Intn(n+1)
				for j := 0; j < m; j++ {
					o.slots = append(o.slots, g.rng.Intn(n))
				}
			case r < 14:
				o.k = 3
			case r < 16:
				o.k = 4
			case r < 17:
				o.k, o.b = 5, g.rng.Bool()
			default:
				o.k = 6
				x := g.cleanRange(cmpid)
				if g.rng.Intn(6) == 0 {
					x = g.dirtyRange(cmpid)
				}
				o.lo, o.hi = x[0], x[1]
			}
			ops = append(ops, o)
			if o.k != 1 && o.k != 4 && g.rng.Bool() { // look at every object after a change
				for j := 0; j < n; j++ {
					ops = append(ops, op{k: 1, obj: j})
				}
			}
		}
		for j := 0; j < n; j++ {
			ops = append(ops, op{k: 1 + 3*(j%2), obj: j})
		}
		script(vkind, v, objs, ops, fmt.Sprintf("script;vkind=%d", vkind))
	}
	for s := 0; s < nstrings; s++ {
		cmpid := s % 4
		rs := g.ranges(cmpid, g.rng.Intn(5), s%2 == 0)
		strcase(g.obj(descPool[g.rng.Intn(len(descPool))], rs), "strings;random")
	}
}
