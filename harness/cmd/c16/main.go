// c16: drives asetypes.Decimal (NewDecimal, NewDecimalString, SetString, String, Int, Cmp) with generated
// (precision, scale, value) triples and numeral texts and records what the implementation answers, for
// comparison with the Coq model (coq/theories/C16/Model.v) and the executable specification (Spec.v).
//
//	fn 1  String:            (p s i)        -> (2) | (text text' i' rt)
//	fn 2  NewDecimalString:  (p s text)     -> (2) | (0 i text-of-result)
//	fn 3  NewDecimal:        (p s)          -> (0) | (2)
//	fn 4  SetString on i0:   (p s i0 text)  -> (2) | (e i')
//
// A panic is recorded as (-1).
package main

import (
	"flag"
	"fmt"
	"math/big"
	"strings"

	"github.com/SAP/go-dblib/asetypes"
	"verifharness/sx"
)

var (
	out      *sx.Out
	rng      *sx.Rng
	thorough bool
	pow10    [64]*big.Int
)

func bigT(v *big.Int) sx.T { return sx.Big{V: new(big.Int).Set(v)} }

// mkDec builds a decimal holding the unscaled value v through the public API only.
func mkDec(p, s int, v *big.Int) (*asetypes.Decimal, error) {
	d, err := asetypes.NewDecimal(p, s)
	if err != nil {
		return nil, err
	}
	d.SetBytes(new(big.Int).Abs(v).Bytes())
	if v.Sign() < 0 {
		d.Negate()
	}
	return d, nil
}

func guard(fn int, in sx.T, tag string, f func() sx.T) {
	var res sx.T
	func() {
		defer func() {
			if r := recover(); r != nil {
				res = sx.L{sx.I(-1)}
			}
		}()
		res = f()
	}()
	out.Case(fn, in, res, tag)
}

func runFn1(p, s int, v *big.Int, tag string) {
	in := sx.L{sx.I(int64(p)), sx.I(int64(s)), bigT(v)}
	guard(1, in, tag, func() sx.T {
		d, err := mkDec(p, s, v)
		if err != nil {
			return sx.L{sx.I(2)}
		}
		t1 := d.String()
		t2 := d.String()
		after := d.Int()
		rt := false
		if orig, err := mkDec(p, s, v); err == nil {
			if d2, err := asetypes.NewDecimalString(p, s, t1); err == nil {
				rt = orig.Cmp(*d2) && d2.Cmp(*orig)
			}
		}
		return sx.L{sx.Text(t1), sx.Text(t2), bigT(after), sx.Bool(rt)}
	})
}

func runFn2(p, s int, text, tag string) {
	in := sx.L{sx.I(int64(p)), sx.I(int64(s)), sx.Text(text)}
	guard(2, in, tag, func() sx.T {
		d, err := asetypes.NewDecimalString(p, s, text)
		if err != nil {
			return sx.L{sx.I(2)}
		}
		return sx.L{sx.I(0), bigT(d.Int()), sx.Text(d.String())}
	})
}

func runFn3(p, s int, tag string) {
	in := sx.L{sx.I(int64(p)), sx.I(int64(s))}
	guard(3, in, tag, func() sx.T {
		d, err := asetypes.NewDecimal(p, s)
		if err != nil {
			return sx.L{sx.I(2)}
		}
		if d == nil || d.Precision != p || d.Scale != s || d.Int().Sign() != 0 {
			return sx.L{sx.I(3)} // a decimal that is not the requested empty one
		}
		return sx.L{sx.I(0)}
	})
}

func runFn4(p, s int, v0 *big.Int, text, tag string) {
	in := sx.L{sx.I(int64(p)), sx.I(int64(s)), bigT(v0), sx.Text(text)}
	guard(4, in, tag, func() sx.T {
		d, err := mkDec(p, s, v0)
		if err != nil {
			return sx.L{sx.I(2)}
		}
		if err := d.SetString(text); err != nil {
			return sx.L{sx.I(2), bigT(d.Int())}
		}
		return sx.L{sx.I(0), bigT(d.Int())}
	})
}

// ---------------------------------------------------------------- generators

func randDigits(n int, firstNonZero, lastNonZero bool) string {
	b := make([]byte, n)
	for i := range b {
		b[i] = byte('0' + rng.Intn(10))
	}
	if n > 0 && firstNonZero {
		b[0] = byte('1' + rng.Intn(9))
	}
	if n > 0 && lastNonZero && b[n-1] == '0' {
		b[n-1] = byte('1' + rng.Intn(9))
	}
	return string(b)
}

// random integer with exactly n decimal digits (n >= 1), random sign
func randInt(n int) *big.Int {
	v, _ := new(big.Int).SetString(randDigits(n, true, false), 10)
	if rng.Bool() {
		v.Neg(v)
	}
	return v
}

var spaces = []string{" ", "\t", "\n", "\r", "\v", "\f", "\u0085", "\u00a0", "\u1680", "\u2000", "\u2003", "\u200a", "\u2028", "\u2029", "\u202f", "\u205f", "\u3000", "  ", " \t "}
var nonSpaces = []string{"\u200b", "\u180e", "\ufeff", "\u001f", "\u0000", "\u2060", "\u001c", "\u2007x"}
var junk = []string{"a", "e", "E", "x", "_", ",", "'", "/", ":", "\u0661", "\uff11", "e5", "0x", "--", "+-", "-", "+", " ", "\u00bd", "\u2212", "\U0001d7ce", "%", "f"}

func pick(l []string) string { return l[rng.Intn(len(l))] }

func signStr() string {
	switch rng.Intn(4) {
	case 0:
		return "-"
	case 1:
		return "+"
	}
	return ""
}

// numeral with li integer and lf fraction digits
func numeral(li, lf int, point bool) string {
	t := randDigits(li, true, false)
	if point || lf > 0 {
		t += "." + randDigits(lf, false, true)
	}
	return t
}

func insertAt(t, x string, pos int) string {
	r := []rune(t)
	if pos > len(r) {
		pos = len(r)
	}
	return string(r[:pos]) + x + string(r[pos:])
}

// one random text for (p, s), with its class tag
func genText(p, s int) (string, string) {
	ip := p - s
	switch rng.Intn(14) {
	case 0: // canonical, representable
		li := 1
		if ip > 0 {
			li = rng.Range(1, ip)
		}
		lf := rng.Range(0, s)
		t := numeral(li, lf, rng.Bool())
		if ip == 0 {
			t = "0" + t[1:]
		}
		return signStr() + t, "parse-canon"
	case 1: // leading zeros and trailing zeros
		li := rng.Range(0, ip)
		lf := rng.Range(0, s)
		t := strings.Repeat("0", rng.Range(1, 4)) + randDigits(li, false, false) + "." + randDigits(lf, false, false) + strings.Repeat("0", rng.Range(0, 4))
		return signStr() + t, "parse-zeros"
	case 2: // missing integer part / fraction digits
		lf := rng.Range(0, s+1)
		switch rng.Intn(4) {
		case 0:
			return signStr() + "." + randDigits(lf, false, false), "parse-sloppy"
		case 1:
			return signStr() + randDigits(rng.Range(0, ip+1), false, false) + ".", "parse-sloppy"
		case 2:
			return signStr() + "." + strings.Repeat("0", rng.Range(0, 3)), "parse-sloppy"
		}
		return signStr() + pick([]string{"", ".", "..", "0", "00", "0.", ".0", "0.0"}), "parse-sloppy"
	case 3: // spaces around, sometimes inside
		t := signStr() + numeral(rng.Range(1, ip+1), rng.Range(0, s), rng.Bool())
		switch rng.Intn(5) {
		case 0:
			return pick(spaces) + t, "parse-space"
		case 1:
			return t + pick(spaces), "parse-space"
		case 2:
			return pick(spaces) + pick(spaces) + t + pick(spaces), "parse-space"
		case 3:
			return insertAt(t, pick(spaces), rng.Range(1, len(t))), "parse-space"
		}
		return pick(nonSpaces) + t + pick([]string{"", " ", "\u200b"}), "parse-space"
	case 4: // several points
		t := numeral(rng.Range(0, ip+1), rng.Range(0, s+1), true)
		n := rng.Range(1, 2)
		for i := 0; i < n; i++ {
			t = insertAt(t, ".", rng.Range(0, len(t)))
		}
		return signStr() + t, "parse-points"
	case 5: // junk inserted into a numeral
		t := signStr() + numeral(rng.Range(0, ip+1), rng.Range(0, s), rng.Bool())
		return insertAt(t, pick(junk), rng.Range(0, len(t))), "parse-junk"
	case 6: // sign or junk in the fraction
		f := randDigits(rng.Range(0, s), false, false)
		f = insertAt(f, pick([]string{"-", "+", "-", "+", "x", "e1", " "}), rng.Range(0, len(f)))
		return pick([]string{"", "", "-", "+", "0", "1", "-1"}) + "." + f + strings.Repeat("0", rng.Intn(3)), "parse-signfrac"
	case 7: // too many integer digits / digits
		li := ip + rng.Range(1, 2)
		lf := rng.Range(0, s)
		return signStr() + numeral(li, lf, rng.Bool()), "parse-toolong"
	case 8: // too many fraction digits
		li := rng.Range(0, ip)
		lf := s + rng.Range(1, 2)
		return signStr() + randDigits(li, true, false) + "." + randDigits(lf, false, true), "parse-toofrac"
	case 9: // too many fraction digits that are only zeros: representable
		li := rng.Range(1, ip+1)
		lf := rng.Range(0, s)
		return signStr() + numeral(li, lf, true) + strings.Repeat("0", rng.Range(1, 5)), "parse-zeros"
	case 10: // random strings over a small alphabet
		n := rng.Range(0, p+2)
		const alpha = "0123456789012345678901234567890123456789..+- e"
		b := make([]byte, n)
		for i := range b {
			b[i] = alpha[rng.Intn(len(alpha))]
		}
		return string(b), "parse-random"
	case 11: // random digit strings of length 0..p+2 with or without sign and point
		n := rng.Range(0, p+2)
		t := randDigits(n, false, false)
		if rng.Bool() {
			t = insertAt(t, ".", rng.Range(0, n))
		}
		return signStr() + t, "parse-digits"
	case 12: // sign in odd places
		t := numeral(rng.Range(1, ip+1), rng.Range(0, s), rng.Bool())
		switch rng.Intn(4) {
		case 0:
			return pick([]string{"--", "++", "+-", "-+", "- ", "+ "}) + t, "parse-sign"
		case 1:
			return t + pick([]string{"-", "+"}), "parse-sign"
		case 2:
			return insertAt(t, pick([]string{"-", "+"}), rng.Range(1, len(t))), "parse-sign"
		}
		return pick([]string{"-", "+", "-.", "+.", "-+.", ".-", ".+"}), "parse-sign"
	}
	// exactly at the limits
	li, lf := ip, s
	t := strings.Repeat("9", li) + "." + strings.Repeat("9", lf)
	switch rng.Intn(3) {
	case 0:
		t = "1" + strings.Repeat("0", li) + "." + strings.Repeat("0", lf)
	case 1:
		t = strings.Repeat("9", li) + "." + strings.Repeat("9", lf) + "9"
	}
	return signStr() + t, "parse-limit"
}

func fixedTexts(p, s int) [][2]string {
	ip := p - s
	nines := func(n int) string { return strings.Repeat("9", n) }
	zeros := func(n int) string { return strings.Repeat("0", n) }
	l := [][2]string{
		{"", "parse-sloppy"}, {".", "parse-sloppy"}, {"-", "parse-sign"}, {"+", "parse-sign"}, {"0", "parse-canon"}, {"-0", "parse-canon"},
		{"0.0", "parse-canon"}, {"-0.0", "parse-canon"}, {"+0.0", "parse-canon"}, {" 0.0 ", "parse-space"}, {".0", "parse-sloppy"}, {"0.", "parse-sloppy"},
		{"1.2.3", "parse-points"}, {"1..2", "parse-points"}, {".-5", "parse-signfrac"}, {".+5", "parse-signfrac"}, {"1.-5", "parse-signfrac"},
		{"0.5x", "parse-signfrac"}, {".-" + nines(s), "parse-signfrac"}, {".+" + zeros(s) + "1", "parse-signfrac"},
		{nines(ip) + "." + nines(s), "parse-limit"}, {"-" + nines(ip) + "." + nines(s), "parse-limit"},
		{"1" + zeros(ip) + "." + zeros(s), "parse-limit"}, {"-1" + zeros(ip), "parse-limit"},
		{nines(ip) + "." + nines(s) + "1", "parse-limit"}, {"0." + zeros(s) + "1", "parse-toofrac"}, {"0." + zeros(s) + "0", "parse-zeros"},
		{zeros(3) + nines(ip) + "." + nines(s) + zeros(3), "parse-zeros"}, {"1e2", "parse-junk"}, {"0x1", "parse-junk"}, {"1_0", "parse-junk"},
		{"\uff11", "parse-junk"}, {"1 2", "parse-space"}, {"- 1", "parse-space"}, {"\u00a01\u2003", "parse-space"}, {" 1 ", "parse-space"}, {"\u200b1", "parse-space"},
	}
	if ip > 0 {
		l = append(l, [2]string{"1" + zeros(ip-1), "parse-limit"}, [2]string{"1" + zeros(ip-1) + ".", "parse-limit"})
	}
	if s > 0 {
		l = append(l, [2]string{"0." + zeros(s-1) + "1", "parse-limit"}, [2]string{"-." + zeros(s-1) + "1", "parse-sloppy"})
	}
	return l
}

func main() {
	outPath := flag.String("out", "", "case file")
	tier := flag.String("tier", "quick", "quick|thorough")
	flag.Parse()
	if *outPath == "" {
		fmt.Println("usage: c16 -out file [-tier quick|thorough]")
		return
	}
	thorough = *tier == "thorough"
	rng = sx.NewRng(sx.EnvSeed())
	out = sx.NewOut(*outPath)
	defer out.Close()
	for k := range pow10 {
		pow10[k] = new(big.Int).Exp(big.NewInt(10), big.NewInt(int64(k)), nil)
	}
	one := big.NewInt(1)

	type ps struct{ p, s int }
	var pairs []ps
	pairs = append(pairs, ps{0, 0})
	for p := 1; p <= 38; p++ {
		for s := 0; s <= p; s++ {
			pairs = append(pairs, ps{p, s})
		}
	}

	// ---- fn 1: String on boundary values, exhaustively over all (p, s)
	var someTexts []struct {
		ps
		t string
	}
	for _, q := range pairs {
		p, s := q.p, q.s
		seen := map[string]bool{}
		emit := func(v *big.Int, tag string) {
			if seen[v.String()] {
				return
			}
			seen[v.String()] = true
			runFn1(p, s, v, fmt.Sprintf("%s;p=%d;s=%d", tag, p, s))
		}
		both := func(v *big.Int, tag string) {
			emit(v, tag)
			emit(new(big.Int).Neg(v), tag)
		}
		emit(big.NewInt(0), "str-boundary")
		both(one, "str-boundary")
		for k := 0; k <= p; k++ {
			if k < p {
				both(pow10[k], "str-boundary")
				if thorough || k <= 1 || k == p-1 || k == p-s {
					both(new(big.Int).Add(pow10[k], one), "str-boundary")
				}
			}
			both(new(big.Int).Sub(pow10[k], one), "str-boundary")
		}
		// values with more digits than the precision: outside the property, model equality only
		both(pow10[p], "str-overlong")
		both(new(big.Int).Add(pow10[p], big.NewInt(7)), "str-overlong")
		both(new(big.Int).Sub(pow10[p+2], one), "str-overlong")
	}
	// ---- fn 1: random values of every digit length
	reps := 1
	if thorough {
		reps = 12
	}
	for _, q := range pairs {
		for n := 1; n <= q.p; n++ {
			for r := 0; r < reps; r++ {
				v := randInt(n)
				runFn1(q.p, q.s, v, fmt.Sprintf("str-random;p=%d;s=%d;n=%d", q.p, q.s, n))
				if r == 0 && (n == q.p || n == q.s || n == q.s+1 || rng.Intn(6) == 0) {
					if d, err := mkDec(q.p, q.s, v); err == nil {
						someTexts = append(someTexts, struct {
							ps
							t string
						}{q, d.String()})
					}
				}
				// digits that end / start in zeros around the split point
				if q.s > 0 && n > 1 && (thorough || rng.Bool()) {
					z := rng.Range(1, n-1)
					w := new(big.Int).Mul(randInt(n-z), pow10[z])
					runFn1(q.p, q.s, w, fmt.Sprintf("str-zeros;p=%d;s=%d;n=%d", q.p, q.s, n))
				}
			}
		}
		if rng.Intn(4) == 0 {
			runFn1(q.p, q.s, randInt(q.p+rng.Range(1, 3)), fmt.Sprintf("str-overlong;p=%d;s=%d", q.p, q.s))
		}
	}
	// invalid (p, s): NewDecimal fails
	for _, q := range []ps{{-1, 0}, {39, 0}, {5, 6}, {5, -1}, {39, 39}, {0, 1}} {
		runFn1(q.p, q.s, big.NewInt(5), "str-invalid")
		runFn2(q.p, q.s, "0", "parse-invalid-ps")
		runFn2(q.p, q.s, "1.5", "parse-invalid-ps")
		runFn4(q.p, q.s, big.NewInt(5), "0", "set-invalid-ps")
	}

	// ---- fn 2 / fn 4: texts printed by String, fixed lists, generated classes
	for _, x := range someTexts {
		runFn2(x.p, x.s, x.t, "parse-string")
	}
	nrand := 40
	if thorough {
		nrand = 600
	}
	for _, q := range pairs {
		p, s := q.p, q.s
		for _, ft := range fixedTexts(p, s) {
			runFn2(p, s, ft[0], ft[1])
			if rng.Intn(3) == 0 {
				runFn4(p, s, randInt(rng.Range(1, p+1)), ft[0], "set-"+ft[1])
			}
		}
		for r := 0; r < nrand; r++ {
			t, tag := genText(p, s)
			runFn2(p, s, t, tag)
			if rng.Intn(4) == 0 {
				var v0 *big.Int
				if p == 0 {
					v0 = big.NewInt(0)
				} else {
					v0 = randInt(rng.Range(1, p))
				}
				runFn4(p, s, v0, t, "set-"+tag)
			}
		}
	}

	// ---- fn 3: every (p, s) in -2..40 squared, and a few far away
	for p := -2; p <= 40; p++ {
		for s := -2; s <= 40; s++ {
			runFn3(p, s, "sanity")
		}
	}
	for _, q := range []ps{{1 << 31, 0}, {-(1 << 31), 0}, {38, -(1 << 40)}, {1 << 40, 1 << 40}, {100, 50}, {38, 1 << 33}} {
		runFn3(q.p, q.s, "sanity-far")
	}
}
