// c16: drives asetypes.Decimal (NewDecimal, NewDecimalString, SetString, String, Int, Cmp) with generated
// (precision, scale, value) triples and numeral texts and records what the implementation answers, for
// comparison with the Coq model (coq/theories/C16/Model.v) and the executable specification (Spec.v).
//
//	fn 1  String:            (p s i)        -> (2) | (text text' i' rt)
//	fn 2  NewDecimalString:  (p s text)     -> (2) | (0 i text-of-result)
//	fn 3  NewDecimal:        (p s)          -> (0) | (2)
//	fn 4  SetString on i0:   (p s i0 text)  -> (2) | (e i')
//	fn 5  history on ONE decimal: (kind p s (op ...)) -> (2) | (0 (record ...))
//	      kind 0 = NewDecimal(p, s), 1 = &Decimal{Precision: p, Scale: s} (no integer yet)
//	      op: (0) String  (1 text) SetString  (2 n) SetInt64  (3 bytes) SetBytes  (4) Negate
//	          (5 p) Precision = p  (6 s) Scale = s  (7 p s) both  (8) read accessors
//	      record: (answer Precision Scale integer|() text rt) taken after EVERY operation; text is printed by a
//	      copy of the struct, so that looking does not count as a String call on the object itself
//
// A panic is recorded as (-1) (fn 1-4) resp. -1 (an answer or text in fn 5).
package main

import (
	"encoding/binary"
	"flag"
	"fmt"
	"math/big"
	"strings"

	"github.com/SAP/go-dblib/asetypes"
	"verifharness/sx"
)

var (
	out      *sx.Out
	rng      *sx.Rng
	thorough bool
	pow10    [64]*big.Int
)

func bigT(v *big.Int) sx.T { return sx.Big{V: new(big.Int).Set(v)} }

// mkDec builds a decimal holding the unscaled value v through the public API only.
func mkDec(p, s int, v *big.Int) (*asetypes.Decimal, error) {
	d, err := asetypes.NewDecimal(p, s)
	if err != nil {
		return nil, err
	}
	d.SetBytes(new(big.Int).Abs(v).Bytes())
	if v.Sign() < 0 {
		d.Negate()
	}
	return d, nil
}

func guard(fn int, in sx.T, tag string, f func() sx.T) {
	var res sx.T
	func() {
		defer func() {
			if r := recover(); r != nil {
				res = sx.L{sx.I(-1)}
			}
		}()
		res = f()
	}()
	out.Case(fn, in, res, tag)
}

func runFn1(p, s int, v *big.Int, tag string) {
	in := sx.L{sx.I(int64(p)), sx.I(int64(s)), bigT(v)}
	guard(1, in, tag, func() sx.T {
		d, err := mkDec(p, s, v)
		if err != nil {
			return sx.L{sx.I(2)}
		}
		t1 := d.String()
		t2 := d.String()
		after := d.Int()
		rt := false
		if orig, err := mkDec(p, s, v); err == nil {
			if d2, err := asetypes.NewDecimalString(p, s, t1); err == nil {
				rt = orig.Cmp(*d2) && d2.Cmp(*orig)
			}
		}
		return sx.L{sx.Text(t1), sx.Text(t2), bigT(after), sx.Bool(rt)}
	})
}

// fn 6: the same as fn 1 for the decimal as it comes back from the wire (asetypes/bytes.go, asetypes/goValue.go: DECN /
// NUMN; precision and scale are set by the receiver, as tds field data does)
func runFn6(p, s int, v *big.Int, tag string) {
	in := sx.L{sx.I(int64(p)), sx.I(int64(s)), bigT(v)}
	guard(6, in, tag, func() sx.T {
		d0, err := mkDec(p, s, v)
		if err != nil {
			return sx.L{sx.I(2)}
		}
		typ := asetypes.DECN
		if rng.Bool() {
			typ = asetypes.NUMN
		}
		bs, err := typ.Bytes(binary.BigEndian, d0, int64(d0.ByteSize()))
		if err != nil {
			return sx.L{sx.I(3)}
		}
		gv, err := typ.GoValue(binary.BigEndian, bs)
		if err != nil {
			return sx.L{sx.I(3)}
		}
		d, ok := gv.(*asetypes.Decimal)
		if !ok {
			return sx.L{sx.I(3)}
		}
		d.Precision, d.Scale = p, s
		t1 := d.String()
		t2 := d.String()
		after := d.Int()
		rt := false
		if d2, err := asetypes.NewDecimalString(p, s, t1); err == nil {
			rt = d0.Cmp(*d2) && d2.Cmp(*d0)
		}
		return sx.L{sx.Text(t1), sx.Text(t2), bigT(after), sx.Bool(rt)}
	})
}

func runFn2(p, s int, text, tag string) {
	in := sx.L{sx.I(int64(p)), sx.I(int64(s)), sx.Text(text)}
	guard(2, in, tag, func() sx.T {
		d, err := asetypes.NewDecimalString(p, s, text)
		if err != nil {
			return sx.L{sx.I(2)}
		}
		return sx.L{sx.I(0), bigT(d.Int()), sx.Text(d.String())}
	})
}

func runFn3(p, s int, tag string) {
	in := sx.L{sx.I(int64(p)), sx.I(int64(s))}
	guard(3, in, tag, func() sx.T {
		d, err := asetypes.NewDecimal(p, s)
		if err != nil {
			return sx.L{sx.I(2)}
		}
		if d == nil || d.Precision != p || d.Scale != s || d.Int().Sign() != 0 {
			return sx.L{sx.I(3)} // a decimal that is not the requested empty one
		}
		return sx.L{sx.I(0)}
	})
}

func runFn4(p, s int, v0 *big.Int, text, tag string) {
	in := sx.L{sx.I(int64(p)), sx.I(int64(s)), bigT(v0), sx.Text(text)}
	guard(4, in, tag, func() sx.T {
		d, err := mkDec(p, s, v0)
		if err != nil {
			return sx.L{sx.I(2)}
		}
		if err := d.SetString(text); err != nil {
			return sx.L{sx.I(2), bigT(d.Int())}
		}
		return sx.L{sx.I(0), bigT(d.Int())}
	})
}

// ---------------------------------------------------------------- histories (fn 5)

type hop struct {
	code int
	text string
	n    int64
	b    []byte
	p, s int
}

func (o hop) tree() sx.T {
	c := sx.I(int64(o.code))
	switch o.code {
	case 1:
		return sx.L{c, sx.Text(o.text)}
	case 2:
		return sx.L{c, sx.I(o.n)}
	case 3:
		return sx.L{c, sx.B(o.b)}
	case 5:
		return sx.L{c, sx.I(int64(o.p))}
	case 6:
		return sx.L{c, sx.I(int64(o.s))}
	case 7:
		return sx.L{c, sx.I(int64(o.p)), sx.I(int64(o.s))}
	}
	return sx.L{c}
}

func (o hop) name() string {
	return [...]string{"String", "SetString", "SetInt64", "SetBytes", "Negate", "Precision", "Scale", "PrecScale", "Read"}[o.code]
}

// safe runs f; a panic is the observable -1
func safe(f func() sx.T) (res sx.T) {
	defer func() {
		if r := recover(); r != nil {
			res = sx.I(-1)
		}
	}()
	return f()
}

// fresh builds, through the public API, another decimal in the state (p, s, v) -- also for (p, s) that
// NewDecimal would refuse, which the object under test can reach through assignments
func fresh(p, s int, v *big.Int) *asetypes.Decimal {
	f, _ := asetypes.NewDecimal(0, 0)
	f.Precision, f.Scale = p, s
	f.SetBytes(new(big.Int).Abs(v).Bytes())
	if v.Sign() < 0 {
		f.Negate()
	}
	return f
}

func applyOp(d *asetypes.Decimal, o hop) sx.T {
	return safe(func() sx.T {
		switch o.code {
		case 0:
			return sx.Text(d.String())
		case 1:
			if err := d.SetString(o.text); err != nil {
				return sx.I(2)
			}
		case 2:
			d.SetInt64(o.n)
		case 3:
			d.SetBytes(o.b)
		case 4:
			d.Negate()
		case 5:
			d.Precision = o.p
		case 6:
			d.Scale = o.s
		case 7:
			d.Precision, d.Scale = o.p, o.s
		case 8:
			neg := d.IsNegative()
			iv := d.Int()
			ab := new(big.Int).SetBytes(d.Bytes())
			bs := d.ByteSize()
			f := fresh(d.Precision, d.Scale, iv)
			return sx.L{sx.Bool(neg), bigT(iv), bigT(ab), sx.I(int64(bs)), sx.Bool(d.Cmp(*f) && f.Cmp(*d))}
		}
		return sx.I(0)
	})
}

// snapshot: the fields, the integer, the text a copy prints, and whether that text parses back to an equal decimal
func snapshot(d *asetypes.Decimal, answer sx.T) sx.T {
	p, s := d.Precision, d.Scale
	var vi sx.T = sx.L{}
	func() {
		defer func() { recover() }()
		vi = bigT(d.Int())
	}()
	var text string
	isText := false
	tt := safe(func() sx.T {
		c := *d
		text = c.String()
		isText = true
		return sx.Text(text)
	})
	rt := false
	if isText {
		func() {
			defer func() { recover() }()
			if d2, err := asetypes.NewDecimalString(p, s, text); err == nil {
				rt = d2.Cmp(*d) && d.Cmp(*d2)
			}
		}()
	}
	return sx.L{answer, sx.I(int64(p)), sx.I(int64(s)), vi, tt, sx.Bool(rt)}
}

// runHist creates one decimal and applies n operations to it; next chooses the k-th operation looking at the object
func runHist(kind, p0, s0, n int, next func(k int, d *asetypes.Decimal) hop, tag string) {
	var d *asetypes.Decimal
	if kind == 0 {
		var err error
		if d, err = asetypes.NewDecimal(p0, s0); err != nil {
			d = nil
		}
	} else {
		d = &asetypes.Decimal{Precision: p0, Scale: s0}
	}
	ops := sx.L{}
	recs := sx.L{}
	names := ""
	for k := 0; k < n; k++ {
		o := next(k, d)
		ops = append(ops, o.tree())
		if k > 0 {
			names += ","
		}
		names += o.name()
		if d != nil {
			recs = append(recs, snapshot(d, applyOp(d, o)))
		}
	}
	in := sx.L{sx.I(int64(kind)), sx.I(int64(p0)), sx.I(int64(s0)), ops}
	var res sx.T = sx.L{sx.I(2)}
	if d != nil {
		res = sx.L{sx.I(0), recs}
	}
	out.Case(5, in, res, fmt.Sprintf("%s;len=%d;%s", tag, n, names))
}

func fixedHist(kind, p0, s0 int, ops []hop, tag string) {
	runHist(kind, p0, s0, len(ops), func(k int, _ *asetypes.Decimal) hop { return ops[k] }, tag)
}

// all words of length n over the alphabet
func words(alpha []hop, n int, f func([]hop)) {
	w := make([]hop, n)
	var rec func(k int)
	rec = func(k int) {
		if k == n {
			f(w)
			return
		}
		for _, a := range alpha {
			w[k] = a
			rec(k + 1)
		}
	}
	rec(0)
}

// a random operation for the object as it is now: values and texts mostly fit the CURRENT precision and scale
func randOp(d *asetypes.Decimal) hop {
	p, s := d.Precision, d.Scale
	okps := 0 <= s && s <= p && p <= 38
	switch rng.Intn(16) {
	case 0, 1, 2:
		return hop{code: 0}
	case 3, 4:
		if okps {
			t, _ := genText(p, s)
			if rng.Bool() { // a text that is accepted most of the time
				li := 1
				if p-s > 0 {
					li = rng.Range(1, p-s)
				}
				t = signStr() + numeral(li, rng.Range(0, s), rng.Bool())
				if p-s == 0 {
					t = "0" + t[1:]
				}
			}
			return hop{code: 1, text: t}
		}
		return hop{code: 1, text: pick([]string{"0", "1", "-1.5", "12.25", "x", ""})}
	case 5, 6:
		n := 18
		if p < n && rng.Intn(8) > 0 {
			n = p
		}
		if n < 1 {
			return hop{code: 2, n: int64(rng.Intn(2))}
		}
		v := randInt(rng.Range(1, n)).Int64()
		switch rng.Intn(12) {
		case 0:
			v = 0
		case 1:
			v = -1 << 63
		case 2:
			v = 1<<63 - 1
		}
		return hop{code: 2, n: v}
	case 7, 8:
		n := p
		if rng.Intn(8) == 0 {
			n = p + rng.Range(1, 3)
		}
		if n < 1 || rng.Intn(12) == 0 {
			return hop{code: 3, b: pick2([][]byte{{}, {0}, {0, 0, 1}, {255}})}
		}
		b := new(big.Int).Abs(randInt(rng.Range(1, n))).Bytes()
		if rng.Intn(6) == 0 {
			b = append([]byte{0}, b...)
		}
		return hop{code: 3, b: b}
	case 9:
		return hop{code: 4}
	case 10:
		return hop{code: 8}
	case 11: // precision, mostly still valid
		if rng.Intn(6) == 0 {
			return hop{code: 5, p: rng.Range(0, 41)}
		}
		lo := s
		if lo < 0 {
			lo = 0
		}
		if lo > 38 {
			lo = 38
		}
		return hop{code: 5, p: rng.Range(lo, 38)}
	case 12, 13: // scale, mostly still valid
		if rng.Intn(6) == 0 {
			return hop{code: 6, s: rng.Range(-1, 40)}
		}
		hi := p
		if hi > 38 {
			hi = 38
		}
		return hop{code: 6, s: rng.Range(0, hi)}
	}
	np := rng.Range(0, 38)
	if rng.Intn(8) == 0 {
		return hop{code: 7, p: rng.Range(0, 41), s: rng.Range(-1, 40)}
	}
	return hop{code: 7, p: np, s: rng.Range(0, np)}
}

func pick2(l [][]byte) []byte { return l[rng.Intn(len(l))] }

func histories(pairs [][2]int) {
	// ---- exhaustive: every word of length 2, 3 (4 for the first start; 4 for all in the thorough tier) over an alphabet
	// of nine operations, from several starting points.  Assigned precision/scale differ from the starting ones.
	type start struct{ kind, p, s, p1, s1, p2, s2 int }
	starts := []start{
		{0, 18, 0, 10, 2, 7, 3},    // the default NUMN/DECN decimal of asetypes/goValue.go, then "User must set precision and scale"
		{0, 5, 2, 9, 4, 6, 0},      //
		{0, 38, 19, 37, 1, 38, 38}, //
		{0, 0, 0, 5, 0, 5, 2},      // NewDecimal(0, 0) as in GoValue for DECN/NUMN of length 0
		{1, 18, 0, 10, 2, 7, 3},    // a struct literal: no integer until SetString
		{0, 6, 3, 6, 7, 2, 4},      // assignments that leave the valid range (scale > precision): String panics
	}
	for si, st := range starts {
		alpha := []hop{
			{code: 0}, {code: 1, text: "12.5"}, {code: 2, n: 12345}, {code: 3, b: []byte{0x01, 0xe2, 0x40}}, {code: 4},
			{code: 5, p: st.p1}, {code: 6, s: st.s1}, {code: 7, p: st.p2, s: st.s2}, {code: 8},
		}
		maxn := 3
		if si == 0 || thorough {
			maxn = 4
		}
		for n := 2; n <= maxn; n++ {
			words(alpha, n, func(w []hop) { fixedHist(st.kind, st.p, st.s, append([]hop(nil), w...), "hist-exhaustive") })
		}
	}
	// ---- the call sites: format, then fix precision/scale (goValue.go "User must set precision and scale", tds/field.go)
	for _, q := range pairs {
		p, s := q[0], q[1]
		if p == 0 {
			continue
		}
		v := randInt(rng.Range(1, p))
		setv := hop{code: 3, b: new(big.Int).Abs(v).Bytes()}
		for _, k := range []int{0, 1} {
			if k == 1 && !thorough && rng.Intn(4) > 0 {
				continue
			}
			fixedHist(0, 18, 0, []hop{setv, {code: k * 8}, {code: 7, p: p, s: s}, {code: 0}}, "hist-callsite")
			fixedHist(0, 38, 0, []hop{setv, {code: k * 8}, {code: 6, s: s}, {code: 5, p: p}, {code: 0}, {code: 4}}, "hist-callsite")
		}
	}
	// ---- random histories of length 2..6 from every (precision, scale)
	reps := 2
	if thorough {
		reps = 40
	}
	for _, q := range pairs {
		for r := 0; r < reps; r++ {
			kind := 0
			if rng.Intn(10) == 0 {
				kind = 1
			}
			runHist(kind, q[0], q[1], rng.Range(2, 6), func(_ int, d *asetypes.Decimal) hop { return randOp(d) }, "hist-random")
		}
	}
	// construction fails: no history
	for _, q := range [][2]int{{-1, 0}, {39, 0}, {5, 6}, {5, -1}} {
		fixedHist(0, q[0], q[1], []hop{{code: 0}, {code: 2, n: 1}}, "hist-invalid")
	}
}

// ---------------------------------------------------------------- generators

func randDigits(n int, firstNonZero, lastNonZero bool) string {
	b := make([]byte, n)
	for i := range b {
		b[i] = byte('0' + rng.Intn(10))
	}
	if n > 0 && firstNonZero {
		b[0] = byte('1' + rng.Intn(9))
	}
	if n > 0 && lastNonZero && b[n-1] == '0' {
		b[n-1] = byte('1' + rng.Intn(9))
	}
	return string(b)
}

// random integer with exactly n decimal digits (n >= 1), random sign
func randInt(n int) *big.Int {
	v, _ := new(big.Int).SetString(randDigits(n, true, false), 10)
	if rng.Bool() {
		v.Neg(v)
	}
	return v
}

var spaces = []string{" ", "\t", "\n", "\r", "\v", "\f", "\u0085", "\u00a0", "\u1680", "\u2000", "\u2003", "\u200a", "\u2028", "\u2029", "\u202f", "\u205f", "\u3000", "  ", " \t "}
var nonSpaces = []string{"\u200b", "\u180e", "\ufeff", "\u001f", "\u0000", "\u2060", "\u001c", "\u2007x"}
var junk = []string{"a", "e", "E", "x", "_", ",", "'", "/", ":", "\u0661", "\uff11", "e5", "0x", "--", "+-", "-", "+", " ", "\u00bd", "\u2212", "\U0001d7ce", "%", "f"}

func pick(l []string) string { return l[rng.Intn(len(l))] }

func signStr() string {
	switch rng.Intn(4) {
	case 0:
		return "-"
	case 1:
		return "+"
	}
	return ""
}

// numeral with li integer and lf fraction digits
func numeral(li, lf int, point bool) string {
	t := randDigits(li, true, false)
	if point || lf > 0 {
		t += "." + randDigits(lf, false, true)
	}
	return t
}

func insertAt(t, x string, pos int) string {
	r := []rune(t)
	if pos > len(r) {
		pos = len(r)
	}
	return string(r[:pos]) + x + string(r[pos:])
}

// one random text for (p, s), with its class tag
func genText(p, s int) (string, string) {
	ip := p - s
	switch rng.Intn(14) {
	case 0: // canonical, representable
		li := 1
		if ip > 0 {
			li = rng.Range(1, ip)
		}
		lf := rng.Range(0, s)
		t := numeral(li, lf, rng.Bool())
		if ip == 0 {
			t = "0" + t[1:]
		}
		return signStr() + t, "parse-canon"
	case 1: // leading zeros and trailing zeros
		li := rng.Range(0, ip)
		lf := rng.Range(0, s)
		t := strings.Repeat("0", rng.Range(1, 4)) + randDigits(li, false, false) + "." + randDigits(lf, false, false) + strings.Repeat("0", rng.Range(0, 4))
		return signStr() + t, "parse-zeros"
	case 2: // missing integer part / fraction digits
		lf := rng.Range(0, s+1)
		switch rng.Intn(4) {
		case 0:
			return signStr() + "." + randDigits(lf, false, false), "parse-sloppy"
		case 1:
			return signStr() + randDigits(rng.Range(0, ip+1), false, false) + ".", "parse-sloppy"
		case 2:
			return signStr() + "." + strings.Repeat("0", rng.Range(0, 3)), "parse-sloppy"
		}
		return signStr() + pick([]string{"", ".", "..", "0", "00", "0.", ".0", "0.0"}), "parse-sloppy"
	case 3: // spaces around, sometimes inside
		t := signStr() + numeral(rng.Range(1, ip+1), rng.Range(0, s), rng.Bool())
		switch rng.Intn(5) {
		case 0:
			return pick(spaces) + t, "parse-space"
		case 1:
			return t + pick(spaces), "parse-space"
		case 2:
			return pick(spaces) + pick(spaces) + t + pick(spaces), "parse-space"
		case 3:
			return insertAt(t, pick(spaces), rng.Range(1, len(t))), "parse-space"
		}
		return pick(nonSpaces) + t + pick([]string{"", " ", "\u200b"}), "parse-space"
	case 4: // several points
		t := numeral(rng.Range(0, ip+1), rng.Range(0, s+1), true)
		n := rng.Range(1, 2)
		for i := 0; i < n; i++ {
			t = insertAt(t, ".", rng.Range(0, len(t)))
		}
		return signStr() + t, "parse-points"
	case 5: // junk inserted into a numeral
		t := signStr() + numeral(rng.Range(0, ip+1), rng.Range(0, s), rng.Bool())
		return insertAt(t, pick(junk), rng.Range(0, len(t))), "parse-junk"
	case 6: // sign or junk in the fraction
		f := randDigits(rng.Range(0, s), false, false)
		f = insertAt(f, pick([]string{"-", "+", "-", "+", "x", "e1", " "}), rng.Range(0, len(f)))
		return pick([]string{"", "", "-", "+", "0", "1", "-1"}) + "." + f + strings.Repeat("0", rng.Intn(3)), "parse-signfrac"
	case 7: // too many integer digits / digits
		li := ip + rng.Range(1, 2)
		lf := rng.Range(0, s)
		return signStr() + numeral(li, lf, rng.Bool()), "parse-toolong"
	case 8: // too many fraction digits
		li := rng.Range(0, ip)
		lf := s + rng.Range(1, 2)
		return signStr() + randDigits(li, true, false) + "." + randDigits(lf, false, true), "parse-toofrac"
	case 9: // too many fraction digits that are only zeros: representable
		li := rng.Range(1, ip+1)
		lf := rng.Range(0, s)
		return signStr() + numeral(li, lf, true) + strings.Repeat("0", rng.Range(1, 5)), "parse-zeros"
	case 10: // random strings over a small alphabet
		n := rng.Range(0, p+2)
		const alpha = "0123456789012345678901234567890123456789..+- e"
		b := make([]byte, n)
		for i := range b {
			b[i] = alpha[rng.Intn(len(alpha))]
		}
		return string(b), "parse-random"
	case 11: // random digit strings of length 0..p+2 with or without sign and point
		n := rng.Range(0, p+2)
		t := randDigits(n, false, false)
		if rng.Bool() {
			t = insertAt(t, ".", rng.Range(0, n))
		}
		return signStr() + t, "parse-digits"
	case 12: // sign in odd places
		t := numeral(rng.Range(1, ip+1), rng.Range(0, s), rng.Bool())
		switch rng.Intn(4) {
		case 0:
			return pick([]string{"--", "++", "+-", "-+", "- ", "+ "}) + t, "parse-sign"
		case 1:
			return t + pick([]string{"-", "+"}), "parse-sign"
		case 2:
			return insertAt(t, pick([]string{"-", "+"}), rng.Range(1, len(t))), "parse-sign"
		}
		return pick([]string{"-", "+", "-.", "+.", "-+.", ".-", ".+"}), "parse-sign"
	}
	// exactly at the limits
	li, lf := ip, s
	t := strings.Repeat("9", li) + "." + strings.Repeat("9", lf)
	switch rng.Intn(3) {
	case 0:
		t = "1" + strings.Repeat("0", li) + "." + strings.Repeat("0", lf)
	case 1:
		t = strings.Repeat("9", li) + "." + strings.Repeat("9", lf) + "9"
	}
	return signStr() + t, "parse-limit"
}

func fixedTexts(p, s int) [][2]string {
	ip := p - s
	nines := func(n int) string { return strings.Repeat("9", n) }
	zeros := func(n int) string { return strings.Repeat("0", n) }
	l := [][2]string{
		{"", "parse-sloppy"}, {".", "parse-sloppy"}, {"-", "parse-sign"}, {"+", "parse-sign"}, {"0", "parse-canon"}, {"-0", "parse-canon"},
		{"0.0", "parse-canon"}, {"-0.0", "parse-canon"}, {"+0.0", "parse-canon"}, {" 0.0 ", "parse-space"}, {".0", "parse-sloppy"}, {"0.", "parse-sloppy"},
		{"1.2.3", "parse-points"}, {"1..2", "parse-points"}, {".-5", "parse-signfrac"}, {".+5", "parse-signfrac"}, {"1.-5", "parse-signfrac"},
		{"0.5x", "parse-signfrac"}, {".-" + nines(s), "parse-signfrac"}, {".+" + zeros(s) + "1", "parse-signfrac"},
		{nines(ip) + "." + nines(s), "parse-limit"}, {"-" + nines(ip) + "." + nines(s), "parse-limit"},
		{"1" + zeros(ip) + "." + zeros(s), "parse-limit"}, {"-1" + zeros(ip), "parse-limit"},
		{nines(ip) + "." + nines(s) + "1", "parse-limit"}, {"0." + zeros(s) + "1", "parse-toofrac"}, {"0." + zeros(s) + "0", "parse-zeros"},
		{zeros(3) + nines(ip) + "." + nines(s) + zeros(3), "parse-zeros"}, {"1e2", "parse-junk"}, {"0x1", "parse-junk"}, {"1_0", "parse-junk"},
		{"\uff11", "parse-junk"}, {"1 2", "parse-space"}, {"- 1", "parse-space"}, {"\u00a01\u2003", "parse-space"}, {" 1 ", "parse-space"}, {"\u200b1", "parse-space"},
	}
	if ip > 0 {
		l = append(l, [2]string{"1" + zeros(ip-1), "parse-limit"}, [2]string{"1" + zeros(ip-1) + ".", "parse-limit"})
	}
	if s > 0 {
		l = append(l, [2]string{"0." + zeros(s-1) + "1", "parse-limit"}, [2]string{"-." + zeros(s-1) + "1", "parse-sloppy"})
	}
	return l
}

func main() {
	outPath := flag.String("out", "", "case file")
	tier := flag.String("tier", "quick", "quick|thorough")
	flag.Parse()
	if *outPath == "" {
		fmt.Println("usage: c16 -out file [-tier quick|thorough]")
		return
	}
	thorough = *tier == "thorough"
	rng = sx.NewRng(sx.EnvSeed())
	out = sx.NewOut(*outPath)
	defer out.Close()
	for k := range pow10 {
		pow10[k] = new(big.Int).Exp(big.NewInt(10), big.NewInt(int64(k)), nil)
	}
	one := big.NewInt(1)

	type ps struct{ p, s int }
	var pairs []ps
	pairs = append(pairs, ps{0, 0})
	for p := 1; p <= 38; p++ {
		for s := 0; s <= p; s++ {
			pairs = append(pairs, ps{p, s})
		}
	}

	// ---- fn 1: String on boundary values, exhaustively over all (p, s)
	var someTexts []struct {
		ps
		t string
	}
	for _, q := range pairs {
		p, s := q.p, q.s
		seen := map[string]bool{}
		emit := func(v *big.Int, tag string) {
			if seen[v.String()] {
				return
			}
			seen[v.String()] = true
			runFn1(p, s, v, fmt.Sprintf("%s;p=%d;s=%d", tag, p, s))
		}
		both := func(v *big.Int, tag string) {
			emit(v, tag)
			emit(new(big.Int).Neg(v), tag)
		}
		emit(big.NewInt(0), "str-boundary")
		both(one, "str-boundary")
		for k := 0; k <= p; k++ {
			if k < p {
				both(pow10[k], "str-boundary")
				if thorough || k <= 1 || k == p-1 || k == p-s {
					both(new(big.Int).Add(pow10[k], one), "str-boundary")
				}
			}
			both(new(big.Int).Sub(pow10[k], one), "str-boundary")
		}
		// values with more digits than the precision: outside the property, model equality only
		both(pow10[p], "str-overlong")
		both(new(big.Int).Add(pow10[p], big.NewInt(7)), "str-overlong")
		both(new(big.Int).Sub(pow10[p+2], one), "str-overlong")
	}
	// ---- fn 6: through the wire form and back: machine-word boundaries of the magnitude, powers of ten, random values
	for _, q := range pairs {
		if q.p < 1 || !(thorough || q.s == 0 || q.s == q.p || q.p >= 18 && q.s%5 == 0 || rng.Intn(10) == 0) {
			continue
		}
		var vs []*big.Int
		for _, sh := range []uint{7, 8, 15, 16, 31, 32, 63, 64, 127} {
			b := new(big.Int).Lsh(one, sh)
			vs = append(vs, new(big.Int).Sub(b, one), b, new(big.Int).Add(b, one))
		}
		vs = append(vs, big.NewInt(0), one, new(big.Int).Sub(pow10[q.p], one), pow10[q.p-1], randInt(q.p), randInt(rng.Range(1, q.p)))
		if q.p >= 20 {
			vs = append(vs, new(big.Int).Sub(pow10[19], one), pow10[19])
		}
		for _, v := range vs {
			if v.Cmp(pow10[q.p]) >= 0 {
				continue
			}
			runFn6(q.p, q.s, v, fmt.Sprintf("wire-value;p=%d;s=%d", q.p, q.s))
			runFn6(q.p, q.s, new(big.Int).Neg(v), fmt.Sprintf("wire-value;p=%d;s=%d", q.p, q.s))
		}
	}
	// ---- fn 1: random values of every digit length
	reps := 1
	if thorough {
		reps = 12
	}
	for _, q := range pairs {
		for n := 1; n <= q.p; n++ {
			for r := 0; r < reps; r++ {
				v := randInt(n)
				runFn1(q.p, q.s, v, fmt.Sprintf("str-random;p=%d;s=%d;n=%d", q.p, q.s, n))
				if r == 0 && (n == q.p || n == q.s || n == q.s+1 || rng.Intn(6) == 0) {
					if d, err := mkDec(q.p, q.s, v); err == nil {
						someTexts = append(someTexts, struct {
							ps
							t string
						}{q, d.String()})
					}
				}
				// digits that end / start in zeros around the split point
				if q.s > 0 && n > 1 && (thorough || rng.Bool()) {
					z := rng.Range(1, n-1)
					w := new(big.Int).Mul(randInt(n-z), pow10[z])
					runFn1(q.p, q.s, w, fmt.Sprintf("str-zeros;p=%d;s=%d;n=%d", q.p, q.s, n))
				}
			}
		}
		if rng.Intn(4) == 0 {
			runFn1(q.p, q.s, randInt(q.p+rng.Range(1, 3)), fmt.Sprintf("str-overlong;p=%d;s=%d", q.p, q.s))
		}
	}
	// invalid (p, s): NewDecimal fails
	for _, q := range []ps{{-1, 0}, {39, 0}, {5, 6}, {5, -1}, {39, 39}, {0, 1}} {
		runFn1(q.p, q.s, big.NewInt(5), "str-invalid")
		runFn2(q.p, q.s, "0", "parse-invalid-ps")
		runFn2(q.p, q.s, "1.5", "parse-invalid-ps")
		runFn4(q.p, q.s, big.NewInt(5), "0", "set-invalid-ps")
	}

	// ---- fn 2 / fn 4: texts printed by String, fixed lists, generated classes
	for _, x := range someTexts {
		runFn2(x.p, x.s, x.t, "parse-string")
	}
	nrand := 40
	if thorough {
		nrand = 600
	}
	for _, q := range pairs {
		p, s := q.p, q.s
		for _, ft := range fixedTexts(p, s) {
			runFn2(p, s, ft[0], ft[1])
			if rng.Intn(3) == 0 {
				runFn4(p, s, randInt(rng.Range(1, p+1)), ft[0], "set-"+ft[1])
			}
		}
		for r := 0; r < nrand; r++ {
			t, tag := genText(p, s)
			runFn2(p, s, t, tag)
			if rng.Intn(4) == 0 {
				var v0 *big.Int
				if p == 0 {
					v0 = big.NewInt(0)
				} else {
					v0 = randInt(rng.Range(1, p))
				}
				runFn4(p, s, v0, t, "set-"+tag)
			}
		}
	}

	// ---- fn 5: histories on one object
	var hp [][2]int
	for _, q := range pairs {
		hp = append(hp, [2]int{q.p, q.s})
	}
	histories(hp)

	// ---- fn 3: every (p, s) in -2..40 squared, and a few far away
	for p := -2; p <= 40; p++ {
		for s := -2; s <= 40; s++ {
			runFn3(p, s, "sanity")
		}
	}
	for _, q := range []ps{{1 << 31, 0}, {-(1 << 31), 0}, {38, -(1 << 40)}, {1 << 40, 1 << 40}, {100, 50}, {38, 1 << 33}} {
		runFn3(q.p, q.s, "sanity-far")
	}
}
