package main

import (
	"fmt"

	"github.com/SAP/go-dblib/asetypes"
)

func main() {
	for _, c := range []struct {
		p, s int
		t    string
	}{{5, 2, ".-5"}, {5, 2, ".+5"}, {5, 2, "-.5"}, {5, 2, "5."}, {5, 2, "."}, {5, 2, ""}, {5, 2, "-0"}, {5, 2, " 1.5 "}, {5, 2, "1_0"}, {5, 2, "0x10"}, {5, 2, ".-50"}, {5, 1, ".-5"},
		{0, 0, "0"}, {0, 0, "0.0"}, {0, 0, "1"}, {5, 2, "1e2"}, {5, 2, "１"}, {5,2,"000000001.500000"}, {5,2,"1000.00"}, {5,2,"1000.0"},{5,2,"-999.99"}, {5,5,".-1234"}} {
		d, err := asetypes.NewDecimalString(c.p, c.s, c.t)
		if err != nil {
			fmt.Printf("%d %d %q -> err %v\n", c.p, c.s, c.t, err)
			continue
		}
		fmt.Printf("%d %d %q -> %s  %s   again %s\n", c.p, c.s, c.t, d.Int().String(), d.String(), d.String())
	}
	d, _ := asetypes.NewDecimal(2, 1)
	d.SetInt64(-1234)
	fmt.Println(d.String())
	d, _ = asetypes.NewDecimal(0, 0)
	d.SetInt64(0)
	fmt.Printf("%q\n", d.String())
	d.SetInt64(7)
	fmt.Printf("%q\n", d.String())
}
