package b2

import (
	"fmt"

	"github.com/SAP/go-dblib/tds"
	"verifharness/pk"
	"verifharness/sx"
)

// The cursor packages that start with  length u16 | cursor id i32 | [name length u8 | name] iff id == 0.
const (
	cOpen = iota
	cClose
	cFetch
	cDelete
	cUpdate
	cInfo
	cInfo3
)

var curTok = map[int]int{cOpen: 0x84, cClose: 0x80, cFetch: 0x82, cDelete: 0x81, cUpdate: 0x85, cInfo: 0x83, cInfo3: 0x88}
var curName = map[int]string{cOpen: "curopen", cClose: "curclose", cFetch: "curfetch", cDelete: "curdelete", cUpdate: "curupdate", cInfo: "curinfo", cInfo3: "curinfo3"}

// curF: the fields of any of these packages. a = status (open, delete, update) / options (close) /
// fetch type (fetch) / command (info).
type curF struct {
	kind                        int
	id                          int32
	name                        string
	a                           uint
	table, stmt                 string
	status                      uint // info only
	rownum, totalrows, rowcount int32
}

func ui(v uint) sx.T { return sx.U64(uint64(v)) }

func (f curF) tree() sx.T {
	t := sx.L{sx.I(int64(f.id)), pk.S(f.name), ui(f.a)}
	switch f.kind {
	case cFetch:
		t = append(t, sx.I(int64(f.rownum)))
	case cDelete:
		t = append(t, pk.S(f.table))
	case cUpdate:
		t = append(t, pk.S(f.table), pk.S(f.stmt))
	case cInfo, cInfo3:
		t = append(t, ui(f.status), sx.I(int64(f.rownum)), sx.I(int64(f.totalrows)), sx.I(int64(f.rowcount)))
	}
	return t
}

func (f curF) build() tds.Package {
	switch f.kind {
	case cOpen:
		return &tds.CurOpenPackage{CursorID: f.id, Name: f.name, Status: tds.CursorOStatus(f.a)}
	case cClose:
		return &tds.CurClosePackage{CursorID: f.id, Name: f.name, Options: tds.CursorCloseOption(f.a)}
	case cFetch:
		return &tds.CurFetchPackage{CursorID: f.id, Name: f.name, Type: tds.CursorFetchType(f.a), RowNumber: f.rownum}
	case cDelete:
		return &tds.CurDeletePackage{CursorID: f.id, Name: f.name, Status: tds.CursorDeleteStatus(f.a), TableName: f.table}
	case cUpdate:
		return &tds.CurUpdatePackage{CursorID: f.id, Name: f.name, Status: tds.CursorOStatus(f.a), TableName: f.table, Stmt: f.stmt}
	default:
		p := &tds.CurInfoPackage{CursorID: f.id, Name: f.name, Command: tds.CursorCommand(f.a), Status: tds.CursorIStatus(f.status),
			RowNum: f.rownum, TotalRows: f.totalrows, RowCount: f.rowcount}
		tds.VerifSetWide(p, f.kind == cInfo3)
		return p
	}
}

func curRender(kind int) func(tds.Package) sx.T {
	return func(p tds.Package) sx.T {
		f := curF{kind: kind}
		switch v := p.(type) {
		case *tds.CurOpenPackage:
			f.id, f.name, f.a = v.CursorID, v.Name, uint(v.Status)
		case *tds.CurClosePackage:
			f.id, f.name, f.a = v.CursorID, v.Name, uint(v.Options)
		case *tds.CurFetchPackage:
			f.id, f.name, f.a, f.rownum = v.CursorID, v.Name, uint(v.Type), v.RowNumber
		case *tds.CurDeletePackage:
			f.id, f.name, f.a, f.table = v.CursorID, v.Name, uint(v.Status), v.TableName
		case *tds.CurUpdatePackage:
			f.id, f.name, f.a, f.table, f.stmt = v.CursorID, v.Name, uint(v.Status), v.TableName, v.Stmt
		case *tds.CurInfoPackage:
			f.id, f.name, f.a, f.status = v.CursorID, v.Name, uint(v.Command), uint(v.Status)
			f.rownum, f.totalrows, f.rowcount = v.RowNum, v.TotalRows, v.RowCount
		default:
			return sx.L{sx.I(-999)}
		}
		return f.tree()
	}
}

// refPayload: the bytes after the length field, from the TDS 5.0 layout.
func (f curF) refPayload() []byte {
	b := i32le(f.id)
	if f.id == 0 {
		b = pk.Cat(b, pk.LP8([]byte(f.name)))
	}
	switch f.kind {
	case cOpen, cClose:
		b = append(b, byte(f.a))
	case cFetch:
		b = append(b, byte(f.a))
		if f.a == 5 || f.a == 6 { // TDS_CUR_ABS, TDS_CUR_REL carry a row number
			b = pk.Cat(b, i32le(f.rownum))
		}
	case cDelete:
		b = pk.Cat(b, []byte{byte(f.a)}, pk.LP8([]byte(f.table)))
	case cUpdate:
		b = pk.Cat(b, []byte{byte(f.a)}, pk.LP8([]byte(f.table)))
		if len(f.stmt) > 0 {
			b = pk.Cat(b, pk.LP16([]byte(f.stmt)))
		}
	case cInfo:
		b = pk.Cat(b, []byte{byte(f.a)}, pk.LE16(int(f.status)))
		if f.status&0x20 != 0 {
			b = pk.Cat(b, i32le(f.rowcount))
		}
	case cInfo3:
		b = pk.Cat(b, []byte{byte(f.a)}, pk.LE32(int64(f.status)), i32le(f.rownum), i32le(f.totalrows))
		if f.status&0x20 != 0 {
			b = pk.Cat(b, i32le(f.rowcount))
		}
	}
	return b
}

func (f curF) refEnc() []byte {
	p := f.refPayload()
	return pk.Cat([]byte{byte(curTok[f.kind])}, pk.LE16(len(p)), p)
}

// refDec: reference decoder; true iff bs is exactly one package of this kind carrying the fields f.
func (f curF) refDec(bs []byte) bool {
	r := &rd{b: bs}
	if r.u8() != curTok[f.kind] {
		return false
	}
	n := r.u16()
	if r.bad || len(bs)-r.pos != n {
		return false
	}
	g := curF{kind: f.kind}
	g.id = r.i32()
	if g.id == 0 {
		g.name = r.str(r.u8())
	}
	g.a = uint(r.u8())
	switch f.kind {
	case cFetch:
		if g.a == 5 || g.a == 6 {
			g.rownum = r.i32()
		}
	case cDelete:
		g.table = r.str(r.u8())
	case cUpdate:
		g.table = r.str(r.u8())
		if !r.bad && r.pos < len(bs) {
			g.stmt = r.str(r.u16())
		}
	case cInfo:
		g.status = uint(r.u16())
	case cInfo3:
		g.status = uint(r.u32())
		g.rownum = r.i32()
		g.totalrows = r.i32()
	}
	if (f.kind == cInfo || f.kind == cInfo3) && g.status&0x20 != 0 {
		g.rowcount = r.i32()
	}
	return r.done() && g == f
}

// wf mirrors the model's well-formedness predicate.
func (f curF) wf() bool {
	if len(f.name) > 255 || (f.id != 0 && f.name != "") || f.a > 255 || len(f.table) > 255 {
		return false
	}
	switch f.kind {
	case cFetch:
		if f.a != 5 && f.a != 6 && f.rownum != 0 {
			return false
		}
	case cInfo:
		if f.status > 0xFFFF || f.rownum != 0 || f.totalrows != 0 {
			return false
		}
	case cInfo3:
		if f.status > 0xFFFFFFFF {
			return false
		}
	}
	if (f.kind == cInfo || f.kind == cInfo3) && f.status&0x20 == 0 && f.rowcount != 0 {
		return false
	}
	return len(f.refPayload()) < 65536
}

func (f curF) detail() string {
	return fmt.Sprintf("id%d;name%d;a%d;table%d;stmt%d;st%x", f.id, len(f.name), f.a, len(f.table), len(f.stmt), f.status)
}

func curKind(kind int) *kindDef {
	k := &kindDef{name: curName[kind], tok: curTok[kind], render: curRender(kind)}
	switch kind {
	case cClose:
		// not reachable from LookupPackage: the package value is constructed directly
		k.mk = func() tds.Package { return &tds.CurClosePackage{} }
	default:
		k.mk = lookup(k.tok)
	}
	return k
}

func curCase(g *pk.Gen, k *kindDef, f curF) []byte {
	return k.roundCase(g, f.tree(), f.build(), f.wf(), f.refDec, f.refEnc(), "", f.detail())
}

func genCursor(kind int) func(g *pk.Gen) {
	return func(g *pk.Gen) {
		k := curKind(kind)
		ids := []int32{0, 1, -1, 2147483647, -2147483648, int32(uint32(g.Rng.U64()) | 1)}
		var as []uint
		switch kind {
		case cFetch:
			as = []uint{1, 2, 3, 4, 5, 6, 0, 7, 255}
		case cInfo, cInfo3:
			as = []uint{1, 2, 3, 4, 0, 255}
		default:
			as = []uint{0, 1, 2, 255}
		}
		statuses := []uint{0}
		if kind == cInfo {
			statuses = []uint{0, 0x20, 0x21, 0xFFDF, 0xFFFF, 0x1, 0x2, 0x2020}
		}
		if kind == cInfo3 {
			statuses = []uint{0, 0x20, 0x21, 0xFFDF, 0xFFFF, 0xFFFFFFDF, 0xFFFFFFFF, 0x80000020, 0x10000}
		}
		var mutBodies [][]byte
		n := 0
		// boundary enumeration of everything that changes the shape
		for _, id := range ids {
			nameSizes := lp8Sizes
			if id != 0 {
				nameSizes = []int{0}
			}
			for _, ns := range nameSizes {
				for ai, a := range as {
					for si, st := range statuses {
						f := curF{kind: kind, id: id, name: str(g, ns), a: a, status: st}
						switch kind {
						case cFetch:
							if a == 5 || a == 6 {
								f.rownum = i32At(g, n)
							}
						case cDelete, cUpdate:
							f.table = str(g, lp8Sizes[(ai+n)%4])
							if kind == cUpdate {
								f.stmt = str(g, []int{0, 1, 2, 300, 0, 17}[(n/2)%6])
							}
						case cInfo3:
							f.rownum, f.totalrows = i32At(g, n), i32At(g, n+3)
						}
						if st&0x20 != 0 {
							f.rowcount = i32At(g, n+si)
						}
						n++
						bs := curCase(g, k, f)
						if bs != nil && len(bs) < 48 && len(mutBodies) < 14 && n%3 == 0 {
							mutBodies = append(mutBodies, bs[1:])
						}
					}
				}
			}
		}
		// statement sizes of CURUPDATE around the limits of its 2-byte length fields
		if kind == cUpdate {
			limIds, limSizes := []int32{7}, []int{65535 - 7, 65535 - 6}
			if g.Thorough {
				limIds, limSizes = []int32{0, 7}, []int{65535 - 7, 65535 - 8, 65535 - 6, 65535, 65534, 40000}
			}
			for _, id := range limIds {
				for _, sl := range limSizes {
					f := curF{kind: kind, id: id, a: 1, table: "t", stmt: str(g, sl)}
					curCase(g, k, f)
				}
			}
		}
		// random well-formed
		rnd := 150
		if g.Thorough {
			rnd = 3000
		}
		for i := 0; i < rnd; i++ {
			f := curF{kind: kind, a: as[g.Rng.Intn(len(as))], status: statuses[g.Rng.Intn(len(statuses))]}
			if g.Rng.Intn(3) > 0 {
				f.name = str(g, g.Rng.Range(0, 60))
			} else {
				f.id = int32(uint32(g.Rng.U64()))
			}
			if f.id != 0 {
				f.name = ""
			}
			switch kind {
			case cFetch:
				if f.a == 5 || f.a == 6 {
					f.rownum = int32(uint32(g.Rng.U64()))
				}
			case cDelete:
				f.table = str(g, g.Rng.Range(0, 60))
			case cUpdate:
				f.table = str(g, g.Rng.Range(0, 60))
				if g.Rng.Bool() {
					f.stmt = str(g, g.Rng.Range(0, 200))
				}
			case cInfo3:
				f.status = uint(uint32(g.Rng.U64()))
				f.rownum, f.totalrows = int32(uint32(g.Rng.U64())), int32(uint32(g.Rng.U64()))
			case cInfo:
				f.status = uint(uint16(g.Rng.U64()))
			}
			if f.status&0x20 != 0 {
				f.rowcount = int32(uint32(g.Rng.U64()))
			}
			curCase(g, k, f)
		}
		// outside the well-formedness predicate: truncating conversions of the writer
		nonwf := []curF{
			{kind: kind, id: 9, name: "ignored", a: 1},               // name given with an id: not written
			{kind: kind, id: 0, name: str(g, 256), a: 1},             // uint8(len(name)) wraps to 0
			{kind: kind, id: 0, name: str(g, 300), a: 1},             // wraps to 44
			{kind: kind, id: 0, name: "n", a: 256},                   // uint8(a) wraps
			{kind: kind, id: 0, name: "n", a: 256 + 5},               // CURFETCH: tested as 261, written as 5
			{kind: kind, id: 3, a: 1<<32 + 6},                        //
			{kind: kind, id: 0, name: "n", a: 1, table: str(g, 256)}, // only DELETE / UPDATE use it
			{kind: kind, id: 0, name: "n", a: 1, table: str(g, 511)},
		}
		switch kind {
		case cFetch:
			nonwf = append(nonwf, curF{kind: kind, id: 1, a: 1, rownum: 77}) // row number without ABS/REL: not written
		case cUpdate:
			nonwf = append(nonwf, curF{kind: kind, id: 1, a: 1, table: "t", stmt: str(g, 65536)}) // uint16 wraps: stmt length 0, total wraps
			if g.Thorough {
				nonwf = append(nonwf, curF{kind: kind, id: 1, a: 1, table: "t", stmt: str(g, 70000)})
			}
		case cInfo:
			nonwf = append(nonwf,
				curF{kind: kind, id: 1, a: 1, status: 0x10020, rowcount: 5},       // uint16(status)
				curF{kind: kind, id: 1, a: 1, status: 0x10000},                    //
				curF{kind: kind, id: 1, a: 1, status: 0, rownum: 4, totalrows: 5}, // not written when narrow
				curF{kind: kind, id: 1, a: 1, status: 0, rowcount: 5})             // not written without ROWCNT
		case cInfo3:
			nonwf = append(nonwf,
				curF{kind: kind, id: 1, a: 1, status: 1<<32 + 0x20, rowcount: 5},
				curF{kind: kind, id: 1, a: 1, status: 1 << 32},
				curF{kind: kind, id: 1, a: 1, status: 0, rowcount: 5})
		}
		for _, f := range nonwf {
			if f.table != "" && kind != cDelete && kind != cUpdate {
				continue
			}
			curCase(g, k, f)
		}
		// malformed
		for i, b := range mutBodies {
			k.mutations(g, b, fmt.Sprintf("m%d", i))
		}
		k.randomBodies(g, 200)
	}
}

func init() {
	for _, kind := range []int{cOpen, cClose, cFetch, cDelete, cUpdate, cInfo, cInfo3} {
		pk.Register(genCursor(kind))
	}
}
