package b2

import (
	"github.com/SAP/go-dblib/tds"
	"verifharness/pk"
	"verifharness/sx"
)

// renderers of delivered packages for the channel-level harness
func init() {
	pk.RegisterRenderer(func(p tds.Package) (int, sx.T, bool) {
		switch t := p.(type) {
		case *tds.DynamicPackage:
			w, _ := tds.VerifWide(t)
			if w {
				return int(tds.TDS_DYNAMIC2), dynRender(p), true
			}
			return int(tds.TDS_DYNAMIC), dynRender(p), true
		case *tds.CurDeclarePackage:
			w, _ := tds.VerifWide(t)
			if w {
				return int(tds.TDS_CURDECLARE3), cdRender(p), true
			}
			return int(tds.TDS_CURDECLARE), cdRender(p), true
		case *tds.CurOpenPackage:
			return curTok[cOpen], curRender(cOpen)(p), true
		case *tds.CurFetchPackage:
			return curTok[cFetch], curRender(cFetch)(p), true
		case *tds.CurDeletePackage:
			return curTok[cDelete], curRender(cDelete)(p), true
		case *tds.CurUpdatePackage:
			return curTok[cUpdate], curRender(cUpdate)(p), true
		case *tds.CurInfoPackage:
			w, _ := tds.VerifWide(t)
			if w {
				return curTok[cInfo3], curRender(cInfo3)(p), true
			}
			return curTok[cInfo], curRender(cInfo)(p), true
		}
		return 0, nil, false
	})
}
