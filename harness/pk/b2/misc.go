package b2

import (
	"bytes"
	"encoding/binary"
	"fmt"
	"math"

	"github.com/SAP/go-dblib/asetypes"
	"github.com/SAP/go-dblib/tds"
	"verifharness/pk"
	"verifharness/sx"
)

// ---------------------------------------------------------------- TDS_OPTIONCMD 0xA6
// length u16 | command u8 | option u8 | argument length u8 | argument
type ocF struct {
	cmd, opt uint
	arg      []byte
}

func (f ocF) tree() sx.T { return sx.L{ui(f.cmd), ui(f.opt), sx.B(f.arg)} }
func (f ocF) build() tds.Package {
	return &tds.OptionCmdPackage{Cmd: tds.OptionCmd(f.cmd), Option: tds.OptionCmdOption(f.opt), OptionArg: f.arg}
}
func ocRender(p tds.Package) sx.T {
	v := p.(*tds.OptionCmdPackage)
	return ocF{cmd: uint(v.Cmd), opt: uint(v.Option), arg: v.OptionArg}.tree()
}
func (f ocF) refEnc() []byte {
	p := pk.Cat([]byte{byte(f.cmd), byte(f.opt)}, pk.LP8(f.arg))
	return pk.Cat([]byte{0xA6}, pk.LE16(len(p)), p)
}
func (f ocF) refDec(bs []byte) bool {
	r := &rd{b: bs}
	if r.u8() != 0xA6 {
		return false
	}
	n := r.u16()
	if r.bad || len(bs)-r.pos != n {
		return false
	}
	cmd, opt := r.u8(), r.u8()
	arg := r.bytes(r.u8())
	return r.done() && uint(cmd) == f.cmd && uint(opt) == f.opt && bytes.Equal(arg, f.arg)
}
func (f ocF) wf() bool { return f.cmd < 256 && f.opt < 256 && len(f.arg) < 256 }

func genOptionCmd(g *pk.Gen) {
	k := &kindDef{name: "optioncmd", tok: 0xA6, mk: func() tds.Package { return &tds.OptionCmdPackage{} }, render: ocRender}
	emit := func(f ocF) []byte {
		return k.roundCase(g, f.tree(), f.build(), f.wf(), f.refDec, f.refEnc(), "", fmt.Sprintf("cmd%d;opt%d;arg%d", f.cmd, f.opt, len(f.arg)))
	}
	var mut [][]byte
	n := 0
	for _, cmd := range []uint{1, 2, 3, 4, 0, 255} {
		for _, opt := range []uint{0, 1, 8, 50, 104, 255} {
			for _, as := range []int{0, 1, 4, 254, 255} {
				bs := emit(ocF{cmd: cmd, opt: opt, arg: []byte(str(g, as))})
				n++
				if bs != nil && len(bs) < 16 && len(mut) < 10 && n%5 == 0 {
					mut = append(mut, bs[1:])
				}
			}
		}
	}
	emit(ocF{cmd: 1, opt: 2, arg: nil})
	rnd := 200
	if g.Thorough {
		rnd = 3000
	}
	for i := 0; i < rnd; i++ {
		emit(ocF{cmd: uint(g.Rng.Intn(256)), opt: uint(g.Rng.Intn(256)), arg: g.Rng.Bytes(g.Rng.Range(0, 40))})
	}
	for _, f := range []ocF{
		{cmd: 1, opt: 2, arg: []byte(str(g, 256))}, // uint8(len(arg)) wraps to 0
		{cmd: 1, opt: 2, arg: []byte(str(g, 300))}, // wraps to 44
		{cmd: 256, opt: 2, arg: []byte{1}},         // uint8(cmd)
		{cmd: 1, opt: 257, arg: []byte{1}},         // uint8(option)
	} {
		emit(f)
	}
	if g.Thorough {
		emit(ocF{cmd: 1, opt: 2, arg: []byte(str(g, 65533))}) // uint16(3 + len(arg)) wraps to 0
	}
	// the reader does not look at the length field: any value is accepted
	for _, l := range []int{0, 1, 2, 4, 5, 65535} {
		f := ocF{cmd: 1, opt: 2, arg: []byte{9}}
		b := pk.Cat(pk.LE16(l), f.refEnc()[3:])
		k.dec(g, b, f.tree(), fmt.Sprintf("optioncmd-mal;length-field-ignored;len%d", l))
	}
	for i, b := range mut {
		k.mutations(g, b, fmt.Sprintf("m%d", i))
	}
	k.randomBodies(g, 300)
}

// ---------------------------------------------------------------- TDS_CONTROL 0xAE
// The package type is a stub: reads nothing, writes nothing.
func genControl(g *pk.Gen) {
	k := &kindDef{name: "control", tok: 0xAE, mk: func() tds.Package { return &tds.ControlPackage{} },
		render: func(tds.Package) sx.T { return sx.L{} }}
	// class control-stub: what is written is not a TDS_CONTROL package (no token, no length): no reference verdict
	g.EncCase(k.tok, sx.L{}, &tds.ControlPackage{}, nil, "control-stub;enc")
	for _, b := range [][]byte{{}, {0}, {0, 0}, {4, 0, 1, 'a', 1, 'b'}, g.Rng.Bytes(20)} {
		k.dec(g, b, sx.L{}, "control-stub;dec")
		k.mal(g, b, "control-mal;any")
	}
	k.randomBodies(g, 50)
}

// ---------------------------------------------------------------- token-less catch-all
func tokenlessTokens() []int {
	var l []int
	for t := 0; t < 256; t++ {
		if t == 0x80 || t == 0xA6 || t == 0xCA || t == 0xAE {
			continue // modelled as the package types that exist for these tokens (not reachable from LookupPackage)
		}
		p, err := tds.LookupPackage(tds.Token(t))
		if err != nil {
			continue
		}
		if _, ok := p.(*tds.TokenlessPackage); ok {
			l = append(l, t)
		}
	}
	return l
}

func genTokenless(g *pk.Gen) {
	render := func(p tds.Package) sx.T { return sx.L{sx.B(p.(*tds.TokenlessPackage).Data.Bytes())} }
	for i, tok := range tokenlessTokens() {
		k := &kindDef{name: "tokenless", tok: tok, mk: lookup(tok), render: render}
		bodies := [][]byte{{}, {0}, g.Rng.Bytes(g.Rng.Range(2, 30))}
		if i%16 == 0 {
			bodies = append(bodies, g.Rng.Bytes(511), g.Rng.Bytes(512), g.Rng.Bytes(600), g.Rng.Bytes(2000))
		}
		for _, b := range bodies {
			// never parses: expected = ()
			k.dec(g, b, sx.L{}, fmt.Sprintf("tokenless;dec;len%d", len(b)))
			k.mal(g, b, "tokenless-mal;any")
		}
		// WriteTo writes Data as it is
		for _, d := range [][]byte{{}, {byte(tok)}, append([]byte{byte(tok)}, g.Rng.Bytes(g.Rng.Range(1, 20))...)} {
			p := tds.NewTokenlessPackage()
			p.Data.Write(d)
			g.EncCase(tok, sx.L{sx.B(d)}, p, nil, fmt.Sprintf("tokenless;enc;len%d", len(d)))
		}
	}
}

// ---------------------------------------------------------------- TDS_KEY 0xCA
// reader context: the data type. decode tree: (dt). encode fields: (dt has_value raw) with Value = GoValue(dt, raw).
func keyMk(dt int) func() tds.Package {
	return func() tds.Package { return &tds.KeyPackage{DataType: asetypes.DataType(dt)} }
}

func goValue(dt asetypes.DataType, raw []byte) (v interface{}, ok bool) {
	defer func() {
		if r := recover(); r != nil {
			ok = false
		}
	}()
	v, err := dt.GoValue(binary.LittleEndian, raw)
	return v, err == nil
}

// data types whose writer behaviour is not modelled (Decimal normalisation, UTF-16 re-encoding)
var keyUnmodelled = map[int]bool{0x6A: true, 0x6C: true, 0xAE: true}

// keyRender: (dt view bytes); view 0 = nil, 1 = plain Go value rendered as little-endian bytes, 2 = not rendered
// (*Decimal, time.Time, UNITEXT string).
func keyRender(p tds.Package) sx.T {
	kp := p.(*tds.KeyPackage)
	view, raw := int64(2), []byte{}
	le := func(v uint64, n int) []byte {
		b := make([]byte, 8)
		binary.LittleEndian.PutUint64(b, v)
		return b[:n]
	}
	switch v := kp.Value.(type) {
	case nil:
		view = 0
	case uint8:
		view, raw = 1, le(uint64(v), 1)
	case int16:
		view, raw = 1, le(uint64(v), 2)
	case int32:
		view, raw = 1, le(uint64(v), 4)
	case int64:
		view, raw = 1, le(uint64(v), 8)
	case uint16:
		view, raw = 1, le(uint64(v), 2)
	case uint32:
		view, raw = 1, le(uint64(v), 4)
	case uint64:
		view, raw = 1, le(v, 8)
	case float32:
		view, raw = 1, le(uint64(math.Float32bits(v)), 4)
	case float64:
		view, raw = 1, le(math.Float64bits(v), 8)
	case bool:
		view, raw = 1, []byte{0}
		if v {
			raw = []byte{1}
		}
	case []byte:
		view, raw = 1, v
	case string:
		if kp.DataType != asetypes.UNITEXT {
			view, raw = 1, []byte(v)
		}
	}
	return sx.L{sx.I(int64(kp.DataType)), sx.I(view), sx.B(raw)}
}

// keyExpect: the same view, from the TDS meaning of the data types (independent of the library):
// what a reader should make of the value bytes raw of a column of type dt.
func keyExpect(dt int, raw []byte) sx.T {
	t := asetypes.DataType(dt)
	view, out := int64(2), []byte{}
	switch t {
	case asetypes.INT1, asetypes.INT2, asetypes.INT4, asetypes.INT8, asetypes.UINT2, asetypes.UINT4, asetypes.UINT8,
		asetypes.FLT4, asetypes.FLT8:
		view, out = 1, raw
	case asetypes.BIT:
		view, out = 1, []byte{0}
		if len(raw) == 1 && raw[0] == 1 {
			out = []byte{1}
		}
	case asetypes.INTN, asetypes.UINTN, asetypes.FLTN, asetypes.CHAR, asetypes.VARCHAR, asetypes.TEXT, asetypes.LONGCHAR,
		asetypes.BINARY, asetypes.VARBINARY, asetypes.LONGBINARY, asetypes.IMAGE, asetypes.XML:
		view, out = 1, raw
		if len(raw) == 0 {
			view = 0 // NULL
		}
	case asetypes.DATEN, asetypes.TIMEN, asetypes.BIGTIMEN, asetypes.DATETIMEN, asetypes.BIGDATETIMEN, asetypes.UNITEXT:
		if len(raw) == 0 {
			view = 0 // NULL
		}
	}
	return sx.L{sx.I(int64(dt)), sx.I(view), sx.B(out)}
}

func genKey(g *pk.Gen) {
	k := &kindDef{name: "key", tok: 0xCA, render: keyRender}
	for dt := 0; dt < 256; dt++ {
		t := asetypes.DataType(dt)
		ctx := sx.L{sx.I(int64(dt))}
		mk := keyMk(dt)
		// --- reader
		var bodies [][]byte
		if sz := t.ByteSize(); sz > 0 {
			bodies = [][]byte{g.Rng.Bytes(sz), g.Rng.Bytes(sz + 3), make([]byte, sz)}
		} else {
			lens := []int{0, 1, 2, 3, 4, 5, 8, 9, 16, 255}
			if !g.Thorough && t.LengthBytes() == -1 {
				lens = []int{0, 1, 4} // data types the library does not know
			}
			for _, l := range lens {
				bodies = append(bodies, append([]byte{byte(l)}, g.Rng.Bytes(l)...))
			}
			bodies = append(bodies, append([]byte{8}, g.Rng.Bytes(3)...), append([]byte{2}, g.Rng.Bytes(7)...))
		}
		for _, b := range bodies {
			raw := b
			if t.ByteSize() > 0 {
				if len(raw) > t.ByteSize() {
					raw = raw[:t.ByteSize()]
				}
			} else {
				raw = raw[1:]
				if int(b[0]) < len(raw) {
					raw = raw[:b[0]]
				}
			}
			k.decCtx(g, b, ctx, mk, keyExpect(dt, raw), fmt.Sprintf("key;dec;dt%d;len%d", dt, len(b)))
			k.malCtx(g, b, ctx, mk, fmt.Sprintf("key-mal;dt%d", dt))
		}
		for i := 0; i < 4; i++ {
			k.malCtx(g, g.Rng.Bytes(g.Rng.Range(0, 12)), ctx, mk, fmt.Sprintf("key-mal;random;dt%d", dt))
		}
		// --- writer, Value == nil
		{
			fields := sx.L{sx.I(int64(dt)), sx.I(0), sx.B(nil)}
			pkg := &tds.KeyPackage{DataType: t, Value: nil}
			class := "key"
			if t.ByteSize() > 0 {
				class = "key-nonwf" // nothing is written for a fixed-length type, the reader expects ByteSize bytes
			}
			bs := g.EncCase(k.tok, fields, pkg, nil, class+fmt.Sprintf(";enc-nil;dt%d", dt))
			if len(bs) > 0 {
				k.decCtx(g, bs[1:], ctx, mk, keyExpect(dt, nil), class+fmt.Sprintf(";dec-impl-nil;dt%d", dt))
			}
		}
		// --- writer, Value = GoValue(dt, raw)
		if keyUnmodelled[dt] {
			continue
		}
		lens := []int{0, 1, 2, 4, 8, 3, 17, 255, 256, 300}
		if sz := t.ByteSize(); sz > 0 {
			lens = []int{sz}
		}
		for _, l := range lens {
			for rep := 0; rep < 2; rep++ {
				raw := g.Rng.Bytes(l)
				if dt == 0x32 && rep == 0 { // BIT
					raw = []byte{1}
				}
				if dt == 0x6E && l != 4 && l != 8 { // MONEYN: only the lengths the protocol knows
					continue
				}
				v, ok := goValue(t, raw)
				if !ok {
					continue
				}
				fields := sx.L{sx.I(int64(dt)), sx.I(1), sx.B(raw)}
				pkg := &tds.KeyPackage{DataType: t, Value: v}
				bs, err, panicked := pk.Written(pkg)
				want := []byte{0xCA}
				if t.ByteSize() == -1 {
					want = append(want, byte(l))
				}
				want = append(want, raw...)
				class := "key"
				switch {
				case panicked:
					class = "key-writer-panic"
				case err != nil:
					class = "key-writer-error"
				case l > 255:
					class = "key-nonwf"
				case !bytes.Equal(bs, want) && dt == 0x32:
					class = "key-nonwf" // BIT: any byte but 1 is false
				case !bytes.Equal(bs, want):
					class = "key-writer-wrong-bytes"
				}
				var ref func([]byte) bool
				if class == "key" {
					ref = func(b []byte) bool { return bytes.Equal(b, want) }
				}
				g.EncCase(k.tok, fields, pkg, ref, fmt.Sprintf("%s;enc;dt%d;len%d", class, dt, l))
				if err == nil && !panicked && len(bs) > 0 {
					k.decCtx(g, bs[1:], ctx, mk, keyExpect(dt, raw), fmt.Sprintf("%s;dec-impl;dt%d;len%d", class, dt, l))
				}
			}
		}
	}
}

func init() {
	pk.Register(genOptionCmd)
	pk.Register(genControl)
	pk.Register(genTokenless)
	pk.Register(genKey)
}
