// Package b2 registers the generators of the packages DYNAMIC(2), CURDECLARE(3), CURINFO(3), CUROPEN, CURFETCH,
// CURUPDATE, CURDELETE, CURCLOSE, OPTIONCMD, KEY, CONTROL and the token-less catch-all.
//
// Tag classes: "<pkg>" well-formed fields, "<pkg>-nonwf" fields outside the well-formedness predicate of the
// model (a length or integer does not fit its field, a name given together with a cursor id, ...),
// "<pkg>-mal" malformed / mutated / random bodies. Findings have their own classes (see the generators).
package b2

import (
	"bytes"
	"fmt"

	"github.com/SAP/go-dblib/tds"
	"verifharness/pk"
	"verifharness/sx"
)

// kindDef describes how a package kind is read by the implementation.
type kindDef struct {
	name   string
	tok    int
	mk     func() tds.Package // a fresh package value the way the library (or a user) creates it
	render func(tds.Package) sx.T
}

// lookup returns the constructor "what LookupPackage(tok) returns".
func lookup(tok int) func() tds.Package {
	return func() tds.Package {
		p, err := tds.LookupPackage(tds.Token(tok))
		if err != nil {
			panic(err)
		}
		if tl, ok := p.(*tds.TokenlessPackage); ok {
			// what the channel does before calling ReadFrom on a token-less package
			tl.Data.WriteByte(byte(tok))
		}
		return p
	}
}

// parse is pk.Parse with the package value supplied by the kind (needed for the package types that
// LookupPackage does not return).
func (k *kindDef) parse(body []byte, mk func() tds.Package) (res pk.Parsed) {
	defer func() {
		if r := recover(); r != nil {
			res = pk.Parsed{Class: -1}
		}
	}()
	pkg := mk()
	q := pk.NewQueue(body)
	err := pkg.ReadFrom(q)
	c := pk.Class(err)
	consumed := 0
	if c == 0 {
		datas, _, ip, id, _ := q.VerifState()
		for i, d := range datas {
			if i < ip {
				consumed += len(d)
			} else if i == ip {
				consumed += id
			}
		}
	}
	return pk.Parsed{Class: c, Consumed: consumed, Pkg: pkg}
}

const maxPrefixBody = 700 // fn 3 enumerates every proper prefix: only for bodies up to this size

func (k *kindDef) decCtx(g *pk.Gen, body []byte, ctx sx.T, mk func() tds.Package, expected sx.T, tag string) {
	if ctx == nil {
		ctx = sx.L{}
	}
	if g.Want[2] {
		p := k.parse(body, mk)
		var fields sx.T = sx.L{}
		if p.Class == 0 {
			fields = k.render(p.Pkg)
		}
		g.Out.Case(2, sx.L{sx.I(int64(k.tok)), sx.B(body), ctx, expected, pk.ClaimT(tag)}, sx.L{sx.I(p.Class), sx.I(int64(p.Consumed)), fields}, tag)
	}
	if g.Want[3] && len(body) <= maxPrefixBody {
		cls := sx.L{}
		for n := 0; n < len(body); n++ {
			cls = append(cls, sx.I(k.parse(body[:n], mk).Class))
		}
		full := k.parse(body, mk)
		valid := int64(0)
		if full.Class == 0 && full.Consumed == len(body) {
			valid = 1
		}
		g.Out.Case(3, sx.L{sx.I(int64(k.tok)), sx.B(body), ctx, sx.I(valid)}, cls, tag)
	}
}

func (k *kindDef) dec(g *pk.Gen, body []byte, expected sx.T, tag string) {
	k.decCtx(g, body, nil, k.mk, expected, tag)
}

func (k *kindDef) malCtx(g *pk.Gen, body []byte, ctx sx.T, mk func() tds.Package, tag string) {
	if !g.Want[4] {
		return
	}
	if ctx == nil {
		ctx = sx.L{}
	}
	p := k.parse(body, mk)
	g.Out.Case(4, sx.L{sx.I(int64(k.tok)), sx.B(body), ctx}, sx.L{sx.I(p.Class)}, tag)
}

func (k *kindDef) mal(g *pk.Gen, body []byte, tag string) { k.malCtx(g, body, nil, k.mk, tag) }

// roundCase: implementation-encode (+ verdict of the reference decoder when the fields are well-formed),
// feed the written bytes back through the implementation's reader, and read the reference encoding.
func (k *kindDef) roundCase(g *pk.Gen, fields sx.T, pkg tds.Package, wf bool, refDec func([]byte) bool, refBytes []byte, class, detail string) []byte {
	if class == "" {
		class = k.name
		if !wf {
			class += "-nonwf"
		}
	}
	bs, err, panicked := pk.Written(pkg)
	ref := refDec
	if !wf {
		ref = nil
	}
	g.EncCase(k.tok, fields, pkg, ref, class+";enc;"+detail)
	if err == nil && !panicked && len(bs) > 0 {
		k.dec(g, bs[1:], fields, class+";dec-impl;"+detail)
	}
	if wf && refBytes != nil && !(len(refBytes) > 2000 && bytes.Equal(refBytes, bs)) {
		// (big reference encodings identical to what the implementation wrote are not fed back twice)
		k.dec(g, refBytes[1:], fields, class+";dec-ref;"+detail)
	}
	if err != nil || panicked {
		return nil
	}
	return bs
}

// mutations: every byte of a (short) valid body replaced by 0, 1, 255, value+1, value-1; every 2- and 4-byte window
// set to all ones; truncated by one byte, extended by 1 and 5 bytes.  Covers every length / count field
// (0, 1, max, actual +- 1) without knowing where it is.
func (k *kindDef) mutations(g *pk.Gen, body []byte, tag string) {
	if !g.Want[4] {
		return
	}
	emit := func(b []byte, what string) { k.mal(g, b, k.name+"-mal;"+what+";"+tag) }
	for i := range body {
		for _, v := range []byte{0, 1, 255, body[i] + 1, body[i] - 1} {
			if v == body[i] {
				continue
			}
			m := append([]byte{}, body...)
			m[i] = v
			emit(m, fmt.Sprintf("byte%d=%d", i, v))
		}
		for _, w := range []int{2, 4} {
			if i+w <= len(body) {
				m := append([]byte{}, body...)
				for j := 0; j < w; j++ {
					m[i+j] = 0xFF
				}
				emit(m, fmt.Sprintf("ones%d@%d", w, i))
			}
		}
	}
	if len(body) > 0 {
		emit(body[:len(body)-1], "truncated")
	}
	emit(append(append([]byte{}, body...), 0), "extended1")
	emit(append(append([]byte{}, body...), 1, 2, 3, 4, 5), "extended5")
}

// random bodies: pure noise and noise behind a plausible small length field
func (k *kindDef) randomBodies(g *pk.Gen, n int) {
	if !g.Want[4] {
		return
	}
	for i := 0; i < n; i++ {
		b := g.Rng.Bytes(g.Rng.Range(0, 40))
		if i%2 == 1 && len(b) >= 2 {
			b[0], b[1] = byte(len(b)-2), 0
		}
		if i%4 == 3 && len(b) >= 4 {
			b[2], b[3] = 0, 0
		}
		k.mal(g, b, k.name+"-mal;random")
	}
}

// ---- reference reader (independent of the library) ----
type rd struct {
	b   []byte
	pos int
	bad bool
}

func (r *rd) bytes(n int) []byte {
	if r.bad || n < 0 || r.pos+n > len(r.b) {
		r.bad = true
		return nil
	}
	v := r.b[r.pos : r.pos+n]
	r.pos += n
	return v
}
func (r *rd) u8() int {
	v := r.bytes(1)
	if v == nil {
		return 0
	}
	return int(v[0])
}
func (r *rd) u16() int {
	v := r.bytes(2)
	if v == nil {
		return 0
	}
	return int(v[0]) | int(v[1])<<8
}
func (r *rd) u32() int64 {
	v := r.bytes(4)
	if v == nil {
		return 0
	}
	return int64(v[0]) | int64(v[1])<<8 | int64(v[2])<<16 | int64(v[3])<<24
}
func (r *rd) i32() int32 { return int32(uint32(r.u32())) }
func (r *rd) str(n int) string {
	v := r.bytes(n)
	return string(v)
}
func (r *rd) done() bool { return !r.bad && r.pos == len(r.b) }

// ---- value pools ----
var i32Bounds = []int32{0, 1, -1, 2147483647, -2147483648, 65536, -65536, 255}

func i32At(g *pk.Gen, i int) int32 {
	if i%(len(i32Bounds)+2) >= len(i32Bounds) {
		return int32(uint32(g.Rng.U64()))
	}
	return i32Bounds[i%(len(i32Bounds)+2)]
}

// str returns a deterministic-content string of length n (all byte values occur for long strings).
func str(g *pk.Gen, n int) string {
	b := make([]byte, n)
	off := g.Rng.Intn(256)
	for i := range b {
		b[i] = byte(off + i*7)
	}
	return string(b)
}

var lp8Sizes = []int{0, 1, 254, 255}

func i32le(v int32) []byte { return pk.LE32(int64(uint32(v))) }
