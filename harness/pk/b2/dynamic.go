package b2

import (
	"fmt"

	"github.com/SAP/go-dblib/tds"
	"verifharness/pk"
	"verifharness/sx"
)

// TDS_DYNAMIC 0xE7 / TDS_DYNAMIC2 0x62:
// length u16 (u32) | type u8 | status u8 | id length u8 | id | [statement length u16 (u32) | statement] iff PREPARE / EXEC_IMMED
type dynF struct {
	wide     bool
	typ, st  byte
	id, stmt string
}

func (f dynF) tok() int {
	if f.wide {
		return 0x62
	}
	return 0xE7
}
func (f dynF) tree() sx.T {
	return sx.L{sx.I(int64(f.typ)), sx.I(int64(f.st)), pk.S(f.id), pk.S(f.stmt)}
}
func (f dynF) build() tds.Package {
	p := tds.NewDynamicPackage(f.wide)
	p.Type, p.Status, p.ID, p.Stmt = tds.DynamicOperationType(f.typ), tds.DynamicStatusType(f.st), f.id, f.stmt
	return p
}
func dynRender(p tds.Package) sx.T {
	v := p.(*tds.DynamicPackage)
	return dynF{typ: byte(v.Type), st: byte(v.Status), id: v.ID, stmt: v.Stmt}.tree()
}
func (f dynF) hasStmt() bool { return f.typ&0x01 != 0 || f.typ&0x08 != 0 }
func lenw(wide bool, n int) []byte {
	if wide {
		return pk.LE32(int64(n))
	}
	return pk.LE16(n)
}
func (f dynF) refEnc() []byte {
	p := pk.Cat([]byte{f.typ, f.st}, pk.LP8([]byte(f.id)))
	if f.hasStmt() {
		p = pk.Cat(p, lenw(f.wide, len(f.stmt)), []byte(f.stmt))
	}
	return pk.Cat([]byte{byte(f.tok())}, lenw(f.wide, len(p)), p)
}
func (r *rd) lenw(wide bool) int {
	if wide {
		return int(r.u32())
	}
	return r.u16()
}
func (f dynF) refDec(bs []byte) bool {
	r := &rd{b: bs}
	if r.u8() != f.tok() {
		return false
	}
	n := r.lenw(f.wide)
	if r.bad || len(bs)-r.pos != n {
		return false
	}
	g := dynF{wide: f.wide}
	g.typ, g.st = byte(r.u8()), byte(r.u8())
	g.id = r.str(r.u8())
	if g.hasStmt() {
		g.stmt = r.str(r.lenw(f.wide))
	}
	return r.done() && g == f
}

// wf: fields the writer accepts and the reader gives back unchanged are those with typ != 0 and a total below the
// writer's limit; both conditions are part of the MODEL's encoder (it returns an error), so they are not "non-wf".
func (f dynF) wf() bool {
	return len(f.id) <= 255 && (f.hasStmt() || f.stmt == "")
}
func (f dynF) detail() string {
	return fmt.Sprintf("wide%v;typ%d;st%d;id%d;stmt%d", f.wide, f.typ, f.st, len(f.id), len(f.stmt))
}

func genDynamic(wide bool) func(g *pk.Gen) {
	return func(g *pk.Gen) {
		name := "dynamic"
		if wide {
			name = "dynamic2"
		}
		tok := dynF{wide: wide}.tok()
		k := &kindDef{name: name, tok: tok, mk: lookup(tok), render: dynRender}
		emit := func(f dynF) []byte {
			wf := f.wf()
			var refBytes []byte
			// the writer refuses type 0 and totals at or above its limit: the reference encoding is still fed to the reader
			if wf {
				refBytes = f.refEnc()
				if !wide && len(refBytes)-3 > 65535 {
					refBytes = nil // does not fit the 2-byte length field
				}
			}
			return k.roundCase(g, f.tree(), f.build(), wf, f.refDec, refBytes, "", f.detail())
		}
		types := []byte{0x01, 0x02, 0x04, 0x08, 0x10, 0x20, 0x40, 0x80, 0x00, 0x09, 0x03, 0xFF, 0x06}
		stmtSizes := []int{0, 1, 2, 255, 256, 5000}
		var mut [][]byte
		n := 0
		for _, typ := range types {
			for _, is := range lp8Sizes {
				sizes := []int{0}
				if typ&0x09 != 0 {
					sizes = stmtSizes
				}
				for _, ss := range sizes {
					f := dynF{wide: wide, typ: typ, st: []byte{0, 1, 2, 4, 8, 255}[n%6], id: str(g, is), stmt: str(g, ss)}
					n++
					bs := emit(f)
					if bs != nil && len(bs) < 40 && len(mut) < 12 {
						mut = append(mut, bs[1:])
					}
				}
			}
		}
		// the writer's limit: totalLength >= MaxInt16 is refused (narrow); u16 boundary for the wide variant
		limTypes, limTotals, limIds := []byte{0x01}, []int{32766, 32767}, []int{0}
		if wide {
			limTotals = []int{65536}
		}
		if g.Thorough {
			limTypes, limTotals, limIds = []byte{0x01, 0x08}, []int{32765, 32766, 32767, 32768, 65535, 65536, 70000}, []int{0, 3}
		}
		for _, typ := range limTypes {
			for _, total := range limTotals {
				for _, il := range limIds {
					extra := 2
					if wide {
						extra = 4
					}
					f := dynF{wide: wide, typ: typ, st: 0, id: str(g, il), stmt: str(g, total-3-il-extra)}
					emit(f)
				}
			}
		}
		// id only, near the narrow limit is impossible (id <= 255); a type without statement and a long id
		rnd := 200
		if g.Thorough {
			rnd = 4000
		}
		for i := 0; i < rnd; i++ {
			f := dynF{wide: wide, typ: byte(g.Rng.U64()), st: byte(g.Rng.U64()), id: str(g, g.Rng.Range(0, 40))}
			if i%4 == 0 {
				f.typ = types[g.Rng.Intn(8)]
			}
			if f.hasStmt() {
				f.stmt = str(g, g.Rng.Range(0, 300))
			}
			emit(f)
		}
		// outside well-formedness
		for _, f := range []dynF{
			{wide: wide, typ: 0x02, id: str(g, 256)},              // uint8(len(id)) wraps to 0
			{wide: wide, typ: 0x01, id: str(g, 300), stmt: "s"},   // wraps to 44
			{wide: wide, typ: 0x02, id: "i", stmt: "not written"}, // statement without PREPARE / EXEC_IMMED
			{wide: wide, typ: 0x20, id: "", stmt: "x"},
		} {
			emit(f)
		}
		// a server-side acknowledgement (TDS_DYN_ACK) and other reference encodings the client never writes: type 0
		for _, f := range []dynF{{wide: wide, typ: 0, st: 0, id: "id"}, {wide: wide, typ: 0, st: 1, id: ""}} {
			k.dec(g, f.refEnc()[1:], f.tree(), name+";dec-ref;type0;"+f.detail())
		}
		for i, b := range mut {
			k.mutations(g, b, fmt.Sprintf("m%d", i))
		}
		k.randomBodies(g, 300)
	}
}

func init() {
	pk.Register(genDynamic(false))
	pk.Register(genDynamic(true))
}
