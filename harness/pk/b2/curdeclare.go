package b2

import (
	"fmt"

	"github.com/SAP/go-dblib/tds"
	"verifharness/pk"
	"verifharness/sx"
)

// TDS_CURDECLARE 0x86 / TDS_CURDECLARE3 0x10:
// length u16 (u32) | name length u8 | name | options u8 (u32) | status u8 | statement length u16 (u32) | statement
// | number of columns | per column: name length u8 | name
//
// SpecColCount8: in the TDS 5.0 layout of the narrow TDS_CURDECLARE the number of update columns is ONE byte
// (FreeTDS writes it as a tinyint); the library reads and writes TWO bytes in both variants.  With the flag set
// the reference codec follows the 1-byte layout for the narrow variant, and every narrow case disagrees with
// the implementation (reported to the coordinator as a finding; the affected cases carry the class
// "curdeclare-colcount"). The flag is off so that the reference codec follows the implementation.
const SpecColCount8 = false

type cdF struct {
	wide       bool
	name, stmt string
	options    uint
	status     uint
	cols       []string
}

func (f cdF) tok() int {
	if f.wide {
		return 0x10
	}
	return 0x86
}
func (f cdF) tree() sx.T {
	cols := sx.L{}
	for _, c := range f.cols {
		cols = append(cols, pk.S(c))
	}
	return sx.L{pk.S(f.name), ui(f.options), ui(f.status), pk.S(f.stmt), cols}
}
func (f cdF) build() tds.Package {
	p, _ := tds.NewCurDeclarePackage(f.name, f.stmt, tds.CursorDStatus(f.status), tds.CursorOption(f.options))
	tds.VerifSetWide(p, f.wide)
	if len(f.cols) > 0 {
		p.VerifSetColumns(f.cols)
	}
	return p
}
func cdRender(p tds.Package) sx.T {
	v := p.(*tds.CurDeclarePackage)
	return cdF{name: v.Name, stmt: v.Stmt, options: uint(v.Options), status: uint(v.Status), cols: v.VerifColumns()}.tree()
}
func (f cdF) count8() bool { return SpecColCount8 && !f.wide }
func (f cdF) refEnc() []byte {
	p := pk.LP8([]byte(f.name))
	if f.wide {
		p = pk.Cat(p, pk.LE32(int64(f.options)))
	} else {
		p = append(p, byte(f.options))
	}
	p = append(p, byte(f.status))
	p = pk.Cat(p, lenw(f.wide, len(f.stmt)), []byte(f.stmt))
	if f.count8() {
		p = append(p, byte(len(f.cols)))
	} else {
		p = pk.Cat(p, pk.LE16(len(f.cols)))
	}
	for _, c := range f.cols {
		p = pk.Cat(p, pk.LP8([]byte(c)))
	}
	return pk.Cat([]byte{byte(f.tok())}, lenw(f.wide, len(p)), p)
}
func (f cdF) refDec(bs []byte) bool {
	r := &rd{b: bs}
	if r.u8() != f.tok() {
		return false
	}
	n := r.lenw(f.wide)
	if r.bad || len(bs)-r.pos != n {
		return false
	}
	g := cdF{wide: f.wide}
	g.name = r.str(r.u8())
	if f.wide {
		g.options = uint(r.u32())
	} else {
		g.options = uint(r.u8())
	}
	g.status = uint(r.u8())
	g.stmt = r.str(r.lenw(f.wide))
	var nc int
	if f.count8() {
		nc = r.u8()
	} else {
		nc = r.u16()
	}
	for i := 0; i < nc && !r.bad; i++ {
		g.cols = append(g.cols, r.str(r.u8()))
	}
	if !r.done() || g.name != f.name || g.options != f.options || g.status != f.status || g.stmt != f.stmt || len(g.cols) != len(f.cols) {
		return false
	}
	for i := range g.cols {
		if g.cols[i] != f.cols[i] {
			return false
		}
	}
	return true
}
func (f cdF) wf() bool {
	if len(f.name) > 255 || f.status > 255 || len(f.cols) > 65535 {
		return false
	}
	if f.wide && f.options > 0xFFFFFFFF || !f.wide && f.options > 255 {
		return false
	}
	for _, c := range f.cols {
		if len(c) > 255 {
			return false
		}
	}
	total := len(f.refEnc()) - 3
	if f.wide {
		return true
	}
	return total < 65536 && len(f.stmt) < 65536
}
func (f cdF) detail() string {
	return fmt.Sprintf("wide%v;name%d;opt%x;st%d;stmt%d;cols%d", f.wide, len(f.name), f.options, f.status, len(f.stmt), len(f.cols))
}

func genCurDeclare(wide bool) func(g *pk.Gen) {
	return func(g *pk.Gen) {
		name := "curdeclare"
		if wide {
			name = "curdeclare3"
		}
		tok := cdF{wide: wide}.tok()
		k := &kindDef{name: name, tok: tok, mk: lookup(tok), render: cdRender}
		emit := func(f cdF) []byte {
			class := ""
			if f.count8() && f.wf() {
				class = "curdeclare-colcount"
			}
			return k.roundCase(g, f.tree(), f.build(), f.wf(), f.refDec, f.refEnc(), class, f.detail())
		}
		opts := []uint{0, 1, 2, 0x80, 0xFF}
		if wide {
			opts = append(opts, 0x100, 0x3FF, 0xFFFFFFFF, 0x80000000)
		}
		colSets := [][]string{nil, {""}, {"a"}, {str(g, 255)}, {"a", "", str(g, 254), "bc"}}
		var mut [][]byte
		n := 0
		for _, ns := range lp8Sizes {
			for _, ss := range []int{0, 1, 255, 256} {
				for ci, cols := range colSets {
					f := cdF{wide: wide, name: str(g, ns), stmt: str(g, ss), options: opts[n%len(opts)], status: []uint{0, 1, 255}[n%3], cols: cols}
					n++
					bs := emit(f)
					if bs != nil && len(bs) < 40 && len(mut) < 12 && ci < 3 {
						mut = append(mut, bs[1:])
					}
				}
			}
		}
		for _, o := range opts {
			emit(cdF{wide: wide, name: "c", stmt: "select 1", options: o, status: 1})
		}
		// many columns: the 2-byte count at its limits
		many := func(c int) []string {
			l := make([]string, c)
			for i := range l {
				if i%100 == 0 {
					l[i] = "x"
				}
			}
			return l
		}
		for _, c := range []int{255, 256, 1000} {
			emit(cdF{wide: wide, name: "c", stmt: "s", cols: many(c)})
		}
		if wide {
			emit(cdF{wide: wide, name: "c", stmt: str(g, 65536)})
			if g.Thorough {
				emit(cdF{wide: wide, name: "c", stmt: "s", cols: many(65535)})
				emit(cdF{wide: wide, name: "c", stmt: "s", cols: many(65536)}) // non-wf: uint16(len(columns)) wraps to 0
				emit(cdF{wide: wide, name: "c", stmt: str(g, 70000), cols: []string{"k"}})
			}
		} else {
			// the 2-byte total at its limit: 1 + 1 + 1 + 1 + 2 + len(stmt) + 2 = len(stmt) + 8 (name "c")
			limSizes := []int{65535 - 8, 65536 - 8}
			if g.Thorough {
				limSizes = []int{65535 - 8, 65535 - 9, 65536 - 8, 65535, 65536, 70000}
			}
			for _, sl := range limSizes {
				emit(cdF{wide: wide, name: "c", stmt: str(g, sl)})
			}
		}
		rnd := 200
		if g.Thorough {
			rnd = 4000
		}
		for i := 0; i < rnd; i++ {
			f := cdF{wide: wide, name: str(g, g.Rng.Range(0, 40)), stmt: str(g, g.Rng.Range(0, 300)), status: uint(g.Rng.Intn(256))}
			if wide {
				f.options = uint(uint32(g.Rng.U64()))
			} else {
				f.options = uint(g.Rng.Intn(256))
			}
			for c := g.Rng.Intn(5); c > 0; c-- {
				f.cols = append(f.cols, str(g, g.Rng.Range(0, 30)))
			}
			emit(f)
		}
		// outside well-formedness
		for _, f := range []cdF{
			{wide: wide, name: str(g, 256), stmt: "s"},
			{wide: wide, name: str(g, 300), stmt: "s"},
			{wide: wide, name: "c", stmt: "s", options: 1 << 32},
			{wide: wide, name: "c", stmt: "s", options: 0x1FF},
			{wide: wide, name: "c", stmt: "s", status: 256},
			{wide: wide, name: "c", stmt: "s", cols: []string{str(g, 256)}},
			{wide: wide, name: "c", stmt: "s", cols: []string{"a", str(g, 300), "b"}},
		} {
			emit(f)
		}
		for i, b := range mut {
			k.mutations(g, b, fmt.Sprintf("m%d", i))
		}
		k.randomBodies(g, 300)
	}
}

func init() {
	pk.Register(genCurDeclare(false))
	pk.Register(genCurDeclare(true))
}
