// Package lg: Channel.Login against a scripted peer (C08, C09).
//
// The peer is a net.Conn-like transport that parses what the client writes into packets, and after the k-th
// complete client message (EOM) hands the k-th scripted reply (already packetised wire bytes) to the client's
// reader goroutine.  One case = one login.
//
//	input  (encrypt cfg ((packet ...) ...) keycap (ciphertext ...) symkey)
//	          cfg      as pk/b1 loginCfg.tree(): (hostname username password hostproc appname servname language charset encrypt ((name pw) ...))
//	          packets  per reply round, as fed to the channel: (msgtype status channel nr window eom #body)
//	          keycap   capacity (max plaintext length) of the PEM key the script carries; -1 = unusable (harness oracle:
//	                   encoding/pem + x509.ParsePKCS1PublicKey, size - 2*20 - 2)
//	          ciphertexts / symkey: what the client sent (opaque to the model: it must place them, not compute them)
//	output (class caps packsize ((#packet ...) ...) (#plaintext ...) errleak keylen)
//	          class 0 success, 1 error, 2 error because the context ended, -1 panic, -2 no return
//	          caps  conn.Caps after the call, as the capability renderer prints it
//	          packets written by the client, per message, raw (header and body)
//	          plaintexts: RSA-OAEP decryption (harness holds the private key) of the ciphertexts, in order
//	          errleak: 1 if the error text contains a (distinctive) password
package lg

import (
	"bytes"
	"context"
	"crypto/rand"
	"crypto/rsa"
	"crypto/sha1"
	"crypto/x509"
	"encoding/pem"
	"errors"
	"fmt"
	"io"
	"runtime"
	"strings"
	"sync"
	"time"

	"github.com/SAP/go-dblib/asetypes"
	"github.com/SAP/go-dblib/tds"
	"verifharness/pk"
	"verifharness/pk/core"
	"verifharness/sx"
)

// ---------------------------------------------------------------- scripted peer
type peer struct {
	mu      sync.Mutex
	cond    *sync.Cond
	inbuf   []byte
	msgs    [][][]byte // client messages: packets (raw)
	cur     [][]byte
	replies [][]byte
	out     []byte
	closed  bool
	last    time.Time
	parked  int
	base    int // messages before this index belong to an earlier login on the connection
}

func newPeer(replies [][]byte) *peer {
	p := &peer{replies: replies, last: time.Now()}
	p.cond = sync.NewCond(&p.mu)
	return p
}

func (p *peer) Write(b []byte) (int, error) {
	p.mu.Lock()
	defer p.mu.Unlock()
	if p.closed {
		return 0, io.ErrClosedPipe
	}
	p.last = time.Now()
	p.inbuf = append(p.inbuf, b...)
	for len(p.inbuf) >= 8 {
		l := int(p.inbuf[2])<<8 | int(p.inbuf[3])
		if l < 8 {
			l = 8
		}
		if len(p.inbuf) < l {
			break
		}
		pkt := append([]byte{}, p.inbuf[:l]...)
		p.inbuf = p.inbuf[l:]
		p.cur = append(p.cur, pkt)
		if pkt[1]&1 == 1 {
			p.msgs = append(p.msgs, p.cur)
			p.cur = nil
			if k := len(p.msgs) - 1 - p.base; k >= 0 && k < len(p.replies) {
				p.out = append(p.out, p.replies[k]...)
			}
		}
	}
	p.cond.Broadcast()
	return len(b), nil
}

func (p *peer) Read(b []byte) (int, error) {
	if len(b) == 0 {
		return 0, nil
	}
	p.mu.Lock()
	defer p.mu.Unlock()
	for len(p.out) == 0 && !p.closed {
		p.parked++
		p.cond.Wait()
		p.parked--
	}
	if len(p.out) == 0 {
		return 0, io.EOF
	}
	n := copy(b, p.out)
	p.out = p.out[n:]
	p.last = time.Now()
	return n, nil
}

func (p *peer) Close() error {
	p.mu.Lock()
	p.closed = true
	p.cond.Broadcast()
	p.mu.Unlock()
	return nil
}

// quiet: nothing in flight towards the client and its reader is parked; also returns the time of the last activity
func (p *peer) quiet() (bool, time.Time) {
	p.mu.Lock()
	defer p.mu.Unlock()
	return len(p.out) == 0 && p.parked > 0, p.last
}

// ---------------------------------------------------------------- configuration
type Cfg struct {
	Hostname, Username, Password, HostProc, AppName, ServName, Language, CharSet []byte
	Encrypt                                                                     int
	Remote                                                                      [][2][]byte
	// InfoMask > 0: the LoginConfig is the library's DEFAULT configuration for the connection description InfoOf(InfoMask-1)
	// (tds.NewLoginConfig), with the name fields overwritten; its Encrypt is whatever the library chose, while the case
	// records Encrypt = ENCRYPT4: "password encryption is negotiated in the default configuration" is part of C09.
	InfoMask int
}

// InfoOf: connection descriptions over all combinations of the settings a default configuration could depend on
const InfoBits = 10

func InfoOf(mask int) *tds.Info {
	info := &tds.Info{}
	bit := func(i int) bool { return mask&(1<<i) != 0 }
	info.Host, info.Port, info.Network, info.ClientHostname = "h", "5000", "tcp", "client"
	info.TLSEnable = bit(0)
	info.TLSSkipValidation = bit(1)
	info.DebugLogPackages = bit(2)
	if bit(3) {
		info.Port = "tls"
	}
	if bit(4) {
		info.TLSHostname = "db.example.org"
	}
	if bit(5) {
		info.TLSCAFile = "/nonexistent/ca.pem"
	}
	if bit(6) {
		info.Network = "udp"
	}
	if bit(7) {
		info.Host = "a-host-name-that-is-longer-than-thirty-bytes.example.org"
	}
	if bit(8) {
		info.PacketReadTimeout, info.ChannelPackageQueueSize = 50, 100
	}
	if bit(9) {
		info.Database = "db1"
	}
	return info
}

func (c Cfg) Tree() sx.T {
	rs := sx.L{}
	for _, r := range c.Remote {
		rs = append(rs, sx.L{sx.B(r[0]), sx.B(r[1])})
	}
	return sx.L{sx.B(c.Hostname), sx.B(c.Username), sx.B(c.Password), sx.B(c.HostProc), sx.B(c.AppName), sx.B(c.ServName),
		sx.B(c.Language), sx.B(c.CharSet), sx.I(int64(c.Encrypt)), rs}
}

func (c Cfg) config() *tds.LoginConfig {
	info := &tds.Info{}
	info.Username = string(c.Username)
	info.Password = string(c.Password)
	if c.InfoMask > 0 {
		info = InfoOf(c.InfoMask - 1)
		info.Username = string(c.Username)
		info.Password = string(c.Password)
		lc, err := tds.NewLoginConfig(info)
		if err != nil {
			panic(err)
		}
		lc.Hostname, lc.HostProc, lc.AppName, lc.ServName, lc.Language, lc.CharSet = string(c.Hostname), string(c.HostProc),
			string(c.AppName), string(c.ServName), string(c.Language), string(c.CharSet)
		for _, r := range c.Remote {
			lc.RemoteServers = append(lc.RemoteServers, tds.LoginConfigRemoteServer{Name: string(r[0]), Password: string(r[1])})
		}
		return lc
	}
	lc := &tds.LoginConfig{DSN: info, Hostname: string(c.Hostname), HostProc: string(c.HostProc), AppName: string(c.AppName),
		ServName: string(c.ServName), Language: string(c.Language), CharSet: string(c.CharSet), Encrypt: tds.TDSMsgId(c.Encrypt)}
	for _, r := range c.Remote {
		lc.RemoteServers = append(lc.RemoteServers, tds.LoginConfigRemoteServer{Name: string(r[0]), Password: string(r[1])})
	}
	return lc
}

// ---------------------------------------------------------------- keys
var keyCache = map[int]*rsa.PrivateKey{}
var keyMu sync.Mutex

func Key(bits int) *rsa.PrivateKey {
	keyMu.Lock()
	defer keyMu.Unlock()
	if k, ok := keyCache[bits]; ok {
		return k
	}
	k, err := rsa.GenerateKey(rand.Reader, bits)
	if err != nil {
		panic(err)
	}
	keyCache[bits] = k
	return k
}

func PemOf(k *rsa.PrivateKey, typ string) []byte {
	return pem.EncodeToMemory(&pem.Block{Type: typ, Bytes: x509.MarshalPKCS1PublicKey(&k.PublicKey)})
}

// KeyCap is the harness's oracle for "usable key": what the login can encrypt with this PEM, or -1
func KeyCap(pemBytes []byte) int {
	if len(pemBytes) == 0 {
		return -1
	}
	blk, rest := pem.Decode(pemBytes)
	if blk == nil || len(rest) > 0 {
		return -1
	}
	pub, err := x509.ParsePKCS1PublicKey(blk.Bytes)
	if err != nil {
		return -1
	}
	c := pub.Size() - 2*sha1.Size - 2
	if c < 0 {
		return -1
	}
	// EncryptOAEP itself may refuse a key (e.g. unusual exponent): ask it with an empty message
	if _, err := rsa.EncryptOAEP(sha1.New(), rand.Reader, pub, []byte{}, []byte{}); err != nil {
		return -1
	}
	return c
}

// ---------------------------------------------------------------- reply scripts
type Item = core.Item

func LoginAck(status int, name string) Item {
	body := pk.Cat([]byte{byte(status)}, []byte{5, 0, 0, 0}, pk.LP8([]byte(name)), []byte{16, 0, 0, 1})
	return Item{Tok: int(tds.TDS_LOGINACK), Body: append(pk.LE16(len(body)), body...)}
}

func Msg(status, id int) Item {
	return Item{Tok: int(tds.TDS_MSG), Body: pk.Cat([]byte{3, byte(status)}, pk.LE16(id))}
}

func Done(status int) Item {
	return Item{Tok: int(tds.TDS_DONE), Body: pk.Cat(pk.LE16(status), pk.LE16(0), pk.LE32(0))}
}

// CapBlocks: (type, mask bytes) blocks as the server sends them
func Capability(blocks [][2][]byte) Item {
	var inner []byte
	for _, b := range blocks {
		inner = append(inner, b[0][0], byte(len(b[1])))
		inner = append(inner, b[1]...)
	}
	return Item{Tok: int(tds.TDS_CAPABILITY), Body: append(pk.LE16(len(inner)), inner...)}
}

type PField struct {
	Dt   asetypes.DataType
	Data []byte
}

func lenBytes(dt asetypes.DataType) int {
	if dt.ByteSize() >= 0 {
		return 0
	}
	return dt.LengthBytes()
}

// ParamFmt / Params: narrow PARAMFMT with empty names, no status byte, and the matching PARAMS
func ParamFmt(fs []PField) Item {
	var inner []byte
	inner = append(inner, pk.LE16(len(fs))...)
	for _, f := range fs {
		inner = append(inner, 0)                  // name length
		inner = append(inner, 0)                  // status
		inner = append(inner, pk.LE32(0)...)      // user type
		inner = append(inner, byte(f.Dt))         // data type
		switch lenBytes(f.Dt) {
		case 1:
			inner = append(inner, 255)
		case 2:
			inner = append(inner, pk.LE16(65535)...)
		case 4:
			inner = append(inner, pk.LE32(0x7fffffff)...)
		}
		inner = append(inner, 0) // locale length
	}
	return Item{Tok: int(tds.TDS_PARAMFMT), Body: append(pk.LE16(len(inner)), inner...)}
}

func Params(fs []PField) Item {
	var body []byte
	for _, f := range fs {
		switch lenBytes(f.Dt) {
		case 1:
			body = append(body, byte(len(f.Data)))
		case 2:
			body = append(body, pk.LE16(len(f.Data))...)
		case 4:
			body = append(body, pk.LE32(int64(len(f.Data)))...)
		}
		body = append(body, f.Data...)
	}
	return Item{Tok: int(tds.TDS_PARAMS), Body: body}
}

func EnvPackSize(n string) Item {
	inner := pk.Cat([]byte{4}, pk.LP8([]byte(n)), pk.LP8([]byte("512")))
	return Item{Tok: int(tds.TDS_ENVCHANGE), Body: append(pk.LE16(len(inner)), inner...)}
}

func Eed(info bool, nr int) Item {
	st := 0
	if info {
		st = 2
	}
	body := pk.Cat(pk.LE32(int64(nr)), []byte{1, 10}, pk.LP8([]byte("ZZZZZ")), []byte{byte(st)}, pk.LE16(0), pk.LP16([]byte("msg")), pk.LP8([]byte("srv")), pk.LP8([]byte("")), pk.LE16(1))
	return Item{Tok: int(tds.TDS_EED), Body: append(pk.LE16(len(body)), body...)}
}

// ---------------------------------------------------------------- one login
type Result struct {
	Class    int
	Caps     sx.T
	PackSize int
	Msgs     [][][]byte
	PreMsgs  [][][]byte // messages of an earlier login attempt on the same connection
	Partial  [][]byte   // packets of a message that was never finished
	ErrText  string
}

// Run performs one login against the scripted replies (wire bytes per round).
// Run performs one login against the scripted replies (wire bytes per round).  With a prelude, a first login with the
// same configuration is made on the same connection and channel against the prelude's replies (a rejected attempt the
// application retries); the result is that of the second login.
func Run(cfg Cfg, replies [][]byte, prelude [][]byte) (res Result) {
	p := newPeer(append(append([][]byte{}, prelude...), replies...))
	info := &tds.Info{}
	info.ChannelPackageQueueSize = 1000
	conn, err := tds.VerifNewConn(context.Background(), info, p, true)
	if err != nil {
		panic(err)
	}
	ch, err := conn.NewChannel()
	if err != nil {
		panic(err)
	}
	defer func() {
		conn.VerifCancel()
		p.Close()
	}()
	skip := 0
	if prelude != nil {
		pre := oneLogin(conn, ch, p, cfg)
		if pre.Class < 0 {
			return pre
		}
		p.mu.Lock()
		skip = len(p.msgs)
		// the retry starts from a clean slate on the peer's side: replies of the first attempt that were never asked for
		// are dropped, the second attempt's replies follow the messages it sends
		for len(p.replies) > 0 && len(p.replies) > len(replies) {
			p.replies = p.replies[1:]
		}
		p.base = skip
		p.mu.Unlock()
	}
	res = oneLogin(conn, ch, p, cfg)
	if skip <= len(res.Msgs) {
		res.PreMsgs = res.Msgs[:skip]
		res.Msgs = res.Msgs[skip:]
	}
	return res
}

func oneLogin(conn *tds.Conn, ch *tds.Channel, p *peer, cfg Cfg) (res Result) {
	caps0 := conn.Caps
	ctx, cancel := context.WithCancel(context.Background())
	type outcome struct {
		err      error
		panicked bool
	}
	done := make(chan outcome, 1)
	go func() {
		defer func() {
			if r := recover(); r != nil {
				done <- outcome{nil, true}
			}
		}()
		done <- outcome{ch.Login(ctx, cfg.config()), false}
	}()
	// the caller's context ends when nothing can arrive any more: the peer has nothing in flight, the reader is parked,
	// the channel's queues are empty, and that has been so for a while
	hard := time.After(15 * time.Second)
	tick := time.NewTicker(4 * time.Millisecond)
	defer tick.Stop()
	var o outcome
	cancelled := false
	// "for a while" is counted in monitor ticks that saw the same quiet state, not in wall-clock time: if the whole
	// process is descheduled on a loaded machine the count does not advance, and between two ticks the Login goroutine
	// gets its turn
	quietTicks := 0
	var lastSeen time.Time
loop:
	for {
		select {
		case o = <-done:
			break loop
		case <-hard:
			res.Class = -2
			res.Caps = sx.L{}
			res.PackSize = conn.PacketSize()
			p.mu.Lock()
			res.Msgs = append([][][]byte{}, p.msgs...)
			p.mu.Unlock()
			cancel()
			return res
		case <-tick.C:
			q, last := p.quiet()
			np, ne := ch.VerifQueueLens()
			if q && np == 0 && ne == 0 && conn.VerifErrChLen() == 0 && last.Equal(lastSeen) {
				quietTicks++
			} else {
				quietTicks = 0
				lastSeen = last
			}
			runtime.Gosched()
			if !cancelled && quietTicks >= 100 {
				cancel()
				cancelled = true
			}
		}
	}
	cancel()
	// Login may return without having waited for the reply to its last message (e.g. when a package left over from the
	// previous reply already decides the outcome): let the reader goroutine digest everything the peer has sent before the
	// connection's packet size is looked at, so that the observation does not depend on who was faster
	settled := 0
	for i := 0; i < 2000 && settled < 5; i++ {
		if q, _ := p.quiet(); q {
			settled++
		} else {
			settled = 0
		}
		time.Sleep(time.Millisecond)
	}
	switch {
	case o.panicked:
		res.Class = -1
	case o.err == nil:
		res.Class = 0
	case errors.Is(o.err, context.Canceled):
		res.Class = 2
	default:
		res.Class = 1
	}
	if o.err != nil {
		res.ErrText = o.err.Error()
	}
	res.PackSize = conn.PacketSize()
	res.Caps = sx.L{}
	if conn.Caps != caps0 {
		res.Caps = renderPkg(conn.Caps)
	}
	p.mu.Lock()
	res.Msgs = append([][][]byte{}, p.msgs...)
	res.Partial = p.cur
	p.mu.Unlock()
	return res
}

func renderPkg(pkg tds.Package) sx.T {
	for _, r := range pk.Renderers {
		if _, f, ok := r(pkg); ok {
			return f
		}
	}
	return sx.L{}
}

// ---------------------------------------------------------------- reading the client's second message
// MSG(LOGPWD3) PARAMFMT PARAMS [MSG(REMPWD3) PARAMFMT PARAMS] MSG(SYMKEY) PARAMFMT PARAMS, complete or cut off anywhere.
// Returns the packets with every LONGBINARY parameter value (the ciphertexts) overwritten by zeros as far as it is
// present, and the values that are completely present.
func BlankCiphertexts(msg [][]byte) (blanked [][]byte, cts [][]byte) {
	var pl []byte
	for _, pkt := range msg {
		pl = append(pl, pkt[8:]...)
	}
	pl = append([]byte{}, pl...)
	pos := 0
	need := func(n int) bool { return pos+n <= len(pl) }
	var types []asetypes.DataType
walk:
	for pos < len(pl) {
		tok := pl[pos]
		pos++
		switch tds.Token(tok) {
		case tds.TDS_MSG:
			if !need(4) {
				break walk
			}
			pos += 4
		case tds.TDS_PARAMFMT:
			if !need(2) {
				break walk
			}
			l := int(pl[pos]) | int(pl[pos+1])<<8
			if !need(2 + l) {
				break walk
			}
			body := pl[pos+2 : pos+2+l]
			pos += 2 + l
			if len(body) < 2 {
				break walk
			}
			n := int(body[0]) | int(body[1])<<8
			body = body[2:]
			types = nil
			for i := 0; i < n; i++ {
				if len(body) < 1 {
					break walk
				}
				nl := int(body[0])
				if len(body) < 1+nl+1+4+1 {
					break walk
				}
				body = body[1+nl+1+4:]
				dt := asetypes.DataType(body[0])
				body = body[1:]
				lb := lenBytes(dt)
				if len(body) < lb+1 {
					break walk
				}
				body = body[lb:]
				ll := int(body[0])
				if len(body) < 1+ll {
					break walk
				}
				body = body[1+ll:]
				types = append(types, dt)
			}
		case tds.TDS_PARAMS:
			for _, dt := range types {
				lb := lenBytes(dt)
				if !need(lb) {
					break walk
				}
				n := 0
				switch lb {
				case 0:
					n = dt.ByteSize()
				case 1:
					n = int(pl[pos])
				case 2:
					n = int(pl[pos]) | int(pl[pos+1])<<8
				case 4:
					n = int(pl[pos]) | int(pl[pos+1])<<8 | int(pl[pos+2])<<16 | int(pl[pos+3])<<24
				}
				pos += lb
				if n < 0 {
					break walk
				}
				have := n
				if pos+have > len(pl) {
					have = len(pl) - pos
				}
				if dt == asetypes.LONGBINARY {
					if have == n {
						cts = append(cts, append([]byte{}, pl[pos:pos+n]...))
					}
					for i := 0; i < have; i++ {
						pl[pos+i] = 0
					}
				}
				pos += have
				if have < n {
					break walk
				}
			}
			types = nil
		default:
			break walk
		}
	}
	off := 0
	for _, pkt := range msg {
		b := append([]byte{}, pkt[:8]...)
		b = append(b, pl[off:off+len(pkt)-8]...)
		off += len(pkt) - 8
		blanked = append(blanked, b)
	}
	return blanked, cts
}

func Decrypt(k *rsa.PrivateKey, ct []byte) []byte {
	if k == nil {
		return nil
	}
	pt, err := rsa.DecryptOAEP(sha1.New(), nil, k, ct, []byte{})
	if err != nil {
		return nil
	}
	if pt == nil {
		pt = []byte{}
	}
	return pt
}

// ---------------------------------------------------------------- case assembly
type Script struct {
	Cfg    Cfg
	Rounds [][]Item // reply items per round
	Key    *rsa.PrivateKey
	Pem    []byte // the PEM bytes the script carries (for the oracle)
	Tag    string
	Retry  [][]Item // if set: replies of a first login attempt on the same connection, which must be rejected
	Stall  bool     // the server stalls in its last reply: the last packet does not carry the end-of-message flag
}

func (s Script) packetise(g *pk.Gen, mode int) [][]core.Pkt {
	var rounds [][]core.Pkt
	for _, items := range s.Rounds {
		var msg []byte
		// packet size announcements go first in their reply: one that arrives while Login is already past the packages
		// before it would race with Login's next send / with reading PacketSize() afterwards
		for _, it := range items {
			if it.Tok == int(tds.TDS_ENVCHANGE) {
				msg = append(msg, it.Bytes()...)
			}
		}
		for _, it := range items {
			if it.Tok != int(tds.TDS_ENVCHANGE) {
				msg = append(msg, it.Bytes()...)
			}
		}
		var cuts []int
		switch mode {
		case 1: // many small packets
			for c := 1; c < len(msg); c++ {
				if g.Rng.Intn(7) == 0 {
					cuts = append(cuts, c)
				}
			}
		case 2: // a few cuts
			for c := 1; c < len(msg); c++ {
				if g.Rng.Intn(60) == 0 {
					cuts = append(cuts, c)
				}
			}
		}
		if len(msg) == 0 {
			rounds = append(rounds, []core.Pkt{{MsgType: int(tds.TDS_BUF_RESPONSE), EOM: true}})
			continue
		}
		pkts := core.Packetise(msg, cuts)
		rounds = append(rounds, pkts)
	}
	if s.Stall && len(rounds) > 0 {
		last := rounds[len(rounds)-1]
		last[len(last)-1].EOM = false
	}
	return rounds
}


// Prepared is a script with its packetisation fixed (all random choices are made before the parallel runs).
type Prepared struct {
	S       Script
	Prelude [][]byte // wire replies of a first, rejected login on the same connection (nil: none)
	Replies [][]byte
	RT      sx.L
	In, Out sx.T
}

func Prepare(g *pk.Gen, s Script, pmode int) *Prepared {
	rounds := s.packetise(g, pmode)
	p := &Prepared{S: s, RT: sx.L{}}
	if s.Retry != nil {
		pre := Script{Rounds: s.Retry}
		for _, pkts := range pre.packetise(g, pmode) {
			p.Prelude = append(p.Prelude, core.WireBytes(pkts))
		}
	}
	for _, pkts := range rounds {
		p.Replies = append(p.Replies, core.WireBytes(pkts))
		var pt sx.L
		for _, q := range pkts {
			pt = append(pt, core.PktTree(q))
		}
		if pt == nil {
			pt = sx.L{}
		}
		p.RT = append(p.RT, pt)
	}
	return p
}

var seenKeys = map[string]bool{}
var seenMu sync.Mutex

// Exec runs the login and fills In / Out.
func (p *Prepared) Exec() {
	s := p.S
	res := Run(s.Cfg, p.Replies, p.Prelude)
	// what the client sent: complete messages, then the packets of an unfinished one (if any); ciphertexts blanked
	msgs := res.Msgs
	complete2 := len(msgs) >= 2
	if len(res.Partial) > 0 {
		msgs = append(append([][][]byte{}, msgs...), res.Partial)
	}
	var cts [][]byte
	if len(msgs) >= 2 {
		msgs[1], cts = BlankCiphertexts(msgs[1])
	}
	mt := sx.L{}
	for _, m := range msgs {
		var l sx.L
		for _, pkt := range m {
			l = append(l, sx.B(pkt))
		}
		mt = append(mt, l)
	}
	ptt := sx.L{}
	var symkey []byte
	fresh := 1
	// the session key of an earlier attempt on the same connection counts as seen
	if len(res.PreMsgs) >= 2 {
		_, pcts := BlankCiphertexts(res.PreMsgs[1])
		if len(pcts) > 0 {
			if pt := Decrypt(s.Key, pcts[len(pcts)-1]); len(pt) >= 32 {
				seenMu.Lock()
				seenKeys[string(pt[len(pt)-32:])] = true
				seenMu.Unlock()
			}
		}
	}
	if complete2 {
		for i, ct := range cts {
			pt := Decrypt(s.Key, ct)
			if pt == nil {
				ptt = append(ptt, sx.I(-1))
			} else {
				ptt = append(ptt, sx.B(pt))
			}
			if i == len(cts)-1 && len(pt) >= 32 {
				symkey = pt[len(pt)-32:]
			}
			for j := 0; j < i; j++ {
				if bytes.Equal(cts[j], ct) {
					fresh = 0 // two encryptions gave the same ciphertext: no fresh randomness
				}
			}
		}
	}
	// the session key travels in the last plaintext; fresh = never seen before in this run
	if symkey != nil {
		seenMu.Lock()
		if seenKeys[string(symkey)] {
			fresh = 0
		}
		seenKeys[string(symkey)] = true
		seenMu.Unlock()
	}
	keyfresh := fresh
	// error text must not contain a password (only judged for distinctive passwords: 6 bytes or more that do not occur in
	// any other configuration string or in the replies)
	leak := 0
	secrets := [][]byte{s.Cfg.Password}
	for _, r := range s.Cfg.Remote {
		secrets = append(secrets, r[1])
	}
	for _, sec := range secrets {
		if len(sec) >= 6 && distinctive(sec, s, p.Replies) && strings.Contains(res.ErrText, string(sec)) {
			leak = 1
		}
	}
	noplain := 0
	if s.Key == nil {
		noplain = 1 // no private key for this script (mutated / foreign key material): plaintexts are not reported
		ptt = sx.L{}
	}
	p.In = sx.L{sx.I(int64(s.Cfg.Encrypt)), s.Cfg.Tree(), p.RT, sx.I(int64(KeyCap(s.Pem))), sx.B(symkey), capOrder(res.Msgs), sx.I(int64(noplain))}
	p.Out = sx.L{sx.I(int64(res.Class)), res.Caps, sx.I(int64(res.PackSize)), mt, ptt, sx.I(int64(leak)), sx.I(int64(keyfresh))}
}

// RunAll executes the prepared logins on [par] goroutines and writes the case lines in order.
func RunAll(g *pk.Gen, fn int, ps []*Prepared, par int) {
	var wg sync.WaitGroup
	sem := make(chan struct{}, par)
	for _, p := range ps {
		wg.Add(1)
		sem <- struct{}{}
		go func(p *Prepared) {
			defer wg.Done()
			defer func() { <-sem }()
			p.Exec()
		}(p)
	}
	wg.Wait()
	for _, p := range ps {
		g.Out.Case(fn, p.In, p.Out, p.S.Tag)
	}
}

// capOrder: the order in which the capability package of the first message lists its types (Go map iteration order)
func capOrder(msgs [][][]byte) sx.T {
	o := sx.L{}
	if len(msgs) == 0 {
		return o
	}
	var pl []byte
	for _, pkt := range msgs[0] {
		pl = append(pl, pkt[8:]...)
	}
	if len(pl) < 568+3 || pl[568] != byte(tds.TDS_CAPABILITY) {
		return o
	}
	pl = pl[568+3:]
	for len(pl) >= 2 && len(pl) >= 2+int(pl[1]) {
		o = append(o, sx.I(int64(pl[0])))
		pl = pl[2+int(pl[1]):]
	}
	return o
}

func distinctive(sec []byte, s Script, replies [][]byte) bool {
	others := [][]byte{s.Cfg.Hostname, s.Cfg.Username, s.Cfg.HostProc, s.Cfg.AppName, s.Cfg.ServName, s.Cfg.Language, s.Cfg.CharSet}
	for _, r := range s.Cfg.Remote {
		others = append(others, r[0])
	}
	for _, r := range replies {
		others = append(others, r)
	}
	for _, o := range others {
		if bytes.Contains(o, sec) {
			return false
		}
	}
	return true
}

var _ = fmt.Sprint
