package lg

import (
	"context"
	"fmt"
	"os"
	"strings"

	"github.com/SAP/go-dblib/asetypes"
	"github.com/SAP/go-dblib/tds"
	"verifharness/pk"
	"verifharness/sx"
)

const (
	logSucceed   = 5
	logFail      = 6
	logNegotiate = 7
	msgEncrypt4  = 35
)

func randName(g *pk.Gen, max int) []byte {
	n := g.Rng.Intn(max + 1)
	b := make([]byte, n)
	for i := range b {
		b[i] = byte('a' + g.Rng.Intn(26))
	}
	return b
}

func randFixed(g *pk.Gen, n int) []byte {
	b := make([]byte, n)
	for i := range b {
		b[i] = byte('A' + g.Rng.Intn(26))
	}
	return b
}

func randPassword(g *pk.Gen, max int) []byte {
	switch g.Rng.Intn(6) {
	case 0:
		return []byte{}
	case 1: // any bytes
		return g.Rng.Bytes(g.Rng.Range(1, max))
	}
	n := g.Rng.Range(6, max)
	b := make([]byte, n)
	for i := range b {
		b[i] = byte('A' + g.Rng.Intn(26))
	}
	return b
}

func randCfg(g *pk.Gen, encrypt int, pwmax int) Cfg {
	c := Cfg{Hostname: randName(g, 30), Username: randName(g, 30), Password: randPassword(g, pwmax), HostProc: randName(g, 10),
		AppName: randName(g, 30), ServName: randName(g, 30), Language: []byte("us_english"), CharSet: []byte("utf8"), Encrypt: encrypt}
	if encrypt == 0 && len(c.Password) > 30 {
		c.Password = c.Password[:30]
	}
	for i := 0; i < []int{0, 0, 1, 2, 3}[g.Rng.Intn(5)]; i++ {
		c.Remote = append(c.Remote, [2][]byte{randName(g, 20), randPassword(g, pwmax)})
	}
	// collisions: a password equal to another field / contained in one
	switch g.Rng.Intn(12) {
	case 0:
		c.Password = append([]byte{}, c.Username...)
	case 1:
		if len(c.Password) <= 30 {
			c.AppName = append([]byte{}, c.Password...)
		}
	}
	return c
}

var defaultCaps = [][2][]byte{
	{{1}, {0x07, 0xff, 0xff, 0xff, 0xff, 0xff, 0xff, 0xff, 0xff, 0xff, 0xff, 0xff, 0xff, 0xfe}},
	{{2}, {0x00, 0x00, 0x00, 0x00, 0x06, 0x48, 0x00, 0x00, 0x08, 0x06}},
}

type enc struct {
	bits  int
	pem   []byte
	nonce []byte
}

// the valid scripts
func validPlain() [][]Item {
	return [][]Item{{LoginAck(logSucceed, "ASE"), Done(0)}}
}

func validEnc(e enc) [][]Item {
	ps := []PField{{asetypes.INT4, []byte{1, 0, 0, 0}}, {asetypes.LONGBINARY, e.pem}, {asetypes.LONGBINARY, e.nonce}}
	return [][]Item{
		{LoginAck(logNegotiate, "ASE"), Msg(1, msgEncrypt4), ParamFmt(ps), Params(ps), Done(0)},
		{LoginAck(logSucceed, "ASE"), Capability(defaultCaps), Done(0)},
	}
}

func cloneRounds(r [][]Item) [][]Item {
	var o [][]Item
	for _, x := range r {
		o = append(o, append([]Item{}, x...))
	}
	return o
}

// replacement items used by the "replace" / "insert" edits
func otherItems(g *pk.Gen) []Item {
	return []Item{Done(0), Done(1), Done(0x10), Eed(false, 4002), Eed(true, 5701), LoginAck(logFail, "ASE"), LoginAck(logSucceed, "ASE"),
		LoginAck(logNegotiate, "ASE"), Msg(1, msgEncrypt4), Msg(1, 30), Msg(0, 1), Capability(defaultCaps), EnvPackSize("2048"), EnvPackSize("1024"),
		{Tok: int(tds.TDS_RETURNSTATUS), Body: pk.LE32(0)}}
}

// singleEdits: every script that differs from the valid one by deleting, duplicating, swapping or replacing one package,
// or inserting one
func singleEdits(g *pk.Gen, valid [][]Item) (out [][][]Item, tags []string) {
	add := func(r [][]Item, t string) { out = append(out, r); tags = append(tags, t) }
	for ri, round := range valid {
		for i := range round {
			d := cloneRounds(valid)
			d[ri] = append(append([]Item{}, round[:i]...), round[i+1:]...)
			add(d, fmt.Sprintf("edit-delete;r%d.%d", ri, i))
			d = cloneRounds(valid)
			d[ri] = append(append(append([]Item{}, round[:i+1]...), round[i]), round[i+1:]...)
			add(d, fmt.Sprintf("edit-duplicate;r%d.%d", ri, i))
			if i+1 < len(round) {
				d = cloneRounds(valid)
				d[ri][i], d[ri][i+1] = d[ri][i+1], d[ri][i]
				add(d, fmt.Sprintf("edit-swap;r%d.%d", ri, i))
			}
			for k, o := range otherItems(g) {
				d = cloneRounds(valid)
				d[ri][i] = o
				add(d, fmt.Sprintf("edit-replace;r%d.%d;k%d", ri, i, k))
			}
		}
		for i := 0; i <= len(round); i++ {
			for k, o := range otherItems(g) {
				d := cloneRounds(valid)
				d[ri] = append(append(append([]Item{}, round[:i]...), o), round[i:]...)
				add(d, fmt.Sprintf("edit-insert;r%d.%d;k%d", ri, i, k))
			}
		}
	}
	// the server answers everything at once / splits differently
	if len(valid) == 2 {
		add([][]Item{append(append([]Item{}, valid[0]...), valid[1]...)}, "edit-merge-rounds")
		add([][]Item{valid[0], {}, valid[1]}, "edit-empty-round")
		add([][]Item{valid[0]}, "edit-no-second-reply")
	}
	add([][]Item{}, "edit-no-reply")
	add([][]Item{{}}, "edit-empty-reply")
	return
}

func pemVariants(g *pk.Gen, bits []int) (out []enc, tags []string) {
	add := func(e enc, t string) { out = append(out, e); tags = append(tags, t) }
	for _, b := range bits {
		k := Key(b)
		add(enc{b, PemOf(k, "RSA PUBLIC KEY"), g.Rng.Bytes(32)}, fmt.Sprintf("key-%d", b))
	}
	k := Key(bits[0])
	good := PemOf(k, "RSA PUBLIC KEY")
	add(enc{bits[0], PemOf(k, "PUBLIC KEY"), g.Rng.Bytes(32)}, "key-other-block-type")
	add(enc{bits[0], good[:len(good)/2], g.Rng.Bytes(32)}, "key-truncated")
	add(enc{bits[0], append(append([]byte{}, good...), []byte("trailing")...), g.Rng.Bytes(32)}, "key-trailing")
	add(enc{bits[0], append(append([]byte{}, good...), '\n'), g.Rng.Bytes(32)}, "key-trailing-newline")
	add(enc{bits[0], []byte("not a key at all"), g.Rng.Bytes(32)}, "key-garbage")
	add(enc{bits[0], []byte{}, g.Rng.Bytes(32)}, "key-empty")
	add(enc{bits[0], []byte("-----BEGIN RSA PUBLIC KEY-----\nAAAA\n-----END RSA PUBLIC KEY-----\n"), g.Rng.Bytes(32)}, "key-bad-der")
	add(enc{bits[0], []byte("-----BEGIN RSA PUBLIC KEY-----\n-----END RSA PUBLIC KEY-----\n"), g.Rng.Bytes(32)}, "key-empty-der")
	for _, n := range []int{0, 1, 16, 64, 86, 87, 100} {
		add(enc{bits[0], good, g.Rng.Bytes(n)}, fmt.Sprintf("nonce-%d", n))
	}
	// around the point where nonce + 32-byte session key exactly fills the key
	for _, b := range bits {
		c := b/8 - 42
		for _, n := range []int{c - 33, c - 32, c - 31} {
			if n >= 1 {
				add(enc{b, PemOf(Key(b), "RSA PUBLIC KEY"), g.Rng.Bytes(n)}, fmt.Sprintf("nonce-boundary;%d;%d", b, n))
			}
		}
	}
	return
}

// keyFuzz: key parameters that are not PEM at all: control characters only, white space, single bytes, PEM armour without
// content, random bytes
func keyFuzz(g *pk.Gen) (out []enc, tags []string) {
	add := func(b []byte, t string) { out = append(out, enc{0, b, g.Rng.Bytes(32)}); tags = append(tags, t) }
	for i, k := range []string{"\n", "\r\n", "\x00", "\n\n\x00", " ", "\t", "-", "-----", "-----BEGIN RSA PUBLIC KEY-----", "-----BEGIN RSA PUBLIC KEY-----\n",
		"-----END RSA PUBLIC KEY-----\n", "-----BEGIN RSA PUBLIC KEY-----\n\n-----END RSA PUBLIC KEY-----", "-----BEGIN -----\n-----END -----\n", "\xff\xfe", "\n-----BEGIN RSA PUBLIC KEY-----\nAAAA"} {
		add([]byte(k), fmt.Sprintf("keyfuzz-fixed;%d", i))
	}
	n := 25
	if g.Thorough {
		n = 600
	}
	for i := 0; i < n; i++ {
		var b []byte
		switch g.Rng.Intn(4) {
		case 0: // control characters and white space only
			for k := 0; k < g.Rng.Range(1, 6); k++ {
				b = append(b, []byte{0, '\n', '\r', ' ', '\t'}[g.Rng.Intn(5)])
			}
		case 1:
			b = g.Rng.Bytes(g.Rng.Range(1, 40))
		case 2: // a valid key with some bytes replaced
			b = append([]byte{}, PemOf(Key(1024), "RSA PUBLIC KEY")...)
			for k := 0; k < g.Rng.Range(1, 3); k++ {
				b[g.Rng.Intn(len(b))] = byte(g.Rng.Intn(256))
			}
		default: // a valid key cut somewhere, possibly followed by control characters
			b = append([]byte{}, PemOf(Key(1024), "RSA PUBLIC KEY")...)
			b = b[:g.Rng.Intn(len(b))]
			for k := 0; k < g.Rng.Intn(3); k++ {
				b = append(b, []byte{0, '\n', '\r'}[g.Rng.Intn(3)])
			}
		}
		add(b, "keyfuzz-random")
	}
	return
}

// field edits of the valid encrypted script
func fieldEdits(g *pk.Gen, e enc) (out [][][]Item, tags []string) {
	add := func(r [][]Item, t string) { out = append(out, r); tags = append(tags, t) }
	v := validEnc(e)
	for _, st := range []int{0, 5, 6, 7, 8, 255} {
		d := cloneRounds(v)
		d[0][0] = LoginAck(st, "ASE")
		add(d, fmt.Sprintf("field-ack1-status;%d", st))
		d = cloneRounds(v)
		d[1][0] = LoginAck(st, "ASE")
		add(d, fmt.Sprintf("field-ack2-status;%d", st))
	}
	for _, id := range []int{0, 1, 14, 30, 31, 35, 36, 0x8023} {
		for _, st := range []int{0, 1} {
			d := cloneRounds(v)
			d[0][1] = Msg(st, id)
			add(d, fmt.Sprintf("field-msg;%d;%d", st, id))
		}
	}
	for _, st := range []int{0, 1, 2, 0x10, 0x11, 0x20, 0x8, 0xffff} {
		d := cloneRounds(v)
		d[0][4] = Done(st)
		add(d, fmt.Sprintf("field-done1-status;%d", st))
		d = cloneRounds(v)
		d[1][2] = Done(st)
		add(d, fmt.Sprintf("field-done2-status;%d", st))
	}
	// parameter count and types
	base := []PField{{asetypes.INT4, []byte{1, 0, 0, 0}}, {asetypes.LONGBINARY, e.pem}, {asetypes.LONGBINARY, e.nonce}}
	setParams := func(ps []PField, t string) {
		d := cloneRounds(v)
		d[0][2], d[0][3] = ParamFmt(ps), Params(ps)
		add(d, t)
	}
	setParams(base[:2], "field-params-count;2")
	setParams(append(append([]PField{}, base...), PField{asetypes.INT4, []byte{0, 0, 0, 0}}), "field-params-count;4")
	setParams([]PField{}, "field-params-count;0")
	for _, val := range [][]byte{{0, 0, 0, 0}, {2, 0, 0, 0}, {1, 0, 0, 1}, {0xff, 0xff, 0xff, 0xff}, {1, 1, 0, 0}} {
		ps := append([]PField{}, base...)
		ps[0] = PField{asetypes.INT4, val}
		setParams(ps, fmt.Sprintf("field-asym-value;%x", val))
	}
	alts := []PField{{asetypes.INTN, []byte{1, 0, 0, 0}}, {asetypes.INT2, []byte{1, 0}}, {asetypes.INT8, []byte{1, 0, 0, 0, 0, 0, 0, 0}},
		{asetypes.VARBINARY, []byte{1, 0, 0, 0}}, {asetypes.LONGBINARY, []byte{1, 0, 0, 0}}, {asetypes.VARCHAR, []byte("1")}}
	for _, a := range alts {
		ps := append([]PField{}, base...)
		ps[0] = a
		setParams(ps, fmt.Sprintf("field-asym-type;%d", int(a.Dt)))
	}
	for pos := 1; pos <= 2; pos++ {
		for _, dt := range []asetypes.DataType{asetypes.VARBINARY, asetypes.LONGCHAR, asetypes.VARCHAR, asetypes.BINARY} {
			ps := append([]PField{}, base...)
			data := ps[pos].Data
			if dt.LengthBytes() == 1 && len(data) > 255 {
				data = data[:255]
			}
			ps[pos] = PField{dt, data}
			setParams(ps, fmt.Sprintf("field-param%d-type;%d", pos, int(dt)))
		}
		ps := append([]PField{}, base...)
		ps[pos] = PField{asetypes.LONGBINARY, []byte{}}
		setParams(ps, fmt.Sprintf("field-param%d-null", pos))
	}
	// capability masks
	caps := [][][2][]byte{
		{{{1}, make([]byte, 14)}, defaultCaps[1]},
		{defaultCaps[0], {{2}, make([]byte, 10)}},
		{{{1}, make([]byte, 14)}, {{2}, make([]byte, 10)}},
		{{{1}, {}}, {{2}, {}}},
		{{{1}, {0}}, {{2}, {1}}},
		{defaultCaps[0]},
		{},
		{defaultCaps[0], defaultCaps[1], {{3}, {0}}},
		{defaultCaps[0], defaultCaps[1], {{3}, {1}}},
		{{{1}, {0x80, 0, 0, 0, 0, 0, 0, 0, 0, 0, 0, 0, 0, 0, 0, 0}}, defaultCaps[1]},
		{{{1}, {1}}, {{1}, make([]byte, 14)}, defaultCaps[1]},
	}
	for i, c := range caps {
		d := cloneRounds(v)
		d[1][1] = Capability(c)
		add(d, fmt.Sprintf("field-caps;%d", i))
	}
	// packet size announcements (valid ones are applied; they change the packetisation of the second message)
	for _, n := range []string{"512", "1024", "2048", "4096", "600", "65535"} {
		d := cloneRounds(v)
		d[0] = append([]Item{EnvPackSize(n)}, d[0]...)
		add(d, "field-packsize1;"+n)
		d = cloneRounds(v)
		d[1] = append([]Item{EnvPackSize(n)}, d[1]...)
		add(d, "field-packsize2;"+n)
	}
	return
}

func multiEdit(g *pk.Gen, valid [][]Item) [][]Item {
	d := cloneRounds(valid)
	others := otherItems(g)
	for k := 0; k < g.Rng.Range(2, 4); k++ {
		if len(d) == 0 {
			break
		}
		ri := g.Rng.Intn(len(d))
		switch g.Rng.Intn(4) {
		case 0:
			if len(d[ri]) > 0 {
				i := g.Rng.Intn(len(d[ri]))
				d[ri] = append(append([]Item{}, d[ri][:i]...), d[ri][i+1:]...)
			}
		case 1:
			i := g.Rng.Intn(len(d[ri]) + 1)
			d[ri] = append(append(append([]Item{}, d[ri][:i]...), others[g.Rng.Intn(len(others))]), d[ri][i:]...)
		case 2:
			if len(d[ri]) > 1 {
				i := g.Rng.Intn(len(d[ri]) - 1)
				d[ri][i], d[ri][i+1] = d[ri][i+1], d[ri][i]
			}
		case 3:
			if len(d[ri]) > 0 {
				d[ri][g.Rng.Intn(len(d[ri]))] = others[g.Rng.Intn(len(others))]
			}
		}
	}
	return d
}

// Generate: fn 30 (C08) / fn 31 (C09) cases; jobs run in parallel, lines are written in order.
func Generate(g *pk.Gen, prop string) {
	fn := 30
	if prop == "C09" {
		fn = 31
	}
	bits := []int{1024}
	if g.Thorough {
		bits = []int{1024, 1536, 2048}
	}
	var jobs []*Prepared
	job := func(s Script, pm int) { jobs = append(jobs, Prepare(g, s, pm)) }
	mk := func(rounds [][]Item, cfg Cfg, e *enc, tag string) Script {
		s := Script{Cfg: cfg, Rounds: rounds, Tag: tag}
		if e != nil {
			s.Pem = e.pem
			if e.bits > 0 {
				s.Key = Key(e.bits)
			}
		}
		return s
	}
	e0 := enc{bits[0], PemOf(Key(bits[0]), "RSA PUBLIC KEY"), g.Rng.Bytes(32)}
	if prop == "C08" || prop == "" {
		// plain flow: valid, all single edits
		vp := validPlain()
		for pm := 0; pm < 3; pm++ {
			job(mk(vp, randCfg(g, 0, 30), nil, "valid-plain"), pm)
		}
		eds, tags := singleEdits(g, vp)
		for i, r := range eds {
			job(mk(r, randCfg(g, 0, 30), nil, "plain;"+tags[i]), g.Rng.Intn(3))
		}
		for _, st := range []int{0, 5, 6, 7, 255} {
			job(mk([][]Item{{LoginAck(st, "ASE"), Done(0)}}, randCfg(g, 0, 30), nil, fmt.Sprintf("plain;field-ack-status;%d", st)), 0)
		}
		for _, st := range []int{0, 1, 2, 0x10, 0x11, 0x20, 0xffff} {
			job(mk([][]Item{{LoginAck(logSucceed, "ASE"), Done(st)}}, randCfg(g, 0, 30), nil, fmt.Sprintf("plain;field-done-status;%d", st)), 0)
		}
		// encrypted flow
		ve := validEnc(e0)
		for pm := 0; pm < 3; pm++ {
			job(mk(ve, randCfg(g, msgEncrypt4, 40), &e0, "valid-enc"), pm)
		}
		// quick: one random packetisation per edit; thorough: every edit under all three packetisations and every key size
		encs := []enc{e0}
		pms := []int{-1}
		if g.Thorough {
			pms = []int{0, 1, 2}
			for _, b := range bits[1:] {
				encs = append(encs, enc{b, PemOf(Key(b), "RSA PUBLIC KEY"), g.Rng.Bytes(32)})
			}
		}
		for ei := range encs {
			e := encs[ei]
			for _, pm := range pms {
				pick := func() int {
					if pm < 0 {
						return g.Rng.Intn(3)
					}
					return pm
				}
				eds, tags = singleEdits(g, validEnc(e))
				for i, r := range eds {
					job(mk(r, randCfg(g, msgEncrypt4, 40), &e, "enc;"+tags[i]), pick())
				}
				eds, tags = fieldEdits(g, e)
				for i, r := range eds {
					job(mk(r, randCfg(g, msgEncrypt4, 40), &e, "enc;"+tags[i]), pick())
				}
			}
		}
		pv, ptags := pemVariants(g, append(bits, 512))
		for i, e := range pv {
			e := e
			cfg := randCfg(g, msgEncrypt4, 60)
			if strings.HasPrefix(ptags[i], "nonce-boundary") {
				cfg.Password, cfg.Remote = []byte("pw"), nil // the session key decides
			}
			job(mk(validEnc(e), cfg, &e, "enc;"+ptags[i]), g.Rng.Intn(3))
		}
		kf, ktags := keyFuzz(g)
		for i, e := range kf {
			e := e
			job(mk(validEnc(e), randCfg(g, msgEncrypt4, 30), &e, "enc;"+ktags[i]), g.Rng.Intn(3))
		}
		// passwords that exactly fill the key (with the usual 32-byte nonce), one byte less, one byte more
		for _, b := range bits {
			e := enc{b, PemOf(Key(b), "RSA PUBLIC KEY"), g.Rng.Bytes(32)}
			for _, d := range []int{-1, 0, 1} {
				cfg := randCfg(g, msgEncrypt4, 20)
				cfg.Remote = nil
				cfg.Password = randFixed(g, b/8-42-32+d)
				job(mk(validEnc(e), cfg, &e, fmt.Sprintf("enc;password-boundary;%d;%d", b, d)), g.Rng.Intn(3))
				cfg2 := randCfg(g, msgEncrypt4, 20)
				cfg2.Remote = [][2][]byte{{randName(g, 8), randFixed(g, b/8-42-32+d)}}
				job(mk(validEnc(e), cfg2, &e, fmt.Sprintf("enc;remote-password-boundary;%d;%d", b, d)), g.Rng.Intn(3))
			}
		}
		nmulti := 500
		if g.Thorough {
			nmulti = 12000
		}
		for i := 0; i < nmulti; i++ {
			if g.Rng.Intn(4) == 0 {
				job(mk(multiEdit(g, vp), randCfg(g, 0, 30), nil, "plain;multi-edit"), g.Rng.Intn(3))
			} else {
				job(mk(multiEdit(g, ve), randCfg(g, msgEncrypt4, 40), &e0, "enc;multi-edit"), g.Rng.Intn(3))
			}
		}
		// the server stalls in the middle of a reply (no end-of-message): Login must give up with its caller's context
		stall := func(r [][]Item, cfg Cfg, e *enc, tag string) {
			sc := mk(r, cfg, e, tag)
			sc.Stall = true
			job(sc, g.Rng.Intn(3))
		}
		stall([][]Item{{LoginAck(logSucceed, "ASE")}}, randCfg(g, 0, 30), nil, "plain;stall-after-ack")
		stall([][]Item{{LoginAck(logFail, "ASE")}}, randCfg(g, 0, 30), nil, "plain;stall-after-reject")
		stall([][]Item{{LoginAck(logSucceed, "ASE"), Done(0x10)}}, randCfg(g, 0, 30), nil, "plain;stall-after-done")
		for i, r2 := range [][]Item{{LoginAck(logFail, "ASE")}, {LoginAck(logFail, "ASE"), Capability(defaultCaps)}, {Eed(false, 4002), LoginAck(logFail, "ASE")},
			{LoginAck(logSucceed, "ASE")}, {LoginAck(logSucceed, "ASE"), Capability(defaultCaps)}, {Eed(false, 4002)}} {
			v := validEnc(e0)
			v[1] = r2
			stall(v, randCfg(g, msgEncrypt4, 40), &e0, fmt.Sprintf("enc;stall-second-reply;%d", i))
		}
		{
			v := validEnc(e0)
			stall([][]Item{v[0][:3]}, randCfg(g, msgEncrypt4, 40), &e0, "enc;stall-first-reply")
		}
		// unsupported / odd modes
		for _, m := range []int{1, 14, 30, 2, 36} {
			job(mk(ve, randCfg(g, m, 30), &e0, fmt.Sprintf("mode;%d", m)), 0)
		}
	}
	if prop == "C10" {
		// no reply makes the login crash: key material fuzz, field edits and multi-edits of both flows (fn 32)
		fn = 32
		kf, ktags := keyFuzz(g)
		for i, e := range kf {
			e := e
			job(mk(validEnc(e), randCfg(g, msgEncrypt4, 30), &e, "login-"+ktags[i]), g.Rng.Intn(3))
		}
		e0 := enc{bits[0], PemOf(Key(bits[0]), "RSA PUBLIC KEY"), g.Rng.Bytes(32)}
		eds, tags := fieldEdits(g, e0)
		for i, r := range eds {
			job(mk(r, randCfg(g, msgEncrypt4, 40), &e0, "login-"+tags[i]), g.Rng.Intn(3))
		}
		nm := 100
		if g.Thorough {
			nm = 3000
		}
		for i := 0; i < nm; i++ {
			job(mk(multiEdit(g, validEnc(e0)), randCfg(g, msgEncrypt4, 40), &e0, "login-multi-edit"), g.Rng.Intn(3))
		}
	}
	if prop == "C09" || prop == "" {
		n := 400
		if g.Thorough {
			n = 4000
		}
		for i := 0; i < n; i++ {
			b := bits[g.Rng.Intn(len(bits))]
			e := enc{b, PemOf(Key(b), "RSA PUBLIC KEY"), g.Rng.Bytes([]int{0, 1, 8, 16, 32, 32, 32, 64}[g.Rng.Intn(8)])}
			cfg := randCfg(g, msgEncrypt4, b/8-42-len(e.nonce)+2)
			rounds := validEnc(e)
			tag := "secret-valid"
			switch g.Rng.Intn(8) {
			case 0:
				rounds[0] = append([]Item{EnvPackSize([]string{"1024", "2048", "600", "4096"}[g.Rng.Intn(4)])}, rounds[0]...)
				tag = "secret-packsize"
			case 1:
				rounds = multiEdit(g, rounds)
				tag = "secret-multi-edit"
			case 2:
				rounds[1][0] = LoginAck(logFail, "ASE")
				tag = "secret-rejected"
			}
			job(mk(rounds, cfg, &e, tag), g.Rng.Intn(3))
		}
		// a rejected attempt, retried on the same connection: everything again with fresh randomness
		nre := 12
		if g.Thorough {
			nre = 300
		}
		for i := 0; i < nre; i++ {
			b := bits[g.Rng.Intn(len(bits))]
			e := enc{b, PemOf(Key(b), "RSA PUBLIC KEY"), g.Rng.Bytes(32)}
			first := validEnc(e)
			first[1][0] = LoginAck(logFail, "ASE")
			sc := mk(validEnc(e), randCfg(g, msgEncrypt4, 30), &e, "secret-relogin")
			sc.Retry = first
			job(sc, g.Rng.Intn(3))
		}
		// the DEFAULT configuration (tds.NewLoginConfig) of every kind of connection description: TLS on / off, validation
		// skipped, debug logging, ports, networks ... - the encrypted flow, whatever the description says
		nd := 40
		if g.Thorough {
			nd = 1 << InfoBits
		}
		for i := 0; i < nd; i++ {
			mask := g.Rng.Intn(1 << InfoBits)
			if i < InfoBits {
				mask = 1 << i
			} else if g.Thorough {
				mask = i
			}
			e := enc{bits[0], PemOf(Key(bits[0]), "RSA PUBLIC KEY"), g.Rng.Bytes(32)}
			cfg := randCfg(g, msgEncrypt4, 40)
			cfg.InfoMask = mask + 1
			job(mk(validEnc(e), cfg, &e, fmt.Sprintf("secret-default-config;info=%d", mask)), g.Rng.Intn(3))
		}
		for mask := 0; mask < 1<<InfoBits; mask++ {
			lc, err := tds.NewLoginConfig(InfoOf(mask))
			enc := -1
			if err == nil {
				enc = int(lc.Encrypt)
			}
			if g.WantTag("default-config") {
				g.Out.Case(33, sx.L{sx.I(int64(mask))}, sx.L{sx.I(int64(enc))}, "default-config")
			}
		}
		// control: the plain flow sends the password in its slot
		for i := 0; i < 30; i++ {
			job(mk(validPlain(), randCfg(g, 0, 30), nil, "control-plain"), g.Rng.Intn(3))
		}
		// modes below ENCRYPT4 are refused before anything is written
		for _, m := range []int{1, 14, 30} {
			job(mk(validEnc(e0), randCfg(g, m, 30), &e0, fmt.Sprintf("control-mode;%d", m)), 0)
		}
	}
	RunAll(g, fn, jobs, 48)
}

// WriteGen tabulates, by executing the code, the constants the login model depends on.
func WriteGen(path string) {
	var b strings.Builder
	b.WriteString("(* GENERATED by harness/pk/lg/gen.go from /repo by executing the code; do not edit. *)\n")
	b.WriteString("From Coq Require Import ZArith List.\nImport ListNotations.\nOpen Scope Z_scope.\n")
	z := func(name string, v int) { fmt.Fprintf(&b, "Definition %s : Z := %d.\n", name, v) }
	z("g_log_succeed", int(tds.TDS_LOG_SUCCEED))
	z("g_log_fail", int(tds.TDS_LOG_FAIL))
	z("g_log_negotiate", int(tds.TDS_LOG_NEGOTIATE))
	z("g_msg_encrypt", int(tds.TDS_MSG_SEC_ENCRYPT))
	z("g_msg_encrypt2", int(tds.TDS_MSG_SEC_ENCRYPT2))
	z("g_msg_encrypt3", int(tds.TDS_MSG_SEC_ENCRYPT3))
	z("g_msg_encrypt4", int(tds.TDS_MSG_SEC_ENCRYPT4))
	z("g_msg_logpwd3", int(tds.TDS_MSG_SEC_LOGPWD3))
	z("g_msg_rempwd3", int(tds.TDS_MSG_SEC_REMPWD3))
	z("g_msg_symkey", int(tds.TDS_MSG_SEC_SYMKEY))
	z("g_msg_hasargs", int(tds.TDS_MSG_HASARGS))
	z("g_buf_login", int(tds.TDS_BUF_LOGIN))
	z("g_buf_normal", int(tds.TDS_BUF_NORMAL))
	z("g_dt_int4", int(asetypes.INT4))
	z("g_dt_longbinary", int(asetypes.LONGBINARY))
	z("g_dt_varchar", int(asetypes.VARCHAR))
	z("g_done_final", int(tds.TDS_DONE_FINAL))
	z("g_tok_loginack", int(tds.TDS_LOGINACK))
	z("g_tok_msg", int(tds.TDS_MSG))
	z("g_tok_capability", int(tds.TDS_CAPABILITY))
	// the password mode of the default configuration, per kind of connection description (lg.InfoOf)
	b.WriteString("Definition g_default_encrypt : list (Z * Z) := [")
	for mask := 0; mask < 1<<InfoBits; mask++ {
		lc, err := tds.NewLoginConfig(InfoOf(mask))
		enc := -1
		if err == nil {
			enc = int(lc.Encrypt)
		}
		if mask > 0 {
			b.WriteString("; ")
		}
		fmt.Fprintf(&b, "(%d, %d)", mask, enc)
	}
	b.WriteString("].\n")
	// the capability package a fresh connection sends with the login record
	conn, err := tds.VerifNewConn(context.Background(), &tds.Info{}, &peer{}, false)
	if err != nil {
		panic(err)
	}
	masks := conn.Caps.VerifMasks()
	var parts []string
	var blocks []string
	for typ := 0; typ < 256; typ++ {
		m, ok := masks[byte(typ)]
		if !ok || tds.VerifValueMaskIsEmpty(m) {
			continue
		}
		parts = nil
		for _, c := range tds.VerifValueMaskBytes(m) {
			parts = append(parts, fmt.Sprint(int(c)))
		}
		blocks = append(blocks, fmt.Sprintf("(%d, [%s])", typ, strings.Join(parts, ";")))
	}
	fmt.Fprintf(&b, "(* the non-empty value masks of the capability package of a fresh connection, by type: what its WriteTo emits\n   (in the order of a Go map iteration) *)\nDefinition g_default_caps : list (Z * list Z) := [%s].\n", strings.Join(blocks, "; "))
	// the formats LookupFieldFmtData hands out for the login parameters, as a narrow PARAMFMT of one field writes them
	for _, dt := range []asetypes.DataType{asetypes.LONGBINARY, asetypes.VARCHAR} {
		f, _, err := tds.LookupFieldFmtData(dt)
		if err != nil {
			panic(err)
		}
		bs, err, _ := pk.Written(tds.NewParamFmtPackage(false, f))
		if err != nil {
			panic(err)
		}
		parts = nil
		for _, c := range bs {
			parts = append(parts, fmt.Sprint(int(c)))
		}
		fmt.Fprintf(&b, "Definition g_paramfmt1_%d : list Z := [%s].\n", int(dt), strings.Join(parts, ";"))
	}
	old, _ := os.ReadFile(path)
	if string(old) != b.String() {
		os.WriteFile(path, []byte(b.String()), 0o644)
	}
}
