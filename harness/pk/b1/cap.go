package b1

import (
	"fmt"
	"sort"

	"github.com/SAP/go-dblib/tds"
	"verifharness/pk"
	"verifharness/sx"
)

// ---------------------------------------------------------------- CAPABILITY
// TDS 5.0: token 0xE2, Length u16 (bytes that follow), then per capability type: type u8, mask length u8, value mask.
// Value mask: capability k is bit (k mod 8) of byte (len-1 - k/8).
// Field tree: (((type #booleans) ...)) ascending by type, one 00/01 byte per boolean.

type capSet map[byte][]bool

func (c capSet) types() []int {
	var t []int
	for k := range c {
		t = append(t, int(k))
	}
	sort.Ints(t)
	return t
}

func boolsTree(bs []bool) sx.T {
	b := make([]byte, len(bs))
	for i, v := range bs {
		if v {
			b[i] = 1
		}
	}
	return sx.B(b)
}

func (c capSet) tree() sx.T {
	l := sx.L{}
	for _, t := range c.types() {
		l = append(l, sx.L{sx.I(int64(t)), boolsTree(c[byte(t)])})
	}
	return sx.L{l}
}

func renderCapability(p tds.Package) sx.T {
	return capSet(p.(*tds.CapabilityPackage).VerifMasks()).tree()
}

// reference value mask codec (bit formula, not the library's loops)
func refMaskBytes(bools []bool) []byte {
	n := (len(bools) + 7) / 8
	b := make([]byte, n)
	for k, v := range bools {
		if v {
			b[n-1-k/8] |= 1 << uint(k%8)
		}
	}
	return b
}

// the set of capability numbers a mask stands for
func capNumbers(bools []bool) []int {
	var s []int
	for k, v := range bools {
		if v {
			s = append(s, k)
		}
	}
	return s
}

func refMaskNumbers(b []byte) []int {
	var s []int
	for k := 0; k < 8*len(b); k++ {
		if b[len(b)-1-k/8]&(1<<uint(k%8)) != 0 {
			s = append(s, k)
		}
	}
	return s
}

func sameInts(a, b []int) bool {
	if len(a) != len(b) {
		return false
	}
	for i := range a {
		if a[i] != b[i] {
			return false
		}
	}
	return true
}

type capBlock struct {
	typ  int
	mask []byte
}

// strict block parser of a CAPABILITY body (after the token)
func refCapBlocks(body []byte) ([]capBlock, bool) {
	r := &rd{b: body}
	if r.u16() != len(r.b) {
		return nil, false
	}
	var bl []capBlock
	for !r.bad && len(r.b) > 0 {
		t := r.u8()
		m := r.take(r.u8())
		bl = append(bl, capBlock{t, m})
	}
	return bl, !r.bad
}

func refEncCapBlocks(bl []capBlock) []byte {
	var rest []byte
	for _, b := range bl {
		rest = pk.Cat(rest, []byte{byte(b.typ), byte(len(b.mask))}, b.mask)
	}
	return pk.Cat(pk.LE16(len(rest)), rest)
}

// what a reader holds after a body: the three types every package starts with (all false), overwritten by the blocks
func refCapDecoded(bl []capBlock) capSet {
	c := capSet{1: make([]bool, 107), 2: make([]bool, 74), 3: make([]bool, 1)}
	for _, b := range bl {
		m := make([]bool, 8*len(b.mask)+1)
		for _, k := range refMaskNumbers(b.mask) {
			m[k] = true
		}
		c[byte(b.typ)] = m
	}
	return c
}

func mkCap(c capSet) *tds.CapabilityPackage {
	p := tds.VerifEmptyCapabilityPackage()
	for t, m := range c {
		p.VerifSetMask(t, m)
	}
	return p
}

// encCap: the implementation writes the package; blocks are brought into ascending type order (Go iterates the
// map in random order) when they can be told apart; the reference verdict compares capability numbers per type.
func encCap(g *pk.Gen, c capSet, ref bool, tag string) []byte {
	bs, err, panicked := pk.Written(mkCap(c))
	canon := bs
	reordered := false
	if err == nil && !panicked && len(bs) >= 3 {
		if bl, ok := refCapBlocks(bs[1:]); ok {
			sorted := append([]capBlock{}, bl...)
			sort.SliceStable(sorted, func(i, j int) bool { return sorted[i].typ < sorted[j].typ })
			canon = pk.Cat([]byte{bs[0]}, refEncCapBlocks(sorted))
			reordered = !eq(canon, bs)
		}
	}
	if reordered {
		// detail only (differs from run to run): the implementation wrote the blocks in another order
		tag += ";reordered"
	}
	if g.Want[1] {
		in := sx.L{sx.I(tokCapability), c.tree()}
		switch {
		case panicked:
			g.Out.Case(1, in, sx.L{sx.I(-1)}, tag)
		case err != nil:
			g.Out.Case(1, in, sx.L{sx.I(2)}, tag)
		default:
			ok := int64(1)
			if ref && !refCapVerdict(canon, c) {
				ok = 0
			}
			g.Out.Case(1, in, sx.L{sx.I(0), sx.B(canon), sx.I(ok)}, tag)
		}
	}
	return canon
}

// the independent decoder recovers, per type, exactly the capability numbers that were set
// (types without any set capability are not transmitted)
func refCapVerdict(bs []byte, c capSet) bool {
	if len(bs) < 1 || bs[0] != tokCapability {
		return false
	}
	bl, ok := refCapBlocks(bs[1:])
	if !ok {
		return false
	}
	got := map[int][]int{}
	for _, b := range bl {
		if _, dup := got[b.typ]; dup {
			return false
		}
		got[b.typ] = refMaskNumbers(b.mask)
	}
	want := map[int][]int{}
	for t, m := range c {
		if n := capNumbers(m); len(n) > 0 && len(m) != 1 {
			want[int(t)] = n
		}
	}
	if len(got) != len(want) {
		return false
	}
	for t, n := range want {
		if !sameInts(got[t], n) {
			return false
		}
	}
	return true
}

func genCapability(g *pk.Gen) {
	one := func(c capSet, tag string) {
		bs := encCap(g, c, true, tag)
		// read back what was written: the masks come back padded to 8*len+1 booleans, untransmitted types at their defaults
		if bl, ok := refCapBlocks(bs[1:]); ok {
			decCase(g, tokCapability, bs[1:], nil, nil, refCapDecoded(bl).tree(), renderCapability, tag+";readback")
		}
	}
	// each single capability bit, exhaustively, in masks of the library's default sizes
	for k := 0; k < 107; k++ {
		m := make([]bool, 107)
		m[k] = true
		one(capSet{1: m, 2: make([]bool, 74), 3: make([]bool, 1)}, fmt.Sprintf("capability;single;type=1;bit=%d", k))
	}
	for k := 0; k < 74; k++ {
		m := make([]bool, 74)
		m[k] = true
		one(capSet{1: make([]bool, 107), 2: m, 3: make([]bool, 1)}, fmt.Sprintf("capability;single;type=2;bit=%d", k))
	}
	// every mask size 0..40 with each single bit, and the all-true mask
	for n := 0; n <= 40; n++ {
		for k := 0; k < n; k++ {
			m := make([]bool, n)
			m[k] = true
			one(capSet{1: m}, fmt.Sprintf("capability;size=%d;bit=%d", n, k))
		}
		m := make([]bool, n)
		for i := range m {
			m[i] = true
		}
		one(capSet{2: m}, fmt.Sprintf("capability;size=%d;all", n))
	}
	// the largest masks whose byte length fits the length byte, and the first that does not
	for _, n := range []int{2033, 2039, 2040} {
		m := make([]bool, n)
		m[0], m[n-1] = true, true
		one(capSet{1: m}, fmt.Sprintf("capability;size=%d", n))
	}
	for _, n := range []int{2041, 2048, 2049} {
		m := make([]bool, n)
		m[0], m[n-1] = true, true
		bs := encCap(g, capSet{1: m}, false, fmt.Sprintf("capability-mask-overlong;size=%d", n))
		g.MalCase(tokCapability, bs[1:], nil, nil, fmt.Sprintf("capability-mask-overlong;size=%d", n))
	}
	// random subsets, one to four types incl. types the library does not know
	nr := 150
	if g.Thorough {
		nr = 1500
	}
	for i := 0; i < nr; i++ {
		c := capSet{}
		types := []byte{1, 2, 3, 0, 4, 255, byte(g.Rng.Intn(256))}
		for j, nt := 0, g.Rng.Range(1, 4); j < nt; j++ {
			t := types[g.Rng.Intn(len(types))]
			n := []int{107, 74, 1, g.Rng.Range(0, 130), g.Rng.Range(0, 20)}[g.Rng.Intn(5)]
			m := make([]bool, n)
			dens := g.Rng.Range(0, 4)
			for k := range m {
				m[k] = g.Rng.Intn(4) < dens
			}
			c[t] = m
		}
		one(c, fmt.Sprintf("capability;random;types=%d", len(c)))
	}
	// what the library itself sends during login
	if p, err := tds.NewCapabilityPackage([]tds.RequestCapability{tds.TDS_REQ_LANG, tds.TDS_REQ_RPC, tds.TDS_REQ_PARAM, tds.TDS_DATA_INT1, tds.TDS_WIDETABLES, tds.TDS_REQ_COMMAND_ENCRYPTION},
		[]tds.ResponseCapability{tds.TDS_RES_NOMSG, tds.TDS_RES_DR_NOKILL}, nil); err == nil {
		one(capSet(p.VerifMasks()), "capability;constructor")
	}
	// server -> client: reference encodings with 0..3 blocks, repeated and unknown types, empty masks
	bodies := [][]capBlock{
		{},
		{{1, []byte{}}},
		{{1, []byte{0}}},
		{{1, []byte{0x28}}},
		{{1, []byte{0x8c, 0x77}}},
		{{1, g.Rng.Bytes(14)}, {2, g.Rng.Bytes(10)}},
		{{2, g.Rng.Bytes(10)}, {1, g.Rng.Bytes(14)}},
		{{1, g.Rng.Bytes(14)}, {2, g.Rng.Bytes(10)}, {3, g.Rng.Bytes(1)}},
		{{1, g.Rng.Bytes(3)}, {1, g.Rng.Bytes(5)}},
		{{0, g.Rng.Bytes(3)}, {255, g.Rng.Bytes(2)}, {7, []byte{}}},
		{{1, g.Rng.Bytes(255)}},
		{{1, g.Rng.Bytes(254)}, {2, g.Rng.Bytes(255)}},
	}
	for i := 0; i < 40; i++ {
		var bl []capBlock
		for j, nb := 0, g.Rng.Range(0, 5); j < nb; j++ {
			bl = append(bl, capBlock{g.Rng.Range(0, 5), g.Rng.Bytes(g.Rng.Range(0, 20))})
		}
		bodies = append(bodies, bl)
	}
	var valid []byte
	for _, bl := range bodies {
		body := refEncCapBlocks(bl)
		decCase(g, tokCapability, body, nil, nil, refCapDecoded(bl).tree(), renderCapability, fmt.Sprintf("capability;server;blocks=%d", len(bl)))
		if len(body) < 40 && len(bl) > 1 {
			valid = body
		}
	}
	// the value mask functions on their own (kind 1002 = valueMask.Bytes, 1003 = parseValueMask); the reference
	// verdict is the bit formula / "Bytes(parse(bs)) = 00 ++ bs"
	if g.Want[1] {
		maskCase := func(m []bool, tag string) {
			bs := tds.VerifValueMaskBytes(m)
			g.Out.Case(1, sx.L{sx.I(kindMaskBytes), sx.L{boolsTree(m)}}, sx.L{sx.I(0), sx.B(bs), sx.Bool(eq(bs, refMaskBytes(m)))}, tag)
		}
		for n := 0; n <= 66; n++ {
			for k := 0; k < n; k++ {
				m := make([]bool, n)
				m[k] = true
				maskCase(m, fmt.Sprintf("maskbytes;size=%d;single", n))
			}
			for i := 0; i < 3; i++ {
				m := make([]bool, n)
				for k := range m {
					m[k] = g.Rng.Bool()
				}
				maskCase(m, fmt.Sprintf("maskbytes;size=%d;random", n))
			}
		}
		parseCase := func(bs []byte, tag string) {
			m := tds.VerifParseValueMask(bs)
			want := make([]bool, 8*len(bs)+1)
			for _, k := range refMaskNumbers(bs) {
				want[k] = true
			}
			ok := len(m) == len(want) && sameInts(capNumbers(m), capNumbers(want)) && eq(tds.VerifValueMaskBytes(m), pk.Cat([]byte{0}, bs))
			mb, _ := boolsTree(m).(sx.B)
			g.Out.Case(1, sx.L{sx.I(kindParseMask), sx.L{sx.B(bs)}}, sx.L{sx.I(0), mb, sx.Bool(ok)}, tag)
		}
		parseCase([]byte{}, "parsemask;len=0")
		for b := 0; b < 256; b++ {
			parseCase([]byte{byte(b)}, "parsemask;len=1")
		}
		for n := 2; n <= 16; n++ {
			for i := 0; i < 10; i++ {
				parseCase(g.Rng.Bytes(n), fmt.Sprintf("parsemask;len=%d", n))
			}
		}
		parseCase([]byte{0x28}, "parsemask;unit-test")
		parseCase([]byte{0x8c, 0x77}, "parsemask;unit-test")
	}
	// total length replaced
	base := refEncCapBlocks([]capBlock{{1, []byte{1, 2, 3}}, {2, []byte{4, 5}}})
	total := len(base) - 2
	for _, l := range []int{0, 1, 2, 3, 4, 5, 6, 65535, total - 1, total + 1} {
		m := append([]byte{}, base...)
		copy(m, pk.LE16(l))
		g.MalCase(tokCapability, m, nil, nil, fmt.Sprintf("capability-mal;length=%d", l))
	}
	for _, l := range []int{0, 1, 255, 2, 4} {
		m := append([]byte{}, base...)
		m[3] = byte(l)
		g.MalCase(tokCapability, m, nil, nil, fmt.Sprintf("capability-mal;masklen=%d", l))
	}
	malCommon(g, tokCapability, valid, nil, noLast, "capability-mal")
}
