// Package b1: generators, reference codecs and renderers for LOGINACK, MSG, CAPABILITY, RETURNSTATUS,
// ORDERBY/ORDERBY2, ERROR, LANGUAGE, LOGOUT and the fixed-layout login record (kind 1000; 1001 = writeString).
// The reference encoders/decoders are written from the TDS 5.0 layouts, not from the library.
package b1

import (
	"bytes"

	"github.com/SAP/go-dblib/tds"
	"verifharness/pk"
	"verifharness/sx"
)

const (
	tokLanguage     = 0x21
	tokOrderBy2     = 0x22
	tokMsg          = 0x65
	tokLogout       = 0x71
	tokReturnStatus = 0x79
	tokOrderBy      = 0xA9
	tokError        = 0xAA
	tokLoginAck     = 0xAD
	tokCapability   = 0xE2
	kindLoginRec    = 1000
	kindWriteString = 1001
	kindMaskBytes   = 1002
	kindParseMask   = 1003
)

func init() {
	pk.Register(func(g *pk.Gen) {
		genLoginAck(g)
		genMsg(g)
		genReturnStatus(g)
		genLogout(g)
		genLanguage(g)
		genError(g)
		genOrderBy(g)
		genCapability(g)
		genLoginRec(g)
	})
}

// decCase is g.DecCase; for big bodies the exhaustive prefix case (fn 3) is left out (quadratic).
func decCase(g *pk.Gen, tok int, body []byte, ctx sx.T, last tds.Package, expected sx.T, render func(tds.Package) sx.T, tag string) {
	if len(body) > 1500 && g.Want[3] {
		g.Want[3] = false
		g.DecCase(tok, body, ctx, last, expected, render, tag)
		g.Want[3] = true
		return
	}
	g.DecCase(tok, body, ctx, last, expected, render, tag)
}

// malCommon: truncated, extended and random bodies for a token.
func malCommon(g *pk.Gen, tok int, valid []byte, ctx sx.T, last func() tds.Package, class string) {
	if !g.Want[4] {
		return
	}
	for _, n := range []int{0, 1, len(valid) / 2, len(valid) - 1} {
		if n >= 0 && n <= len(valid) {
			g.MalCase(tok, valid[:n], ctx, last(), class+";truncated")
		}
	}
	g.MalCase(tok, pk.Cat(valid, []byte{0}), ctx, last(), class+";extended")
	g.MalCase(tok, pk.Cat(valid, g.Rng.Bytes(7)), ctx, last(), class+";extended")
	nr := 40
	if g.Thorough {
		nr = 400
	}
	for i := 0; i < nr; i++ {
		g.MalCase(tok, g.Rng.Bytes(g.Rng.Range(0, 24)), ctx, last(), class+";random")
	}
	// single byte mutations of the valid body
	for i := 0; i < len(valid) && i < 24; i++ {
		for _, v := range []byte{0, 1, 0x7f, 0x80, 0xff} {
			m := append([]byte{}, valid...)
			m[i] = v
			g.MalCase(tok, m, ctx, last(), class+";mutated")
		}
	}
}

func noLast() tds.Package { return nil }

// lens: boundary lengths of a prefix with maximum max, plus random ones.
func lens(g *pk.Gen, max int) []int {
	l := []int{0, 1, max - 1, max}
	l = append(l, g.Rng.Range(2, 40), g.Rng.Range(2, max-1))
	return l
}

func eq(a, b []byte) bool { return bytes.Equal(a, b) }

// reader over a byte slice for the reference decoders
type rd struct {
	b   []byte
	bad bool
}

func (r *rd) take(n int) []byte {
	if r.bad || n < 0 || n > len(r.b) {
		r.bad = true
		return nil
	}
	x := r.b[:n]
	r.b = r.b[n:]
	return x
}
func (r *rd) u8() int {
	x := r.take(1)
	if x == nil {
		return 0
	}
	return int(x[0])
}
func (r *rd) u16() int {
	x := r.take(2)
	if x == nil {
		return 0
	}
	return int(x[0]) | int(x[1])<<8
}
func (r *rd) u32() int64 {
	x := r.take(4)
	if x == nil {
		return 0
	}
	return int64(x[0]) | int64(x[1])<<8 | int64(x[2])<<16 | int64(x[3])<<24
}
func (r *rd) done() bool { return !r.bad && len(r.b) == 0 }
