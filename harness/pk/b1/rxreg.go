package b1

import (
	"github.com/SAP/go-dblib/tds"
	"verifharness/pk"
	"verifharness/sx"
)

// renderers of delivered packages for the channel-level harness
func init() {
	pk.RegisterRenderer(func(p tds.Package) (int, sx.T, bool) {
		switch p.(type) {
		case *tds.LoginAckPackage:
			return int(tds.TDS_LOGINACK), renderLoginAck(p), true
		case *tds.MsgPackage:
			return int(tds.TDS_MSG), renderMsg(p), true
		case *tds.CapabilityPackage:
			return int(tds.TDS_CAPABILITY), renderCapability(p), true
		case *tds.ReturnStatusPackage:
			return int(tds.TDS_RETURNSTATUS), renderReturnStatus(p), true
		case *tds.LogoutPackage:
			return int(tds.TDS_LOGOUT), renderLogout(p), true
		case *tds.LanguagePackage:
			return int(tds.TDS_LANGUAGE), renderLanguage(p), true
		case *tds.ErrorPackage:
			return int(tds.TDS_ERROR), renderError(p), true
		case *tds.OrderByPackage:
			return int(tds.TDS_ORDERBY), renderOrderBy(p), true
		case *tds.OrderBy2Package:
			return int(tds.TDS_ORDERBY2), renderOrderBy(p), true
		}
		return 0, nil, false
	})
}
