package b1

import (
	"fmt"

	"github.com/SAP/go-dblib/tds"
	"verifharness/pk"
	"verifharness/sx"
)

// ---------------------------------------------------------------- LOGINACK
// TDS 5.0: token, Length u16 (bytes that follow), Status u8, TDSVersion[4], NameLength u8, ProgName, ProgVersion[4]
type loginAck struct {
	length, status, namelen int
	ver, name, pver         []byte
}

func (f loginAck) tree() sx.T {
	return sx.L{sx.I(int64(f.length)), sx.I(int64(f.status)), sx.B(f.ver), sx.I(int64(f.namelen)), sx.B(f.name), sx.B(f.pver)}
}

func refEncLoginAck(status int, ver, name, pver []byte) []byte {
	return pk.Cat(pk.LE16(10+len(name)), []byte{byte(status)}, ver, []byte{byte(len(name))}, name, pver)
}

// strict layout decoder: every length must be consistent and nothing may be left over
func refDecLoginAck(body []byte) (loginAck, bool) {
	r := &rd{b: body}
	var f loginAck
	f.length = r.u16()
	if f.length != len(r.b) {
		return f, false
	}
	f.status = r.u8()
	f.ver = r.take(4)
	f.namelen = r.u8()
	f.name = r.take(f.namelen)
	f.pver = r.take(4)
	return f, r.done()
}

func renderLoginAck(p tds.Package) sx.T {
	la := p.(*tds.LoginAckPackage)
	return loginAck{int(la.Length), int(la.Status), int(la.NameLength), la.Version.Bytes(), []byte(la.ProgramName), la.ProgramVersion.Bytes()}.tree()
}

func genLoginAck(g *pk.Gen) {
	mk := func(f loginAck) tds.Package {
		v, _ := tds.NewVersion(f.ver)
		pv, _ := tds.NewVersion(f.pver)
		return &tds.LoginAckPackage{Length: uint16(f.length), Status: tds.LoginAckStatus(f.status), Version: v,
			NameLength: uint8(f.namelen), ProgramName: string(f.name), ProgramVersion: pv}
	}
	var valid []byte
	for _, st := range []int{5, 6, 7, 0, 255} {
		for _, nl := range lens(g, 255) {
			name := g.Rng.Bytes(nl)
			ver, pver := g.Rng.Bytes(4), g.Rng.Bytes(4)
			if st == 5 {
				ver, pver = []byte{5, 0, 0, 0}, []byte{16, 0, 0, 1}
			}
			f := loginAck{10 + nl, st, nl, ver, name, pver}
			tag := fmt.Sprintf("loginack;status=%d;name=%d", st, nl)
			// server -> client: reference encoding read by the implementation
			body := refEncLoginAck(st, ver, name, pver)
			decCase(g, tokLoginAck, body, nil, nil, f.tree(), renderLoginAck, tag)
			valid = body
			// the library's own writer, checked by the strict reference decoder, then read back
			bs := g.EncCase(tokLoginAck, f.tree(), mk(f), func(bs []byte) bool {
				d, ok := refDecLoginAck(bs[1:])
				return ok && bs[0] == tokLoginAck && d.status == st && eq(d.ver, ver) && eq(d.name, name) && eq(d.pver, pver)
			}, tag)
			decCase(g, tokLoginAck, bs[1:], nil, nil, f.tree(), renderLoginAck, tag+";readback")
		}
	}
	// the writer copies Length and NameLength from the struct: inconsistent values go out as they are
	for _, f := range []loginAck{
		{0, 5, 0, []byte{5, 0, 0, 0}, []byte("abc"), []byte{1, 2, 3, 4}},
		{65535, 5, 3, []byte{5, 0, 0, 0}, []byte("abc"), []byte{1, 2, 3, 4}},
		{13, 5, 2, []byte{5, 0, 0, 0}, []byte("abc"), []byte{1, 2, 3, 4}},
		{13, 5, 200, []byte{5, 0, 0, 0}, []byte("abc"), []byte{1, 2, 3, 4}},
	} {
		tag := fmt.Sprintf("loginack-inconsistent;length=%d;namelen=%d", f.length, f.namelen)
		bs := g.EncCase(tokLoginAck, f.tree(), mk(f), nil, tag)
		g.MalCase(tokLoginAck, bs[1:], nil, nil, tag)
	}
	// Length is not checked by the reader
	for _, l := range []int{0, 1, 9, 11, 65535} {
		body := refEncLoginAck(5, []byte{5, 0, 0, 0}, []byte("ASE"), []byte{16, 0, 0, 1})
		copy(body, pk.LE16(l))
		f := loginAck{l, 5, 3, []byte{5, 0, 0, 0}, []byte("ASE"), []byte{16, 0, 0, 1}}
		decCase(g, tokLoginAck, body, nil, nil, f.tree(), renderLoginAck, fmt.Sprintf("loginack-length-unchecked;length=%d", l))
	}
	// name length replaced
	base := refEncLoginAck(5, []byte{5, 0, 0, 0}, []byte("ASE"), []byte{16, 0, 0, 1})
	for _, nl := range []int{0, 1, 2, 4, 255} {
		m := append([]byte{}, base...)
		m[7] = byte(nl)
		g.MalCase(tokLoginAck, m, nil, nil, fmt.Sprintf("loginack-mal;namelen=%d", nl))
	}
	malCommon(g, tokLoginAck, valid, nil, noLast, "loginack-mal")
}

// ---------------------------------------------------------------- MSG
// TDS 5.0: token, Length u8 (= 3), Status u8, MsgId u16
func renderMsg(p tds.Package) sx.T {
	m := p.(*tds.MsgPackage)
	return sx.L{sx.I(int64(m.Status)), sx.I(int64(m.MsgId))}
}

func genMsg(g *pk.Gen) {
	ids := []int{0, 1, 2, 14, 30, 35, 36, 255, 256, 65534, 65535}
	for i := 0; i < 6; i++ {
		ids = append(ids, g.Rng.Range(0, 65535))
	}
	for _, st := range []int{0, 1, 2, 255} {
		for _, id := range ids {
			tag := fmt.Sprintf("msg;status=%d", st)
			fields := sx.L{sx.I(int64(st)), sx.I(int64(id))}
			body := pk.Cat([]byte{3, byte(st)}, pk.LE16(id))
			decCase(g, tokMsg, body, nil, nil, fields, renderMsg, tag)
			bs := g.EncCase(tokMsg, fields, tds.NewMsgPackage(tds.TDSMsgStatus(st), tds.TDSMsgId(id)), func(bs []byte) bool {
				r := &rd{b: bs}
				return r.u8() == tokMsg && r.u8() == 3 && r.u8() == st && r.u16() == id && r.done()
			}, tag)
			decCase(g, tokMsg, bs[1:], nil, nil, fields, renderMsg, tag+";readback")
		}
	}
	// the length byte is read and discarded
	for _, l := range []int{0, 1, 2, 4, 255} {
		body := []byte{byte(l), 1, 14, 0}
		decCase(g, tokMsg, body, nil, nil, sx.L{sx.I(1), sx.I(14)}, renderMsg, fmt.Sprintf("msg-length-unchecked;length=%d", l))
	}
	malCommon(g, tokMsg, []byte{3, 1, 14, 0}, nil, noLast, "msg-mal")
}

// ---------------------------------------------------------------- RETURNSTATUS
// TDS 5.0: token, int32
func renderReturnStatus(p tds.Package) sx.T {
	return sx.L{sx.I(int64(p.(*tds.ReturnStatusPackage).ReturnValue))}
}

func genReturnStatus(g *pk.Gen) {
	vals := []int64{0, 1, -1, 2, 127, 128, 255, 256, -256, 32767, 32768, 65535, 65536, 2147483647, -2147483648, -2147483647, 2147483646}
	for i := 0; i < 20; i++ {
		vals = append(vals, int64(int32(g.Rng.U64())))
	}
	for _, v := range vals {
		fields := sx.L{sx.I(v)}
		body := pk.LE32(v)
		decCase(g, tokReturnStatus, body, nil, nil, fields, renderReturnStatus, "returnstatus")
		bs := g.EncCase(tokReturnStatus, fields, &tds.ReturnStatusPackage{ReturnValue: int32(v)}, func(bs []byte) bool {
			r := &rd{b: bs}
			return r.u8() == tokReturnStatus && int64(int32(r.u32())) == v && r.done()
		}, "returnstatus")
		decCase(g, tokReturnStatus, bs[1:], nil, nil, fields, renderReturnStatus, "returnstatus;readback")
	}
	malCommon(g, tokReturnStatus, []byte{1, 2, 3, 4}, nil, noLast, "returnstatus-mal")
}

// ---------------------------------------------------------------- LOGOUT
// TDS 5.0: token, Options u8 (only 0 is defined)
func renderLogout(p tds.Package) sx.T {
	return sx.L{sx.I(int64(p.(*tds.LogoutPackage).Options))}
}

func genLogout(g *pk.Gen) {
	for o := 0; o < 256; o++ {
		class := "logout"
		if o != 0 {
			class = "logout-option"
		}
		fields := sx.L{sx.I(int64(o))}
		bs := g.EncCase(tokLogout, fields, &tds.LogoutPackage{Options: uint8(o)}, func(bs []byte) bool {
			return len(bs) == 2 && bs[0] == tokLogout && int(bs[1]) == o
		}, class)
		if o == 0 {
			decCase(g, tokLogout, bs[1:], nil, nil, fields, renderLogout, class+";readback")
			decCase(g, tokLogout, []byte{0}, nil, nil, fields, renderLogout, class)
		} else {
			g.MalCase(tokLogout, bs[1:], nil, nil, class+";readback")
		}
	}
	malCommon(g, tokLogout, []byte{0}, nil, noLast, "logout-mal")
}

// ---------------------------------------------------------------- LANGUAGE
// TDS 5.0: token, Length u32 (bytes that follow), Status u8, text
func renderLanguage(p tds.Package) sx.T {
	l := p.(*tds.LanguagePackage)
	return sx.L{sx.I(int64(l.Status)), pk.S(l.Cmd)}
}

func refDecLanguage(bs []byte) (int, []byte, bool) {
	r := &rd{b: bs}
	if r.u8() != tokLanguage {
		return 0, nil, false
	}
	l := r.u32()
	if l != int64(len(r.b)) || l < 1 {
		return 0, nil, false
	}
	st := r.u8()
	cmd := r.take(int(l) - 1)
	return st, cmd, r.done()
}

func genLanguage(g *pk.Gen) {
	cl := []int{0, 1, 2, 254, 255, 256, 257, 65534, 65535, 65536, 70001, g.Rng.Range(3, 200), g.Rng.Range(300, 3000)}
	var valid []byte
	for _, st := range []int{0, 1, 4, 5, 255} {
		for _, n := range cl {
			if n > 300 && st != 0 && st != 1 {
				continue
			}
			cmd := g.Rng.Bytes(n)
			if n == 2 {
				cmd = []byte("go")
			}
			fields := sx.L{sx.I(int64(st)), sx.B(cmd)}
			tag := fmt.Sprintf("language;status=%d;cmd=%d", st, n)
			body := pk.Cat(pk.LE32(int64(1+n)), []byte{byte(st)}, cmd)
			decCase(g, tokLanguage, body, nil, nil, fields, renderLanguage, tag)
			if n < 300 {
				valid = body
			}
			bs := g.EncCase(tokLanguage, fields, &tds.LanguagePackage{Status: tds.LanguageStatus(st), Cmd: string(cmd)}, func(bs []byte) bool {
				s, c, ok := refDecLanguage(bs)
				return ok && s == st && eq(c, cmd)
			}, tag)
			decCase(g, tokLanguage, bs[1:], nil, nil, fields, renderLanguage, tag+";readback")
		}
	}
	// the status is an int converted with byte(): values outside 0..255 are truncated silently
	for _, st := range []int{256, 257, -1, 1 << 20} {
		fields := sx.L{sx.I(int64(st)), sx.B([]byte("x"))}
		g.EncCase(tokLanguage, fields, &tds.LanguagePackage{Status: tds.LanguageStatus(st), Cmd: "x"}, nil, fmt.Sprintf("language-status-truncated;status=%d", st))
	}
	// length field replaced
	base := pk.Cat(pk.LE32(6), []byte{0}, []byte("hello"))
	for _, l := range []int64{0, 1, 2, 5, 7, 255, 65535, 65536, 0x7fffffff, 0x80000000, 0xffffffff} {
		m := append([]byte{}, base...)
		copy(m, pk.LE32(l))
		g.MalCase(tokLanguage, m, nil, nil, fmt.Sprintf("language-mal;length=%d", l))
	}
	malCommon(g, tokLanguage, valid, nil, noLast, "language-mal")
}

// ---------------------------------------------------------------- ERROR
// TDS 5.0: token, Length u16, MsgNumber i32, State u8, Class u8, MsgLength u16, Msg, ServerLength u8, Server,
// ProcLength u8, Proc, LineNumber u16
type errF struct {
	num               int64
	state, class      int
	msg, server, proc []byte
	line              int
}

func (f errF) tree() sx.T {
	return sx.L{sx.I(f.num), sx.I(int64(f.state)), sx.I(int64(f.class)), sx.B(f.msg), sx.B(f.server), sx.B(f.proc), sx.I(int64(f.line))}
}

func refEncError(f errF) []byte {
	rest := pk.Cat(pk.LE32(f.num), []byte{byte(f.state), byte(f.class)}, pk.LP16(f.msg), pk.LP8(f.server), pk.LP8(f.proc), pk.LE16(f.line))
	return pk.Cat(pk.LE16(len(rest)), rest)
}

func refDecError(bs []byte) (errF, bool) {
	r := &rd{b: bs}
	var f errF
	if r.u8() != tokError {
		return f, false
	}
	if r.u16() != len(r.b) {
		return f, false
	}
	f.num = int64(int32(r.u32()))
	f.state, f.class = r.u8(), r.u8()
	f.msg = r.take(r.u16())
	f.server = r.take(r.u8())
	f.proc = r.take(r.u8())
	f.line = r.u16()
	return f, r.done()
}

func renderError(p tds.Package) sx.T {
	e := p.(*tds.ErrorPackage)
	return errF{int64(e.ErrorNumber), int(e.State), int(e.Class), []byte(e.ErrorMsg), []byte(e.ServerName), []byte(e.ProcName), int(e.LineNr)}.tree()
}

func genError(g *pk.Gen) {
	mk := func(f errF) tds.Package {
		return &tds.ErrorPackage{ErrorNumber: int32(f.num), State: uint8(f.state), Class: uint8(f.class), ErrorMsg: string(f.msg),
			ServerName: string(f.server), ProcName: string(f.proc), LineNr: uint16(f.line)}
	}
	one := func(f errF, tag string) []byte {
		body := refEncError(f)
		decCase(g, tokError, body, nil, nil, f.tree(), renderError, tag)
		bs := g.EncCase(tokError, f.tree(), mk(f), func(bs []byte) bool {
			d, ok := refDecError(bs)
			return ok && d.num == f.num && d.state == f.state && d.class == f.class && eq(d.msg, f.msg) && eq(d.server, f.server) && eq(d.proc, f.proc) && d.line == f.line
		}, tag)
		decCase(g, tokError, bs[1:], nil, nil, f.tree(), renderError, tag+";readback")
		return body
	}
	var valid []byte
	// all combinations empty / non-empty strings, integer boundaries
	for mask := 0; mask < 8; mask++ {
		for _, num := range []int64{0, 1, -1, 2147483647, -2147483648} {
			f := errF{num: num, state: g.Rng.Range(0, 255), class: g.Rng.Range(0, 255), line: g.Rng.Range(0, 65535)}
			if mask&1 != 0 {
				f.msg = g.Rng.Bytes(g.Rng.Range(1, 60))
			}
			if mask&2 != 0 {
				f.server = g.Rng.Bytes(g.Rng.Range(1, 30))
			}
			if mask&4 != 0 {
				f.proc = g.Rng.Bytes(g.Rng.Range(1, 30))
			}
			valid = one(f, fmt.Sprintf("error;parts=%d", mask))
		}
	}
	for _, st := range []int{0, 255} {
		for _, ln := range []int{0, 1, 65534, 65535} {
			one(errF{num: 5, state: st, class: 255 - st, msg: []byte("m"), line: ln}, "error;int-boundaries")
		}
	}
	// string lengths at the boundaries of each prefix (the u16 total limits the message to 65535-12-others)
	for _, n := range []int{0, 1, 255, 256, 65522, 65523} {
		one(errF{num: 1, msg: g.Rng.Bytes(n)}, fmt.Sprintf("error;msg=%d", n))
	}
	for _, n := range lens(g, 255) {
		one(errF{num: 1, msg: []byte("x"), server: g.Rng.Bytes(n)}, fmt.Sprintf("error;server=%d", n))
		one(errF{num: 1, msg: []byte("x"), proc: g.Rng.Bytes(n)}, fmt.Sprintf("error;proc=%d", n))
		one(errF{num: 1, msg: []byte("x"), server: g.Rng.Bytes(n), proc: g.Rng.Bytes(255 - n)}, fmt.Sprintf("error;server=%d;proc=%d", n, 255-n))
	}
	one(errF{num: 1, msg: g.Rng.Bytes(65523 - 510), server: g.Rng.Bytes(255), proc: g.Rng.Bytes(255)}, "error;all-max")
	// lengths that do not fit their prefix are truncated by the writer, not rejected
	for _, f := range []errF{
		{num: 1, msg: g.Rng.Bytes(65524)},
		{num: 1, msg: g.Rng.Bytes(65536)},
		{num: 1, msg: []byte("x"), server: g.Rng.Bytes(256)},
		{num: 1, msg: []byte("x"), proc: g.Rng.Bytes(300)},
	} {
		tag := fmt.Sprintf("error-overlong;msg=%d;server=%d;proc=%d", len(f.msg), len(f.server), len(f.proc))
		bs := g.EncCase(tokError, f.tree(), mk(f), nil, tag)
		g.MalCase(tokError, bs[1:], nil, nil, tag)
	}
	// length / count fields replaced
	f := errF{num: 7, state: 1, class: 2, msg: []byte("msg"), server: []byte("srv"), proc: []byte("proc"), line: 9}
	base := refEncError(f)
	total := len(base) - 2
	for _, l := range []int{0, 1, 65535, total - 1, total + 1} {
		m := append([]byte{}, base...)
		copy(m, pk.LE16(l))
		g.MalCase(tokError, m, nil, nil, fmt.Sprintf("error-mal;length=%d", l))
	}
	for _, l := range []int{0, 1, 65535, 2, 4} {
		m := append([]byte{}, base...)
		copy(m[8:], pk.LE16(l))
		g.MalCase(tokError, m, nil, nil, fmt.Sprintf("error-mal;msglen=%d", l))
	}
	for _, l := range []int{0, 1, 255, 2, 4} {
		m := append([]byte{}, base...)
		m[13] = byte(l)
		g.MalCase(tokError, m, nil, nil, fmt.Sprintf("error-mal;serverlen=%d", l))
		m = append([]byte{}, base...)
		m[17] = byte(l)
		g.MalCase(tokError, m, nil, nil, fmt.Sprintf("error-mal;proclen=%d", l))
	}
	malCommon(g, tokError, valid, nil, noLast, "error-mal")
}

// ---------------------------------------------------------------- ORDERBY / ORDERBY2
// TDS 5.0 ORDERBY : token, Length u16 (= number of columns), column numbers u8 each
// TDS 5.0 ORDERBY2: token, Length u32 (bytes that follow), count u16, column numbers u16 each
func colsTree(cols []int) sx.T {
	l := sx.L{}
	for _, c := range cols {
		l = append(l, sx.I(int64(c)))
	}
	return sx.L{l}
}

func renderOrderBy(p tds.Package) sx.T {
	switch o := p.(type) {
	case *tds.OrderByPackage:
		return colsTree(o.ColumnOrder)
	case *tds.OrderBy2Package:
		return colsTree(o.ColumnOrder)
	}
	return sx.L{}
}

func refEncOrderBy(cols []int) []byte {
	b := pk.LE16(len(cols))
	for _, c := range cols {
		b = append(b, byte(c))
	}
	return b
}

func refEncOrderBy2(cols []int) []byte {
	b := pk.Cat(pk.LE32(int64(2+2*len(cols))), pk.LE16(len(cols)))
	for _, c := range cols {
		b = append(b, pk.LE16(c)...)
	}
	return b
}

func genOrderBy(g *pk.Gen) {
	rowfmt := func() tds.Package { return &tds.RowFmtPackage{} }
	// the executable model reads column by column with a linear length check: keep the largest counts moderate
	// (the count field is exercised up to 65535 by the malformed cases below)
	counts := []int{0, 1, 2, 3, 255, 256, 257, 1000, 5000, g.Rng.Range(4, 200)}
	if g.Thorough {
		counts = append(counts, 20000)
	}
	for _, n := range counts {
		ctx := sx.L{sx.I(int64(n))}
		cols := make([]int, n)
		cols2 := make([]int, n)
		for i := range cols {
			cols[i] = g.Rng.Range(0, 255)
			cols2[i] = g.Rng.Range(0, 65535)
		}
		if n >= 3 {
			cols[0], cols[1], cols[2] = 0, 1, 255
			cols2[0], cols2[1], cols2[2] = 0, 255, 65535
		}
		decCase(g, tokOrderBy, refEncOrderBy(cols), ctx, rowfmt(), colsTree(cols), renderOrderBy, fmt.Sprintf("orderby;columns=%d", n))
		decCase(g, tokOrderBy2, refEncOrderBy2(cols2), ctx, rowfmt(), colsTree(cols2), renderOrderBy, fmt.Sprintf("orderby2;columns=%d", n))
	}
	// the library cannot write them
	g.EncCase(tokOrderBy, colsTree([]int{1, 2}), &tds.OrderByPackage{ColumnOrder: []int{1, 2}}, nil, "orderby;write")
	g.EncCase(tokOrderBy2, colsTree([]int{1, 2}), &tds.OrderBy2Package{OrderByPackage: tds.OrderByPackage{ColumnOrder: []int{1, 2}}}, nil, "orderby2;write")
	// not preceded by a ROWFMT: rejected before anything is read
	v1, v2 := refEncOrderBy([]int{2, 1, 3}), refEncOrderBy2([]int{2, 1, 3})
	g.MalCase(tokOrderBy, v1, sx.L{}, nil, "orderby-no-rowfmt;last=nil")
	g.MalCase(tokOrderBy2, v2, sx.L{}, nil, "orderby-no-rowfmt;last=nil")
	g.MalCase(tokOrderBy, v1, sx.L{}, &tds.DonePackage{}, "orderby-no-rowfmt;last=done")
	g.MalCase(tokOrderBy2, v2, sx.L{}, &tds.ParamFmtPackage{}, "orderby-no-rowfmt;last=paramfmt")
	g.MalCase(tokOrderBy, []byte{}, sx.L{}, nil, "orderby-no-rowfmt;empty")
	// length / count fields replaced
	ctx := sx.L{sx.I(3)}
	for _, c := range []int{0, 1, 2, 4, 65535} {
		m := append([]byte{}, v1...)
		copy(m, pk.LE16(c))
		g.MalCase(tokOrderBy, m, ctx, rowfmt(), fmt.Sprintf("orderby-mal;count=%d", c))
		m = append([]byte{}, v2...)
		copy(m[4:], pk.LE16(c))
		g.MalCase(tokOrderBy2, m, ctx, rowfmt(), fmt.Sprintf("orderby2-mal;count=%d", c))
	}
	for _, l := range []int64{0, 1, 2, 7, 9, 65535, 0x7fffffff, 0xffffffff} {
		m := append([]byte{}, v2...)
		copy(m, pk.LE32(l))
		g.MalCase(tokOrderBy2, m, ctx, rowfmt(), fmt.Sprintf("orderby2-mal;length=%d", l))
	}
	malCommon(g, tokOrderBy, v1, ctx, rowfmt, "orderby-mal")
	malCommon(g, tokOrderBy2, v2, ctx, rowfmt, "orderby2-mal")
}
