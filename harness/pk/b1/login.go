package b1

import (
	"fmt"

	"github.com/SAP/go-dblib/tds"
	"verifharness/pk"
	"verifharness/sx"
)

// ---------------------------------------------------------------- login record (kind 1000), writeString (1001)
// Configuration tree: (hostname username password hostproc appname servname language charset encrypt ((name pw) ...))

type loginCfg struct {
	hostname, username, password, hostproc, appname, servname, language, charset []byte
	encrypt                                                                      int
	remote                                                                       [][2][]byte
}

func (c loginCfg) tree() sx.T {
	rs := sx.L{}
	for _, r := range c.remote {
		rs = append(rs, sx.L{sx.B(r[0]), sx.B(r[1])})
	}
	return sx.L{sx.B(c.hostname), sx.B(c.username), sx.B(c.password), sx.B(c.hostproc), sx.B(c.appname), sx.B(c.servname),
		sx.B(c.language), sx.B(c.charset), sx.I(int64(c.encrypt)), rs}
}

func (c loginCfg) config() *tds.LoginConfig {
	info := &tds.Info{}
	info.Username = string(c.username)
	info.Password = string(c.password)
	lc := &tds.LoginConfig{DSN: info, Hostname: string(c.hostname), HostProc: string(c.hostproc), AppName: string(c.appname),
		ServName: string(c.servname), Language: string(c.language), CharSet: string(c.charset), Encrypt: tds.TDSMsgId(c.encrypt)}
	for _, r := range c.remote {
		lc.RemoteServers = append(lc.RemoteServers, tds.LoginConfigRemoteServer{Name: string(r[0]), Password: string(r[1])})
	}
	return lc
}

// reference decoder of the TDS 5.0 login record (568 bytes):
//
//	lhostname[30] lhostlen | lusername[30] len | lpw[30] len | lhostproc[30] len | lint2 lint4 lchar lflt ldate lusedb
//	ldmpld linterfacespare ltype | lbufsize[4] | lspare[3] | lappname[30] len | lservname[30] len | lrempw[255] len |
//	ltds[4] | lprogname[10] len | lprogvers[4] | lnoshort lflt4 ldate4 | llanguage[30] len | lsetlang | loldsecure[2] |
//	lseclogin lsecbulk lhalogin | lhasessionid[6] | lsecspare[2] | lcharset[30] len | lsetcharset | lpacketsize[6] len | ldummy[4]
type loginRec struct {
	str   map[string][]byte
	bytes map[string][]byte
}

func refSlot(r *rd, pad int) []byte {
	body := r.take(pad)
	n := r.u8()
	if r.bad || n > pad {
		r.bad = true
		return nil
	}
	for _, b := range body[n:] {
		if b != 0 {
			r.bad = true
			return nil
		}
	}
	return body[:n]
}

func refDecLogin(bs []byte) (loginRec, bool) {
	r := &rd{b: bs}
	rec := loginRec{str: map[string][]byte{}, bytes: map[string][]byte{}}
	for _, n := range []string{"hostname", "username", "password", "hostproc"} {
		rec.str[n] = refSlot(r, 30)
	}
	rec.bytes["types"] = r.take(9)
	rec.bytes["bufsize"] = r.take(4)
	rec.bytes["spare"] = r.take(3)
	rec.str["appname"] = refSlot(r, 30)
	rec.str["servname"] = refSlot(r, 30)
	rec.str["rempw"] = refSlot(r, 255)
	rec.bytes["tds"] = r.take(4)
	rec.str["progname"] = refSlot(r, 10)
	rec.bytes["progvers"] = r.take(4)
	rec.bytes["conv"] = r.take(3)
	rec.str["language"] = refSlot(r, 30)
	rec.bytes["setlang"] = r.take(1)
	rec.bytes["oldsecure"] = r.take(2)
	rec.bytes["sec"] = r.take(3)
	rec.bytes["hasession"] = r.take(6)
	rec.bytes["secspare"] = r.take(2)
	rec.str["charset"] = refSlot(r, 30)
	rec.bytes["setcharset"] = r.take(1)
	rec.str["packetsize"] = refSlot(r, 6)
	rec.bytes["dummy"] = r.take(4)
	return rec, r.done()
}

func isEncMode(e int) bool {
	return e == int(tds.TDS_MSG_SEC_ENCRYPT) || e == int(tds.TDS_MSG_SEC_ENCRYPT2) || e == int(tds.TDS_MSG_SEC_ENCRYPT3) || e == int(tds.TDS_MSG_SEC_ENCRYPT4)
}

// what a server has to find in the record for a configuration
func refLoginVerdict(bs []byte, c loginCfg) bool {
	if len(bs) != 568 {
		return false
	}
	rec, ok := refDecLogin(bs)
	if !ok {
		return false
	}
	pw := c.password
	if isEncMode(c.encrypt) {
		pw = nil
	}
	sec := byte(0)
	switch c.encrypt {
	case int(tds.TDS_MSG_SEC_ENCRYPT):
		sec = 0x01
	case int(tds.TDS_MSG_SEC_ENCRYPT2):
		sec = 0x21
	case int(tds.TDS_MSG_SEC_ENCRYPT3), int(tds.TDS_MSG_SEC_ENCRYPT4):
		sec = 0xa1
	}
	wantS := map[string][]byte{"hostname": c.hostname, "username": c.username, "password": pw, "hostproc": c.hostproc,
		"appname": c.appname, "servname": c.servname, "rempw": nil, "progname": []byte("go-ase/tds"), "language": c.language,
		"charset": c.charset, "packetsize": []byte("512")}
	wantB := map[string][]byte{"types": {3, 1, 6, 10, 9, 1, 1, 0, 0}, "bufsize": {0, 0, 0, 0}, "spare": {0, 0, 0}, "tds": {5, 0, 0, 0},
		"progvers": {0, 1, 0, 0}, "conv": {0, 13, 17}, "setlang": {1}, "oldsecure": {0, 0}, "sec": {sec, 1, 1},
		"hasession": {0, 0, 0, 0, 0, 0}, "secspare": {0, 0}, "setcharset": {1}, "dummy": {0, 0, 0, 0}}
	if len(rec.str) != len(wantS) || len(rec.bytes) != len(wantB) {
		return false
	}
	for k, v := range wantS {
		if !eq(rec.str[k], v) {
			return false
		}
	}
	for k, v := range wantB {
		if !eq(rec.bytes[k], v) {
			return false
		}
	}
	return true
}

func loginCase(g *pk.Gen, c loginCfg, tag string) {
	if !g.Want[1] {
		return
	}
	in := sx.L{sx.I(kindLoginRec), c.tree()}
	var out sx.T
	func() {
		defer func() {
			if r := recover(); r != nil {
				out = sx.L{sx.I(-1)}
			}
		}()
		p, err := tds.VerifLoginPack(c.config())
		if err != nil {
			out = sx.L{sx.I(2)}
			return
		}
		bs, werr, panicked := pk.Written(p)
		switch {
		case panicked:
			out = sx.L{sx.I(-1)}
		case werr != nil:
			out = sx.L{sx.I(2)}
		default:
			out = sx.L{sx.I(0), sx.B(bs), sx.Bool(refLoginVerdict(bs, c))}
		}
	}()
	g.Out.Case(1, in, out, tag)
}

func genLoginRec(g *pk.Gen) {
	if !g.Want[1] {
		return
	}
	modes := []int{0, int(tds.TDS_MSG_SEC_ENCRYPT), int(tds.TDS_MSG_SEC_ENCRYPT2), int(tds.TDS_MSG_SEC_ENCRYPT3), int(tds.TDS_MSG_SEC_ENCRYPT4),
		int(tds.TDS_MSG_SEC_LOGPWD), int(tds.TDS_MSG_SEC_ENCRYPT4) + 1, 65535}
	rnd := func(max int) []byte { return g.Rng.Bytes(g.Rng.Range(0, max)) }
	base := func(mode int) loginCfg {
		return loginCfg{hostname: rnd(30), username: rnd(30), password: rnd(30), hostproc: rnd(30), appname: rnd(30), servname: rnd(30),
			language: rnd(30), charset: rnd(30), encrypt: mode}
	}
	names := []string{"hostname", "username", "password", "hostproc", "appname", "servname", "language", "charset"}
	set := func(c *loginCfg, i int, v []byte) {
		switch i {
		case 0:
			c.hostname = v
		case 1:
			c.username = v
		case 2:
			c.password = v
		case 3:
			c.hostproc = v
		case 4:
			c.appname = v
		case 5:
			c.servname = v
		case 6:
			c.language = v
		case 7:
			c.charset = v
		}
	}
	// every field length 0..31 of every string field under every Encrypt mode
	for _, mode := range modes {
		for i, name := range names {
			for n := 0; n <= 31; n++ {
				c := base(mode)
				set(&c, i, g.Rng.Bytes(n))
				class := "login"
				if n > 30 {
					class = "login-oversize"
				}
				loginCase(g, c, fmt.Sprintf("%s;encrypt=%d;%s=%d", class, mode, name, n))
			}
			// far too long, and zero bytes inside the text
			c := base(mode)
			set(&c, i, g.Rng.Bytes(g.Rng.Range(32, 300)))
			loginCase(g, c, fmt.Sprintf("login-oversize;encrypt=%d;%s=long", mode, name))
			c = base(mode)
			set(&c, i, []byte{0, 'a', 0, 0})
			loginCase(g, c, fmt.Sprintf("login;encrypt=%d;%s=zeros", mode, name))
		}
		// all fields at the same boundary
		for _, n := range []int{0, 1, 29, 30, 31} {
			c := loginCfg{encrypt: mode}
			for i := range names {
				set(&c, i, g.Rng.Bytes(n))
			}
			class := "login"
			if n > 30 {
				class = "login-oversize"
			}
			loginCase(g, c, fmt.Sprintf("%s;encrypt=%d;all=%d", class, mode, n))
		}
		// 0..3 remote servers with name / password lengths 0..256: pack() leaves the 255-byte slot empty
		for nrs := 0; nrs <= 3; nrs++ {
			for _, l := range []int{0, 1, 30, 31, 127, 254, 255, 256} {
				c := base(mode)
				for j := 0; j < nrs; j++ {
					c.remote = append(c.remote, [2][]byte{g.Rng.Bytes(g.Rng.Range(0, 30)), g.Rng.Bytes(l)})
				}
				loginCase(g, c, fmt.Sprintf("login;encrypt=%d;remote=%d;rempw=%d", mode, nrs, l))
				if nrs == 0 {
					break
				}
			}
		}
	}
	nr := 200
	if g.Thorough {
		nr = 5000
	}
	for i := 0; i < nr; i++ {
		c := base(modes[g.Rng.Intn(len(modes))])
		if g.Rng.Intn(4) == 0 {
			set(&c, g.Rng.Intn(8), g.Rng.Bytes(g.Rng.Range(28, 33)))
		}
		loginCase(g, c, "login;random")
	}
	// the defaults of NewLoginConfig
	loginCase(g, loginCfg{hostname: []byte("client.example.org"), username: []byte("sa"), password: []byte("secret"), hostproc: []byte("4711"),
		appname: []byte("github.com/SAP/go-dblib/tds"), servname: []byte("ase.example.org"), language: []byte("us_english"), charset: []byte("utf8"),
		encrypt: int(tds.TDS_MSG_SEC_ENCRYPT4)}, "login;defaults")

	// writeString on its own: every length 0..padTo+1 for the slot widths of the record, 0..256 for the 255-byte slot
	for _, pad := range []int{0, 1, 6, 10, 30, 255} {
		for n := 0; n <= pad+1; n++ {
			s := g.Rng.Bytes(n)
			in := sx.L{sx.I(kindWriteString), sx.L{sx.I(int64(pad)), sx.B(s)}}
			bs, err := tds.VerifWriteString(string(s), pad)
			class := "writestring"
			if n > pad {
				class = "writestring-oversize"
			}
			tag := fmt.Sprintf("%s;pad=%d;len=%d", class, pad, n)
			if err != nil {
				g.Out.Case(1, in, sx.L{sx.I(2)}, tag)
				continue
			}
			r := &rd{b: bs}
			got := refSlot(r, pad)
			g.Out.Case(1, in, sx.L{sx.I(0), sx.B(bs), sx.Bool(r.done() && eq(got, s) && len(bs) == pad+1)}, tag)
		}
	}
}
