// Package pk: shared machinery of the package-layer harness (properties C06, C07, C10):
// registry of per-package generators, helpers that run the IMPLEMENTATION's WriteTo / ReadFrom
// on a tds.PacketQueue and print the case lines.
//
// Case functions (fn):
//   1  encode:  input (tok fields claim)          output (0 #bytes refok) | (2)      — bytes incl. the token byte
//   2  decode:  input (tok #body ctx expected claim) output (class consumed fields)  — body = bytes after the token
//      claim = 1 iff the case lies in the domain of the round-trip property (see Claims)
//   3  prefixes: input (tok #body ctx valid)      output (class ...) for every proper prefix of body (length 0..len-1);
//                valid = 1 iff the implementation parses the whole body successfully consuming all of it
//   4  malformed: input (tok #body ctx)           output (class)                     — arbitrary bytes; class only
// class: 0 ok, 1 not enough bytes, 2 other error, -1 panic.
// ctx: () or, for TDS_PARAMS / TDS_ROW, the format list the package is read with (see FmtTree).
package pk

import (
	"errors"
	"fmt"
	"path/filepath"
	"runtime"
	"strings"

	"github.com/SAP/go-dblib/tds"
	"verifharness/sx"
)

type Gen struct {
	Out      *sx.Out
	Rng      *sx.Rng
	Thorough bool
	// which fns to emit (C06: 1,2; C07: 3; C10: 4)
	Want map[int]bool
	// optional selection of case families by tag class (nil = all); consulted before a case is run
	TagSel func(class string) bool
}

// WantTag reports whether cases of this tag are wanted.
func (g *Gen) WantTag(tag string) bool {
	if g.TagSel == nil {
		return true
	}
	class := tag
	if i := strings.Index(tag, ";"); i >= 0 {
		class = tag[:i]
	}
	return g.TagSel(class)
}

type regEntry struct {
	group string
	f     func(g *Gen)
}

var registry []regEntry

// Register adds a generator (call from init()). The group is the name of the directory of the
// calling file (core, b1, b2, ...), so that a check can select the groups whose models are integrated.
func Register(f func(g *Gen)) {
	group := "other"
	if _, file, _, ok := runtime.Caller(1); ok {
		group = filepath.Base(filepath.Dir(file))
	}
	registry = append(registry, regEntry{group, f})
}

// RunAll runs the registered generators of the selected groups (nil = all).
func RunAll(g *Gen, groups map[string]bool) {
	for _, e := range registry {
		if groups == nil || groups[e.group] {
			e.f(g)
		}
	}
}

// Claims reports whether a case lies in the domain of the round-trip property (C06): well-formed field values
// of a package the library implements. Classes outside it are still compared with the model, but the
// specification predicate claims nothing about them:
//   *-nonwf      lengths / integers that do not fit their prefix or field (the writers truncate silently)
//   mal-*        malformed bodies
//   tokenless    unknown tokens (the reader never succeeds by design)
//   control-stub TDS_CONTROL is a stub that writes and reads nothing
//   key, key-nonwf, key-writer-wrong-bytes: the KEY reader yields Go values that are compared only for some types;
//                (key-writer-panic stays a claim: it is the recorded finding)
func Claims(tag string) bool {
	class := tag
	if i := strings.Index(tag, ";"); i >= 0 {
		class = tag[:i]
	}
	if strings.HasSuffix(class, "-nonwf") || strings.HasPrefix(class, "mal-") {
		return false
	}
	switch class {
	case "tokenless", "control-stub", "key", "key-nonwf", "key-writer-wrong-bytes":
		return false
	}
	return true
}

// ClaimT is the claim flag of a tag as a tree.
func ClaimT(tag string) sx.T { return claimT(tag) }

func claimT(tag string) sx.T {
	if Claims(tag) {
		return sx.I(1)
	}
	return sx.I(0)
}

func Class(err error) int64 {
	if err == nil {
		return 0
	}
	if errors.Is(err, tds.ErrNotEnoughBytes) {
		return 1
	}
	return 2
}

// NewQueue returns a receive-style queue holding body as one packet.
func NewQueue(body []byte) *tds.PacketQueue {
	q := tds.NewPacketQueue(func() int { return 512 })
	if len(body) > 0 {
		p := &tds.Packet{Data: append([]byte{}, body...)}
		p.Header.Length = uint16(8 + len(body))
		q.AddPacket(p)
	}
	return q
}

// Written runs pkg.WriteTo on an empty queue with a huge packet size and returns the bytes.
func Written(pkg tds.Package) (bs []byte, err error, panicked bool) {
	defer func() {
		if r := recover(); r != nil {
			panicked = true
		}
	}()
	q := tds.NewPacketQueue(func() int { return 60000 })
	err = pkg.WriteTo(q)
	datas, _, ip, id, _ := q.VerifState()
	for i, d := range datas {
		if i < ip {
			bs = append(bs, d...)
		} else if i == ip {
			bs = append(bs, d[:id]...)
		}
	}
	return bs, err, false
}

// EncCase records what the implementation writes for a package. refok is the verdict of the
// independent reference decoder on those bytes (nil = no reference for this kind yet).
func (g *Gen) EncCase(tok int, fields sx.T, pkg tds.Package, refDecode func(bs []byte) bool, tag string) []byte {
	bs, err, panicked := Written(pkg)
	if !g.Want[1] {
		return bs
	}
	in := sx.L{sx.I(int64(tok)), fields, claimT(tag)}
	switch {
	case panicked:
		g.Out.Case(1, in, sx.L{sx.I(-1)}, tag)
	case err != nil:
		g.Out.Case(1, in, sx.L{sx.I(2)}, tag)
	default:
		ok := int64(1)
		if refDecode != nil && !refDecode(bs) {
			ok = 0
		}
		g.Out.Case(1, in, sx.L{sx.I(0), sx.B(bs), sx.I(ok)}, tag)
	}
	return bs
}

// Parsed is the result of running the implementation's reader.
type Parsed struct {
	Class    int64
	Consumed int
	Pkg      tds.Package
}

// Parse runs LookupPackage(tok) + LastPkg(last) + ReadFrom on body (bytes after the token).
func Parse(tok int, body []byte, last tds.Package) (res Parsed) {
	defer func() {
		if r := recover(); r != nil {
			res = Parsed{Class: -1}
		}
	}()
	pkg, err := tds.LookupPackage(tds.Token(tok))
	if err != nil {
		return Parsed{Class: 2}
	}
	if tl, ok := pkg.(*tds.TokenlessPackage); ok {
		tl.Data.WriteByte(byte(tok))
	}
	if acc, ok := pkg.(tds.LastPkgAcceptor); ok {
		if err := acc.LastPkg(last); err != nil {
			return Parsed{Class: 2}
		}
	}
	q := NewQueue(body)
	err = pkg.ReadFrom(q)
	c := Class(err)
	consumed := 0
	if c == 0 {
		datas, _, ip, id, _ := q.VerifState()
		for i, d := range datas {
			if i < ip {
				consumed += len(d)
			} else if i == ip {
				consumed += id
			}
		}
	}
	return Parsed{Class: c, Consumed: consumed, Pkg: pkg}
}

// DecCase: the implementation reads a body; render turns the parsed package into its field tree
// (same shape as `expected`, which is what the independent reference encoder was given).
// Also emits the prefix case (fn 3) for the same body.
func (g *Gen) DecCase(tok int, body []byte, ctx sx.T, last tds.Package, expected sx.T, render func(tds.Package) sx.T, tag string) {
	if ctx == nil {
		ctx = sx.L{}
	}
	if g.Want[2] {
		p := Parse(tok, body, last)
		var fields sx.T = sx.L{}
		if p.Class == 0 {
			fields = render(p.Pkg)
		}
		g.Out.Case(2, sx.L{sx.I(int64(tok)), sx.B(body), ctx, expected, claimT(tag)}, sx.L{sx.I(p.Class), sx.I(int64(p.Consumed)), fields}, tag)
	}
	if g.Want[3] {
		// valid = the implementation parses the complete body successfully and consumes all of it
		// (only then is every proper prefix "a package cut off before its end")
		full := Parse(tok, body, last)
		valid := int64(0)
		if full.Class == 0 && full.Consumed == len(body) {
			valid = 1
		}
		var cls sx.L
		for n := 0; n < len(body); n++ {
			cls = append(cls, sx.I(Parse(tok, body[:n], last).Class))
		}
		if cls == nil {
			cls = sx.L{}
		}
		g.Out.Case(3, sx.L{sx.I(int64(tok)), sx.B(body), ctx, sx.I(valid)}, cls, tag)
	}
}

// MalCase: arbitrary / mutated bytes after a token; only the class is observed.
func (g *Gen) MalCase(tok int, body []byte, ctx sx.T, last tds.Package, tag string) {
	if !g.Want[4] {
		return
	}
	if ctx == nil {
		ctx = sx.L{}
	}
	p := Parse(tok, body, last)
	g.Out.Case(4, sx.L{sx.I(int64(tok)), sx.B(body), ctx}, sx.L{sx.I(p.Class)}, tag)
}

// FuzzCase (fn 5): no panic and no allocation out of proportion to the bytes received, also for
// readers that are not modelled (BLOB data).  Output (panicked overallocated); the model's answer is (0 0).
// Bound: 2 MiB (a 16-bit count may size a slice) + 64 bytes per received byte.
func (g *Gen) FuzzCase(tok int, body []byte, ctx sx.T, last tds.Package, tag string) {
	if !g.Want[5] {
		return
	}
	if ctx == nil {
		ctx = sx.L{}
	}
	var m0, m1 runtime.MemStats
	runtime.ReadMemStats(&m0)
	p := Parse(tok, body, last)
	runtime.ReadMemStats(&m1)
	pan, over := int64(0), int64(0)
	if p.Class == -1 {
		pan = 1
	}
	if m1.TotalAlloc-m0.TotalAlloc > uint64(2<<20+64*len(body)) {
		over = 1
	}
	g.Out.Case(5, sx.L{sx.I(int64(tok)), sx.B(body), ctx}, sx.L{sx.I(pan), sx.I(over)}, tag)
}

// Renderers turn a delivered package into (token, field tree); every group registers the types it models.
var Renderers []func(p tds.Package) (tok int, fields sx.T, ok bool)

// RegisterRenderer adds a renderer (call from init()).
func RegisterRenderer(f func(p tds.Package) (int, sx.T, bool)) { Renderers = append(Renderers, f) }

// S renders a Go string (raw bytes) as a byte-string atom.
func S(s string) sx.T { return sx.B([]byte(s)) }

// LE helpers for reference encoders.
func LE16(v int) []byte { return []byte{byte(v), byte(v >> 8)} }
func LE32(v int64) []byte {
	return []byte{byte(v), byte(v >> 8), byte(v >> 16), byte(v >> 24)}
}
func LP8(b []byte) []byte  { return append([]byte{byte(len(b))}, b...) }
func LP16(b []byte) []byte { return append(LE16(len(b)), b...) }
func Cat(parts ...[]byte) []byte {
	var r []byte
	for _, p := range parts {
		r = append(r, p...)
	}
	return r
}

var _ = fmt.Sprintf
