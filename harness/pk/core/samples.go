package core

import (
	"bufio"
	"encoding/hex"
	"os"
	"strconv"
	"strings"

	"github.com/SAP/go-dblib/tds"
	"verifharness/pk"
	"verifharness/sx"
)

// Samples are valid encodings of packages of every kind the package generators (core, b1, b2) know, harvested from
// their decode cases: token and body of every case that needs no context, is claimed by the round-trip property and is
// parsed completely by the implementation. The response grammar of the receive-path harness inserts them between its
// own packages so that every package type travels through the channel under every kind of fragmentation.
var Samples []Item

// HarvestSamples runs the package generators (decode cases only) into a scratch case file and collects the samples.
func HarvestSamples(scratch string, seed uint64, perToken int) {
	out := sx.NewOut(scratch)
	g := &pk.Gen{Out: out, Rng: sx.NewRng(seed), Want: map[int]bool{2: true}}
	pk.RunAll(g, nil)
	out.Close()
	f, err := os.Open(scratch)
	if err != nil {
		return
	}
	defer f.Close()
	defer os.Remove(scratch)
	count := map[int]int{}
	sc := bufio.NewScanner(f)
	sc.Buffer(make([]byte, 1<<20), 1<<26)
	for sc.Scan() {
		parts := strings.Split(sc.Text(), "\t")
		if len(parts) < 4 || parts[0] != "2" {
			continue
		}
		in, outp := parts[1], parts[2]
		// input: (tok #body ctx expected claim) ; output: (class consumed fields)
		if !strings.HasPrefix(in, "(") || !strings.HasSuffix(in, " 1)") {
			continue // not claimed
		}
		fs := strings.SplitN(in[1:], " ", 3)
		if len(fs) < 3 || !strings.HasPrefix(fs[1], "#") || !strings.HasPrefix(fs[2], "() ") {
			continue // needs a context (PARAMS / ROW / ORDERBY ...)
		}
		tok, err := strconv.Atoi(fs[0])
		if err != nil || tok < 0 || tok > 255 {
			continue
		}
		body, err := hex.DecodeString(fs[1][1:])
		if err != nil {
			continue
		}
		if !strings.HasPrefix(outp, "(0 "+strconv.Itoa(len(body))+" ") {
			continue // not parsed completely
		}
		switch tds.Token(tok) {
		case tds.TDS_PARAMFMT, tds.TDS_PARAMFMT2, tds.TDS_ROWFMT, tds.TDS_ROWFMT2, tds.TDS_PARAMS, tds.TDS_ROW,
			tds.TDS_DONE, tds.TDS_DONEPROC, tds.TDS_DONEINPROC, tds.TDS_EED, tds.TDS_ENVCHANGE:
			continue // the grammar places these itself (they carry context or drive the end of the response)
		}
		if count[tok] >= perToken || len(body) > 300 {
			continue
		}
		count[tok]++
		Samples = append(Samples, Item{Tok: tok, Body: body})
	}
}
