package core

// Exported views of helpers of rx.go for the C12/C13 harness (harness/cmd/c12). Adds names only.

import (
	"github.com/SAP/go-dblib/tds"
	"verifharness/sx"
)

// RenderAny renders a delivered package as the rx model's ev_tree does: (1 tok fields) or (3 hdr).
func RenderAny(p tds.Package) sx.T { return renderAny(p) }

// RenderCore renders the package kinds a generated Response consists of.
func RenderCore(p tds.Package) (int, sx.T, bool) { return renderCore(p) }

// Stream is the wire form of the packages of one response.
func Stream(items []Item) []byte { return stream(items) }

// DoneItem builds a DONE / DONEPROC / DONEINPROC package.
func DoneItem(tok, status, tran int, count int64) Item { return doneItem(tok, status, tran, count) }

// Tree renders a packet as the rx model's packet_of_tree expects it.
func (p Pkt) Tree() sx.T { return p.tree() }

// HdrTree renders a packet header as the rx model does.
func HdrTree(h tds.PacketHeader) sx.T { return hdrTree(h) }
