// Package core registers the generators of the core packages (fields, formats, params/rows, done, eed, envchange).
package core
