// Package core registers the generators of the core packages: field formats (PARAMFMT/2, ROWFMT/2),
// field data (PARAMS, ROW), DONE family, EED, ENVCHANGE.  Everything a server sends is produced by
// the reference encoders in this file (written from the TDS 5.0 layouts), never by the library's writers.
package core

import (
	"encoding/binary"
	"fmt"

	"github.com/SAP/go-dblib/asetypes"
	"github.com/SAP/go-dblib/tds"
	"verifharness/pk"
	"verifharness/sx"
)

// ---------------------------------------------------------------- reference layout of data types
type dtInfo struct {
	dt       asetypes.DataType
	fixed    int // size of fixed-length types, -1 otherwise
	lenBytes int // bytes of the length prefix of variable-length types
	kind     int // 1 plain, 2 scale, 3 precision+scale, 5 text pointer
	lens     []int // valid data lengths to generate (variable types)
}

var dts = []dtInfo{
	{asetypes.INT1, 1, 0, 1, nil}, {asetypes.INT2, 2, 0, 1, nil}, {asetypes.INT4, 4, 0, 1, nil}, {asetypes.INT8, 8, 0, 1, nil},
	{asetypes.UINT2, 2, 0, 1, nil}, {asetypes.UINT4, 4, 0, 1, nil}, {asetypes.UINT8, 8, 0, 1, nil},
	{asetypes.FLT4, 4, 0, 1, nil}, {asetypes.FLT8, 8, 0, 1, nil}, {asetypes.BIT, 1, 0, 1, nil},
	{asetypes.MONEY, 8, 0, 1, nil}, {asetypes.SHORTMONEY, 4, 0, 1, nil},
	{asetypes.DATE, 4, 0, 1, nil}, {asetypes.TIME, 4, 0, 1, nil}, {asetypes.SHORTDATE, 4, 0, 1, nil}, {asetypes.DATETIME, 8, 0, 1, nil},
	{asetypes.INTN, -1, 1, 1, []int{0, 1, 2, 4, 8}}, {asetypes.UINTN, -1, 1, 1, []int{0, 1, 2, 4, 8}},
	{asetypes.FLTN, -1, 1, 1, []int{0, 4, 8}}, {asetypes.MONEYN, -1, 1, 1, []int{0, 4, 8}},
	{asetypes.DATEN, -1, 1, 1, []int{0, 4}}, {asetypes.TIMEN, -1, 1, 1, []int{0, 4}}, {asetypes.DATETIMEN, -1, 1, 1, []int{0, 4, 8}},
	{asetypes.CHAR, -1, 1, 1, []int{0, 1, 2, 17, 254, 255}}, {asetypes.VARCHAR, -1, 1, 1, []int{0, 1, 2, 30, 254, 255}},
	{asetypes.BINARY, -1, 1, 1, []int{0, 1, 3, 254, 255}}, {asetypes.VARBINARY, -1, 1, 1, []int{0, 1, 3, 254, 255}},
	{asetypes.LONGCHAR, -1, 4, 1, []int{0, 1, 255, 256, 700}}, {asetypes.LONGBINARY, -1, 4, 1, []int{0, 1, 255, 256, 700}},
	{asetypes.BIGDATETIMEN, -1, 1, 2, []int{0, 8}}, {asetypes.BIGTIMEN, -1, 1, 2, []int{0, 8}},
	{asetypes.DECN, -1, 1, 3, []int{0, 1, 2, 5, 17, 33}}, {asetypes.NUMN, -1, 1, 3, []int{0, 1, 2, 5, 17, 33}},
	{asetypes.TEXT, -1, 4, 5, []int{0, 1, 300}}, {asetypes.IMAGE, -1, 4, 5, []int{0, 1, 300}},
	{asetypes.UNITEXT, -1, 4, 5, []int{0, 2, 300}}, {asetypes.XML, -1, 4, 5, []int{0, 1, 300}},
	// types with a format but whose values the library cannot decode (GoValue: unhandled): formats only
	{asetypes.SENSITIVITY, -1, 1, 1, nil}, {asetypes.BOUNDARY, -1, 1, 1, nil}, {asetypes.INTERVAL, 8, 0, 1, nil}, {asetypes.SINT1, 1, 0, 1, nil},
}

// Fmt is the reference view of one column / parameter format.
type Fmt struct {
	info                          dtInfo
	name, locale                  string
	status                        uint32
	userType                      int32
	maxLen                        int64
	prec, scale                   int
	tabName                       string
	label, cat, schema, table     string // ROWFMT2 only
}

func presetMax(dt asetypes.DataType) int64 {
	f, err := tds.LookupFieldFmt(dt)
	if err != nil {
		return 0
	}
	return f.MaxLength()
}

func lenPrefix(n int, v int64) []byte {
	switch n {
	case 4:
		return pk.LE32(v)
	case 2:
		return pk.LE16(int(v))
	}
	return []byte{byte(v)}
}

// reference encoding of the data-type dependent part of a format
func (f Fmt) tail() []byte {
	var b []byte
	if f.info.fixed < 0 {
		b = append(b, lenPrefix(f.info.lenBytes, f.maxLen)...)
	}
	switch f.info.kind {
	case 2:
		b = append(b, byte(f.scale))
	case 3:
		b = append(b, byte(f.prec), byte(f.scale))
	case 5:
		b = append(b, pk.LP16([]byte(f.tabName))...)
	}
	return b
}

func (f Fmt) encode(wide, row bool) []byte {
	var b []byte
	if row && wide {
		b = pk.Cat(pk.LP8([]byte(f.label)), pk.LP8([]byte(f.cat)), pk.LP8([]byte(f.schema)), pk.LP8([]byte(f.table)))
	}
	b = append(b, pk.LP8([]byte(f.name))...)
	if wide {
		b = append(b, pk.LE32(int64(f.status))...)
	} else {
		b = append(b, byte(f.status))
	}
	b = append(b, pk.LE32(int64(f.userType))...)
	b = append(b, byte(f.info.dt))
	b = append(b, f.tail()...)
	b = append(b, pk.LP8([]byte(f.locale))...)
	return b
}

func (f Fmt) tree(wide, row bool) sx.T {
	ml := f.maxLen
	if f.info.fixed >= 0 {
		ml = presetMax(f.info.dt)
	}
	t := sx.L{sx.I(int64(f.info.dt)), pk.S(f.name), sx.I(int64(f.status)), sx.I(int64(f.userType)), pk.S(f.locale),
		sx.I(ml), sx.I(int64(f.prec)), sx.I(int64(f.scale)), sx.I(0), pk.S(""), pk.S(f.tabName)}
	if row && wide {
		t = append(t, pk.S(f.label), pk.S(f.cat), pk.S(f.schema), pk.S(f.table))
	} else {
		t = append(t, pk.S(""), pk.S(""), pk.S(""), pk.S(""))
	}
	return t
}

// FmtTree renders a library FieldFmt the same way.
func FmtTree(f tds.FieldFmt) sx.T {
	prec, scale := 0, 0
	if p, ok := f.(interface{ Precision() uint8 }); ok {
		prec = int(p.Precision())
	}
	if s, ok := f.(interface{ Scale() uint8 }); ok {
		scale = int(s.Scale())
	}
	bt, cid, tab := tds.VerifFmtExtras(f)
	return sx.L{sx.I(int64(f.DataType())), pk.S(f.Name()), sx.I(int64(f.Status())), sx.I(int64(f.UserType())), pk.S(f.LocaleInfo()),
		sx.I(f.MaxLength()), sx.I(int64(prec)), sx.I(int64(scale)), sx.I(int64(bt)), pk.S(cid), pk.S(tab),
		pk.S(f.ColumnLabel()), pk.S(f.Catalogue()), pk.S(f.Schema()), pk.S(f.Table())}
}

func fmtsTree(fs []tds.FieldFmt) sx.T {
	l := sx.L{}
	for _, f := range fs {
		l = append(l, FmtTree(f))
	}
	return l
}

// reference encoding of a whole format package body (after the token)
func fmtBody(fs []Fmt, wide, row bool) []byte {
	var fields []byte
	for _, f := range fs {
		fields = append(fields, f.encode(wide, row)...)
	}
	total := int64(2 + len(fields))
	var b []byte
	if wide {
		b = pk.LE32(total)
	} else {
		b = pk.LE16(int(total))
	}
	b = append(b, pk.LE16(len(fs))...)
	return append(b, fields...)
}

func fmtToken(wide, row bool) int {
	switch {
	case row && wide:
		return int(tds.TDS_ROWFMT2)
	case row:
		return int(tds.TDS_ROWFMT)
	case wide:
		return int(tds.TDS_PARAMFMT2)
	}
	return int(tds.TDS_PARAMFMT)
}

func randName(g *pk.Gen, max int) string {
	n := []int{0, 1, 5, max - 1, max}[g.Rng.Intn(5)]
	if n < 0 {
		n = 0
	}
	b := make([]byte, n)
	for i := range b {
		b[i] = byte('a' + g.Rng.Intn(26))
	}
	return string(b)
}

func randFmt(g *pk.Gen, info dtInfo, wide, row bool, colStatus bool) Fmt {
	f := Fmt{info: info, name: randName(g, 255), locale: randName(g, 20)}
	statuses := []uint32{0, 0x20, 0x10, 0x01}
	f.status = statuses[g.Rng.Intn(len(statuses))]
	if wide && g.Rng.Intn(4) == 0 {
		f.status |= 0x10000
	}
	if colStatus {
		f.status |= 0x8
	} else {
		f.status &^= 0x8
	}
	f.userType = []int32{0, 1, -1, 2147483647, -2147483648, 35}[g.Rng.Intn(6)]
	switch info.lenBytes {
	case 1:
		f.maxLen = int64([]int{0, 1, 8, 255}[g.Rng.Intn(4)])
	case 4:
		f.maxLen = []int64{0, 1, 255, 65536, 2147483647, 4294967295}[g.Rng.Intn(6)]
	}
	if info.kind == 3 {
		f.prec, f.scale = g.Rng.Range(1, 38), g.Rng.Intn(39)
	}
	if info.kind == 2 {
		f.scale = g.Rng.Intn(7)
	}
	if info.kind == 5 {
		f.tabName = randName(g, 300)
	}
	if row && wide {
		f.label, f.cat, f.schema, f.table = randName(g, 255), randName(g, 30), randName(g, 30), randName(g, 30)
	}
	return f
}

// ---------------------------------------------------------------- data fields
func randBytes(g *pk.Gen, n int) []byte { return g.Rng.Bytes(n) }

// value bytes of a type that the library re-encodes to exactly the same bytes
func randValue(g *pk.Gen, info dtInfo, n int) []byte {
	b := randBytes(g, n)
	le32 := func(v int64) []byte { return pk.LE32(v) }
	switch info.dt {
	case asetypes.BIT:
		b[0] = byte(g.Rng.Intn(2))
	case asetypes.DECN, asetypes.NUMN:
		if n >= 1 {
			b[0] = byte(g.Rng.Intn(2))
			if n >= 2 && b[1] == 0 {
				b[1] = 1
			}
			if n == 1 {
				b[0] = 0
			}
		}
	case asetypes.DATE, asetypes.DATEN:
		if n == 4 {
			copy(b, le32(int64(g.Rng.Range(-693595, 2958463))))
		}
	case asetypes.TIME, asetypes.TIMEN:
		if n == 4 {
			copy(b, le32(int64(g.Rng.Intn(25920000))))
		}
	case asetypes.SHORTDATE:
		binary.LittleEndian.PutUint16(b[2:], uint16(g.Rng.Intn(1440)))
	case asetypes.DATETIME, asetypes.DATETIMEN:
		if n == 8 {
			copy(b, le32(int64(g.Rng.Range(-693595, 2958463))))
			copy(b[4:], le32(int64(g.Rng.Intn(25920000))))
		}
		if n == 4 {
			binary.LittleEndian.PutUint16(b[2:], uint16(g.Rng.Intn(1440)))
		}
	case asetypes.BIGDATETIMEN:
		if n == 8 {
			binary.LittleEndian.PutUint64(b, uint64(g.Rng.U64()%315537897600000000))
		}
	case asetypes.BIGTIMEN:
		if n == 8 {
			binary.LittleEndian.PutUint64(b, uint64(g.Rng.U64()%86400000000))
		}
	}
	return b
}

// Data is the reference view of one data field.
type Data struct {
	status       int
	raw          []byte
	txtPtr, ts   []byte
}

func (d Data) encode(f Fmt) []byte {
	var b []byte
	if f.status&0x8 != 0 {
		b = append(b, byte(d.status))
	}
	if f.info.kind == 5 {
		b = append(b, pk.LP8(d.txtPtr)...)
		b = append(b, d.ts...)
		b = append(b, pk.LE32(int64(len(d.raw)))...)
		return append(b, d.raw...)
	}
	if f.info.fixed < 0 {
		b = append(b, lenPrefix(f.info.lenBytes, int64(len(d.raw)))...)
	}
	return append(b, d.raw...)
}

func (d Data) tree() sx.T {
	return sx.L{sx.I(int64(d.status)), sx.B(d.raw), sx.B(d.txtPtr), sx.B(d.ts), sx.I(0), pk.S(""), pk.S("")}
}

// DataTree renders a library FieldData: the value is re-encoded with the library's own value encoder
// using the raw length the generator knows (value-level codecs are properties C04/C05).
func DataTree(d tds.FieldData, rawLen int) sx.T {
	tp, ts := tds.VerifDataExtras(d)
	var raw []byte
	switch v := d.Value().(type) {
	case nil:
		raw = nil
	default:
		_ = v
		if _, _, tab := tds.VerifFmtExtras(d.Format()); tab != "" || isTxtPtr(d.Format().DataType()) {
			if bs, ok := d.Value().([]byte); ok {
				raw = bs
			}
		} else {
			bs, err := d.Format().DataType().Bytes(binary.LittleEndian, d.Value(), int64(rawLen))
			if err != nil {
				raw = []byte(fmt.Sprintf("ENCODE-ERROR %v", err))
			} else {
				raw = bs
			}
		}
	}
	return sx.L{sx.I(int64(d.Status())), sx.B(raw), sx.B(tp), sx.B(ts), sx.I(0), pk.S(""), pk.S("")}
}

func isTxtPtr(dt asetypes.DataType) bool {
	return dt == asetypes.TEXT || dt == asetypes.IMAGE || dt == asetypes.UNITEXT || dt == asetypes.XML
}

func ctxTree(fs []Fmt, wide, row bool) sx.T {
	l := sx.L{}
	for _, f := range fs {
		l = append(l, f.tree(wide, row))
	}
	return sx.L{sx.I(1), l}
}

// parse a reference-encoded format package with the library to obtain the "last package" for rows/params
func libFormat(fs []Fmt, wide, row bool) tds.Package {
	p := pk.Parse(fmtToken(wide, row), fmtBody(fs, wide, row), nil)
	if p.Class != 0 {
		return nil
	}
	return p.Pkg
}

func init() {
	pk.Register(genFormats)
	pk.Register(genData)
	pk.Register(genDone)
	pk.Register(genEed)
	pk.Register(genEnv)
	pk.Register(genAlloc)
}

// declared lengths far beyond the bytes present, and the unmodelled BLOB reader (fn 5)
func genAlloc(g *pk.Gen) {
	huge := []int64{1 << 20, 1 << 26, 0x7fffffff, 0xffffffff}
	// 4-byte length types and text pointer data in rows
	for _, info := range dts {
		if info.lenBytes != 4 {
			continue
		}
		f := randFmt(g, info, false, true, false)
		last := libFormat([]Fmt{f}, false, true)
		if last == nil {
			continue
		}
		for _, h := range huge {
			var body []byte
			if info.kind == 5 {
				body = pk.Cat(pk.LP8(g.Rng.Bytes(16)), g.Rng.Bytes(8), pk.LE32(h), g.Rng.Bytes(5))
			} else {
				body = pk.Cat(pk.LE32(h), g.Rng.Bytes(5))
			}
			g.FuzzCase(int(tds.TDS_ROW), body, nil, last, fmt.Sprintf("alloc-declared;dt=%x", int(info.dt)))
		}
	}
	// BLOB column: format = length byte (as the library reads it), blob type; rows with chunked data
	for _, bt := range []int{1, 3, 4, 5, 6} {
		fbody := pk.Cat(pk.LP8([]byte("b")), []byte{0}, pk.LE32(0), []byte{byte(asetypes.BLOB)}, []byte{0, byte(bt)})
		if bt == 1 {
			fbody = append(fbody, pk.LP16([]byte("cls"))...)
		}
		fbody = append(fbody, 0) // locale
		for _, adj := range []int{0, -2} {
			total := 2 + len(fbody) + adj // the library miscounts the BLOB format by 2 (see DESIGN: BLOB is not modelled)
			rf := pk.Cat(pk.LE16(total), pk.LE16(1), fbody)
			p := pk.Parse(int(tds.TDS_ROWFMT), rf, nil)
			g.FuzzCase(int(tds.TDS_ROWFMT), rf, nil, nil, "blob-format")
			if p.Class != 0 {
				continue
			}
			for i := 0; i < 40; i++ {
				var row []byte
				row = append(row, byte(g.Rng.Intn(3))) // serialisation type
				if bt == 1 {
					row = append(row, pk.LP16(g.Rng.Bytes(g.Rng.Intn(4)))...)
				}
				if bt == 6 {
					row = append(row, pk.LP16(g.Rng.Bytes(g.Rng.Intn(4)))...)
				}
				for c := 0; c < g.Rng.Intn(3); c++ {
					n := g.Rng.Intn(6)
					row = append(row, pk.LE32(int64(n))...)
					row = append(row, g.Rng.Bytes(n)...)
				}
				switch g.Rng.Intn(3) {
				case 0:
					row = append(row, pk.LE32(0x80000000)...)
				case 1:
					row = append(row, pk.LE32(huge[g.Rng.Intn(2)])...)
					row = append(row, g.Rng.Bytes(3)...)
				}
				g.FuzzCase(int(tds.TDS_ROW), row, nil, p.Pkg, "blob-row")
			}
		}
	}
}

func genFormats(g *pk.Gen) {
	reps := 2
	if g.Thorough {
		reps = 20
	}
	for _, wide := range []bool{false, true} {
		for _, row := range []bool{false, true} {
			tok := fmtToken(wide, row)
			render := func(p tds.Package) sx.T {
				switch t := p.(type) {
				case *tds.ParamFmtPackage:
					return fmtsTree(t.Fmts)
				case *tds.RowFmtPackage:
					return fmtsTree(t.Fmts)
				}
				return sx.L{}
			}
			// empty package, every data type alone, then random mixes
			var sets [][]Fmt
			sets = append(sets, nil)
			for r := 0; r < reps; r++ {
				for _, info := range dts {
					sets = append(sets, []Fmt{randFmt(g, info, wide, row, g.Rng.Bool())})
				}
				for m := 0; m < 6; m++ {
					n := g.Rng.Range(2, 6)
					var fs []Fmt
					for i := 0; i < n; i++ {
						fs = append(fs, randFmt(g, dts[g.Rng.Intn(len(dts))], wide, row, g.Rng.Bool()))
					}
					sets = append(sets, fs)
				}
			}
			for _, fs := range sets {
				body := fmtBody(fs, wide, row)
				exp := sx.L{}
				for _, f := range fs {
					exp = append(exp, f.tree(wide, row))
				}
				tag := fmt.Sprintf("fmt-%x;cols=%d", tok, len(fs))
				g.DecCase(tok, body, nil, nil, exp, render, tag)
				// the library writes PARAMFMT/2 itself: write back what it parsed, compare with the reference bytes
				if !row {
					if p := libFormat(fs, wide, row); p != nil {
						refok := func(bs []byte) bool { return string(bs) == string(append([]byte{byte(tok)}, body...)) }
						g.EncCase(tok, exp, p, refok, "enc-"+tag)
					}
				}
				// malformed: total length and count fields off by one / boundary values, truncations, extensions
				if len(body) >= 4 {
					for _, delta := range []int{-1, 1} {
						m := append([]byte{}, body...)
						m[0] = byte(int(m[0]) + delta)
						g.MalCase(tok, m, nil, nil, "mal-total;"+tag)
						m2 := append([]byte{}, body...)
						off := 2
						if wide {
							off = 4
						}
						m2[off] = byte(int(m2[off]) + delta)
						g.MalCase(tok, m2, nil, nil, "mal-count;"+tag)
					}
					m3 := append(append([]byte{}, body...), 0, 1, 2)
					g.MalCase(tok, m3, nil, nil, "mal-extended;"+tag)
					for k := 0; k < 3; k++ {
						m4 := append([]byte{}, body...)
						m4[g.Rng.Intn(len(m4))] = byte(g.Rng.Intn(256))
						g.MalCase(tok, m4, nil, nil, "mal-mutated;"+tag)
					}
				}
			}
			// arbitrary bytes after the token
			nr := 200
			if g.Thorough {
				nr = 5000
			}
			for i := 0; i < nr; i++ {
				g.MalCase(tok, g.Rng.Bytes(g.Rng.Intn(40)), nil, nil, fmt.Sprintf("mal-random;fmt-%x", tok))
			}
		}
	}
}

func genData(g *pk.Gen) {
	reps := 2
	if g.Thorough {
		reps = 20
	}
	for _, row := range []bool{false, true} {
		tok := int(tds.TDS_PARAMS)
		if row {
			tok = int(tds.TDS_ROW)
		}
		for _, wide := range []bool{false, true} {
			for r := 0; r < reps; r++ {
				// every data type alone with every valid length, with and without the column status byte; then mixes
				type col struct {
					f Fmt
					d Data
				}
				var sets [][]col
				mk := func(info dtInfo, n int, cs bool) col {
					f := randFmt(g, info, wide, row, cs)
					switch info.dt {
					case asetypes.MONEYN, asetypes.DATEN, asetypes.TIMEN, asetypes.DATETIMEN, asetypes.BIGDATETIMEN, asetypes.BIGTIMEN:
						// the library's value encoder sizes these by the format's maximum length: a client
						// must declare the width it sends
						if n > 0 {
							f.maxLen = int64(n)
						}
					}
					d := Data{raw: randValue(g, info, n)}
					if cs {
						d.status = []int{0, 0, 2}[g.Rng.Intn(3)]
					}
					if info.kind == 5 {
						d.txtPtr = g.Rng.Bytes([]int{0, 16, 255}[g.Rng.Intn(3)])
						d.ts = g.Rng.Bytes(8)
					}
					return col{f, d}
				}
				for _, info := range dts {
					if info.fixed < 0 && info.lens == nil {
						continue // value not decodable: covered by mal cases
					}
					if info.dt == asetypes.INTERVAL || info.dt == asetypes.SINT1 {
						continue
					}
					lens := info.lens
					if info.fixed >= 0 {
						lens = []int{info.fixed}
					}
					for _, n := range lens {
						sets = append(sets, []col{mk(info, n, false)}, []col{mk(info, n, true)})
					}
				}
				for m := 0; m < 10; m++ {
					var cs []col
					for i := 0; i < g.Rng.Range(2, 7); i++ {
						info := dts[g.Rng.Intn(len(dts)-4)]
						lens := info.lens
						if info.fixed >= 0 {
							lens = []int{info.fixed}
						}
						cs = append(cs, mk(info, lens[g.Rng.Intn(len(lens))], g.Rng.Bool()))
					}
					sets = append(sets, cs)
				}
				for _, cs := range sets {
					var fs []Fmt
					var body []byte
					exp := sx.L{}
					var lens []int
					for _, c := range cs {
						fs = append(fs, c.f)
						body = append(body, c.d.encode(c.f)...)
						exp = append(exp, c.d.tree())
						lens = append(lens, len(c.d.raw))
					}
					last := libFormat(fs, wide, row)
					if last == nil {
						continue
					}
					render := func(p tds.Package) sx.T {
						var dfs []tds.FieldData
						switch t := p.(type) {
						case *tds.ParamsPackage:
							dfs = t.DataFields
						case *tds.RowPackage:
							dfs = t.DataFields
						}
						l := sx.L{}
						for i, d := range dfs {
							l = append(l, DataTree(d, lens[i]))
						}
						return l
					}
					tag := fmt.Sprintf("data-%x;cols=%d", tok, len(cs))
					if len(cs) == 1 {
						tag = fmt.Sprintf("data-%x;dt=%x;len=%d", tok, int(cs[0].f.info.dt), len(cs[0].d.raw))
					}
					ctx := ctxTree(fs, wide, row)
					g.DecCase(tok, body, ctx, last, exp, render, tag)
					// the client writes TDS_PARAMS: let the library write the parsed package back
					if !row {
						if p := pk.Parse(tok, body, last); p.Class == 0 {
							pp := p.Pkg.(*tds.ParamsPackage)
							full := append([]byte{byte(tok)}, body...)
							refok := func(bs []byte) bool { return string(bs) == string(full) }
							fieldsIn := sx.L{ctx.(sx.L)[1], exp}
							g.EncCase(tok, fieldsIn, pp, refok, "enc-"+tag)
						}
					}
					// malformed: data length bytes replaced
					if len(body) > 0 {
						for k := 0; k < 3; k++ {
							m := append([]byte{}, body...)
							m[g.Rng.Intn(len(m))] = byte([]int{0, 1, 3, 255, g.Rng.Intn(256)}[g.Rng.Intn(5)])
							g.MalCase(tok, m, ctx, last, "mal-mutated;"+tag)
						}
						g.MalCase(tok, append(append([]byte{}, body...), 9), ctx, last, "mal-extended;"+tag)
					}
				}
				// every data type x every data length 0..255 (value-level totality through the package reader)
				if r == 0 && !wide {
					for _, info := range dts {
						if info.fixed >= 0 || info.kind == 5 {
							continue
						}
						f := randFmt(g, info, wide, row, false)
						last := libFormat([]Fmt{f}, wide, row)
						if last == nil {
							continue
						}
						for n := 0; n <= 255; n++ {
							if info.lenBytes != 1 && n > 40 {
								break
							}
							d := Data{raw: g.Rng.Bytes(n)}
							g.MalCase(tok, d.encode(f), ctxTree([]Fmt{f}, wide, row), last, fmt.Sprintf("mal-anylen;dt=%x", int(info.dt)))
						}
					}
				}
			}
		}
		// params/rows without a preceding format
		g.MalCase(tok, []byte{1, 2, 3}, nil, nil, "mal-noformat")
	}
}

func genDone(g *pk.Gen) {
	for _, tok := range []int{int(tds.TDS_DONE), int(tds.TDS_DONEPROC), int(tds.TDS_DONEINPROC)} {
		for _, st := range []int{0, 1, 2, 0x10, 0x11, 0x1a, 0xffff} {
			for _, tr := range []int{0, 1, 3, 0xffff} {
				for _, cnt := range []int64{0, 1, -1, 2147483647, -2147483648} {
					body := pk.Cat(pk.LE16(st), pk.LE16(tr), pk.LE32(cnt))
					exp := sx.L{sx.I(int64(st)), sx.I(int64(tr)), sx.I(cnt)}
					render := func(p tds.Package) sx.T {
						d := p.(*tds.DonePackage)
						return sx.L{sx.I(int64(d.Status)), sx.I(int64(d.TranState)), sx.I(int64(d.Count))}
					}
					tag := fmt.Sprintf("done-%x", tok)
					g.DecCase(tok, body, nil, nil, exp, render, tag)
					if tok == int(tds.TDS_DONE) {
						full := append([]byte{byte(tok)}, body...)
						g.EncCase(tok, exp, &tds.DonePackage{Status: tds.DoneState(st), TranState: tds.TransState(tr), Count: int32(cnt)},
							func(bs []byte) bool { return string(bs) == string(full) }, "enc-"+tag)
					}
				}
			}
		}
		for i := 0; i < 50; i++ {
			g.MalCase(tok, g.Rng.Bytes(g.Rng.Intn(12)), nil, nil, fmt.Sprintf("mal-random;done-%x", tok))
		}
	}
}

func eedBody(nr uint32, state, class int, sqlstate []byte, status, tran int, msg, server, proc string, line int) []byte {
	inner := pk.Cat(pk.LE32(int64(nr)), []byte{byte(state), byte(class)}, pk.LP8(sqlstate), []byte{byte(status)}, pk.LE16(tran),
		pk.LP16([]byte(msg)), pk.LP8([]byte(server)), pk.LP8([]byte(proc)), pk.LE16(line))
	return append(pk.LE16(len(inner)), inner...)
}

func genEed(g *pk.Gen) {
	tok := int(tds.TDS_EED)
	render := func(p tds.Package) sx.T {
		e := p.(*tds.EEDPackage)
		return sx.L{sx.I(int64(e.MsgNumber)), sx.I(int64(e.State)), sx.I(int64(e.Class)), sx.B(e.SQLState), sx.I(int64(e.Status)),
			sx.I(int64(e.TranState)), pk.S(e.Msg), pk.S(e.ServerName), pk.S(e.ProcName), sx.I(int64(e.LineNr))}
	}
	n := 60
	if g.Thorough {
		n = 2000
	}
	for i := 0; i < n; i++ {
		nr := uint32(g.Rng.U64())
		state, class := g.Rng.Intn(256), g.Rng.Intn(256)
		sq := g.Rng.Bytes([]int{0, 5, 255}[g.Rng.Intn(3)])
		status := []int{0, 1, 2, 3}[g.Rng.Intn(4)]
		tran := g.Rng.Intn(65536)
		msg := randName(g, []int{0, 1, 40, 700}[g.Rng.Intn(4)])
		nl := false
		if i%3 == 0 {
			msg += "\n"
			nl = true
		}
		server, proc := randName(g, 255), randName(g, 30)
		line := g.Rng.Intn(65536)
		body := eedBody(nr, state, class, sq, status, tran, msg, server, proc, line)
		expMsg := msg
		tag := "eed"
		if nl {
			expMsg = msg[:len(msg)-1] // documented: one trailing newline is trimmed by the reader
			tag = "eed;newline"
		}
		exp := sx.L{sx.I(int64(nr)), sx.I(int64(state)), sx.I(int64(class)), sx.B(sq), sx.I(int64(status)), sx.I(int64(tran)),
			pk.S(expMsg), pk.S(server), pk.S(proc), sx.I(int64(line))}
		g.DecCase(tok, body, nil, nil, exp, render, tag)
		// library writer against the reference bytes
		e := &tds.EEDPackage{MsgNumber: nr, State: uint8(state), Class: uint8(class), SQLState: sq, Status: tds.EEDStatus(status),
			TranState: uint16(tran), Msg: msg, ServerName: server, ProcName: proc, LineNr: uint16(line)}
		full := append([]byte{byte(tok)}, body...)
		encIn := sx.L{sx.I(int64(nr)), sx.I(int64(state)), sx.I(int64(class)), sx.B(sq), sx.I(int64(status)), sx.I(int64(tran)),
			pk.S(msg), pk.S(server), pk.S(proc), sx.I(int64(line))}
		g.EncCase(tok, encIn, e, func(bs []byte) bool { return string(bs) == string(full) }, "enc-"+tag)
		for _, delta := range []int{-1, 1} {
			m := append([]byte{}, body...)
			m[0] = byte(int(m[0]) + delta)
			g.MalCase(tok, m, nil, nil, "mal-length;eed")
		}
		m := append([]byte{}, body...)
		m[g.Rng.Intn(len(m))] = byte(g.Rng.Intn(256))
		g.MalCase(tok, m, nil, nil, "mal-mutated;eed")
	}
	for i := 0; i < 100; i++ {
		g.MalCase(tok, g.Rng.Bytes(g.Rng.Intn(40)), nil, nil, "mal-random;eed")
	}
}

func genEnv(g *pk.Gen) {
	tok := int(tds.TDS_ENVCHANGE)
	render := func(p tds.Package) sx.T {
		l := sx.L{}
		for _, m := range tds.VerifEnvMembers(p.(*tds.EnvChangePackage)) {
			l = append(l, sx.L{sx.I(int64(m.Type)), pk.S(m.NewValue), pk.S(m.OldValue)})
		}
		return l
	}
	n := 80
	if g.Thorough {
		n = 3000
	}
	for i := 0; i < n; i++ {
		cnt := i % 5
		var inner []byte
		exp := sx.L{}
		var members []tds.EnvChangePackageField
		for k := 0; k < cnt; k++ {
			typ := []int{1, 2, 3, 4, 7}[g.Rng.Intn(5)]
			nv, ov := randName(g, 255), randName(g, 255)
			if typ == 4 {
				nv = fmt.Sprint([]int{512, 2048, 9, 65535}[g.Rng.Intn(4)])
			}
			if g.Rng.Intn(3) == 0 {
				ov = "" // an empty value after a non-empty one: must not inherit the previous member's value
			}
			inner = append(inner, pk.Cat([]byte{byte(typ)}, pk.LP8([]byte(nv)), pk.LP8([]byte(ov)))...)
			exp = append(exp, sx.L{sx.I(int64(typ)), pk.S(nv), pk.S(ov)})
			members = append(members, tds.EnvChangePackageField{Type: tds.EnvChangeType(typ), NewValue: nv, OldValue: ov})
		}
		body := append(pk.LE16(len(inner)), inner...)
		tag := fmt.Sprintf("env;members=%d", cnt)
		g.DecCase(tok, body, nil, nil, exp, render, tag)
		full := append([]byte{byte(tok)}, body...)
		g.EncCase(tok, exp, tds.VerifNewEnvChange(members), func(bs []byte) bool { return string(bs) == string(full) }, "enc-"+tag)
		if len(body) > 2 {
			for _, delta := range []int{-1, 1} {
				m := append([]byte{}, body...)
				m[0] = byte(int(m[0]) + delta)
				g.MalCase(tok, m, nil, nil, "mal-length;env")
			}
		}
	}
	for i := 0; i < 100; i++ {
		g.MalCase(tok, g.Rng.Bytes(g.Rng.Intn(30)), nil, nil, "mal-random;env")
	}
}
