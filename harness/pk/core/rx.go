package core

// Channel-level receive harness (properties C02, C03, C11): server responses are built from the reference
// encoders, cut into packets, and fed to Channel.WritePacket; hook calls, delivered packages, errors and
// the packet size are recorded per packet.
//
// fn 10: input (needHooks nenvHooks packetSize0 ((msgtype status channel nr window eom #body) ...))
//        output ((event ...) sizeAfter) per packet; parse errors end the case.
// events: (1 tok fields) delivered package | (3 hdr) header-only | (4 hook fields) EED hook
//         | (5 hook type #old #new) env hook | (7 fatal) error; errors are listed last within a packet.

import (
	"context"
	"errors"
	"fmt"
	"io"
	"sync"
	"sync/atomic"
	"time"

	"github.com/SAP/go-dblib/asetypes"
	"github.com/SAP/go-dblib/tds"
	"verifharness/pk"
	"verifharness/sx"
)

type nullTransport struct{}

func (nullTransport) Read(p []byte) (int, error)  { select {} }
func (nullTransport) Write(p []byte) (int, error) { return len(p), nil }
func (nullTransport) Close() error                { return nil }

// Item is one package of a response in wire form.
type Item struct {
	Tok  int
	Body []byte
}

func (it Item) Bytes() []byte { return append([]byte{byte(it.Tok)}, it.Body...) }


func renderCore(p tds.Package) (int, sx.T, bool) {
	switch t := p.(type) {
	case *tds.DonePackage:
		return int(tds.TDS_DONE), sx.L{sx.I(int64(t.Status)), sx.I(int64(t.TranState)), sx.I(int64(t.Count))}, true
	case *tds.EEDPackage:
		return int(tds.TDS_EED), sx.L{sx.I(int64(t.MsgNumber)), sx.I(int64(t.State)), sx.I(int64(t.Class)), sx.B(t.SQLState), sx.I(int64(t.Status)),
			sx.I(int64(t.TranState)), pk.S(t.Msg), pk.S(t.ServerName), pk.S(t.ProcName), sx.I(int64(t.LineNr))}, true
	case *tds.ParamFmtPackage:
		w, _ := tds.VerifWide(t)
		return fmtToken(w, false), fmtsTree(t.Fmts), true
	case *tds.RowFmtPackage:
		w, _ := tds.VerifWide(t)
		return fmtToken(w, true), fmtsTree(t.Fmts), true
	case *tds.RowPackage:
		if rxMutated {
			return int(tds.TDS_ROW), sx.L{sx.I(int64(len(t.DataFields)))}, true
		}
		return int(tds.TDS_ROW), dataFields(t.DataFields), true
	case *tds.ParamsPackage:
		if rxMutated {
			return int(tds.TDS_PARAMS), sx.L{sx.I(int64(len(t.DataFields)))}, true
		}
		return int(tds.TDS_PARAMS), dataFields(t.DataFields), true
	}
	return 0, nil, false
}

func dataFields(dfs []tds.FieldData) sx.T {
	l := sx.L{}
	for _, d := range dfs {
		l = append(l, DataTree(d, guessLen(d)))
	}
	return l
}

// raw length of a value for types where the Go value determines it (the rx generator only uses such types)
func guessLen(d tds.FieldData) int {
	switch v := d.Value().(type) {
	case *asetypes.Decimal:
		if v.Precision == asetypes.ASEShortMoneyPrecision {
			return 4
		}
		return 8
	}
	if n := d.Format().DataType().ByteSize(); n > 0 {
		return n
	}
	return int(d.Format().MaxLength())
}

// renderAny renders a delivered package. A package that cannot be rendered (e.g. a format package with nil entries,
// which only a broken parser delivers) is shown as token -2 instead of taking the harness down.
func renderAny(p tds.Package) (res sx.T) {
	defer func() {
		if r := recover(); r != nil {
			res = sx.L{sx.I(1), sx.I(-2), pk.S("unrenderable package")}
		}
	}()
	for _, r := range append([]func(tds.Package) (int, sx.T, bool){renderCore}, pk.Renderers...) {
		if tok, f, ok := r(p); ok {
			return sx.L{sx.I(1), sx.I(int64(tok)), f}
		}
	}
	if h, ok := p.(*tds.HeaderOnlyPackage); ok {
		return sx.L{sx.I(3), hdrTree(h.Header)}
	}
	return sx.L{sx.I(1), sx.I(-1), pk.S(fmt.Sprintf("%T", p))}
}

func hdrTree(h tds.PacketHeader) sx.T {
	return sx.L{sx.I(int64(h.MsgType)), sx.I(int64(h.Status)), sx.I(int64(h.Length)), sx.I(int64(h.Channel)), sx.I(int64(h.PacketNr)), sx.I(int64(h.Window))}
}

// Pkt is one packet handed to WritePacket.
type Pkt struct {
	MsgType, Status, Channel, Nr, Window int
	EOM                                  bool
	Body                                 []byte
}

func (p Pkt) tree() sx.T {
	return sx.L{sx.I(int64(p.MsgType)), sx.I(int64(p.Status)), sx.I(int64(p.Channel)), sx.I(int64(p.Nr)), sx.I(int64(p.Window)), sx.Bool(p.EOM), sx.B(p.Body)}
}

// RxRun feeds packets to a fresh channel 0 and returns the per-packet observations.
func RxRun(need, nenv, ps0 int, pkts []Pkt) (res sx.L, fed int) {
	return RxRunRegs(need, nenv, ps0, pkts, nil)
}

// RxRunRegs: as RxRun; regs[i] = {more EED hooks, more ENVCHANGE hooks} registered just before packet i is fed
// (hooks registered between responses or in the middle of one).
func RxRunRegs(need, nenv, ps0 int, pkts []Pkt, regs map[int][2]int) (res sx.L, fed int) {
	info := &tds.Info{}
	info.ChannelPackageQueueSize = 100000
	conn, err := tds.VerifNewConn(context.Background(), info, nullTransport{}, false)
	if err != nil {
		panic(err)
	}
	conn.VerifSetPacketSize(ps0)
	ch, err := conn.NewChannel()
	if err != nil {
		panic(err)
	}
	type hookEv struct {
		before int
		t      sx.T
	}
	var hooks []hookEv
	nEed, nEnv := 0, 0
	mkEed := func() tds.EEDHook {
		i := nEed
		nEed++
		return func(e tds.EEDPackage) {
			n, _ := ch.VerifQueueLens()
			_, f, _ := renderCore(&e)
			hooks = append(hooks, hookEv{n, sx.L{sx.I(4), sx.I(int64(i)), f}})
		}
	}
	mkEnv := func() tds.EnvChangeHook {
		i := nEnv
		nEnv++
		return func(typ tds.EnvChangeType, o, n string) {
			c, _ := ch.VerifQueueLens()
			hooks = append(hooks, hookEv{c, sx.L{sx.I(5), sx.I(int64(i)), sx.I(int64(typ)), pk.S(o), pk.S(n)}})
		}
	}
	addEed := func() { ch.RegisterEEDHooks(mkEed()) }
	addEnv := func() { ch.RegisterEnvChangeHooks(mkEnv()) }
	// The first hooks are registered the way an application with a list of default hooks does it: one call spreading a
	// slice that has spare capacity, and the same slice is given to a sibling channel (on another connection) as well. The
	// sibling later registers a hook of its own; a message of THIS channel must never reach that foreign hook (it would be
	// reported as hook -1), and this channel's hooks must keep being called.
	var sibling *tds.Channel
	foreign := func(e tds.EEDPackage) {
		_, f, _ := renderCore(&e)
		hooks = append(hooks, hookEv{0, sx.L{sx.I(4), sx.I(-1), f}})
	}
	foreignEnv := func(typ tds.EnvChangeType, o, n string) {
		hooks = append(hooks, hookEv{0, sx.L{sx.I(5), sx.I(-1), sx.I(int64(typ)), pk.S(o), pk.S(n)}})
	}
	// Refused registrations: a list with a nil hook (at index 0, in the middle, at the end) is rejected with an error and
	// must register NOTHING - a hook of a refused list that is called later is reported as hook -2, a refused list that
	// is accepted as hook -3.
	rogueEed := func(e tds.EEDPackage) {
		_, f, _ := renderCore(&e)
		hooks = append(hooks, hookEv{0, sx.L{sx.I(4), sx.I(-2), f}})
	}
	rogueEnv := func(typ tds.EnvChangeType, o, n string) {
		hooks = append(hooks, hookEv{0, sx.L{sx.I(5), sx.I(-2), sx.I(int64(typ)), pk.S(o), pk.S(n)}})
	}
	accepted := 0
	refusals := 0
	refuse := func() {
		refusals++
		var eeds []tds.EEDHook
		var envs []tds.EnvChangeHook
		switch refusals % 3 {
		case 0:
			eeds, envs = []tds.EEDHook{nil, rogueEed}, []tds.EnvChangeHook{nil, rogueEnv}
		case 1:
			eeds, envs = []tds.EEDHook{rogueEed, nil, rogueEed}, []tds.EnvChangeHook{rogueEnv, nil, rogueEnv}
		default:
			eeds, envs = []tds.EEDHook{rogueEed, rogueEed, nil}, []tds.EnvChangeHook{rogueEnv, rogueEnv, nil}
		}
		if ch.RegisterEEDHooks(eeds...) == nil {
			accepted++
		}
		if ch.RegisterEnvChangeHooks(envs...) == nil {
			accepted++
		}
	}
	if regs != nil {
		refuse()
	}
	if need > 0 || nenv > 0 {
		if c2, err := tds.VerifNewConn(context.Background(), &tds.Info{}, nullTransport{}, false); err == nil {
			sibling, _ = c2.NewChannel()
		}
	}
	if need > 0 {
		hs := make([]tds.EEDHook, 0, need+8)
		for i := 0; i < need; i++ {
			hs = append(hs, mkEed())
		}
		ch.RegisterEEDHooks(hs...)
		if sibling != nil {
			sibling.RegisterEEDHooks(hs...)
		}
	}
	if nenv > 0 {
		hs := make([]tds.EnvChangeHook, 0, nenv+8)
		for i := 0; i < nenv; i++ {
			hs = append(hs, mkEnv())
		}
		ch.RegisterEnvChangeHooks(hs...)
		if sibling != nil {
			sibling.RegisterEnvChangeHooks(hs...)
		}
	}
	siblingDone := false
	pktIndex := -1
	for _, p := range pkts {
		pktIndex++
		if r, ok := regs[pktIndex]; ok && r[0] < 0 {
			// not a registration: the application (or a sender's deferred reset) calls Channel.Reset() between two packets
			// of a response; that resets the SEND side and must not touch what has been received so far
			ch.Reset()
		} else if ok {
			for i := 0; i < r[0]; i++ {
				addEed()
			}
			for i := 0; i < r[1]; i++ {
				addEnv()
			}
			refuse()
			if sibling != nil && !siblingDone {
				siblingDone = true
				sibling.RegisterEEDHooks(foreign)
				sibling.RegisterEnvChangeHooks(foreignEnv)
			}
		}
		hooks = nil
		pkt := &tds.Packet{Data: append([]byte{}, p.Body...)}
		pkt.Header.MsgType = tds.PacketHeaderType(p.MsgType)
		pkt.Header.Status = tds.PacketHeaderStatus(p.Status)
		if p.EOM {
			pkt.Header.Status |= tds.TDS_BUFSTAT_EOM
		}
		pkt.Header.Length = uint16(8 + len(p.Body))
		pkt.Header.Channel = uint16(p.Channel)
		pkt.Header.PacketNr = uint8(p.Nr)
		pkt.Header.Window = uint8(p.Window)
		panicked := feedPacket(ch, pkt)
		fed++
		if panicked {
			// the channel's locks may still be held by the panicked call: do not touch it again
			res = append(res, sx.L{sx.L{sx.L{sx.I(7), sx.I(-1)}}, sx.I(0)})
			break
		}
		var evs sx.L
		j := 0
		hi := 0
		fatalEarly := false
		for {
			for hi < len(hooks) && hooks[hi].before <= j {
				evs = append(evs, hooks[hi].t)
				hi++
			}
			pkg, err := ch.NextPackage(context.Background(), false)
			if err != nil {
				if !errors.Is(err, tds.ErrNoPackageReady) {
					// an error surfaced instead of "no package": put it back as an error event
					evs = append(evs, sx.L{sx.I(7), sx.I(0)})
					fatalEarly = true
				}
				break
			}
			evs = append(evs, renderAny(pkg))
			j++
		}
		for ; hi < len(hooks); hi++ {
			evs = append(evs, hooks[hi].t)
		}
		fatal := fatalEarly
		for {
			e := ch.VerifNextErr()
			if e == nil {
				break
			}
			evs = append(evs, sx.L{sx.I(7), sx.I(0)})
			fatal = true
		}
		if panicked {
			evs = append(evs, sx.L{sx.I(7), sx.I(-1)})
			fatal = true
		}
		for ; accepted > 0; accepted-- {
			evs = append(evs, sx.L{sx.I(4), sx.I(-3), sx.L{}})
		}
		if evs == nil {
			evs = sx.L{}
		}
		res = append(res, sx.L{evs, sx.I(int64(conn.PacketSize()))})
		if fatal && !rxContinue {
			break
		}
	}
	return res, fed
}

// rxContinue: keep feeding packets after a parse error (as the reader goroutine does); only a panic or a hang ends the case
var rxContinue = false

// feedPacket hands a packet to the channel as the reader goroutine would. A panic is recovered and a call that does
// not return within 5 s (e.g. blocked for good on a full error queue) is abandoned; both are reported as true:
// the channel must not be touched afterwards (its locks may be held).
// hangs counts calls into the library that did not return within their watchdog. After a few of them the generators
// stop producing further cases (every one would cost the watchdog's time again): the run is a violation anyway.
var hangs int32

func tooManyHangs() bool { return atomic.LoadInt32(&hangs) >= 6 }

func feedPacket(ch *tds.Channel, pkt *tds.Packet) bool {
	done := make(chan bool, 1)
	go func() {
		defer func() {
			if r := recover(); r != nil {
				done <- true
			}
		}()
		ch.WritePacket(pkt)
		done <- false
	}()
	select {
	case p := <-done:
		return p
	case <-time.After(5 * time.Second):
		atomic.AddInt32(&hangs, 1)
		return true
	}
}

// ---------------------------------------------------------------- response grammar
func doneItem(tok, status, tran int, count int64) Item {
	return Item{tok, pk.Cat(pk.LE16(status), pk.LE16(tran), pk.LE32(count))}
}

// finalDone: a server DONE with final status (0); transaction state and row count are whatever the server says
// (e.g. "transaction in progress" after begin transaction), they do not make the DONE any less final
func finalDone(g *pk.Gen) Item {
	tok := []int{int(tds.TDS_DONE), int(tds.TDS_DONE), int(tds.TDS_DONEPROC)}[g.Rng.Intn(3)]
	switch g.Rng.Intn(3) {
	case 0:
		return doneItem(tok, 0, 0, 0)
	case 1:
		return doneItem(tok, 0, g.Rng.Range(1, 4), 0)
	}
	return doneItem(tok, 0, g.Rng.Intn(5), int64(g.Rng.Range(1, 1000)))
}

func eedItem(g *pk.Gen, info bool) Item {
	st := 0
	if info {
		st = 2 | g.Rng.Intn(2)
	} else {
		st = g.Rng.Intn(2)
	}
	msg := randName(g, 40)
	if g.Rng.Intn(3) == 0 {
		msg += "\n"
	}
	return Item{int(tds.TDS_EED), eedBody(uint32(g.Rng.Intn(30000)), g.Rng.Intn(256), g.Rng.Intn(30), g.Rng.Bytes(5), st, g.Rng.Intn(4), msg, randName(g, 12), randName(g, 12), g.Rng.Intn(500))}
}

func envItem(g *pk.Gen, members int) Item {
	var inner []byte
	for k := 0; k < members; k++ {
		typ := []int{1, 2, 3, 4}[g.Rng.Intn(4)]
		nv, ov := randName(g, 20), randName(g, 20)
		if typ == 4 {
			// every boundary of the 16-bit packet length: the smallest sizes, 2^15 and 2^16 and their neighbours
			nv = fmt.Sprint([]int{512, 1024, 2048, 4096, 8, 70000, 9, 10, 255, 256, 32767, 32768, 32769, 65024, 65535, 65536}[g.Rng.Intn(16)])
			if g.Rng.Intn(12) == 0 {
				nv = []string{"x12", "", "0", "-512", "+1024", " 512", "00512", "512 ", "99999999999999999999", "0x200", "5e2"}[g.Rng.Intn(11)]
			}
			if rxNoEnvErr {
				// consumer-level runs: no queued errors (with an error AND the no-wait answer ready, select picks at random)
				nv = fmt.Sprint([]int{512, 1024, 2048, 4096, 9, 32767, 32768, 65535}[g.Rng.Intn(8)])
			}
		}
		inner = append(inner, pk.Cat([]byte{byte(typ)}, pk.LP8([]byte(nv)), pk.LP8([]byte(ov)))...)
	}
	return Item{int(tds.TDS_ENVCHANGE), append(pk.LE16(len(inner)), inner...)}
}

var rxTypes = []asetypes.DataType{asetypes.INT4, asetypes.INT2, asetypes.INT8, asetypes.VARCHAR, asetypes.CHAR, asetypes.VARBINARY, asetypes.LONGCHAR,
	asetypes.INTN, asetypes.FLT8, asetypes.MONEY, asetypes.DATETIME, asetypes.DATE, asetypes.BIT,
	asetypes.TEXT, asetypes.IMAGE, asetypes.UNITEXT, asetypes.XML}

// the first rxSafe types re-encode to the same bytes whatever the bytes are. In mutated streams (rxMutated) a mutated type
// byte can still turn a column into any type, and the harness can only render a value by re-encoding it (the library keeps
// no raw bytes; temporal values and bits are normalised by that): rows and parameters of mutated streams are therefore
// rendered by their number of fields only (fn 16 / fn 15) - value fidelity is the business of C04/C06, not of C10.
const rxSafe = 10

var rxMutated = false
var rxNoEnvErr = false

func infoOf(dt asetypes.DataType) dtInfo {
	for _, i := range dts {
		if i.dt == dt {
			return i
		}
	}
	panic("no info")
}

// result set: ROWFMT(/2) + rows; returns items
func resultSet(g *pk.Gen, wide bool, ncols, nrows int) []Item {
	return resultSetKind(g, wide, ncols, nrows, true, int(tds.TDS_ROW))
}

// resultSetKind: a format package of the row or the parameter family followed by data packages with the given token
// (the data layout of TDS_ROW and TDS_PARAMS is the same)
func resultSetKind(g *pk.Gen, wide bool, ncols, nrows int, rowFam bool, dataTok int) []Item {
	var fs []Fmt
	for i := 0; i < ncols; i++ {
		nt := len(rxTypes)
		if rxMutated {
			nt = rxSafe
		}
		info := infoOf(rxTypes[g.Rng.Intn(nt)])
		f := randFmt(g, info, wide, rowFam, g.Rng.Intn(4) == 0)
		f.name, f.locale = randName(g, 6), ""
		if wide {
			f.label, f.cat, f.schema, f.table = randName(g, 5), "", "", randName(g, 5)
		}
		if info.lenBytes == 1 {
			f.maxLen = 30
			if info.dt == asetypes.INTN {
				f.maxLen = 4
			}
		}
		if info.lenBytes == 4 {
			f.maxLen = 100
		}
		fs = append(fs, f)
	}
	items := []Item{{fmtToken(wide, rowFam), fmtBody(fs, wide, rowFam)}}
	for r := 0; r < nrows; r++ {
		var body []byte
		for _, f := range fs {
			n := f.info.fixed
			if n < 0 {
				n = int(f.maxLen)
				if g.Rng.Intn(4) == 0 {
					n = 0
				}
			}
			d := Data{raw: randValue(g, f.info, n)}
			if f.info.kind == 5 { // text pointer columns: pointer, timestamp, 4-byte length, data
				d.txtPtr = g.Rng.Bytes([]int{0, 16, 16, 24}[g.Rng.Intn(4)])
				d.ts = g.Rng.Bytes(8)
			}
			body = append(body, d.encode(f)...)
		}
		items = append(items, Item{dataTok, body})
	}
	return items
}

// disorder: valid package encodings in an unusual order
func disorder(g *pk.Gen) []Item {
	wide := g.Rng.Bool()
	rowFam := g.Rng.Bool()
	dataTok := int(tds.TDS_ROW)
	if g.Rng.Bool() {
		dataTok = int(tds.TDS_PARAMS)
	}
	set := resultSetKind(g, wide, g.Rng.Range(1, 2), g.Rng.Range(1, 3), rowFam, dataTok)
	var items []Item
	switch g.Rng.Intn(6) {
	case 0, 1: // as generated: every combination of format family and data token
		items = set
	case 2: // no format at all
		items = set[1:]
	case 3: // format last
		items = append(append([]Item{}, set[1:]...), set[0])
	case 4: // a DONE / message between format and data, then data of both tokens
		items = []Item{set[0], doneItem(int(tds.TDS_DONEINPROC), 0x11, 0, 1)}
		items = append(items, set[1:]...)
		items = append(items, Item{int(tds.TDS_ROW) + int(tds.TDS_PARAMS) - dataTok, set[len(set)-1].Body})
	default: // two sets and a response shuffled
		items = append(set, resultSetKind(g, !wide, 1, 2, !rowFam, dataTok)...)
		items = append(items, Response(g)...)
		for i := len(items) - 1; i > 0; i-- {
			j := g.Rng.Intn(i + 1)
			items[i], items[j] = items[j], items[i]
		}
	}
	if g.Rng.Bool() {
		items = append(items, finalDone(g))
	}
	return items
}

// Response builds one server response.
func Response(g *pk.Gen) []Item {
	var items []Item
	special := func() {
		switch g.Rng.Intn(7) {
		case 0:
			items = append(items, eedItem(g, false))
		case 1:
			items = append(items, eedItem(g, true))
		case 2:
			items = append(items, envItem(g, g.Rng.Intn(4)))
		case 3:
			// a package of any other kind (harvested valid encodings: LOGINACK, CAPABILITY, MSG, RETURNSTATUS, DYNAMIC,
			// cursor packages, LANGUAGE, ...)
			if len(Samples) > 0 && !rxMutated {
				items = append(items, Samples[g.Rng.Intn(len(Samples))])
			}
		}
	}
	special()
	nsets := []int{0, 0, 1, 1, 2}[g.Rng.Intn(5)]
	for s := 0; s < nsets; s++ {
		items = append(items, resultSet(g, g.Rng.Bool(), g.Rng.Range(1, 3), g.Rng.Intn(4))...)
		special()
		last := s == nsets-1
		st := 0x10 // COUNT
		if !last {
			st |= 0x1 // MORE
		}
		tok := []int{int(tds.TDS_DONE), int(tds.TDS_DONEINPROC), int(tds.TDS_DONEPROC)}[g.Rng.Intn(3)]
		items = append(items, doneItem(tok, st, g.Rng.Intn(3), int64(g.Rng.Intn(100))))
		special()
	}
	switch g.Rng.Intn(4) {
	case 0: // server sends the final DONE itself
		items = append(items, finalDone(g))
	case 1: // last DONE with other status bits: the library has to supply the final one
		items = append(items, doneItem(int(tds.TDS_DONE), []int{0x10, 0x2, 0x18, 0x4}[g.Rng.Intn(4)], 0, int64(g.Rng.Intn(9))))
	case 2: // final DONE preceded by a message
		items = append(items, eedItem(g, g.Rng.Bool()), finalDone(g))
	}
	return items
}

func stream(items []Item) []byte {
	var b []byte
	for _, it := range items {
		b = append(b, it.Bytes()...)
	}
	return b
}

// withStatusBits sets further header status bits (attention acknowledgement, attention, event, sealed, encrypted) on some
// packets: only the end-of-message bit has a meaning for the receive path.
func withStatusBits(g *pk.Gen, pkts []Pkt) []Pkt {
	for i := range pkts {
		if g.Rng.Intn(3) == 0 {
			pkts[i].Status = []int{0x02, 0x04, 0x08, 0x0a, 0x10, 0x20, 0xfe}[g.Rng.Intn(7)]
		}
	}
	return pkts
}

// Packetise cuts a message at the given offsets (sorted, 0 < c < len); EOM on the last packet.
func Packetise(msg []byte, cuts []int) []Pkt {
	var ps []Pkt
	last := 0
	for _, c := range append(append([]int{}, cuts...), len(msg)) {
		if c <= last || c > len(msg) {
			continue
		}
		ps = append(ps, Pkt{MsgType: int(tds.TDS_BUF_RESPONSE), Body: msg[last:c]})
		last = c
	}
	if len(ps) == 0 {
		ps = []Pkt{{MsgType: int(tds.TDS_BUF_RESPONSE)}}
	}
	ps[len(ps)-1].EOM = true
	return ps
}

func emitRx(g *pk.Gen, need, nenv, ps0 int, pkts []Pkt, tag string) {
	if !g.WantTag(tag) || tooManyHangs() {
		return
	}
	res, fed := RxRun(need, nenv, ps0, pkts)
	var in sx.L
	for _, p := range pkts[:fed] {
		in = append(in, p.tree())
	}
	g.Out.Case(10, sx.L{sx.I(int64(need)), sx.I(int64(nenv)), sx.I(int64(ps0)), in}, res, tag)
}

// GenRx: fragmentation families for C02/C11 and response histories for C03.
func GenRx(g *pk.Gen) {
	nresp := 40
	if g.Thorough {
		nresp = 800
	}
	for i := 0; i < nresp; i++ {
		items := Response(g)
		msg := stream(items)
		need, nenv := g.Rng.Intn(3), g.Rng.Intn(3)
		if len(msg) == 0 {
			continue
		}
		// one packet; every single cut; double cuts (all for short messages, sampled otherwise); random cut sets; fixed sizes
		emitRx(g, need, nenv, 512, Packetise(msg, nil), "one-packet")
		for c := 1; c < len(msg); c++ {
			emitRx(g, need, nenv, 512, Packetise(msg, []int{c}), "cut1")
		}
		pairs := 60
		if len(msg) <= 24 || g.Thorough {
			pairs = 400
		}
		for k := 0; k < pairs && len(msg) > 2; k++ {
			a := g.Rng.Range(1, len(msg)-2)
			b := g.Rng.Range(a+1, len(msg)-1)
			emitRx(g, need, nenv, 512, Packetise(msg, []int{a, b}), "cut2")
		}
		for k := 0; k < 20; k++ {
			var cuts []int
			for c := 1; c < len(msg); c++ {
				if g.Rng.Intn(6) == 0 {
					cuts = append(cuts, c)
				}
			}
			emitRx(g, need, nenv, 512, withStatusBits(g, Packetise(msg, cuts)), "cutmany")
		}
		// packetisations with empty (header-only) packets anywhere: before the first packet, between two packets of the
		// response (in particular directly before a row / parameter package or inside one), after the last
		for k := 0; k < 12; k++ {
			var cuts []int
			for c := 1; c < len(msg); c++ {
				if g.Rng.Intn(5) == 0 {
					cuts = append(cuts, c)
				}
			}
			base := Packetise(msg, cuts)
			var pkts []Pkt
			for j, p := range base {
				for g.Rng.Intn(3) == 0 {
					pkts = append(pkts, Pkt{MsgType: []int{int(tds.TDS_BUF_RESPONSE), int(tds.TDS_BUF_PROTACK), int(tds.TDS_BUF_NORMAL)}[g.Rng.Intn(3)],
						Status: []int{0, 0, 0x02, 0x08}[g.Rng.Intn(4)], Nr: g.Rng.Intn(256), Window: g.Rng.Intn(3)})
				}
				pkts = append(pkts, p)
				if j == len(base)-1 && g.Rng.Intn(3) == 0 {
					pkts = append(pkts, Pkt{MsgType: int(tds.TDS_BUF_RESPONSE)})
				}
			}
			emitRx(g, need, nenv, 512, pkts, "cut-ho")
		}
		for _, body := range []int{1, 2, 8} {
			var cuts []int
			for c := body; c < len(msg); c += body {
				cuts = append(cuts, c)
			}
			emitRx(g, need, nenv, 512, Packetise(msg, cuts), fmt.Sprintf("fixed;body=%d", body))
		}
	}
	// all 2^(n-1) cut sets of short messages
	for i := 0; i < 6; i++ {
		items := []Item{doneItem(int(tds.TDS_DONE), 0x11, 0, 1), doneItem(int(tds.TDS_DONE), 0, 0, 0)}
		if i%2 == 1 {
			items = []Item{envItem(g, 1)}
			for len(stream(items)) > 13 {
				items = []Item{envItem(g, 1)}
			}
		}
		msg := stream(items)
		if len(msg) > 14 {
			msg = msg[:9] // a single DONE
		}
		n := len(msg)
		for mask := 0; mask < 1<<(n-1); mask++ {
			var cuts []int
			for c := 1; c < n; c++ {
				if mask&(1<<(c-1)) != 0 {
					cuts = append(cuts, c)
				}
			}
			emitRx(g, 1, 1, 512, Packetise(msg, cuts), "allcuts")
		}
	}
	// histories of responses on one channel (what the previous response ended with matters)
	nh := 300
	if g.Thorough {
		nh = 10000
	}
	for i := 0; i < nh; i++ {
		var pkts []Pkt
		for r := 0; r < g.Rng.Range(2, 5); r++ {
			var items []Item
			switch g.Rng.Intn(5) {
			case 0:
				items = []Item{eedItem(g, true)} // only an informational message
			case 1:
				items = []Item{envItem(g, g.Rng.Range(0, 2))}
			case 2:
				items = []Item{finalDone(g)}
			default:
				items = Response(g)
			}
			msg := stream(items)
			if len(msg) == 0 {
				continue
			}
			var cuts []int
			for c := 1; c < len(msg); c++ {
				if g.Rng.Intn(10) == 0 {
					cuts = append(cuts, c)
				}
			}
			pkts = append(pkts, withStatusBits(g, Packetise(msg, cuts))...)
			if g.Rng.Intn(8) == 0 { // a header-only packet between responses
				pkts = append(pkts, Pkt{MsgType: int(tds.TDS_BUF_PROTACK), Channel: 0, Nr: g.Rng.Intn(256)})
			}
		}
		emitRx(g, g.Rng.Intn(2), g.Rng.Intn(2), 512, pkts, "history")
		// the same history with hooks registered on the way (before random packets)
		if g.WantTag("history-register") {
			regs := map[int][2]int{}
			var rt sx.L
			for k := 0; k < g.Rng.Range(1, 3); k++ {
				idx := g.Rng.Intn(len(pkts) + 1)
				if _, dup := regs[idx]; dup {
					continue
				}
				regs[idx] = [2]int{g.Rng.Intn(3), g.Rng.Intn(3)}
				if g.Rng.Intn(3) == 0 {
					regs[idx] = [2]int{-1, -1} // Channel.Reset() instead of a registration (the model: nothing happens)
				}
			}
			need, nenv := g.Rng.Intn(2), g.Rng.Intn(2)
			res, fed := RxRunRegs(need, nenv, 512, pkts, regs)
			var in sx.L
			for _, p := range pkts[:fed] {
				in = append(in, p.tree())
			}
			for idx := 0; idx <= len(pkts); idx++ {
				if r, ok := regs[idx]; ok {
					rt = append(rt, sx.L{sx.I(int64(idx)), sx.I(int64(r[0])), sx.I(int64(r[1]))})
				}
			}
			if rt == nil {
				rt = sx.L{}
			}
			g.Out.Case(14, sx.L{sx.I(int64(need)), sx.I(int64(nenv)), sx.I(512), in, rt}, res, "history-register")
		}
	}
	// malformed streams: mutated responses and random bytes (the case ends at the first parse error)
	nm := 300
	if g.Thorough {
		nm = 10000
	}
	rxMutated = true
	defer func() { rxMutated = false }()
	for i := 0; i < nm; i++ {
		msg := stream(Response(g))
		if g.Rng.Intn(4) == 0 {
			// well-formed packages in an order no server sends: a format of one family followed by data packages of the
			// other, data packages without any format, a format after the data, everything shuffled
			msg = stream(disorder(g))
		} else if len(msg) == 0 || g.Rng.Intn(5) == 0 {
			msg = g.Rng.Bytes(g.Rng.Range(1, 40))
		} else {
			for k := 0; k < g.Rng.Range(1, 3); k++ {
				msg[g.Rng.Intn(len(msg))] = byte(g.Rng.Intn(256))
			}
		}
		var cuts []int
		for c := 1; c < len(msg); c++ {
			if g.Rng.Intn(8) == 0 {
				cuts = append(cuts, c)
			}
		}
		if g.WantTag("malformed") && !tooManyHangs() {
			pkts := Packetise(msg, cuts)
			res, fed := RxRun(1, 1, 512, pkts)
			var in sx.L
			for _, p := range pkts[:fed] {
				in = append(in, p.tree())
			}
			g.Out.Case(16, sx.L{sx.I(1), sx.I(1), sx.I(512), in}, res, "malformed")
		}
		// the same stream followed by a few more packets (a short one among them): the reader goroutine keeps routing
		// packets to the channel after a parse error
		if g.WantTag("malformed-continue") && !tooManyHangs() {
			pkts := Packetise(msg, cuts)
			pkts[len(pkts)-1].EOM = g.Rng.Bool()
			for k := 0; k < g.Rng.Range(1, 3); k++ {
				var body []byte
				switch g.Rng.Intn(3) {
				case 0:
					body = stream([]Item{doneItem(int(tds.TDS_DONE), 0, 0, 0)})
				case 1:
					body = g.Rng.Bytes(g.Rng.Range(1, 6))
				default:
					body = stream(Response(g))
				}
				if len(body) == 0 {
					body = []byte{0xfd, 0, 0, 0, 0, 0, 0, 0, 0}
				}
				pkts = append(pkts, Pkt{MsgType: int(tds.TDS_BUF_RESPONSE), Body: body, EOM: g.Rng.Bool()})
			}
			rxContinue = true
			res, fed := RxRun(1, 1, 512, pkts)
			rxContinue = false
			var in sx.L
			for _, p := range pkts[:fed] {
				in = append(in, p.tree())
			}
			g.Out.Case(15, sx.L{sx.I(1), sx.I(1), sx.I(512), in}, res, "malformed-continue")
		}
	}
}

// ---------------------------------------------------------------- consumer level (fn 12)
// input  (need nenv ((packets) (call ...)) ...)   one entry per round: the packets of one response are fed, then the calls run
// call   (0) NextPackage(wait=false) | (1 k outcome) NextPackageUntil with a callback answering "continue" for the first k
//        non-EED packages and then outcome (1 stop, 2 io.EOF, 3 error; 0 = always continue) | (2) NextPackageUntil(nil)
// output per round: ((result queueLenAfter) ...) ; result as Rx/Consumer.v ures_tree / nres code
type Call struct {
	Kind, K, Outcome int
	WrapEOF          bool // outcome 3 only: the callback's error wraps io.EOF (still an error, not the io.EOF signal)
	NoWait           bool // NextPackageUntil is called with wait = false
}

func (c Call) tree() sx.T {
	return sx.L{sx.I(int64(c.Kind)), sx.I(int64(c.K)), sx.I(int64(c.Outcome)), sx.Bool(c.NoWait)}
}

var errCb = errors.New("callback failed")
var errCbWrapEOF = fmt.Errorf("short read: %w", io.EOF)

func pkgTree(p tds.Package) sx.T {
	t := renderAny(p).(sx.L)
	return sx.L{t[1], t[2]}
}

// ConsumerRun: conc[r] = the packets of round r are not fed before its calls but by a second goroutine, a few
// milliseconds after the round's first call (a NextPackageUntil) has started: the rest of a response arriving while the
// consumer is already reading it. The calls as effectively made are returned (a first call with wait = false on an
// empty queue is made with wait = true: otherwise its result would depend on who is faster).
func ConsumerRun(need, nenv int, rounds [][]Pkt, calls [][]Call, conc []bool) (sx.L, [][]Call) {
	info := &tds.Info{}
	info.ChannelPackageQueueSize = 100000
	conn, err := tds.VerifNewConn(context.Background(), info, nullTransport{}, false)
	if err != nil {
		panic(err)
	}
	ch, _ := conn.NewChannel()
	for i := 0; i < need; i++ {
		ch.RegisterEEDHooks(func(e tds.EEDPackage) {})
	}
	for i := 0; i < nenv; i++ {
		ch.RegisterEnvChangeHooks(func(typ tds.EnvChangeType, o, n string) {})
	}
	var res sx.L
	panicked := false
	eff := make([][]Call, len(calls))
	feed := func(pkts []Pkt) bool {
		for _, p := range pkts {
			pkt := &tds.Packet{Data: append([]byte{}, p.Body...)}
			pkt.Header.MsgType = tds.PacketHeaderType(p.MsgType)
			pkt.Header.Status = tds.PacketHeaderStatus(p.Status)
			if p.EOM {
				pkt.Header.Status |= tds.TDS_BUFSTAT_EOM
			}
			pkt.Header.Length = uint16(8 + len(p.Body))
			if feedPacket(ch, pkt) {
				return true
			}
		}
		return false
	}
	for r, pkts := range rounds {
		isConc := r < len(conc) && conc[r] && len(calls[r]) > 0
		var feederDone chan bool
		var fed chan struct{}
		if !isConc {
			panicked = feed(pkts)
		}
		if panicked {
			// the channel's locks may still be held by the panicked call: do not touch it again
			return append(res, sx.L{sx.L{sx.L{sx.I(-1)}, sx.I(0)}}), eff
		}
		var rr sx.L
		for ci, c := range calls[r] {
			timeout := 30 * time.Millisecond
			if isConc && ci == 0 {
				// the rest of the response arrives while this call is under way
				if n, _ := ch.VerifQueueLens(); n == 0 {
					c.NoWait = false
				}
				timeout = 30 * time.Second
				feederDone = make(chan bool, 1)
				fed = make(chan struct{})
				go func(pkts []Pkt, fed chan struct{}, done chan bool) {
					time.Sleep(5 * time.Millisecond)
					r := feed(pkts)
					close(fed)
					done <- r
				}(pkts, fed, feederDone)
			}
			eff[r] = append(eff[r], c)
			ctx, cancel := context.WithTimeout(context.Background(), timeout)
			if fed != nil {
				// once everything has been fed the call has all it will ever get: if it is still waiting 200 ms later it
				// waits for good, and its context ends
				go func(fed chan struct{}, cancel context.CancelFunc) {
					<-fed
					time.Sleep(200 * time.Millisecond)
					cancel()
				}(fed, cancel)
				fed = nil
			}
			var out sx.T
			classify := func(err error) sx.T {
				switch {
				case errors.Is(err, tds.ErrNoPackageReady):
					return sx.L{sx.I(4)}
				case errors.Is(err, context.DeadlineExceeded), errors.Is(err, context.Canceled):
					return sx.L{sx.I(6)}
				}
				return sx.L{sx.I(5)}
			}
			switch c.Kind {
			case 0:
				p, err := ch.NextPackage(ctx, false)
				if err != nil {
					out = classify(err)
				} else {
					out = sx.L{sx.I(0), pkgTree(p)}
				}
			case 1, 2:
				seen := 0
				var cb func(tds.Package) (bool, error)
				if c.Kind == 1 {
					cb = func(p tds.Package) (bool, error) {
						seen++
						if c.Outcome != 0 && seen == c.K+1 {
							switch c.Outcome {
							case 1:
								return true, nil
							case 2:
								return false, io.EOF
							case 3:
								if c.WrapEOF {
									return false, errCbWrapEOF
								}
								return false, errCb
							case 4: // "handled, and failed": the error decides, the rest of the response is drained all the same
								if c.WrapEOF {
									return true, errCbWrapEOF
								}
								return true, errCb
							case 5:
								return true, io.EOF
							}
						}
						return false, nil
					}
				}
				p, err := ch.NextPackageUntil(ctx, !c.NoWait, cb)
				var eedErr *tds.EEDError
				switch {
				case err == nil && p != nil:
					out = sx.L{sx.I(0), pkgTree(p)}
				case err == nil:
					out = sx.L{sx.I(3)}
				case err == io.EOF && p != nil:
					out = sx.L{sx.I(1), pkgTree(p)}
				case err == io.EOF:
					out = sx.L{sx.I(2)}
				case errors.Is(err, errCb) || errors.Is(err, errCbWrapEOF):
					nums := sx.L{}
					if errors.As(err, &eedErr) {
						for _, e := range eedErr.EEDPackages {
							nums = append(nums, sx.I(int64(e.MsgNumber)))
						}
					}
					out = sx.L{sx.I(7), nums}
				default:
					out = classify(err)
				}
			}
			cancel()
			if feederDone != nil {
				if <-feederDone {
					return append(res, sx.L{sx.L{sx.L{sx.I(-1)}, sx.I(0)}}), eff
				}
				feederDone = nil
			}
			n, _ := ch.VerifQueueLens()
			rr = append(rr, sx.L{out, sx.I(int64(n))})
		}
		if rr == nil {
			rr = sx.L{}
		}
		res = append(res, rr)
	}
	return res, eff
}

// GenConsumer: histories of rounds with every callback stop point (short responses) and outcome.
func GenConsumer(g *pk.Gen) {
	if !g.WantTag("consumer") {
		return
	}
	rxNoEnvErr = true
	defer func() { rxNoEnvErr = false }()
	n := 150
	if g.Thorough {
		n = 5000
	}
	for i := 0; i < n && !tooManyHangs(); i++ {
		nr := g.Rng.Range(1, 5)
		var rounds [][]Pkt
		var calls [][]Call
		var conc []bool
		for r := 0; r < nr; r++ {
			var items []Item
			switch g.Rng.Intn(6) {
			case 0:
				items = []Item{eedItem(g, true)}
			case 1:
				items = []Item{envItem(g, 1)}
			case 2:
				items = []Item{finalDone(g)}
			default:
				items = Response(g)
			}
			msg := stream(items)
			if len(msg) == 0 {
				msg = stream([]Item{doneItem(int(tds.TDS_DONE), 0, 0, 0)})
			}
			var cuts []int
			for c := 1; c < len(msg); c++ {
				if g.Rng.Intn(12) == 0 {
					cuts = append(cuts, c)
				}
			}
			pkts := withStatusBits(g, Packetise(msg, cuts))
			// calls: a few callbacks that stop / continue, ended by a call that completes the round
			var cs []Call
			for k := 0; k < g.Rng.Intn(3); k++ {
				cs = append(cs, Call{Kind: 1, K: g.Rng.Intn(4), Outcome: []int{1, 2, 1, 2, 5}[g.Rng.Intn(5)]})
			}
			switch g.Rng.Intn(3) {
			case 0:
				cs = append(cs, Call{Kind: 2})
			case 1:
				cs = append(cs, Call{Kind: 1, K: g.Rng.Intn(5), Outcome: []int{3, 4}[g.Rng.Intn(2)], WrapEOF: g.Rng.Intn(3) == 0})
			default:
				cs = append(cs, Call{Kind: 1, K: g.Rng.Intn(3), Outcome: []int{3, 4}[g.Rng.Intn(2)], WrapEOF: g.Rng.Intn(3) == 0}, Call{Kind: 0})
			}
			// wait = false variants of the NextPackageUntil calls
			for k := range cs {
				if cs[k].Kind != 0 && g.Rng.Intn(4) == 0 {
					cs[k].NoWait = true
				}
			}
			// the corner of the drain: the callback fails on the FIRST package of a wait = false call while the rest of the
			// response has not arrived yet (the drain has to wait for it all the same)
			forceSplit := false
			if g.Rng.Intn(6) == 0 {
				cs = []Call{{Kind: 1, K: g.Rng.Intn(2), Outcome: []int{3, 4}[g.Rng.Intn(2)], NoWait: true}}
				if g.Rng.Bool() {
					cs = append(cs, Call{Kind: 0})
				}
				forceSplit = true
			}
			if len(pkts) >= 2 && (forceSplit || g.Rng.Intn(3) == 0) && cs[0].Kind != 0 {
				// the response arrives in two parts: the first is there when the consumer starts, the rest arrives while
				// its first call is under way
				j := g.Rng.Range(1, len(pkts)-1)
				rounds = append(rounds, pkts[:j], pkts[j:])
				calls = append(calls, nil, cs)
				conc = append(conc, false, true)
			} else {
				rounds = append(rounds, pkts)
				calls = append(calls, cs)
				conc = append(conc, false)
			}
		}
		need, nenv := g.Rng.Intn(2), g.Rng.Intn(2)
		res, eff := ConsumerRun(need, nenv, rounds, calls, conc)
		var in sx.L
		for r := range rounds {
			var pt, ct sx.L
			for _, p := range rounds[r] {
				pt = append(pt, p.tree())
			}
			cs := calls[r]
			if r < len(eff) && len(eff[r]) == len(cs) {
				cs = eff[r]
			}
			for _, c := range cs {
				ct = append(ct, c.tree())
			}
			if pt == nil {
				pt = sx.L{}
			}
			if ct == nil {
				ct = sx.L{}
			}
			in = append(in, sx.L{pt, ct, sx.Bool(conc[r])})
		}
		g.Out.Case(12, sx.L{sx.I(int64(need)), sx.I(int64(nenv)), in}, res, "consumer")
	}
}

// ---------------------------------------------------------------- transport level (fn 11)
// A complete packetised response (bytes on the wire) is cut at byte offset k; the first k bytes are handed to
// the reader goroutine in the given segments (one per Read), then the transport fails for good.
// input  (#stream (segment-length ...) k endkind)     endkind 0 = EOF, 1 = connection error (reset), 2 = i/o timeout error
// output ((delivered package ...) channelErrors connFailed)
type scriptConn struct {
	mu   sync.Mutex
	segs [][]byte
	end  int
}

func (c *scriptConn) Read(p []byte) (int, error) {
	if len(p) == 0 {
		return 0, nil
	}
	c.mu.Lock()
	defer c.mu.Unlock()
	if len(c.segs) == 0 {
		switch c.end {
		case 0:
			return 0, io.EOF
		case 2:
			return 0, timeoutErr{}
		}
		return 0, errors.New("connection reset by peer")
	}
	n := copy(p, c.segs[0])
	if n == len(c.segs[0]) {
		c.segs = c.segs[1:]
	} else {
		c.segs[0] = c.segs[0][n:]
	}
	return n, nil
}
func (c *scriptConn) Write(p []byte) (int, error) { return len(p), nil }

// timeoutErr: an i/o timeout as net.Conn reports it (net.Error with Timeout() == true)
type timeoutErr struct{}

func (timeoutErr) Error() string   { return "read tcp: i/o timeout" }
func (timeoutErr) Timeout() bool   { return true }
func (timeoutErr) Temporary() bool { return true }
func (c *scriptConn) Close() error                { return nil }

// WireBytes serialises packets as a server would.
func WireBytes(pkts []Pkt) []byte {
	var b []byte
	for _, p := range pkts {
		st := p.Status
		if p.EOM {
			st |= int(tds.TDS_BUFSTAT_EOM)
		}
		l := 8 + len(p.Body)
		b = append(b, byte(p.MsgType), byte(st), byte(l>>8), byte(l), byte(p.Channel>>8), byte(p.Channel), byte(p.Nr), byte(p.Window))
		b = append(b, p.Body...)
	}
	return b
}

func TransportRun(segs [][]byte, end int, timeoutSec int) (sx.T, float64) {
	return transportRun(segs, end, timeoutSec, false)
}

// transportRun: with drain set the consumer uses NextPackageUntil(ctx, true, nil) - "read up to the final DONE" - instead
// of NextPackage; output (responsesDrained errorClass): errorClass 1 = an error that is neither the context's nor io.EOF
func transportRun(segs [][]byte, end int, timeoutSec int, drain bool) (sx.T, float64) {
	info := &tds.Info{}
	info.ChannelPackageQueueSize = 100000
	info.PacketReadTimeout = timeoutSec
	tr := &scriptConn{end: end}
	for _, s := range segs {
		tr.segs = append(tr.segs, append([]byte{}, s...))
	}
	// the channel must exist before the reader routes the first packet: create the connection without reader,
	// then the channel, then start the reader
	conn, err := tds.VerifNewConn(context.Background(), info, tr, false)
	if err != nil {
		panic(err)
	}
	ch, _ := conn.NewChannel()
	start := time.Now()
	done := make(chan struct{})
	panicked := false
	go func() {
		defer func() {
			if r := recover(); r != nil {
				panicked = true
			}
			close(done)
		}()
		conn.ReadFrom()
	}()
	// the reader reports the permanent failure again and again until the connection's error queue (10) is full;
	// a reader that gives up (returns) is detected through [done]
	deadline := time.Now().Add(time.Duration(timeoutSec+20) * time.Second)
	readerGone := false
wait:
	for conn.VerifErrChLen() < 10 && time.Now().Before(deadline) {
		select {
		case <-done:
			readerGone = true
			break wait
		default:
		}
		time.Sleep(200 * time.Microsecond)
	}
	elapsed := time.Since(start).Seconds()
	if !readerGone && conn.VerifErrChLen() < 10 {
		atomic.AddInt32(&hangs, 1) // neither did the reader end nor did it keep reporting: it is stuck
	}
	// a reader that has ended will deliver nothing more: what is queued comes at once, waiting longer is pointless
	patience := 250 * time.Millisecond
	if readerGone {
		patience = 15 * time.Millisecond
		if panicked {
			atomic.AddInt32(&hangs, 1) // a crashed reader: the run is a violation anyway, do not pay for thousands of them
		}
	}
	// channel errors first: once the package queue is empty NextPackage would pick one of the queued errors at random
	cerrs := 0
	for ch.VerifNextErr() != nil {
		cerrs++
	}
	if drain {
		n := 0
		class := 0
		for i := 0; i < 10000; i++ {
			ctx, cancel := context.WithTimeout(context.Background(), patience)
			_, err := ch.NextPackageUntil(ctx, true, nil)
			cancel()
			if err == nil || err == io.EOF {
				n++
				continue
			}
			if errors.Is(err, context.DeadlineExceeded) {
				class = 2
			} else {
				class = 1
			}
			break
		}
		conn.VerifCancel()
		return sx.L{sx.I(int64(n)), sx.I(int64(class))}, elapsed
	}
	// the consumer waits for its packages (wait = true, as the drivers do): every package parsed from completely
	// received packets must come before the error, although the error has been queued for a long time by now
	dl := sx.L{}
	for {
		ctx, cancel := context.WithTimeout(context.Background(), patience)
		pkg, err := ch.NextPackage(ctx, true)
		cancel()
		if err != nil {
			break
		}
		dl = append(dl, renderAny(pkg))
	}
	// "then an error": every consumer that asks is told, not only the first one; three successive waiting calls,
	// each with a short context of its own (they return at once when an error is queued)
	told := 0
	for i := 0; i < 3; i++ {
		ctx, cancel := context.WithTimeout(context.Background(), patience)
		_, err := ch.NextPackage(ctx, true)
		cancel()
		if err != nil && !errors.Is(err, context.DeadlineExceeded) {
			told++
		}
	}
	// failed: 1 = the failure is reported to every caller in time; 0 = never; 2 = only to some callers;
	// 3 = later than the read timeout allows (+5 s of scheduling slack); 4 = the reader goroutine panicked
	failed := 0
	switch {
	case panicked:
		failed = 4
	case told == 3 && elapsed > float64(timeoutSec)+5:
		failed = 3
	case told == 3:
		failed = 1
	case told > 0:
		failed = 2
	}
	_ = readerGone
	conn.VerifCancel()
	return sx.L{dl, sx.I(int64(cerrs)), sx.I(int64(failed))}, elapsed
}

// GenTransport: every byte offset of short responses x both failure kinds, partitions down to 1-byte reads,
// splits inside headers.
func GenTransport(g *pk.Gen) {
	nresp := 25
	if g.Thorough {
		nresp = 400
	}
	type slowCase struct {
		wire []byte
		k    int
	}
	var slow []slowCase
	ntimeout, maxslow := 6, 32
	if g.Thorough {
		ntimeout, maxslow = 60, 320
	}
	defer func() {
		if len(slow) > maxslow {
			slow = slow[:maxslow]
		}
		res := make([]sx.T, len(slow))
		var wg sync.WaitGroup
		sem := make(chan struct{}, 16)
		for j := range slow {
			wg.Add(1)
			sem <- struct{}{}
			go func(j int) {
				defer wg.Done()
				defer func() { <-sem }()
				res[j], _ = TransportRun([][]byte{slow[j].wire[:slow[j].k]}, 0, 1)
			}(j)
		}
		wg.Wait()
		for j, c := range slow {
			g.Out.Case(11, sx.L{sx.B(c.wire), sx.L{sx.I(int64(c.k))}, sx.I(int64(c.k)), sx.I(0)}, res[j], "cut-timeout")
		}
	}()
	for i := 0; i < nresp; i++ {
		msg := stream(Response(g))
		if len(msg) == 0 {
			msg = stream([]Item{doneItem(int(tds.TDS_DONE), 0, 0, 0)})
		}
		var cuts []int
		for c := 1; c < len(msg); c++ {
			if g.Rng.Intn(9) == 0 {
				cuts = append(cuts, c)
			}
		}
		pkts := Packetise(msg, cuts)
		if g.Rng.Intn(4) == 0 { // a header-only packet in between
			pkts = append([]Pkt{{MsgType: int(tds.TDS_BUF_PROTACK)}}, pkts...)
		}
		wire := WireBytes(pkts)
		emit := func(k int, segLens []int, end int, tag string) {
			if !g.WantTag(tag) || tooManyHangs() {
				return
			}
			var segs [][]byte
			off := 0
			var sl sx.L
			for _, n := range segLens {
				if off+n > k {
					n = k - off
				}
				if n <= 0 {
					break
				}
				segs = append(segs, wire[off:off+n])
				sl = append(sl, sx.I(int64(n)))
				off += n
			}
			if off < k {
				segs = append(segs, wire[off:k])
				sl = append(sl, sx.I(int64(k-off)))
			}
			if sl == nil {
				sl = sx.L{}
			}
			res, _ := TransportRun(segs, end, 0)
			g.Out.Case(11, sx.L{sx.B(wire), sl, sx.I(int64(k)), sx.I(int64(end))}, res, tag)
		}
		// every offset: one read per packet boundary style (whole prefix in one segment), EOF and error
		step := 1
		if len(wire) > 160 && !g.Thorough {
			step = 3
		}
		for k := 0; k <= len(wire); k += step {
			emit(k, []int{k}, (k/step)%3, "cut-offset")
		}
		emit(len(wire), []int{len(wire)}, 0, "complete")
		// the same failure offsets with a consumer that reads "up to the final DONE" (NextPackageUntil without callback):
		// a response that was cut off must end in the transport's error, never in the end-of-response signal
		if g.WantTag("drain-cut") && !tooManyHangs() {
			dstep := step
			if !g.Thorough && len(wire) > 60 {
				dstep = len(wire)/20 + 1
			}
			for k := 0; k <= len(wire); k += dstep {
				res, _ := transportRun([][]byte{wire[:k]}, (k/dstep)%3, 0, true)
				g.Out.Case(17, sx.L{sx.B(wire), sx.L{sx.I(int64(k))}, sx.I(int64(k)), sx.I(int64((k / dstep) % 3))}, res, "drain-cut")
			}
		}
		// peer close inside a packet body with a live read timeout (1 s): the reader keeps reading until the timeout
		// and then reports; offsets: body short by exactly one header size, by one byte, an empty body, a random one.
		// These cases cost one second each and run in parallel.
		if g.WantTag("cut-timeout") && i < ntimeout {
			off := 0
			for _, p := range pkts {
				if len(p.Body) > 0 {
					ks := []int{off + len(p.Body), off + 8 + len(p.Body) - 1, off + 8, off + 8 + g.Rng.Intn(len(p.Body))}
					for _, k := range ks {
						if k >= off+8 && k < off+8+len(p.Body) {
							slow = append(slow, slowCase{wire, k})
						}
					}
				}
				off += 8 + len(p.Body)
			}
		}
		// partitions of the complete stream: 1-byte reads, random partitions, splits inside each header
		ones := make([]int, len(wire))
		for j := range ones {
			ones[j] = 1
		}
		emit(len(wire), ones, 0, "reads-1-byte")
		for r := 0; r < 6; r++ {
			var sl []int
			for rem := len(wire); rem > 0; {
				n := g.Rng.Range(1, 13)
				if n > rem {
					n = rem
				}
				sl = append(sl, n)
				rem -= n
			}
			emit(len(wire), sl, g.Rng.Intn(2), "reads-random")
			emit(g.Rng.Range(0, len(wire)), sl, g.Rng.Intn(3), "reads-random-cut")
		}
		off := 0
		for _, p := range pkts {
			for h := 1; h < 8; h++ {
				emit(len(wire), []int{off + h, len(wire) - off - h}, 0, "header-split")
			}
			off += 8 + len(p.Body)
		}
		// packet level fuzz (C10): header bytes replaced by arbitrary values (incl. length < 8, other channels, other
		// types), and arbitrary byte streams; at most a handful of bad headers so that the connection's error queue
		// (capacity 10) never fills before the stream ends
		if g.WantTag("wire-fuzz") && len(pkts) <= 4 {
			for r := 0; r < 12; r++ {
				mut := append([]byte{}, wire...)
				hoff := 0
				var hdrs []int
				for _, p := range pkts {
					hdrs = append(hdrs, hoff)
					hoff += 8 + len(p.Body)
				}
				for m := 0; m < g.Rng.Range(1, 2); m++ {
					h := hdrs[g.Rng.Intn(len(hdrs))]
					switch g.Rng.Intn(5) {
					case 0: // length below the header size
						mut[h+2], mut[h+3] = 0, byte(g.Rng.Intn(8))
					case 1: // another channel
						mut[h+4], mut[h+5] = byte(g.Rng.Intn(2)), byte(g.Rng.Range(1, 255))
					case 2:
						mut[h+0] = byte(g.Rng.Intn(256))
					case 3:
						mut[h+1] = byte(g.Rng.Intn(256))
					default:
						mut[h+g.Rng.Intn(8)] = byte(g.Rng.Intn(256))
					}
				}
				saved := wire
				wire = mut
				emit(len(mut), []int{len(mut)}, 0, "wire-fuzz")
				wire = saved
			}
		}
		if g.WantTag("wire-fuzz") && i < 40 {
			for r := 0; r < 6; r++ {
				saved := wire
				wire = g.Rng.Bytes(g.Rng.Range(0, 64))
				if g.Rng.Intn(2) == 0 && len(wire) >= 4 { // plausible small length so that bodies are present
					wire[2], wire[3] = 0, byte(g.Rng.Range(0, 24))
				}
				emit(len(wire), []int{len(wire)}, 0, "wire-fuzz")
				wire = saved
			}
		}
	}
}

// ---------------------------------------------------------------- transport failure during a request write (fn 13)
// input (ps (#chunk ...) k): one package written in the given chunks is sent on channel 0 with packet size ps through a
// transport that accepts k bytes and then fails; output (class #accepted)
type failWriter struct {
	limit    int
	accepted []byte
	dead     bool
}

func (f *failWriter) Read(p []byte) (int, error) {
	if len(p) == 0 {
		return 0, nil
	}
	if f.dead {
		return 0, io.EOF // the peer has closed the idle connection
	}
	select {}
}
func (f *failWriter) Write(p []byte) (int, error) {
	room := f.limit - len(f.accepted)
	if room >= len(p) {
		f.accepted = append(f.accepted, p...)
		return len(p), nil
	}
	if room < 0 {
		room = 0
	}
	f.accepted = append(f.accepted, p[:room]...)
	return room, errors.New("write: broken pipe")
}
func (f *failWriter) Close() error { return nil }

type chunkPkg struct{ chunks [][]byte }

func (p *chunkPkg) ReadFrom(ch tds.BytesChannel) error { return errors.New("not readable") }
func (p *chunkPkg) WriteTo(ch tds.BytesChannel) error {
	for _, c := range p.chunks {
		if err := ch.WriteBytes(c); err != nil {
			return err
		}
	}
	return nil
}
func (p *chunkPkg) String() string { return "chunkPkg" }

// dead: the read side has ended before (the peer closed the idle connection, nobody is waiting for a response): the reader
// goroutine runs, has reported the failure and the connection's error queue has filled up; the failing write must still
// return its error at once.
func WriteFailRun(ps int, chunks [][]byte, k int, dead bool) sx.T {
	tr := &failWriter{limit: k, dead: dead}
	conn, err := tds.VerifNewConn(context.Background(), &tds.Info{}, tr, dead)
	if err != nil {
		panic(err)
	}
	conn.VerifSetPacketSize(ps)
	ch, _ := conn.NewChannel()
	if dead {
		for w, last := 0, -1; w < 100; w++ { // until the error queue stops growing
			time.Sleep(2 * time.Millisecond)
			n := conn.VerifErrChLen()
			if n == last && n > 0 && w > 5 {
				break
			}
			last = n
		}
	}
	class := 0
	done := make(chan int, 1)
	go func() {
		defer func() {
			if r := recover(); r != nil {
				done <- -1
			}
		}()
		if err := ch.SendPackage(context.Background(), &chunkPkg{chunks}); err != nil {
			done <- 1
		} else {
			done <- 0
		}
	}()
	select {
	case class = <-done:
	case <-time.After(5 * time.Second):
		class = -2
	}
	return sx.L{sx.I(int64(class)), sx.B(tr.accepted)}
}

func GenWriteFail(g *pk.Gen) {
	if !g.WantTag("write-fail") {
		return
	}
	n := 40
	if g.Thorough {
		n = 600
	}
	for i := 0; i < n && !tooManyHangs(); i++ {
		ps := []int{16, 24, 64, 512, 512, 2048}[g.Rng.Intn(6)]
		total := g.Rng.Range(1, 4*ps)
		if g.Rng.Intn(4) == 0 {
			total = (ps - 8) * g.Rng.Range(1, 3) // exactly full packets
		}
		data := g.Rng.Bytes(total)
		var chunks [][]byte
		var ct sx.L
		for off := 0; off < len(data); {
			c := g.Rng.Range(1, 2*ps)
			if off+c > len(data) {
				c = len(data) - off
			}
			chunks = append(chunks, data[off:off+c])
			ct = append(ct, sx.B(data[off:off+c]))
			off += c
		}
		wire := total + 8*((total+ps-9)/(ps-8))
		var ks []int
		if wire <= 200 || g.Thorough && wire <= 1200 {
			for k := 0; k <= wire+1; k++ {
				ks = append(ks, k)
			}
		} else {
			ks = []int{0, 1, 7, 8, 9, ps - 1, ps, ps + 1, ps + 8, wire - 1, wire, wire + 1, g.Rng.Intn(wire), g.Rng.Intn(wire)}
		}
		for _, k := range ks {
			g.Out.Case(13, sx.L{sx.I(int64(ps)), ct, sx.I(int64(k))}, WriteFailRun(ps, chunks, k, false), "write-fail")
		}
		for j, k := range ks {
			if j%7 == i%7 && !tooManyHangs() {
				t := WriteFailRun(ps, chunks, k, true)
				if l, ok := t.(sx.L); ok && len(l) > 0 {
					if c, ok := l[0].(sx.I); ok && int64(c) == -2 {
						atomic.AddInt32(&hangs, 1)
					}
				}
				g.Out.Case(13, sx.L{sx.I(int64(ps)), ct, sx.I(int64(k)), sx.I(1)}, t, "write-fail;reader-ended")
			}
		}
	}
}
