package core

import "verifharness/sx"

// PktTree renders a packet as the rx cases do: (msgtype status channel nr window eom #body)
func PktTree(p Pkt) sx.T { return p.tree() }
