(* Generic driver around an extracted model (module Model: tree, run, spec).
   Input lines (TSV):  fn <TAB> input-sexp <TAB> impl-output-sexp [<TAB> tag]
   For every line the model is evaluated on the input (Model.run) and compared with
   what the implementation produced; independently the executable specification
   predicate (Model.spec) is applied to the implementation's output.
   Output: one line per problem
     MISMATCH <lineno> <model-output-sexp>
     SPECFAIL <lineno>
   and a final   DONE <lines> <mismatches> <specfails>.
   Trusted: this file (parser, printers, comparison loop). *)
open Model

(* ---- decimal string <-> extracted Z, without relying on extracted arithmetic ---- *)
let rec pos_of_digits (d : int array) : positive option =
  (* d: big-endian decimal digits, value > 0 ; returns binary positive *)
  let n = Array.length d in
  let is_zero = ref true in
  Array.iter (fun x -> if x <> 0 then is_zero := false) d;
  if !is_zero then None else begin
    (* divide by 2 *)
    let q = Array.make n 0 in
    let r = ref 0 in
    for i = 0 to n - 1 do
      let cur = !r * 10 + d.(i) in
      q.(i) <- cur / 2; r := cur mod 2
    done;
    let bit = !r in
    match pos_of_digits q with
    | None -> Some XH  (* value was 1 *)
    | Some p -> Some (if bit = 1 then XI p else XO p)
  end

let z_of_string (s : string) : z =
  let neg = String.length s > 0 && s.[0] = '-' in
  let s' = if neg then String.sub s 1 (String.length s - 1) else s in
  if String.length s' = 0 then failwith ("bad integer: " ^ s);
  let d = Array.init (String.length s') (fun i ->
    let c = s'.[i] in if c < '0' || c > '9' then failwith ("bad integer: " ^ s) else Char.code c - 48) in
  match pos_of_digits d with
  | None -> Z0
  | Some p -> if neg then Zneg p else Zpos p

let rec z_of_int (n : int) : z =
  if n = 0 then Z0 else if n < 0 then (match z_of_int (-n) with Zpos p -> Zneg p | x -> x)
  else
    let rec pos n = if n = 1 then XH else if n land 1 = 1 then XI (pos (n lsr 1)) else XO (pos (n lsr 1)) in
    Zpos (pos n)

(* small values as int, big ones via decimal digit lists (little-endian) *)
let dec_double_add (d : int list) (b : int) : int list =
  let rec go d carry = match d with
    | [] -> if carry = 0 then [] else [carry]
    | x :: r -> let v = 2 * x + carry in (v mod 10) :: go r (v / 10) in
  go d b

let rec pos_digits (p : positive) : int list = match p with
  | XH -> [1]
  | XO q -> dec_double_add (pos_digits q) 0
  | XI q -> dec_double_add (pos_digits q) 1

let string_of_pos p =
  let d = pos_digits p in
  let b = Buffer.create 20 in
  List.iter (fun x -> Buffer.add_char b (Char.chr (48 + x))) (List.rev d);
  Buffer.contents b

let string_of_z = function
  | Z0 -> "0" | Zpos p -> string_of_pos p | Zneg p -> "-" ^ string_of_pos p

let rec int_of_pos = function XH -> 1 | XO q -> 2 * int_of_pos q | XI q -> 2 * int_of_pos q + 1
let int_of_z = function Z0 -> 0 | Zpos p -> int_of_pos p | Zneg p -> - (int_of_pos p)

(* ---- S-expressions ---- *)
let hexval c = match c with
  | '0'..'9' -> Char.code c - 48 | 'a'..'f' -> Char.code c - 87 | 'A'..'F' -> Char.code c - 55
  | _ -> failwith "bad hex"

let parse_atom (a : string) : tree =
  let n = String.length a in
  if n = 0 then failwith "empty atom"
  else if a.[0] = '#' then begin
    if (n - 1) mod 2 <> 0 then failwith "odd hex";
    let rec go i acc = if i < 1 then acc else go (i - 2) (z_of_int (hexval a.[i-1] * 16 + hexval a.[i]) :: acc) in
    TB (go (n - 1) [])
  end else if a.[0] = '$' then begin
    if n = 1 then TB [] else
    let parts = String.split_on_char '.' (String.sub a 1 (n - 1)) in
    TB (List.map (fun p -> z_of_int (int_of_string ("0x" ^ p))) parts)
  end else TI (z_of_string a)

let parse_sexp (s : string) : tree =
  let n = String.length s in
  let pos = ref 0 in
  let rec skip () = if !pos < n && s.[!pos] = ' ' then (incr pos; skip ()) in
  let rec item () : tree =
    skip ();
    if !pos >= n then failwith "unexpected end";
    if s.[!pos] = '(' then begin
      incr pos;
      let rec items acc =
        skip ();
        if !pos >= n then failwith "unclosed (";
        if s.[!pos] = ')' then (incr pos; List.rev acc) else items (item () :: acc) in
      TL (items [])
    end else begin
      let st = !pos in
      while !pos < n && s.[!pos] <> ' ' && s.[!pos] <> ')' && s.[!pos] <> '(' do incr pos done;
      parse_atom (String.sub s st (!pos - st))
    end in
  let t = item () in
  skip ();
  if !pos <> n then failwith "trailing garbage";
  t

let rec print_tree (b : Buffer.t) (t : tree) : unit = match t with
  | TI z -> Buffer.add_string b (string_of_z z)
  | TB bs ->
    let l = List.map int_of_z bs in
    if List.for_all (fun x -> x >= 0 && x < 256) l then begin
      Buffer.add_char b '#';
      List.iter (fun x -> Buffer.add_string b (Printf.sprintf "%02x" x)) l
    end else begin
      Buffer.add_char b '$';
      List.iteri (fun i x -> if i > 0 then Buffer.add_char b '.'; Buffer.add_string b (Printf.sprintf "%x" x)) l
    end
  | TL l ->
    Buffer.add_char b '(';
    List.iteri (fun i x -> if i > 0 then Buffer.add_char b ' '; print_tree b x) l;
    Buffer.add_char b ')'

let string_of_tree t = let b = Buffer.create 64 in print_tree b t; Buffer.contents b

let () =
  let lines = ref 0 and mism = ref 0 and specf = ref 0 in
  let ic = if Array.length Sys.argv > 1 then open_in Sys.argv.(1) else stdin in
  (try while true do
    let line = input_line ic in
    incr lines;
    if String.length line > 0 && line.[0] <> '%' then begin
      match String.split_on_char '\t' line with
      | fn :: inp :: out :: _ ->
        (try
          let f = z_of_string fn in
          let i = parse_sexp inp in
          let o = parse_sexp out in
          let m = run f i in
          if m <> o then begin
            incr mism; Printf.printf "MISMATCH %d %s\n" !lines (string_of_tree m) end;
          if not (spec f i o) then begin
            incr specf; Printf.printf "SPECFAIL %d\n" !lines end
        with Failure msg -> (incr mism; Printf.printf "MISMATCH %d parse-failure:%s\n" !lines msg))
      | _ -> (incr mism; Printf.printf "MISMATCH %d bad-line\n" !lines)
    end
  done with End_of_file -> ());
  Printf.printf "DONE %d %d %d\n" !lines !mism !specf
