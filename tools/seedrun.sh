#!/bin/sh
# usage: seedrun.sh <patch.diff> <ID> [tier]   -- applies a seeded change to /repo, runs the check, undoes it
patch=$1; id=$2; tier=${3:-quick}
cd /repo || exit 2
git apply "$patch" || { echo "PATCH DOES NOT APPLY"; exit 2; }
cd /verif && python3 check.py $id --tier $tier 2>&1 | tail -${4:-8}
rc=$?
git -C /repo checkout -- . 
exit $rc
