#!/bin/sh
# usage: seedrun.sh <patch.diff> <ID> [tier] [tail-lines]
# applies a seeded change to /repo, runs the check, undoes it. Holds the exclusive /repo lock meanwhile
# (checks take it shared), so concurrent checks never see a patched tree.
patch=$(readlink -f "$1"); id=$2; tier=${3:-quick}
mkdir -p /verif/build
exec 9>/verif/build/repo.lock
flock -x 9
cd /repo || exit 2
if [ -n "$(git status --short --untracked-files=no)" ]; then echo "/repo is not clean; refusing"; exit 2; fi
git apply "$patch" || { echo "PATCH DOES NOT APPLY"; exit 2; }
cd /verif && VERIF_REPO_LOCKED=1 python3 check.py $id --tier $tier 2>&1 | tail -${4:-8}
git -C /repo checkout -- .
