#!/bin/sh
# usage: seedrun.sh <patch.diff> <ID> [tier] [tail-lines]
# applies a seeded change to /repo, runs the check, undoes it. Holds the exclusive /repo lock meanwhile
# (checks take it shared), so concurrent checks never see a patched tree.  The evidence file of the
# clean-tree run is put back afterwards (the seeded run's evidence is kept as build/seeded-evidence/<ID>.json).
patch=$(readlink -f "$1"); id=$2; tier=${3:-quick}
mkdir -p /verif/build/seeded-evidence
exec 9>/verif/build/repo.lock
flock -x 9
cd /repo || exit 2
if [ -n "$(git status --short --untracked-files=no)" ]; then echo "/repo is not clean; refusing"; exit 2; fi
git apply "$patch" || { echo "PATCH DOES NOT APPLY"; exit 2; }
# whatever happens (also when this script is killed): /repo gets its files back
trap 'git -C /repo checkout -- .' EXIT INT TERM HUP
cd /verif
[ -f evidence/$id.json ] && cp evidence/$id.json build/seeded-evidence/$id.clean
VERIF_REPO_LOCKED=1 python3 check.py $id --tier $tier 2>&1 | tail -${4:-8}
[ -f evidence/$id.json ] && mv evidence/$id.json build/seeded-evidence/$id.json
[ -f build/seeded-evidence/$id.clean ] && mv build/seeded-evidence/$id.clean evidence/$id.json
git -C /repo checkout -- .
