#!/bin/sh
# usage: seed_matrix.sh <mN|all> [ID ...]   runs every seeded change seeded/<ID>/<mN> against the check of its own property
# and prints one line per seed: CAUGHT(input) / CAUGHT(no-input) / MISSED
which=${1:-all}; shift
ids=${@:-$(ls /verif/seeded | grep '^C')}
for id in $ids; do
  for d in /verif/seeded/$id/m*; do
    m=$(basename $d)
    [ "$which" != all ] && [ "$which" != "$m" ] && continue
    out=$(timeout 2400 /verif/tools/seedrun.sh $d/patch.diff $id quick 60 2>&1)
    # seedrun.sh restores /repo itself (also when killed); should anything be left, revert it only while holding the lock
    flock -x /verif/build/repo.lock -c 'if [ -n "$(git -C /repo status --short --untracked-files=no)" ]; then git -C /repo checkout -- .; fi' 
    if echo "$out" | grep -q "^VIOLATION.*no-failing-input-found"; then r="CAUGHT(no-input)";
    elif echo "$out" | grep -q "^VIOLATION"; then r="CAUGHT(input)";
    elif echo "$out" | grep -q "^OK"; then r="MISSED"; else r="?? $(echo "$out" | tail -2 | tr '\n' ' ' | cut -c1-200)"; fi
    echo "$id/$m $r $(echo "$out" | grep -m1 'spec predicate fails' | cut -c1-160)"
  done
done
