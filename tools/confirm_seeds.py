#!/usr/bin/env python3
"""Confirms every seeded change under a source dir in a scratch worktree of /repo (removed afterwards):
patch applies, existing tests pass with it, the demonstration fails with it and passes without it.
Confirmed ones are copied to /verif/seeded/<ID>/<mN>/ with meta.json extended by what was run."""
import json, os, shutil, subprocess, sys, glob
SRC = sys.argv[1] if len(sys.argv) > 1 else "/tmp/seed/out"
WT = "/tmp/seedconfirm"
env = dict(os.environ, GOFLAGS="-mod=mod", GOPROXY="off", GOSUMDB="off", GOTOOLCHAIN="local")
def sh(cmd, cwd=None, timeout=900):
    p = subprocess.run(cmd, shell=True, cwd=cwd, env=env, stdout=subprocess.PIPE, stderr=subprocess.STDOUT, text=True, errors="replace", timeout=timeout)
    return p.returncode, p.stdout
sh("git -C /repo worktree remove --force %s" % WT)
rc, o = sh("git -C /repo worktree add -q --detach %s HEAD" % WT)
assert rc == 0, o
head = sh("git -C /repo rev-parse --short HEAD")[1].strip()
only = sys.argv[2:] 
for d in sorted(glob.glob(os.path.join(SRC, "C*", "m*"))):
    pid, m = d.split("/")[-2:]
    if only and pid not in only:
        continue
    try:
        meta = json.load(open(os.path.join(d, "meta.json")))
    except Exception as e:
        print(pid, m, "BAD meta.json", e); continue
    demo = meta["demo"]
    sh("git checkout -q -- . && git clean -fdq", cwd=WT)
    rc, o = sh("git apply --check %s/patch.diff" % d, cwd=WT)
    if rc != 0:
        print(pid, m, "PATCH DOES NOT APPLY"); continue
    dst = os.path.join(WT, demo["copy_to"], demo["file"])
    shutil.copyfile(os.path.join(d, demo["file"]), dst)
    run = demo["run"]
    if "go test" in run:
        run = run[run.index("go test"):]      # drop any leading cd / export: the command runs in the scratch worktree
        demo["run"] = run
    rc_clean, o_clean = sh(run, cwd=WT)
    sh("git apply %s/patch.diff" % d, cwd=WT)
    rc_bug, o_bug = sh(run, cwd=WT)
    os.remove(dst)
    rc_suite, o_suite = sh("go build ./... && go test -vet=off -count=1 ./...", cwd=WT)
    ok = rc_clean == 0 and rc_bug != 0 and rc_suite == 0
    print(pid, m, "CONFIRMED" if ok else "NOT CONFIRMED", "clean=%d bug=%d suite=%d" % (rc_clean, rc_bug, rc_suite), flush=True)
    if ok:
        out = os.path.join("/verif/seeded", pid, m)
        os.makedirs(out, exist_ok=True)
        for f in ("patch.diff", demo["file"]):
            shutil.copyfile(os.path.join(d, f), os.path.join(out, f))
        meta["confirmed"] = dict(repo_head=head, ran=[run + "  (clean tree: pass)", run + "  (with patch: fail)", "go build ./... && go test -vet=off -count=1 ./...  (with patch: pass)"])
        json.dump(meta, open(os.path.join(out, "meta.json"), "w"), indent=1)
    else:
        open("/tmp/seedconfirm-%s-%s.log" % (pid, m), "w").write(o_clean[-3000:] + "\n=====BUG\n" + o_bug[-3000:] + "\n=====SUITE\n" + o_suite[-3000:])
sh("git -C /repo worktree remove --force %s" % WT)
