(* C16: lemmas about positional notation and the string helpers of the model and the specification. *)
From Coq Require Import ZArith List Bool Lia.
Import ListNotations.
From V Require Import Base.Tree Base.Bytes C16.Model C16.Spec.
Open Scope Z_scope.

(* ------------------------------------------------------------------ lengths *)
Lemma zlen_nil : forall A, zlen (@nil A) = 0.
Proof. reflexivity. Qed.
Lemma zlen_cons : forall A (x : A) l, zlen (x :: l) = zlen l + 1.
Proof. intros A x l. unfold zlen. cbn [length]. lia. Qed.
Lemma zlen_app : forall A (a b : list A), zlen (a ++ b) = zlen a + zlen b.
Proof. intros A a b. unfold zlen. rewrite app_length. lia. Qed.
Lemma zlen_nonneg : forall A (l : list A), 0 <= zlen l.
Proof. intros A l. unfold zlen. lia. Qed.
Lemma zlen_rev : forall A (l : list A), zlen (rev l) = zlen l.
Proof. intros A l. unfold zlen. rewrite rev_length. reflexivity. Qed.
Lemma zlen_repeat : forall (x : Z) n, zlen (repeat x n) = Z.of_nat n.
Proof. intros x n. unfold zlen. rewrite repeat_length. reflexivity. Qed.
Lemma zlen_zero_nil : forall A (l : list A), zlen l = 0 -> l = [].
Proof. intros A l H. destruct l as [|x r]; [reflexivity|]. rewrite zlen_cons in H. pose proof (zlen_nonneg A r). lia. Qed.

Lemma ztake_zdrop : forall A k (l : list A), ztake k l ++ zdrop k l = l.
Proof. intros A k l. unfold ztake, zdrop. apply firstn_skipn. Qed.
Lemma zlen_ztake : forall A k (l : list A), 0 <= k <= zlen l -> zlen (ztake k l) = k.
Proof. intros A k l H. unfold ztake, zlen in *. rewrite firstn_length. lia. Qed.
Lemma zlen_zdrop : forall A k (l : list A), 0 <= k <= zlen l -> zlen (zdrop k l) = zlen l - k.
Proof. intros A k l H. unfold zdrop, zlen in *. rewrite skipn_length. lia. Qed.

Lemma pow10_pos : forall k, 0 < 10 ^ k \/ (k < 0 /\ 10 ^ k = 0).
Proof.
  intros k. destruct (Z_lt_le_dec k 0) as [H|H].
  - right. split; [exact H|]. apply Z.pow_neg_r. exact H.
  - left. apply Z.pow_pos_nonneg; lia.
Qed.
Lemma pow10_gt0 : forall k, 0 <= k -> 0 < 10 ^ k.
Proof. intros k H. apply Z.pow_pos_nonneg; lia. Qed.
Lemma pow10_succ : forall k, 0 <= k -> 10 ^ (k + 1) = 10 * 10 ^ k.
Proof. intros k H. rewrite Z.pow_add_r by lia. rewrite Z.pow_1_r. lia. Qed.
Lemma pow10_add : forall a b, 0 <= a -> 0 <= b -> 10 ^ (a + b) = 10 ^ a * 10 ^ b.
Proof. intros a b Ha Hb. apply Z.pow_add_r; assumption. Qed.
Lemma pow10_le : forall a b, 0 <= a <= b -> 10 ^ a <= 10 ^ b.
Proof. intros a b H. apply Z.pow_le_mono_r; lia. Qed.

(* ------------------------------------------------------------------ value of digit strings *)
Definition digits (l : list Z) : Prop := forallb is_digit l = true.

Lemma is_digit_iff : forall c, is_digit c = true <-> 48 <= c <= 57.
Proof. intros c. unfold is_digit. rewrite andb_true_iff, !Z.leb_le. reflexivity. Qed.
Lemma is_dig_digit : forall c, is_dig c = is_digit c.
Proof.
  intros c. unfold is_dig, is_digit. cbn [existsb].
  destruct (Z.leb_spec 48 c) as [H1|H1]; destruct (Z.leb_spec c 57) as [H2|H2]; cbn [andb];
    repeat match goal with |- context [Z.eqb c ?k] => destruct (Z.eqb_spec c k) as [?|?]; cbn [orb] end;
    try reflexivity; lia.
Qed.

Lemma digits_nil : digits [].
Proof. reflexivity. Qed.
Lemma digits_cons : forall c l, digits (c :: l) <-> 48 <= c <= 57 /\ digits l.
Proof. intros c l. unfold digits. cbn [forallb]. rewrite andb_true_iff, is_digit_iff. reflexivity. Qed.
Lemma digits_app : forall a b, digits (a ++ b) <-> digits a /\ digits b.
Proof. intros a b. unfold digits. rewrite forallb_app, andb_true_iff. reflexivity. Qed.
Lemma digits_repeat0 : forall n, digits (repeat 48 n).
Proof. intros n. induction n as [|n IH]; [reflexivity|]. cbn [repeat]. apply digits_cons. split; [lia|exact IH]. Qed.
Lemma digits_rev : forall l, digits (rev l) <-> digits l.
Proof.
  intros l. induction l as [|c r IH]; [reflexivity|]. cbn [rev]. rewrite digits_app, !digits_cons, IH.
  pose proof digits_nil. tauto.
Qed.

Lemma val_fold : forall l a, fold_left (fun a c => 10 * a + (c - 48)) l a = a * 10 ^ zlen l + val_digits l.
Proof.
  intros l. unfold val_digits. induction l as [|c r IH]; intros a.
  - cbn [fold_left]. rewrite zlen_nil. cbn. lia.
  - cbn [fold_left]. rewrite IH. rewrite (IH (10 * 0 + (c - 48))). rewrite zlen_cons.
    rewrite pow10_succ by apply zlen_nonneg. lia.
Qed.
Lemma val_nil : val_digits [] = 0.
Proof. reflexivity. Qed.
Lemma val_cons : forall c l, val_digits (c :: l) = (c - 48) * 10 ^ zlen l + val_digits l.
Proof. intros c l. unfold val_digits at 1. cbn [fold_left]. rewrite val_fold. f_equal. Qed.
Lemma val_app : forall a b, val_digits (a ++ b) = val_digits a * 10 ^ zlen b + val_digits b.
Proof. intros a b. unfold val_digits at 1. rewrite fold_left_app. fold (val_digits a). apply val_fold. Qed.
Lemma val_single : forall c, val_digits [c] = c - 48.
Proof. intros c. rewrite val_cons, val_nil, zlen_nil. cbn. lia. Qed.
Lemma val_repeat0 : forall n, val_digits (repeat 48 n) = 0.
Proof.
  intros n. induction n as [|n IH]; [reflexivity|]. cbn [repeat]. rewrite val_cons, IH. lia.
Qed.
Lemma val_app_zeros : forall a n, val_digits (a ++ repeat 48 n) = val_digits a * 10 ^ Z.of_nat n.
Proof. intros a n. rewrite val_app, val_repeat0, zlen_repeat. lia. Qed.
Lemma val_zeros_app : forall a n, val_digits (repeat 48 n ++ a) = val_digits a.
Proof. intros a n. rewrite val_app, val_repeat0. lia. Qed.

Lemma val_bound : forall l, digits l -> 0 <= val_digits l < 10 ^ zlen l.
Proof.
  intros l. induction l as [|c r IH]; intros H.
  - rewrite val_nil, zlen_nil. cbn. lia.
  - apply digits_cons in H. destruct H as [Hc Hr]. specialize (IH Hr).
    rewrite val_cons, zlen_cons, pow10_succ by apply zlen_nonneg. nia.
Qed.
(* no leading zero: the value has exactly that many digits *)
Lemma val_lower : forall c r, 49 <= c <= 57 -> digits r -> 10 ^ zlen r <= val_digits (c :: r).
Proof. intros c r Hc Hr. rewrite val_cons. pose proof (val_bound r Hr) as B. nia. Qed.

(* the specification's positional value is the same function *)
Lemma nat_val_w_spec : forall l, nat_val_w l = (val_digits l, 10 ^ zlen l).
Proof.
  intros l. induction l as [|c r IH]; [reflexivity|].
  cbn [nat_val_w]. rewrite IH. cbn [fst snd]. rewrite val_cons, zlen_cons, pow10_succ by apply zlen_nonneg.
  reflexivity.
Qed.
Lemma nat_val_eq : forall l, nat_val l = val_digits l.
Proof. intros l. unfold nat_val. rewrite nat_val_w_spec. reflexivity. Qed.

(* ------------------------------------------------------------------ big.Int.String *)
Lemma div_eucl_10 : forall n, Z.div_eucl n 10 = (n / 10, n mod 10).
Proof. intros n. unfold Z.div, Z.modulo. destruct (Z.div_eucl n 10) as [q r]. reflexivity. Qed.

Lemma digs_spec : forall fuel n acc, 0 <= n < 2 ^ Z.of_nat fuel -> digits acc ->
  digits (digs fuel n acc) /\ val_digits (digs fuel n acc) = n * 10 ^ zlen acc + val_digits acc /\
  (0 < n -> exists c r, digs fuel n acc = c :: r /\ 49 <= c <= 57) /\
  (n = 0 -> fuel <> O -> exists r, digs fuel n acc = 48 :: r) /\
  zlen acc <= zlen (digs fuel n acc).
Proof.
  intros fuel. induction fuel as [|f IH]; intros n acc Hn Ha.
  - cbn [digs]. change (2 ^ Z.of_nat 0) with 1 in Hn. assert (n = 0) by lia. subst n.
    split; [exact Ha|]. split; [lia|]. split; [intros H; lia|]. split; [intros _ H; congruence|lia].
  - cbn [digs]. destruct (Z.ltb_spec n 10) as [H10|H10].
    + split; [apply digits_cons; split; [lia|exact Ha]|]. split; [rewrite val_cons; f_equal; lia|].
      split; [intros Hp; exists (48 + n), acc; split; [reflexivity|lia]|].
      split; [intros H0 _; subst n; exists acc; reflexivity|]. rewrite zlen_cons. lia.
    + rewrite div_eucl_10. cbn [fst snd].
      assert (Hq : 0 <= n / 10 < 2 ^ Z.of_nat f).
      { split; [apply Z.div_pos; lia|].
        rewrite Nat2Z.inj_succ, Z.pow_succ_r in Hn by lia.
        apply Z.div_lt_upper_bound; lia. }
      assert (Hm : 0 <= n mod 10 < 10) by (apply Z.mod_pos_bound; lia).
      assert (Ha' : digits ((48 + n mod 10) :: acc)) by (apply digits_cons; split; [lia|exact Ha]).
      destruct (IH (n / 10) ((48 + n mod 10) :: acc) Hq Ha') as [D [V [P [_ L]]]].
      split; [exact D|]. split.
      * rewrite V, val_cons, zlen_cons, pow10_succ by apply zlen_nonneg.
        pose proof (Z.div_mod n 10 ltac:(lia)) as E. nia.
      * split; [intros _; apply P; apply Z.div_str_pos; lia|]. split; [intros H0; lia|].
        rewrite zlen_cons in L. lia.
Qed.

Lemma big_fuel : forall n, 0 <= n -> 0 <= n < 2 ^ Z.of_nat (S (Z.to_nat (Z.log2 n))).
Proof.
  intros n Hn. rewrite Nat2Z.inj_succ, Z2Nat.id by apply Z.log2_nonneg.
  destruct (Z.eq_dec n 0) as [->|Hz]; [cbn; lia|].
  pose proof (Z.log2_spec n ltac:(lia)) as H. lia.
Qed.

Lemma big_string_digits : forall n, 0 <= n -> digits (big_string n).
Proof. intros n Hn. unfold big_string. apply (digs_spec _ n [] (big_fuel n Hn) digits_nil). Qed.
Lemma big_string_val : forall n, 0 <= n -> val_digits (big_string n) = n.
Proof.
  intros n Hn. unfold big_string.
  destruct (digs_spec _ n [] (big_fuel n Hn) digits_nil) as [_ [V _]]. rewrite V, zlen_nil, val_nil. cbn. lia.
Qed.
Lemma big_string_head : forall n, 0 < n -> exists c r, big_string n = c :: r /\ 49 <= c <= 57.
Proof.
  intros n Hn. unfold big_string.
  destruct (digs_spec _ n [] (big_fuel n ltac:(lia)) digits_nil) as [_ [_ [P _]]]. exact (P Hn).
Qed.
Lemma big_string_zero : big_string 0 = [48].
Proof. reflexivity. Qed.

(* number of digits <-> magnitude *)
Lemma big_string_len : forall n p, 0 < n -> 0 <= p -> (zlen (big_string n) <= p <-> n < 10 ^ p).
Proof.
  intros n p Hn Hp.
  destruct (big_string_head n Hn) as [c [r [E Hc]]].
  pose proof (big_string_digits n ltac:(lia)) as D. pose proof (big_string_val n ltac:(lia)) as V.
  rewrite E in D, V |- *. apply digits_cons in D. destruct D as [_ Dr].
  pose proof (val_lower c r Hc Dr) as Lo.
  pose proof (val_bound (c :: r) ltac:(apply digits_cons; split; [lia|exact Dr])) as Hi.
  rewrite V in Lo, Hi. rewrite zlen_cons in *. pose proof (zlen_nonneg _ r) as Hr.
  split; intros H.
  - pose proof (pow10_le (zlen r + 1) p ltac:(lia)). lia.
  - destruct (Z_le_gt_dec (zlen r + 1) p) as [Hle|Hgt]; [exact Hle|].
    pose proof (pow10_le p (zlen r) ltac:(lia)). lia.
Qed.

(* ------------------------------------------------------------------ padding *)
Lemma pad0_digits : forall w d, digits d -> digits (pad0 w d).
Proof. intros w d H. unfold pad0. apply digits_app. split; [apply digits_repeat0|exact H]. Qed.
Lemma pad0_val : forall w d, val_digits (pad0 w d) = val_digits d.
Proof. intros w d. unfold pad0. apply val_zeros_app. Qed.
Lemma pad0_len : forall w d, zlen d <= w -> zlen (pad0 w d) = w.
Proof. intros w d H. unfold pad0. rewrite zlen_app, zlen_repeat. rewrite Z2Nat.id by lia. lia. Qed.
Lemma pad0_long : forall w d, w <= zlen d -> pad0 w d = d.
Proof. intros w d H. unfold pad0. replace (Z.to_nat (w - zlen d)) with O by lia. reflexivity. Qed.

(* ------------------------------------------------------------------ drop_while / trimming *)
Lemma drop_while_spec : forall f l, exists a, l = a ++ drop_while f l /\ forallb f a = true /\
  match drop_while f l with [] => True | c :: _ => f c = false end.
Proof.
  intros f l. induction l as [|c r IH].
  - exists []. repeat split.
  - cbn [drop_while]. destruct (f c) eqn:Fc.
    + destruct IH as [a [E [Fa Hd]]]. exists (c :: a). split; [cbn [app]; f_equal; exact E|].
      split; [cbn [forallb]; rewrite Fc, Fa; reflexivity|exact Hd].
    + exists []. split; [reflexivity|]. split; [reflexivity|exact Fc].
Qed.
Lemma drop_while_id : forall f c r, f c = false -> drop_while f (c :: r) = c :: r.
Proof. intros f c r H. cbn [drop_while]. rewrite H. reflexivity. Qed.
Lemma drop_while_all : forall f a l, forallb f a = true -> drop_while f (a ++ l) = drop_while f l.
Proof.
  intros f a l. induction a as [|c r IH]; intros H; [reflexivity|].
  cbn [forallb] in H. apply andb_true_iff in H. destruct H as [Hc Hr]. cbn [app drop_while]. rewrite Hc. exact (IH Hr).
Qed.

Lemma all_zero_repeat : forall a, forallb is_zero_ch a = true -> a = repeat 48 (length a).
Proof.
  intros a. induction a as [|c r IH]; intros H; [reflexivity|].
  cbn [forallb] in H. apply andb_true_iff in H. destruct H as [Hc Hr]. unfold is_zero_ch in Hc.
  apply Z.eqb_eq in Hc. subst c. cbn [length repeat]. f_equal. exact (IH Hr).
Qed.

(* TrimLeft "0": value kept, no leading zero left *)
Lemma trim_left0_spec : forall l, exists k, l = repeat 48 k ++ trim_left is_zero_ch l /\
  match trim_left is_zero_ch l with [] => True | c :: _ => c <> 48 end.
Proof.
  intros l. unfold trim_left. destruct (drop_while_spec is_zero_ch l) as [a [E [Fa Hd]]].
  exists (length a). rewrite <- (all_zero_repeat a Fa). split; [exact E|].
  destruct (drop_while is_zero_ch l) as [|c r]; [exact I|]. unfold is_zero_ch in Hd. apply Z.eqb_neq. exact Hd.
Qed.
Lemma rev_repeat : forall (x : Z) n, rev (repeat x n) = repeat x n.
Proof.
  intros x n. induction n as [|n IH]; [reflexivity|]. cbn [repeat rev]. rewrite IH. clear IH.
  induction n as [|n IH]; [reflexivity|]. cbn [repeat app]. f_equal. exact IH.
Qed.
Lemma all_zero_rev : forall a, forallb is_zero_ch a = true -> rev a = repeat 48 (length a).
Proof.
  intros a H. pose proof (all_zero_repeat a H) as E. rewrite E at 1. apply rev_repeat.
Qed.
Lemma forallb_zero_repeat : forall k, forallb is_zero_ch (repeat 48 k) = true.
Proof. intros k. induction k as [|k IH]; [reflexivity|]. cbn [repeat forallb]. rewrite IH. reflexivity. Qed.
(* TrimRight "0" *)
Lemma trim_right0_spec : forall l, exists k, l = trim_right is_zero_ch l ++ repeat 48 k /\
  (trim_right is_zero_ch l = [] \/ exists b c, trim_right is_zero_ch l = b ++ [c] /\ c <> 48).
Proof.
  intros l. unfold trim_right. destruct (drop_while_spec is_zero_ch (rev l)) as [a [E [Fa Hd]]].
  exists (length a). split.
  - rewrite <- (all_zero_rev a Fa), <- rev_app_distr, <- E. symmetry. apply rev_involutive.
  - destruct (drop_while is_zero_ch (rev l)) as [|c r]; [left; reflexivity|]. right.
    exists (rev r), c. split; [reflexivity|]. unfold is_zero_ch in Hd. apply Z.eqb_neq. exact Hd.
Qed.
Lemma trim_right_idem_ne : forall f b c, f c = false -> trim_right f (b ++ [c]) = b ++ [c].
Proof.
  intros f b c H. unfold trim_right. rewrite rev_app_distr. cbn [rev app]. rewrite drop_while_id by exact H.
  cbn [rev]. rewrite rev_involutive. reflexivity.
Qed.
Lemma trim_right0_single0 : trim_right is_zero_ch [48] = [].
Proof. reflexivity. Qed.
Lemma trim_right0_app_zeros : forall b k, trim_right is_zero_ch (b ++ repeat 48 k) = trim_right is_zero_ch b.
Proof.
  intros b k. unfold trim_right. rewrite rev_app_distr. f_equal. apply drop_while_all.
  rewrite rev_repeat. apply forallb_zero_repeat.
Qed.

(* ------------------------------------------------------------------ TrimSpace *)
Lemma is_ws_space : forall c, is_ws c = is_space c.
Proof.
  intros c. unfold is_ws, is_space. cbn [existsb].
  repeat match goal with |- context [Z.eqb c ?k] => destruct (Z.eqb_spec c k) as [->|?]; [reflexivity|] end.
  cbn [orb].
  destruct (Z.leb_spec c 255) as [H|H]; destruct (Z.leb_spec 8192 c) as [H1|H1]; destruct (Z.leb_spec c 8202) as [H2|H2];
    try reflexivity; lia.
Qed.
Lemma skip_ws_drop : forall l, skip_ws l = drop_while is_space l.
Proof. intros l. induction l as [|c r IH]; [reflexivity|]. cbn [skip_ws drop_while]. rewrite is_ws_space, IH. reflexivity. Qed.
Lemma strip_trim : forall l, strip l = trim_space l.
Proof. intros l. unfold strip, trim_space, trim_right, trim_left. rewrite !skip_ws_drop. reflexivity. Qed.

Lemma digit_not_space : forall c, 43 <= c <= 57 -> is_space c = false.
Proof.
  intros c H. unfold is_space. destruct (Z.leb_spec c 255) as [H1|H1]; [|lia].
  repeat match goal with |- context [Z.eqb c ?k] => destruct (Z.eqb_spec c k) as [?|?]; [lia|] end. reflexivity.
Qed.
(* text that neither starts nor ends with white space is left alone *)
Lemma trim_space_id : forall c b d, is_space c = false -> is_space d = false ->
  trim_space (c :: b ++ [d]) = c :: b ++ [d].
Proof.
  intros c b d Hc Hd. unfold trim_space, trim_left. rewrite drop_while_id by exact Hc.
  change (c :: b ++ [d]) with ((c :: b) ++ [d]). apply trim_right_idem_ne. exact Hd.
Qed.

(* ------------------------------------------------------------------ Split on "." *)
Definition nodot (l : list Z) : Prop := ~ In 46 l.
Lemma nodot_cons : forall c l, nodot (c :: l) <-> c <> 46 /\ nodot l.
Proof. intros c l. unfold nodot. cbn [In]. intuition. Qed.
Lemma nodot_app : forall a b, nodot (a ++ b) <-> nodot a /\ nodot b.
Proof. intros a b. unfold nodot. rewrite in_app_iff. tauto. Qed.
Lemma digits_nodot : forall l, digits l -> nodot l.
Proof.
  intros l. induction l as [|c r IH]; intros H; [intros []|].
  apply digits_cons in H. destruct H as [Hc Hr]. apply nodot_cons. split; [lia|exact (IH Hr)].
Qed.

Lemma split_dot_nonnil : forall l, split_dot l <> [].
Proof.
  intros l. destruct l as [|c r]; [discriminate|]. cbn [split_dot].
  destruct (c =? 46); [discriminate|]. destruct (split_dot r); discriminate.
Qed.
Lemma split_dot_spec : forall l, exists a rest, split_dot l = a :: rest /\ nodot a /\
  ((rest = [] /\ l = a) \/ (exists l', l = a ++ 46 :: l' /\ split_dot l' = rest)).
Proof.
  intros l. induction l as [|c r IH].
  - exists [], []. split; [reflexivity|]. split; [intros []|]. left. split; reflexivity.
  - cbn [split_dot]. destruct (Z.eqb_spec c 46) as [->|Hc].
    + exists [], (split_dot r). split; [reflexivity|]. split; [intros []|]. right. exists r. split; reflexivity.
    + destruct IH as [a [rest [E [Na Hr]]]]. rewrite E. exists (c :: a), rest. split; [reflexivity|].
      split; [apply nodot_cons; split; assumption|].
      destruct Hr as [[-> ->]|[l' [-> Hs]]]; [left; split; reflexivity|]. right. exists l'. split; [reflexivity|exact Hs].
Qed.
Lemma split_dot_nodot : forall a, nodot a -> split_dot a = [a].
Proof.
  intros a H. destruct (split_dot_spec a) as [a' [rest [E [Na [[-> <-]|[l' [E2 _]]]]]]]; [exact E|].
  exfalso. apply H. rewrite E2. apply in_app_iff. right. left. reflexivity.
Qed.
Lemma split_dot_one : forall a b, nodot a -> split_dot (a ++ 46 :: b) = a :: split_dot b.
Proof.
  intros a b. induction a as [|c r IH]; intros H.
  - reflexivity.
  - apply nodot_cons in H. destruct H as [Hc Hr]. cbn [app split_dot].
    destruct (Z.eqb_spec c 46) as [?|_]; [contradiction|]. rewrite (IH Hr). reflexivity.
Qed.

(* ------------------------------------------------------------------ span_digits *)
Lemma span_digits_spec : forall l, l = fst (span_digits l) ++ snd (span_digits l) /\ digits (fst (span_digits l)) /\
  match snd (span_digits l) with [] => True | c :: _ => is_digit c = false end.
Proof.
  intros l. induction l as [|c r IH]; [repeat split|].
  cbn [span_digits]. rewrite is_dig_digit. destruct (is_digit c) eqn:Dc.
  - cbn [fst snd]. destruct IH as [E [D T]]. split; [cbn [app]; f_equal; exact E|].
    split; [|exact T]. apply digits_cons. split; [apply is_digit_iff; exact Dc|exact D].
  - cbn [fst snd]. split; [reflexivity|]. split; [apply digits_nil|exact Dc].
Qed.
Lemma span_digits_app : forall a c r, digits a -> is_digit c = false -> span_digits (a ++ c :: r) = (a, c :: r).
Proof.
  intros a c r. induction a as [|x a' IH]; intros Da Hc.
  - cbn [app span_digits]. rewrite is_dig_digit, Hc. reflexivity.
  - apply digits_cons in Da. destruct Da as [Hx Da]. cbn [app span_digits].
    rewrite is_dig_digit. replace (is_digit x) with true by (symmetry; apply is_digit_iff; exact Hx).
    rewrite (IH Da Hc). reflexivity.
Qed.
Lemma span_digits_all : forall a, digits a -> span_digits a = (a, []).
Proof.
  intros a. induction a as [|x a' IH]; intros Da; [reflexivity|].
  apply digits_cons in Da. destruct Da as [Hx Da]. cbn [span_digits].
  rewrite is_dig_digit. replace (is_digit x) with true by (symmetry; apply is_digit_iff; exact Hx).
  rewrite (IH Da). reflexivity.
Qed.
