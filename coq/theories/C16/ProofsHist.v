(* C16: histories on ONE Decimal object (Model.step / trace, Spec.hist_ok).
   - what is recorded after every step is the current state and `state_string` of the current state, whatever the
     history was (trace_fields, trace_text);
   - in every state inside the property that text is dec_string of the state's fields, has the regular shape,
     denotes value / 10^scale and parses back (state_in_property, history_property);
   - the specification predicate for histories accepts the model's own trace of every history (hist_ok_trace). *)
From Coq Require Import ZArith List Bool Lia.
Import ListNotations.
From V Require Import Base.Tree Base.Bytes C16.Model C16.Spec C16.Digits C16.ProofsParse C16.ProofsString C16.ProofsRun.
Open Scope Z_scope.

(* ------------------------------------------------------------------ the trace is the scan of the states *)
Definition rec_fields (r : tree) : tree := TL [t_nth 1 r; t_nth 2 r; t_nth 3 r].
Definition state_fields (st : dstate) : tree := TL [TI (dprec st); TI (dscale st); val_tree (dval st)].

Lemma trace_length : forall ops st, length (trace st ops) = length ops.
Proof. intros ops. induction ops as [|o r IH]; intros st; [reflexivity|]. cbn [trace length]. rewrite IH. reflexivity. Qed.

Lemma trace_fields : forall ops st, map rec_fields (trace st ops) = map state_fields (states st ops).
Proof.
  intros ops. induction ops as [|o r IH]; intros st; [reflexivity|].
  cbn [trace states map]. rewrite IH. reflexivity.
Qed.

Lemma trace_text : forall ops st, map (t_nth 4) (trace st ops) = map state_string (states st ops).
Proof.
  intros ops. induction ops as [|o r IH]; intros st; [reflexivity|].
  cbn [trace states map]. rewrite IH. reflexivity.
Qed.

(* String and the read accessors leave the state alone; the setters and assignments do what they say *)
Lemma next_readonly : forall st, next st OString = st /\ next st ORead = st.
Proof. intros st. unfold next, step. destruct (dval st) as [i|]; split; reflexivity. Qed.

Lemma next_assign : forall st p s,
  next st (OPrec p) = mk_dstate p (dscale st) (dval st) /\
  next st (OScale s) = mk_dstate (dprec st) s (dval st) /\
  next st (OBoth p s) = mk_dstate p s (dval st).
Proof. intros st p s. repeat split. Qed.

(* ------------------------------------------------------------------ the text of a state inside the property *)
Lemma pad0_len_ge : forall p n, 0 <= n -> p <= zlen (pad0 p (big_string n)).
Proof.
  intros p n Hn. destruct (Z_le_gt_dec (zlen (big_string n)) p) as [L|G].
  - rewrite pad0_len by exact L. lia.
  - rewrite pad0_long by lia. lia.
Qed.

Lemma state_string_text : forall p s i, 0 <= s <= p ->
  state_string (mk_dstate p s (Some i)) = TB (dec_string p s i).
Proof.
  intros p s i Hs. unfold state_string. cbn [dval dprec dscale].
  pose proof (pad0_len_ge p (Z.abs i) ltac:(lia)) as L.
  destruct (Z.ltb_spec (p - s) 0) as [?|_]; [lia|].
  destruct (Z.ltb_spec (zlen (pad0 p (big_string (Z.abs i)))) (p - s)) as [?|_]; [lia|]. reflexivity.
Qed.

Definition inside (st : dstate) : Prop :=
  exists i, dval st = Some i /\ 0 <= dscale st <= dprec st /\ dprec st <= 38 /\ Z.abs i < 10 ^ dprec st.

Lemma state_in_property : forall st i, dval st = Some i -> 0 <= dscale st <= dprec st -> Z.abs i < 10 ^ dprec st ->
  state_string st = TB (dec_string (dprec st) (dscale st) i) /\
  shape_ok (dec_string (dprec st) (dscale st) i) = true /\
  value_is (dec_string (dprec st) (dscale st) i) i (dscale st) = true /\
  set_string (dprec st) (dscale st) (dec_string (dprec st) (dscale st) i) = Ok i.
Proof.
  intros [p s v] i E Hs Hi. cbn [dval dprec dscale] in *. subst v.
  split; [apply state_string_text; exact Hs|]. apply string_ok_any; assumption.
Qed.

(* after ANY history, from ANY starting state: a state inside the property prints the exact text *)
Lemma history_property : forall st0 ops k st r i,
  nth_error (states st0 ops) k = Some st -> nth_error (trace st0 ops) k = Some r ->
  dval st = Some i -> 0 <= dscale st <= dprec st -> Z.abs i < 10 ^ dprec st ->
  rec_fields r = state_fields st /\
  t_nth 4 r = TB (dec_string (dprec st) (dscale st) i) /\
  shape_ok (dec_string (dprec st) (dscale st) i) = true /\
  value_is (dec_string (dprec st) (dscale st) i) i (dscale st) = true /\
  set_string (dprec st) (dscale st) (dec_string (dprec st) (dscale st) i) = Ok i.
Proof.
  intros st0 ops k st r i Hst Hr E Hs Hi.
  pose proof (map_nth_error rec_fields k (trace st0 ops) Hr) as F. rewrite trace_fields in F.
  rewrite (map_nth_error state_fields k (states st0 ops) Hst) in F.
  pose proof (map_nth_error (t_nth 4) k (trace st0 ops) Hr) as T. rewrite trace_text in T.
  rewrite (map_nth_error state_string k (states st0 ops) Hst) in T.
  destruct (state_in_property st i E Hs Hi) as [A [B [C D]]].
  split; [congruence|]. split; [congruence|]. split; [exact B|]. split; [exact C|exact D].
Qed.

(* ------------------------------------------------------------------ the specification accepts the model's trace *)
Definition h_of (st : dstate) : hstate := mk_hstate (dprec st) (dscale st) (dval st).

Lemma be_val_eq : forall b, be_val b = be_of_bytes b.
Proof.
  intros b. unfold be_val, be_of_bytes. rewrite <- fold_left_rev_right.
  induction (rev b) as [|x r IH]; [reflexivity|]. cbn [fold_right le_of_bytes]. rewrite IH. lia.
Qed.

Lemma state_string_eqb : forall st, tree_eqb (state_string st) (state_string st) = true.
Proof.
  intros st. unfold state_string. destruct (dval st) as [i|]; [|reflexivity].
  destruct ((dprec st - dscale st <? 0) || _); [reflexivity|]. cbn [tree_eqb]. apply list_Z_eqb_refl.
Qed.

Lemma same_val_tree : forall v, same_val (val_tree v) v = true.
Proof. intros [i|]; cbn [val_tree same_val]; [apply Z.eqb_refl|reflexivity]. Qed.
Lemma tree_val_tree : forall v, tree_val (val_tree v) = v.
Proof. intros [i|]; reflexivity. Qed.

Lemma text_judged_model : forall st,
  text_judged (h_of st) (state_string st) (if rt_flag st (state_string st) then 1 else 0) = true.
Proof.
  intros [p s v]. unfold text_judged, in_property, h_of. cbn [hv hp hs dval dprec dscale].
  destruct v as [i|]; [|reflexivity].
  destruct (valid_ps p s) eqn:V; [|reflexivity]. cbn [andb].
  destruct (Z.ltb_spec (Z.abs i) (10 ^ p)) as [Hi|_]; [|reflexivity].
  rewrite <- sanity_valid in V. pose proof V as V'. apply sanity_iff in V'.
  rewrite state_string_text by lia.
  destruct (string_ok_any p s i ltac:(lia) Hi) as [A [B C]]. rewrite A, B. cbn [andb].
  unfold rt_flag, new_decimal_string. cbn [dval dprec dscale]. rewrite V, C. cbn [res_eqb]. rewrite Z.eqb_refl. reflexivity.
Qed.

(* one step *)
Lemma hjudge_step : forall st o, o <> OBad ->
  hjudge (h_of st) o (record (fst (step st o)) (next st o)) = Some (h_of (next st o)).
Proof.
  intros st o Hbad.
  assert (K : forall obs, hstep (h_of st) o obs (val_tree (dval (next st o))) (state_string (next st o)) = Some (h_of (next st o)) ->
              hjudge (h_of st) o (record obs (next st o)) = Some (h_of (next st o))).
  { intros obs E. unfold hjudge, record, of_bool. rewrite E. unfold h_of at 1 2 3. cbn [hp hs hv].
    rewrite !Z.eqb_refl, same_val_tree. cbn [andb].
    rewrite (text_judged_model (next st o)). reflexivity. }
  apply K. clear K. destruct st as [p s v]. unfold next.
  destruct o as [|t|n|b| |p'|s'|p' s'| |]; cbn [step dval dprec dscale fst snd]; unfold h_of; cbn [dval dprec dscale].
  - (* String *) cbn [hstep]. rewrite state_string_eqb. reflexivity.
  - (* SetString *) cbn [hstep hp hs hv]. rewrite <- sanity_valid.
    destruct (sanity p s) eqn:V.
    + apply sanity_iff in V. pose proof (parse_all p s t ltac:(lia) ltac:(lia)) as A.
      destruct (set_string p s t) as [i|] eqn:E; cbn [out_of] in A; cbn [fst snd dval dprec dscale val_tree].
      * rewrite Z.eqb_refl, A. reflexivity.
      * change (2 =? 0) with false. change (2 =? 2) with true. cbn iota. rewrite A. reflexivity.
    + destruct (set_string p s t) as [i|]; cbn [fst snd dval dprec dscale]; rewrite tree_val_tree; reflexivity.
  - (* SetInt64 *) destruct v as [i|]; reflexivity.
  - (* SetBytes *) destruct v as [i|]; cbn [hstep hv hp hs snd dval dprec dscale val_tree tree_val]; [rewrite be_val_eq|]; reflexivity.
  - (* Negate *) destruct v as [i|]; reflexivity.
  - reflexivity.
  - reflexivity.
  - reflexivity.
  - (* Read *) destruct v as [i|]; [|reflexivity]. cbn [hstep hv fst snd of_bool].
    assert (E : ((if i <? 0 then 1 else 0) =? (if i <? 0 then 1 else 0)) = true) by apply Z.eqb_refl.
    rewrite E, !Z.eqb_refl. reflexivity.
  - contradiction.
Qed.

Lemma hist_ok_trace : forall ops st, ~ In OBad ops -> hist_ok (h_of st) ops (trace st ops) = true.
Proof.
  intros ops. induction ops as [|o r IH]; intros st Hn; [reflexivity|].
  cbn [trace hist_ok]. rewrite hjudge_step by (intros E; apply Hn; left; exact E).
  apply IH. intros Hin. apply Hn. right. exact Hin.
Qed.

(* fn 5 of the dispatch: for every input whose operations are well-formed the specification accepts the model's output *)
Definition ops_of (i : tree) : list op := map op_of_tree (t_list (t_nth 3 i)).

Definition wf_hist (i : tree) : Prop := (t_int (t_nth 0 i) = 0 \/ t_int (t_nth 0 i) = 1) /\ ~ In OBad (ops_of i).

Lemma spec_run_5 : forall i, wf_hist i -> spec 5 i (run 5 i) = true.
Proof.
  intros i [Hk Hn]. unfold spec, run. fold (ops_of i).
  set (kind := t_int (t_nth 0 i)). set (p := t_int (t_nth 1 i)). set (s := t_int (t_nth 2 i)).
  unfold init_state. rewrite <- sanity_valid.
  destruct (Z.eqb_spec kind 0) as [K0|K0].
  - destruct (sanity p s); cbn [negb andb orb]; [|reflexivity].
    apply (hist_ok_trace (ops_of i) (mk_dstate p s (Some 0)) Hn).
  - cbn [andb orb]. destruct (Z.eqb_spec kind 1) as [K1|K1]; [|unfold kind in *; lia].
    apply (hist_ok_trace (ops_of i) (mk_dstate p s None) Hn).
Qed.
