(* C16: Decimal.String prints the exact decimal expansion in the regular shape, and parses back. *)
From Coq Require Import ZArith List Bool Lia QArith.
Import ListNotations.
From V Require Import Base.Tree Base.Bytes C16.Model C16.Spec C16.Digits C16.ProofsParse.
Open Scope Z_scope.

Definition nz (l : str) : str := match l with [] => [48] | _ :: _ => l end.

(* the digits before and after the split point *)
Lemma dec_string_form : forall p s i, 0 <= s <= p -> 1 <= p -> Z.abs i < 10 ^ p ->
  exists L R, digits L /\ digits R /\ zlen R = s /\ val_digits L * 10 ^ s + val_digits R = Z.abs i /\
    dec_string p s i = (if i <? 0 then [45] else []) ++ nz (trim_left is_zero_ch L) ++ [46] ++ nz (trim_right is_zero_ch R).
Proof.
  intros p s i Hs Hp Hi. set (n := Z.abs i) in *. assert (Hn : 0 <= n) by (unfold n; lia).
  assert (Hlen : zlen (big_string n) <= p).
  { destruct (Z.eq_dec n 0) as [->|Hz]; [rewrite big_string_zero; cbn; lia|].
    apply big_string_len; lia. }
  set (D := pad0 p (big_string n)).
  assert (HD : digits D) by (apply pad0_digits, big_string_digits; exact Hn).
  assert (HV : val_digits D = n) by (unfold D; rewrite pad0_val; apply big_string_val; exact Hn).
  assert (HL : zlen D = p) by (apply pad0_len; exact Hlen).
  exists (ztake (p - s) D), (zdrop (p - s) D).
  pose proof (ztake_zdrop Z (p - s) D) as E. rewrite <- E in HD. apply digits_app in HD. destruct HD as [D1 D2].
  assert (HR : zlen (zdrop (p - s) D) = s) by (rewrite zlen_zdrop by lia; lia).
  split; [exact D1|]. split; [exact D2|]. split; [exact HR|]. split.
  - pose proof (val_app (ztake (p - s) D) (zdrop (p - s) D)) as VA. rewrite E, HR in VA. lia.
  - reflexivity.
Qed.

Lemma left_facts : forall L, digits L ->
  digits (nz (trim_left is_zero_ch L)) /\ val_digits (nz (trim_left is_zero_ch L)) = val_digits L /\
  exists c r, nz (trim_left is_zero_ch L) = c :: r /\ 48 <= c <= 57 /\ (r = [] \/ c <> 48).
Proof.
  intros L D. destruct (trim_left0_spec L) as [k [E H]].
  assert (V : val_digits (trim_left is_zero_ch L) = val_digits L) by (rewrite E at 2; rewrite val_zeros_app; reflexivity).
  assert (D' : digits (trim_left is_zero_ch L)) by (rewrite E in D; apply digits_app in D; tauto).
  destruct (trim_left is_zero_ch L) as [|c r].
  - cbn [nz]. split; [apply digits_cons; split; [lia|apply digits_nil]|]. split; [rewrite <- V; reflexivity|].
    exists 48, []. split; [reflexivity|]. split; [lia|left; reflexivity].
  - cbn [nz]. split; [exact D'|]. split; [exact V|]. exists c, r. split; [reflexivity|].
    apply digits_cons in D'. split; [tauto|right; exact H].
Qed.

Lemma right_facts : forall R, digits R ->
  digits (nz (trim_right is_zero_ch R)) /\
  val_digits (nz (trim_right is_zero_ch R)) * 10 ^ zlen R = val_digits R * 10 ^ zlen (nz (trim_right is_zero_ch R)) /\
  (val_digits (nz (trim_right is_zero_ch R)) = 0 -> val_digits R = 0) /\
  exists b c, nz (trim_right is_zero_ch R) = b ++ [c] /\ 48 <= c <= 57 /\ (b = [] \/ c <> 48).
Proof.
  intros R D. destruct (trim_right0_spec R) as [k [E H]].
  assert (D' : digits (trim_right is_zero_ch R)) by (rewrite E in D; apply digits_app in D; tauto).
  destruct H as [Hnil|[b [c [Ec Hc]]]].
  - rewrite Hnil in *. cbn [nz app] in *. split; [apply digits_cons; split; [lia|apply digits_nil]|].
    assert (VR : val_digits R = 0) by (rewrite E; apply val_repeat0).
    split; [rewrite VR, val_single; lia|]. split; [intros _; exact VR|].
    exists [], 48. split; [reflexivity|]. split; [lia|left; reflexivity].
  - rewrite Ec in *. assert (Hnz : nz (b ++ [c]) = b ++ [c]) by (destruct b; reflexivity). rewrite Hnz.
    split; [exact D'|]. split.
    + rewrite E at 2. rewrite val_app_zeros. rewrite E at 1. rewrite zlen_app, zlen_repeat.
      rewrite pow10_add by (try apply zlen_nonneg; lia). ring.
    + split.
      * intros V0. rewrite E, val_app_zeros, V0. lia.
      * exists b, c. split; [reflexivity|]. apply digits_app in D'. destruct D' as [_ Dc]. apply digits_cons in Dc.
        split; [tauto|right; exact Hc].
Qed.

(* everything about the printed text at once *)
Lemma dec_string_numeral : forall p s i, 0 <= s <= p -> 1 <= p -> Z.abs i < 10 ^ p ->
  exists l r, dec_string p s i = sign_text (if i <? 0 then Some true else None) ++ l ++ 46 :: r /\
    digits l /\ digits r /\
    (exists c l', l = c :: l' /\ 48 <= c <= 57 /\ (l' = [] \/ c <> 48)) /\
    (exists r' d, r = r' ++ [d] /\ 48 <= d <= 57 /\ (r' = [] \/ d <> 48)) /\
    (val_digits l * 10 ^ zlen r + val_digits r) * 10 ^ s = Z.abs i * 10 ^ zlen r /\
    (val_digits l = 0 -> val_digits r = 0 -> i = 0).
Proof.
  intros p s i Hs Hp Hi. destruct (dec_string_form p s i Hs Hp Hi) as [L [R [DL [DR [HR [HV E]]]]]].
  destruct (left_facts L DL) as [Dl [Vl Sl]]. destruct (right_facts R DR) as [Dr [Vr [Vr0 Sr]]].
  exists (nz (trim_left is_zero_ch L)), (nz (trim_right is_zero_ch R)).
  split. { rewrite E. destruct (i <? 0); reflexivity. }
  split; [exact Dl|]. split; [exact Dr|]. split; [exact Sl|]. split; [exact Sr|].
  rewrite Vl. rewrite HR in Vr. split.
  - rewrite <- HV. ring_simplify. rewrite Vr. ring.
  - intros H1 H2. specialize (Vr0 H2). rewrite H1, Vr0 in HV. lia.
Qed.

Lemma sgn_abs : forall i, sgn_val (i <? 0) (Z.abs i) = i.
Proof. intros i. unfold sgn_val. destruct (Z.ltb_spec i 0); lia. Qed.

(* (1) the text is a numeral whose value is exactly i / 10^s *)
Lemma string_value : forall p s i, 0 <= s <= p -> 1 <= p -> Z.abs i < 10 ^ p ->
  exists n, parse_numeral (dec_string p s i) = Some n /\ proper n = true /\ 0 <= fdig n /\
            mant n * 10 ^ s = i * 10 ^ fdig n.
Proof.
  intros p s i Hs Hp Hi. destruct (dec_string_numeral p s i Hs Hp Hi) as [l [r [E [Dl [Dr [[c [l' [El _]]] [_ [HV _]]]]]]]].
  exists {| nneg := is_minus (if i <? 0 then Some true else None); ipart := l; fpart := r |}.
  split.
  - rewrite E. pose proof (parse_numeral_point [] [] (if i <? 0 then Some true else None) l r eq_refl eq_refl Dl Dr) as P.
    cbn [app] in P. rewrite app_nil_r in P. apply P. left. rewrite El. discriminate.
  - split; [unfold proper; cbn [ipart]; rewrite El; reflexivity|]. split; [apply zlen_nonneg|].
    rewrite mant_eq, val_app. unfold fdig. cbn [fpart].
    replace (is_minus (if i <? 0 then Some true else None)) with (i <? 0) by (destruct (i <? 0); reflexivity).
    rewrite <- (sgn_abs i) at 2. unfold sgn_val. destruct (i <? 0); lia.
Qed.
Lemma string_value_is : forall p s i, 0 <= s <= p -> 1 <= p -> Z.abs i < 10 ^ p ->
  value_is (dec_string p s i) i s = true.
Proof.
  intros p s i Hs Hp Hi. destruct (string_value p s i Hs Hp Hi) as [n [E [_ [_ V]]]].
  unfold value_is. rewrite E. apply Z.eqb_eq. exact V.
Qed.

(* (2) parsing the text back yields the same unscaled integer *)
Lemma string_roundtrip : forall p s i, 0 <= s <= p -> 1 <= p -> Z.abs i < 10 ^ p ->
  set_string p s (dec_string p s i) = Ok i.
Proof.
  intros p s i Hs Hp Hi. destruct (string_value p s i Hs Hp Hi) as [n [E [Pn [Hf V]]]].
  apply (representable_exact p s _ n i); [lia|lia|exact E|exact Pn|]. apply repr_exact; assumption.
Qed.

(* (3) the regular shape *)
Lemma last_snoc : forall (b : list Z) c, last_ch (b ++ [c]) = c.
Proof. intros b c. unfold last_ch. apply last_last. Qed.
Lemma string_shape : forall p s i, 0 <= s <= p -> 1 <= p -> Z.abs i < 10 ^ p ->
  shape_ok (dec_string p s i) = true.
Proof.
  intros p s i Hs Hp Hi.
  destruct (dec_string_numeral p s i Hs Hp Hi) as [l [r [E [Dl [Dr [[c [l' [El [Hc Hl]]]] [[r' [d [Er [Hd Hr]]]] [_ H0]]]]]]]].
  rewrite E. unfold shape_ok.
  assert (TS : take_sign false (sign_text (if i <? 0 then Some true else None) ++ l ++ 46 :: r) = (i <? 0, l ++ 46 :: r)).
  { destruct (i <? 0); [reflexivity|]. cbn [sign_text app]. rewrite El. cbn [app take_sign].
    destruct (Z.eqb_spec c 45) as [?|_]; [lia|]. reflexivity. }
  rewrite TS. cbn [fst snd]. rewrite span_digits_app by (exact Dl || reflexivity). cbn [fst snd].
  rewrite span_digits_all by exact Dr. cbn [fst snd is_nil]. rewrite Z.eqb_refl. cbn [andb].
  rewrite !nat_val_eq.
  assert (A1 : negb (is_nil l) = true) by (rewrite El; reflexivity).
  assert (A2 : negb (is_nil r) = true) by (rewrite Er; destruct r'; reflexivity).
  assert (A3 : (zlen l =? 1) || negb (hd 0 l =? 48) = true).
  { rewrite El. cbn [hd]. destruct Hl as [->|Hne]; [reflexivity|].
    destruct (Z.eqb_spec c 48) as [?|_]; [contradiction|]. apply orb_true_r. }
  assert (A4 : (zlen r =? 1) || negb (last_ch r =? 48) = true).
  { rewrite Er, last_snoc. destruct Hr as [->|Hne]; [reflexivity|].
    destruct (Z.eqb_spec d 48) as [?|_]; [contradiction|]. apply orb_true_r. }
  assert (A5 : negb ((i <? 0) && (val_digits l =? 0) && (val_digits r =? 0)) = true).
  { destruct (Z.ltb_spec i 0) as [Hneg|_]; [|reflexivity]. cbn [andb].
    destruct (Z.eqb_spec (val_digits l) 0) as [Z1|_]; [|reflexivity].
    destruct (Z.eqb_spec (val_digits r) 0) as [Z2|_]; [|reflexivity]. specialize (H0 Z1 Z2). lia. }
  rewrite A1, A2, A3, A4, A5. reflexivity.
Qed.

(* ------------------------------------------------------------------ the value as a rational number *)
Lemma Qdiv_cross : forall a b c d : Z, 0 < b -> 0 < d -> a * d = c * b ->
  (inject_Z a / inject_Z b == inject_Z c / inject_Z d)%Q.
Proof.
  intros a b c d Hb Hd H.
  destruct b as [|pb|pb]; try lia. destruct d as [|pd|pd]; try lia.
  unfold Qeq, Qdiv, Qmult, Qinv, inject_Z. cbn [Qnum Qden].
  rewrite !Z.mul_1_r, !Pos.mul_1_l. exact H.
Qed.
Lemma string_value_Q : forall p s i, 0 <= s <= p -> 1 <= p -> Z.abs i < 10 ^ p ->
  exists n, parse_numeral (dec_string p s i) = Some n /\ (numeral_Q n == inject_Z i / inject_Z (10 ^ s))%Q.
Proof.
  intros p s i Hs Hp Hi. destruct (string_value p s i Hs Hp Hi) as [n [E [_ [Hf V]]]].
  exists n. split; [exact E|]. unfold numeral_Q. apply Qdiv_cross; [apply pow10_gt0; exact Hf|apply pow10_gt0; lia|exact V].
Qed.

(* ------------------------------------------------------------------ NewDecimal *)
Lemma sanity_valid : forall p s, sanity p s = valid_ps p s.
Proof.
  intros p s. unfold sanity, valid_ps.
  destruct (Z.ltb_spec 38 p); destruct (Z.ltb_spec p 0); destruct (Z.ltb_spec 38 s); destruct (Z.ltb_spec s 0);
    destruct (Z.ltb_spec p s); destruct (Z.leb_spec 0 s); destruct (Z.leb_spec s p); destruct (Z.leb_spec p 38);
    cbn [negb andb]; try reflexivity; lia.
Qed.
Lemma sanity_iff : forall p s, sanity p s = true <-> 0 <= s <= p /\ p <= 38.
Proof.
  intros p s. rewrite sanity_valid. unfold valid_ps. rewrite !andb_true_iff, !Z.leb_le. tauto.
Qed.
