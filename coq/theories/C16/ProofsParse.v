(* C16: SetString against the specification's numeral parser, for ALL texts. *)
From Coq Require Import ZArith List Bool Lia.
Import ListNotations.
From V Require Import Base.Tree Base.Bytes C16.Model C16.Spec C16.Digits.
Open Scope Z_scope.

Definition out_of (r : res) : option Z := match r with Ok i => Some i | Err => None end.

(* ------------------------------------------------------------------ the two parsers after trimming *)
(* the specification's parser on the stripped text *)
Definition pn (t : list Z) : option numeral :=
  let sg := take_sign true t in
  let ng := fst sg in
  let sp := span_digits (snd sg) in
  let ip := fst sp in
  match snd sp with
  | [] => if is_nil ip then None else Some {| nneg := ng; ipart := ip; fpart := [] |}
  | c :: r2 =>
      if c =? 46 then
        let sp2 := span_digits r2 in
        let fp := fst sp2 in
        match snd sp2 with
        | [] => if is_nil ip && is_nil fp then None else Some {| nneg := ng; ipart := ip; fpart := fp |}
        | _ :: _ => None
        end
      else None
  end.
Lemma parse_numeral_pn : forall t, parse_numeral t = pn (trim_space t).
Proof. intros t. unfold parse_numeral. rewrite strip_trim. reflexivity. Qed.

(* parse_ok with the parse result abstracted *)
Definition pok (p s : Z) (o : option numeral) (out : option Z) : bool :=
  match o with
  | None => is_nil (match out with Some x => [x] | None => [] end)
  | Some n =>
      match repr p s n, out with
      | None, None => true
      | None, Some _ => false
      | Some r, Some r' => r' =? r
      | Some _, None => negb (proper n)
      end
  end.
Lemma parse_ok_pok : forall p s t out, parse_ok p s t out = pok p s (parse_numeral t) out.
Proof. reflexivity. Qed.

(* the model after splitting *)
Definition finish (p s : Z) (lft rgt : str) : res :=
  if negb (forallb is_digit rgt) then Err
  else if s <? zlen rgt then Err
  else match big_set_string (lft ++ rgt) with
       | None => Err
       | Some i =>
           let i := if 0 <? s - zlen rgt then i * 10 ^ (s - zlen rgt) else i in
           if negb (i =? 0) && (p <? zlen (big_string (Z.abs i))) then Err
           else Ok i
       end.
Lemma set_string_finish : forall p s text,
  set_string p s text =
  match split_dot (trim_space text) with
  | [] => Err
  | lft :: rest =>
      match rest with
      | _ :: _ :: _ => Err
      | _ => finish p s lft (match rest with r :: _ => trim_right is_zero_ch r | [] => [] end)
      end
  end.
Proof. reflexivity. Qed.

(* ------------------------------------------------------------------ signs *)
Lemma take_sign_split : forall l, take_sign true l = split_sign l.
Proof. intros l. destruct l as [|c r]; reflexivity. Qed.

Definition nosign_head (x : list Z) : Prop := match x with [] => True | c :: _ => c <> 45 /\ c <> 43 end.
Lemma split_sign_app : forall a x, (a = [] -> nosign_head x) ->
  split_sign (a ++ x) = (fst (split_sign a), snd (split_sign a) ++ x).
Proof.
  intros a x H. destruct a as [|c r].
  - specialize (H eq_refl). destruct x as [|c r]; [reflexivity|]. destruct H as [H1 H2].
    cbn [app split_sign]. destruct (Z.eqb_spec c 45) as [?|_]; [contradiction|].
    destruct (Z.eqb_spec c 43) as [?|_]; [contradiction|]. reflexivity.
  - cbn [app split_sign]. destruct (c =? 45); [reflexivity|]. destruct (c =? 43); reflexivity.
Qed.
Lemma split_sign_incl : forall a c, In c (snd (split_sign a)) -> In c a.
Proof.
  intros a c. destruct a as [|x r]; [intros []|]. cbn [split_sign].
  destruct (x =? 45); [cbn [snd]; intros H; right; exact H|].
  destruct (x =? 43); [cbn [snd]; intros H; right; exact H|]. cbn [snd]. intros H; exact H.
Qed.
Lemma digits_nosign : forall l, digits l -> nosign_head l.
Proof. intros l H. destruct l as [|c r]; [exact I|]. apply digits_cons in H. cbn. lia. Qed.

(* ------------------------------------------------------------------ non-digits *)
Lemma forallb_digit_true : forall l, forallb is_digit l = true <-> digits l.
Proof. reflexivity. Qed.
Lemma nondigit_split : forall l, forallb is_digit l = false ->
  exists ip c r, l = ip ++ c :: r /\ digits ip /\ is_digit c = false.
Proof.
  intros l. induction l as [|x r IH]; intros H; [discriminate|].
  cbn [forallb] in H. destruct (is_digit x) eqn:Dx.
  - cbn [andb] in H. destruct (IH H) as [ip [c [r' [E [D Hc]]]]]. exists (x :: ip), c, r'.
    split; [cbn [app]; f_equal; exact E|]. split; [|exact Hc]. apply digits_cons. split; [apply is_digit_iff; exact Dx|exact D].
  - exists [], x, r. split; [reflexivity|]. split; [apply digits_nil|exact Dx].
Qed.
Lemma span_snd_nonnil : forall y, forallb is_digit y = false -> exists c r, snd (span_digits y) = c :: r.
Proof.
  intros y H. destruct (span_digits_spec y) as [E [D _]].
  destruct (snd (span_digits y)) as [|c r]; [|exists c, r; reflexivity].
  rewrite app_nil_r in E. rewrite <- E in D. unfold digits in D. congruence.
Qed.
Lemma is_digit_46 : is_digit 46 = false.
Proof. reflexivity. Qed.

(* ------------------------------------------------------------------ the specification's parser in split terms *)
Definition dot_tail (x : list Z) : Prop := x = [] \/ exists y, x = 46 :: y.
Lemma dot_tail_nosign : forall x, dot_tail x -> nosign_head x.
Proof. intros x [->|[y ->]]; [exact I|]. cbn. lia. Qed.

Lemma pn_bad_int : forall a x, nodot a -> dot_tail x -> forallb is_digit (snd (split_sign a)) = false ->
  pn (a ++ x) = None.
Proof.
  intros a x Na Hx Hd. unfold pn. rewrite take_sign_split, split_sign_app by (intros _; apply dot_tail_nosign; exact Hx).
  cbn [fst snd]. destruct (nondigit_split _ Hd) as [ip [c [r [E [D Hc]]]]].
  rewrite E, <- app_assoc. cbn [app]. rewrite span_digits_app by assumption. cbn [fst snd].
  assert (c <> 46) as Hne.
  { intros ->. apply Na. apply split_sign_incl. rewrite E. apply in_app_iff. right. left. reflexivity. }
  destruct (Z.eqb_spec c 46) as [?|_]; [contradiction|]. reflexivity.
Qed.
Lemma pn_int : forall a, digits (snd (split_sign a)) ->
  pn a = if is_nil (snd (split_sign a)) then None
         else Some {| nneg := fst (split_sign a); ipart := snd (split_sign a); fpart := [] |}.
Proof.
  intros a D. unfold pn. rewrite take_sign_split, span_digits_all by exact D. reflexivity.
Qed.
Lemma pn_dot : forall a y, digits (snd (split_sign a)) ->
  pn (a ++ 46 :: y) =
  match snd (span_digits y) with
  | [] => if is_nil (snd (split_sign a)) && is_nil (fst (span_digits y)) then None
          else Some {| nneg := fst (split_sign a); ipart := snd (split_sign a); fpart := fst (span_digits y) |}
  | _ :: _ => None
  end.
Proof.
  intros a y D. unfold pn. rewrite take_sign_split, split_sign_app by (intros _; cbn; lia).
  cbn [fst snd]. rewrite span_digits_app by (exact D || reflexivity). cbn [fst snd].
  rewrite Z.eqb_refl. reflexivity.
Qed.
Lemma pn_dot_bad_frac : forall a y, forallb is_digit y = false -> nodot a -> pn (a ++ 46 :: y) = None.
Proof.
  intros a y Hy Na. destruct (forallb is_digit (snd (split_sign a))) eqn:Da.
  - rewrite pn_dot by exact Da. destruct (span_snd_nonnil y Hy) as [c [r ->]]. reflexivity.
  - apply pn_bad_int; [exact Na|right; exists y; reflexivity|exact Da].
Qed.
Lemma pn_dot_digits : forall a y, digits (snd (split_sign a)) -> digits y ->
  pn (a ++ 46 :: y) =
  if is_nil (snd (split_sign a)) && is_nil y then None
  else Some {| nneg := fst (split_sign a); ipart := snd (split_sign a); fpart := y |}.
Proof. intros a y Da Dy. rewrite pn_dot by exact Da. rewrite span_digits_all by exact Dy. reflexivity. Qed.

(* ------------------------------------------------------------------ arithmetic of representability *)
Definition sgn_val (ng : bool) (v : Z) : Z := if ng then - v else v.

Lemma mant_eq : forall ng a b, mant {| nneg := ng; ipart := a; fpart := b |} = sgn_val ng (val_digits (a ++ b)).
Proof. intros ng a b. unfold mant, fdig. cbn [nneg ipart fpart]. rewrite !nat_val_eq, val_app. reflexivity. Qed.

Lemma last_digit_mod : forall a c, 48 <= c <= 57 -> val_digits (a ++ [c]) mod 10 = c - 48.
Proof.
  intros a c Hc. rewrite val_app, val_single, zlen_cons, zlen_nil. change (10 ^ (0 + 1)) with 10.
  rewrite Z.add_comm, Z.mod_add by lia. apply Z.mod_small. lia.
Qed.

(* the fraction b = b' ++ zeros, b' without trailing zero *)
Lemma repr_fits : forall p s ng a b' k, 0 <= s -> zlen b' <= s ->
  repr p s {| nneg := ng; ipart := a; fpart := b' ++ repeat 48 k |} =
  let v := sgn_val ng (val_digits (a ++ b')) * 10 ^ (s - zlen b') in
  if Z.abs v <? 10 ^ p then Some v else None.
Proof.
  intros p s ng a b' k Hs Hb. unfold repr. rewrite mant_eq. unfold fdig. cbn [fpart].
  rewrite app_assoc, val_app_zeros, zlen_app, zlen_repeat.
  set (u := val_digits (a ++ b')). set (f' := zlen b') in *. set (kk := Z.of_nat k).
  assert (Hf : 0 <= f') by apply zlen_nonneg. assert (Hk : 0 <= kk) by (unfold kk; lia).
  assert (E : sgn_val ng (u * 10 ^ kk) * 10 ^ s = (sgn_val ng u * 10 ^ (s - f')) * 10 ^ (f' + kk)).
  { replace s with ((s - f') + f') at 1 by lia. rewrite !pow10_add by lia. unfold sgn_val. destruct ng; ring. }
  rewrite E. pose proof (pow10_gt0 (f' + kk) ltac:(lia)) as P.
  rewrite Z.mod_mul by lia. cbn [Z.eqb]. rewrite Z.div_mul by lia. reflexivity.
Qed.

Lemma repr_toofrac : forall p s ng a b0 c k, 0 <= s -> s < zlen (b0 ++ [c]) -> 48 <= c <= 57 -> c <> 48 ->
  repr p s {| nneg := ng; ipart := a; fpart := (b0 ++ [c]) ++ repeat 48 k |} = None.
Proof.
  intros p s ng a b0 c k Hs Hb Hc Hc0. unfold repr. rewrite mant_eq. unfold fdig. cbn [fpart].
  rewrite app_assoc, val_app_zeros, zlen_app, zlen_repeat.
  set (f' := zlen (b0 ++ [c])) in *. set (kk := Z.of_nat k).
  assert (Hk : 0 <= kk) by (unfold kk; lia).
  destruct (Z.eqb_spec ((sgn_val ng (val_digits (a ++ b0 ++ [c]) * 10 ^ kk) * 10 ^ s) mod 10 ^ (f' + kk)) 0) as [H0|_];
    [exfalso|reflexivity].
  pose proof (pow10_gt0 (f' + kk) ltac:(lia)) as P.
  apply Z.mod_divide in H0; [|lia]. destruct H0 as [q Hq].
  rewrite app_assoc in Hq. pose proof (last_digit_mod (a ++ b0) c Hc) as Hm.
  set (u := val_digits ((a ++ b0) ++ [c])) in *.
  (* 10^(f'+kk) = 10^(kk+s) * 10 * 10^(f'-s-1) *)
  assert (E1 : 10 ^ (f' + kk) = 10 ^ (kk + s) * (10 * 10 ^ (f' - s - 1))).
  { replace (f' + kk) with ((kk + s) + ((f' - s - 1) + 1)) by lia. rewrite pow10_add by lia.
    rewrite pow10_succ by lia. reflexivity. }
  assert (E2 : sgn_val ng (u * 10 ^ kk) * 10 ^ s = 10 ^ (kk + s) * sgn_val ng u).
  { rewrite pow10_add by lia. unfold sgn_val. destruct ng; ring. }
  rewrite E1, E2 in Hq. pose proof (pow10_gt0 (kk + s) ltac:(lia)) as P2.
  assert (E3 : sgn_val ng u = 10 * (q * 10 ^ (f' - s - 1))).
  { apply (Z.mul_reg_l _ _ (10 ^ (kk + s))); [lia|]. rewrite Hq. ring. }
  assert (Hu : u mod 10 = 0).
  { unfold sgn_val in E3. destruct ng.
    - replace u with ((- (q * 10 ^ (f' - s - 1))) * 10) by lia. apply Z.mod_mul. lia.
    - rewrite E3, Z.mul_comm. apply Z.mod_mul. lia. }
  lia.
Qed.

(* the precision test of the code is a magnitude test *)
Lemma prec_check : forall p v, 0 <= p ->
  negb (v =? 0) && (p <? zlen (big_string (Z.abs v))) = negb (Z.abs v <? 10 ^ p).
Proof.
  intros p v Hp. pose proof (pow10_gt0 p Hp) as P. destruct (Z.eqb_spec v 0) as [->|Hv].
  - cbn [negb andb Z.abs]. destruct (Z.ltb_spec 0 (10 ^ p)); [reflexivity|lia].
  - cbn [negb andb]. pose proof (big_string_len (Z.abs v) p ltac:(lia) Hp) as L.
    destruct (Z.ltb_spec p (zlen (big_string (Z.abs v)))) as [H1|H1];
      destruct (Z.ltb_spec (Z.abs v) (10 ^ p)) as [H2|H2]; try reflexivity; lia.
Qed.

Lemma scale_if : forall k x, 0 <= k -> (if 0 <? k then x * 10 ^ k else x) = x * 10 ^ k.
Proof.
  intros k x Hk. destruct (Z.ltb_spec 0 k) as [H|H]; [reflexivity|]. replace k with 0 by lia. cbn. lia.
Qed.

(* the model on a sign, integer digits and (trimmed) fraction digits *)
Lemma finish_digits : forall p s lft b', 0 <= s -> 0 <= p ->
  digits (snd (split_sign lft)) -> digits b' -> zlen b' <= s -> snd (split_sign lft) ++ b' <> [] ->
  finish p s lft b' =
  let v := sgn_val (fst (split_sign lft)) (val_digits (snd (split_sign lft) ++ b')) * 10 ^ (s - zlen b') in
  if Z.abs v <? 10 ^ p then Ok v else Err.
Proof.
  intros p s lft b' Hs Hp Da Db Hl Hne. unfold finish.
  replace (forallb is_digit b') with true by (symmetry; exact Db). cbn [negb].
  destruct (Z.ltb_spec s (zlen b')) as [?|_]; [lia|].
  unfold big_set_string. rewrite split_sign_app by (intros _; apply digits_nosign; exact Db). cbn [fst snd].
  destruct (snd (split_sign lft) ++ b') as [|c r] eqn:E; [congruence|]. rewrite <- E.
  replace (forallb is_digit (snd (split_sign lft) ++ b')) with true by (symmetry; apply digits_app; split; assumption).
  rewrite scale_if by lia. fold (sgn_val (fst (split_sign lft)) (val_digits (snd (split_sign lft) ++ b'))).
  cbv zeta. rewrite prec_check by exact Hp.
  destruct (Z.abs _ <? 10 ^ p); reflexivity.
Qed.

Lemma finish_bad_int : forall p s lft b', forallb is_digit (snd (split_sign lft)) = false -> digits b' ->
  finish p s lft b' = Err.
Proof.
  intros p s lft b' Da Db. unfold finish.
  replace (forallb is_digit b') with true by (symmetry; exact Db). cbn [negb].
  destruct (s <? zlen b'); [reflexivity|].
  unfold big_set_string. rewrite split_sign_app by (intros _; apply digits_nosign; exact Db). cbn [fst snd].
  rewrite forallb_app, Da. cbn [andb]. destruct (snd (split_sign lft) ++ b'); reflexivity.
Qed.
Lemma finish_empty : forall p s lft b', snd (split_sign lft) ++ b' = [] -> digits b' -> finish p s lft b' = Err.
Proof.
  intros p s lft b' E Db. unfold finish.
  replace (forallb is_digit b') with true by (symmetry; exact Db). cbn [negb].
  destruct (s <? zlen b'); [reflexivity|].
  unfold big_set_string. rewrite split_sign_app by (intros _; apply digits_nosign; exact Db). cbn [fst snd].
  rewrite E. reflexivity.
Qed.
Lemma pok_none_sloppy : forall p s n, ipart n = [] -> pok p s (Some n) None = true.
Proof. intros p s n H. unfold pok, proper. rewrite H. destruct (repr p s n); reflexivity. Qed.

(* ------------------------------------------------------------------ the three cases *)
Lemma case_nodot : forall p s a, 0 <= s -> 0 <= p -> nodot a ->
  pok p s (pn a) (out_of (finish p s a [])) = true.
Proof.
  intros p s a Hs Hp Na. destruct (forallb is_digit (snd (split_sign a))) eqn:Da.
  - rewrite pn_int by exact Da. destruct (snd (split_sign a)) as [|c r] eqn:E.
    + cbn [is_nil pok]. rewrite finish_empty; [reflexivity|rewrite E; reflexivity|apply digits_nil].
    + cbn [is_nil]. rewrite <- E in *. unfold pok.
      pose proof (repr_fits p s (fst (split_sign a)) (snd (split_sign a)) [] 0 Hs ltac:(rewrite zlen_nil; lia)) as R.
      cbn [repeat app] in R. rewrite R.
      rewrite finish_digits; [|assumption|assumption|exact Da|apply digits_nil|rewrite zlen_nil; lia|rewrite app_nil_r, E; discriminate].
      cbv zeta. destruct (Z.abs _ <? 10 ^ p); cbn [out_of]; [apply Z.eqb_refl|reflexivity].
  - replace a with (a ++ []) at 1 by apply app_nil_r. rewrite pn_bad_int; [|exact Na|left; reflexivity|exact Da].
    rewrite finish_bad_int; [reflexivity|exact Da|apply digits_nil].
Qed.

Lemma case_onedot : forall p s a b, 0 <= s -> 0 <= p -> nodot a ->
  pok p s (pn (a ++ 46 :: b)) (out_of (finish p s a (trim_right is_zero_ch b))) = true.
Proof.
  intros p s a b Hs Hp Na.
  destruct (trim_right0_spec b) as [k [Eb Hb']]. set (b' := trim_right is_zero_ch b) in *.
  assert (Hfa : forallb is_digit b = forallb is_digit b').
  { rewrite Eb at 1. rewrite forallb_app. pose proof (digits_repeat0 k) as D. unfold digits in D. rewrite D. apply andb_true_r. }
  destruct (forallb is_digit b') eqn:Db.
  2:{ rewrite pn_dot_bad_frac; [|exact Hfa|exact Na]. unfold finish. rewrite Db. reflexivity. }
  destruct (forallb is_digit (snd (split_sign a))) eqn:Da.
  2:{ rewrite pn_bad_int; [|exact Na|right; exists b; reflexivity|exact Da].
      rewrite finish_bad_int; [reflexivity|exact Da|exact Db]. }
  rewrite pn_dot_digits; [|exact Da|exact Hfa].
  destruct (snd (split_sign a) ++ b') as [|x xs] eqn:Ene.
  - rewrite finish_empty; [|exact Ene|exact Db]. cbn [out_of].
    apply app_eq_nil in Ene. destruct Ene as [Ea _]. rewrite Ea. cbn [is_nil andb].
    destruct (is_nil b); [reflexivity|]. apply pok_none_sloppy. reflexivity.
  - assert (Hnn : is_nil (snd (split_sign a)) && is_nil b = false).
    { destruct (snd (split_sign a)) as [|y ys]; [|reflexivity]. cbn [is_nil andb app] in *.
      rewrite Eb, Ene. reflexivity. }
    rewrite Hnn. destruct (Z_le_gt_dec (zlen b') s) as [Hle|Hgt].
    + rewrite finish_digits; [|assumption|assumption|exact Da|exact Db|exact Hle|rewrite Ene; discriminate].
      unfold pok. rewrite Eb, repr_fits by assumption. cbv zeta.
      destruct (Z.abs _ <? 10 ^ p); cbn [out_of]; [apply Z.eqb_refl|reflexivity].
    + assert (Hf : finish p s a b' = Err).
      { unfold finish. rewrite Db. cbn [negb]. destruct (Z.ltb_spec s (zlen b')) as [_|?]; [reflexivity|lia]. }
      rewrite Hf. cbn [out_of]. unfold pok.
      destruct Hb' as [Hnil|[b0 [c [Ec Hc]]]]; [rewrite Hnil, zlen_nil in Hgt; lia|].
      rewrite Eb, Ec. rewrite Ec in Db, Hgt.
      assert (Dc : 48 <= c <= 57).
      { apply forallb_digit_true in Db. apply digits_app in Db. destruct Db as [_ Db]. apply digits_cons in Db. tauto. }
      rewrite repr_toofrac by (assumption || lia). reflexivity.
Qed.

Lemma case_twodot : forall a b c, nodot a -> pn (a ++ 46 :: b ++ 46 :: c) = None.
Proof.
  intros a b c Na. apply pn_dot_bad_frac; [|exact Na].
  rewrite forallb_app. cbn [forallb]. rewrite is_digit_46. cbn [andb]. apply andb_false_r.
Qed.

(* ------------------------------------------------------------------ all texts *)
Theorem parse_all : forall p s text, 0 <= s -> 0 <= p ->
  parse_ok p s text (out_of (set_string p s text)) = true.
Proof.
  intros p s text Hs Hp. rewrite parse_ok_pok, parse_numeral_pn, set_string_finish.
  set (t := trim_space text).
  destruct (split_dot_spec t) as [a [rest [E [Na Hr]]]]. rewrite E.
  destruct Hr as [[-> Et]|[l' [Et Hs']]].
  - rewrite Et. apply case_nodot; assumption.
  - destruct (split_dot_spec l') as [b [rest' [E' [Nb Hr']]]]. rewrite <- Hs', E'.
    destruct Hr' as [[-> El]|[l'' [El Hs'']]].
    + rewrite Et, El. apply case_onedot; assumption.
    + destruct rest' as [|x xs]; [exfalso; exact (split_dot_nonnil l'' Hs'')|].
      rewrite Et, El, case_twodot by exact Na. reflexivity.
Qed.

(* ------------------------------------------------------------------ consequences, in the terms of the property *)
Lemma out_of_none : forall r, out_of r = None -> r = Err.
Proof. intros r H. destruct r; [discriminate|reflexivity]. Qed.

(* junk is an error *)
Lemma junk_rejected : forall p s text, 0 <= s -> 0 <= p -> parse_numeral text = None -> set_string p s text = Err.
Proof.
  intros p s text Hs Hp H. pose proof (parse_all p s text Hs Hp) as A. rewrite parse_ok_pok, H in A.
  destruct (set_string p s text); [discriminate|reflexivity].
Qed.
(* a numeral that cannot be represented is an error *)
Lemma unrepresentable_rejected : forall p s text n, 0 <= s -> 0 <= p ->
  parse_numeral text = Some n -> repr p s n = None -> set_string p s text = Err.
Proof.
  intros p s text n Hs Hp H R. pose proof (parse_all p s text Hs Hp) as A. rewrite parse_ok_pok, H in A.
  unfold pok in A. rewrite R in A. destruct (set_string p s text); [discriminate|reflexivity].
Qed.
(* a proper representable numeral yields exactly its value *)
Lemma representable_exact : forall p s text n r, 0 <= s -> 0 <= p ->
  parse_numeral text = Some n -> proper n = true -> repr p s n = Some r -> set_string p s text = Ok r.
Proof.
  intros p s text n r Hs Hp H Pn R. pose proof (parse_all p s text Hs Hp) as A. rewrite parse_ok_pok, H in A.
  unfold pok in A. rewrite R, Pn in A. destruct (set_string p s text) as [v|]; [|discriminate].
  cbn [out_of] in A. apply Z.eqb_eq in A. subst v. reflexivity.
Qed.
(* whatever is accepted is a numeral and gets exactly its value *)
Lemma accepted_exact : forall p s text v, 0 <= s -> 0 <= p -> set_string p s text = Ok v ->
  exists n, parse_numeral text = Some n /\ repr p s n = Some v.
Proof.
  intros p s text v Hs Hp E. pose proof (parse_all p s text Hs Hp) as A. rewrite parse_ok_pok, E in A.
  cbn [out_of] in A. destruct (parse_numeral text) as [n|]; [|discriminate]. exists n. split; [reflexivity|].
  unfold pok in A. destruct (repr p s n) as [r|]; [|discriminate]. apply Z.eqb_eq in A. subst v. reflexivity.
Qed.

Lemma repr_exact : forall p s n i, 0 <= fdig n -> mant n * 10 ^ s = i * 10 ^ fdig n -> Z.abs i < 10 ^ p ->
  repr p s n = Some i.
Proof.
  intros p s n i Hf E Hi. unfold repr. rewrite E. pose proof (pow10_gt0 (fdig n) Hf) as P.
  rewrite Z.mod_mul by lia. cbn [Z.eqb]. rewrite Z.div_mul by lia.
  destruct (Z.ltb_spec (Z.abs i) (10 ^ p)); [reflexivity|lia].
Qed.
Lemma repr_sound : forall p s n r, 0 <= fdig n -> repr p s n = Some r ->
  mant n * 10 ^ s = r * 10 ^ fdig n /\ Z.abs r < 10 ^ p.
Proof.
  intros p s n r Hf. unfold repr. pose proof (pow10_gt0 (fdig n) Hf) as P.
  destruct (Z.eqb_spec ((mant n * 10 ^ s) mod 10 ^ fdig n) 0) as [H0|_]; [|discriminate].
  destruct (Z.ltb_spec (Z.abs (mant n * 10 ^ s / 10 ^ fdig n)) (10 ^ p)) as [Hl|_]; [|discriminate].
  intros E. inversion E as [E']. rewrite E' in *. split; [|exact Hl].
  pose proof (Z.div_mod (mant n * 10 ^ s) (10 ^ fdig n) ltac:(lia)) as DM. rewrite H0, E' in DM. lia.
Qed.

(* ------------------------------------------------------------------ numerals written out *)
Definition allspace (w : list Z) : Prop := forallb is_space w = true.
Definition numch (c : Z) : bool := (43 <=? c) && (c <=? 57).
Definition numchars (x : list Z) : Prop := forallb numch x = true.

Lemma forallb_rev : forall (f : Z -> bool) l, forallb f (rev l) = forallb f l.
Proof.
  intros f l. induction l as [|c r IH]; [reflexivity|]. cbn [rev forallb]. rewrite forallb_app, IH. cbn [forallb].
  rewrite andb_true_r. apply andb_comm.
Qed.
Lemma numch_not_space : forall c, numch c = true -> is_space c = false.
Proof. intros c H. apply digit_not_space. unfold numch in H. apply andb_true_iff in H. rewrite !Z.leb_le in H. exact H. Qed.
Lemma digits_numchars : forall l, digits l -> numchars l.
Proof.
  intros l. induction l as [|c r IH]; intros H; [reflexivity|]. apply digits_cons in H. destruct H as [Hc Hr].
  unfold numchars. cbn [forallb]. rewrite (IH Hr). unfold numch.
  destruct (Z.leb_spec 43 c); destruct (Z.leb_spec c 57); try reflexivity; lia.
Qed.

Lemma trim_space_numchars : forall w1 w2 x, allspace w1 -> allspace w2 -> x <> [] -> numchars x ->
  trim_space (w1 ++ x ++ w2) = x.
Proof.
  intros w1 w2 x H1 H2 Hne Hx.
  destruct x as [|c r] eqn:Ex; [congruence|]. rewrite <- Ex in *.
  destruct (exists_last Hne) as [b [d Eb]].
  assert (Hc : is_space c = false).
  { apply numch_not_space. unfold numchars in Hx. rewrite Ex in Hx. cbn [forallb] in Hx. apply andb_true_iff in Hx. tauto. }
  assert (Hd : is_space d = false).
  { apply numch_not_space. unfold numchars in Hx. rewrite Eb, forallb_app in Hx. cbn [forallb] in Hx.
    apply andb_true_iff in Hx. destruct Hx as [_ Hx]. apply andb_true_iff in Hx. tauto. }
  unfold trim_space, trim_left, trim_right. rewrite drop_while_all by exact H1.
  rewrite Ex at 1. cbn [app]. rewrite drop_while_id by exact Hc. change (c :: r ++ w2) with ((c :: r) ++ w2). rewrite <- Ex.
  rewrite rev_app_distr, drop_while_all by (rewrite forallb_rev; exact H2).
  rewrite Eb at 1. rewrite rev_app_distr. cbn [rev app]. rewrite drop_while_id by exact Hd.
  cbn [rev]. rewrite rev_involutive. symmetry. exact Eb.
Qed.

(* optional sign: None = no sign, Some true = '-', Some false = '+' *)
Definition sign_text (sg : option bool) : list Z := match sg with None => [] | Some true => [45] | Some false => [43] end.
Definition is_minus (sg : option bool) : bool := match sg with Some true => true | _ => false end.
Lemma sign_numchars : forall sg, numchars (sign_text sg).
Proof. intros [[|]|]; reflexivity. Qed.
Lemma split_sign_text : forall sg a, digits a -> split_sign (sign_text sg ++ a) = (is_minus sg, a).
Proof.
  intros sg a Da. destruct sg as [[|]|]; [reflexivity|reflexivity|]. cbn [sign_text app is_minus].
  destruct a as [|c r]; [reflexivity|]. apply digits_cons in Da. cbn [split_sign].
  destruct (Z.eqb_spec c 45) as [?|_]; [lia|]. destruct (Z.eqb_spec c 43) as [?|_]; [lia|]. reflexivity.
Qed.

Lemma parse_numeral_point : forall w1 w2 sg a b, allspace w1 -> allspace w2 -> digits a -> digits b ->
  (a <> [] \/ b <> []) ->
  parse_numeral (w1 ++ (sign_text sg ++ a ++ 46 :: b) ++ w2) = Some {| nneg := is_minus sg; ipart := a; fpart := b |}.
Proof.
  intros w1 w2 sg a b H1 H2 Da Db Hne. rewrite parse_numeral_pn, trim_space_numchars; [|exact H1|exact H2| |].
  - pose proof (split_sign_text sg a Da) as SS.
    rewrite app_assoc. rewrite pn_dot_digits; rewrite ?SS; cbn [fst snd]; [|exact Da|exact Db].
    destruct a as [|x xs]; [|reflexivity]. destruct b as [|y ys]; [|reflexivity]. destruct Hne; congruence.
  - destruct (sign_text sg); [|discriminate]. destruct a; discriminate.
  - unfold numchars. rewrite !forallb_app. cbn [forallb].
    pose proof (sign_numchars sg) as S. pose proof (digits_numchars a Da) as A. pose proof (digits_numchars b Db) as B.
    unfold numchars in S, A, B. rewrite S, A, B. reflexivity.
Qed.
Lemma parse_numeral_int : forall w1 w2 sg a, allspace w1 -> allspace w2 -> digits a -> a <> [] ->
  parse_numeral (w1 ++ (sign_text sg ++ a) ++ w2) = Some {| nneg := is_minus sg; ipart := a; fpart := [] |}.
Proof.
  intros w1 w2 sg a H1 H2 Da Hne. rewrite parse_numeral_pn, trim_space_numchars; [|exact H1|exact H2| |].
  - pose proof (split_sign_text sg a Da) as SS.
    rewrite pn_int; rewrite ?SS; cbn [fst snd]; [|exact Da]. destruct a; [congruence|reflexivity].
  - destruct (sign_text sg); [|discriminate]. destruct a; [congruence|discriminate].
  - unfold numchars. rewrite forallb_app.
    pose proof (sign_numchars sg) as S. pose proof (digits_numchars a Da) as A.
    unfold numchars in S, A. rewrite S, A. reflexivity.
Qed.

(* ------------------------------------------------------------------ more than one point *)
Lemma drop_while_keeps_dot : forall f x r, f 46 = false -> exists x', drop_while f (x ++ 46 :: r) = x' ++ 46 :: r.
Proof.
  intros f x r H. induction x as [|c x1 IH].
  - exists []. cbn [app]. apply drop_while_id. exact H.
  - cbn [app drop_while]. destruct (f c); [exact IH|]. exists (c :: x1). reflexivity.
Qed.
Lemma split_dot_count : forall l, length (split_dot l) = S (count_occ Z.eq_dec l 46).
Proof.
  intros l. induction l as [|c r IH]; [reflexivity|]. cbn [split_dot].
  destruct (Z.eqb_spec c 46) as [->|Hc].
  - rewrite count_occ_cons_eq by reflexivity. cbn [length]. rewrite IH. reflexivity.
  - rewrite count_occ_cons_neq by exact Hc.
    destruct (split_dot r) as [|h t]; [cbn [length] in IH; discriminate|]. cbn [length] in *. exact IH.
Qed.
Lemma is_space_46 : is_space 46 = false.
Proof. reflexivity. Qed.
Lemma two_points_err : forall p s x y z, set_string p s (x ++ 46 :: y ++ 46 :: z) = Err.
Proof.
  intros p s x y z. rewrite set_string_finish.
  assert (H : exists x' z', trim_space (x ++ 46 :: y ++ 46 :: z) = x' ++ 46 :: y ++ 46 :: z').
  { unfold trim_space, trim_left, trim_right.
    destruct (drop_while_keeps_dot is_space x (y ++ 46 :: z) is_space_46) as [x' E]. rewrite E.
    replace (x' ++ 46 :: y ++ 46 :: z) with ((x' ++ 46 :: y) ++ 46 :: z) by (rewrite <- app_assoc; reflexivity).
    rewrite rev_app_distr. cbn [rev]. rewrite <- app_assoc. cbn [app].
    destruct (drop_while_keeps_dot is_space (rev z) (rev (x' ++ 46 :: y)) is_space_46) as [z' E'].
    rewrite E', rev_app_distr. cbn [rev]. rewrite rev_involutive, <- !app_assoc. cbn [app].
    exists x', (rev z'). reflexivity. }
  destruct H as [x' [z' ->]].
  pose proof (split_dot_count (x' ++ 46 :: y ++ 46 :: z')) as C.
  rewrite count_occ_app, count_occ_cons_eq, count_occ_app, count_occ_cons_eq in C by reflexivity.
  destruct (split_dot (x' ++ 46 :: y ++ 46 :: z')) as [|l1 [|l2 [|l3 rest]]]; cbn [length] in C; try lia. reflexivity.
Qed.

(* ------------------------------------------------------------------ numerals written out: what SetString answers *)
Lemma written_point : forall p s w1 w2 sg a b' k, 0 <= s -> 0 <= p -> allspace w1 -> allspace w2 ->
  digits a -> a <> [] -> digits b' -> zlen b' <= s ->
  set_string p s (w1 ++ (sign_text sg ++ a ++ 46 :: b' ++ repeat 48 k) ++ w2) =
  let v := sgn_val (is_minus sg) (val_digits (a ++ b')) * 10 ^ (s - zlen b') in
  if Z.abs v <? 10 ^ p then Ok v else Err.
Proof.
  intros p s w1 w2 sg a b' k Hs Hp H1 H2 Da Hne Db Hl.
  assert (Dbk : digits (b' ++ repeat 48 k)) by (apply digits_app; split; [exact Db|apply digits_repeat0]).
  pose proof (parse_numeral_point w1 w2 sg a (b' ++ repeat 48 k) H1 H2 Da Dbk (or_introl Hne)) as P.
  pose proof (repr_fits p s (is_minus sg) a b' k Hs Hl) as R. cbv zeta in R |- *.
  destruct (Z.abs _ <? 10 ^ p).
  - apply (representable_exact p s _ _ _ Hs Hp P); [|exact R]. unfold proper. cbn [ipart]. destruct a; [congruence|reflexivity].
  - apply (unrepresentable_rejected p s _ _ Hs Hp P R).
Qed.
Lemma written_int : forall p s w1 w2 sg a, 0 <= s -> 0 <= p -> allspace w1 -> allspace w2 ->
  digits a -> a <> [] ->
  set_string p s (w1 ++ (sign_text sg ++ a) ++ w2) =
  let v := sgn_val (is_minus sg) (val_digits a) * 10 ^ s in
  if Z.abs v <? 10 ^ p then Ok v else Err.
Proof.
  intros p s w1 w2 sg a Hs Hp H1 H2 Da Hne.
  pose proof (parse_numeral_int w1 w2 sg a H1 H2 Da Hne) as P.
  pose proof (repr_fits p s (is_minus sg) a [] 0 Hs ltac:(rewrite zlen_nil; lia)) as R.
  cbn [repeat app] in R. rewrite app_nil_r, zlen_nil, Z.sub_0_r in R. cbv zeta in R |- *.
  destruct (Z.abs _ <? 10 ^ p).
  - apply (representable_exact p s _ _ _ Hs Hp P); [|exact R]. unfold proper. cbn [ipart]. destruct a; [congruence|reflexivity].
  - apply (unrepresentable_rejected p s _ _ Hs Hp P R).
Qed.
Lemma written_toofrac : forall p s w1 w2 sg a b0 c k, 0 <= s -> 0 <= p -> allspace w1 -> allspace w2 ->
  digits a -> digits b0 -> 49 <= c <= 57 -> s < zlen (b0 ++ [c]) ->
  set_string p s (w1 ++ (sign_text sg ++ a ++ 46 :: (b0 ++ [c]) ++ repeat 48 k) ++ w2) = Err.
Proof.
  intros p s w1 w2 sg a b0 c k Hs Hp H1 H2 Da Db Hc Hl.
  assert (Dbk : digits ((b0 ++ [c]) ++ repeat 48 k)).
  { apply digits_app; split; [|apply digits_repeat0]. apply digits_app. split; [exact Db|].
    apply digits_cons. split; [lia|apply digits_nil]. }
  assert (Hne : a <> [] \/ (b0 ++ [c]) ++ repeat 48 k <> []) by (right; destruct b0; discriminate).
  pose proof (parse_numeral_point w1 w2 sg a _ H1 H2 Da Dbk Hne) as P.
  apply (unrepresentable_rejected p s _ _ Hs Hp P). apply repr_toofrac; lia.
Qed.
