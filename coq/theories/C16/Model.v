(* C16: executable model of /repo/asetypes/decimal.go (String, SetString, sanity, NewDecimal,
   NewDecimalString) as of the "fix:" commits fddc329 and 5c50534.  Strings are lists of code points (list Z).
   math/big (Int.String, Int.SetString base 10, Abs, Exp, Mul), fmt's %0<w>s of a *big.Int and
   strings.TrimSpace / Split / TrimLeft / TrimRight are modelled by the definitions below (trusted,
   cross-checked against the implementation on every run).  The last part is the state machine of ONE Decimal
   object under a history of method calls and direct assignments of the exported fields.  No proofs here. *)
From Coq Require Import ZArith List Bool.
Import ListNotations.
From V Require Import Base.Tree Base.Bytes.
Open Scope Z_scope.

Definition str := list Z.

(* '0' = 48, '9' = 57, '.' = 46, '-' = 45, '+' = 43 *)
Definition is_digit (c : Z) : bool := (48 <=? c) && (c <=? 57).
Definition is_zero_ch (c : Z) : bool := c =? 48.

(* ---------- math/big ---------- *)
(* big.Int.String of a natural number: decimal digits, most significant first, "0" for zero.
   The fuel (bit length + 1) always suffices: Digits.big_string_val holds for every n >= 0. *)
Fixpoint digs (fuel : nat) (n : Z) (acc : str) : str :=
  match fuel with
  | O => acc
  | S f =>
      if n <? 10 then (48 + n) :: acc
      else let qr := Z.div_eucl n 10 in digs f (fst qr) ((48 + snd qr) :: acc)    (* n / 10, n mod 10 *)
  end.
Definition big_string (n : Z) : str := digs (S (Z.to_nat (Z.log2 n))) n [].

(* value of a digit string, accumulated left to right as nat.scan does *)
Definition val_digits (l : str) : Z := fold_left (fun a c => 10 * a + (c - 48)) l 0.

(* big.Int.SetString(s, 10): optional sign, at least one digit, digits only, nothing else *)
Definition split_sign (l : str) : bool * str :=
  match l with
  | c :: r => if c =? 45 then (true, r) else if c =? 43 then (false, r) else (false, l)
  | [] => (false, l)
  end.
Definition big_set_string (l : str) : option Z :=
  let sd := split_sign l in
  match snd sd with
  | [] => None
  | _ :: _ =>
      if forallb is_digit (snd sd)
      then Some (if fst sd then - val_digits (snd sd) else val_digits (snd sd))
      else None
  end.

(* ---------- fmt ---------- *)
(* Sprintf("%0<w>s", x) for a non-negative *big.Int (big.Int.Format): the digits padded on the left with
   zeros up to width w; never truncated.  ("%00s" has no width at all: same result as w = 0.) *)
Definition pad0 (w : Z) (d : str) : str := repeat 48 (Z.to_nat (w - zlen d)) ++ d.

(* ---------- strings ---------- *)
Fixpoint drop_while (f : Z -> bool) (l : str) : str :=
  match l with
  | [] => []
  | c :: r => if f c then drop_while f r else l
  end.
Definition trim_left (f : Z -> bool) (l : str) : str := drop_while f l.
Definition trim_right (f : Z -> bool) (l : str) : str := rev (drop_while f (rev l)).

(* unicode.IsSpace *)
Definition is_space (c : Z) : bool :=
  if c <=? 255 then
    (c =? 9) || (c =? 10) || (c =? 11) || (c =? 12) || (c =? 13) || (c =? 32) || (c =? 133) || (c =? 160)
  else
    (c =? 5760) || ((8192 <=? c) && (c <=? 8202)) || (c =? 8232) || (c =? 8233) || (c =? 8239) || (c =? 8287)
    || (c =? 12288).
Definition trim_space (l : str) : str := trim_right is_space (trim_left is_space l).

(* strings.Split(s, "."): one more piece than there are points *)
Fixpoint split_dot (l : str) : list str :=
  match l with
  | [] => [[]]
  | c :: r =>
      if c =? 46 then [] :: split_dot r
      else match split_dot r with
           | h :: t => (c :: h) :: t
           | [] => [[c]]
           end
  end.

(* ---------- asetypes/decimal.go ---------- *)
Definition sanity (p s : Z) : bool :=
  negb (38 <? p) && negb (p <? 0) && negb (38 <? s) && negb (s <? 0) && negb (p <? s).

(* Decimal.String for precision p, scale s (sanity p s = true) and unscaled value i *)
Definition dec_string (p s i : Z) : str :=
  let d := pad0 p (big_string (Z.abs i)) in
  let neg := if i <? 0 then [45] else [] in
  let right := trim_right is_zero_ch (zdrop (p - s) d) in
  let right := match right with [] => [48] | _ :: _ => right end in
  let left := trim_left is_zero_ch (ztake (p - s) d) in
  let left := match left with [] => [48] | _ :: _ => left end in
  neg ++ left ++ [46] ++ right.

Inductive res := Ok (i : Z) | Err.

(* Decimal.SetString: the new unscaled value, or an error (value untouched) *)
Definition set_string (p s : Z) (text : str) : res :=
  let t := trim_space text in
  match split_dot t with
  | [] => Err
  | lft :: rest =>
      match rest with
      | _ :: _ :: _ => Err                                     (* more than one decimal point *)
      | _ =>
          let rgt := match rest with r :: _ => trim_right is_zero_ch r | [] => [] end in
          if negb (forallb is_digit rgt) then Err             (* the fraction must consist of digits *)
          else if s <? zlen rgt then Err                      (* more fractional digits than the scale *)
          else match big_set_string (lft ++ rgt) with
               | None => Err                                    (* failed to parse *)
               | Some i =>
                   let i := if 0 <? s - zlen rgt then i * 10 ^ (s - zlen rgt) else i in
                   if negb (i =? 0) && (p <? zlen (big_string (Z.abs i))) then Err   (* more digits than the precision *)
                   else Ok i
               end
      end
  end.

(* NewDecimalString *)
Definition new_decimal_string (p s : Z) (text : str) : res :=
  if sanity p s then set_string p s text else Err.

Definition res_eqb (a b : res) : bool :=
  match a, b with
  | Ok x, Ok y => x =? y
  | Err, Err => true
  | _, _ => false
  end.

(* ---------- histories on one Decimal object ----------
   The state of a Decimal is exactly its three fields: Precision, Scale (exported, assigned directly by callers
   such as asetypes/goValue.go and tds/field.go) and the *big.Int i (None = nil pointer, the state of a struct
   literal Decimal{Precision: p, Scale: s}).  There is no other state: every method is a function of these. *)
Record dstate := mk_dstate { dprec : Z; dscale : Z; dval : option Z }.

Inductive op :=
| OString                      (* d.String() *)
| OSetString (t : str)         (* d.SetString(t) *)
| OSetInt64 (n : Z)            (* d.SetInt64(n) *)
| OSetBytes (b : list Z)       (* d.SetBytes(b) *)
| ONegate                      (* d.Negate() *)
| OPrec (p : Z)                (* d.Precision = p *)
| OScale (s : Z)               (* d.Scale = s *)
| OBoth (p s : Z)              (* d.Precision, d.Scale = p, s *)
| ORead                        (* IsNegative, Int, Bytes, ByteSize, Cmp with a fresh decimal in the same state *)
| OBad.

Definition op_of_tree (t : tree) : op :=
  match t with
  | TL [TI c] => if c =? 0 then OString else if c =? 4 then ONegate else if c =? 8 then ORead else OBad
  | TL [TI c; TB x] => if c =? 1 then OSetString x else if c =? 3 then OSetBytes x else OBad
  | TL [TI c; TI n] => if c =? 2 then OSetInt64 n else if c =? 5 then OPrec n else if c =? 6 then OScale n else OBad
  | TL [TI c; TI p; TI s] => if c =? 7 then OBoth p s else OBad
  | _ => OBad
  end.

Definition nil_text : str := [60; 110; 105; 108; 62].   (* "<nil>" *)
Definition panic_t : tree := TI (-1).

(* Decimal.String in a state: the text, or a panic when the slice expressions s[p-s:] / s[:p-s] are out of
   range (possible only after assignments that make Scale > Precision or Scale < 0; Precision >= 0 assumed) *)
Definition state_string (st : dstate) : tree :=
  match dval st with
  | None => TB nil_text
  | Some i =>
      let p := dprec st in let s := dscale st in
      let d := pad0 p (big_string (Z.abs i)) in
      if (p - s <? 0) || (zlen d <? p - s) then panic_t else TB (dec_string p s i)
  end.

(* Decimal.ByteSize: ceil(BitLen / 8) + 1 *)
Definition bit_len (n : Z) : Z := if n =? 0 then 0 else Z.log2 n + 1.
Definition byte_size (i : Z) : Z := (bit_len (Z.abs i) + 7) / 8 + 1.

(* one operation: what the call answers, and the state afterwards.  Methods that dereference i panic on the
   nil state before changing anything. *)
Definition step (st : dstate) (o : op) : tree * dstate :=
  let p := dprec st in let s := dscale st in
  match o with
  | OString => (state_string st, st)
  | OSetString t =>
      match set_string p s t with
      | Ok i => (TI 0, mk_dstate p s (Some i))
      | Err => (TI 2, st)
      end
  | OSetInt64 n => match dval st with Some _ => (TI 0, mk_dstate p s (Some n)) | None => (panic_t, st) end
  | OSetBytes b => match dval st with Some _ => (TI 0, mk_dstate p s (Some (be_of_bytes b))) | None => (panic_t, st) end
  | ONegate => match dval st with Some i => (TI 0, mk_dstate p s (Some (- i))) | None => (panic_t, st) end
  | OPrec p' => (TI 0, mk_dstate p' s (dval st))
  | OScale s' => (TI 0, mk_dstate p s' (dval st))
  | OBoth p' s' => (TI 0, mk_dstate p' s' (dval st))
  | ORead =>
      match dval st with
      | Some i => (TL [of_bool (i <? 0); TI i; TI (Z.abs i); TI (byte_size i); TI 1], st)
      | None => (panic_t, st)
      end
  | OBad => (tbad, st)
  end.
Definition next (st : dstate) (o : op) : dstate := snd (step st o).

(* the successive states of a history *)
Fixpoint states (st : dstate) (ops : list op) : list dstate :=
  match ops with
  | [] => []
  | o :: r => next st o :: states (next st o) r
  end.

(* what the harness records after every step: the answer of the call, the fields read back, the text printed
   by a copy of the struct (String called on "c := *d", so that observing does not count as a call on d), and
   whether NewDecimalString(Precision, Scale, text) succeeds and Cmp's equal to d in both directions *)
Definition val_tree (v : option Z) : tree := match v with Some i => TI i | None => TL [] end.
Definition rt_flag (st : dstate) (text : tree) : bool :=
  match dval st, text with
  | Some i, TB t => res_eqb (new_decimal_string (dprec st) (dscale st) t) (Ok i)
  | _, _ => false
  end.
Definition record (obs : tree) (st : dstate) : tree :=
  TL [obs; TI (dprec st); TI (dscale st); val_tree (dval st); state_string st; of_bool (rt_flag st (state_string st))].
Fixpoint trace (st : dstate) (ops : list op) : list tree :=
  match ops with
  | [] => []
  | o :: r => record (fst (step st o)) (next st o) :: trace (next st o) r
  end.

(* how the object comes into being: 0 = NewDecimal(p, s), 1 = &Decimal{Precision: p, Scale: s} *)
Definition init_state (kind p s : Z) : option dstate :=
  if kind =? 0 then (if sanity p s then Some (mk_dstate p s (Some 0)) else None)
  else if kind =? 1 then Some (mk_dstate p s None)
  else None.
