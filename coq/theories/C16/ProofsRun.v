(* C16: the executable specification predicate used on the implementation's outputs (Spec.spec) holds of
   the model's own outputs (Spec.run) for every input: a spec failure on a case can only come from the
   implementation differing from the model. *)
From Coq Require Import ZArith List Bool Lia.
Import ListNotations.
From V Require Import Base.Tree Base.Bytes C16.Model C16.Spec C16.Digits C16.ProofsParse C16.ProofsString.
Open Scope Z_scope.

Lemma list_Z_eqb_refl : forall l, list_Z_eqb l l = true.
Proof. intros l. induction l as [|x r IH]; [reflexivity|]. cbn [list_Z_eqb]. rewrite Z.eqb_refl, IH. reflexivity. Qed.

(* printed text of any value in range, also for precision 0 *)
Lemma string_ok_any : forall p s v, 0 <= s <= p -> Z.abs v < 10 ^ p ->
  shape_ok (dec_string p s v) = true /\ value_is (dec_string p s v) v s = true /\ set_string p s (dec_string p s v) = Ok v.
Proof.
  intros p s v Hs Hv. destruct (Z.eq_dec p 0) as [->|Hp].
  - assert (s = 0) by lia. subst s. change (10 ^ 0) with 1 in Hv. assert (v = 0) by lia. subst v.
    vm_compute. repeat split.
  - split; [apply string_shape; lia|]. split; [apply string_value_is; lia|apply string_roundtrip; lia].
Qed.

Lemma accepted_in_range : forall p s t v, 0 <= s -> 0 <= p -> set_string p s t = Ok v -> Z.abs v < 10 ^ p.
Proof.
  intros p s t v Hs Hp E. destruct (accepted_exact p s t v Hs Hp E) as [n [_ R]].
  apply (repr_sound p s n v) in R; [tauto|apply zlen_nonneg].
Qed.

Lemma spec_run_1 : forall i, spec 1 i (run 1 i) = true.
Proof.
  intros i. unfold spec, run.
  set (p := t_int (t_nth 0 i)). set (s := t_int (t_nth 1 i)). set (v := t_int (t_nth 2 i)).
  rewrite <- sanity_valid. destruct (sanity p s) eqn:S; [|reflexivity].
  apply sanity_iff in S. unfold of_bool. rewrite Z.eqb_refl, list_Z_eqb_refl. cbn [andb].
  destruct (Z.ltb_spec (Z.abs v) (10 ^ p)) as [Hv|_]; [|reflexivity].
  destruct (string_ok_any p s v ltac:(lia) Hv) as [A [B C]]. rewrite A, B. cbn [andb].
  unfold new_decimal_string. replace (sanity p s) with true by (symmetry; apply sanity_iff; exact S).
  rewrite C. cbn [res_eqb]. rewrite Z.eqb_refl. reflexivity.
Qed.
Lemma spec_run_2 : forall i, spec 2 i (run 2 i) = true.
Proof.
  intros i. unfold spec, run.
  set (p := t_int (t_nth 0 i)). set (s := t_int (t_nth 1 i)). set (t := t_bytes (t_nth 2 i)).
  rewrite <- sanity_valid. unfold new_decimal_string. destruct (sanity p s) eqn:S; [|reflexivity].
  apply sanity_iff in S. pose proof (parse_all p s t ltac:(lia) ltac:(lia)) as A.
  destruct (set_string p s t) as [v|] eqn:E; cbn [out_of] in A.
  - pose proof (accepted_in_range p s t v ltac:(lia) ltac:(lia) E) as Hv.
    destruct (string_ok_any p s v ltac:(lia) Hv) as [B [C _]]. rewrite A, B, C. reflexivity.
  - exact A.
Qed.
Lemma spec_run_3 : forall i, spec 3 i (run 3 i) = true.
Proof.
  intros i. unfold spec, run. rewrite <- sanity_valid. destruct (sanity _ _); reflexivity.
Qed.
Lemma spec_run_4 : forall i, spec 4 i (run 4 i) = true.
Proof.
  intros i. unfold spec, run.
  set (p := t_int (t_nth 0 i)). set (s := t_int (t_nth 1 i)). set (v0 := t_int (t_nth 2 i)). set (t := t_bytes (t_nth 3 i)).
  rewrite <- sanity_valid. destruct (sanity p s) eqn:S; [|reflexivity].
  apply sanity_iff in S. pose proof (parse_all p s t ltac:(lia) ltac:(lia)) as A.
  destruct (set_string p s t) as [v|] eqn:E; cbn [out_of] in A.
  - exact A.
  - rewrite A, Z.eqb_refl. reflexivity.
Qed.
Lemma spec_run : forall fn i, 1 <= fn <= 4 -> spec fn i (run fn i) = true.
Proof.
  intros fn i H. assert (fn = 1 \/ fn = 2 \/ fn = 3 \/ fn = 4) as C by lia.
  destruct C as [E|[E|[E|E]]]; subst fn.
  - apply spec_run_1.
  - apply spec_run_2.
  - apply spec_run_3.
  - apply spec_run_4.
Qed.
