(* C16: independent executable specification, written from the property text:
   decimal numerals, their exact rational value, the regular output shape, representability at a
   (precision, scale), and the dispatch functions for the driver.  No proofs here. *)
From Coq Require Import ZArith List Bool QArith.
Import ListNotations.
From V Require Import Base.Tree Base.Bytes C16.Model.
Open Scope Z_scope.

(* ---------- numerals ---------- *)
Definition is_dig (c : Z) : bool := existsb (Z.eqb c) [48; 49; 50; 51; 52; 53; 54; 55; 56; 57].

(* positional value of a digit string: sum of digit * 10^position, computed from the right together
   with the weight 10^length *)
Fixpoint nat_val_w (l : list Z) : Z * Z :=
  match l with
  | [] => (0, 1)
  | c :: r => let vw := nat_val_w r in ((c - 48) * snd vw + fst vw, 10 * snd vw)
  end.
Definition nat_val (l : list Z) : Z := fst (nat_val_w l).

(* Unicode White_Space *)
Definition is_ws (c : Z) : bool :=
  existsb (Z.eqb c) [9; 10; 11; 12; 13; 32; 133; 160; 5760; 8232; 8233; 8239; 8287; 12288]
  || ((8192 <=? c) && (c <=? 8202)).

Fixpoint skip_ws (l : list Z) : list Z :=
  match l with
  | c :: r => if is_ws c then skip_ws r else l
  | [] => []
  end.
Definition strip (l : list Z) : list Z := rev (skip_ws (rev (skip_ws l))).

(* longest prefix of digits, and the rest *)
Fixpoint span_digits (l : list Z) : list Z * list Z :=
  match l with
  | c :: r => if is_dig c then let ab := span_digits r in (c :: fst ab, snd ab) else ([], l)
  | [] => ([], [])
  end.

(* sign, integer digits, fraction digits *)
Record numeral := { nneg : bool; ipart : list Z; fpart : list Z }.

(* value = mant / 10^fdig, an exact rational *)
Definition fdig (n : numeral) : Z := zlen (fpart n).
Definition mant (n : numeral) : Z :=
  let a := nat_val (ipart n) * 10 ^ fdig n + nat_val (fpart n) in
  if nneg n then - a else a.
Definition numeral_Q (n : numeral) : Q := (inject_Z (mant n) / inject_Z (10 ^ fdig n))%Q.

Definition is_nil {A} (l : list A) : bool := match l with [] => true | _ :: _ => false end.

(* an optional sign in front: '-', and '+' where it is allowed *)
Definition take_sign (plus_ok : bool) (t : list Z) : bool * list Z :=
  match t with
  | c :: r => if c =? 45 then (true, r) else if plus_ok && (c =? 43) then (false, r) else (false, t)
  | [] => (false, t)
  end.

(* numerals in the wide sense: [spaces] [+|-] digits* [ . digits* ] [spaces], at least one digit *)
Definition parse_numeral (t : list Z) : option numeral :=
  let sg := take_sign true (strip t) in
  let ng := fst sg in
  let sp := span_digits (snd sg) in
  let ip := fst sp in
  match snd sp with
  | [] => if is_nil ip then None else Some {| nneg := ng; ipart := ip; fpart := [] |}
  | c :: r2 =>
      if c =? 46 then
        let sp2 := span_digits r2 in
        let fp := fst sp2 in
        match snd sp2 with
        | [] => if is_nil ip && is_nil fp then None else Some {| nneg := ng; ipart := ip; fpart := fp |}
        | _ :: _ => None
        end
      else None
  end.

(* a proper numeral has at least one integer digit; ".5" and "-.25" are numerals only in the wide sense:
   an implementation may reject them, but must not give them another value *)
Definition proper (n : numeral) : bool := negb (is_nil (ipart n)).

(* the unscaled integer representing the numeral exactly at scale s with at most p digits, if any:
   value * 10^s must be an integer of absolute value below 10^p *)
Definition repr (p s : Z) (n : numeral) : option Z :=
  if (mant n * 10 ^ s) mod 10 ^ fdig n =? 0 then
    let r := mant n * 10 ^ s / 10 ^ fdig n in
    if Z.abs r <? 10 ^ p then Some r else None
  else None.

(* what a parser for (precision p, scale s) may answer for the text t: out = Some unscaled | None (error) *)
Definition parse_ok (p s : Z) (t : list Z) (out : option Z) : bool :=
  match parse_numeral t with
  | None => is_nil (match out with Some x => [x] | None => [] end)
  | Some n =>
      match repr p s n, out with
      | None, None => true
      | None, Some _ => false
      | Some r, Some r' => r' =? r
      | Some _, None => negb (proper n)
      end
  end.

(* ---------- the regular shape of printed decimals ----------
   optional '-', integer part without leading zeros (unless it is the single digit 0), '.', fraction
   without trailing zeros (unless it is the single digit 0), at least one digit on each side, nothing
   else; no '-' in front of zero *)
Definition last_ch (l : list Z) : Z := last l 0.
Definition shape_ok (t : list Z) : bool :=
  let sg := take_sign false t in
  let ng := fst sg in
  let sp := span_digits (snd sg) in
  let ip := fst sp in
  match snd sp with
  | c :: r2 =>
      let sp2 := span_digits r2 in
      let fp := fst sp2 in
      (c =? 46) && is_nil (snd sp2) &&
      negb (is_nil ip) && negb (is_nil fp) &&
      ((zlen ip =? 1) || negb (hd 0 ip =? 48)) &&
      ((zlen fp =? 1) || negb (last_ch fp =? 48)) &&
      negb (ng && (nat_val ip =? 0) && (nat_val fp =? 0))
  | [] => false
  end.

(* the text denotes exactly i / 10^s *)
Definition value_is (t : list Z) (i s : Z) : bool :=
  match parse_numeral t with
  | Some n => mant n * 10 ^ s =? i * 10 ^ fdig n
  | None => false
  end.

(* valid (precision, scale) pairs *)
Definition valid_ps (p s : Z) : bool := (0 <=? s) && (s <=? p) && (p <=? 38).

(* ---------- histories on one decimal ----------
   The property speaks about the value, precision and scale a decimal HAS when it is formatted.  A decimal is
   (precision, scale, unscaled integer) -- or has no integer at all (a struct literal), about which the property
   says nothing.  What each operation means for these three is fixed by its documentation:
     SetInt64 n        the integer becomes n
     SetBytes b        the integer becomes the big-endian unsigned value of b
     Negate            the integer changes its sign
     Precision = p / Scale = s   (direct assignment of the exported fields) the integer is untouched
     SetString t       as NewDecimalString at the current precision and scale (parse_ok), untouched on error
     String and the read accessors change nothing.
   After EVERY step the fields read back must be these, and whenever the decimal is inside the property
   (valid precision/scale, at most precision digits) the text it prints must have the regular shape, denote
   exactly integer / 10^scale and parse back to an equal decimal -- whatever happened to the object before. *)
Record hstate := mk_hstate { hp : Z; hs : Z; hv : option Z }.

Definition be_val (b : list Z) : Z := fold_left (fun a x => 256 * a + x) b 0.

Definition in_property (st : hstate) : bool :=
  match hv st with
  | Some i => valid_ps (hp st) (hs st) && (Z.abs i <? 10 ^ hp st)
  | None => false
  end.

Definition text_judged (st : hstate) (text : tree) (rt : Z) : bool :=
  match hv st with
  | Some i =>
      if in_property st then
        match text with
        | TB t => shape_ok t && value_is t i (hs st) && (rt =? 1)
        | _ => false
        end
      else true
  | None => true
  end.

Definition tree_val (t : tree) : option Z := match t with TI x => Some x | _ => None end.
Definition same_val (t : tree) (v : option Z) : bool :=
  match t, v with
  | TI x, Some y => x =? y
  | TL [], None => true
  | _, _ => false
  end.

(* the state the property demands after operation o, given what the object answered (obs), the integer read
   back afterwards (vi) and the text printed afterwards; None = the answer is not admitted.  Where the property
   is silent (operations on a decimal without integer, SetString at an invalid precision/scale) the integer
   read back is taken over. *)
Definition hstep (st : hstate) (o : op) (obs vi text : tree) : option hstate :=
  let p := hp st in let s := hs st in
  match o with
  | OString => if tree_eqb obs text then Some st else None          (* the same state printed twice *)
  | ORead =>
      match hv st with
      | Some i =>
          match obs with
          | TL [TI ng; TI iv; TI av; TI _; TI cmp] =>
              if (ng =? (if i <? 0 then 1 else 0)) && (iv =? i) && (av =? Z.abs i) && (cmp =? 1) then Some st else None
          | _ => None
          end
      | None => Some st
      end
  | OSetInt64 n =>
      match hv st with Some _ => Some (mk_hstate p s (Some n)) | None => Some (mk_hstate p s (tree_val vi)) end
  | OSetBytes b =>
      match hv st with Some _ => Some (mk_hstate p s (Some (be_val b))) | None => Some (mk_hstate p s (tree_val vi)) end
  | ONegate =>
      match hv st with Some i => Some (mk_hstate p s (Some (- i))) | None => Some (mk_hstate p s (tree_val vi)) end
  | OPrec p' => Some (mk_hstate p' s (hv st))
  | OScale s' => Some (mk_hstate p s' (hv st))
  | OBoth p' s' => Some (mk_hstate p' s' (hv st))
  | OSetString t =>
      if valid_ps p s then
        match obs with
        | TI e =>
            if e =? 0 then
              match vi with
              | TI v' => if parse_ok p s t (Some v') then Some (mk_hstate p s (Some v')) else None
              | _ => None
              end
            else if e =? 2 then (if parse_ok p s t None then Some st else None)
            else None
        | _ => None
        end
      else Some (mk_hstate p s (tree_val vi))
  | OBad => None
  end.

(* one recorded step (obs Precision Scale integer text rt) *)
Definition hjudge (st : hstate) (o : op) (rec : tree) : option hstate :=
  match rec with
  | TL [obs; TI rp; TI rs; vi; text; TI rt] =>
      match hstep st o obs vi text with
      | Some st' =>
          if (rp =? hp st') && (rs =? hs st') && same_val vi (hv st') && text_judged st' text rt then Some st' else None
      | None => None
      end
  | _ => None
  end.

Fixpoint hist_ok (st : hstate) (ops : list op) (recs : list tree) : bool :=
  match ops, recs with
  | [], [] => true
  | o :: ops', r :: recs' =>
      match hjudge st o r with
      | Some st' => hist_ok st' ops' recs'
      | None => false
      end
  | _, _ => false
  end.

(* ---------- dispatch ----------
   fn 1: String.            input (p s i)       output (2) if NewDecimal fails, else
                            (text text' i' rt): String() twice, the value afterwards, and whether
                            NewDecimalString(p, s, text) succeeds and Cmp's equal to the original
   fn 2: NewDecimalString.  input (p s text)    output (2) | (0 i text-of-result)
   fn 3: NewDecimal.        input (p s)         output (0) | (2)
   fn 4: SetString on a decimal holding i0.  input (p s i0 text)  output (2) if NewDecimal fails, else
                            (e i'): e = 0|2, i' = value afterwards
   fn 5: a history on ONE decimal.  input (kind p s (op ...)): kind 0 = NewDecimal(p, s), 1 = &Decimal{Precision: p,
                            Scale: s}; operations as Model.op_of_tree.  output (2) if the construction fails, else
                            (0 (record ...)), one record (obs Precision Scale integer text rt) per operation *)
Definition res_tree (r : res) : tree := match r with Ok i => TL [TI 0; TI i] | Err => TL [TI 2] end.

Definition run (fn : Z) (i : tree) : tree :=
  match fn with
  | 1 | 6 =>     (* fn 6: the same for the decimal as it comes back from its wire form (DECN / NUMN) *)
      let p := t_int (t_nth 0 i) in let s := t_int (t_nth 1 i) in let v := t_int (t_nth 2 i) in
      if sanity p s then
        let txt := dec_string p s v in
        TL [TB txt; TB txt; TI v; of_bool (res_eqb (new_decimal_string p s txt) (Ok v))]
      else TL [TI 2]
  | 2 =>
      let p := t_int (t_nth 0 i) in let s := t_int (t_nth 1 i) in let t := t_bytes (t_nth 2 i) in
      match new_decimal_string p s t with
      | Ok v => TL [TI 0; TI v; TB (dec_string p s v)]
      | Err => TL [TI 2]
      end
  | 3 =>
      let p := t_int (t_nth 0 i) in let s := t_int (t_nth 1 i) in
      TL [TI (if sanity p s then 0 else 2)]
  | 4 =>
      let p := t_int (t_nth 0 i) in let s := t_int (t_nth 1 i) in
      let v0 := t_int (t_nth 2 i) in let t := t_bytes (t_nth 3 i) in
      if sanity p s then
        match set_string p s t with
        | Ok v => TL [TI 0; TI v]
        | Err => TL [TI 2; TI v0]
        end
      else TL [TI 2]
  | 5 =>
      let kind := t_int (t_nth 0 i) in let p := t_int (t_nth 1 i) in let s := t_int (t_nth 2 i) in
      let ops := map op_of_tree (t_list (t_nth 3 i)) in
      match init_state kind p s with
      | Some st => TL [TI 0; TL (trace st ops)]
      | None => TL [TI 2]
      end
  | _ => tbad
  end.

Definition spec (fn : Z) (i o : tree) : bool :=
  match fn with
  | 1 | 6 =>     (* fn 6: the same for the decimal as it comes back from its wire form (DECN / NUMN) *)
      let p := t_int (t_nth 0 i) in let s := t_int (t_nth 1 i) in let v := t_int (t_nth 2 i) in
      if valid_ps p s then
        match o with
        | TL [TB t1; TB t2; TI v'; TI rt] =>
            (v' =? v) && list_Z_eqb t1 t2 &&
            (if Z.abs v <? 10 ^ p then shape_ok t1 && value_is t1 v s && (rt =? 1) else true)
        | _ => false
        end
      else tree_eqb o (TL [TI 2])
  | 2 =>
      let p := t_int (t_nth 0 i) in let s := t_int (t_nth 1 i) in let t := t_bytes (t_nth 2 i) in
      if valid_ps p s then
        match o with
        | TL [TI 2] => parse_ok p s t None
        | TL [TI 0; TI v; TB txt] => parse_ok p s t (Some v) && shape_ok txt && value_is txt v s
        | _ => false
        end
      else tree_eqb o (TL [TI 2])
  | 3 =>
      let p := t_int (t_nth 0 i) in let s := t_int (t_nth 1 i) in
      tree_eqb o (TL [TI (if valid_ps p s then 0 else 2)])
  | 4 =>
      let p := t_int (t_nth 0 i) in let s := t_int (t_nth 1 i) in
      let v0 := t_int (t_nth 2 i) in let t := t_bytes (t_nth 3 i) in
      if valid_ps p s then
        match o with
        | TL [TI 2; TI v] => parse_ok p s t None && (v =? v0)
        | TL [TI 0; TI v] => parse_ok p s t (Some v)
        | _ => false
        end
      else tree_eqb o (TL [TI 2])
  | 5 =>
      let kind := t_int (t_nth 0 i) in let p := t_int (t_nth 1 i) in let s := t_int (t_nth 2 i) in
      let ops := map op_of_tree (t_list (t_nth 3 i)) in
      if (kind =? 0) && negb (valid_ps p s) then tree_eqb o (TL [TI 2])
      else if (kind =? 0) || (kind =? 1) then
        match o with
        | TL [TI 0; TL recs] => hist_ok (mk_hstate p s (if kind =? 0 then Some 0 else None)) ops recs
        | _ => false
        end
      else false
  | _ => false
  end.
