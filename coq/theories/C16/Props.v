(* C16 — Decimal text conversion preserves the numeric value.
   Property theorems only.  The model (C16/Model.v: dec_string = Decimal.String, set_string = Decimal.SetString,
   sanity = the check of NewDecimal) is compared with /repo/asetypes/decimal.go on every run; the notions of
   numeral, value, shape and representability are those of the independent specification C16/Spec.v.
   p = precision, s = scale, i = unscaled integer (the decimal's value is i / 10^s). *)
From Coq Require Import ZArith List Bool QArith.
Import ListNotations.
From V Require Import Base.Tree Base.Bytes C16.Model C16.Spec C16.Digits C16.ProofsParse C16.ProofsString C16.ProofsRun C16.ProofsHist.
Open Scope Z_scope.

(* (1) Round trip: for every precision >= 1 (in particular 1..38), every scale up to the precision and every
   value with at most that many digits, parsing the printed text yields the same decimal. *)
Theorem C16_roundtrip : forall p s i, 0 <= s <= p -> 1 <= p -> Z.abs i < 10 ^ p ->
  set_string p s (dec_string p s i) = Ok i.
Proof. exact string_roundtrip. Qed.
Theorem C16_roundtrip_new : forall p s i, 0 <= s <= p -> 1 <= p <= 38 -> Z.abs i < 10 ^ p ->
  new_decimal_string p s (dec_string p s i) = Ok i.
Proof.
  intros p s i Hs Hp Hi. unfold new_decimal_string.
  replace (sanity p s) with true by (symmetry; apply sanity_iff; split; [exact Hs|apply Hp]).
  apply string_roundtrip; [exact Hs|apply Hp|exact Hi].
Qed.

(* (2) Shape: optional '-', integer part without leading zeros (unless the single digit 0), a point, fraction
   without trailing zeros (unless the single digit 0), at least one digit on each side, nothing else, no "-0.0". *)
Theorem C16_shape : forall p s i, 0 <= s <= p -> 1 <= p -> Z.abs i < 10 ^ p ->
  shape_ok (dec_string p s i) = true.
Proof. exact string_shape. Qed.

(* (3) Exact value: the text is a (proper) numeral denoting exactly i / 10^s — as a cross-multiplied integer
   equation and as an equation between rationals. *)
Theorem C16_value : forall p s i, 0 <= s <= p -> 1 <= p -> Z.abs i < 10 ^ p ->
  exists n, parse_numeral (dec_string p s i) = Some n /\ proper n = true /\ 0 <= fdig n /\
            mant n * 10 ^ s = i * 10 ^ fdig n.
Proof. exact string_value. Qed.
Theorem C16_value_Q : forall p s i, 0 <= s <= p -> 1 <= p -> Z.abs i < 10 ^ p ->
  exists n, parse_numeral (dec_string p s i) = Some n /\ (numeral_Q n == inject_Z i / inject_Z (10 ^ s))%Q.
Proof. exact string_value_Q. Qed.

(* (4) Parsing, for ALL texts (any code points): the answer of SetString is admitted by the specification —
   junk is an error, an unrepresentable numeral is an error, a proper representable numeral yields exactly
   numeral * 10^s, and a numeral without integer digits (".5") is either rejected or given exactly its value. *)
Theorem C16_parse_all : forall p s text, 0 <= s -> 0 <= p ->
  parse_ok p s text (out_of (set_string p s text)) = true.
Proof. exact parse_all. Qed.
Theorem C16_parse_exact : forall p s text n r, 0 <= s -> 0 <= p ->
  parse_numeral text = Some n -> proper n = true -> repr p s n = Some r -> set_string p s text = Ok r.
Proof. exact representable_exact. Qed.
Theorem C16_parse_unrepresentable : forall p s text n, 0 <= s -> 0 <= p ->
  parse_numeral text = Some n -> repr p s n = None -> set_string p s text = Err.
Proof. exact unrepresentable_rejected. Qed.
Theorem C16_parse_junk : forall p s text, 0 <= s -> 0 <= p -> parse_numeral text = None -> set_string p s text = Err.
Proof. exact junk_rejected. Qed.
(* nothing is ever accepted with another value *)
Theorem C16_parse_sound : forall p s text v, 0 <= s -> 0 <= p -> set_string p s text = Ok v ->
  exists n, parse_numeral text = Some n /\ repr p s n = Some v.
Proof. exact accepted_exact. Qed.
(* representability is what it should be: r represents the numeral iff r / 10^s is its value and r has <= p digits *)
Theorem C16_repr_iff : forall p s n r, 0 <= fdig n ->
  (repr p s n = Some r <-> mant n * 10 ^ s = r * 10 ^ fdig n /\ Z.abs r < 10 ^ p).
Proof.
  intros p s n r Hf. split; [apply repr_sound; exact Hf|]. intros [E H]. apply repr_exact; assumption.
Qed.

(* (5) The same for numerals written out: spaces, sign, integer digits a (at least one), point, fraction digits
   b' followed by any number of zeros.  With at most s fraction digits (after dropping the zeros) the result is
   exactly numeral * 10^s when that has at most p digits, otherwise an error. *)
Theorem C16_written_point : forall p s w1 w2 sg a b' k, 0 <= s -> 0 <= p -> allspace w1 -> allspace w2 ->
  digits a -> a <> [] -> digits b' -> zlen b' <= s ->
  set_string p s (w1 ++ (sign_text sg ++ a ++ 46 :: b' ++ repeat 48 k) ++ w2) =
  let v := sgn_val (is_minus sg) (val_digits (a ++ b')) * 10 ^ (s - zlen b') in
  if Z.abs v <? 10 ^ p then Ok v else Err.
Proof. exact written_point. Qed.
Theorem C16_written_int : forall p s w1 w2 sg a, 0 <= s -> 0 <= p -> allspace w1 -> allspace w2 ->
  digits a -> a <> [] ->
  set_string p s (w1 ++ (sign_text sg ++ a) ++ w2) =
  let v := sgn_val (is_minus sg) (val_digits a) * 10 ^ s in
  if Z.abs v <? 10 ^ p then Ok v else Err.
Proof. exact written_int. Qed.
(* more fraction digits than the scale (last one non-zero): error *)
Theorem C16_written_toofrac : forall p s w1 w2 sg a b0 c k, 0 <= s -> 0 <= p -> allspace w1 -> allspace w2 ->
  digits a -> digits b0 -> 49 <= c <= 57 -> s < zlen (b0 ++ [c]) ->
  set_string p s (w1 ++ (sign_text sg ++ a ++ 46 :: (b0 ++ [c]) ++ repeat 48 k) ++ w2) = Err.
Proof. exact written_toofrac. Qed.
(* more than one point anywhere: error *)
Theorem C16_two_points : forall p s x y z, set_string p s (x ++ 46 :: y ++ 46 :: z) = Err.
Proof. exact two_points_err. Qed.

(* (6) Construction: NewDecimal accepts exactly 0 <= scale <= precision <= 38. *)
Theorem C16_sanity : forall p s, sanity p s = true <-> 0 <= s <= p /\ p <= 38.
Proof. exact sanity_iff. Qed.
Theorem C16_sanity_spec : forall p s, sanity p s = valid_ps p s.
Proof. exact sanity_valid. Qed.

(* (7) The executable specification predicate that judges the implementation's outputs on every run holds of the
   model's own outputs for every input tree (also precision 0 and invalid pairs): given model = implementation on
   a case, the case satisfies the specification. *)
Theorem C16_spec_of_model : forall fn i, 1 <= fn <= 4 -> spec fn i (run fn i) = true.
Proof. exact spec_run. Qed.

(* (8) Histories on ONE decimal object (Model.step: String, SetString, SetInt64, SetBytes, Negate, direct assignment of
   the exported fields Precision / Scale, read accessors; states = the successive states, trace = what is recorded
   after every operation).  The object has no state besides (precision, scale, integer): after ANY history from ANY
   starting state the fields read back are the current state and the text is state_string of the current state ... *)
Theorem C16_history_trace : forall st ops,
  map rec_fields (trace st ops) = map state_fields (states st ops) /\
  map (t_nth 4) (trace st ops) = map state_string (states st ops).
Proof. intros st ops. split; [apply trace_fields|apply trace_text]. Qed.
(* ... and whenever the current state is inside the property (valid scale/precision, at most precision digits) the
   recorded text is dec_string of the CURRENT precision, scale and integer, has the regular shape, denotes exactly
   integer / 10^scale and parses back to the same integer -- no matter which calls and assignments came before. *)
Theorem C16_history_text : forall st0 ops k st r i,
  nth_error (states st0 ops) k = Some st -> nth_error (trace st0 ops) k = Some r ->
  dval st = Some i -> 0 <= dscale st <= dprec st -> Z.abs i < 10 ^ dprec st ->
  rec_fields r = state_fields st /\
  t_nth 4 r = TB (dec_string (dprec st) (dscale st) i) /\
  shape_ok (dec_string (dprec st) (dscale st) i) = true /\
  value_is (dec_string (dprec st) (dscale st) i) i (dscale st) = true /\
  set_string (dprec st) (dscale st) (dec_string (dprec st) (dscale st) i) = Ok i.
Proof. exact history_property. Qed.
(* formatting and reading change nothing; assignments change exactly the assigned field *)
Theorem C16_history_readonly : forall st, next st OString = st /\ next st ORead = st.
Proof. exact next_readonly. Qed.
Theorem C16_history_assign : forall st p s,
  next st (OPrec p) = mk_dstate p (dscale st) (dval st) /\
  next st (OScale s) = mk_dstate (dprec st) s (dval st) /\
  next st (OBoth p s) = mk_dstate p s (dval st).
Proof. exact next_assign. Qed.
(* the specification predicate for histories (Spec.hist_ok: judges every step from the documented meaning of the
   operations and the property, independently of Model.step) accepts the model's trace of every well-formed history *)
Theorem C16_history_spec_of_model : forall i, wf_hist i -> spec 5 i (run 5 i) = true.
Proof. exact spec_run_5. Qed.

(* non-vacuity and corner cases *)
(* NewDecimal(18,0); SetInt64(12345); String; Precision, Scale = 10, 2; String: "12345.0" then "123.45" *)
Example C16_ex_history :
  map (t_nth 4) (trace (mk_dstate 18 0 (Some 0)) [OSetInt64 12345; OString; OBoth 10 2; OString])
  = [TB [49; 50; 51; 52; 53; 46; 48]; TB [49; 50; 51; 52; 53; 46; 48]; TB [49; 50; 51; 46; 52; 53]; TB [49; 50; 51; 46; 52; 53]]
  /\ states (mk_dstate 18 0 (Some 0)) [OSetInt64 12345; OString; OBoth 10 2; OString]
  = [mk_dstate 18 0 (Some 12345); mk_dstate 18 0 (Some 12345); mk_dstate 10 2 (Some 12345); mk_dstate 10 2 (Some 12345)].
Proof. vm_compute. split; reflexivity. Qed.
(* the specification rejects the stale text: after the assignment the object reports (10, 2, 12345) but still prints "12345.0" *)
Example C16_ex_history_stale :
  spec 5 (TL [TI 0; TI 18; TI 0; TL [TL [TI 2; TI 12345]; TL [TI 0]; TL [TI 7; TI 10; TI 2]]])
         (TL [TI 0; TL [TL [TI 0; TI 18; TI 0; TI 12345; TB [49; 50; 51; 52; 53; 46; 48]; TI 1];
                        TL [TB [49; 50; 51; 52; 53; 46; 48]; TI 18; TI 0; TI 12345; TB [49; 50; 51; 52; 53; 46; 48]; TI 1];
                        TL [TI 0; TI 10; TI 2; TI 12345; TB [49; 50; 51; 52; 53; 46; 48]; TI 0]]]) = false
  /\ wf_hist (TL [TI 0; TI 18; TI 0; TL [TL [TI 2; TI 12345]; TL [TI 0]; TL [TI 7; TI 10; TI 2]]]).
Proof. split; [vm_compute; reflexivity|]. split; [left; reflexivity|]. vm_compute. intros [H|[H|[H|H]]]; (discriminate H || exact H). Qed.
(* a struct literal has no integer: it prints "<nil>" until SetString gives it one; scale > precision makes String panic *)
Example C16_ex_history_nil :
  map (t_nth 4) (trace (mk_dstate 5 2 None) [OString; OSetString [49; 46; 53]; OScale 6])
  = [TB [60; 110; 105; 108; 62]; TB [49; 46; 53]; TI (-1)].
Proof. vm_compute. reflexivity. Qed.

Example C16_ex_string : dec_string 5 2 (-12345) = [45; 49; 50; 51; 46; 52; 53]            (* "-123.45" *)
  /\ dec_string 5 0 5 = [53; 46; 48] /\ dec_string 5 5 (-5) = [45; 48; 46; 48; 48; 48; 48; 53]  (* "5.0", "-0.00005" *)
  /\ dec_string 38 19 (10 ^ 38 - 1) = repeat 57 19 ++ [46] ++ repeat 57 19.
Proof. vm_compute. repeat split. Qed.
Example C16_ex_precision0 : dec_string 0 0 0 = [48; 46; 48] /\ set_string 0 0 [48; 46; 48] = Ok 0 /\ set_string 0 0 [49] = Err.
Proof. vm_compute. repeat split. Qed.
Example C16_ex_parse : set_string 5 2 [32; 43; 49; 46; 53; 48; 48; 32] = Ok 150              (* " +1.500 " *)
  /\ set_string 5 2 [49; 46; 50; 51; 52] = Err                                                (* "1.234" *)
  /\ set_string 2 0 [49; 50; 51; 52] = Err                                                    (* "1234" *)
  /\ set_string 5 2 [49; 46; 50; 46; 51] = Err                                                (* "1.2.3" *)
  /\ set_string 5 2 [46; 45; 53] = Err                                                        (* ".-5" *)
  /\ set_string 5 0 [53; 46; 48] = Ok 5.                                                      (* "5.0" at scale 0 *)
Proof. vm_compute. repeat split. Qed.
Example C16_ex_numeral : parse_numeral [45; 48; 46; 50; 53] = Some {| nneg := true; ipart := [48]; fpart := [50; 53] |}
  /\ repr 5 2 {| nneg := true; ipart := [48]; fpart := [50; 53] |} = Some (-25)
  /\ repr 5 1 {| nneg := true; ipart := [48]; fpart := [50; 53] |} = None
  /\ parse_numeral [46; 45; 53] = None /\ parse_numeral [] = None /\ parse_numeral [46] = None.
Proof. vm_compute. repeat split. Qed.

Print Assumptions C16_roundtrip.
Print Assumptions C16_roundtrip_new.
Print Assumptions C16_shape.
Print Assumptions C16_value.
Print Assumptions C16_value_Q.
Print Assumptions C16_parse_all.
Print Assumptions C16_parse_exact.
Print Assumptions C16_parse_unrepresentable.
Print Assumptions C16_parse_junk.
Print Assumptions C16_parse_sound.
Print Assumptions C16_repr_iff.
Print Assumptions C16_written_point.
Print Assumptions C16_written_int.
Print Assumptions C16_written_toofrac.
Print Assumptions C16_two_points.
Print Assumptions C16_sanity.
Print Assumptions C16_sanity_spec.
Print Assumptions C16_spec_of_model.
Print Assumptions C16_history_trace.
Print Assumptions C16_history_text.
Print Assumptions C16_history_readonly.
Print Assumptions C16_history_assign.
Print Assumptions C16_history_spec_of_model.
