(* placeholder while the proofs are being written *)
From Coq Require Import ZArith.
From V Require Import C16.Model C16.Spec.
Open Scope Z_scope.
Example C16_placeholder : dec_string 5 2 (-12345) = [45; 49; 50; 51; 46; 52; 53]%Z.
Proof. vm_compute. reflexivity. Qed.
Print Assumptions C16_placeholder.
