(* Parser combinators used by every package / field model, one combinator call per read site
   of the Go code.  Outcome classes are the ones the channel distinguishes:
     POk a rest | PNeb (ErrNotEnoughBytes: retry later) | PErr e (parse error) | PPanic.
   [streamable] is the contract between a parser and the channel's parse-or-rollback loop
   (properties C02, C07, C10): it is proved once per combinator and holds for everything built
   from the combinators. *)
From Coq Require Import ZArith List Bool Lia.
Import ListNotations.
From V Require Import Base.Bytes Base.BytesFacts.
Open Scope Z_scope.

Inductive pres (A : Type) : Type :=
| POk (a : A) (rest : bytes)
| PNeb
| PErr (e : Z) (rest : bytes)      (* parse error, decided after consuming the input up to rest *)
| PPanic.
Arguments POk {A}. Arguments PNeb {A}. Arguments PErr {A}. Arguments PPanic {A}.

Definition parser (A : Type) := bytes -> pres A.

Definition ret {A} (a : A) : parser A := fun s => POk a s.
Definition fail {A} (e : Z) : parser A := fun s => PErr e s.
Definition bind {A B} (p : parser A) (f : A -> parser B) : parser B :=
  fun s => match p s with POk a r => f a r | PNeb => PNeb | PErr e r => PErr e r | PPanic => PPanic end.
Definition pmap {A B} (f : A -> B) (p : parser A) : parser B := bind p (fun a => ret (f a)).
Notation "'let*' x ':=' p 'in' q" := (bind p (fun x => q)) (at level 200, x name, p at level 100, q at level 200).

(* ch.Bytes(n) / ch.String(n) at a site that maps every error to ErrNotEnoughBytes.
   A negative n (a declared length minus a constant) is "cannot read n bytes" -> also mapped. *)
Definition take (n : Z) : parser bytes :=
  fun s => if n <? 0 then PNeb else if zlen s <? n then PNeb else POk (ztake n s) (zdrop n s).

Definition u8 : parser Z := pmap le_of_bytes (take 1).
Definition u16 : parser Z := pmap le_of_bytes (take 2).
Definition u32 : parser Z := pmap le_of_bytes (take 4).
Definition u64 : parser Z := pmap le_of_bytes (take 8).
Definition signed (bits v : Z) : Z := if v <? 2 ^ (bits - 1) then v else v - 2 ^ bits.
Definition i8 : parser Z := pmap (signed 8) u8.
Definition i16 : parser Z := pmap (signed 16) u16.
Definition i32 : parser Z := pmap (signed 32) u32.
Definition i64 : parser Z := pmap (signed 64) u64.

(* run p and report how many bytes it consumed (the n += ... accounting of the Go readers) *)
Definition counted {A} (p : parser A) : parser (A * Z) :=
  fun s => match p s with
           | POk a r => POk (a, zlen s - zlen r) r
           | PNeb => PNeb | PErr e r => PErr e r | PPanic => PPanic
           end.

(* n repetitions *)
Fixpoint repeat_n {A} (n : nat) (p : parser A) : parser (list A) :=
  match n with
  | O => ret []
  | S k => let* a := p in let* r := repeat_n k p in ret (a :: r)
  end.

(* ------------------------------------------------------------------ streamability *)
Definition sprefix (c' c : bytes) : Prop := exists t, t <> [] /\ c = c' ++ t.

Record streamable {A} (p : parser A) : Prop := {
  st_ok  : forall s a r, p s = POk a r ->
           exists c, s = c ++ r /\ (forall r', p (c ++ r') = POk a r') /\ (forall c', sprefix c' c -> p c' = PNeb);
  st_err : forall s e r, p s = PErr e r ->
           exists c, s = c ++ r /\ (forall r', p (c ++ r') = PErr e r') /\ (forall c', sprefix c' c -> p c' = PNeb);
  st_neb : forall s, p s = PNeb -> forall s' t, s = s' ++ t -> p s' = PNeb;
  st_nopanic : forall s, p s <> PPanic }.

Lemma sprefix_nil_absurd (c' : bytes) : ~ sprefix c' [].
Proof. intros [t [Ht E]]. destruct c'; destruct t; simpl in E; congruence. Qed.

Lemma streamable_ret A (a : A) : streamable (ret a).
Proof.
  split; unfold ret; intros; try congruence.
  - inversion H; subst. exists []. split; [reflexivity|]. split; [reflexivity|].
    intros c' Hc. exfalso. exact (sprefix_nil_absurd c' Hc).
Qed.

Lemma streamable_fail A e : streamable (@fail A e).
Proof.
  split; unfold fail; intros; try congruence.
  - inversion H; subst. exists []. split; [reflexivity|]. split; [reflexivity|].
    intros c' Hc. exfalso. exact (sprefix_nil_absurd c' Hc).
Qed.

Lemma streamable_take n : streamable (take n).
Proof.
  split; unfold take; intros.
  - destruct (Z.ltb_spec n 0) as [Hneg|Hnn]; [congruence|].
    destruct (Z.ltb_spec (zlen s) n) as [Hlt|Hge]; [congruence|]. inversion H; subst.
    exists (ztake n s). split; [symmetry; apply ztake_zdrop|]. split.
    + intros r'. assert (Hl : zlen (ztake n s) = n) by (apply zlen_ztake; lia).
      rewrite zlen_app, Hl. pose proof (zlen_nonneg r').
      replace (n + zlen r' <? n) with false by (symmetry; apply Z.ltb_ge; lia).
      rewrite <- Hl at 1 3. rewrite ztake_app_exact, zdrop_app_exact. reflexivity.
    + intros c' [t [Ht E]]. assert (Hl : zlen (ztake n s) = n) by (apply zlen_ztake; lia).
      rewrite E, zlen_app in Hl. destruct t as [|x t]; [congruence|]. rewrite zlen_cons in Hl.
      pose proof (zlen_nonneg t). replace (zlen c' <? n) with true by (symmetry; apply Z.ltb_lt; lia). reflexivity.
  - destruct (n <? 0); [congruence|]. destruct (zlen s <? n); congruence.
  - destruct (Z.ltb_spec n 0) as [Hneg|Hnn]; [reflexivity|].
    destruct (Z.ltb_spec (zlen s) n) as [Hlt|Hge]; [|congruence]. subst s. rewrite zlen_app in Hlt.
    pose proof (zlen_nonneg t). replace (zlen s' <? n) with true by (symmetry; apply Z.ltb_lt; lia). reflexivity.
  - destruct (n <? 0); [congruence|]. destruct (zlen s <? n); congruence.
Qed.

Lemma sprefix_app_inv (c' a b : bytes) : sprefix c' (a ++ b) ->
  sprefix c' a \/ (c' = a /\ b <> []) \/ exists d, c' = a ++ d /\ sprefix d b.
Proof.
  intros [t [Ht E]]. revert c' E. induction a as [|x a IH]; simpl; intros c' E.
  - destruct c' as [|y c'].
    + right; left. split; [reflexivity|]. simpl in E. congruence.
    + right; right. exists (y :: c'). split; [reflexivity|]. exists t; auto.
  - destruct c' as [|y c']; simpl in E.
    + left. exists (x :: a). split; [congruence|reflexivity].
    + inversion E as [[Exy E']]; subst. destruct (IH c' E') as [[t' [Ht' Et']]|[[E1 E2]|[d [E1 E2]]]].
      * left. exists t'. split; [auto|]. simpl. congruence.
      * right; left. subst; auto.
      * right; right. exists d. subst; auto.
Qed.

Lemma split_app_cases (c1 rest s' t : bytes) : c1 ++ rest = s' ++ t ->
  (exists u, s' = c1 ++ u /\ rest = u ++ t) \/ sprefix s' c1.
Proof.
  revert s'. induction c1 as [|x c1 IH]; simpl; intros s' E.
  - left. exists s'. auto.
  - destruct s' as [|y s']; simpl in E.
    + right. exists (x :: c1). split; [congruence|reflexivity].
    + inversion E as [[Exy E']]; subst. destruct (IH _ E') as [[u [E1 E2]]|[t' [Ht' Et']]].
      * left. exists u. subst; auto.
      * right. exists t'. split; [auto|]. simpl; congruence.
Qed.

Lemma streamable_bind A B (p : parser A) (f : A -> parser B) :
  streamable p -> (forall a, streamable (f a)) -> streamable (bind p f).
Proof.
  intros Hp Hf. split; unfold bind.
  - intros s b r H. destruct (p s) as [a r0| |e0 r0|] eqn:Ep; try congruence.
    destruct (st_ok _ Hp _ _ _ Ep) as [c1 [E1 [K1 N1]]].
    destruct (st_ok _ (Hf a) _ _ _ H) as [c2 [E2 [K2 N2]]].
    exists (c1 ++ c2). split; [subst; rewrite app_assoc; reflexivity|]. split.
    + intros r'. rewrite <- app_assoc, K1. apply K2.
    + intros c' Hc. destruct (sprefix_app_inv _ _ _ Hc) as [Hs|[[Hs Hn]|[d [Hd Hs]]]].
      * rewrite (N1 _ Hs). reflexivity.
      * subst c'. rewrite <- (app_nil_r c1), K1. apply N2. exists c2. split; [auto|reflexivity].
      * subst c'. rewrite K1. apply N2; auto.
  - intros s e r H. destruct (p s) as [a r0| |e0 r0|] eqn:Ep; try congruence.
    + destruct (st_ok _ Hp _ _ _ Ep) as [c1 [E1 [K1 N1]]].
      destruct (st_err _ (Hf a) _ _ _ H) as [c2 [E2 [K2 N2]]].
      exists (c1 ++ c2). split; [subst; rewrite app_assoc; reflexivity|]. split.
      * intros r'. rewrite <- app_assoc, K1. apply K2.
      * intros c' Hc. destruct (sprefix_app_inv _ _ _ Hc) as [Hs|[[Hs Hn]|[d [Hd Hs]]]].
        -- rewrite (N1 _ Hs). reflexivity.
        -- subst c'. rewrite <- (app_nil_r c1), K1. apply N2. exists c2. split; [auto|reflexivity].
        -- subst c'. rewrite K1. apply N2; auto.
    + inversion H; subst. destruct (st_err _ Hp _ _ _ Ep) as [c1 [E1 [K1 N1]]].
      exists c1. split; [auto|]. split.
      * intros r'. rewrite K1. reflexivity.
      * intros c' Hc. rewrite (N1 _ Hc). reflexivity.
  - intros s H s' t Est. destruct (p s) as [a r0| |e0 r0|] eqn:Ep; try congruence.
    + destruct (st_ok _ Hp _ _ _ Ep) as [c1 [E1 [K1 N1]]]. rewrite E1 in Est.
      destruct (split_app_cases _ _ _ _ Est) as [[u [E3 E2]]|Hs].
      * subst s'. rewrite K1. eapply (st_neb _ (Hf a)); eauto.
      * rewrite (N1 _ Hs). reflexivity.
    + rewrite (st_neb _ Hp _ Ep _ _ Est). reflexivity.
  - intros s H. destruct (p s) as [a r0| |e0 r0|] eqn:Ep; try congruence.
    + apply (st_nopanic _ (Hf a)) in H. auto.
    + apply (st_nopanic _ Hp) in Ep. auto.
Qed.

Lemma streamable_pmap A B (f : A -> B) p : streamable p -> streamable (pmap f p).
Proof. intros H. unfold pmap. apply streamable_bind; [exact H|]. intros a. apply streamable_ret. Qed.

Lemma streamable_u8 : streamable u8.   Proof. apply streamable_pmap, streamable_take. Qed.
Lemma streamable_u16 : streamable u16. Proof. apply streamable_pmap, streamable_take. Qed.
Lemma streamable_u32 : streamable u32. Proof. apply streamable_pmap, streamable_take. Qed.
Lemma streamable_u64 : streamable u64. Proof. apply streamable_pmap, streamable_take. Qed.
Lemma streamable_i8 : streamable i8.   Proof. apply streamable_pmap, streamable_u8. Qed.
Lemma streamable_i16 : streamable i16. Proof. apply streamable_pmap, streamable_u16. Qed.
Lemma streamable_i32 : streamable i32. Proof. apply streamable_pmap, streamable_u32. Qed.
Lemma streamable_i64 : streamable i64. Proof. apply streamable_pmap, streamable_u64. Qed.

Lemma streamable_repeat_n A (p : parser A) n : streamable p -> streamable (repeat_n n p).
Proof.
  intros Hp. induction n as [|n IH]; cbn [repeat_n]; [apply streamable_ret|].
  apply streamable_bind; [exact Hp|]. intros a. apply streamable_bind; [exact IH|]. intros r. apply streamable_ret.
Qed.

(* an extensional view is enough: parsers that agree pointwise are streamable together *)
Lemma streamable_ext A (p q : parser A) : (forall s, p s = q s) -> streamable p -> streamable q.
Proof.
  intros E H. split.
  - intros s a r Hq. rewrite <- E in Hq. destruct (st_ok _ H _ _ _ Hq) as [c [E1 [K N]]].
    exists c. split; [exact E1|]. split; [intros r'; rewrite <- E; apply K|intros c' Hc; rewrite <- E; apply N; exact Hc].
  - intros s e r Hq. rewrite <- E in Hq. destruct (st_err _ H _ _ _ Hq) as [c [E1 [K N]]].
    exists c. split; [exact E1|]. split; [intros r'; rewrite <- E; apply K|intros c' Hc; rewrite <- E; apply N; exact Hc].
  - intros s Hq s' t Es. rewrite <- E in Hq. rewrite <- E. eapply (st_neb _ H); eauto.
  - intros s Hq. rewrite <- E in Hq. exact (st_nopanic _ H _ Hq).
Qed.

(* counted: the consumed prefix has a length that does not depend on what follows *)
Lemma streamable_counted A (p : parser A) : streamable p -> streamable (counted p).
Proof.
  intros Hp. split; unfold counted.
  - intros s x r H. destruct (p s) as [a r0| |e0 r0|] eqn:Ep; try congruence. inversion H; subst.
    destruct (st_ok _ Hp _ _ _ Ep) as [c [E1 [K N]]]. exists c. split; [exact E1|]. split.
    + intros r'. rewrite K. rewrite E1, !zlen_app. f_equal. f_equal. lia.
    + intros c' Hc. rewrite (N _ Hc). reflexivity.
  - intros s e r H. destruct (p s) as [a r0| |e0 r0|] eqn:Ep; try congruence. inversion H; subst.
    destruct (st_err _ Hp _ _ _ Ep) as [c [E1 [K N]]]. exists c. split; [exact E1|]. split.
    + intros r'. rewrite K. reflexivity.
    + intros c' Hc. rewrite (N _ Hc). reflexivity.
  - intros s H s' t Es. destruct (p s) as [a r0| |e0 r0|] eqn:Ep; try congruence.
    rewrite (st_neb _ Hp _ Ep _ _ Es). reflexivity.
  - intros s H. destruct (p s) as [a r0| |e0 r0|] eqn:Ep; try congruence. exact (st_nopanic _ Hp _ Ep).
Qed.

(* consequences used by the channel proofs *)
Lemma streamable_progress_or_empty A (p : parser A) s a r : streamable p -> p s = POk a r -> zlen r <= zlen s.
Proof.
  intros Hp H. destruct (st_ok _ Hp _ _ _ H) as [c [E _]]. rewrite E, zlen_app. pose proof (zlen_nonneg c). lia.
Qed.

Ltac streamable_tac :=
  repeat first
    [ apply streamable_ret | apply streamable_fail | apply streamable_take
    | apply streamable_u8 | apply streamable_u16 | apply streamable_u32 | apply streamable_u64
    | apply streamable_i8 | apply streamable_i16 | apply streamable_i32 | apply streamable_i64
    | apply streamable_pmap | apply streamable_counted | apply streamable_repeat_n
    | (apply streamable_bind; [|intros ?])
    | match goal with |- streamable (if ?c then _ else _) => destruct c end
    | match goal with |- streamable (match ?x with _ => _ end) => destruct x end
    | assumption ].
