(* Exchange format between the implementation harness and the executable
   models: a small S-expression tree.  The OCaml driver parses
     123 / -5            -> TI z
     #68656c             -> TB [104;101;108]   (hex bytes; "#" alone = empty)
     $61.e9.20ac         -> TB [97;233;8364]   (hex code points; "$" alone = empty)
     ( t1 t2 ... )       -> TL [t1;t2;...]
   No proofs live in this file. *)
From Coq Require Import ZArith List Bool.
Import ListNotations.
Open Scope Z_scope.

Inductive tree : Type :=
| TI (z : Z)
| TB (bs : list Z)
| TL (l : list tree).

Fixpoint list_Z_eqb (a b : list Z) : bool :=
  match a, b with
  | [], [] => true
  | x :: a', y :: b' => Z.eqb x y && list_Z_eqb a' b'
  | _, _ => false
  end.

Fixpoint tree_eqb (a b : tree) : bool :=
  match a, b with
  | TI x, TI y => Z.eqb x y
  | TB x, TB y => list_Z_eqb x y
  | TL x, TL y =>
      (fix go (x y : list tree) : bool :=
         match x, y with
         | [], [] => true
         | s :: x', t :: y' => tree_eqb s t && go x' y'
         | _, _ => false
         end) x y
  | _, _ => false
  end.

(* decoding helpers used by the per-property dispatch functions *)
Definition tbad : tree := TL [TI (-999999)].

Definition t_int (t : tree) : Z := match t with TI z => z | _ => 0 end.
Definition t_bytes (t : tree) : list Z := match t with TB b => b | _ => [] end.
Definition t_list (t : tree) : list tree := match t with TL l => l | _ => [] end.
Definition t_bool (t : tree) : bool := match t with TI 0 => false | TI _ => true | _ => false end.
Definition of_bool (b : bool) : tree := TI (if b then 1 else 0).
Definition t_nth (n : nat) (t : tree) : tree := nth n (t_list t) tbad.
Definition of_option {A} (f : A -> tree) (o : option A) : tree :=
  match o with Some a => TL [f a] | None => TL [] end.
