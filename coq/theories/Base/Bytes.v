(* Byte strings as list Z, little/big endian integers, slices with Go's bounds semantics.
   No proofs here (lemmas are in Base/BytesFacts.v). *)
From Coq Require Import ZArith List Bool.
Import ListNotations.
Open Scope Z_scope.

Definition bytes := list Z.
Definition byte_ok (b : Z) : bool := (0 <=? b) && (b <? 256).
Definition bytes_ok (bs : bytes) : bool := forallb byte_ok bs.

Definition zlen {A} (l : list A) : Z := Z.of_nat (length l).
Definition ztake {A} (n : Z) (l : list A) : list A := firstn (Z.to_nat n) l.
Definition zdrop {A} (n : Z) (l : list A) : list A := skipn (Z.to_nat n) l.
(* l[a:b] for 0 <= a <= b <= len l (callers check the bounds) *)
Definition zslice {A} (a b : Z) (l : list A) : list A := ztake (b - a) (zdrop a l).
Definition znth {A} (n : Z) (l : list A) (d : A) : A := nth (Z.to_nat n) l d.

Fixpoint le_of_bytes (bs : bytes) : Z :=
  match bs with [] => 0 | b :: r => b + 256 * le_of_bytes r end.
Fixpoint bytes_of_le (n : nat) (v : Z) : bytes :=
  match n with O => [] | S k => (v mod 256) :: bytes_of_le k (v / 256) end.
Definition be_of_bytes (bs : bytes) : Z := le_of_bytes (rev bs).
Definition bytes_of_be (n : nat) (v : Z) : bytes := rev (bytes_of_le n v).

Definition zeros (n : Z) : bytes := repeat 0 (Z.to_nat n).
(* overwrite l from index i with src (copy(l[i:], src)), length preserved; src must fit *)
Definition zoverwrite (i : Z) (src l : bytes) : bytes :=
  ztake i l ++ src ++ zdrop (i + zlen src) l.
Definition zsum (l : list Z) : Z := fold_right Z.add 0 l.
