(* Finite integer ranges and the lemma lifting a boolean sweep to a universally
   quantified statement (the bound is always visible in the theorem using it). *)
From Coq Require Import ZArith List Bool Lia.
Import ListNotations.
Open Scope Z_scope.

Fixpoint zrange_n (lo : Z) (n : nat) : list Z :=
  match n with O => [] | S k => lo :: zrange_n (lo + 1) k end.

Definition zrange (lo hi : Z) : list Z := zrange_n lo (Z.to_nat (hi - lo + 1)).

Lemma zrange_n_In : forall n lo x, lo <= x < lo + Z.of_nat n -> In x (zrange_n lo n).
Proof.
  induction n as [|n IH]; intros lo x Hx.
  - simpl in Hx. lia.
  - cbn [zrange_n]. destruct (Z.eq_dec lo x) as [E|NE].
    + left; exact E.
    + right. apply IH. lia.
Qed.

Lemma zrange_In : forall lo hi x, lo <= x <= hi -> In x (zrange lo hi).
Proof.
  intros lo hi x Hx. unfold zrange. apply zrange_n_In. lia.
Qed.

Lemma zrange_n_In_inv : forall n lo x, In x (zrange_n lo n) -> lo <= x < lo + Z.of_nat n.
Proof.
  induction n as [|n IH]; intros lo x Hx.
  - destruct Hx.
  - cbn [zrange_n] in Hx. destruct Hx as [E|Hx].
    + lia.
    + apply IH in Hx. lia.
Qed.

Lemma forallb_zrange : forall (p : Z -> bool) lo hi,
  forallb p (zrange lo hi) = true -> forall x, lo <= x <= hi -> p x = true.
Proof.
  intros p lo hi H x Hx. rewrite forallb_forall in H. apply H. apply zrange_In. exact Hx.
Qed.
