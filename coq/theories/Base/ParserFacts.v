(* Step lemmas for running a parser on the output of the matching writer:
   used by every round-trip proof  dec (enc x ++ r) = POk x r. *)
From Coq Require Import ZArith List Bool Lia.
Import ListNotations.
From V Require Import Base.Bytes Base.BytesFacts Base.Parser.
Open Scope Z_scope.

Lemma bind_ok {A B} (p : parser A) (f : A -> parser B) s a r : p s = POk a r -> bind p f s = f a r.
Proof. intros H. unfold bind. rewrite H. reflexivity. Qed.

Lemma pmap_ok {A B} (g : A -> B) (p : parser A) s a r : p s = POk a r -> pmap g p s = POk (g a) r.
Proof. intros H. unfold pmap. rewrite (bind_ok _ _ _ _ _ H). reflexivity. Qed.

Lemma take_app (bs r : bytes) : take (zlen bs) (bs ++ r) = POk bs r.
Proof.
  unfold take. pose proof (zlen_nonneg bs). pose proof (zlen_nonneg r).
  replace (zlen bs <? 0) with false by (symmetry; apply Z.ltb_ge; lia).
  rewrite zlen_app. replace (zlen bs + zlen r <? zlen bs) with false by (symmetry; apply Z.ltb_ge; lia).
  rewrite ztake_app_exact, zdrop_app_exact. reflexivity.
Qed.

Lemma take_app_n n (bs r : bytes) : zlen bs = n -> take n (bs ++ r) = POk bs r.
Proof. intros <-. apply take_app. Qed.

Lemma take_zero s : take 0 s = POk [] s.
Proof. unfold take. cbn [Z.ltb Z.compare]. pose proof (zlen_nonneg s). replace (zlen s <? 0) with false by (symmetry; apply Z.ltb_ge; lia). reflexivity. Qed.

(* little endian integers *)
Lemma zlen_bytes_of_le n v : zlen (bytes_of_le n v) = Z.of_nat n.
Proof.
  revert v. induction n as [|n IH]; intros v; [reflexivity|]. cbn [bytes_of_le]. rewrite zlen_cons, IH. lia.
Qed.

Lemma le_of_bytes_of_le n v : 0 <= v < 256 ^ Z.of_nat n -> le_of_bytes (bytes_of_le n v) = v.
Proof.
  revert v. induction n as [|n IH]; intros v Hv.
  - cbn in *. lia.
  - cbn [bytes_of_le le_of_bytes]. rewrite IH.
    + pose proof (Z.div_mod v 256 ltac:(lia)). lia.
    + rewrite Nat2Z.inj_succ, Z.pow_succ_r in Hv by lia. split; [apply Z.div_pos; lia|apply Z.div_lt_upper_bound; lia].
Qed.

Lemma bytes_ok_of_le n v : bytes_ok (bytes_of_le n v) = true.
Proof.
  revert v. induction n as [|n IH]; intros v; [reflexivity|]. cbn [bytes_of_le bytes_ok forallb]. fold (bytes_ok (bytes_of_le n (v / 256))).
  rewrite IH. unfold byte_ok. pose proof (Z.mod_pos_bound v 256 ltac:(lia)).
  replace (0 <=? v mod 256) with true by (symmetry; apply Z.leb_le; lia).
  replace (v mod 256 <? 256) with true by (symmetry; apply Z.ltb_lt; lia). reflexivity.
Qed.

Lemma u8_enc v r : 0 <= v < 256 -> u8 (bytes_of_le 1 v ++ r) = POk v r.
Proof. intros H. unfold u8. rewrite (pmap_ok _ _ _ _ _ (take_app_n 1 _ r (zlen_bytes_of_le 1 v))). rewrite le_of_bytes_of_le by (cbn; lia). reflexivity. Qed.
Lemma u16_enc v r : 0 <= v < 65536 -> u16 (bytes_of_le 2 v ++ r) = POk v r.
Proof. intros H. unfold u16. rewrite (pmap_ok _ _ _ _ _ (take_app_n 2 _ r (zlen_bytes_of_le 2 v))). rewrite le_of_bytes_of_le by (cbn; lia). reflexivity. Qed.
Lemma u32_enc v r : 0 <= v < 4294967296 -> u32 (bytes_of_le 4 v ++ r) = POk v r.
Proof. intros H. unfold u32. rewrite (pmap_ok _ _ _ _ _ (take_app_n 4 _ r (zlen_bytes_of_le 4 v))). rewrite le_of_bytes_of_le by (cbn; lia). reflexivity. Qed.
Lemma u64_enc v r : 0 <= v < 18446744073709551616 -> u64 (bytes_of_le 8 v ++ r) = POk v r.
Proof. intros H. unfold u64. rewrite (pmap_ok _ _ _ _ _ (take_app_n 8 _ r (zlen_bytes_of_le 8 v))). rewrite le_of_bytes_of_le by (cbn; lia). reflexivity. Qed.

(* two's complement: the writers convert intN to uintN, i.e. v mod 2^N *)
Lemma signed_mod bits v : 0 < bits -> - 2 ^ (bits - 1) <= v < 2 ^ (bits - 1) -> signed bits (v mod 2 ^ bits) = v.
Proof.
  intros Hb Hv. unfold signed.
  assert (Hp : 2 ^ bits = 2 * 2 ^ (bits - 1)) by (rewrite <- Z.pow_succ_r by lia; f_equal; lia).
  assert (Hpos0 : 0 < 2 ^ (bits - 1)) by (apply Z.pow_pos_nonneg; lia).
  destruct (Z_lt_le_dec v 0) as [Hneg|Hpos].
  - assert (E : v mod 2 ^ bits = v + 2 ^ bits).
    { symmetry. apply (Z.mod_unique _ _ (-1)); [left|]; lia. }
    rewrite E. destruct (Z.ltb_spec (v + 2 ^ bits) (2 ^ (bits - 1))); lia.
  - rewrite Z.mod_small by lia. destruct (Z.ltb_spec v (2 ^ (bits - 1))); lia.
Qed.

Lemma i32_enc v r : -2147483648 <= v < 2147483648 -> i32 (bytes_of_le 4 (v mod 4294967296) ++ r) = POk v r.
Proof.
  intros H. unfold i32. pose proof (Z.mod_pos_bound v 4294967296 ltac:(lia)) as Hm.
  rewrite (pmap_ok _ _ _ _ _ (u32_enc (v mod 4294967296) r Hm)). f_equal. change 4294967296 with (2 ^ 32). apply (signed_mod 32 v); [lia|]. change (2 ^ (32 - 1)) with 2147483648. lia.
Qed.
Lemma i16_enc v r : -32768 <= v < 32768 -> i16 (bytes_of_le 2 (v mod 65536) ++ r) = POk v r.
Proof.
  intros H. unfold i16. pose proof (Z.mod_pos_bound v 65536 ltac:(lia)) as Hm.
  rewrite (pmap_ok _ _ _ _ _ (u16_enc (v mod 65536) r Hm)). f_equal. change 65536 with (2 ^ 16). apply (signed_mod 16 v); [lia|]. change (2 ^ (16 - 1)) with 32768. lia.
Qed.
Lemma i8_enc v r : -128 <= v < 128 -> i8 (bytes_of_le 1 (v mod 256) ++ r) = POk v r.
Proof.
  intros H. unfold i8. pose proof (Z.mod_pos_bound v 256 ltac:(lia)) as Hm.
  rewrite (pmap_ok _ _ _ _ _ (u8_enc (v mod 256) r Hm)). f_equal. change 256 with (2 ^ 8). apply (signed_mod 8 v); [lia|]. change (2 ^ (8 - 1)) with 128. lia.
Qed.
Lemma i64_enc v r : -9223372036854775808 <= v < 9223372036854775808 ->
  i64 (bytes_of_le 8 (v mod 18446744073709551616) ++ r) = POk v r.
Proof.
  intros H. unfold i64. pose proof (Z.mod_pos_bound v 18446744073709551616 ltac:(lia)) as Hm.
  rewrite (pmap_ok _ _ _ _ _ (u64_enc (v mod 18446744073709551616) r Hm)). f_equal. change 18446744073709551616 with (2 ^ 64). apply (signed_mod 64 v); [lia|]. change (2 ^ (64 - 1)) with 9223372036854775808. lia.
Qed.

Lemma counted_ok {A} (p : parser A) c r a : p (c ++ r) = POk a r -> counted p (c ++ r) = POk (a, zlen c) r.
Proof. intros H. unfold counted. rewrite H, zlen_app. f_equal. f_equal. lia. Qed.

(* a list of items, each written by [e] and read back by [p] *)
Lemma repeat_n_enc {A} (p : parser A) (e : A -> bytes) (l : list A) r :
  (forall x r', In x l -> p (e x ++ r') = POk x r') ->
  repeat_n (length l) p (concat (map e l) ++ r) = POk l r.
Proof.
  induction l as [|x l IH]; intros H; [reflexivity|].
  cbn [length repeat_n map concat]. rewrite <- app_assoc.
  rewrite (bind_ok _ _ _ _ _ (H x _ (or_introl eq_refl))).
  rewrite (bind_ok _ _ _ _ _ (IH (fun y r' Hy => H y r' (or_intror Hy)))). reflexivity.
Qed.

(* length-prefixed byte strings as the writers produce them: uintN(len) then the bytes *)
Definition lp8 (bs : bytes) : bytes := bytes_of_le 1 (zlen bs mod 256) ++ bs.
Definition lp16 (bs : bytes) : bytes := bytes_of_le 2 (zlen bs mod 65536) ++ bs.
Definition lp32 (bs : bytes) : bytes := bytes_of_le 4 (zlen bs mod 4294967296) ++ bs.
Definition p_lp8 : parser bytes := let* n := u8 in take n.
Definition p_lp16 : parser bytes := let* n := u16 in take n.
Definition p_lp32 : parser bytes := let* n := u32 in take n.

Lemma p_lp8_enc bs r : zlen bs < 256 -> p_lp8 (lp8 bs ++ r) = POk bs r.
Proof.
  intros H. pose proof (zlen_nonneg bs). unfold p_lp8, lp8. rewrite <- app_assoc, Z.mod_small by lia.
  assert (Hr : 0 <= zlen bs < 256) by lia.
  rewrite (bind_ok _ _ _ _ _ (u8_enc (zlen bs) (bs ++ r) Hr)). apply take_app.
Qed.
Lemma p_lp16_enc bs r : zlen bs < 65536 -> p_lp16 (lp16 bs ++ r) = POk bs r.
Proof.
  intros H. pose proof (zlen_nonneg bs). unfold p_lp16, lp16. rewrite <- app_assoc, Z.mod_small by lia.
  assert (Hr : 0 <= zlen bs < 65536) by lia.
  rewrite (bind_ok _ _ _ _ _ (u16_enc (zlen bs) (bs ++ r) Hr)). apply take_app.
Qed.
Lemma p_lp32_enc bs r : zlen bs < 4294967296 -> p_lp32 (lp32 bs ++ r) = POk bs r.
Proof.
  intros H. pose proof (zlen_nonneg bs). unfold p_lp32, lp32. rewrite <- app_assoc, Z.mod_small by lia.
  assert (Hr : 0 <= zlen bs < 4294967296) by lia.
  rewrite (bind_ok _ _ _ _ _ (u32_enc (zlen bs) (bs ++ r) Hr)). apply take_app.
Qed.
Lemma streamable_p_lp8 : streamable p_lp8.
Proof. unfold p_lp8. streamable_tac. Qed.
Lemma streamable_p_lp16 : streamable p_lp16.
Proof. unfold p_lp16. streamable_tac. Qed.
Lemma streamable_p_lp32 : streamable p_lp32.
Proof. unfold p_lp32. streamable_tac. Qed.
Lemma zlen_lp8 bs : zlen (lp8 bs) = 1 + zlen bs.
Proof. unfold lp8. rewrite zlen_app, zlen_bytes_of_le. lia. Qed.
Lemma zlen_lp16 bs : zlen (lp16 bs) = 2 + zlen bs.
Proof. unfold lp16. rewrite zlen_app, zlen_bytes_of_le. lia. Qed.
Lemma zlen_lp32 bs : zlen (lp32 bs) = 4 + zlen bs.
Proof. unfold lp32. rewrite zlen_app, zlen_bytes_of_le. lia. Qed.
