From Coq Require Import ZArith List Bool Lia.
Import ListNotations.
From V Require Import Base.Bytes.
Open Scope Z_scope.

Lemma zlen_nonneg {A} (l : list A) : 0 <= zlen l.
Proof. unfold zlen. lia. Qed.
Lemma zlen_nil {A} : zlen (@nil A) = 0.
Proof. reflexivity. Qed.
Lemma zlen_cons {A} (x : A) l : zlen (x :: l) = 1 + zlen l.
Proof. unfold zlen. cbn [length]. lia. Qed.
Lemma zlen_app {A} (a b : list A) : zlen (a ++ b) = zlen a + zlen b.
Proof. unfold zlen. rewrite app_length. lia. Qed.
Lemma zlen_zero_nil {A} (l : list A) : zlen l = 0 -> l = [].
Proof. destruct l; [reflexivity|]. rewrite zlen_cons. pose proof (zlen_nonneg l). lia. Qed.

Lemma ztake_zdrop {A} n (l : list A) : ztake n l ++ zdrop n l = l.
Proof. unfold ztake, zdrop. apply firstn_skipn. Qed.
Lemma ztake_all {A} n (l : list A) : zlen l <= n -> ztake n l = l.
Proof. intros H. unfold ztake. apply firstn_all2. unfold zlen in H. lia. Qed.
Lemma zdrop_all {A} n (l : list A) : zlen l <= n -> zdrop n l = [].
Proof. intros H. unfold zdrop. apply skipn_all2. unfold zlen in H. lia. Qed.
Lemma zdrop_nil {A} n : zdrop n (@nil A) = [].
Proof. unfold zdrop. destruct (Z.to_nat n); reflexivity. Qed.
Lemma ztake_nil {A} n : ztake n (@nil A) = [].
Proof. unfold ztake. destruct (Z.to_nat n); reflexivity. Qed.
Lemma zdrop_0 {A} (l : list A) : zdrop 0 l = l.
Proof. reflexivity. Qed.
Lemma zdrop_neg {A} n (l : list A) : n <= 0 -> zdrop n l = l.
Proof. intros H. unfold zdrop. replace (Z.to_nat n) with 0%nat by lia. reflexivity. Qed.
Lemma ztake_neg {A} n (l : list A) : n <= 0 -> ztake n l = [].
Proof. intros H. unfold ztake. replace (Z.to_nat n) with 0%nat by lia. reflexivity. Qed.
Lemma zlen_ztake {A} n (l : list A) : 0 <= n <= zlen l -> zlen (ztake n l) = n.
Proof. intros H. unfold ztake, zlen in *. rewrite firstn_length_le by lia. lia. Qed.
Lemma zlen_zdrop {A} n (l : list A) : 0 <= n <= zlen l -> zlen (zdrop n l) = zlen l - n.
Proof. intros H. unfold zdrop, zlen in *. rewrite skipn_length. lia. Qed.
Lemma zdrop_zdrop {A} a b (l : list A) : 0 <= a -> 0 <= b -> zdrop a (zdrop b l) = zdrop (a + b) l.
Proof.
  intros Ha Hb. unfold zdrop. replace (Z.to_nat (a + b)) with (Z.to_nat b + Z.to_nat a)%nat by lia.
  generalize (Z.to_nat a) as x. generalize (Z.to_nat b) as y. clear. intros y. revert l.
  induction y as [|y IH]; intros l x; [reflexivity|].
  destruct l as [|h l]; cbn [skipn Nat.add]; [destruct x; reflexivity|]. apply IH.
Qed.
Lemma zdrop_app_l {A} n (a b : list A) : 0 <= n <= zlen a -> zdrop n (a ++ b) = zdrop n a ++ b.
Proof.
  intros H. unfold zdrop, zlen in *. rewrite skipn_app.
  replace (Z.to_nat n - length a)%nat with 0%nat by lia. reflexivity.
Qed.
Lemma ztake_app_l {A} n (a b : list A) : 0 <= n <= zlen a -> ztake n (a ++ b) = ztake n a.
Proof.
  intros H. unfold ztake, zlen in *. rewrite firstn_app.
  replace (Z.to_nat n - length a)%nat with 0%nat by lia. cbn [firstn]. apply app_nil_r.
Qed.
Lemma ztake_app_exact {A} (a b : list A) : ztake (zlen a) (a ++ b) = a.
Proof.
  unfold ztake, zlen. rewrite Nat2Z.id, firstn_app, Nat.sub_diag, firstn_all. cbn [firstn]. apply app_nil_r.
Qed.
Lemma zdrop_app_exact {A} (a b : list A) : zdrop (zlen a) (a ++ b) = b.
Proof.
  unfold zdrop, zlen. rewrite Nat2Z.id, skipn_app, Nat.sub_diag, skipn_all. reflexivity.
Qed.
Lemma ztake_app_r {A} n (a b : list A) : zlen a <= n -> ztake n (a ++ b) = a ++ ztake (n - zlen a) b.
Proof.
  intros H. unfold ztake, zlen in *. rewrite firstn_app, firstn_all2 by lia. f_equal. f_equal. lia.
Qed.
Lemma zdrop_app_r {A} n (a b : list A) : zlen a <= n -> zdrop n (a ++ b) = zdrop (n - zlen a) b.
Proof.
  intros H. unfold zdrop, zlen in *. rewrite skipn_app, skipn_all2 by lia. cbn [app]. f_equal. lia.
Qed.

Lemma zdrop_cons_nth {A} i (l : list A) d : 0 <= i < zlen l -> zdrop i l = znth i l d :: zdrop (i + 1) l.
Proof.
  intros H. unfold zdrop, znth, zlen in *.
  replace (Z.to_nat (i + 1)) with (S (Z.to_nat i)) by lia.
  assert (Hn : (Z.to_nat i < length l)%nat) by lia. clear H.
  revert l Hn. generalize (Z.to_nat i) as n. induction n as [|n IH]; intros l Hn.
  - destruct l; [cbn in Hn; lia|]. reflexivity.
  - destruct l as [|x l]; [cbn in Hn; lia|]. cbn [skipn nth]. apply IH. cbn in Hn. lia.
Qed.

Lemma znth_app_l {A} i (a b : list A) d : 0 <= i < zlen a -> znth i (a ++ b) d = znth i a d.
Proof. intros H. unfold znth, zlen in *. apply app_nth1. lia. Qed.
Lemma znth_app_exact {A} (a : list A) x b d : znth (zlen a) (a ++ x :: b) d = x.
Proof. unfold znth, zlen. rewrite Nat2Z.id. rewrite app_nth2 by lia. rewrite Nat.sub_diag. reflexivity. Qed.
Lemma znth_out {A} i (l : list A) d : zlen l <= i -> znth i l d = d.
Proof. intros H. unfold znth, zlen in *. apply nth_overflow. lia. Qed.

Lemma zsum_app a b : zsum (a ++ b) = zsum a + zsum b.
Proof. induction a as [|x a IH]; cbn [app zsum fold_right] in *; [reflexivity|]. unfold zsum in *. lia. Qed.
Lemma zlen_concat {A} (ls : list (list A)) : zlen (concat ls) = zsum (map (@zlen A) ls).
Proof.
  induction ls as [|l ls IH]; [reflexivity|]. cbn [concat map]. rewrite zlen_app, IH. reflexivity.
Qed.
Lemma zlen_repeat {A} (x : A) n : zlen (repeat x n) = Z.of_nat n.
Proof. unfold zlen. rewrite repeat_length. reflexivity. Qed.
Lemma zlen_zeros n : 0 <= n -> zlen (zeros n) = n.
Proof. intros H. unfold zeros. rewrite zlen_repeat. lia. Qed.

Lemma zlen_zoverwrite i src l : 0 <= i -> i + zlen src <= zlen l -> zlen (zoverwrite i src l) = zlen l.
Proof.
  intros Hi Hl. pose proof (zlen_nonneg src). unfold zoverwrite.
  rewrite !zlen_app, zlen_ztake, zlen_zdrop by lia. lia.
Qed.
Lemma ztake_zoverwrite i src l : 0 <= i -> i + zlen src <= zlen l ->
  ztake (i + zlen src) (zoverwrite i src l) = ztake i l ++ src.
Proof.
  intros Hi Hl. pose proof (zlen_nonneg src). unfold zoverwrite.
  assert (E : zlen (ztake i l) = i) by (apply zlen_ztake; lia).
  rewrite ztake_app_r by lia. rewrite E. replace (i + zlen src - i) with (zlen src) by lia.
  rewrite ztake_app_exact. reflexivity.
Qed.
Lemma ztake_ztake {A} a b (l : list A) : 0 <= a <= b -> ztake a (ztake b l) = ztake a l.
Proof.
  intros H. unfold ztake. rewrite firstn_firstn. f_equal. lia.
Qed.
Lemma zlen_pos_cons {A} (l : list A) : 0 < zlen l -> exists x r, l = x :: r.
Proof. destruct l as [|x r]; [cbn; lia|]. intros _. exists x, r. reflexivity. Qed.
