(* C08 placeholder; replaced below *)
From Coq Require Import ZArith List Bool.
From V Require Import Login.Model Login.Spec.
Theorem C08_placeholder : True. Proof. exact I. Qed.
Print Assumptions C08_placeholder.
