(* C08 — login succeeds exactly when the server accepted it.  Property theorems only.
   Model: Login/Model.v (tds/login.go step by step: every NextPackage, type assertion and field check, the
   NextPackageUntil callback, the capability sanity loop) over the packages the rx model (Rx/Model.v) delivers for the
   reply packets; acceptance language: Login/Spec.v.  Both are compared with Channel.Login against a scripted peer
   on every run. *)
From Coq Require Import ZArith List Bool.
Import ListNotations.
From V Require Import Base.Tree Base.Bytes Pkg.LoginRec Rx.Model Rx.Consumer Login.Model Login.Spec Login.Proofs.
Open Scope Z_scope.

(* Plain flow.  For EVERY stream of delivered packages and every number of queued errors: success exactly when the
   stream begins with a success acknowledgement and a final DONE. *)
Theorem C08_plain_success_iff : forall q e, plain_flow q e = LSuccess <-> accepts_plain q = true.
Proof. exact plain_success_iff. Qed.

(* Encrypted flow.  For every key oracle, configuration, and every pair of delivered streams (reply to the login
   record, reply to the encrypted passwords) and error counts: success exactly when the first reply begins with
   negotiation acknowledgement, ENCRYPT4 message, the three key parameters (cipher suite 1, key, nonce) and DONE, every
   secret fits the key, and what follows contains - after packages that are not acknowledgements - a success
   acknowledgement, capabilities the server understood, and a final DONE. *)
Theorem C08_encrypted_success_iff : forall keycap c q1 e1 q2 e2,
  fst (enc_flow keycap c q1 e1 q2 e2) = LSuccess <-> accepts_enc (all_fit keycap c) q1 q2 = true.
Proof. exact enc_success_iff. Qed.

(* The whole call, from the reply PACKETS (any packetisation, any content: the rx model parses them): success exactly
   when the mode is supported, the configuration fits the login record, and the replies are an acceptance.  Every
   other reply sequence yields LRejected or LCtx (an error; LCtx = the wait ended with the caller's context). *)
Theorem C08_login_success_iff : forall keycap c rounds,
  d_res (decide keycap c rounds) = LSuccess <-> accepted keycap c rounds = true.
Proof. exact login_success_iff. Qed.

(* After a successful encrypted login the connection's capabilities are the ones the server returned (the package
   following the acknowledgement) and the packet size is the last one announced in the replies. *)
Theorem C08_post : forall keycap c rounds,
  with_encryption (lc_encrypt c) = true -> d_res (decide keycap c rounds) = LSuccess ->
  let '(q1, q2, es) := replies_delivered rounds in
  (exists a cp rest, skip_to_ack (skipn 5 q1 ++ q2) = a :: cp :: rest /\ d_caps (decide keycap c rounds) = Some (snd cp)) /\
  d_packsize (decide keycap c rounds) = size_after 512 es.
Proof. exact login_post. Qed.

(* non-vacuity: the plain acceptance is met by LOGINACK(5) DONE(0); a DONE with other status bits is refused *)
Example C08_example_accept :
  plain_flow [(173, TL [TI 13; TI 5; TB [5;0;0;0]; TI 3; TB [65;83;69]; TB [16;0;0;1]]); (253, TL [TI 0; TI 0; TI 0])] 0 = LSuccess.
Proof. vm_compute. reflexivity. Qed.
Example C08_example_refuse :
  plain_flow [(173, TL [TI 13; TI 5; TB [5;0;0;0]; TI 3; TB [65;83;69]; TB [16;0;0;1]]); (253, TL [TI 3; TI 0; TI 0])] 0 = LRejected.
Proof. vm_compute. reflexivity. Qed.

Print Assumptions C08_plain_success_iff.
Print Assumptions C08_encrypted_success_iff.
Print Assumptions C08_login_success_iff.
Print Assumptions C08_post.
