(* C13 — cancelled or closed channels never block and never deliver.  Property theorems only.

   Model: C13/Model.v — NextPackage as the set of its possible results, the send loop with its context checks, and an
   interleaving system (reader goroutine, closing goroutine, the peer's logout answer, the logout's timeout) with Go's
   RWMutex and bounded queues.  It is compared with tds/channel.go + tds/conn.go on scripted schedules on every run.
   Real time ("promptly", "bounded time"), goroutine leaks and data races are outside Gallina: the harness observes
   them with watchdogs, goroutine counts and the race detector. *)
From Coq Require Import ZArith List Bool Lia.
Import ListNotations.
From V Require Import Base.Tree Base.Bytes C13.Model C13.Closers C13.Spec C13.Proofs C13.ProofsSys C13.ProofsClosers.
From V Require C13.SendClose C13.ProofsSendClose.
Open Scope Z_scope.

(* (1) Cancellation.  If the passed context or the connection context is done, then for EVERY content of the package
   queue, every list of packages arriving meanwhile and every content of the error queues, "blocks" is not among the
   possible results of NextPackage; ... *)
Theorem C13_cancel_never_blocks : forall s w, (n_ctx s || n_conn s) = true -> ~ In NBlock (next_package s w).
Proof. exact cancel_never_blocks. Qed.

(* ... and if no error is queued, every possible result is a package — the first queued one, or, the queue being empty,
   the first to arrive — or an error wrapping the error of a context that is done (without wait also "no package
   ready"). *)
Theorem C13_cancel : forall s w r,
  n_closed s = false -> (n_ctx s || n_conn s) = true -> n_cerr s <= 0 -> n_err s <= 0 ->
  In r (next_package s w) ->
  (exists p, r = NPkg p /\ (hd_error (n_q s) = Some p \/ (n_q s = [] /\ hd_error (n_arr s) = Some p))) \/
  (r = NCtx /\ n_ctx s = true) \/ (r = NConnCtx /\ n_conn s = true) \/ (r = NNoPkg /\ w = false).
Proof. exact cancel_results. Qed.

(* NextPackageUntil with a done context (nothing arriving, no error queued), for every queue content: with a callback
   the callback is shown a prefix of the queue and the call ends with a package it was shown or the context's error;
   without a callback it ends with the final DONE (io.EOF / nil) or the context's error.  It never blocks. *)
Theorem C13_cancel_until_callback : forall s final stop seen0 inner,
  quiet s ->
  exists seen u, until_done (S (length (n_q s))) s final (Some stop) seen0 inner = (seen0 ++ seen, u) /\
    (exists k, seen = firstn k (n_q s)) /\ ((exists p, u = UPkg p /\ In p seen) \/ ctx_end u).
Proof. intros s final stop seen0 inner H. apply until_some_ok; [exact H | lia]. Qed.

Theorem C13_cancel_until_drain : forall s final seen0 inner,
  quiet s ->
  exists u, until_done (S (length (n_q s))) s final None seen0 inner = (seen0, u) /\ (u = UEof \/ u = UNil \/ ctx_end u).
Proof. intros s final seen0 inner H. apply until_none_ok; [exact H | lia]. Qed.

(* a callback that fails in the middle of a response: the rest that is queued is consumed, the call ends with the
   callback's error (or the context's error if the queue runs dry first); it never blocks on the missing rest *)
Theorem C13_cancel_until_failing_callback : forall s final n seen0,
  quiet s ->
  exists seen r, until_fail (S (2 * length (n_q s))) s final n seen0 = (seen0 ++ seen, r) /\
    (exists k, seen = firstn k (n_q s)) /\ (r = FCbErr \/ exists u, r = FEnd u /\ ctx_end u).
Proof. intros s final n seen0 H. apply until_fail_ok; [exact H | lia]. Qed.

(* (2) A send whose context (or the connection's) is done when the loop starts writes no packet and reports the
   context; in general exactly the packets in front of which the contexts were live are written. *)
Theorem C13_send_cancelled : forall d pk, d O = true ->
  fst (send_call false d pk) = [] /\ (pk <> [] -> snd (send_call false d pk) = SCtx).
Proof.
  intros d pk H. destruct pk as [|p r].
  - split; [reflexivity | congruence].
  - rewrite (send_cancelled d (p :: r) H ltac:(discriminate)). split; [reflexivity | reflexivity].
Qed.

Theorem C13_send_prefix : forall pk d,
  exists k, fst (send_call false d pk) = firstn k pk /\ (forall j, (j < k)%nat -> d j = false) /\
    (snd (send_call false d pk) = SOk /\ k = length pk \/
     snd (send_call false d pk) = SCtx /\ (k < length pk)%nat /\ d k = true).
Proof. intros pk d. exact (send_loop_prefix pk O d). Qed.

(* (3) After Close.  Every receive call reports the closed condition, every send call reports it and writes nothing, a
   second Close reports it; and under EVERY schedule after the channel was marked closed it stays closed, its package
   queue only loses packages (the drain) and the reader is never at a send to the channel's queues (after Close that
   would be a send on a nil channel: blocked for ever with the read lock held).  Whatever a packet handed to
   WritePacket of a closed channel would yield - ONE HeaderOnlyPackage for a header-only packet (length 8, any type,
   with or without EOM), any list of parsed packages for a packet with a body - the call is: read lock, closed check,
   unlock; nothing is delivered, no error is raised, no lock is kept. *)
Theorem C13_after_close :
  (forall s w, n_closed s = true -> next_package s w = [NClosed]) /\
  (forall d pk, send_call true d pk = ([], SClosed)) /\
  (forall s, closed s = true -> wpend s = false -> wheld s = false -> closer_step (set_c s CStart) = Some (set_c s (CDone 2))) /\
  (forall F s ls, inv F s -> closed s = true ->
     closed (exec s ls) = true /\ (pq (exec s ls) = pq s \/ pq (exec s ls) = []) /\
     match rp (exec s ls) with RHold _ => False | _ => True end) /\
  (forall s p, closed s = true -> wpend s = false -> wheld s = false ->
     let s' := run_reader 3 (direct_write s (pkt_items p)) in
     rp s' = RTop /\ pq s' = pq s /\ rd s' = rd s /\ cerr s' = cerr s /\ closed s' = true).
Proof.
  split; [exact closed_result|]. split; [exact send_closed|]. split.
  - intros s Hc Hp Hh. unfold closer_step, set_c. cbn [cp wpend wheld closed]. rewrite Hp, Hh, Hc. reflexivity.
  - split.
    + intros F s ls Hi Hc. destruct (closed_exec F ls s Hi Hc) as [H1 H2].
      split; [exact H1|]. split; [exact H2 | exact (no_send_on_closed F s ls Hi Hc)].
    + intros s p Hc Hp Hh s'.
      destruct (closed_drops (direct_write s (pkt_items p)) (pkt_items p) Hc Hp Hh eq_refl) as [H1 [H2 [H3 [H4 [H5 _]]]]].
      repeat split; assumption.
Qed.

(* a packet for the closed channel that comes through the reader goroutine: the channel is not registered any more, the
   packet is reported on the connection's error queue (C12_unknown_channel) - unless the reader had looked the channel
   up BEFORE Close unregistered it and reaches WritePacket afterwards: then the case above applies.  After Close has
   returned, the closed channel never holds the reader up: a reader that cannot move has ended, waits for bytes, or is
   parked on the full CONNECTION error queue (known finding reader-parked-on-full-conn-errch). *)
Theorem C13_reader_free_after_close : forall F s, inv F s -> closed s = true -> wpend s = false -> wheld s = false ->
  reader_step s = None ->
  rp s = REnd \/ (rp s = RRead /\ incoming s = [] /\ tclosed s || tfail s = false) \/ (rp s = RPushErr /\ ccap s <= cerr s).
Proof. exact reader_free_after_close. Qed.

(* the schedule of the window for a header-only packet (the server's acknowledgement of the teardown): a consumer holds
   the read lock, Close waits for the write lock, the reader has found the channel and queues at the RLock; the
   consumer leaves; Close completes; the reader passes the closed check and goes back to reading: nothing queued,
   nobody blocked; with the connection closed afterwards the reader ends *)
Example C13_ack_in_window_example :
  let i := TL [TI 0; TL [TI 1; TI 1; TI 11; TI 0]] in
  let '(sA, sB, sC) := window_states i in
  cp sA = CLockAcq /\ rp sB = RLockCh [7] /\ rd sB = 1 /\ wpend sB = true /\ registered sB = true /\
  closer_done sC = true /\ closed sC = true /\ pq sC = [] /\ rp sC = RRead /\ rd sC = 0 /\
  reader_ended (conn_closed_later sC) = true.
Proof. vm_compute. repeat split; reflexivity. Qed.

(* (3b) Several closers of ONE channel.  n + 1 goroutines run Channel.Close on the same logical channel (Conn.Close
   calls the same function); a schedule is any list of closer indices.  The code as it is: closed check under the read
   lock, then an atomic compare-and-swap of `closing` that only the first closer passes (with or without the later
   re-check of `closed` under the write lock: it is never reached with `closed` set).  In EVERY reachable state: nobody
   has panicked, at most one teardown packet was written, the client-side teardown (unregister, close and drain the
   queues) was started at most once, every closer that has returned returned nil / its own error list (code 0 / 1) or
   ErrChannelClosed (code 2); as long as a closer has not returned some closer can move (no deadlock), and no run has
   more than 10 moves per closer; once all have returned EXACTLY ONE has performed the teardown and returned its own
   result, all n others report ErrChannelClosed, exactly one teardown packet was written, the channel is closed and
   unregistered (once), no lock is held or requested. *)
Theorem C13_concurrent_close : forall recheck left n ls,
  let s := cexec (cinit true recheck left (S n)) ls in
  (c_panic s = false /\ c_unregs s <= 1 /\ c_teardowns s <= 1 /\
   (forall i c, nth_error (c_pcs s) i = Some (CDone c) -> c = 2 \/ c = (if left then 1 else 0))) /\
  (all_returned s = false -> exists i s', cstep s i = Some s') /\
  (all_returned s = true ->
     cnt is_win (c_pcs s) = 1 /\ cnt lost (c_pcs s) = Z.of_nat n /\
     c_unregs s = 1 /\ c_teardowns s = 1 /\ c_registered s = false /\ c_closed s = true /\ c_wheld s = false /\ c_pending s = 0) /\
  (forall ls' s', crun_eff (cinit true recheck left (S n)) ls' = Some s' -> Z.of_nat (length ls') <= 10 * Z.of_nat (S n)).
Proof. exact concurrent_close. Qed.

(* without the compare-and-swap (the code before commit 650fc05): two closers that have both passed the first check
   both write a teardown packet (with header type and packet number of the channel unguarded); the re-check under the
   write lock still keeps the second one from tearing down twice ... *)
Example C13_concurrent_close_unguarded_refuted :
  let s := crun_window false true false 2 in
  c_pcs (cwindow false true false 2) = [CLockReq; CLockReq] /\ c_teardowns s = 2 /\ c_pcs s = [CDone 0; CDone 2] /\ c_panic s = false.
Proof. vm_compute. repeat split; reflexivity. Qed.

(* ... and without that re-check as well the second one unregisters again and calls close() on the nil channel: panic *)
Example C13_concurrent_close_unchecked_refuted :
  let s := crun_window false false false 2 in
  c_panic s = true /\ c_unregs s = 2 /\ c_teardowns s = 2 /\ c_pcs s = [CDone 0; CDone (-1)].
Proof. vm_compute. repeat split; reflexivity. Qed.

(* non-vacuity: three closers as far as each gets while the teardown packet is held by the transport (one is in the
   write, two have returned), then round robin *)
Example C13_concurrent_close_example :
  let s := crun_window true true false 3 in
  c_pcs (cwindow true true false 3) = [CLockReq; CDone 2; CDone 2] /\ all_returned s = true /\
  c_pcs s = [CDone 0; CDone 2; CDone 2] /\ c_teardowns s = 1 /\ c_unregs s = 1 /\ c_panic s = false.
Proof. vm_compute. repeat split; reflexivity. Qed.

(* (4) Conn.Close.  Under every schedule, once Conn.Close has returned (it only does so through Channel.Close,
   ctxCancel() and conn.Close()) the channel is closed and unregistered, the connection context is done and the
   transport closed; the reader's loop guard is then false. *)
Theorem C13_conn_close : forall cap ccap0 k0 rep inc ls,
  let s := exec (sys0 cap ccap0 k0 true rep inc) ls in
  cp s = KEnd -> closed s = true /\ registered s = false /\ conn_done s = true /\ tclosed s = true.
Proof.
  intros cap ccap0 k0 rep inc ls s E.
  assert (K : kinv s).
  { apply kinv_exec. unfold kinv, sys0. cbn. repeat split; try reflexivity; intros H; try discriminate H.
    destruct H as [H|H]; discriminate H. }
  destruct K as [K1 [K2 [K3 K4]]]. rewrite E in *. cbn in K1, K2.
  split; [exact K1|]. split; [exact K2|]. split; [apply K3; right; reflexivity | apply K4; reflexivity].
Qed.

Theorem C13_reader_guard : forall s, conn_done s = true -> rp s = RTop -> reader_step s = Some (set_r s REnd).
Proof. intros s H E. unfold reader_step. rewrite E, H. reflexivity. Qed.

(* the reader waiting in Read when the connection is closed: it ends, PROVIDED the connection's error queue has room
   for the error of the failed read ... *)
Theorem C13_reader_ends_partial : forall s,
  conn_done s = true -> tclosed s = true -> rp s = RRead -> incoming s = [] -> cerr s < ccap s ->
  reader_ended (run_reader 3 s) = true.
Proof.
  intros s Hd Ht Er Ei Hc. apply Z.ltb_lt in Hc.
  assert (E1 : reader_step s = Some (set_r s RPushErr)).
  { unfold reader_step. rewrite Er, Ei, Ht. reflexivity. }
  assert (E2 : exists s2, reader_step (set_r s RPushErr) = Some s2 /\ rp s2 = RTop /\ conn_done s2 = true).
  { unfold reader_step, set_r. cbn [rp cerr ccap]. rewrite Hc. eexists. split; [reflexivity|]. split; [reflexivity | exact Hd]. }
  destruct E2 as [s2 [E2 [R2 D2]]].
  assert (E3 : reader_step s2 = Some (set_r s2 REnd)).
  { unfold reader_step. rewrite R2, D2. reflexivity. }
  cbn [run_reader]. rewrite E1, E2, E3. reflexivity.
Qed.

(* ... and does NOT end when the queue is full and nobody reads it (known finding reader-parked-on-full-conn-errch):
   a state after Conn.Close returned in which nobody can move, for ever, with the reader still there *)
Example C13_reader_ends_refuted :
  let s := run_all fuel (set_tfail (run_reader fuel (mkS true [] 4 0 false false false 0 10 false false false RTop [] (CDone 0) true true false false))) in
  cp s = KEnd /\ conn_done s = true /\ tclosed s = true /\ cerr s = ccap s /\ rp s = RPushErr /\
  reader_ended s = false /\ (forall l, step s l = None) /\ (forall ls, exec s ls = s).
Proof.
  cbv zeta.
  assert (H : forall l, step (run_all fuel (set_tfail (run_reader fuel (mkS true [] 4 0 false false false 0 10 false false false RTop [] (CDone 0) true true false false)))) l = None).
  { intros l. destruct l; vm_compute; reflexivity. }
  repeat split; try (vm_compute; reflexivity). exact H. apply stuck_forever. exact H.
Qed.

(* (5) Close returns.  A channel of any kind, any queue capacity, any packets on their way, any schedule: PROVIDED no
   goroutine outside holds the read lock for good (inv 0) and the package queue has room for every package still to come
   (room), then in every reachable state in which Close (or Conn.Close) has not returned somebody can move, and no run
   has more moves than the measure of the initial state: every maximal run is finite and ends with Close returned.
   (The logout's wait is bounded by its one-minute context: its expiry is a move.) *)
Theorem C13_close_terminates_partial : forall cap ccap0 k0 cc rep inc,
  0 <= ccap0 -> room (sys0 cap ccap0 k0 cc rep inc) ->
  (forall ls, closer_done (exec (sys0 cap ccap0 k0 cc rep inc) ls) = false ->
              exists l s', step (exec (sys0 cap ccap0 k0 cc rep inc) ls) l = Some s') /\
  (forall ls s', run_eff (sys0 cap ccap0 k0 cc rep inc) ls = Some s' ->
                 Z.of_nat (length ls) <= measure (sys0 cap ccap0 k0 cc rep inc)).
Proof.
  intros cap ccap0 k0 cc rep inc Hc Hroom.
  assert (Hi : inv 0 (sys0 cap ccap0 k0 cc rep inc)).
  { unfold inv, sys0. cbn. repeat split; try reflexivity; try lia; intros H; discriminate H. }
  split.
  - intros ls Hnd. apply close_progress; [apply inv_exec; exact Hi | apply room_exec; exact Hroom | exact Hnd].
  - intros ls s' H. pose proof (run_eff_bound ls _ _ H) as Hb.
    assert (His : inv 0 s').
    { clear Hb. revert H. generalize (sys0 cap ccap0 k0 cc rep inc) Hi. induction ls as [|l r IH]; intros s0 Hi0 H.
      - cbn in H. inversion H; subst. exact Hi0.
      - cbn [run_eff] in H. destruct (step s0 l) as [s1|] eqn:E; [|discriminate]. exact (IH s1 (inv_step 0 s0 l s1 Hi0 E) H). }
    pose proof (measure_nonneg 0 s' His). lia.
Qed.

(* The full statement "in every schedule Close reaches its end" is FALSE of the model of the current code: *)
(* (a) known finding close-blocks-on-full-rx-queue: a logical channel, capacity 1, two packages sent by the server and
   not consumed: the reader parks on the full queue holding the read lock, Close waits for the write lock for ever *)
Example C13_close_terminates_refuted :
  let s := run_all fuel (run_reader fuel (sys0 1 10 false false false [RinPkt true [0]; RinPkt true [1]])) in
  closer_done s = false /\ cp s = CLockAcq /\ rp s = RHold [1] /\ rd s = 1 /\ pq s = [0] /\
  (forall l, step s l = None) /\ (forall ls, closer_done (exec s ls) = false).
Proof.
  cbv zeta.
  assert (H : forall l, step (run_all fuel (run_reader fuel (sys0 1 10 false false false [RinPkt true [0]; RinPkt true [1]]))) l = None).
  { intros l. destruct l; vm_compute; reflexivity. }
  repeat split; try (vm_compute; reflexivity). exact H.
  intros ls. rewrite (stuck_forever _ H ls). vm_compute. reflexivity.
Qed.

(* (b) known finding close-waits-for-consumer: a goroutine parked in NextPackage(ctx, wait) with a live context holds the
   read lock (rd = 1 from outside the system); Close announces its Lock and waits for ever, although the queue is
   empty and the peer is silent *)
Example C13_close_waits_for_consumer_refuted :
  let s := run_all fuel (mkS false [] 4 1 false false true 0 10 false false false RTop [] CStart false false false false) in
  closer_done s = false /\ cp s = CLockAcq /\ rd s = 1 /\ wpend s = true /\
  (forall l, step s l = None) /\ (forall ls, closer_done (exec s ls) = false).
Proof.
  cbv zeta.
  assert (H : forall l, step (run_all fuel (mkS false [] 4 1 false false true 0 10 false false false RTop [] CStart false false false false)) l = None).
  { intros l. destruct l; vm_compute; reflexivity. }
  repeat split; try (vm_compute; reflexivity). exact H.
  intros ls. rewrite (stuck_forever _ H ls). vm_compute. reflexivity.
Qed.
(* ... and once that goroutine's context is cancelled (it returns and releases the read lock) Close finishes *)
Example C13_close_after_consumer_cancel :
  let s := run_all fuel (mkS false [] 4 1 false false true 0 10 false false false RTop [] CStart false false false false) in
  closer_done (run_all fuel (release s)) = true.
Proof. vm_compute. reflexivity. Qed.

(* non-vacuity of (5): channel 0, capacity 4, three packages on their way, the peer answers the logout: the hypotheses
   hold and the round-robin schedule ends with Close returned *)
Example C13_close_terminates_example :
  let s0 := sys0 4 10 true true true (done_packets 3) in
  room s0 /\ closer_done (run_all fuel s0) = true /\ cp (run_all fuel s0) = KEnd /\ reader_ended (run_all fuel s0) = true.
Proof. cbv zeta. split; [unfold room; vm_compute; discriminate|]. vm_compute. repeat split; reflexivity. Qed.

Example C13_cancel_example :
  next_package (mkN false [] [7] 0 0 true false) true = [NCtx; NPkg 7] /\
  next_package (mkN false [5; 6] [7] 3 2 true true) true = [NPkg 5] /\
  next_package (mkN false [] [] 0 0 false false) true = [NBlock].
Proof. vm_compute. repeat split; reflexivity. Qed.

(* (7) Close arriving WHILE a SendPackage is in progress on the same channel (C13/SendClose.v): the sender is two
   consecutive read-lock sections (QueuePackage writing a full packets, SendRemainingPackets writing b), the closer
   announces Lock(), waits until no read lock is held, marks the channel closed.  For EVERY number of packets and EVERY
   schedule: the lock discipline holds, somebody can move until both calls have returned (no deadlock), there are at
   most a + b + 17 moves in all, and at the end the channel is closed, the mutex is free, Close returned nil and
   SendPackage returned nil or ErrChannelClosed. *)
Theorem C13_close_during_send_terminates : forall (a b : nat) (sched : list SendClose.lab),
  let s0 := SendClose.init false a b in
  let s := SendClose.exec s0 sched in
  ProofsSendClose.inv s /\
  (SendClose.sender_done s && SendClose.closer_done s = false -> exists l s', SendClose.step s l = Some s') /\
  SendClose.stuck s = false /\
  (SendClose.moves s0 sched + SendClose.mu s <= a + b + 17)%nat /\
  (SendClose.sender_done s && SendClose.closer_done s = true ->
     SendClose.closed s = true /\ SendClose.rd s = 0%nat /\ SendClose.wpend s = false /\ SendClose.wheld s = false /\
     SendClose.closer_code s = 0 /\ (SendClose.sender_code s = 0 \/ SendClose.sender_code s = 2)).
Proof. exact ProofsSendClose.close_during_send_terminates. Qed.

(* ... whereas with SendPackage holding the read lock around both sections (a recursive read lock) there is a schedule -
   the sender inside its first section when Close announces its Lock() - after which neither can ever move: the sender
   waits in the inner RLock behind the pending writer, the writer waits for the sender's outer read lock. *)
Theorem C13_close_during_send_recursive_refuted :
  exists sched, let s := SendClose.exec (SendClose.init true 1 1) sched in
    SendClose.stuck s = true /\ SendClose.sender_done s = false /\ SendClose.closer_done s = false /\
    SendClose.sp s = SendClose.SLock2 /\ SendClose.kp s = SendClose.KLockAcq /\ SendClose.rd s = 1%nat /\
    SendClose.wpend s = true /\ forall more, SendClose.exec s more = s.
Proof. exact ProofsSendClose.close_during_send_recursive_refuted. Qed.

(* non-vacuity: the unchanged program under the corresponding schedule - Close returns nil, SendPackage the closed
   condition after its first section's packet *)
Example C13_close_during_send_example :
  let s := SendClose.exec (SendClose.init false 1 1)
             ([SendClose.LS; SendClose.LS; SendClose.LK; SendClose.LK; SendClose.LK; SendClose.LS; SendClose.LS; SendClose.LS] ++
              [SendClose.LK; SendClose.LK; SendClose.LK; SendClose.LS; SendClose.LS; SendClose.LS; SendClose.LS]) in
  SendClose.sender_done s = true /\ SendClose.closer_done s = true /\ SendClose.sender_code s = 2 /\
  SendClose.closer_code s = 0 /\ SendClose.writes s = 1%nat.
Proof. exact ProofsSendClose.same_schedule_unchanged. Qed.

Print Assumptions C13_cancel_never_blocks.
Print Assumptions C13_cancel.
Print Assumptions C13_cancel_until_callback.
Print Assumptions C13_cancel_until_drain.
Print Assumptions C13_cancel_until_failing_callback.
Print Assumptions C13_send_cancelled.
Print Assumptions C13_send_prefix.
Print Assumptions C13_after_close.
Print Assumptions C13_reader_free_after_close.
Print Assumptions C13_concurrent_close.
Print Assumptions C13_conn_close.
Print Assumptions C13_reader_guard.
Print Assumptions C13_reader_ends_partial.
Print Assumptions C13_close_terminates_partial.
Print Assumptions C13_close_during_send_terminates.
Print Assumptions C13_close_during_send_recursive_refuted.
