(* C13 — property theorems (placeholder while the pipeline is brought up). *)
From Coq Require Import ZArith List Bool.
Import ListNotations.
From V Require Import Base.Tree C13.Model C13.Spec.
Open Scope Z_scope.

Theorem C13_closed_reports : forall s w, n_closed s = true -> next_package s w = [NClosed].
Proof. intros s w H. unfold next_package. rewrite H. reflexivity. Qed.
Print Assumptions C13_closed_reports.
