(* C13 / C12 — model of SEVERAL goroutines closing the SAME logical channel (tds/channel.go, Channel.Close, current tree).

   Every closer runs the program of C13/Model.v's closing goroutine (the program counters `cpc` are reused) on a
   logical channel (id > 0; Conn.Close calls the same Channel.Close for each channel it finds registered):

     CStart    RLock; closed := tdsChan.closed; RUnlock; closed -> return ErrChannelClosed
               (a new RLock is blocked while a Lock is pending or held)
     CCas      if !atomic.CompareAndSwapInt32(&tdsChan.closing, 0, 1) { return ErrChannelClosed }
               one atomic step: exactly the first closer to get here goes on, every other one returns at once (possibly
               before the first one has finished)
     CSend     CurrentHeaderType = TDS_BUF_CLOSE; sendPacket(teardown)        -- no lock is held here
     CLockReq  tdsChan.Lock() announced
     CLockAcq  ... granted when nobody holds the lock (the closers' read locks are released at once; goroutines that
               hold the read lock for long are the subject of C13/Model.v)
     CMark     if tdsChan.closed { Unlock; return ErrChannelClosed }  ("closed by a concurrent call in the meantime");
               tdsChan.closed = true
     CUnreg    delete(tdsChannels, id) under the map lock
     CDrain    close(packageCh); drain; packageCh = nil; the same for errCh.  close() of a nil channel PANICS
               (the deferred Unlock runs, the goroutine - in a real program the process - dies)
     CUnlock   deferred Unlock; return nil, or the list of errors if packages were still queued
     CDone c   returned: 0 nil | 1 its own error list | 2 ErrChannelClosed | -1 panicked

   `c_guard` says whether the compare-and-swap is there, `c_recheck` whether CMark re-checks `closed` (true / true = the
   code as it is; the others are the counter-models of C13_concurrent_close_*_refuted).  A label is the index of the
   closer that moves; a move that is not possible (blocked, returned) is None.  No proofs in this file. *)
From Coq Require Import ZArith List Bool.
Import ListNotations.
From V Require Import Base.Tree Base.Bytes C13.Model.
Open Scope Z_scope.

Record csys := mkC {
  c_guard : bool;
  c_recheck : bool;
  c_left : bool;          (* packages are left in the queue: the closer that drains it returns an error list *)
  c_closing : bool;       (* tdsChan.closing != 0 *)
  c_closed : bool;
  c_nil : bool;           (* packageCh == nil *)
  c_registered : bool;
  c_unregs : Z;           (* how often the client-side teardown (unregister + drain) was started *)
  c_teardowns : Z;        (* teardown packets written *)
  c_pending : Z;          (* Lock() calls announced and not yet granted *)
  c_wheld : bool;
  c_panic : bool;
  c_pcs : list cpc
}.

Definition cinit (guard recheck left : bool) (n : nat) : csys :=
  mkC guard recheck left false false false true 0 0 0 false false (repeat CStart n).

Fixpoint upd {A} (i : nat) (x : A) (l : list A) {struct l} : list A :=
  match l with
  | [] => []
  | y :: r => match i with O => x :: r | S k => y :: upd k x r end
  end.

Definition cset (s : csys) (i : nat) (pc : cpc) : csys :=
  mkC (c_guard s) (c_recheck s) (c_left s) (c_closing s) (c_closed s) (c_nil s) (c_registered s) (c_unregs s) (c_teardowns s)
      (c_pending s) (c_wheld s) (c_panic s) (upd i pc (c_pcs s)).

Definition cstep (s : csys) (i : nat) : option csys :=
  match nth_error (c_pcs s) i with
  | None => None
  | Some pc =>
    match pc with
    | CStart =>
        if (0 <? c_pending s) || c_wheld s then None
        else Some (cset s i (if c_closed s then CDone 2 else CCas))
    | CCas =>
        if c_guard s && c_closing s then Some (cset s i (CDone 2))
        else Some (mkC (c_guard s) (c_recheck s) (c_left s) true (c_closed s) (c_nil s) (c_registered s) (c_unregs s) (c_teardowns s)
                       (c_pending s) (c_wheld s) (c_panic s) (upd i CSend (c_pcs s)))
    | CSend =>
        Some (mkC (c_guard s) (c_recheck s) (c_left s) (c_closing s) (c_closed s) (c_nil s) (c_registered s) (c_unregs s) (c_teardowns s + 1)
                  (c_pending s) (c_wheld s) (c_panic s) (upd i CLockReq (c_pcs s)))
    | CLockReq =>
        Some (mkC (c_guard s) (c_recheck s) (c_left s) (c_closing s) (c_closed s) (c_nil s) (c_registered s) (c_unregs s) (c_teardowns s)
                  (c_pending s + 1) (c_wheld s) (c_panic s) (upd i CLockAcq (c_pcs s)))
    | CLockAcq =>
        if c_wheld s then None
        else Some (mkC (c_guard s) (c_recheck s) (c_left s) (c_closing s) (c_closed s) (c_nil s) (c_registered s) (c_unregs s) (c_teardowns s)
                       (c_pending s - 1) true (c_panic s) (upd i CMark (c_pcs s)))
    | CMark =>
        if c_recheck s && c_closed s
        then Some (mkC (c_guard s) (c_recheck s) (c_left s) (c_closing s) (c_closed s) (c_nil s) (c_registered s) (c_unregs s) (c_teardowns s)
                       (c_pending s) false (c_panic s) (upd i (CDone 2) (c_pcs s)))
        else Some (mkC (c_guard s) (c_recheck s) (c_left s) (c_closing s) true (c_nil s) (c_registered s) (c_unregs s) (c_teardowns s)
                       (c_pending s) (c_wheld s) (c_panic s) (upd i CUnreg (c_pcs s)))
    | CUnreg =>
        Some (mkC (c_guard s) (c_recheck s) (c_left s) (c_closing s) (c_closed s) (c_nil s) false (c_unregs s + 1) (c_teardowns s)
                  (c_pending s) (c_wheld s) (c_panic s) (upd i CDrain (c_pcs s)))
    | CDrain =>
        if c_nil s
        then Some (mkC (c_guard s) (c_recheck s) (c_left s) (c_closing s) (c_closed s) (c_nil s) (c_registered s) (c_unregs s) (c_teardowns s)
                       (c_pending s) false true (upd i (CDone (-1)) (c_pcs s)))
        else Some (mkC (c_guard s) (c_recheck s) (c_left s) (c_closing s) (c_closed s) true (c_registered s) (c_unregs s) (c_teardowns s)
                       (c_pending s) (c_wheld s) (c_panic s) (upd i CUnlock (c_pcs s)))
    | CUnlock =>
        Some (mkC (c_guard s) (c_recheck s) (c_left s) (c_closing s) (c_closed s) (c_nil s) (c_registered s) (c_unregs s) (c_teardowns s)
                  (c_pending s) false (c_panic s) (upd i (CDone (if c_left s then 1 else 0)) (c_pcs s)))
    | _ => None        (* returned; the other program counters belong to channel 0 / Conn.Close *)
    end
  end.

(* a schedule: any list of closer indices; an index whose move is not possible leaves the state unchanged *)
Definition cexec1 (s : csys) (i : nat) : csys := match cstep s i with Some s' => s' | None => s end.
Definition cexec (s : csys) (ls : list nat) : csys := fold_left cexec1 ls s.

Definition is_cdone (pc : cpc) : bool := match pc with CDone _ => true | _ => false end.
Definition all_returned (s : csys) : bool := forallb is_cdone (c_pcs s).

Definition ccode (pc : cpc) : Z := match pc with CDone c => c | _ => 9 end.

(* ---- the deterministic schedule of the harness scenarios: every closer as far as it gets while the transport holds
   the teardown packets (a closer stops in front of CLockReq: its Write has not returned), then all of them round robin
   until nobody moves *)
Fixpoint crun_one (fuel : nat) (s : csys) (i : nat) (stop : cpc -> bool) : csys :=
  match fuel with
  | O => s
  | S f => match nth_error (c_pcs s) i with
           | Some pc => if stop pc then s else match cstep s i with Some s' => crun_one f s' i stop | None => s end
           | None => s
           end
  end.

Definition at_lockreq (pc : cpc) : bool := match pc with CLockReq => true | _ => false end.

Fixpoint cround (s : csys) (n : nat) : csys :=
  match n with O => s | S k => cexec1 (cround s k) k end.

Fixpoint crounds (fuel : nat) (s : csys) : csys :=
  match fuel with O => s | S f => crounds f (cround s (length (c_pcs s))) end.

(* the state in which the transport releases the teardown packets *)
Definition cwindow (guard recheck left : bool) (n : nat) : csys :=
  fold_left (fun s i => crun_one 5 s i at_lockreq) (seq 0 n) (cinit guard recheck left n).

Definition crun_window (guard recheck left : bool) (n : nat) : csys :=
  crounds (10 + 2 * n) (cwindow guard recheck left n).

Fixpoint count_pc (f : cpc -> bool) (l : list cpc) : Z :=
  match l with [] => 0 | x :: r => (if f x then 1 else 0) + count_pc f r end.

(* ---- harness-facing: C12 fn 5 and C13 fn 10
   input  (nclosers viaconn mode connfirst nother queued)
   output (held-at-release (code ...) teardowns numbers-ok unregistered after-code others-ok connclose-returned reader-ended)
   held-at-release: closers parked in the teardown write when the transport lets the packets go (all the others have
   returned by then); codes sorted; numbers-ok: the teardown packets carry the numbers 1, 2, ... (the SETUP packet 0) *)
Fixpoint insert_z (x : Z) (l : list Z) : list Z :=
  match l with [] => [x] | y :: r => if x <=? y then x :: l else y :: insert_z x r end.
Definition sort_z (l : list Z) : list Z := fold_right insert_z [] l.

Definition run_cclose (i : tree) : tree :=
  let n := Z.to_nat (t_int (t_nth 0 i) + (if t_bool (t_nth 1 i) then 1 else 0)) in
  let left := 0 <? t_int (t_nth 5 i) in
  let s := crun_window true true left n in
  TL [TI (count_pc at_lockreq (c_pcs (cwindow true true left n)));
      TL (map TI (sort_z (map ccode (c_pcs s))));
      TI (c_teardowns s);
      TI 1;
      of_bool (negb (c_registered s));
      TI (if c_closed s then 2 else 3);
      TI 1; TI 1; TI 1].

(* from the property texts: "After a channel is closed every call on it reports the closed condition", "closing the
   connection closes all its channels ... and ends the reader", "Close itself returns in bounded time", "under every
   interleaving of channel creation, sends, receives and closes": every Close returns (no 9) without a panic (no -1),
   exactly one performs the teardown (nil, or its own error list), every other one reports the closed condition; the
   channel is unregistered, calls on it report closed, the other channels still work, the reader ends with the
   connection.  C12 ("outgoing packets carry their channel's id with consecutive packet numbers") also reads the
   teardown packets: exactly one, carrying the number after the SETUP packet's. *)
Fixpoint count_z (f : Z -> bool) (l : list Z) : Z :=
  match l with [] => 0 | x :: r => (if f x then 1 else 0) + count_z f r end.

Definition sp_cclose (numbers : bool) (i o : tree) : bool :=
  let codes := map t_int (t_list (t_nth 1 o)) in
  let n := t_int (t_nth 0 i) + (if t_bool (t_nth 1 i) then 1 else 0) in
  (zlen codes =? n) &&
  forallb (fun c => (c =? 0) || (c =? 1) || (c =? 2)) codes &&
  (count_z (fun c => (c =? 0) || (c =? 1)) codes =? 1) &&
  (count_z (fun c => c =? 2) codes =? n - 1) &&
  (if numbers then (t_int (t_nth 2 o) =? 1) && (t_int (t_nth 3 o) =? 1) else true) &&
  (t_int (t_nth 4 o) =? 1) && (t_int (t_nth 5 o) =? 2) && (t_int (t_nth 6 o) =? 1) &&
  (t_int (t_nth 7 o) =? 1) && (t_int (t_nth 8 o) =? 1).
