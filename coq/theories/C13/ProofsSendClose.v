(* C13/ProofsSendClose.v — every schedule of {sender = two consecutive read-lock sections, closer = write-lock section}
   ends with both returned; the recursive-read-lock variant has a deadlocking schedule. *)
From Coq Require Import ZArith List Bool Arith Lia.
Import ListNotations.
From V Require Import Base.Tree C13.SendClose.
Local Open Scope nat_scope.

(* read locks the sender holds at each program point *)
Definition inner_held (p : spc) : nat :=
  match p with
  | SChk1 | SWrite1 _ | SUnlock1 _ | SChk2 | SWrite2 _ | SUnlock2 _ => 1
  | _ => 0
  end.
Definition outer_held (r : bool) (p : spc) : nat :=
  if r then match p with SOuterLock | SDone _ => 0 | _ => 1 end else 0.
Definition is_outer (p : spc) : bool :=
  match p with SOuterLock | SOuterChk | SOuterUnlock _ => true | _ => false end.
Definition k_pend (k : kpc) : bool := match k with KLockAcq => true | _ => false end.
Definition k_held (k : kpc) : bool := match k with KMark | KUnlock => true | _ => false end.
Definition k_closed (k : kpc) : bool := match k with KUnlock | KDone _ => true | _ => false end.

(* the lock discipline: the mutex's state is what the two program counters say *)
Definition inv (s : st) : Prop :=
  rd s = inner_held (sp s) + outer_held (recu s) (sp s) /\
  wpend s = k_pend (kp s) /\ wheld s = k_held (kp s) /\ closed s = k_closed (kp s) /\
  (recu s = false -> is_outer (sp s) = false) /\
  (forall c, kp s = KDone c -> c = 0%Z) /\
  (forall c, sp s = SDone c -> c = 0%Z \/ c = 2%Z) /\
  (forall c, sp s = SOuterUnlock c -> c = 0%Z \/ c = 2%Z) /\
  (forall c, sp s = SUnlock2 c -> c = 0%Z \/ c = 2%Z) /\
  (forall c, sp s = SUnlock1 c -> c = (-1)%Z \/ c = 2%Z).

Lemma inv_init : forall r a b, inv (init r a b).
Proof.
  intros r a b. unfold inv, init. destruct r; cbn; repeat split; try reflexivity; try discriminate;
    intros c H; discriminate H.
Qed.

Ltac inv_solve :=
  unfold inv, runlock, fin, set_sp, set_kp, wrote; cbn;
  repeat match goal with
         | |- _ /\ _ => split
         end;
  try reflexivity; try assumption; try lia;
  try (intros; discriminate); try (intros; reflexivity);
  try (intros c0 Hc0; inversion Hc0; subst; auto; fail).

Lemma inv_step : forall s l s', inv s -> step s l = Some s' -> inv s'.
Proof.
  intros s l s' Hi Hs.
  destruct s as [cl r wp wh p k rc a b w].
  unfold inv in Hi. cbn in Hi.
  destruct Hi as (Hrd & Hwp & Hwh & Hcl & Hout & Hk2 & Hd & Hou & Hu2 & Hu1).
  subst r wp wh cl.
  destruct l; cbn in Hs.
  - (* sender *)
    unfold sender_step, rlock in Hs.
    destruct p as [ | | | | n | c | | | n | c | c | c ]; destruct k as [ | | | | | | c' ]; cbn in Hs;
      try discriminate Hs;
      try (destruct (Hu1 _ eq_refl) as [Hc|Hc]; subst c);
      try (destruct (Hu2 _ eq_refl) as [Hc|Hc]; subst c);
      try (destruct (Hou _ eq_refl) as [Hc|Hc]; subst c);
      try destruct n as [|n]; cbn in Hs;
      inversion Hs; subst s'; clear Hs;
      destruct rc; try (specialize (Hout eq_refl); discriminate Hout);
      inv_solve.
  - (* closer *)
    unfold closer_step in Hs.
    destruct k as [ | | | | | | c' ]; cbn in Hs; try discriminate Hs.
    + inversion Hs; subst s'; clear Hs. inv_solve.
    + inversion Hs; subst s'; clear Hs. inv_solve.
    + inversion Hs; subst s'; clear Hs. inv_solve.
    + destruct (inner_held p + outer_held rc p =? 0) eqn:E; cbn in Hs; [|discriminate Hs].
      inversion Hs; subst s'; clear Hs. inv_solve.
    + inversion Hs; subst s'; clear Hs. inv_solve.
    + inversion Hs; subst s'; clear Hs. inv_solve.
Qed.

Lemma inv_exec : forall ls s, inv s -> inv (exec s ls).
Proof.
  induction ls as [|l r IH]; intros s Hi; [exact Hi|].
  cbn. apply IH. unfold exec1. destruct (step s l) as [s'|] eqn:E; [|exact Hi].
  eapply inv_step; eauto.
Qed.

Lemma recu_step : forall s l s', step s l = Some s' -> recu s' = recu s /\ n1 s' = n1 s /\ n2 s' = n2 s.
Proof.
  intros s l s' Hs. destruct l; cbn in Hs.
  - unfold sender_step, rlock in Hs.
    destruct (sp s) as [ | | | | n | c | | | n | c | c | c ];
      try (destruct (wpend s || wheld s); [discriminate|]);
      try destruct n as [|n]; inversion Hs; subst; cbn; auto.
  - unfold closer_step in Hs.
    destruct (kp s) as [ | | | | | | c ];
      try (destruct (wpend s || wheld s); [discriminate|]);
      try (destruct ((rd s =? 0)%nat && negb (wheld s)); [|discriminate]);
      try (destruct (closed s));
      inversion Hs; subst; cbn; auto.
Qed.

Lemma recu_exec : forall ls s, recu (exec s ls) = recu s.
Proof.
  induction ls as [|l r IH]; intros s; [reflexivity|].
  change (recu (exec (exec1 s l) r) = recu s). rewrite IH. unfold exec1. destruct (step s l) as [s'|] eqn:E; [|reflexivity].
  apply recu_step in E. tauto.
Qed.

(* progress: without the outer lock somebody can always move until both have returned *)
Lemma progress : forall s, inv s -> recu s = false -> sender_done s && closer_done s = false ->
  exists l s', step s l = Some s'.
Proof.
  intros s Hi Hr Hnd.
  destruct s as [cl r wp wh p k rc a b w]. cbn in Hr. subst rc.
  unfold inv in Hi. cbn in Hi.
  destruct Hi as (Hrd & Hwp & Hwh & Hcl & Hout & _).
  specialize (Hout eq_refl).
  subst r wp wh cl.
  destruct p as [ | | | | n | c | | | n | c | c | c ]; try discriminate Hout;
    try (exists LS; cbn; unfold sender_step; cbn; try destruct n as [|n]; eexists; reflexivity);
    destruct k as [ | | | | | | c' ]; cbn in Hnd; try discriminate Hnd;
    try (exists LK; cbn; unfold closer_step; cbn; eexists; reflexivity);
    try (exists LS; cbn; unfold sender_step, rlock; cbn; eexists; reflexivity).
Qed.

Lemma mu_step : forall s l s', inv s -> step s l = Some s' -> mu s' < mu s.
Proof.
  intros s l s' Hi Hs.
  destruct s as [cl r wp wh p k rc a b w].
  unfold inv in Hi. cbn in Hi.
  destruct Hi as (_ & _ & _ & _ & _ & _ & _ & _ & Hu2 & Hu1).
  destruct l; cbn in Hs.
  - unfold sender_step, rlock in Hs; cbn in Hs.
    destruct p as [ | | | | n | c | | | n | c | c | c ]; cbn in Hs;
      try (destruct (wp || wh); [discriminate Hs|]);
      try (destruct (Hu1 _ eq_refl) as [Hc|Hc]; subst c);
      try destruct n as [|n];
      try (destruct cl);
      try discriminate Hs;
      cbn in Hs; inversion Hs; subst s'; clear Hs;
      unfold mu, mu_s, mu_k, runlock, fin, set_sp, wrote; destruct rc; cbn; lia.
  - unfold closer_step in Hs; cbn in Hs.
    destruct k as [ | | | | | | c ]; cbn in Hs;
      try (destruct (wp || wh); [discriminate Hs|]);
      try (destruct ((r =? 0) && negb wh); [|discriminate Hs]);
      try (destruct cl);
      try discriminate Hs;
      inversion Hs; subst s'; clear Hs; unfold mu, mu_s, mu_k, set_kp; cbn; lia.
Qed.

Lemma moves_bound : forall ls s, inv s -> moves s ls + mu (exec s ls) <= mu s.
Proof.
  induction ls as [|l r IH]; intros s Hi; [cbn; lia|].
  change (exec s (l :: r)) with (exec (exec1 s l) r).
  unfold exec1. cbn [moves]. destruct (step s l) as [s'|] eqn:E.
  - pose proof (mu_step s l s' Hi E) as Hlt.
    pose proof (IH s' (inv_step s l s' Hi E)) as Hb. lia.
  - apply IH. exact Hi.
Qed.

(* the final states *)
Lemma final : forall s, inv s -> sender_done s && closer_done s = true ->
  closed s = true /\ rd s = 0 /\ wpend s = false /\ wheld s = false /\
  closer_code s = 0%Z /\ (sender_code s = 0%Z \/ sender_code s = 2%Z).
Proof.
  intros s Hi Hd.
  destruct s as [cl r wp wh p k rc a b w].
  unfold inv in Hi. cbn in Hi.
  destruct Hi as (Hrd & Hwp & Hwh & Hcl & Hout & Hk2 & Hdn & _).
  cbn in Hd.
  destruct p as [ | | | | n | c | | | n | c | c | c ]; cbn in Hd; try discriminate Hd.
  destruct k as [ | | | | | | c' ]; cbn in Hd; try discriminate Hd.
  cbn. subst r wp wh cl. cbn.
  pose proof (Hk2 c' eq_refl) as Hc'. subst c'.
  destruct (Hdn c eq_refl) as [Hc|Hc]; subst c; destruct rc; cbn; repeat split; auto.
Qed.

(* ---- the statements *)
Lemma close_during_send_terminates : forall a b sched,
  let s0 := init false a b in
  let s := exec s0 sched in
  inv s /\
  (sender_done s && closer_done s = false -> exists l s', step s l = Some s') /\
  stuck s = false /\
  moves s0 sched + mu s <= a + b + 17 /\
  (sender_done s && closer_done s = true ->
     closed s = true /\ rd s = 0 /\ wpend s = false /\ wheld s = false /\ closer_code s = 0%Z /\
     (sender_code s = 0%Z \/ sender_code s = 2%Z)).
Proof.
  intros a b sched s0 s.
  assert (Hi : inv s) by (apply inv_exec; apply inv_init).
  assert (Hr : recu s = false) by (unfold s; rewrite recu_exec; reflexivity).
  assert (Hp : sender_done s && closer_done s = false -> exists l s', step s l = Some s')
    by (intros Hnd; apply progress; assumption).
  split; [exact Hi|]. split; [exact Hp|]. split.
  - unfold stuck. destruct (sender_done s && closer_done s) eqn:Ed; [reflexivity|].
    destruct (Hp eq_refl) as (l & s' & Hs). cbn [negb andb].
    destruct l; rewrite Hs; [reflexivity|]. destruct (step s LS); reflexivity.
  - split.
    + pose proof (moves_bound sched s0 (inv_init false a b)) as Hb.
      assert (Hm : mu s0 = a + b + 17) by (unfold s0, mu, mu_s, mu_k, init; cbn; lia).
      fold s in Hb. lia.
    + intros Hd. apply final; assumption.
Qed.

Lemma stuck_forever : forall sched s, stuck s = true -> exec s sched = s.
Proof.
  induction sched as [|l r IH]; intros s Hs; [reflexivity|].
  change (exec s (l :: r)) with (exec (exec1 s l) r).
  assert (He : exec1 s l = s).
  { unfold stuck in Hs. apply andb_true_iff in Hs. destruct Hs as [_ Hs]. unfold exec1.
    destruct (step s LS) eqn:E1; [discriminate Hs|]. destruct (step s LK) eqn:E2; [discriminate Hs|].
    destruct l; [rewrite E1|rewrite E2]; reflexivity. }
  rewrite He. apply IH. exact Hs.
Qed.

(* the sender is inside its first section (one full packet written or being written) when Close announces its Lock *)
Definition deadlock_schedule : list lab := [LS; LS; LS; LS; LK; LK; LK; LS; LS; LS].

Lemma close_during_send_recursive_refuted :
  exists sched, let s := exec (init true 1 1) sched in
    stuck s = true /\ sender_done s = false /\ closer_done s = false /\
    sp s = SLock2 /\ kp s = KLockAcq /\ rd s = 1 /\ wpend s = true /\
    forall more, exec s more = s.
Proof.
  exists deadlock_schedule. cbv zeta.
  assert (Hst : stuck (exec (init true 1 1) deadlock_schedule) = true) by (vm_compute; reflexivity).
  repeat split; try (vm_compute; reflexivity).
  intros more. apply stuck_forever. exact Hst.
Qed.

(* the same schedule is harmless without the outer lock *)
Lemma same_schedule_unchanged :
  let s := exec (init false 1 1) ([LS; LS; LK; LK; LK; LS; LS; LS] ++ [LK; LK; LK; LS; LS; LS; LS]) in
  sender_done s = true /\ closer_done s = true /\ sender_code s = 2%Z /\ closer_code s = 0%Z /\ writes s = 1.
Proof. vm_compute. repeat split; reflexivity. Qed.
