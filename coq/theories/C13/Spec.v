(* C13 — executable specification predicates (from the property text) and the dispatch for the harness.

   Property text: "A receive call returns promptly with an already queued package or an error wrapping the context's
   error once its own or the connection's context is cancelled, however packets arrive meanwhile, and a send with a
   cancelled context writes nothing.  After a channel is closed every call on it reports the closed condition and
   nothing further is delivered from it; closing the connection closes all its channels and the transport and ends
   the reader.  Close itself returns in bounded time whatever the state of the receive queue and the peer."

   Result codes of a call as the harness writes them: (0 k) package k | (1) error wrapping a context error |
   (2) ErrChannelClosed | (3) ErrNoPackageReady | (4) another error | (5) io.EOF | (6) nil, nil | (9) did not return
   within the watchdog bound.  "Promptly" / "bounded time" are observed by the harness as "returned within the bound";
   the predicates sp_* below only read these observations and never use the model.
   The functions run_* predict the same observations from the model (C13/Model.v).  No proofs in this file. *)
From Coq Require Import ZArith List Bool.
Import ListNotations.
From V Require Import Base.Tree Base.Bytes C13.Model C13.Closers.
From V Require C13.SendClose.
Open Scope Z_scope.

Definition fuel : nat := 4000.

Definition code_tree (r : nres) : tree :=
  match r with
  | NPkg p => TL [TI 0; TI p]
  | NCtx | NConnCtx => TL [TI 1]
  | NClosed => TL [TI 2]
  | NNoPkg => TL [TI 3]
  | NConnErr | NChanErr => TL [TI 4]
  | NBlock => TL [TI 9]
  end.

Definition zseq (n : Z) : list Z := map Z.of_nat (seq 0 (Z.to_nat n)).
Definition done_packets (n : Z) : list rin := map (fun k => RinPkt true [k]) (zseq n).
Definition conn_mode (mode : Z) : bool := (mode =? 1) || (mode =? 2).

(* ------------------------------------------------------------------ fn 1: NextPackage with a cancelled context *)
(* input (kind cap mode nfed ncalls) *)
Fixpoint calls_cancelled (n : nat) (own_done : bool) (s : sys) : list tree :=
  match n with
  | O => []
  | S k =>
    match next_package (nstate_of s own_done) true with
    | NPkg p :: _ =>
        match pop s with
        | Some (_, s') => code_tree (NPkg p) :: calls_cancelled k own_done (run_reader fuel s')
        | None => [code_tree NBlock]
        end
    | NBlock :: _ => [code_tree NBlock]
    | r :: _ => code_tree r :: calls_cancelled k own_done s
    | [] => [code_tree NBlock]
    end
  end.

Definition run_recv_cancelled (i : tree) : tree :=
  let kind := t_int (t_nth 0 i) in
  let cap := t_int (t_nth 1 i) in
  let mode := t_int (t_nth 2 i) in
  let nfed := t_int (t_nth 3 i) in
  let ncalls := t_int (t_nth 4 i) in
  let s1 := run_reader fuel (sys0 cap 10 (kind =? 0) false false (done_packets nfed)) in
  let s2 := if conn_mode mode then set_conn_done s1 else s1 in
  TL (calls_cancelled (Z.to_nat ncalls) (negb (conn_mode mode)) s2).

(* each result is the next package in the order sent, or an error wrapping the context's error *)
Fixpoint sp_results (allow_nopkg : bool) (nsent : Z) (next : Z) (rs : list tree) : bool :=
  match rs with
  | [] => true
  | r :: rest =>
      let c := t_int (t_nth 0 r) in
      if c =? 0 then (t_int (t_nth 1 r) =? next) && (next <? nsent) && sp_results allow_nopkg nsent (next + 1) rest
      else ((c =? 1) || (allow_nopkg && (c =? 3))) && sp_results allow_nopkg nsent next rest
  end.

Definition sp_recv_cancelled (i o : tree) : bool :=
  (length (t_list o) =? Z.to_nat (t_int (t_nth 4 i)))%nat &&
  sp_results false (t_int (t_nth 3 i)) 0 (t_list o).

(* ------------------------------------------------------------------ fn 2: cancellation racing with arrivals *)
(* input (kind cap mode wait narrive (result ...)) output (1): the recorded results must be possible results of the
   model's NextPackage, whatever part of the packets has arrived at each call *)
Definition mem_res (r : tree) (l : list nres) : bool := existsb (fun x => tree_eqb r (code_tree x)) l.

Fixpoint adm_results (first : bool) (own conn wait : bool) (remaining : list Z) (rs : list tree) : bool :=
  match rs with
  | [] => true
  | r :: rest =>
      (* the first call may have started before the cancellation: then it only ends with the cancellation or a package *)
      let none_yet := mkN false [] remaining 0 0 own conn in
      let all_in := mkN false remaining [] 0 0 own conn in
      (mem_res r (next_package none_yet wait) || mem_res r (next_package all_in wait)) &&
      negb (t_int (t_nth 0 r) =? 9) &&
      adm_results false own conn wait (if t_int (t_nth 0 r) =? 0 then tl remaining else remaining) rest
  end.

Definition run_recv_during (i : tree) : tree :=
  let mode := t_int (t_nth 2 i) in
  let wait := t_bool (t_nth 3 i) in
  TL [of_bool (adm_results true (negb (conn_mode mode)) (conn_mode mode) wait (zseq (t_int (t_nth 4 i))) (t_list (t_nth 5 i)))].

Definition sp_recv_during (i o : tree) : bool :=
  sp_results (negb (t_bool (t_nth 3 i))) (t_int (t_nth 4 i)) 0 (t_list (t_nth 5 i)).

(* ------------------------------------------------------------------ fn 3: NextPackageUntil with a cancelled context *)
(* input (kind cap mode nfed final cbkind) output ((seen ...) result) *)
Definition ures_tree (u : ures) : tree :=
  match u with
  | UPkg p => TL [TI 0; TI p]
  | UEof => TL [TI 5]
  | UNil => TL [TI 6]
  | UErr r => code_tree r
  end.

Definition run_until (i : tree) : tree :=
  let kind := t_int (t_nth 0 i) in
  let cap := t_int (t_nth 1 i) in
  let mode := t_int (t_nth 2 i) in
  let nfed := t_int (t_nth 3 i) in
  let fin := t_bool (t_nth 4 i) in
  let cbkind := t_int (t_nth 5 i) in
  let s1 := run_reader fuel (sys0 cap 10 (kind =? 0) false false (done_packets nfed)) in
  let s2 := if conn_mode mode then set_conn_done s1 else s1 in
  let cb := if cbkind =? 0 then None else if cbkind =? 1 then Some 0 else Some 2 in
  let ns := nstate_of s2 (negb (conn_mode mode)) in
  let isfinal := fun p => fin && (p =? nfed - 1) in
  if 3 <=? cbkind then
    (* a callback that fails at its 1st (cbkind 3) / 2nd (cbkind 4) package *)
    let '(seen, r) := until_fail (S (2 * Z.to_nat nfed) + 2) ns isfinal (cbkind - 2) [] in
    TL [TL (map TI seen); match r with FCbErr => TL [TI 7] | FEnd u => ures_tree u end]
  else
  let '(seen, u) := until_done (S (Z.to_nat nfed) + 2) ns isfinal cb [] false in
  TL [TL (map TI seen); ures_tree u].

Fixpoint is_prefix_z (a b : list Z) : bool :=
  match a, b with
  | [], _ => true
  | x :: a', y :: b' => (x =? y) && is_prefix_z a' b'
  | _ :: _, [] => false
  end.

(* the callback saw queued packages in order; the call ended with a package it was shown, the end of the response,
   or an error wrapping the context's error *)
Definition sp_until (i o : tree) : bool :=
  let nfed := t_int (t_nth 3 i) in
  let seen := map t_int (t_list (t_nth 0 o)) in
  let c := t_int (t_nth 0 (t_nth 1 o)) in
  is_prefix_z seen (zseq nfed) &&
  ((c =? 1) || (c =? 5) || (c =? 6) || ((c =? 7) && (3 <=? t_int (t_nth 5 i))) ||
   ((c =? 0) && existsb (fun p => p =? t_int (t_nth 1 (t_nth 1 o))) seen)).

(* ------------------------------------------------------------------ fn 4: sending with a cancelled context *)
(* input (kind ps mode api npackets holdAt) output ((result ...) writes-after-cancellation); send results: (0) ok *)
Definition sres_tree (r : sres) : tree :=
  match r with SOk => TL [TI 0] | SCtx => TL [TI 1] | SClosed => TL [TI 2] end.

Definition run_send (i : tree) : tree :=
  let api := t_int (t_nth 3 i) in
  let np := t_int (t_nth 4 i) in
  let hold := t_int (t_nth 5 i) in
  let pkts := map (fun k => [k]) (zseq np) in
  let cancelled := fun _ : nat => true in
  let live := fun _ : nat => false in
  if hold <? 0 then
    let one := sres_tree (snd (send_call false cancelled pkts)) in
    let w := zlen (fst (send_call false cancelled pkts)) in
    if api =? 0 then TL [TL [one; one]; TI w]
    else if api =? 1 then TL [TL [one; one; one]; TI w]
    else TL [TL [sres_tree (snd (send_call false live [])); one; one]; TI w]
  else
    (* the context is cancelled while write number `hold` is in progress *)
    let '(ws, r) := send_call false (fun k => hold <? Z.of_nat k) pkts in
    TL [TL [sres_tree r]; TI (zlen ws - (hold + 1))].

(* nothing is written once the context is cancelled, and every call returns *)
Definition sp_send (i o : tree) : bool :=
  (t_int (t_nth 1 o) =? 0) &&
  forallb (fun r => negb (t_int (t_nth 0 r) =? 9)) (t_list (t_nth 0 o)).

(* ------------------------------------------------------------------ fn 5: every call after Close *)
(* input (kind nqueued nlate viaconn) output (close (result ...) writes-after delivered connerrs) *)
Definition closer_code (s : sys) : Z :=
  match cp s with
  | CDone c => c
  | KCancel | KTClose | KEnd => if cfail s then 1 else 0
  | _ => 9
  end.

Definition run_after_close (i : tree) : tree :=
  let kind := t_int (t_nth 0 i) in
  let nq := t_int (t_nth 1 i) in
  let nlate := t_int (t_nth 2 i) in
  let via := t_bool (t_nth 3 i) in
  (* the channel observed; with Conn.Close the other channel (channel 0 when a logical channel is observed) is closed
     too: its logout is answered, it adds no error *)
  let s0 := sys0 4 10 (kind =? 0) via ((kind =? 0) && (nq =? 0)) (done_packets nq) in
  let s1 := run_all fuel (run_reader fuel s0) in
  let ns := nstate_of s1 false in
  let np := fun w => match next_package ns w with r :: _ => code_tree r | [] => code_tree NBlock end in
  let snd_closed := sres_tree (snd (send_call (closed s1) (fun _ => false) [[0]])) in
  let again := match closer_step (set_c s1 CStart) with
               | Some s' => (match cp s' with CDone c => TL [TI c] | _ => TL [TI 9] end)
               | None => TL [TI 9]
               end in
  let late := run_reader fuel (add_incoming s1 (map (fun k => RinPkt true [100 + k]) (zseq nlate))) in
  TL [TI (closer_code s1);
      TL [np false; np true; np true; np false; snd_closed; snd_closed; snd_closed; again; snd_closed; snd_closed; again];
      TI 0;
      (if via then TL [] else TL [np false; np false; TI (zlen (pq late)); TI 0]);
      (if via then TL [] else TL (map (fun _ => TI (if kind =? 0 then 0 else 1)) (zseq (cerr late))))].

(* Close returned; every call reports the closed condition; nothing is written or delivered any more *)
Definition sp_after_close (i o : tree) : bool :=
  negb (t_int (t_nth 0 o) =? 9) &&
  forallb (fun r => tree_eqb r (TL [TI 2])) (t_list (t_nth 1 o)) &&
  (length (t_list (t_nth 1 o)) =? 11)%nat &&
  (t_int (t_nth 2 o) =? 0) &&
  (if t_bool (t_nth 3 i) then true
   else tree_eqb (t_nth 3 o) (TL [TL [TI 2]; TL [TI 2]; TI 0; TI 0])).

(* ------------------------------------------------------------------ fn 6: Close at every fill level *)
(* input (kind cap nfed nconsumed peer) output (returned code after) *)
Fixpoint consume (n : nat) (s : sys) : sys :=
  match n with
  | O => s
  | S k => match pop s with Some (_, s') => consume k (run_reader fuel s') | None => s end
  end.

Definition fill_state (i : tree) : sys :=
  let kind := t_int (t_nth 0 i) in
  let cap := t_int (t_nth 1 i) in
  let nfed := t_int (t_nth 2 i) in
  let ncons := t_int (t_nth 3 i) in
  let peer := t_int (t_nth 4 i) in
  (* the peer answers the logout only when nothing is queued (the harness arranges that) and it answers at all *)
  let rep := (kind =? 0) && (nfed =? ncons) && negb (peer =? 2) in
  consume (Z.to_nat ncons) (run_reader fuel (sys0 cap 10 (kind =? 0) false rep (done_packets nfed))).

Definition run_close_fill (i : tree) : tree :=
  let s := run_all fuel (fill_state i) in
  if closer_done s then TL [TI 1; TI (closer_code s); TI 2] else TL [TI 0; TI 9; TI (-1)].

(* "Close itself returns in bounded time whatever the state of the receive queue and the peer"; afterwards the
   channel reports the closed condition *)
Definition sp_close_fill (i o : tree) : bool :=
  (t_int (t_nth 0 o) =? 1) && (t_int (t_nth 2 o) =? 2) && negb (t_int (t_nth 1 o) =? -1).

(* ------------------------------------------------------------------ fn 8: Close racing with a woken reader *)
(* input (kind cap nfed nconsumed peer returned) output (1): channel 0, more packages undelivered than the queue holds
   plus one: the logout takes a package, the reader refills the queue; whether Close then finds the reader parked
   again depends on who is faster.  Both outcomes must be outcomes of the model. *)
Definition run_close_race (i : tree) : tree :=
  let s := fill_state i in
  let returned := t_bool (t_nth 5 i) in
  TL [of_bool (if returned then closer_done (run_closer_first fuel s) else negb (closer_done (run_all fuel s)))].

Definition sp_close_race (i o : tree) : bool := t_bool (t_nth 5 i).

(* ------------------------------------------------------------------ fn 7: Conn.Close *)
(* input (nchan cap (nqueued ...) peer transport nfail zeroclosed precancel) output (returned (closed ...) transport-closed reader-ended goroutines-ok) *)
Definition run_conn_close (i : tree) : tree :=
  let nchan := t_int (t_nth 0 i) in
  let cap := t_int (t_nth 1 i) in
  let nq := map t_int (t_list (t_nth 2 i)) in
  let peer := t_int (t_nth 3 i) in
  let transport := t_int (t_nth 4 i) in
  let nfail := t_int (t_nth 5 i) in
  let zc := t_bool (t_nth 6 i) in
  let precancel := t_bool (t_nth 7 i) in
  let has0 := (0 <? nchan) && negb zc in
  let nq0 := if has0 then nth 0 nq 0 else 0 in
  let base := sys0 cap 10 true true (has0 && (nq0 =? 0)) (done_packets nq0) in
  (* no channel 0 any more: the connection-level part of Conn.Close runs at once, nothing is registered *)
  let s0 := if has0 then base
            else mkS true [] cap 0 false false false 0 10 false false false RTop [] (CDone 0) true true false false in
  let s1 := run_reader fuel s0 in
  let s2 := if transport =? 1 then set_tfail s1
            else if transport =? 2 then add_incoming s1 (map (fun _ => RinFail) (zseq nfail)) else s1 in
  let s2c := run_reader fuel s2 in
  (* the connection context was cancelled before Close is called *)
  let s3 := run_all fuel (if precancel then set_conn_done s2c else s2c) in
  TL [of_bool (closer_done s3);
      TL (map (fun _ => TI 2) (zseq nchan));
      of_bool (tclosed s3); of_bool (reader_ended s3); of_bool (reader_ended s3)].

(* "closing the connection closes all its channels and the transport and ends the reader" *)
Definition sp_conn_close (i o : tree) : bool :=
  (t_int (t_nth 0 o) =? 1) &&
  forallb (fun c => t_int c =? 2) (t_list (t_nth 1 o)) &&
  (length (t_list (t_nth 1 o)) =? Z.to_nat (t_int (t_nth 0 i)))%nat &&
  (t_int (t_nth 2 o) =? 1) && (t_int (t_nth 3 o) =? 1) && (t_int (t_nth 4 o) =? 1).

(* ------------------------------------------------------------------ fn 9: Close while another goroutine waits in NextPackage *)
(* input (variant cancelAfter) output (close-returned [consumer-result]); variant 0 logical channel, 1 Conn.Close,
   2 channel 0 with a peer that never answers the logout.  The waiting consumer holds the read lock (rd = 1). *)
Definition run_close_waits (i : tree) : tree :=
  let variant := t_int (t_nth 0 i) in
  let ca := t_bool (t_nth 1 i) in
  let s := run_all fuel (set_rd (sys0 4 10 (variant =? 2) (variant =? 1) false []) 1) in
  if ca then
    (* its context is cancelled: the only ready case of its select, it returns and releases the read lock *)
    let r := match next_package (mkN false [] [] 0 0 true false) true with r :: _ => code_tree r | [] => code_tree NBlock end in
    TL [of_bool (closer_done (run_all fuel (release s))); r]
  else TL [of_bool (closer_done s)].

(* "Close itself returns in bounded time"; the cancelled consumer gets the error of its context *)
Definition sp_close_waits (i o : tree) : bool :=
  (t_int (t_nth 0 o) =? 1) &&
  (if t_bool (t_nth 1 i) then tree_eqb (t_nth 1 o) (TL [TI 1]) else true).

(* ------------------------------------------------------------------ fn 10: several closers of one channel *)
(* run_cclose / sp_cclose: C13/Closers.v (shared with C12); C13 does not read the packet numbers *)

(* ------------------------------------------------------------------ fn 11: packets for a closed channel *)
(* input (kind closevia via ((hdronly eom typ partial) ...))
   output (close-code (returned ...) (queued-packages queued-errors) (invalid-id ...) next-code connclose-returned reader-ended) *)
Definition pkt_of_tree (t : tree) (n : Z) : pkt :=
  if t_bool (t_nth 0 t) then PHdr (t_bool (t_nth 1 t)) n
  else PBody (t_bool (t_nth 1 t)) ((if t_bool (t_nth 3 t) then [] else [n]) ++ (if t_bool (t_nth 1 t) then [-1] else [])).

Definition reader_idle (s : sys) : bool :=
  match rp s, incoming s with RRead, [] => true | REnd, _ => true | _, _ => false end.

(* the packets one after the other; after each the connection's error queue is emptied.  Result: per packet 1 (the
   call returned / the reader asks for the next packet) or 9, the number of errors raised, the state *)
Fixpoint late_packets (direct : bool) (ps : list pkt) (s : sys) : list Z * Z * sys :=
  match ps with
  | [] => ([], 0, s)
  | p :: r =>
      let s1 := if direct then run_reader fuel (direct_write s (pkt_items p))
                else run_reader fuel (add_incoming s [rin_pkt true p]) in
      let ok := if direct then negb (in_write_packet s1) else reader_idle s1 in
      if ok then let '(rs, e, s2) := late_packets direct r (drain_cerr s1) in (1 :: rs, cerr s1 + e, s2)
      else ([9], cerr s1, s1)
  end.

Fixpoint pkts_of_trees (ts : list tree) (n : Z) : list pkt :=
  match ts with [] => [] | t :: r => pkt_of_tree t n :: pkts_of_trees r (n + 1) end.

(* Conn.Close from outside the system (the channel observed is closed already): context cancelled, transport closed *)
Definition conn_closed_later (s : sys) : sys := run_reader fuel (set_tclosed (set_conn_done s)).

Definition run_late (i : tree) : tree :=
  let kind := t_int (t_nth 0 i) in
  let cvia := t_bool (t_nth 1 i) in
  let direct := t_int (t_nth 2 i) =? 0 in
  let ps := pkts_of_trees (t_list (t_nth 3 i)) 100 in
  let s1 := run_all fuel (run_reader fuel (sys0 4 10 (kind =? 0) cvia (kind =? 0) [])) in
  let '(rs, nerr, s2) := late_packets direct ps (drain_cerr s1) in
  let stuck := existsb (fun r => r =? 9) rs in
  let s3 := if cvia then s2 else conn_closed_later s2 in
  TL [TI (closer_code s1);
      TL (map TI rs);
      TL [TI (zlen (pq s2)); TI 0];
      TL (map (fun _ => TI (if kind =? 0 then 0 else 1)) (zseq nerr));
      (if stuck then TI 9 else match next_package (nstate_of s2 false) false with r :: _ => t_nth 0 (code_tree r) | [] => TI 9 end);
      TI 1;
      of_bool (reader_ended s3)].

(* "After a channel is closed ... nothing further is delivered from it", nothing blocks, "closing the connection ...
   ends the reader"; (C12: "Packets for a channel that does not exist are reported as a connection error and otherwise
   ignored": through the reader every packet is reported once with the id, a direct call reports nothing) *)
Definition sp_late (i o : tree) : bool :=
  let n := length (t_list (t_nth 3 i)) in
  let id := if t_int (t_nth 0 i) =? 0 then 0 else 1 in
  negb (t_int (t_nth 0 o) =? 9) && negb (t_int (t_nth 0 o) =? -1) &&
  (length (t_list (t_nth 1 o)) =? n)%nat && forallb (fun r => t_int r =? 1) (t_list (t_nth 1 o)) &&
  tree_eqb (t_nth 2 o) (TL [TI 0; TI 0]) &&
  tree_eqb (t_nth 3 o) (TL (if t_int (t_nth 2 i) =? 0 then [] else repeat (TI id) n)) &&
  (t_int (t_nth 4 o) =? 2) && (t_int (t_nth 5 o) =? 1) && (t_int (t_nth 6 o) =? 1).

(* ------------------------------------------------------------------ fn 12: a packet in the window between lookup and lock *)
(* input (closer (hdronly eom typ partial))
   output (close-parked reader-parked close-returned close-code consumer-result queued reader-idle connclose-returned reader-ended)
   a consumer parked in NextPackage holds the read lock (rd = 1 from outside); Close (closer 0) / Conn.Close (closer 1)
   announces its Lock; the packet arrives and the reader, having found the channel registered, queues at the RLock;
   the consumer's context is cancelled; everybody runs on *)
Definition window_states (i : tree) : sys * sys * sys :=
  let cc := t_int (t_nth 0 i) =? 1 in
  let sA := run_all fuel (set_rd (sys0 4 10 false cc false []) 1) in
  let sB := run_reader fuel (add_incoming sA [rin_pkt true (pkt_of_tree (t_nth 1 i) 7)]) in
  (sA, sB, run_all fuel (release sB)).

Definition run_window (i : tree) : tree :=
  let cc := t_int (t_nth 0 i) =? 1 in
  let '(sA, sB, sC) := window_states i in
  let s_end := if cc then sC else conn_closed_later sC in
  TL [of_bool (match cp sA with CLockAcq => true | _ => false end);
      of_bool (match rp sB with RLockCh _ => true | _ => false end);
      of_bool (closer_done sC);
      TI (closer_code sC);
      (match next_package (mkN false [] [] 0 0 true false) true with r :: _ => code_tree r | [] => code_tree NBlock end);
      TI (zlen (pq sC));
      of_bool (reader_idle sC);
      TI 1;
      of_bool (reader_ended s_end)].

(* Close returns once the consumer is gone, the consumer gets the error of its context, nothing is delivered, the
   reader is not held up by the closed channel and ends with the connection *)
Definition sp_window (i o : tree) : bool :=
  (t_int (t_nth 2 o) =? 1) && ((t_int (t_nth 3 o) =? 0) || (t_int (t_nth 3 o) =? 1)) &&
  tree_eqb (t_nth 4 o) (TL [TI 1]) && (t_int (t_nth 5 o) =? 0) && (t_int (t_nth 6 o) =? 1) &&
  (t_int (t_nth 7 o) =? 1) && (t_int (t_nth 8 o) =? 1).

(* ------------------------------------------------------------------ fn 13: Close during a SendPackage
   input (kind closer ps npackets k mode peer ack obs)
   output (close-parked close-returned close-code send-returned send-code message-writes (next send close) unregistered
           transport-closed connclose-returned reader-ended)
   The message needs npackets packets: SendPackage = QueuePackage (npackets-1 full packets under the read lock), then
   SendRemainingPackets (read lock again, the last packet).  The k-th Write is held back by the transport, Close (closer 0)
   or Conn.Close (closer 1) is started.  mode 1: Close is parked in Lock() before the Write is released; mode 0: the
   Write is released at once, the observed send result obs tells which of the two orders the runtime chose. *)
Definition cds_out (parked : bool) (closer : Z) (s : SendClose.st) : tree :=
  let both := SendClose.sender_done s && SendClose.closer_done s in
  let c := if SendClose.closed s then 2 else 0 in
  TL [of_bool parked; of_bool (SendClose.closer_done s); TI (SendClose.closer_code s);
      of_bool (SendClose.sender_done s); TI (SendClose.sender_code s); TI (Z.of_nat (SendClose.writes s));
      (if both then TL [TI c; TI c; TI c] else TL []);
      of_bool (SendClose.closed s); of_bool ((closer =? 1) && SendClose.closer_done s); of_bool both; of_bool both].

Definition run_cds (i : tree) : tree :=
  let closer := t_int (t_nth 1 i) in
  let np := Z.to_nat (t_int (t_nth 3 i)) in
  let k := Z.to_nat (t_int (t_nth 4 i)) in
  let mode := t_int (t_nth 5 i) in
  let obs := t_int (t_nth 8 i) in
  let f := 64%nat in
  (* the sender is inside the k-th Write *)
  let s_hold := SendClose.run_sender f (SendClose.at_write k) (SendClose.init false (pred np) 1) in
  (* Close runs as far as it gets (it parks in Lock() behind the sender's read lock), then the Write is released *)
  let s_park := SendClose.run_closer f s_hold in
  let closer_first := SendClose.alternate 4 f s_park in
  let sender_first := SendClose.alternate 4 f s_hold in
  if negb (SendClose.at_write k s_hold) then tbad
  else if mode =? 1
  then cds_out (match SendClose.kp s_park with SendClose.KLockAcq => true | _ => false end) closer closer_first
  else if obs =? SendClose.sender_code sender_first then cds_out false closer sender_first
  else if obs =? SendClose.sender_code closer_first then cds_out false closer closer_first
  else tbad.

(* From the property text: Close returns in bounded time (nil or an error list), SendPackage returns - with nil and the
   whole message written, or with the closed condition (documented behaviour of the two sections: the first one was
   completed, the last packet was not written), or, the connection being closed, with the context's / transport's error
   and part of the message written; afterwards every call reports the closed condition, the channel is unregistered,
   Conn.Close has closed the transport, and the reader ends with the connection. *)
Definition sp_cds (i o : tree) : bool :=
  let closer := t_int (t_nth 1 i) in
  let np := t_int (t_nth 3 i) in
  let k := t_int (t_nth 4 i) in
  let sc := t_int (t_nth 4 o) in
  let w := t_int (t_nth 5 o) in
  (t_int (t_nth 1 o) =? 1) && ((t_int (t_nth 2 o) =? 0) || (t_int (t_nth 2 o) =? 1)) &&
  (t_int (t_nth 3 o) =? 1) &&
  (((sc =? 0) && (w =? np)) ||
   ((sc =? 2) && (w =? np - 1) && (k <? np)) ||
   ((closer =? 1) && ((sc =? 1) || (sc =? 4)) && (k <=? w) && (w <=? np))) &&
  tree_eqb (t_nth 6 o) (TL [TI 2; TI 2; TI 2]) &&
  (t_int (t_nth 7 o) =? 1) && ((closer =? 0) || (t_int (t_nth 8 o) =? 1)) &&
  (t_int (t_nth 9 o) =? 1) && (t_int (t_nth 10 o) =? 1).

(* ------------------------------------------------------------------ dispatch *)
Definition run (fn : Z) (i : tree) : tree :=
  match fn with
  | 1 => run_recv_cancelled i
  | 2 => run_recv_during i
  | 3 => run_until i
  | 4 => run_send i
  | 5 => run_after_close i
  | 6 => run_close_fill i
  | 7 => run_conn_close i
  | 8 => run_close_race i
  | 9 => run_close_waits i
  | 10 => run_cclose i
  | 11 => run_late i
  | 12 => run_window i
  | 13 => run_cds i
  | _ => tbad
  end.

Definition spec (fn : Z) (i o : tree) : bool :=
  match fn with
  | 1 => sp_recv_cancelled i o
  | 2 => sp_recv_during i o
  | 3 => sp_until i o
  | 4 => sp_send i o
  | 5 => sp_after_close i o
  | 6 => sp_close_fill i o
  | 7 => sp_conn_close i o
  | 8 => sp_close_race i o
  | 9 => sp_close_waits i o
  | 10 => sp_cclose false i o
  | 11 => sp_late i o
  | 12 => sp_window i o
  | 13 => sp_cds i o
  | _ => false
  end.
