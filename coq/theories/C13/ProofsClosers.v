(* C13 / C12 — lemmas about the system of n closers of one channel (C13/Closers.v): an invariant of EVERY step (counting
   the closers per program point), progress, a strictly decreasing measure, and what holds once all have returned. *)
From Coq Require Import ZArith List Bool Lia.
Import ListNotations.
From V Require Import Base.Tree Base.Bytes C13.Model C13.Closers.
Open Scope Z_scope.

Definition b2z (b : bool) : Z := if b then 1 else 0.

Fixpoint csum (g : cpc -> Z) (l : list cpc) : Z :=
  match l with [] => 0 | x :: r => g x + csum g r end.
Definition cnt (f : cpc -> bool) (l : list cpc) : Z := csum (fun pc => b2z (f pc)) l.

Lemma csum_upd : forall g l i pc x, nth_error l i = Some pc -> csum g (upd i x l) = csum g l - g pc + g x.
Proof.
  intros g l. induction l as [|y r IH]; intros i pc x H.
  - destruct i as [|k]; cbn in H; discriminate H.
  - destruct i as [|k].
    + cbn in H. inversion H; subst. cbn [upd csum]. lia.
    + cbn in H. cbn [upd csum]. rewrite (IH k pc x H). lia.
Qed.

Lemma length_upd : forall (l : list cpc) i x, length (upd i x l) = length l.
Proof.
  intros l. induction l as [|y r IH]; intros i x; [reflexivity|].
  destruct i as [|k]; cbn [upd length]; [reflexivity | rewrite IH; reflexivity].
Qed.

Lemma csum_nonneg : forall g l, (forall pc, 0 <= g pc) -> 0 <= csum g l.
Proof.
  intros g l H. induction l as [|y r IH]; cbn [csum]; [lia | specialize (H y); lia].
Qed.

Lemma csum_elem : forall g l i pc, (forall x, 0 <= g x) -> nth_error l i = Some pc -> g pc <= csum g l.
Proof.
  intros g l. induction l as [|y r IH]; intros i pc Hg H.
  - destruct i as [|k]; cbn in H; discriminate H.
  - destruct i as [|k]; cbn in H; cbn [csum].
    + inversion H; subst. pose proof (csum_nonneg g r Hg). lia.
    + specialize (IH k pc Hg H). specialize (Hg y). lia.
Qed.

Lemma b2z_nonneg : forall b, 0 <= b2z b.
Proof. intros b. destruct b; cbn; lia. Qed.

Lemma cnt_nonneg : forall f l, 0 <= cnt f l.
Proof. intros f l. apply csum_nonneg. intros pc. apply b2z_nonneg. Qed.

Lemma cnt_elem : forall f l i pc, nth_error l i = Some pc -> b2z (f pc) <= cnt f l.
Proof. intros f l i pc H. exact (csum_elem (fun x => b2z (f x)) l i pc (fun x => b2z_nonneg (f x)) H). Qed.

Lemma cnt_upd : forall f l i pc x, nth_error l i = Some pc -> cnt f (upd i x l) = cnt f l - b2z (f pc) + b2z (f x).
Proof. intros f l i pc x H. exact (csum_upd (fun y => b2z (f y)) l i pc x H). Qed.

Lemma cnt_pos_ex : forall f l, 0 < cnt f l -> exists i pc, nth_error l i = Some pc /\ f pc = true.
Proof.
  intros f l. induction l as [|y r IH]; intros H.
  - cbn in H. lia.
  - destruct (f y) eqn:E.
    + exists O, y. split; [reflexivity | exact E].
    + unfold cnt in H. cbn [csum] in H. rewrite E in H. cbn [b2z] in H.
      destruct (IH ltac:(unfold cnt; lia)) as [i [pc [H1 H2]]]. exists (S i), pc. split; [exact H1 | exact H2].
Qed.

Lemma cnt_add : forall f g h l, (forall pc, b2z (f pc) = b2z (g pc) + b2z (h pc)) -> cnt f l = cnt g l + cnt h l.
Proof.
  intros f g h l H. induction l as [|y r IH]; [reflexivity|].
  unfold cnt in *. cbn [csum]. rewrite IH, (H y). lia.
Qed.

Lemma cnt_le : forall f g l, (forall pc, b2z (f pc) <= b2z (g pc)) -> cnt f l <= cnt g l.
Proof.
  intros f g l H. induction l as [|y r IH]; [cbn; lia|].
  unfold cnt in *. cbn [csum]. specialize (H y). lia.
Qed.

Lemma cnt_zero_elem : forall f l i pc, cnt f l = 0 -> nth_error l i = Some pc -> f pc = false.
Proof.
  intros f l i pc H E. pose proof (cnt_elem f l i pc E) as H1. destruct (f pc); [cbn in H1; lia | reflexivity].
Qed.

Lemma cnt_repeat : forall f pc n, f pc = false -> cnt f (repeat pc n) = 0.
Proof.
  intros f pc n H. induction n as [|k IH]; [reflexivity|].
  unfold cnt in *. cbn [repeat csum]. rewrite H, IH. reflexivity.
Qed.

(* ---- the program points that matter *)
Definition crit (pc : cpc) : bool := match pc with CMark | CUnreg | CDrain | CUnlock => true | _ => false end.
Definition waits (pc : cpc) : bool := match pc with CLockAcq => true | _ => false end.
Definition is_win (pc : cpc) : bool := match pc with CDone c => (c =? 0) || (c =? 1) | _ => false end.
Definition won (pc : cpc) : bool := match pc with CUnreg | CDrain | CUnlock => true | _ => is_win pc end.
Definition won_early (pc : cpc) : bool := match pc with CUnreg | CDrain => true | _ => false end.
Definition drained (pc : cpc) : bool := match pc with CUnlock => true | _ => is_win pc end.
Definition unr (pc : cpc) : bool := match pc with CDrain | CUnlock => true | _ => is_win pc end.
Definition lost (pc : cpc) : bool := match pc with CDone c => c =? 2 | _ => false end.
(* past the compare-and-swap / before the mark / the teardown packet written *)
Definition pre (pc : cpc) : bool := match pc with CSend | CLockReq | CLockAcq | CMark => true | _ => false end.
Definition passed (pc : cpc) : bool := pre pc || won pc.
Definition sent (pc : cpc) : bool := match pc with CLockReq | CLockAcq | CMark => true | _ => won pc end.
(* program points a closer of a logical channel never reaches: the logout, Conn.Close's own steps, other results *)
Definition bad (left : bool) (pc : cpc) : bool :=
  match pc with
  | CLogoutWait | KCancel | KTClose | KEnd => true
  | CDone c => negb ((c =? 2) || (c =? (if left then 1 else 0)))
  | _ => false
  end.
Definition crk (pc : cpc) : Z :=
  match pc with
  | CStart => 10 | CCas => 9 | CSend => 8 | CLockReq => 7 | CLockAcq => 6 | CMark => 5 | CUnreg => 4 | CDrain => 3 | CUnlock => 2
  | _ => 0
  end.

(* the invariant of the code as it is (compare-and-swap present); the re-check under the write lock may or may not be
   there: it is never reached with `closed` set *)
Definition cinv (s : csys) : Prop :=
  c_guard s = true /\
  cnt crit (c_pcs s) = b2z (c_wheld s) /\
  cnt waits (c_pcs s) = c_pending s /\
  cnt won (c_pcs s) = b2z (c_closed s) /\
  cnt unr (c_pcs s) = c_unregs s /\
  cnt drained (c_pcs s) = b2z (c_nil s) /\
  c_registered s = (c_unregs s =? 0) /\
  c_panic s = false /\
  cnt (bad (c_left s)) (c_pcs s) = 0 /\
  (c_closing s = false -> cnt lost (c_pcs s) = 0) /\
  cnt passed (c_pcs s) = b2z (c_closing s) /\
  cnt sent (c_pcs s) = c_teardowns s.

Lemma won_split : forall l, cnt won l = cnt won_early l + cnt drained l.
Proof. intros l. apply cnt_add. intros pc. destruct pc; cbn; lia. Qed.

Lemma passed_split : forall l, cnt passed l = cnt pre l + cnt won l.
Proof.
  intros l. apply cnt_add. intros pc. unfold passed. destruct pc; cbn; lia.
Qed.

Lemma unr_le_won : forall l, cnt unr l <= cnt won l.
Proof. intros l. apply cnt_le. intros pc. destruct pc; cbn; lia. Qed.

Lemma sent_le_passed : forall l, cnt sent l <= cnt passed l.
Proof.
  intros l. apply cnt_le. intros pc. unfold passed. destruct pc; cbn; lia.
Qed.

Lemma cinv_init : forall recheck left n, cinv (cinit true recheck left n).
Proof.
  intros recheck left n. unfold cinv, cinit.
  cbn [c_guard c_recheck c_wheld c_pending c_closed c_closing c_unregs c_nil c_registered c_panic c_left c_pcs c_teardowns b2z].
  rewrite !cnt_repeat by reflexivity. repeat split; reflexivity.
Qed.

Ltac b2z_compute :=
  repeat match goal with
         | |- context [b2z ?t] => let v := eval vm_compute in (b2z t) in progress change (b2z t) with v
         | H : context [b2z ?t] |- _ => let v := eval vm_compute in (b2z t) in progress change (b2z t) with v in H
         end.

Lemma cinv_step : forall s i s', cinv s -> cstep s i = Some s' -> cinv s'.
Proof.
  intros s i s' [H1 [H2 [H3 [H4 [H5 [H6 [H7 [H8 [H9 [H10 [H11 H12]]]]]]]]]]] H.
  unfold cstep in H. destruct (nth_error (c_pcs s) i) as [pc|] eqn:E; [|discriminate H].
  pose proof (cnt_elem crit _ _ _ E) as Ecrit. pose proof (cnt_elem waits _ _ _ E) as Ewaits.
  pose proof (cnt_elem won _ _ _ E) as Ewon. pose proof (cnt_elem won_early _ _ _ E) as Eearly.
  pose proof (cnt_elem drained _ _ _ E) as Edrained. pose proof (cnt_elem unr _ _ _ E) as Eunr.
  pose proof (cnt_elem lost _ _ _ E) as Elost. pose proof (cnt_elem (bad (c_left s)) _ _ _ E) as Ebad.
  pose proof (cnt_elem pre _ _ _ E) as Epre. pose proof (cnt_elem passed _ _ _ E) as Epassed.
  pose proof (cnt_elem sent _ _ _ E) as Esent.
  pose proof (won_split (c_pcs s)) as Hsplit. pose proof (unr_le_won (c_pcs s)) as Hle.
  pose proof (passed_split (c_pcs s)) as Hsplit2.
  pose proof (cnt_nonneg won_early (c_pcs s)) as N1. pose proof (cnt_nonneg drained (c_pcs s)) as N2.
  pose proof (cnt_nonneg unr (c_pcs s)) as N3. pose proof (cnt_nonneg lost (c_pcs s)) as N4.
  pose proof (cnt_nonneg crit (c_pcs s)) as N5. pose proof (cnt_nonneg waits (c_pcs s)) as N6.
  pose proof (cnt_nonneg pre (c_pcs s)) as N7. pose proof (cnt_nonneg won (c_pcs s)) as N8.
  destruct s as [gd rc lf cg cl nl rg un td pd wh pn pcs].
  cbn [c_guard c_recheck c_wheld c_pending c_closed c_closing c_unregs c_nil c_registered c_panic c_left c_pcs c_teardowns] in *.
  subst gd. subst rg. subst pn.
  destruct (0 <? pd) eqn:Epd;
  destruct pc; try discriminate H; destruct rc; destruct lf; destruct cg; destruct cl; destruct nl; destruct wh;
    cbn [andb orb] in H; try discriminate H; inversion H; subst s'; clear H;
    unfold cinv, cset; cbn [c_guard c_recheck c_wheld c_pending c_closed c_closing c_unregs c_nil c_registered c_panic c_left c_pcs c_teardowns];
    rewrite ?(cnt_upd _ _ _ _ _ E); b2z_compute;
    try (exfalso; lia);
    (split; [reflexivity|]); (split; [lia|]); (split; [lia|]); (split; [lia|]); (split; [lia|]); (split; [lia|]);
    (split; [first [reflexivity | symmetry; apply Z.eqb_neq; lia]|]); (split; [reflexivity|]); (split; [lia|]);
    (split; [intros Hc; try discriminate Hc; specialize (H10 Hc); lia|]); (split; [lia | lia]).
Qed.

Lemma cinv_exec : forall ls s, cinv s -> cinv (cexec s ls).
Proof.
  intros ls. induction ls as [|i r IH]; intros s H; [exact H|].
  change (cexec s (i :: r)) with (cexec (cexec1 s i) r). apply IH. unfold cexec1.
  destruct (cstep s i) as [s'|] eqn:E; [exact (cinv_step s i s' H E) | exact H].
Qed.

Lemma cstep_length : forall s i s', cstep s i = Some s' -> length (c_pcs s') = length (c_pcs s) /\ c_left s' = c_left s.
Proof.
  intros s i s' H. unfold cstep in H. destruct (nth_error (c_pcs s) i) as [pc|]; [|discriminate H].
  destruct pc; try discriminate H;
    repeat match type of H with
           | context [if ?b then _ else _] => destruct b; try discriminate H
           end;
    inversion H; subst s'; unfold cset; cbn [c_pcs c_left]; rewrite length_upd; split; reflexivity.
Qed.

Lemma cexec_length : forall ls s, length (c_pcs (cexec s ls)) = length (c_pcs s) /\ c_left (cexec s ls) = c_left s.
Proof.
  intros ls. induction ls as [|i r IH]; intros s; [split; reflexivity|].
  change (cexec s (i :: r)) with (cexec (cexec1 s i) r). unfold cexec1.
  destruct (cstep s i) as [s'|] eqn:E; [|exact (IH s)].
  destruct (cstep_length s i s' E) as [L1 L2]. destruct (IH s') as [L3 L4]. split; congruence.
Qed.

Lemma cexec_init_length : forall gd rc left n ls,
  length (c_pcs (cexec (cinit gd rc left n) ls)) = n /\ c_left (cexec (cinit gd rc left n) ls) = left.
Proof.
  intros gd rc left n ls. destruct (cexec_length ls (cinit gd rc left n)) as [H1 H2]. split.
  - rewrite H1. unfold cinit. cbn [c_pcs]. apply repeat_length.
  - rewrite H2. reflexivity.
Qed.

(* ---- safety in every reachable state *)
Lemma cinv_safe : forall s, cinv s ->
  c_panic s = false /\ c_unregs s <= 1 /\ c_teardowns s <= 1 /\
  (forall i c, nth_error (c_pcs s) i = Some (CDone c) -> c = 2 \/ c = (if c_left s then 1 else 0)).
Proof.
  intros s [H1 [H2 [H3 [H4 [H5 [H6 [H7 [H8 [H9 [H10 [H11 H12]]]]]]]]]]].
  split; [exact H8|]. split; [|split].
  - pose proof (unr_le_won (c_pcs s)). destruct (c_closed s); cbn [b2z] in H4; lia.
  - pose proof (sent_le_passed (c_pcs s)). destruct (c_closing s); cbn [b2z] in H11; lia.
  - intros i c E. pose proof (cnt_zero_elem _ _ _ _ H9 E) as B. cbn [bad] in B.
    apply negb_false_iff in B. apply orb_true_iff in B. destruct B as [B|B]; apply Z.eqb_eq in B; [left | right]; exact B.
Qed.

(* ---- progress: as long as some closer has not returned, some closer can move *)
Lemma forallb_false_ex : forall (f : cpc -> bool) l, forallb f l = false -> exists i pc, nth_error l i = Some pc /\ f pc = false.
Proof.
  intros f l. induction l as [|y r IH]; intros H; [discriminate H|].
  cbn [forallb] in H. destruct (f y) eqn:E.
  - destruct (IH H) as [i [pc [H1 H2]]]. exists (S i), pc. split; [exact H1 | exact H2].
  - exists O, y. split; [reflexivity | exact E].
Qed.

Lemma cprogress : forall s, cinv s -> all_returned s = false -> exists i s', cstep s i = Some s'.
Proof.
  intros s [H1 [H2 [H3 [H4 [H5 [H6 [H7 [H8 [H9 [H10 [H11 H12]]]]]]]]]]] Hnd.
  destruct (c_wheld s) eqn:Ewh; cbn [b2z] in H2.
  - (* the holder of the lock always moves *)
    destruct (cnt_pos_ex crit (c_pcs s) ltac:(lia)) as [i [pc [E C]]]. exists i.
    unfold cstep. rewrite E. destruct pc; cbn in C; try discriminate C.
    + destruct (c_recheck s && c_closed s); eexists; reflexivity.
    + eexists; reflexivity.
    + destruct (c_nil s); eexists; reflexivity.
    + eexists; reflexivity.
  - destruct (0 <? c_pending s) eqn:Epd.
    + apply Z.ltb_lt in Epd. destruct (cnt_pos_ex waits (c_pcs s) ltac:(lia)) as [i [pc [E C]]]. exists i.
      unfold cstep. rewrite E. destruct pc; cbn in C; try discriminate C. rewrite Ewh. eexists; reflexivity.
    + apply Z.ltb_ge in Epd. pose proof (cnt_nonneg waits (c_pcs s)) as N.
      destruct (forallb_false_ex is_cdone (c_pcs s) Hnd) as [i [pc [E C]]]. exists i.
      assert (W0 : cnt waits (c_pcs s) = 0) by lia.
      pose proof (cnt_zero_elem crit (c_pcs s) i pc H2 E) as Ncrit.
      pose proof (cnt_zero_elem waits (c_pcs s) i pc W0 E) as Nwait.
      pose proof (cnt_zero_elem (bad (c_left s)) (c_pcs s) i pc H9 E) as Nbad.
      unfold cstep. rewrite E.
      destruct pc; cbn in C, Ncrit, Nwait, Nbad; try discriminate.
      * replace (0 <? c_pending s) with false by (symmetry; apply Z.ltb_ge; lia). rewrite Ewh. cbn. eexists; reflexivity.
      * destruct (c_guard s && c_closing s); eexists; reflexivity.
      * eexists; reflexivity.
      * eexists; reflexivity.
Qed.

(* ---- termination: every move lowers the sum of the closers' ranks *)
Definition cmeasure (s : csys) : Z := csum crk (c_pcs s).

Lemma cmeasure_step : forall s i s', cstep s i = Some s' -> cmeasure s' < cmeasure s.
Proof.
  intros s i s' H. unfold cstep in H. destruct (nth_error (c_pcs s) i) as [pc|] eqn:E; [|discriminate H].
  destruct pc; try discriminate H;
    repeat match type of H with
           | context [if ?b then _ else _] => destruct b; try discriminate H
           end;
    inversion H; subst s'; unfold cmeasure, cset; cbn [c_pcs]; rewrite (csum_upd _ _ _ _ _ E); cbn [crk]; lia.
Qed.

Fixpoint crun_eff (s : csys) (ls : list nat) : option csys :=
  match ls with
  | [] => Some s
  | i :: r => match cstep s i with Some s' => crun_eff s' r | None => None end
  end.

Lemma crun_eff_bound : forall ls s s', crun_eff s ls = Some s' -> cmeasure s' + Z.of_nat (length ls) <= cmeasure s.
Proof.
  intros ls. induction ls as [|i r IH]; intros s s' H.
  - cbn in H. inversion H; subst. cbn. lia.
  - cbn [crun_eff] in H. destruct (cstep s i) as [s1|] eqn:E; [|discriminate H].
    specialize (IH s1 s' H). pose proof (cmeasure_step s i s1 E). cbn [length]. lia.
Qed.

Lemma cmeasure_nonneg : forall s, 0 <= cmeasure s.
Proof. intros s. apply csum_nonneg. intros pc. destruct pc; cbn; lia. Qed.

Lemma cmeasure_init : forall gd rc left n, cmeasure (cinit gd rc left n) = 10 * Z.of_nat n.
Proof.
  intros gd rc left n. unfold cmeasure, cinit. cbn [c_pcs]. induction n as [|k IH]; [reflexivity|].
  cbn [repeat csum crk]. rewrite IH. lia.
Qed.

(* ---- once every closer has returned *)
Lemma all_done_counts : forall left l, forallb is_cdone l = true -> cnt (bad left) l = 0 ->
  cnt won l = cnt is_win l /\ cnt unr l = cnt is_win l /\ cnt drained l = cnt is_win l /\
  cnt crit l = 0 /\ cnt waits l = 0 /\ cnt is_win l + cnt lost l = Z.of_nat (length l) /\
  cnt passed l = cnt is_win l /\ cnt sent l = cnt is_win l.
Proof.
  intros left l. induction l as [|y r IH]; intros Hd Hb.
  - cbn. repeat split; reflexivity.
  - cbn [forallb] in Hd. apply andb_true_iff in Hd. destruct Hd as [Hy Hr].
    pose proof (cnt_nonneg (bad left) r) as N. pose proof (b2z_nonneg (bad left y)) as N0.
    unfold cnt in Hb, N. cbn [csum] in Hb.
    assert (Hb' : cnt (bad left) r = 0) by (unfold cnt; lia).
    assert (By : bad left y = false) by (destruct (bad left y); [cbn [b2z] in Hb; lia | reflexivity]).
    destruct (IH Hr Hb') as [I1 [I2 [I3 [I4 [I5 [I6 [I7 I8]]]]]]].
    destruct y; try discriminate Hy. cbn [bad] in By. apply negb_false_iff in By.
    unfold cnt in *. cbn [csum won unr drained crit waits lost is_win length passed pre sent orb]. rewrite Nat2Z.inj_succ.
    rewrite I1, I2, I3, I4, I5, I7, I8.
    repeat split; try lia.
    destruct left; apply orb_true_iff in By; destruct By as [By|By]; apply Z.eqb_eq in By; subst code; b2z_compute; lia.
Qed.

Lemma call_returned : forall s, cinv s -> (0 < length (c_pcs s))%nat -> all_returned s = true ->
  cnt is_win (c_pcs s) = 1 /\ cnt lost (c_pcs s) = Z.of_nat (length (c_pcs s)) - 1 /\
  c_unregs s = 1 /\ c_teardowns s = 1 /\ c_registered s = false /\ c_closed s = true /\ c_nil s = true /\
  c_wheld s = false /\ c_pending s = 0.
Proof.
  intros s [H1 [H2 [H3 [H4 [H5 [H6 [H7 [H8 [H9 [H10 [H11 H12]]]]]]]]]]] Hn Hd.
  destruct (all_done_counts (c_left s) (c_pcs s) Hd H9) as [A1 [A2 [A3 [A4 [A5 [A6 [A7 A8]]]]]]].
  assert (Hg : c_closing s = true).
  { destruct (c_closing s) eqn:Ec; [reflexivity|]. exfalso. specialize (H10 eq_refl). cbn [b2z] in H11. lia. }
  rewrite Hg in H11. cbn [b2z] in H11.
  assert (W : cnt is_win (c_pcs s) = 1) by lia.
  assert (Hc : c_closed s = true) by (destruct (c_closed s); [reflexivity | cbn [b2z] in H4; lia]).
  split; [exact W|]. split; [lia|]. split; [lia|]. split; [lia|].
  split; [rewrite H7; apply Z.eqb_neq; lia|]. split; [exact Hc|].
  split; [destruct (c_nil s); [reflexivity | cbn [b2z] in H6; lia]|].
  split; [destruct (c_wheld s); [cbn [b2z] in H2; lia | reflexivity] | lia].
Qed.

(* ---- the statement of C13_concurrent_close / C12_concurrent_close *)
Lemma concurrent_close : forall recheck left n ls,
  let s := cexec (cinit true recheck left (S n)) ls in
  (c_panic s = false /\ c_unregs s <= 1 /\ c_teardowns s <= 1 /\
   (forall i c, nth_error (c_pcs s) i = Some (CDone c) -> c = 2 \/ c = (if left then 1 else 0))) /\
  (all_returned s = false -> exists i s', cstep s i = Some s') /\
  (all_returned s = true ->
     cnt is_win (c_pcs s) = 1 /\ cnt lost (c_pcs s) = Z.of_nat n /\
     c_unregs s = 1 /\ c_teardowns s = 1 /\ c_registered s = false /\ c_closed s = true /\ c_wheld s = false /\ c_pending s = 0) /\
  (forall ls' s', crun_eff (cinit true recheck left (S n)) ls' = Some s' -> Z.of_nat (length ls') <= 10 * Z.of_nat (S n)).
Proof.
  intros recheck left n ls s.
  assert (Hi : cinv s) by (apply cinv_exec; apply cinv_init).
  destruct (cexec_init_length true recheck left (S n) ls) as [Hlen Hleft].
  change (cexec (cinit true recheck left (S n)) ls) with s in Hlen, Hleft.
  split.
  - destruct (cinv_safe s Hi) as [S1 [S2 [S3 S4]]]. split; [exact S1|]. split; [exact S2|]. split; [exact S3|].
    intros i c E. rewrite <- Hleft. exact (S4 i c E).
  - split; [exact (cprogress s Hi)|]. split.
    + intros Hd. destruct (call_returned s Hi ltac:(rewrite Hlen; apply Nat.lt_0_succ) Hd) as [R1 [R2 [R3 [R4 [R5 [R6 [_ [R8 R9]]]]]]]].
      split; [exact R1|]. split; [rewrite R2, Hlen, Nat2Z.inj_succ; lia|]. repeat split; assumption.
    + intros ls' s' H. pose proof (crun_eff_bound ls' _ _ H) as Hb. rewrite cmeasure_init in Hb.
      pose proof (cmeasure_nonneg s'). lia.
Qed.
