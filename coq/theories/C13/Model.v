(* C13 — model of cancellation and closing in tds/channel.go and tds/conn.go (current tree).

   Part 1  Channel.NextPackage as the SET of its possible results (closed check, the first non-blocking poll of
           packageCh, then a select over ctx.Done, the connection's ctx.Done, the connection's error queue, the
           channel's error queue, packageCh and - if wait is false - ErrNoPackageReady).  Go's select picks any
           ready case; packages that arrive while the call runs are the list n_arr.
           NextPackageUntil as the loop over it.
   Part 2  sendPackets: the context check in front of every packet write; the closed check of the callers.
   Part 3  an interleaving system of the goroutines that matter for Close / Conn.Close on ONE channel:
             the reader goroutine (Conn.ReadFrom: loop guard, Packet.ReadFrom, routing, Channel.WritePacket:
               RLock, closed?, one send on packageCh per package, RUnlock; errors go to Conn.errCh),
             the closing goroutine (Channel.Close: closed?; compare-and-swap of `closing`; teardown packet or logout (send, wait for the answer
               with a one-minute context); Lock; closed = true; unregister; drain; Unlock; for Conn.Close then
               ctxCancel(); conn.Close()),
             the peer's answer to the logout, the expiry of the logout's one-minute context.
           sync.RWMutex as Go implements it: a pending Lock blocks new RLocks, Lock is granted when no reader is left.
           Channels are bounded FIFOs; a send on a full one blocks.  A label names who moves; a move that is not
           possible (blocked, finished) is `None`.
   Assumptions of the model are listed in props/c13.py.  No proofs in this file. *)
From Coq Require Import ZArith List Bool.
Import ListNotations.
From V Require Import Base.Tree Base.Bytes.
Open Scope Z_scope.

(* ------------------------------------------------------------------ part 1: NextPackage *)

Inductive nres :=
| NPkg (p : Z)      (* a package, identified by a number *)
| NCtx              (* error wrapping ctx.Err() of the passed context *)
| NConnCtx          (* error wrapping the connection context's error *)
| NConnErr          (* an error taken from the connection's error queue *)
| NChanErr          (* an error taken from the channel's error queue *)
| NNoPkg            (* ErrNoPackageReady *)
| NClosed           (* ErrChannelClosed *)
| NBlock.           (* no case of the select is ready: the call blocks *)

Record nstate := mkN {
  n_closed : bool;
  n_q : list Z;        (* packageCh *)
  n_arr : list Z;      (* packages that arrive while the call is in its select, in order *)
  n_cerr : Z;          (* errors queued on Conn.errCh *)
  n_err : Z;           (* errors queued on the channel's errCh *)
  n_ctx : bool;        (* the passed context is done *)
  n_conn : bool        (* the connection context is done *)
}.

Definition select_cases (s : nstate) (wait : bool) : list nres :=
  (if n_ctx s then [NCtx] else []) ++
  (if n_conn s then [NConnCtx] else []) ++
  (if 0 <? n_cerr s then [NConnErr] else []) ++
  (if 0 <? n_err s then [NChanErr] else []) ++
  (match n_arr s with a :: _ => [NPkg a] | [] => [] end) ++
  (if wait then [] else [NNoPkg]).

Definition next_package (s : nstate) (wait : bool) : list nres :=
  if n_closed s then [NClosed] else
  match n_q s with
  | p :: _ => [NPkg p]
  | [] => match select_cases s wait with [] => [NBlock] | l => l end
  end.

(* the state after the call returned r *)
Definition after_result (s : nstate) (r : nres) : nstate :=
  match r with
  | NPkg _ => match n_q s with
              | _ :: q => mkN (n_closed s) q (n_arr s) (n_cerr s) (n_err s) (n_ctx s) (n_conn s)
              | [] => mkN (n_closed s) [] (tl (n_arr s)) (n_cerr s) (n_err s) (n_ctx s) (n_conn s)
              end
  | NConnErr => mkN (n_closed s) (n_q s) (n_arr s) (n_cerr s - 1) (n_err s) (n_ctx s) (n_conn s)
  | NChanErr => mkN (n_closed s) (n_q s) (n_arr s) (n_cerr s) (n_err s - 1) (n_ctx s) (n_conn s)
  | _ => s
  end.

(* packages that arrived meanwhile are in the queue before the next call *)
Definition arrive (k : nat) (s : nstate) : nstate :=
  mkN (n_closed s) (n_q s ++ firstn k (n_arr s)) (skipn k (n_arr s)) (n_cerr s) (n_err s) (n_ctx s) (n_conn s).

(* NextPackageUntil with the callbacks the harness uses, on a queue that nothing is added to and a done context:
   cb = None: consume up to the final DONE; Some stop_at: callback that ends the call at its stop_at-th package
   (0 = never).  `final p`: package p is a DONE(final).  Result: packages shown to the callback, outcome. *)
Inductive ures := UPkg (p : Z) | UEof | UNil | UErr (r : nres).

Fixpoint until_done (fuel : nat) (s : nstate) (final : Z -> bool) (cb : option Z) (seen : list Z) (inner : bool)
  : list Z * ures :=
  match fuel with
  | O => (seen, UErr NBlock)
  | S f =>
    match next_package s true with
    | [NPkg p] =>
        let s' := after_result s (NPkg p) in
        match cb with
        | None =>
            if inner then (if final p then (seen, UNil) else until_done f s' final cb seen inner)
            else if final p then (seen, UEof) else until_done f s' final cb seen true
        | Some stop =>
            let seen' := seen ++ [p] in
            if zlen seen' =? stop then (seen', UPkg p) else until_done f s' final cb seen' inner
        end
    | r :: _ => (seen, UErr r)
    | [] => (seen, UErr NBlock)
    end
  end.

(* a callback that fails (with an error that is not io.EOF) at its n-th package: unless that package is the final DONE
   the rest of the response is consumed first (NextPackageUntil with a nil callback, its result ignored), then the
   callback's error is returned.  UCbErr: "tds: error in user-defined processing function: ..." *)
Inductive fres := FCbErr | FEnd (u : ures).

Fixpoint until_fail (fuel : nat) (s : nstate) (final : Z -> bool) (n : Z) (seen : list Z) : list Z * fres :=
  match fuel with
  | O => (seen, FEnd (UErr NBlock))
  | S f =>
    match next_package s true with
    | [NPkg p] =>
        let s' := after_result s (NPkg p) in
        let seen' := seen ++ [p] in
        if zlen seen' =? n then
          if final p then (seen', FCbErr)
          else match snd (until_done f s' final None [] false) with
               | UErr NBlock => (seen', FEnd (UErr NBlock))          (* the drain blocks: so does the call *)
               | _ => (seen', FCbErr)
               end
        else until_fail f s' final n seen'
    | r :: _ => (seen, FEnd (UErr r))
    | [] => (seen, FEnd (UErr NBlock))
    end
  end.

(* ------------------------------------------------------------------ part 2: sending *)

Inductive sres := SOk | SCtx | SClosed.

(* sendPackets: for i, packet := range queue { select { ctx done / conn ctx done -> error; default: write } }.
   done_at i: one of the two contexts is done when the loop reaches packet i. *)
Fixpoint send_loop (i : nat) (done_at : nat -> bool) (pk : list bytes) : list bytes * sres :=
  match pk with
  | [] => ([], SOk)
  | p :: r => if done_at i then ([], SCtx)
              else let '(w, e) := send_loop (S i) done_at r in (p :: w, e)
  end.

(* QueuePackage / SendRemainingPackets / SendPackage: closed check under the read lock, then the loop *)
Definition send_call (closed : bool) (done_at : nat -> bool) (pk : list bytes) : list bytes * sres :=
  if closed then ([], SClosed) else send_loop 0 done_at pk.

(* ------------------------------------------------------------------ part 3: the goroutines around Close *)

Inductive rin :=
| RinPkt (mine : bool) (items : list Z)   (* a packet; mine: for the channel observed (else: for an id not in the map) *)
| RinFail.                                  (* Packet.ReadFrom fails with an error that is not io.EOF *)

(* What a packet handed to Channel.WritePacket yields AFTER the closed check (RLock; if closed { return }): a
   header-only packet (Header.Length = 8 - acknowledgements of SETUP / CLOSE, whatever its type and EOM bit) is passed
   into packageCh directly as ONE HeaderOnlyPackage; a packet with a body goes into the receive queue and yields the
   packages that can be parsed now (none for a partial package; at EOM possibly a synthetic final DONE).  Either way
   the items are sent to packageCh one by one (RHold). *)
Inductive pkt :=
| PHdr (eom : bool) (h : Z)
| PBody (eom : bool) (parsed : list Z).
Definition pkt_items (p : pkt) : list Z := match p with PHdr _ h => [h] | PBody _ l => l end.
Definition rin_pkt (mine : bool) (p : pkt) : rin := RinPkt mine (pkt_items p).

Inductive rpc :=
| RTop                      (* for { if ctx.Err() != nil { return } *)
| RRead                     (* packet.ReadFrom *)
| RPushErr                  (* tds.errCh <- err *)
| RRoute (mine : bool) (items : list Z)    (* map lookup under the map's read lock *)
| RLockCh (items : list Z)  (* WritePacket: tdsChan.RLock() *)
| RChk (items : list Z)     (* if tdsChan.closed { return } *)
| RHold (items : list Z)    (* tdsChan.packageCh <- pkg, one package after the other *)
| RUnlock                   (* deferred RUnlock *)
| REnd.                     (* ReadFrom returned *)

Inductive cpc :=
| CStart                    (* RLock; closed := tdsChan.closed; RUnlock *)
| CCas                      (* if !atomic.CompareAndSwapInt32(&tdsChan.closing, 0, 1) { return ErrChannelClosed } *)
| CSend                     (* teardown packet, or the logout package *)
| CLogoutWait               (* Logout: NextPackage(ctx with one-minute timeout, wait) *)
| CLockReq                  (* tdsChan.Lock() announced: new RLocks block *)
| CLockAcq                  (* ... granted once no read lock is held *)
| CMark                     (* if closed {Unlock; return ErrChannelClosed}; closed = true *)
| CUnreg                    (* delete(tdsChannels, id) under the map lock *)
| CDrain                    (* close + drain packageCh and errCh, set them to nil *)
| CUnlock
| CDone (code : Z)          (* Close returned: 0 nil, 1 an error list, 2 ErrChannelClosed *)
| KCancel                   (* Conn.Close: ctxCancel() *)
| KTClose                   (* Conn.Close: conn.Close() *)
| KEnd.

Record sys := mkS {
  closed : bool; pq : list Z; pcap : Z;
  rd : Z; wpend : bool; wheld : bool;             (* the channel's RWMutex *)
  registered : bool;
  cerr : Z; ccap : Z;                              (* Conn.errCh: queued errors, capacity *)
  conn_done : bool; tclosed : bool; tfail : bool;  (* connection context done; transport closed; transport failing for good *)
  rp : rpc; incoming : list rin;
  cp : cpc; kind0 : bool; conn_close : bool;       (* closing channel 0 = logout; Close called by Conn.Close *)
  reply : bool;                                    (* the peer will answer the logout with the final DONE (package -1) *)
  cfail : bool                                     (* Close has collected an error *)
}.

Inductive label := LReader | LCloser | LPeerReply | LLogoutTimeout.

Definition set_r (s : sys) (r : rpc) : sys :=
  mkS (closed s) (pq s) (pcap s) (rd s) (wpend s) (wheld s) (registered s) (cerr s) (ccap s) (conn_done s) (tclosed s) (tfail s)
      r (incoming s) (cp s) (kind0 s) (conn_close s) (reply s) (cfail s).
Definition set_c (s : sys) (c : cpc) : sys :=
  mkS (closed s) (pq s) (pcap s) (rd s) (wpend s) (wheld s) (registered s) (cerr s) (ccap s) (conn_done s) (tclosed s) (tfail s)
      (rp s) (incoming s) c (kind0 s) (conn_close s) (reply s) (cfail s).

Definition reader_step (s : sys) : option sys :=
  match rp s with
  | RTop => Some (set_r s (if conn_done s then REnd else RRead))
  | RRead =>
      match incoming s with
      | RinPkt mine items :: r =>
          Some (mkS (closed s) (pq s) (pcap s) (rd s) (wpend s) (wheld s) (registered s) (cerr s) (ccap s) (conn_done s) (tclosed s) (tfail s)
                    (RRoute mine items) r (cp s) (kind0 s) (conn_close s) (reply s) (cfail s))
      | RinFail :: r =>
          Some (mkS (closed s) (pq s) (pcap s) (rd s) (wpend s) (wheld s) (registered s) (cerr s) (ccap s) (conn_done s) (tclosed s) (tfail s)
                    RPushErr r (cp s) (kind0 s) (conn_close s) (reply s) (cfail s))
      | [] => if tclosed s || tfail s then Some (set_r s RPushErr) else None      (* else: waits for bytes *)
      end
  | RPushErr =>
      if cerr s <? ccap s
      then Some (mkS (closed s) (pq s) (pcap s) (rd s) (wpend s) (wheld s) (registered s) (cerr s + 1) (ccap s) (conn_done s) (tclosed s) (tfail s)
                     RTop (incoming s) (cp s) (kind0 s) (conn_close s) (reply s) (cfail s))
      else None                                                                    (* parked on the full error queue *)
  | RRoute mine items => Some (set_r s (if mine && registered s then RLockCh items else RPushErr))
  | RLockCh items =>
      if wpend s || wheld s then None
      else Some (mkS (closed s) (pq s) (pcap s) (rd s + 1) (wpend s) (wheld s) (registered s) (cerr s) (ccap s) (conn_done s) (tclosed s) (tfail s)
                     (RChk items) (incoming s) (cp s) (kind0 s) (conn_close s) (reply s) (cfail s))
  | RChk items => Some (set_r s (if closed s then RUnlock else RHold items))
  | RHold [] => Some (set_r s RUnlock)
  | RHold (x :: r) =>
      if closed s then None            (* Close has set packageCh to nil: a send on a nil channel blocks for ever *)
      else if zlen (pq s) <? pcap s
      then Some (mkS (closed s) (pq s ++ [x]) (pcap s) (rd s) (wpend s) (wheld s) (registered s) (cerr s) (ccap s) (conn_done s) (tclosed s) (tfail s)
                     (RHold r) (incoming s) (cp s) (kind0 s) (conn_close s) (reply s) (cfail s))
      else None                                                                    (* parked on the full package queue, read lock held *)
  | RUnlock =>
      Some (mkS (closed s) (pq s) (pcap s) (rd s - 1) (wpend s) (wheld s) (registered s) (cerr s) (ccap s) (conn_done s) (tclosed s) (tfail s)
                RTop (incoming s) (cp s) (kind0 s) (conn_close s) (reply s) (cfail s))
  | REnd => None
  end.

Definition closer_step (s : sys) : option sys :=
  match cp s with
  | CStart => if wpend s || wheld s then None
              else Some (set_c s (if closed s then CDone 2 else CCas))
  | CCas =>
      (* `closing` is only ever set by a caller of Close: for the ONLY closing goroutine of this system the
         compare-and-swap succeeds (several closers of one channel: C13/Closers.v) *)
      Some (set_c s CSend)
  | CSend =>
      if kind0 s && conn_done s
      then (* the logout's SendPackage finds the connection context done: error, no wait for an answer *)
           Some (mkS (closed s) (pq s) (pcap s) (rd s) (wpend s) (wheld s) (registered s) (cerr s) (ccap s) (conn_done s) (tclosed s) (tfail s)
                     (rp s) (incoming s) CLockReq (kind0 s) (conn_close s) (reply s) true)
      else Some (set_c s (if kind0 s then CLogoutWait else CLockReq))
  | CLogoutWait =>
      if wpend s || wheld s then None else
      match pq s with
      | p :: q =>
          Some (mkS (closed s) q (pcap s) (rd s) (wpend s) (wheld s) (registered s) (cerr s) (ccap s) (conn_done s) (tclosed s) (tfail s)
                    (rp s) (incoming s) CLockReq (kind0 s) (conn_close s) (reply s) (cfail s || negb (p =? -1)))
      | [] =>
          if 0 <? cerr s
          then Some (mkS (closed s) (pq s) (pcap s) (rd s) (wpend s) (wheld s) (registered s) (cerr s - 1) (ccap s) (conn_done s) (tclosed s) (tfail s)
                         (rp s) (incoming s) CLockReq (kind0 s) (conn_close s) (reply s) true)
          else if conn_done s
          then Some (mkS (closed s) (pq s) (pcap s) (rd s) (wpend s) (wheld s) (registered s) (cerr s) (ccap s) (conn_done s) (tclosed s) (tfail s)
                         (rp s) (incoming s) CLockReq (kind0 s) (conn_close s) (reply s) true)
          else None
      end
  | CLockReq =>
      Some (mkS (closed s) (pq s) (pcap s) (rd s) true (wheld s) (registered s) (cerr s) (ccap s) (conn_done s) (tclosed s) (tfail s)
                (rp s) (incoming s) CLockAcq (kind0 s) (conn_close s) (reply s) (cfail s))
  | CLockAcq =>
      if (rd s =? 0) && negb (wheld s)
      then Some (mkS (closed s) (pq s) (pcap s) (rd s) false true (registered s) (cerr s) (ccap s) (conn_done s) (tclosed s) (tfail s)
                     (rp s) (incoming s) CMark (kind0 s) (conn_close s) (reply s) (cfail s))
      else None
  | CMark =>
      if closed s
      then Some (mkS (closed s) (pq s) (pcap s) (rd s) (wpend s) false (registered s) (cerr s) (ccap s) (conn_done s) (tclosed s) (tfail s)
                     (rp s) (incoming s) (CDone 2) (kind0 s) (conn_close s) (reply s) (cfail s))
      else Some (mkS true (pq s) (pcap s) (rd s) (wpend s) (wheld s) (registered s) (cerr s) (ccap s) (conn_done s) (tclosed s) (tfail s)
                     (rp s) (incoming s) CUnreg (kind0 s) (conn_close s) (reply s) (cfail s))
  | CUnreg =>
      Some (mkS (closed s) (pq s) (pcap s) (rd s) (wpend s) (wheld s) false (cerr s) (ccap s) (conn_done s) (tclosed s) (tfail s)
                (rp s) (incoming s) CDrain (kind0 s) (conn_close s) (reply s) (cfail s))
  | CDrain =>
      Some (mkS (closed s) [] (pcap s) (rd s) (wpend s) (wheld s) (registered s) (cerr s) (ccap s) (conn_done s) (tclosed s) (tfail s)
                (rp s) (incoming s) CUnlock (kind0 s) (conn_close s) (reply s)
                (cfail s || match pq s with [] => false | _ :: _ => true end))
  | CUnlock =>
      Some (mkS (closed s) (pq s) (pcap s) (rd s) (wpend s) false (registered s) (cerr s) (ccap s) (conn_done s) (tclosed s) (tfail s)
                (rp s) (incoming s) (CDone (if cfail s then 1 else 0)) (kind0 s) (conn_close s) (reply s) (cfail s))
  | CDone _ => if conn_close s then Some (set_c s KCancel) else None
  | KCancel =>
      Some (mkS (closed s) (pq s) (pcap s) (rd s) (wpend s) (wheld s) (registered s) (cerr s) (ccap s) true (tclosed s) (tfail s)
                (rp s) (incoming s) KTClose (kind0 s) (conn_close s) (reply s) (cfail s))
  | KTClose =>
      Some (mkS (closed s) (pq s) (pcap s) (rd s) (wpend s) (wheld s) (registered s) (cerr s) (ccap s) (conn_done s) true (tfail s)
                (rp s) (incoming s) KEnd (kind0 s) (conn_close s) (reply s) (cfail s))
  | KEnd => None
  end.

Definition step (s : sys) (l : label) : option sys :=
  match l with
  | LReader => reader_step s
  | LCloser => closer_step s
  | LPeerReply =>
      match cp s with
      | CLogoutWait =>
          if reply s
          then Some (mkS (closed s) (pq s) (pcap s) (rd s) (wpend s) (wheld s) (registered s) (cerr s) (ccap s) (conn_done s) (tclosed s) (tfail s)
                         (rp s) (incoming s ++ [RinPkt true [-1]]) (cp s) (kind0 s) (conn_close s) false (cfail s))
          else None
      | _ => None
      end
  | LLogoutTimeout =>
      match cp s with
      | CLogoutWait =>
          Some (mkS (closed s) (pq s) (pcap s) (rd s) (wpend s) (wheld s) (registered s) (cerr s) (ccap s) (conn_done s) (tclosed s) (tfail s)
                    (rp s) (incoming s) CLockReq (kind0 s) (conn_close s) (reply s) true)
      | _ => None
      end
  end.

(* a schedule: any list of labels; a label whose move is not possible leaves the state unchanged *)
Definition exec1 (s : sys) (l : label) : sys := match step s l with Some s' => s' | None => s end.
Definition exec (s : sys) (ls : list label) : sys := fold_left exec1 ls s.

Definition closer_done (s : sys) : bool :=
  match cp s with
  | CDone _ => negb (conn_close s)
  | KEnd => true
  | _ => false
  end.
Definition reader_ended (s : sys) : bool := match rp s with REnd => true | _ => false end.

(* ---- deterministic schedules used to predict what the harness scenarios yield *)

(* the reader alone, until it ends or cannot move *)
Fixpoint run_reader (fuel : nat) (s : sys) : sys :=
  match fuel with
  | O => s
  | S f => match reader_step s with Some s' => run_reader f s' | None => s end
  end.

(* everybody until nothing moves any more: the reader first, then the closer, the peer's answer when it is due; the
   logout's timeout only fires when nothing else can move *)
Fixpoint run_all (fuel : nat) (s : sys) : sys :=
  match fuel with
  | O => s
  | S f =>
    match reader_step s with
    | Some s' => run_all f s'
    | None =>
      match step s LPeerReply with
      | Some s' => run_all f s'
      | None =>
        match closer_step s with
        | Some s' => run_all f s'
        | None => match step s LLogoutTimeout with Some s' => run_all f s' | None => s end
        end
      end
    end
  end.

(* the closing goroutine first (the schedule in which it overtakes a reader that was just woken up) *)
Fixpoint run_closer_first (fuel : nat) (s : sys) : sys :=
  match fuel with
  | O => s
  | S f =>
    match closer_step s with
    | Some s' => run_closer_first f s'
    | None =>
      match reader_step s with
      | Some s' => run_closer_first f s'
      | None => match step s LLogoutTimeout with Some s' => run_closer_first f s' | None => s end
      end
    end
  end.

Definition sys0 (cap ccap0 : Z) (k0 cc rep : bool) (inc : list rin) : sys :=
  mkS false [] cap 0 false false true 0 ccap0 false false false RTop inc CStart k0 cc rep false.

(* a consumer takes the first queued package (NextPackage on a non-empty queue) *)
Definition pop (s : sys) : option (Z * sys) :=
  match pq s with
  | p :: q => Some (p, mkS (closed s) q (pcap s) (rd s) (wpend s) (wheld s) (registered s) (cerr s) (ccap s) (conn_done s) (tclosed s) (tfail s)
                           (rp s) (incoming s) (cp s) (kind0 s) (conn_close s) (reply s) (cfail s))
  | [] => None
  end.

Definition set_conn_done (s : sys) : sys :=
  mkS (closed s) (pq s) (pcap s) (rd s) (wpend s) (wheld s) (registered s) (cerr s) (ccap s) true (tclosed s) (tfail s)
      (rp s) (incoming s) (cp s) (kind0 s) (conn_close s) (reply s) (cfail s).
Definition set_tfail (s : sys) : sys :=
  mkS (closed s) (pq s) (pcap s) (rd s) (wpend s) (wheld s) (registered s) (cerr s) (ccap s) (conn_done s) (tclosed s) true
      (rp s) (incoming s) (cp s) (kind0 s) (conn_close s) (reply s) (cfail s).
Definition set_tclosed (s : sys) : sys :=
  mkS (closed s) (pq s) (pcap s) (rd s) (wpend s) (wheld s) (registered s) (cerr s) (ccap s) (conn_done s) true (tfail s)
      (rp s) (incoming s) (cp s) (kind0 s) (conn_close s) (reply s) (cfail s).
(* somebody takes every error out of the connection's error queue *)
Definition drain_cerr (s : sys) : sys :=
  mkS (closed s) (pq s) (pcap s) (rd s) (wpend s) (wheld s) (registered s) 0 (ccap s) (conn_done s) (tclosed s) (tfail s)
      (rp s) (incoming s) (cp s) (kind0 s) (conn_close s) (reply s) (cfail s).
Definition add_incoming (s : sys) (l : list rin) : sys :=
  mkS (closed s) (pq s) (pcap s) (rd s) (wpend s) (wheld s) (registered s) (cerr s) (ccap s) (conn_done s) (tclosed s) (tfail s)
      (rp s) (incoming s ++ l) (cp s) (kind0 s) (conn_close s) (reply s) (cfail s).

(* what a consumer's NextPackage sees of the system *)
Definition nstate_of (s : sys) (ctx_done : bool) : nstate :=
  mkN (closed s) (pq s) [] (cerr s) 0 ctx_done (conn_done s).

(* Channel.WritePacket called directly (not by the reader goroutine) with these items: the caller is at the RLock *)
Definition direct_write (s : sys) (items : list Z) : sys := set_r s (RLockCh items).
Definition in_write_packet (s : sys) : bool :=
  match rp s with RLockCh _ | RChk _ | RHold _ | RUnlock => true | _ => false end.

(* a goroutine outside the system that held the read lock (a consumer parked in NextPackage) returns and releases it *)
Definition release (s : sys) : sys :=
  mkS (closed s) (pq s) (pcap s) (rd s - 1) (wpend s) (wheld s) (registered s) (cerr s) (ccap s) (conn_done s) (tclosed s) (tfail s)
      (rp s) (incoming s) (cp s) (kind0 s) (conn_close s) (reply s) (cfail s).
Definition set_rd (s : sys) (n : Z) : sys :=
  mkS (closed s) (pq s) (pcap s) n (wpend s) (wheld s) (registered s) (cerr s) (ccap s) (conn_done s) (tclosed s) (tfail s)
      (rp s) (incoming s) (cp s) (kind0 s) (conn_close s) (reply s) (cfail s).
