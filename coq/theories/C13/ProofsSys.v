(* C13 — lemmas about the interleaving system of C13/Model.v: the lock discipline as an invariant of EVERY step, room
   in the queues, the termination measure, progress of Close, what stays true after Close. *)
From Coq Require Import ZArith List Bool Lia.
Import ListNotations.
From V Require Import Base.Tree Base.Bytes Base.BytesFacts C13.Model.
Open Scope Z_scope.

Definition holds_r (r : rpc) : bool := match r with RChk _ | RHold _ | RUnlock => true | _ => false end.
Definition in_crit (c : cpc) : bool := match c with CMark | CUnreg | CDrain | CUnlock => true | _ => false end.
Definition wants (c : cpc) : bool := match c with CLockAcq => true | _ => false end.
Definition not_before_mark (c : cpc) : bool :=
  match c with CSend | CLogoutWait | CLockReq | CLockAcq | CMark => false | _ => true end.
Definition past_close (c : cpc) : bool :=
  match c with CDone _ | KCancel | KTClose | KEnd => true | _ => false end.

(* F: read locks held by goroutines outside the system that never release them (consumers parked in NextPackage with
   a live context) *)
Definition inv (F : Z) (s : sys) : Prop :=
  0 <= F /\
  rd s = F + (if holds_r (rp s) then 1 else 0) /\
  wheld s = in_crit (cp s) /\
  wpend s = wants (cp s) /\
  (wheld s = true -> rd s = 0) /\
  (match rp s with RHold _ => closed s = false | _ => True end) /\
  (closed s = true -> not_before_mark (cp s) = true) /\
  (past_close (cp s) = true -> closed s = true) /\
  0 <= cerr s <= ccap s.

Ltac crunch H :=
  repeat match type of H with
         | context [match ?x with _ => _ end] => destruct x eqn:?; try discriminate H
         end;
  try (inversion H; subst; clear H).

Lemma inv_step : forall F s l s', inv F s -> step s l = Some s' -> inv F s'.
Proof.
  intros F s l s' [HF [Hrd [Hwh [Hwp [Hex [Hho [Hcl [Hpc Hce]]]]]]]] H.
  destruct l; unfold step, reader_step, closer_step, set_r, set_c in H; crunch H;
    unfold inv; cbn [rd rp cp wheld wpend closed cerr ccap holds_r in_crit wants not_before_mark past_close];
    repeat match goal with
           | E : rp s = _ |- _ => rewrite E in *
           | E : cp s = _ |- _ => rewrite E in *
           end;
    cbn [holds_r in_crit wants not_before_mark past_close] in *;
    repeat match goal with
           | E : (_ <? _) = true |- _ => apply Z.ltb_lt in E
           | E : (_ <? _) = false |- _ => apply Z.ltb_ge in E
           | E : (_ || _) = false |- _ => apply orb_false_iff in E; destruct E
           | E : (_ && _) = true |- _ => apply andb_true_iff in E; destruct E
           | E : (_ =? _) = true |- _ => apply Z.eqb_eq in E
           | E : negb _ = true |- _ => apply negb_true_iff in E
           end;
    repeat split; try assumption; try lia; try congruence; try (intros; congruence); try (intros; lia); auto.
  all: try (intros Hc; specialize (Hcl Hc); discriminate).
  all: try (intros Hw; rewrite Hw in *; discriminate).
  all: try (destruct (conn_done s); cbn; auto; try lia).
  all: try (destruct (mine && registered s); cbn; auto; try lia).
  all: try (destruct (closed s); cbn; auto; try lia; try congruence).
  all: try (destruct (kind0 s); cbn; auto; try lia; try congruence).
Qed.
