(* C13 — lemmas about the interleaving system of C13/Model.v: the lock discipline as an invariant of EVERY step, room
   in the queues, the termination measure, progress of Close, what stays true after Close. *)
From Coq Require Import ZArith List Bool Lia.
Import ListNotations.
From V Require Import Base.Tree Base.Bytes Base.BytesFacts C13.Model.
Open Scope Z_scope.

Definition holds_r (r : rpc) : bool := match r with RChk _ | RHold _ | RUnlock => true | _ => false end.
Definition in_crit (c : cpc) : bool := match c with CMark | CUnreg | CDrain | CUnlock => true | _ => false end.
Definition wants (c : cpc) : bool := match c with CLockAcq => true | _ => false end.
Definition not_before_mark (c : cpc) : bool :=
  match c with CCas | CSend | CLogoutWait | CLockReq | CLockAcq | CMark => false | _ => true end.
Definition past_close (c : cpc) : bool :=
  match c with CUnreg | CDrain | CUnlock | CDone _ | KCancel | KTClose | KEnd => true | _ => false end.

(* F: read locks held by goroutines outside the system that never release them (consumers parked in NextPackage with
   a live context) *)
Definition inv (F : Z) (s : sys) : Prop :=
  0 <= F /\
  rd s = F + (if holds_r (rp s) then 1 else 0) /\
  wheld s = in_crit (cp s) /\
  wpend s = wants (cp s) /\
  (wheld s = true -> rd s = 0) /\
  (match rp s with RHold _ => closed s = false | _ => True end) /\
  (closed s = true -> not_before_mark (cp s) = true) /\
  (past_close (cp s) = true -> closed s = true) /\
  0 <= cerr s <= ccap s.

Ltac crunch H :=
  repeat match type of H with
         | context [match ?x with _ => _ end] => destruct x eqn:?; try discriminate H
         end;
  try (inversion H; subst; clear H).

Lemma inv_step : forall F s l s', inv F s -> step s l = Some s' -> inv F s'.
Proof.
  intros F s l s' [HF [Hrd [Hwh [Hwp [Hex [Hho [Hcl [Hpc Hce]]]]]]]] H.
  destruct l; unfold step, reader_step, closer_step, set_r, set_c in H; crunch H;
    unfold inv; cbn [rd rp cp wheld wpend closed cerr ccap holds_r in_crit wants not_before_mark past_close];
    repeat match goal with
           | E : rp s = _ |- _ => rewrite E in *
           | E : cp s = _ |- _ => rewrite E in *
           end;
    cbn [holds_r in_crit wants not_before_mark past_close] in *;
    repeat match goal with
           | E : (_ <? _) = true |- _ => apply Z.ltb_lt in E
           | E : (_ <? _) = false |- _ => apply Z.ltb_ge in E
           | E : (_ || _) = false |- _ => apply orb_false_iff in E; destruct E
           | E : (_ && _) = true |- _ => apply andb_true_iff in E; destruct E
           | E : (_ =? _) = true |- _ => apply Z.eqb_eq in E
           | E : negb _ = true |- _ => apply negb_true_iff in E
           end;
    repeat split; try assumption; try lia; try congruence; try (intros; congruence); try (intros; lia); auto.
  all: try (intros Hw; specialize (Hex Hw); lia).
  all: try (specialize (Hex Hwh); destruct (rp s); cbn in *; auto; exfalso; lia).
  all: try (intros Hc; specialize (Hcl Hc); discriminate).
  all: try (intros Hw; rewrite Hw in *; discriminate).
  all: try (destruct (conn_done s); cbn; auto; try lia).
  all: try (destruct (mine && registered s); cbn; auto; try lia).
  all: try (destruct (closed s); cbn; auto; try lia; try congruence).
  all: try (destruct (kind0 s); cbn; auto; try lia; try congruence).
Qed.

Lemma inv_exec : forall F ls s, inv F s -> inv F (exec s ls).
Proof.
  intros F ls. induction ls as [|l r IH]; intros s H; [exact H|].
  change (exec s (l :: r)) with (exec (exec1 s l) r). apply IH. unfold exec1. destruct (step s l) as [s'|] eqn:E; [exact (inv_step F s l s' H E) | exact H].
Qed.

(* ------------------------------------------------------------------ room in the package queue *)

Definition ritems (r : rpc) : Z :=
  match r with RRoute _ l | RLockCh l | RChk l | RHold l => zlen l | _ => 0 end.
Fixpoint initems (l : list rin) : Z :=
  match l with [] => 0 | RinPkt _ it :: r => zlen it + initems r | RinFail :: r => initems r end.
Definition pending (s : sys) : Z :=
  zlen (pq s) + ritems (rp s) + initems (incoming s) + (if reply s then 1 else 0).
(* every package that is queued, in the reader's hands, on the wire or still to be sent by the peer fits the queue *)
Definition room (s : sys) : Prop := pending s <= pcap s.

Lemma initems_app : forall a b, initems (a ++ b) = initems a + initems b.
Proof.
  intros a b. induction a as [|x r IH]; [reflexivity|]. cbn [app initems]. destruct x as [m it|]; rewrite IH; lia.
Qed.

Lemma initems_nonneg : forall l, 0 <= initems l.
Proof.
  intros l. induction l as [|x r IH]; [cbn; lia|]. cbn [initems]. destruct x as [m it|]; [pose proof (zlen_nonneg it); lia | exact IH].
Qed.

Lemma pending_step : forall s l s', step s l = Some s' -> pending s' <= pending s /\ pcap s' = pcap s.
Proof.
  intros s l s' H.
  destruct l; unfold step, reader_step, closer_step, set_r, set_c in H; crunch H;
    unfold pending; cbn [pq rp incoming reply pcap ritems initems];
    repeat match goal with
           | E : rp s = _ |- _ => rewrite E in *
           | E : incoming s = _ |- _ => rewrite E in *
           | E : pq s = _ |- _ => rewrite E in *
           | E : reply s = _ |- _ => rewrite E in *
           end;
    cbn [ritems initems];
    rewrite ?zlen_app, ?zlen_cons, ?zlen_nil, ?initems_app; cbn [initems];
    rewrite ?zlen_cons, ?zlen_nil;
    try (split; [|reflexivity]);
    repeat match goal with
           | |- context [if ?b then _ else _] => destruct b
           end;
    cbn [ritems];
    repeat match goal with
           | |- context [zlen ?l] => lazymatch goal with
                                     | H0 : 0 <= zlen l |- _ => fail
                                     | _ => pose proof (zlen_nonneg l)
                                     end
           end;
    try lia.
Qed.

Lemma room_exec : forall ls s, room s -> room (exec s ls) /\ pcap (exec s ls) = pcap s.
Proof.
  intros ls. induction ls as [|l r IH]; intros s H; [split; [exact H | reflexivity]|].
  change (exec s (l :: r)) with (exec (exec1 s l) r). unfold exec1. destruct (step s l) as [s'|] eqn:E.
  - destruct (pending_step s l s' E) as [H1 H2].
    assert (Hr : room s') by (unfold room in *; lia).
    destruct (IH s' Hr) as [H3 H4]. split; [exact H3 | rewrite H4; exact H2].
  - exact (IH s H).
Qed.

(* ------------------------------------------------------------------ the termination measure *)

Definition rrank (r : rpc) : Z :=
  match r with
  | RRoute _ _ => 16 | RLockCh _ => 12 | RChk _ => 10 | RHold _ => 8 | RUnlock => 6
  | RTop => 4 | RRead => 2 | RPushErr => 1 | REnd => 0
  end.
Definition crank (c : cpc) : Z :=
  match c with
  | CStart => 13 | CCas => 12 | CSend => 11 | CLogoutWait => 10 | CLockReq => 9 | CLockAcq => 8 | CMark => 7 | CUnreg => 6
  | CDrain => 5 | CUnlock => 4 | CDone _ => 3 | KCancel => 2 | KTClose => 1 | KEnd => 0
  end.
Fixpoint inweight (l : list rin) : Z :=
  match l with [] => 0 | RinPkt _ it :: r => 16 + zlen it + inweight r | RinFail :: r => 16 + inweight r end.
Definition measure (s : sys) : Z :=
  4 * (ccap s - cerr s) + inweight (incoming s) + ritems (rp s) + rrank (rp s) + 5 * crank (cp s) +
  (if reply s then 40 else 0).

Lemma inweight_app : forall a b, inweight (a ++ b) = inweight a + inweight b.
Proof.
  intros a b. induction a as [|x r IH]; [reflexivity|]. cbn [app inweight]. destruct x as [m it|]; rewrite IH; lia.
Qed.

Lemma inweight_nonneg : forall l, 0 <= inweight l.
Proof.
  intros l. induction l as [|x r IH]; [cbn; lia|]. cbn [inweight]. destruct x as [m it|]; [pose proof (zlen_nonneg it); lia | lia].
Qed.

(* every move of anybody strictly decreases the measure *)
Lemma measure_step : forall s l s', step s l = Some s' -> measure s' < measure s.
Proof.
  intros s l s' H.
  destruct l; unfold step, reader_step, closer_step, set_r, set_c in H; crunch H;
    unfold measure; cbn [pq rp cp incoming reply ccap cerr];
    repeat match goal with
           | E : rp s = _ |- _ => rewrite E in *
           | E : cp s = _ |- _ => rewrite E in *
           | E : incoming s = _ |- _ => rewrite E in *
           | E : reply s = _ |- _ => rewrite E in *
           end;
    cbn [ritems rrank crank inweight];
    rewrite ?inweight_app; cbn [inweight];
    rewrite ?zlen_cons, ?zlen_nil;
    repeat match goal with
           | |- context [if ?b then _ else _] => destruct b
           end;
    cbn [ritems rrank crank];
    repeat match goal with
           | |- context [zlen ?l] => lazymatch goal with
                                     | H0 : 0 <= zlen l |- _ => fail
                                     | _ => pose proof (zlen_nonneg l)
                                     end
           end;
    try lia.
Qed.

Lemma measure_nonneg : forall F s, inv F s -> 0 <= measure s.
Proof.
  intros F s [_ [_ [_ [_ [_ [_ [_ [_ Hce]]]]]]]]. unfold measure.
  pose proof (inweight_nonneg (incoming s)).
  assert (0 <= ritems (rp s)) by (destruct (rp s); cbn; try lia; apply zlen_nonneg).
  assert (0 <= rrank (rp s)) by (destruct (rp s); cbn; lia).
  assert (0 <= crank (cp s)) by (destruct (cp s); cbn; lia).
  destruct (reply s); lia.
Qed.

(* a run in which every label moves *)
Fixpoint run_eff (s : sys) (ls : list label) : option sys :=
  match ls with
  | [] => Some s
  | l :: r => match step s l with Some s' => run_eff s' r | None => None end
  end.

Lemma run_eff_bound : forall ls s s', run_eff s ls = Some s' -> measure s' + Z.of_nat (length ls) <= measure s.
Proof.
  intros ls. induction ls as [|l r IH]; intros s s' H.
  - cbn in H. inversion H; subst. cbn. lia.
  - cbn [run_eff] in H. destruct (step s l) as [s1|] eqn:E; [|discriminate].
    specialize (IH s1 s' H). pose proof (measure_step s l s1 E). cbn [length]. lia.
Qed.

(* ------------------------------------------------------------------ progress of Close *)

(* no goroutine outside the system holds the read lock for good, the queue has room for everything that may still
   come: as long as Close has not returned, somebody can move *)
Lemma close_progress : forall s, inv 0 s -> room s -> closer_done s = false ->
  exists l s', step s l = Some s'.
Proof.
  intros s [_ [Hrd [Hwh [Hwp [Hex [Hho [Hcl [Hpc Hce]]]]]]]] Hroom Hnd.
  unfold closer_done in Hnd.
  destruct (cp s) eqn:Ec; cbn [in_crit wants] in *.
  - (* CStart *) exists LCloser. cbn [step]. unfold closer_step. rewrite Ec, Hwp, Hwh. cbn. eexists; reflexivity.
  - (* CCas *) exists LCloser. cbn [step]. unfold closer_step. rewrite Ec. eexists; reflexivity.
  - exists LCloser. cbn [step]. unfold closer_step. rewrite Ec. destruct (kind0 s && conn_done s); eexists; reflexivity.
  - (* CLogoutWait: the one-minute context expires at the latest *)
    exists LLogoutTimeout. cbn [step]. rewrite Ec. eexists; reflexivity.
  - exists LCloser. cbn [step]. unfold closer_step. rewrite Ec. eexists; reflexivity.
  - (* CLockAcq: granted unless the reader holds the read lock, and then the reader can move *)
    destruct (holds_r (rp s)) eqn:Eh.
    + exists LReader. cbn [step]. unfold reader_step.
      destruct (rp s) as [| | |m it|it|it|it| |] eqn:Er; cbn in Eh; try discriminate.
      * eexists; reflexivity.
      * destruct it as [|x r]; [eexists; reflexivity|].
        assert (L : zlen (pq s) < pcap s).
        { unfold room, pending in Hroom. rewrite Er in Hroom. cbn [ritems] in Hroom. rewrite zlen_cons in Hroom.
          pose proof (zlen_nonneg r). pose proof (initems_nonneg (incoming s)). destruct (reply s); lia. }
        apply Z.ltb_lt in L. rewrite Hho, L. eexists; reflexivity.
      * eexists; reflexivity.
    + exists LCloser. cbn [step]. unfold closer_step. rewrite Ec.
      assert (E0 : rd s = 0) by lia. rewrite E0, Hwh. cbn. eexists; reflexivity.
  - exists LCloser. cbn [step]. unfold closer_step. rewrite Ec. destruct (closed s); eexists; reflexivity.
  - exists LCloser. cbn [step]. unfold closer_step. rewrite Ec. eexists; reflexivity.
  - exists LCloser. cbn [step]. unfold closer_step. rewrite Ec. eexists; reflexivity.
  - exists LCloser. cbn [step]. unfold closer_step. rewrite Ec. eexists; reflexivity.
  - (* CDone: Close returned; Conn.Close goes on *)
    apply negb_false_iff in Hnd. exists LCloser. cbn [step]. unfold closer_step. rewrite Ec, Hnd. eexists; reflexivity.
  - exists LCloser. cbn [step]. unfold closer_step. rewrite Ec. eexists; reflexivity.
  - exists LCloser. cbn [step]. unfold closer_step. rewrite Ec. eexists; reflexivity.
  - discriminate.
Qed.

(* a state in which nobody can move stays as it is under every schedule *)
Lemma stuck_forever : forall s, (forall l, step s l = None) -> forall ls, exec s ls = s.
Proof.
  intros s H ls. induction ls as [|l r IH]; [reflexivity|].
  change (exec s (l :: r)) with (exec (exec1 s l) r). unfold exec1. rewrite (H l). exact IH.
Qed.

(* ------------------------------------------------------------------ after Close *)

(* once the channel is marked closed it stays closed, and the package queue only ever loses packages (the drain):
   the reader's WritePacket returns at its closed check, the logout's read lies before the mark *)
Lemma closed_step : forall F s l s', inv F s -> closed s = true -> step s l = Some s' ->
  closed s' = true /\ (pq s' = pq s \/ pq s' = []).
Proof.
  intros F s l s' [HF [Hrd [Hwh [Hwp [Hex [Hho [Hcl [Hpc Hce]]]]]]]] Hc H.
  specialize (Hcl Hc).
  destruct l; unfold step, reader_step, closer_step, set_r, set_c in H; crunch H;
    cbn [closed pq];
    repeat match goal with
           | E : rp s = _ |- _ => rewrite E in *
           | E : cp s = _ |- _ => rewrite E in *
           end;
    cbn [not_before_mark] in *; try discriminate; try congruence;
    try (split; [assumption | (left; reflexivity) || (right; reflexivity)]);
    try (split; [reflexivity | (left; reflexivity) || (right; reflexivity)]).
Qed.

Lemma closed_exec : forall F ls s, inv F s -> closed s = true ->
  closed (exec s ls) = true /\ (pq (exec s ls) = pq s \/ pq (exec s ls) = []).
Proof.
  intros F ls. induction ls as [|l r IH]; intros s Hi Hc; [split; [exact Hc | left; reflexivity]|].
  change (exec s (l :: r)) with (exec (exec1 s l) r). unfold exec1. destruct (step s l) as [s'|] eqn:E.
  - destruct (closed_step F s l s' Hi Hc E) as [Hc' Hq].
    destruct (IH s' (inv_step F s l s' Hi E) Hc') as [H1 H2]. split; [exact H1|].
    destruct H2 as [H2|H2]; [|right; exact H2].
    destruct Hq as [Hq|Hq]; [left; rewrite H2; exact Hq | right; rewrite H2; exact Hq].
  - exact (IH s Hi Hc).
Qed.

(* ------------------------------------------------------------------ Conn.Close *)

Lemma conn_closed_state : forall F s, inv F s -> cp s = KEnd -> closed s = true.
Proof. intros F s [_ [_ [_ [_ [_ [_ [_ [Hpc _]]]]]]]] E. apply Hpc. rewrite E. reflexivity. Qed.

(* a system started with an open, registered channel (sys0): where Close stands determines the flags *)
Definition after_unreg (c : cpc) : bool :=
  match c with CDrain | CUnlock | CDone _ | KCancel | KTClose | KEnd => true | _ => false end.
Definition kinv (s : sys) : Prop :=
  closed s = past_close (cp s) /\ registered s = negb (after_unreg (cp s)) /\
  (cp s = KTClose \/ cp s = KEnd -> conn_done s = true) /\ (cp s = KEnd -> tclosed s = true).

Lemma kinv_step : forall s l s', kinv s -> step s l = Some s' -> kinv s'.
Proof.
  intros s l s' [H1 [H2 [H3 H4]]] H.
  destruct l; unfold step, reader_step, closer_step, set_r, set_c in H; crunch H;
    unfold kinv; cbn [cp conn_done tclosed closed registered];
    repeat match goal with
           | E : cp s = _ |- _ => rewrite E in *
           end;
    cbn [past_close after_unreg negb] in *;
    repeat split; try assumption; try reflexivity; try congruence;
    try (intros [X|X]; discriminate X); try (intros X; discriminate X);
    try (intros; apply H3; auto); try (intros; apply H4; auto).
  all: try (destruct (kind0 s); cbn; try assumption; try (intros [X|X]; discriminate X); try (intros X; discriminate X)).
  all: try (destruct (cfail s); cbn; try assumption; try (intros [X|X]; discriminate X); try (intros X; discriminate X)).
Qed.

Lemma kinv_exec : forall ls s, kinv s -> kinv (exec s ls).
Proof.
  intros ls. induction ls as [|l r IH]; intros s H; [exact H|].
  change (exec s (l :: r)) with (exec (exec1 s l) r). apply IH. unfold exec1.
  destruct (step s l) as [s'|] eqn:E; [exact (kinv_step s l s' H E) | exact H].
Qed.

(* ------------------------------------------------------------------ packets for a closed channel *)

(* the only step of the reader that touches the channel's queues is the send in RHold; after Close it would be a send
   on a nil channel (blocked for ever, read lock held).  It is never reached: under EVERY schedule after the channel
   was marked closed the reader is not at a send *)
Lemma no_send_on_closed : forall F s ls, inv F s -> closed s = true ->
  match rp (exec s ls) with RHold _ => False | _ => True end.
Proof.
  intros F s ls Hi Hc.
  destruct (closed_exec F ls s Hi Hc) as [Hc' _].
  destruct (inv_exec F ls s Hi) as [_ [_ [_ [_ [_ [Hho _]]]]]].
  destruct (rp (exec s ls)); try exact I. congruence.
Qed.

(* WritePacket on a closed channel, for ANY packet content (the items a header-only packet or a packet with a body
   would yield): read lock, closed check, unlock - three moves, nothing delivered, nothing changed *)
Lemma closed_drops : forall s items,
  closed s = true -> wpend s = false -> wheld s = false -> rp s = RLockCh items ->
  rp (run_reader 3 s) = RTop /\ pq (run_reader 3 s) = pq s /\ rd (run_reader 3 s) = rd s /\
  cerr (run_reader 3 s) = cerr s /\ closed (run_reader 3 s) = true /\ incoming (run_reader 3 s) = incoming s.
Proof.
  intros s items Hc Hp Hh Er.
  assert (E1 : exists s1, reader_step s = Some s1 /\ rp s1 = RChk items /\ closed s1 = true /\ pq s1 = pq s /\
                          rd s1 = rd s + 1 /\ cerr s1 = cerr s /\ incoming s1 = incoming s).
  { unfold reader_step. rewrite Er, Hp, Hh. cbn [orb]. eexists. split; [reflexivity|].
    cbn [rp closed pq rd cerr incoming]. repeat split; try reflexivity. exact Hc. }
  destruct E1 as [s1 [E1 [R1 [C1 [Q1 [D1 [X1 I1]]]]]]].
  assert (E2 : reader_step s1 = Some (set_r s1 RUnlock)).
  { unfold reader_step. rewrite R1, C1. reflexivity. }
  assert (E3 : exists s3, reader_step (set_r s1 RUnlock) = Some s3 /\ rp s3 = RTop /\ closed s3 = closed s1 /\ pq s3 = pq s1 /\
                          rd s3 = rd s1 - 1 /\ cerr s3 = cerr s1 /\ incoming s3 = incoming s1).
  { unfold reader_step, set_r. cbn [rp]. eexists. split; [reflexivity|].
    cbn [rp closed pq rd cerr incoming]. repeat split; reflexivity. }
  destruct E3 as [s3 [E3 [R3 [C3 [Q3 [D3 [X3 I3]]]]]]].
  cbn [run_reader]. rewrite E1, E2, E3.
  split; [exact R3|]. split; [congruence|]. split; [lia|]. split; [congruence|]. split; [congruence | congruence].
Qed.

(* after Close returned (no writer pending or holding) the closed channel never blocks the reader: if the reader cannot
   move it has ended, waits for bytes of a transport that is neither closed nor failing, or is parked on the full
   CONNECTION error queue (known finding reader-parked-on-full-conn-errch) *)
Lemma reader_free_after_close : forall F s, inv F s -> closed s = true -> wpend s = false -> wheld s = false ->
  reader_step s = None ->
  rp s = REnd \/ (rp s = RRead /\ incoming s = [] /\ tclosed s || tfail s = false) \/ (rp s = RPushErr /\ ccap s <= cerr s).
Proof.
  intros F s [_ [_ [_ [_ [_ [Hho _]]]]]] Hc Hp Hh H.
  unfold reader_step in H. destruct (rp s) as [| | |m it|it|it|it| |] eqn:Er; try discriminate H.
  - right; left. destruct (incoming s) as [|x r]; [|destruct x; discriminate H].
    destruct (tclosed s || tfail s); [discriminate H|]. repeat split; reflexivity.
  - right; right. destruct (cerr s <? ccap s) eqn:E; [discriminate H|]. apply Z.ltb_ge in E. split; [reflexivity | exact E].
  - rewrite Hp, Hh in H. discriminate H.
  - congruence.
  - left; reflexivity.
Qed.
