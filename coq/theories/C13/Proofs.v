(* C13 — lemmas: NextPackage / NextPackageUntil under a done context, the send loop, and the invariants of the
   interleaving system (lock discipline, room in the queues, the termination measure). *)
From Coq Require Import ZArith List Bool Lia.
Import ListNotations.
From V Require Import Base.Tree Base.Bytes Base.BytesFacts C13.Model.
Open Scope Z_scope.

(* ------------------------------------------------------------------ NextPackage *)

Lemma closed_result : forall s w, n_closed s = true -> next_package s w = [NClosed].
Proof. intros s w H. unfold next_package. rewrite H. reflexivity. Qed.

Lemma queued_first : forall s w p q, n_closed s = false -> n_q s = p :: q -> next_package s w = [NPkg p].
Proof. intros s w p q Hc Hq. unfold next_package. rewrite Hc, Hq. reflexivity. Qed.

Lemma select_cases_spec : forall s w r, In r (select_cases s w) ->
  (r = NCtx /\ n_ctx s = true) \/ (r = NConnCtx /\ n_conn s = true) \/
  (r = NConnErr /\ 0 < n_cerr s) \/ (r = NChanErr /\ 0 < n_err s) \/
  (exists a rest, r = NPkg a /\ n_arr s = a :: rest) \/ (r = NNoPkg /\ w = false).
Proof.
  intros s w r I. unfold select_cases in I.
  repeat (apply in_app_or in I; destruct I as [I|I]).
  - destruct (n_ctx s); [destruct I as [I|[]]; left; split; [symmetry; exact I | reflexivity] | destruct I].
  - destruct (n_conn s); [destruct I as [I|[]]; right; left; split; [symmetry; exact I | reflexivity] | destruct I].
  - destruct (Z.ltb_spec 0 (n_cerr s)) as [L|L]; [destruct I as [I|[]]; right; right; left; split; [symmetry; exact I | exact L] | destruct I].
  - destruct (Z.ltb_spec 0 (n_err s)) as [L|L]; [destruct I as [I|[]]; right; right; right; left; split; [symmetry; exact I | exact L] | destruct I].
  - destruct (n_arr s) as [|a rest]; [destruct I|]. destruct I as [I|[]].
    right; right; right; right; left. exists a, rest. split; [symmetry; exact I | reflexivity].
  - destruct w; [destruct I|]. destruct I as [I|[]]. right; right; right; right; right. split; [symmetry; exact I | reflexivity].
Qed.

Lemma done_case_ready : forall s w, (n_ctx s || n_conn s) = true -> select_cases s w <> [].
Proof.
  intros s w H E. unfold select_cases in E.
  destruct (n_ctx s); [discriminate|]. cbn [app] in E.
  destruct (n_conn s); [discriminate|]. discriminate.
Qed.

(* with a done context no result is "blocks", whatever is queued where *)
Lemma cancel_never_blocks : forall s w, (n_ctx s || n_conn s) = true -> ~ In NBlock (next_package s w).
Proof.
  intros s w H I. unfold next_package in I.
  destruct (n_closed s); [destruct I as [I|[]]; discriminate|].
  destruct (n_q s) as [|p q]; [|destruct I as [I|[]]; discriminate].
  destruct (select_cases s w) as [|x l] eqn:E; [exact (done_case_ready s w H E)|].
  rewrite <- E in I. apply select_cases_spec in I.
  destruct I as [[I _]|[[I _]|[[I _]|[[I _]|[[a [rest [I _]]]|[I _]]]]]]; discriminate.
Qed.

(* ... and, no error being queued, every result is a package (the first queued one, or the first to arrive if none is
   queued) or the error of a done context (or, without wait, "no package ready") *)
Lemma cancel_results : forall s w r,
  n_closed s = false -> (n_ctx s || n_conn s) = true -> n_cerr s <= 0 -> n_err s <= 0 ->
  In r (next_package s w) ->
  (exists p, r = NPkg p /\ (hd_error (n_q s) = Some p \/ (n_q s = [] /\ hd_error (n_arr s) = Some p))) \/
  (r = NCtx /\ n_ctx s = true) \/ (r = NConnCtx /\ n_conn s = true) \/ (r = NNoPkg /\ w = false).
Proof.
  intros s w r Hc Hd He1 He2 I. unfold next_package in I. rewrite Hc in I.
  destruct (n_q s) as [|p q] eqn:Eq.
  - destruct (select_cases s w) as [|x l] eqn:E; [exfalso; exact (done_case_ready s w Hd E)|].
    rewrite <- E in I. apply select_cases_spec in I.
    destruct I as [I|[I|[[_ L]|[[_ L]|[[a [rest [I Ea]]]|I]]]]]; try lia.
    + right; left; exact I.
    + right; right; left; exact I.
    + left. exists a. split; [exact I|]. right. split; [reflexivity|]. rewrite Ea. reflexivity.
    + right; right; right; exact I.
  - destruct I as [I|[]]. left. exists p. split; [symmetry; exact I|]. left. reflexivity.
Qed.

(* NextPackageUntil on a queue nothing is added to, with a done context and no error queued: it ends (given fuel
   for the queued packages), never by blocking; the callback saw a prefix of the queue *)
Definition quiet (s : nstate) : Prop :=
  n_closed s = false /\ (n_ctx s || n_conn s) = true /\ n_cerr s <= 0 /\ n_err s <= 0 /\ n_arr s = [].

Lemma quiet_after_pkg : forall s p q, quiet s -> n_q s = p :: q ->
  quiet (after_result s (NPkg p)) /\ n_q (after_result s (NPkg p)) = q.
Proof.
  intros s p q [H1 [H2 [H3 [H4 H5]]]] Hq. unfold after_result. rewrite Hq. cbn.
  split; [repeat split; assumption | reflexivity].
Qed.

Lemma quiet_empty : forall s, quiet s -> n_q s = [] ->
  next_package s true = [NCtx] \/ next_package s true = [NConnCtx] \/ next_package s true = [NCtx; NConnCtx].
Proof.
  intros s [H1 [H2 [H3 [H4 H5]]]] Hq. unfold next_package, select_cases. rewrite H1, Hq, H5.
  replace (0 <? n_cerr s) with false by (symmetry; apply Z.ltb_ge; exact H3).
  replace (0 <? n_err s) with false by (symmetry; apply Z.ltb_ge; exact H4).
  destruct (n_ctx s), (n_conn s); cbn; try discriminate; auto.
Qed.

Definition ctx_end (u : ures) : Prop := u = UErr NCtx \/ u = UErr NConnCtx.

Lemma quiet_empty_res : forall s, quiet s -> n_q s = [] ->
  exists r l, next_package s true = r :: l /\ (r = NCtx \/ r = NConnCtx).
Proof.
  intros s Hq Eq. destruct (quiet_empty s Hq Eq) as [E|[E|E]]; rewrite E; eexists _, _; split; try reflexivity; auto.
Qed.

(* without a callback: nothing is shown; the call ends with the final DONE or the error of the done context *)
Lemma until_none_ok : forall fuel s final seen0 inner,
  quiet s -> (length (n_q s) < fuel)%nat ->
  exists u, until_done fuel s final None seen0 inner = (seen0, u) /\ (u = UEof \/ u = UNil \/ ctx_end u).
Proof.
  intros fuel. induction fuel as [|f IH]; intros s final seen0 inner Hq Hf; [lia|].
  cbn [until_done].
  destruct (n_q s) as [|p q] eqn:Eq.
  - destruct (quiet_empty_res s Hq Eq) as [r [l [E Hr]]]. rewrite E.
    destruct Hr as [Hr|Hr]; subst r; eexists; (split; [reflexivity|]); right; right; [left|right]; reflexivity.
  - destruct Hq as [H1 Hrest]. pose proof (conj H1 Hrest) as Hq.
    rewrite (queued_first s true p q H1 Eq).
    destruct (quiet_after_pkg s p q Hq Eq) as [Hq' Eq'].
    cbn [length] in Hf.
    assert (Hf' : (length (n_q (after_result s (NPkg p))) < f)%nat) by (rewrite Eq'; lia).
    destruct inner.
    + destruct (final p); [eexists; split; [reflexivity | right; left; reflexivity]|].
      exact (IH _ final seen0 true Hq' Hf').
    + destruct (final p); [eexists; split; [reflexivity | left; reflexivity]|].
      exact (IH _ final seen0 true Hq' Hf').
Qed.

(* with a callback: it is shown a prefix of the queue; the call ends with a package it was shown or the error of the
   done context *)
Lemma until_some_ok : forall fuel s final stop seen0 inner,
  quiet s -> (length (n_q s) < fuel)%nat ->
  exists seen u, until_done fuel s final (Some stop) seen0 inner = (seen0 ++ seen, u) /\
    (exists k, seen = firstn k (n_q s)) /\ ((exists p, u = UPkg p /\ In p seen) \/ ctx_end u).
Proof.
  intros fuel. induction fuel as [|f IH]; intros s final stop seen0 inner Hq Hf; [lia|].
  cbn [until_done].
  destruct (n_q s) as [|p q] eqn:Eq.
  - destruct (quiet_empty_res s Hq Eq) as [r [l [E Hr]]]. rewrite E.
    exists [], (UErr r). rewrite app_nil_r.
    destruct Hr as [Hr|Hr]; subst r; (split; [reflexivity|]); (split; [exists O; reflexivity|]); right; [left|right]; reflexivity.
  - destruct Hq as [H1 Hrest]. pose proof (conj H1 Hrest) as Hq.
    rewrite (queued_first s true p q H1 Eq).
    destruct (quiet_after_pkg s p q Hq Eq) as [Hq' Eq'].
    cbn [length] in Hf.
    assert (Hf' : (length (n_q (after_result s (NPkg p))) < f)%nat) by (rewrite Eq'; lia).
    destruct (zlen (seen0 ++ [p]) =? stop).
    + exists [p], (UPkg p). split; [reflexivity|]. split; [exists 1%nat; reflexivity|].
      left. exists p. split; [reflexivity | left; reflexivity].
    + destruct (IH (after_result s (NPkg p)) final stop (seen0 ++ [p]) inner Hq' Hf') as [seen [u [E [[k Hk] Hu]]]].
      exists (p :: seen), u. split; [rewrite E, <- app_assoc; reflexivity|].
      split; [exists (S k); rewrite Hk, Eq'; reflexivity|].
      destruct Hu as [[p' [Hu Hin]]|Hu]; [left; exists p'; split; [exact Hu | right; exact Hin] | right; exact Hu].
Qed.

(* a failing callback: the call ends with the callback's error or the error of the done context, never by blocking *)
Lemma until_fail_ok : forall fuel s final n seen0,
  quiet s -> (2 * length (n_q s) < fuel)%nat ->
  exists seen r, until_fail fuel s final n seen0 = (seen0 ++ seen, r) /\
    (exists k, seen = firstn k (n_q s)) /\ (r = FCbErr \/ exists u, r = FEnd u /\ ctx_end u).
Proof.
  intros fuel. induction fuel as [|f IH]; intros s final n seen0 Hq Hf; [lia|].
  cbn [until_fail].
  destruct (n_q s) as [|p q] eqn:Eq.
  - destruct (quiet_empty_res s Hq Eq) as [r [l [E Hr]]]. rewrite E.
    exists [], (FEnd (UErr r)). rewrite app_nil_r.
    destruct Hr as [Hr|Hr]; subst r; (split; [reflexivity|]); (split; [exists O; reflexivity|]); right; eexists; (split; [reflexivity|]); [left|right]; reflexivity.
  - destruct Hq as [H1 Hrest]. pose proof (conj H1 Hrest) as Hq.
    rewrite (queued_first s true p q H1 Eq).
    destruct (quiet_after_pkg s p q Hq Eq) as [Hq' Eq'].
    cbn [length] in Hf.
    destruct (zlen (seen0 ++ [p]) =? n).
    + destruct (final p).
      * exists [p], FCbErr. split; [reflexivity|]. split; [exists 1%nat; reflexivity | left; reflexivity].
      * assert (Hf' : (length (n_q (after_result s (NPkg p))) < f)%nat) by (rewrite Eq'; lia).
        destruct (until_none_ok f (after_result s (NPkg p)) final [] false Hq' Hf') as [u [E Hu]].
        rewrite E. cbn [snd].
        exists [p], FCbErr. split.
        -- destruct Hu as [Hu|[Hu|[Hu|Hu]]]; subst u; reflexivity.
        -- split; [exists 1%nat; reflexivity | left; reflexivity].
    + assert (Hf' : (2 * length (n_q (after_result s (NPkg p))) < f)%nat) by (rewrite Eq'; lia).
      destruct (IH (after_result s (NPkg p)) final n (seen0 ++ [p]) Hq' Hf') as [seen [r [E [[k Hk] Hr]]]].
      exists (p :: seen), r. split; [rewrite E, <- app_assoc; reflexivity|].
      split; [exists (S k); rewrite Hk, Eq'; reflexivity | exact Hr].
Qed.

(* ------------------------------------------------------------------ sending *)

Lemma send_closed : forall d pk, send_call true d pk = ([], SClosed).
Proof. reflexivity. Qed.

(* a context that is done when the call starts: not a single packet is written, the call reports it *)
Lemma send_cancelled : forall d pk, d O = true -> pk <> [] -> send_call false d pk = ([], SCtx).
Proof.
  intros d pk H Hne. unfold send_call. destruct pk as [|p r]; [congruence|]. cbn [send_loop]. rewrite H. reflexivity.
Qed.

Lemma send_nothing_queued : forall closed d, fst (send_call closed d []) = [].
Proof. intros closed d. unfold send_call. destruct closed; reflexivity. Qed.

(* in general: what is written is a prefix of the queued packets, each of them written while the contexts were live;
   the loop stops at the first packet in front of which a context is done *)
Lemma send_loop_prefix : forall pk i d,
  exists k, fst (send_loop i d pk) = firstn k pk /\
            (forall j, (j < k)%nat -> d (i + j)%nat = false) /\
            (snd (send_loop i d pk) = SOk /\ k = length pk \/
             snd (send_loop i d pk) = SCtx /\ (k < length pk)%nat /\ d (i + k)%nat = true).
Proof.
  intros pk. induction pk as [|p r IH]; intros i d.
  - exists O. cbn. split; [reflexivity|]. split; [intros j Hj; lia | left; split; reflexivity].
  - cbn [send_loop]. destruct (d i) eqn:Ed.
    + exists O. cbn. split; [reflexivity|]. split; [intros j Hj; lia|].
      right. split; [reflexivity|]. split; [lia|]. rewrite Nat.add_0_r. exact Ed.
    + destruct (IH (S i) d) as [k [H1 [H2 H3]]].
      destruct (send_loop (S i) d r) as [w e] eqn:E. cbn [fst snd] in *.
      exists (S k). split; [cbn; f_equal; exact H1|]. split.
      * intros j Hj. destruct j as [|j]; [rewrite Nat.add_0_r; exact Ed|].
        replace (i + S j)%nat with (S i + j)%nat by lia. apply H2. lia.
      * destruct H3 as [[H3 H4]|[H3 [H4 H5]]].
        -- left. split; [exact H3 | cbn; lia].
        -- right. split; [exact H3|]. split; [cbn; lia|]. replace (i + S k)%nat with (S i + k)%nat by lia. exact H5.
Qed.
