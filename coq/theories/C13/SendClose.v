(* C13/SendClose.v — Close arriving while a SendPackage is in progress on the same channel: a system of TWO goroutines
   on the channel's RWMutex (Go semantics: a pending Lock blocks new RLocks; Lock is granted when no read lock is held).

   sender  = Channel.SendPackage = QueuePackage ; SendRemainingPackets: two consecutive read-lock critical sections
             (RLock; if closed {RUnlock; return ErrChannelClosed}; n packets written; RUnlock), n1 packets in the first
             (the full packets of the message), n2 in the second (the last packet).
   closer  = Channel.Close: check under the read lock, teardown packet, Lock, closed = true, Unlock.
   recu    = the variant in which SendPackage itself holds the read lock around both sections (recursive read lock).

   Executable model, NO proofs in this file (C13/ProofsSendClose.v). *)
From Coq Require Import ZArith List Bool Arith.
Import ListNotations.
From V Require Import Base.Tree.

Inductive spc :=
| SOuterLock                 (* recursive variant: tdsChan.RLock() at the top of SendPackage *)
| SOuterChk                  (*                    if tdsChan.closed { return ErrChannelClosed } *)
| SLock1                     (* QueuePackage: RLock *)
| SChk1                      (*               if closed { return ErrChannelClosed } *)
| SWrite1 (n : nat)          (*               sendPackets(onlyFull): n packets still to write *)
| SUnlock1 (c : Z)           (*               deferred RUnlock; c = -1: returned nil, go on; else the result *)
| SLock2                     (* SendRemainingPackets: RLock *)
| SChk2
| SWrite2 (n : nat)
| SUnlock2 (c : Z)
| SOuterUnlock (c : Z)       (* recursive variant: deferred RUnlock of SendPackage *)
| SDone (c : Z).             (* SendPackage returned: 0 nil, 2 ErrChannelClosed *)

Inductive kpc :=
| KStart                     (* RLock; closed := tdsChan.closed; RUnlock; (compare-and-swap on closing: the only closer wins) *)
| KSend                      (* teardown packet (logical channel) *)
| KLockReq                   (* tdsChan.Lock() announced: new RLocks block *)
| KLockAcq                   (* ... granted once no read lock is held *)
| KMark                      (* if closed {Unlock; return ErrChannelClosed}; closed = true; unregister; drain *)
| KUnlock
| KDone (c : Z).

Record st := mkSt {
  closed : bool; rd : nat; wpend : bool; wheld : bool;     (* the channel and its RWMutex *)
  sp : spc; kp : kpc;
  recu : bool; n1 : nat; n2 : nat;
  writes : nat                                             (* packets of the message written so far *)
}.

Inductive lab := LS | LK.

Definition set_sp (s : st) (p : spc) : st :=
  mkSt (closed s) (rd s) (wpend s) (wheld s) p (kp s) (recu s) (n1 s) (n2 s) (writes s).
Definition set_kp (s : st) (p : kpc) : st :=
  mkSt (closed s) (rd s) (wpend s) (wheld s) (sp s) p (recu s) (n1 s) (n2 s) (writes s).
Definition rlock (s : st) (p : spc) : option st :=
  if wpend s || wheld s then None
  else Some (mkSt (closed s) (S (rd s)) (wpend s) (wheld s) p (kp s) (recu s) (n1 s) (n2 s) (writes s)).
Definition runlock (s : st) (p : spc) : st :=
  mkSt (closed s) (pred (rd s)) (wpend s) (wheld s) p (kp s) (recu s) (n1 s) (n2 s) (writes s).
Definition wrote (s : st) (p : spc) : st :=
  mkSt (closed s) (rd s) (wpend s) (wheld s) p (kp s) (recu s) (n1 s) (n2 s) (S (writes s)).
(* SendPackage returns c: through the deferred outer RUnlock in the recursive variant *)
Definition fin (s : st) (c : Z) : spc := if recu s then SOuterUnlock c else SDone c.

Definition sender_step (s : st) : option st :=
  match sp s with
  | SOuterLock => rlock s SOuterChk
  | SOuterChk => Some (set_sp s (if closed s then SOuterUnlock 2 else SLock1))
  | SLock1 => rlock s SChk1
  | SChk1 => Some (set_sp s (if closed s then SUnlock1 2 else SWrite1 (n1 s)))
  | SWrite1 0 => Some (set_sp s (SUnlock1 (-1)))
  | SWrite1 (S n) => Some (wrote s (SWrite1 n))
  | SUnlock1 c => Some (runlock s (if (c =? -1)%Z then SLock2 else fin s c))
  | SLock2 => rlock s SChk2
  | SChk2 => Some (set_sp s (if closed s then SUnlock2 2 else SWrite2 (n2 s)))
  | SWrite2 0 => Some (set_sp s (SUnlock2 0))
  | SWrite2 (S n) => Some (wrote s (SWrite2 n))
  | SUnlock2 c => Some (runlock s (fin s c))
  | SOuterUnlock c => Some (runlock s (SDone c))
  | SDone _ => None
  end.

Definition closer_step (s : st) : option st :=
  match kp s with
  | KStart => if wpend s || wheld s then None else Some (set_kp s (if closed s then KDone 2 else KSend))
  | KSend => Some (set_kp s KLockReq)
  | KLockReq => Some (mkSt (closed s) (rd s) true (wheld s) (sp s) KLockAcq (recu s) (n1 s) (n2 s) (writes s))
  | KLockAcq =>
      if (rd s =? 0)%nat && negb (wheld s)
      then Some (mkSt (closed s) (rd s) false true (sp s) KMark (recu s) (n1 s) (n2 s) (writes s))
      else None
  | KMark =>
      if closed s
      then Some (mkSt (closed s) (rd s) (wpend s) false (sp s) (KDone 2) (recu s) (n1 s) (n2 s) (writes s))
      else Some (mkSt true (rd s) (wpend s) (wheld s) (sp s) KUnlock (recu s) (n1 s) (n2 s) (writes s))
  | KUnlock => Some (mkSt (closed s) (rd s) (wpend s) false (sp s) (KDone 0) (recu s) (n1 s) (n2 s) (writes s))
  | KDone _ => None
  end.

Definition step (s : st) (l : lab) : option st :=
  match l with LS => sender_step s | LK => closer_step s end.

(* a schedule: any list of labels; a label whose move is not possible leaves the state unchanged *)
Definition exec1 (s : st) (l : lab) : st := match step s l with Some s' => s' | None => s end.
Definition exec (s : st) (ls : list lab) : st := fold_left exec1 ls s.

(* effective moves of a schedule *)
Fixpoint moves (s : st) (ls : list lab) : nat :=
  match ls with
  | [] => 0
  | l :: r => match step s l with Some s' => S (moves s' r) | None => moves s r end
  end.

Definition init (r : bool) (a b : nat) : st :=
  mkSt false 0 false false (if r then SOuterLock else SLock1) KStart r a b 0.

Definition sender_done (s : st) : bool := match sp s with SDone _ => true | _ => false end.
Definition closer_done (s : st) : bool := match kp s with KDone _ => true | _ => false end.
Definition sender_code (s : st) : Z := match sp s with SDone c => c | _ => 9%Z end.
Definition closer_code (s : st) : Z := match kp s with KDone c => c | _ => 9%Z end.
Definition stuck (s : st) : bool :=
  negb (sender_done s && closer_done s) &&
  match step s LS, step s LK with None, None => true | _, _ => false end.

(* the measure that every move decreases *)
Definition mu_s (s : st) : nat :=
  match sp s with
  | SOuterLock => n1 s + n2 s + 12
  | SOuterChk => n1 s + n2 s + 11
  | SLock1 => n1 s + n2 s + 10
  | SChk1 => n1 s + n2 s + 9
  | SWrite1 n => n + n2 s + 8
  | SUnlock1 _ => n2 s + 7
  | SLock2 => n2 s + 6
  | SChk2 => n2 s + 5
  | SWrite2 n => n + 4
  | SUnlock2 _ => 3
  | SOuterUnlock _ => 2
  | SDone _ => 0
  end.
Definition mu_k (s : st) : nat :=
  match kp s with
  | KStart => 7 | KSend => 6 | KLockReq => 5 | KLockAcq => 4 | KMark => 3 | KUnlock => 2 | KDone _ => 0
  end.
Definition mu (s : st) : nat := mu_s s + mu_k s.

(* ---- the schedules of the harness (fn 13) *)
Fixpoint run_sender (fuel : nat) (stop : st -> bool) (s : st) : st :=
  match fuel with
  | O => s
  | S f => if stop s then s else match sender_step s with Some s' => run_sender f stop s' | None => s end
  end.
Fixpoint run_closer (fuel : nat) (s : st) : st :=
  match fuel with
  | O => s
  | S f => match closer_step s with Some s' => run_closer f s' | None => s end
  end.
Fixpoint alternate (rounds fuel : nat) (s : st) : st :=
  match rounds with
  | O => s
  | S r => alternate r fuel (run_closer fuel (run_sender fuel (fun _ => false) s))
  end.
(* the sender is inside the k-th Write of the message (held back by the transport) *)
Definition at_write (k : nat) (s : st) : bool :=
  (writes s =? pred k)%nat && match sp s with SWrite1 (S _) | SWrite2 (S _) => true | _ => false end.
