(* TDS_ORDERBY / TDS_ORDERBY2 (tds/packageOrderBy.go).  Server-only: WriteTo returns "not implemented".
   Both implement LastPkg: the preceding package must be a *RowFmtPackage, otherwise the channel reports an
   error before ReadFrom runs.  Context tree:  ()  = no preceding ROWFMT (LastPkg fails),  (n) = preceded by a
   ROWFMT with n columns (n is not consulted by the reader).
   ORDERBY : uint16 count, count column numbers of 1 byte           (no further accounting)
   ORDERBY2: uint32 total, uint16 count, count column numbers of 2 bytes;  n = 2 + 2*count  must equal total. *)
From Coq Require Import ZArith List Bool Lia.
Import ListNotations.
From V Require Import Base.Tree Base.Bytes Base.BytesFacts Base.Parser Base.ParserFacts.
Open Scope Z_scope.

Record orderby := { ob_cols : list Z }.

Definition has_rowfmt (ctx : tree) : bool := match ctx with TL (_ :: _) => true | _ => false end.

Definition dec_orderby_read : parser orderby :=
  let* count := u16 in
  let* cols := repeat_n (Z.to_nat count) u8 in
  ret {| ob_cols := cols |}.

Definition dec_orderby2_read : parser orderby :=
  let* total := u32 in
  let* count := u16 in
  let* cols := repeat_n (Z.to_nat count) u16 in
  if negb (2 + 2 * count =? total) then fail 2 else ret {| ob_cols := cols |}.

(* wide = TDS_ORDERBY2 *)
Definition dec_orderby (wide : bool) (ctx : tree) : parser orderby :=
  if has_rowfmt ctx then (if wide then dec_orderby2_read else dec_orderby_read) else fail 3.

Definition tok_orderby : Z := 169.
Definition tok_orderby2 : Z := 34.
Definition enc_orderby (wide : bool) (p : orderby) : option bytes := None.

(* the TDS 5.0 layout (independent encoder; the library has none) *)
Definition wire_orderby_body (p : orderby) : bytes :=
  bytes_of_le 2 (zlen (ob_cols p)) ++ concat (map (bytes_of_le 1) (ob_cols p)).
Definition wire_orderby2_body (p : orderby) : bytes :=
  bytes_of_le 4 (2 + 2 * zlen (ob_cols p)) ++ bytes_of_le 2 (zlen (ob_cols p)) ++ concat (map (bytes_of_le 2) (ob_cols p)).

Definition wf_orderby (wide : bool) (p : orderby) : Prop :=
  zlen (ob_cols p) < 65536 /\ Forall (fun c => 0 <= c < (if wide then 65536 else 256)) (ob_cols p).

Lemma dec_orderby_streamable wide ctx : streamable (dec_orderby wide ctx).
Proof. unfold dec_orderby, dec_orderby_read, dec_orderby2_read. streamable_tac. Qed.

Lemma orderby_wire_roundtrip p r ctx : has_rowfmt ctx = true -> wf_orderby false p ->
  dec_orderby false ctx (wire_orderby_body p ++ r) = POk p r.
Proof.
  intros Hc [Hl Hf]. unfold dec_orderby. rewrite Hc. unfold dec_orderby_read, wire_orderby_body. rewrite <- app_assoc.
  pose proof (zlen_nonneg (ob_cols p)) as Hnn.
  assert (B1 : 0 <= zlen (ob_cols p) < 65536) by lia.
  rewrite (bind_ok _ _ _ _ _ (u16_enc _ _ B1)).
  unfold zlen at 1. rewrite Nat2Z.id.
  rewrite (bind_ok _ _ _ _ _ (repeat_n_enc u8 (bytes_of_le 1) (ob_cols p) r
            (fun x r' Hx => u8_enc x r' (proj1 (Forall_forall _ _) Hf x Hx)))).
  destruct p; reflexivity.
Qed.

Lemma orderby2_wire_roundtrip p r ctx : has_rowfmt ctx = true -> wf_orderby true p ->
  dec_orderby true ctx (wire_orderby2_body p ++ r) = POk p r.
Proof.
  intros Hc [Hl Hf]. unfold dec_orderby. rewrite Hc. unfold dec_orderby2_read, wire_orderby2_body. rewrite <- !app_assoc.
  pose proof (zlen_nonneg (ob_cols p)) as Hnn.
  assert (B0 : 0 <= 2 + 2 * zlen (ob_cols p) < 4294967296) by lia.
  assert (B1 : 0 <= zlen (ob_cols p) < 65536) by lia.
  rewrite (bind_ok _ _ _ _ _ (u32_enc _ _ B0)).
  rewrite (bind_ok _ _ _ _ _ (u16_enc _ _ B1)).
  unfold zlen at 1. rewrite Nat2Z.id.
  rewrite (bind_ok _ _ _ _ _ (repeat_n_enc u16 (bytes_of_le 2) (ob_cols p) r
            (fun x r' Hx => u16_enc x r' (proj1 (Forall_forall _ _) Hf x Hx)))).
  rewrite Z.eqb_refl. destruct p; reflexivity.
Qed.

(* without a preceding ROWFMT nothing is read *)
Lemma orderby_needs_rowfmt wide s : dec_orderby wide (TL []) s = PErr 3 s.
Proof. reflexivity. Qed.

Definition orderby_tree (p : orderby) : tree := TL [TL (map TI (ob_cols p))].
Definition orderby_of_tree (t : tree) : orderby := {| ob_cols := map t_int (t_list (t_nth 0 t)) |}.

(* the ORDERBY2 length field of the layout equals the number of bytes that follow it *)
Lemma wire_orderby2_len p : Forall (fun c => True) (ob_cols p) ->
  exists rest, wire_orderby2_body p = bytes_of_le 4 (zlen rest) ++ rest.
Proof.
  intros _. exists (bytes_of_le 2 (zlen (ob_cols p)) ++ concat (map (bytes_of_le 2) (ob_cols p))).
  unfold wire_orderby2_body. f_equal. f_equal. rewrite zlen_app, zlen_bytes_of_le, zlen_concat, map_map.
  change (Z.of_nat 2) with 2. f_equal.
  induction (ob_cols p) as [|c l IH]; [reflexivity|]. cbn [map zsum fold_right]. rewrite zlen_bytes_of_le, zlen_cons.
  unfold zsum in IH. rewrite <- IH. change (Z.of_nat 2) with 2. lia.
Qed.
