(* Login record: the independent decoder recovers every field from what pack() writes, the record has a
   constant length, and a field that does not fit its slot makes pack() fail (nothing is truncated or shifted). *)
From Coq Require Import ZArith List Bool Lia.
Import ListNotations.
From V Require Import Base.Tree Base.Bytes Base.BytesFacts Base.Parser Base.ParserFacts Pkg.LoginRec.
Open Scope Z_scope.

Lemma slot_fits pad s : zlen s <= pad -> slot pad s = Some (s ++ zeros (pad - zlen s) ++ [zlen s mod 256]).
Proof. intros H. unfold slot. destruct (Z.ltb_spec pad (zlen s)) as [Hlt|Hge]; [lia|reflexivity]. Qed.

Lemma slot_oversize pad s : pad < zlen s -> slot pad s = None.
Proof. intros H. unfold slot. destruct (Z.ltb_spec pad (zlen s)) as [Hlt|Hge]; [reflexivity|lia]. Qed.

Lemma slot_some_iff pad s : (exists b, slot pad s = Some b) <-> zlen s <= pad.
Proof.
  split.
  - intros [b Hb]. unfold slot in Hb. destruct (Z.ltb_spec pad (zlen s)) as [Hlt|Hge]; [discriminate|exact Hge].
  - intros H. eexists. apply slot_fits. exact H.
Qed.

(* a slot is pad+1 bytes whatever the text *)
Lemma zlen_slot pad s b : slot pad s = Some b -> zlen b = pad + 1.
Proof.
  intros H. unfold slot in H. destruct (Z.ltb_spec pad (zlen s)) as [Hlt|Hge]; [discriminate|]. inversion H; subst.
  pose proof (zlen_nonneg s) as Hn. rewrite !zlen_app, zlen_zeros by lia. cbn. lia.
Qed.

Lemma all_zero_zeros n : all_zero (zeros n) = true.
Proof. unfold all_zero, zeros. induction (Z.to_nat n) as [|k IH]; [reflexivity|]. cbn. exact IH. Qed.

Lemma u8_cons x r : 0 <= x < 256 -> u8 (x :: r) = POk x r.
Proof. intros H. pose proof (u8_enc x r H) as E. cbn [bytes_of_le app] in E. rewrite Z.mod_small in E by exact H. exact E. Qed.

(* the strict slot parser inverts writeString *)
Lemma p_slot_ok pad s r : zlen s <= pad -> pad < 256 ->
  p_slot pad (s ++ zeros (pad - zlen s) ++ [zlen s mod 256] ++ r) = POk s r.
Proof.
  intros Hs Hp. pose proof (zlen_nonneg s) as Hn. unfold p_slot.
  assert (Hl : zlen (s ++ zeros (pad - zlen s)) = pad) by (rewrite zlen_app, zlen_zeros by lia; lia).
  rewrite (app_assoc s). rewrite (bind_ok _ _ _ _ _ (take_app_n pad _ _ Hl)).
  rewrite Z.mod_small by lia. change ([zlen s] ++ r) with (zlen s :: r).
  assert (Hb : 0 <= zlen s < 256) by lia.
  rewrite (bind_ok _ _ _ _ _ (u8_cons _ r Hb)).
  destruct (Z.ltb_spec pad (zlen s)) as [Hlt|Hge]; [lia|].
  rewrite zdrop_app_exact, all_zero_zeros, ztake_app_exact. reflexivity.
Qed.

(* the bytes of a record whose fields fit *)
Definition slot_bytes (pad : Z) (s : bytes) : bytes := s ++ zeros (pad - zlen s) ++ [zlen s mod 256].

Definition login_bytes (c : login_cfg) : bytes :=
  slot_bytes 30 (lc_hostname c) ++ slot_bytes 30 (lc_username c) ++ slot_bytes 30 (written_password c) ++
  slot_bytes 30 (lc_hostproc c) ++
  3 :: 1 :: 6 :: 10 :: 9 :: 1 :: 1 :: 0 :: 0 :: zeros 4 ++ zeros 3 ++
  slot_bytes 30 (lc_appname c) ++ slot_bytes 30 (lc_servname c) ++ slot_bytes 255 [] ++
  [5; 0; 0; 0] ++ slot_bytes 10 library_name ++ library_version ++ 0 :: 13 :: 17 ::
  slot_bytes 30 (lc_language c) ++ 1 :: zeros 2 ++ seclogin_of (lc_encrypt c) :: 1 :: 1 :: zeros 6 ++ zeros 2 ++
  slot_bytes 30 (lc_charset c) ++ 1 :: slot_bytes 6 packet_size_text ++ zeros 4 ++ [].

Lemma enc_login_fit c : fields_fit c -> enc_login c = Some (login_bytes c).
Proof.
  intros [H1 [H2 [H3 [H4 [H5 [H6 [H7 H8]]]]]]]. unfold fits in *. unfold enc_login.
  rewrite (slot_fits 30 (lc_hostname c) H1), (slot_fits 30 (lc_username c) H2), (slot_fits 30 (written_password c) H3),
          (slot_fits 30 (lc_hostproc c) H4), (slot_fits 30 (lc_appname c) H5), (slot_fits 30 (lc_servname c) H6),
          (slot_fits 30 (lc_language c) H7), (slot_fits 30 (lc_charset c) H8).
  rewrite (slot_fits 255 []) by (cbn; lia).
  rewrite (slot_fits 10 library_name) by (cbn; lia).
  rewrite (slot_fits 6 packet_size_text) by (cbn; lia).
  reflexivity.
Qed.

Lemma zlen_slot_bytes pad s : zlen s <= pad -> zlen (slot_bytes pad s) = pad + 1.
Proof. intros H. apply (zlen_slot pad s). apply slot_fits. exact H. Qed.

Lemma login_bytes_length c : fields_fit c -> zlen (login_bytes c) = login_record_length.
Proof.
  intros [H1 [H2 [H3 [H4 [H5 [H6 [H7 H8]]]]]]]. unfold fits in *. unfold login_bytes, login_record_length.
  repeat first [ rewrite zlen_app | rewrite zlen_cons | rewrite zlen_slot_bytes by (cbn; lia) | rewrite zlen_zeros by lia ].
  change (zlen library_version) with 4. change (zlen [5; 0; 0; 0]) with 4. change (zlen (@nil Z)) with 0. lia.
Qed.

Lemma seclogin_byte e : 0 <= seclogin_of e < 256.
Proof.
  unfold seclogin_of. destruct (e =? 1); [lia|]. destruct (e =? 14); [lia|]. destruct ((e =? 30) || (e =? 35)); lia.
Qed.

Ltac login_step :=
  erewrite bind_ok;
  [| first [ apply p_slot_ok; cbn; lia
           | apply u8_cons; first [lia | apply seclogin_byte]
           | apply take_app_n; reflexivity ] ].

Lemma p_login_bytes c : fields_fit c -> p_login (login_bytes c) = POk (fields c) [].
Proof.
  intros [H1 [H2 [H3 [H4 [H5 [H6 [H7 H8]]]]]]]. unfold fits in *.
  unfold p_login, login_bytes, slot_bytes. rewrite <- !app_assoc.
  do 36 login_step.
  reflexivity.
Qed.

(* ---------------------------------------------------------------- the theorems *)
Theorem login_record_recovered c : fields_fit c ->
  exists bs, enc_login c = Some bs /\ zlen bs = login_record_length /\ parse_login_record bs = Some (fields c).
Proof.
  intros H. exists (login_bytes c). split; [apply enc_login_fit; exact H|]. split; [apply login_bytes_length; exact H|].
  unfold parse_login_record. rewrite (p_login_bytes c H). reflexivity.
Qed.

(* the form asked for: parse_login_record (enc_login cfg) = Some (fields cfg) *)
Theorem login_record_roundtrip c : fields_fit c -> obind (enc_login c) parse_login_record = Some (fields c).
Proof.
  intros H. destruct (login_record_recovered c H) as [bs [E [_ P]]]. rewrite E. exact P.
Qed.

(* oversized fields are rejected: no record is produced (so nothing can be truncated or shifted) *)
Theorem login_record_oversize_rejected c : ~ fields_fit c -> enc_login c = None.
Proof.
  intros Hn. destruct (enc_login c) as [bs|] eqn:E; [|reflexivity]. exfalso. apply Hn.
  revert E. unfold enc_login.
  repeat match goal with
  | |- context [slot ?p ?s] =>
      let Hs := fresh "Hs" in destruct (slot p s) eqn:Hs; cbn [obind]; [|discriminate]
  end.
  intros _. unfold fields_fit, fits.
  repeat split; match goal with |- zlen ?s <= 30 => idtac end;
    match goal with Hs : slot 30 ?s = Some _ |- zlen ?s <= 30 => exact (proj1 (slot_some_iff _ _) (ex_intro _ _ Hs)) end.
Qed.

Theorem login_record_total c : fields_fit c \/ enc_login c = None.
Proof.
  destruct (fields_fitb c) eqn:F.
  - left. unfold fields_fitb, fitsb in F. repeat (apply andb_prop in F; destruct F as [F ?F0]).
    unfold fields_fit, fits. repeat split; apply Z.leb_le; assumption.
  - right. apply login_record_oversize_rejected. intros [H1 [H2 [H3 [H4 [H5 [H6 [H7 H8]]]]]]]. unfold fits in *.
    unfold fields_fitb, fitsb in F.
    rewrite (proj2 (Z.leb_le _ _) H1), (proj2 (Z.leb_le _ _) H2), (proj2 (Z.leb_le _ _) H3), (proj2 (Z.leb_le _ _) H4),
            (proj2 (Z.leb_le _ _) H5), (proj2 (Z.leb_le _ _) H6), (proj2 (Z.leb_le _ _) H7), (proj2 (Z.leb_le _ _) H8) in F.
    discriminate.
Qed.

(* whenever pack() produces a record it has the constant length *)
Theorem login_record_length_const c bs : enc_login c = Some bs -> zlen bs = login_record_length.
Proof.
  intros E. destruct (login_record_total c) as [Hf|Hn].
  - rewrite (enc_login_fit c Hf) in E. inversion E; subst. apply login_bytes_length. exact Hf.
  - rewrite Hn in E. discriminate.
Qed.

(* every string field comes back, in particular: nothing is truncated or shifted *)
Corollary login_record_strings c bs f : fields_fit c -> enc_login c = Some bs -> parse_login_record bs = Some f ->
  lf_hostname f = lc_hostname c /\ lf_username f = lc_username c /\ lf_password f = written_password c /\
  lf_hostproc f = lc_hostproc c /\ lf_appname f = lc_appname c /\ lf_servname f = lc_servname c /\
  lf_language f = lc_language c /\ lf_charset f = lc_charset c /\ lf_rempw f = [] /\ lf_seclogin f = seclogin_of (lc_encrypt c).
Proof.
  intros Hf E P. destruct (login_record_recovered c Hf) as [bs' [E' [_ P']]]. rewrite E in E'. inversion E'; subst bs'.
  rewrite P in P'. inversion P'; subst f. cbn. repeat split; reflexivity.
Qed.

(* non-vacuity: the defaults of NewLoginConfig fit and give a 568 byte record *)
Example login_example :
  let c := {| lc_hostname := [99; 108]; lc_username := [115; 97]; lc_password := [112; 119]; lc_hostproc := [49];
              lc_appname := [97]; lc_servname := [115]; lc_language := [117; 115]; lc_charset := [117; 116; 102; 56];
              lc_encrypt := 35; lc_remote := [] |} in
  option_map (@length Z) (enc_login c) = Some 568%nat /\ obind (enc_login c) parse_login_record = Some (fields c).
Proof. vm_compute. split; reflexivity. Qed.
