(* TDS_KEY 0xCA (tds/packageKey.go; NOT reachable from LookupPackage; the data type is a field of the package
   value that must be set before ReadFrom: it is the CONTEXT of the decoder).
   reader:  length := ByteSize(dt) if ByteSize(dt) > 0, else one length byte;  value bytes;  DataType.GoValue
   writer:  token | bs := DataType.Bytes(value, LengthBytes(dt)) | [uint8(len(bs))] iff ByteSize(dt) == -1 | bs
   The writer passes the WIDTH OF THE LENGTH PREFIX (LengthBytes: -1, 1 or 4) where DataType.Bytes expects the
   length of the value; the consequences per data type are tabulated in [key_class] (checked against the code
   by the harness).  The Go value itself is not part of the field tree: its conversion is the data type layer's
   business; the decoder result keeps the raw value bytes instead (see [key_tree] for what is compared). *)
From Coq Require Import ZArith List Bool Lia.
Import ListNotations.
From V Require Import Base.Tree Base.Bytes Base.BytesFacts Base.Parser Base.ParserFacts Pkg.GenTypes Gen.GenPkg.
Open Scope Z_scope.

Definition key_fixed_size (dt : Z) : Z := zassoc dt dt_byte_size (-1).
Definition key_valid (dt len : Z) : bool := vspec_ok (zassoc dt dt_valid (VList [])) len.
Definition key_panics (dt len : Z) : bool := existsb (fun p => (fst p =? dt) && (snd p =? len)) dt_panics.

Definition dec_key (dt : Z) : parser (Z * bytes) :=
  let* len := (if 0 <? key_fixed_size dt then ret (key_fixed_size dt) else u8) in
  let* bs := take len in
  if key_panics dt len then (fun _ => PPanic)
  else if key_valid dt len then ret (dt, bs)
  else fail 2.   (* fmt.Errorf("tds: error converting bytes to %s: %w", ..., err): err is never the sentinel *)

Lemma key_panics_false dt len : key_panics dt len = false.
Proof. reflexivity. Qed.

Lemma dec_key_streamable dt : streamable (dec_key dt).
Proof.
  unfold dec_key. apply streamable_bind; [streamable_tac|intros len].
  apply streamable_bind; [streamable_tac|intros bs]. rewrite key_panics_false. streamable_tac.
Qed.

(* ---- writer ---- *)
Definition tok_key : Z := 202.

(* What DataType.Bytes(endian, GoValue(dt, raw), LengthBytes(dt)) does, by data type and len = len(raw)
   (only lengths GoValue accepts):
     0  GoValue gave nil (empty value of a nullable type): Bytes returns no bytes
     1  returns raw unchanged (integers, floats, character and binary strings)
     2  BIT: returns [1] if raw = [1], else [0]
     3  PANICS: make([]byte, -1) for fixed-length money / date / time types (LengthBytes = -1),
        or a 4/8-byte store into the 1-byte slice make([]byte, 1) for DATEN / TIMEN / BIGTIMEN / BIGDATETIMEN
     4  returns the single byte [0] instead of the value (MONEYN, DATETIMEN: make([]byte, 1), no case for length 1)
     9  not modelled here (DECN, NUMN, UNITEXT, odd MONEYN lengths, types GoValue does not handle) *)
Definition key_class (dt len : Z) : Z :=
  if existsb (Z.eqb dt) [48; 52; 56; 191; 65; 66; 67; 59; 62] then 1
  else if existsb (Z.eqb dt) [38; 68; 109; 225; 45; 37; 34; 163; 47; 39; 35; 175] then (if len =? 0 then 0 else 1)
  else if dt =? 50 then 2
  else if existsb (Z.eqb dt) [60; 122; 49; 51; 58; 61] then 3
  else if existsb (Z.eqb dt) [123; 147; 188; 187] then (if len =? 0 then 0 else 3)
  else if dt =? 110 then (if (len =? 4) || (len =? 8) then 4 else 9)
  else if dt =? 111 then (if len =? 0 then 0 else 4)
  else 9.

Inductive kres := KOk (bs : bytes) | KErr | KPanic | KUnmodelled.

(* has_value = false: pkg.Value == nil (Bytes returns no bytes for every data type) *)
Definition key_value_bytes (dt : Z) (has_value : bool) (raw : bytes) : kres :=
  if negb has_value then KOk []
  else match key_class dt (zlen raw) with
       | 0 => KOk []
       | 1 => KOk raw
       | 2 => KOk [if list_Z_eqb raw [1] then 1 else 0]
       | 3 => KPanic
       | 4 => KOk [0]
       | _ => KUnmodelled
       end.

Definition enc_key_body (dt : Z) (bs : bytes) : bytes :=
  (if key_fixed_size dt =? -1 then bytes_of_le 1 (zlen bs mod 256) else []) ++ bs.

Definition enc_key (dt : Z) (has_value : bool) (raw : bytes) : kres :=
  match key_value_bytes dt has_value raw with
  | KOk bs => KOk (tok_key :: enc_key_body dt bs)
  | x => x
  end.

(* read back what was written, for the data types whose bytes pass through unchanged *)
Lemma key_roundtrip dt raw r :
  key_valid dt (zlen raw) = true ->
  (key_fixed_size dt = -1 /\ zlen raw < 256 \/ 0 < key_fixed_size dt /\ zlen raw = key_fixed_size dt) ->
  dec_key dt (enc_key_body dt raw ++ r) = POk (dt, raw) r.
Proof.
  intros Hv Hsz. pose proof (zlen_nonneg raw) as Hl. unfold dec_key, enc_key_body.
  destruct Hsz as [[Hf Hlt]|[Hpos Heq]].
  - rewrite Hf. cbn [Z.ltb Z.compare Z.eqb]. rewrite <- app_assoc. rewrite Z.mod_small by lia.
    rewrite (bind_ok _ _ _ _ _ (u8_enc _ _ (conj Hl Hlt))).
    rewrite (bind_ok _ _ _ _ _ (take_app _ _)). rewrite key_panics_false, Hv. reflexivity.
  - replace (0 <? key_fixed_size dt) with true by (symmetry; apply Z.ltb_lt; lia).
    replace (key_fixed_size dt =? -1) with false by (symmetry; apply Z.eqb_neq; lia).
    cbn [app]. unfold bind at 1, ret at 1. rewrite <- Heq.
    rewrite (bind_ok _ _ _ _ _ (take_app _ _)). rewrite key_panics_false, Hv. reflexivity.
Qed.

(* field trees.  encode: (dt has_value raw).
   decode: (dt view bytes) where view describes pkg.Value as far as it can be observed without the data type layer:
     0 nil;  1 a Go integer / float / bool / string / []byte, rendered as its little-endian bytes;
     2 a *Decimal or time.Time or a UNITEXT string (not rendered). *)
Definition key_view (dt len : Z) : Z :=
  if (dt =? 174) && (len =? 0) then 0
  else match key_class dt len with 0 => 0 | 1 => 1 | 2 => 1 | _ => 2 end.
Definition key_view_bytes (dt : Z) (raw : bytes) : bytes :=
  match key_class dt (zlen raw) with
  | 1 => if (dt =? 174) then [] else raw
  | 2 => [if list_Z_eqb raw [1] then 1 else 0]
  | _ => []
  end.
Definition key_tree (x : Z * bytes) : tree :=
  TL [TI (fst x); TI (key_view (fst x) (zlen (snd x))); TB (key_view_bytes (fst x) (snd x))].
Definition key_ctx_dt (ctx : tree) : Z := t_int (t_nth 0 ctx).
Definition key_enc_of_tree (t : tree) : kres :=
  enc_key (t_int (t_nth 0 t)) (t_bool (t_nth 1 t)) (t_bytes (t_nth 2 t)).
Definition key_enc_option (t : tree) : option bytes :=
  match key_enc_of_tree t with KOk bs => Some bs | _ => None end.
Definition key_enc_panics (t : tree) : bool :=
  match key_enc_of_tree t with KPanic => true | _ => false end.
