(* Registry of the packages of builder B2: DYNAMIC(2), CURDECLARE(3), CURINFO(3), CUROPEN, CURFETCH, CURUPDATE,
   CURDELETE, CURCLOSE, OPTIONCMD, KEY, CONTROL and the token-less catch-all.
   CURCLOSE 0x80, OPTIONCMD 0xA6, KEY 0xCA and CONTROL 0xAE are NOT reachable from tds.LookupPackage (which returns
   a TokenlessPackage for these tokens): their entries describe the package types used directly.
   KEY: the context tree is (dt), the data type the package value was constructed with.
   Token-less: one entry per token for which the generated table says LookupPackage returns *TokenlessPackage,
   except the four tokens above. *)
From Coq Require Import ZArith List Bool Lia.
Import ListNotations.
From V Require Import Base.Tree Base.Bytes Base.BytesFacts Base.Parser Base.ParserFacts Pkg.Iface Pkg.GenTypes Gen.GenPkg.
From V Require Import Pkg.CurCommon Pkg.WideCommon Pkg.Dynamic Pkg.CurDeclare Pkg.CurInfo Pkg.CurOpen Pkg.CurFetch
  Pkg.CurUpdate Pkg.CurDelete Pkg.CurClose Pkg.OptionCmd Pkg.Key Pkg.Control Pkg.Tokenless.
Open Scope Z_scope.

Definition kind_dynamic (wide : bool) : kind :=
  {| k_tok := tok_dynamic wide;
     k_dec := fun _ => pmap dynamic_tree (dec_dynamic wide);
     k_enc := fun t => enc_dynamic wide (dynamic_of_tree t) |}.
Definition kind_curdeclare (wide : bool) : kind :=
  {| k_tok := tok_curdeclare wide;
     k_dec := fun _ => pmap curdeclare_tree (dec_curdeclare wide);
     k_enc := fun t => enc_curdeclare wide (curdeclare_of_tree t) |}.
Definition kind_curinfo (wide : bool) : kind :=
  {| k_tok := tok_curinfo wide;
     k_dec := fun _ => pmap curinfo_tree (dec_curinfo wide);
     k_enc := fun t => enc_curinfo wide (curinfo_of_tree t) |}.
Definition kind_curopen : kind :=
  {| k_tok := tok_curopen; k_dec := fun _ => pmap curopen_tree dec_curopen;
     k_enc := fun t => enc_curopen (curopen_of_tree t) |}.
Definition kind_curfetch : kind :=
  {| k_tok := tok_curfetch; k_dec := fun _ => pmap curfetch_tree dec_curfetch;
     k_enc := fun t => enc_curfetch (curfetch_of_tree t) |}.
Definition kind_curupdate : kind :=
  {| k_tok := tok_curupdate; k_dec := fun _ => pmap curupdate_tree dec_curupdate;
     k_enc := fun t => enc_curupdate (curupdate_of_tree t) |}.
Definition kind_curdelete : kind :=
  {| k_tok := tok_curdelete; k_dec := fun _ => pmap curdelete_tree dec_curdelete;
     k_enc := fun t => enc_curdelete (curdelete_of_tree t) |}.
Definition kind_curclose : kind :=
  {| k_tok := tok_curclose; k_dec := fun _ => pmap curclose_tree dec_curclose;
     k_enc := fun t => enc_curclose (curclose_of_tree t) |}.
Definition kind_optioncmd : kind :=
  {| k_tok := tok_optioncmd; k_dec := fun _ => pmap optioncmd_tree dec_optioncmd;
     k_enc := fun t => enc_optioncmd (optioncmd_of_tree t) |}.
(* KEY: context (dt); encoder fields (dt has_value raw); a panicking writer is reported by [key_enc_panics] *)
Definition kind_key : kind :=
  {| k_tok := tok_key; k_dec := fun ctx => pmap key_tree (dec_key (key_ctx_dt ctx));
     k_enc := key_enc_option |}.
Definition kind_control : kind :=
  {| k_tok := tok_control; k_dec := fun _ => pmap control_tree dec_control;
     k_enc := fun t => enc_control (control_of_tree t) |}.
Definition kind_tokenless (tok : Z) : kind :=
  {| k_tok := tok; k_dec := fun _ => pmap tokenless_tree dec_tokenless;
     k_enc := fun t => enc_tokenless (tokenless_of_tree t) |}.

Definition tokenless_name : list Z := [84;111;107;101;110;108;101;115;115;80;97;99;107;97;103;101].
Definition direct_tokens : list Z := [tok_curclose; tok_optioncmd; tok_key; tok_control].
Definition tokenless_tokens : list Z :=
  map fst (filter (fun e => list_Z_eqb (fst (snd e)) tokenless_name && negb (existsb (Z.eqb (fst e)) direct_tokens)) token_kind).

Definition kinds_b2_named : list kind :=
  [kind_dynamic false; kind_dynamic true; kind_curdeclare false; kind_curdeclare true;
   kind_curinfo false; kind_curinfo true; kind_curopen; kind_curfetch; kind_curupdate; kind_curdelete;
   kind_curclose; kind_optioncmd; kind_key; kind_control].

Definition kinds_b2 : list kind := kinds_b2_named ++ map kind_tokenless tokenless_tokens.

(* writers that panic (only KEY has such cases) *)
Definition enc_panics_b2 (tok : Z) (fields : tree) : bool := (tok =? tok_key) && key_enc_panics fields.

Lemma kinds_b2_streamable : kinds_streamable kinds_b2.
Proof.
  unfold kinds_streamable, kinds_b2. apply Forall_app. split.
  - unfold kinds_b2_named.
    repeat (apply Forall_cons;
      [ intros ctx; cbn [k_dec]; apply streamable_pmap;
        first [ apply dec_dynamic_streamable | apply dec_curdeclare_streamable | apply dec_curinfo_streamable
              | apply dec_curopen_streamable | apply dec_curfetch_streamable | apply dec_curupdate_streamable
              | apply dec_curdelete_streamable | apply dec_curclose_streamable | apply dec_optioncmd_streamable
              | apply dec_key_streamable | apply dec_control_streamable ] | ]).
    apply Forall_nil.
  - apply Forall_forall. intros k Hin. apply in_map_iff in Hin. destruct Hin as [tok [E _]]. subst k.
    intros ctx. cbn [k_dec kind_tokenless]. apply streamable_pmap, dec_tokenless_streamable.
Qed.

(* ---- round trips at the level of the registry (field trees): whatever the writer produces for well-formed
   fields is read back as the same fields, whatever follows. *)
Lemma kind_roundtrip_gen {A} (dec : parser A) (enc_body : A -> bytes) (tr : A -> tree) (ot : tree -> A)
      (tok : Z) (x : A) (body r : bytes) :
  ot (tr x) = x -> (forall r', dec (enc_body x ++ r') = POk x r') ->
  Some (tok :: enc_body (ot (tr x))) = Some (tok :: body) -> pmap tr dec (body ++ r) = POk (tr x) r.
Proof.
  intros E H He. rewrite E in He. inversion He; subst body. apply pmap_ok. apply H.
Qed.

Lemma kind_curopen_roundtrip ctx c body r : wf_curopen c ->
  k_enc kind_curopen (curopen_tree c) = Some (tok_curopen :: body) ->
  k_dec kind_curopen ctx (body ++ r) = POk (curopen_tree c) r.
Proof.
  intros Hwf He. cbn [k_enc k_dec kind_curopen] in *. unfold enc_curopen in He.
  apply (kind_roundtrip_gen dec_curopen enc_curopen_body curopen_tree curopen_of_tree tok_curopen c body r
           (curopen_of_tree_tree c) (fun r' => curopen_roundtrip c r' Hwf) He).
Qed.
Lemma kind_curclose_roundtrip ctx c body r : wf_curclose c ->
  k_enc kind_curclose (curclose_tree c) = Some (tok_curclose :: body) ->
  k_dec kind_curclose ctx (body ++ r) = POk (curclose_tree c) r.
Proof.
  intros Hwf He. cbn [k_enc k_dec kind_curclose] in *. unfold enc_curclose in He.
  apply (kind_roundtrip_gen dec_curclose enc_curclose_body curclose_tree curclose_of_tree tok_curclose c body r
           (curclose_of_tree_tree c) (fun r' => curclose_roundtrip c r' Hwf) He).
Qed.
Lemma kind_curdelete_roundtrip ctx c body r : wf_curdelete c ->
  k_enc kind_curdelete (curdelete_tree c) = Some (tok_curdelete :: body) ->
  k_dec kind_curdelete ctx (body ++ r) = POk (curdelete_tree c) r.
Proof.
  intros Hwf He. cbn [k_enc k_dec kind_curdelete] in *. unfold enc_curdelete in He.
  apply (kind_roundtrip_gen dec_curdelete enc_curdelete_body curdelete_tree curdelete_of_tree tok_curdelete c body r
           (curdelete_of_tree_tree c) (fun r' => curdelete_roundtrip c r' Hwf) He).
Qed.
Lemma kind_curfetch_roundtrip ctx c body r : wf_curfetch c ->
  k_enc kind_curfetch (curfetch_tree c) = Some (tok_curfetch :: body) ->
  k_dec kind_curfetch ctx (body ++ r) = POk (curfetch_tree c) r.
Proof.
  intros Hwf He. cbn [k_enc k_dec kind_curfetch] in *. unfold enc_curfetch in He.
  apply (kind_roundtrip_gen dec_curfetch enc_curfetch_body curfetch_tree curfetch_of_tree tok_curfetch c body r
           (curfetch_of_tree_tree c) (fun r' => curfetch_roundtrip c r' Hwf) He).
Qed.
Lemma kind_curupdate_roundtrip ctx c body r : wf_curupdate c ->
  k_enc kind_curupdate (curupdate_tree c) = Some (tok_curupdate :: body) ->
  k_dec kind_curupdate ctx (body ++ r) = POk (curupdate_tree c) r.
Proof.
  intros Hwf He. cbn [k_enc k_dec kind_curupdate] in *. unfold enc_curupdate in He.
  apply (kind_roundtrip_gen dec_curupdate enc_curupdate_body curupdate_tree curupdate_of_tree tok_curupdate c body r
           (curupdate_of_tree_tree c) (fun r' => curupdate_roundtrip c r' Hwf) He).
Qed.
Lemma kind_curinfo_roundtrip wide ctx c body r : wf_curinfo wide c ->
  k_enc (kind_curinfo wide) (curinfo_tree c) = Some (tok_curinfo wide :: body) ->
  k_dec (kind_curinfo wide) ctx (body ++ r) = POk (curinfo_tree c) r.
Proof.
  intros Hwf He. cbn [k_enc k_dec kind_curinfo] in *. unfold enc_curinfo in He.
  apply (kind_roundtrip_gen (dec_curinfo wide) (enc_curinfo_body wide) curinfo_tree curinfo_of_tree (tok_curinfo wide) c body r
           (curinfo_of_tree_tree c) (fun r' => curinfo_roundtrip wide c r' Hwf) He).
Qed.
Lemma kind_curdeclare_roundtrip wide ctx c body r : wf_curdeclare wide c ->
  k_enc (kind_curdeclare wide) (curdeclare_tree c) = Some (tok_curdeclare wide :: body) ->
  k_dec (kind_curdeclare wide) ctx (body ++ r) = POk (curdeclare_tree c) r.
Proof.
  intros Hwf He. cbn [k_enc k_dec kind_curdeclare] in *. unfold enc_curdeclare in He.
  apply (kind_roundtrip_gen (dec_curdeclare wide) (enc_curdeclare_body wide) curdeclare_tree curdeclare_of_tree (tok_curdeclare wide) c body r
           (curdeclare_of_tree_tree c) (fun r' => curdeclare_roundtrip wide c r' Hwf) He).
Qed.
Lemma kind_optioncmd_roundtrip ctx o body r : wf_optioncmd o ->
  k_enc kind_optioncmd (optioncmd_tree o) = Some (tok_optioncmd :: body) ->
  k_dec kind_optioncmd ctx (body ++ r) = POk (optioncmd_tree o) r.
Proof.
  intros Hwf He. cbn [k_enc k_dec kind_optioncmd] in *. unfold enc_optioncmd in He.
  apply (kind_roundtrip_gen dec_optioncmd enc_optioncmd_body optioncmd_tree optioncmd_of_tree tok_optioncmd o body r
           (optioncmd_of_tree_tree o) (fun r' => optioncmd_roundtrip o r' Hwf) He).
Qed.
(* DYNAMIC: the writer's own refusals (type 0, total at or above MaxInt16 / MaxInt32) are part of enc: no size hypothesis *)
Lemma kind_dynamic_roundtrip wide ctx d bs r : wf_dynamic_fields d ->
  k_enc (kind_dynamic wide) (dynamic_tree d) = Some bs ->
  exists body, bs = tok_dynamic wide :: body /\ k_dec (kind_dynamic wide) ctx (body ++ r) = POk (dynamic_tree d) r.
Proof.
  intros Hwf He. cbn [k_enc k_dec kind_dynamic] in *. rewrite dynamic_of_tree_tree in He.
  destruct (dynamic_roundtrip_enc wide d bs r Hwf He) as [E H]. exists (enc_dynamic_body wide d). split; [exact E|].
  apply pmap_ok. exact H.
Qed.
(* token-less: nothing is ever read back *)
Lemma kind_tokenless_never_ok tok ctx s t r : k_dec (kind_tokenless tok) ctx s <> POk t r.
Proof. cbn [k_dec kind_tokenless]. unfold pmap, bind, dec_tokenless. congruence. Qed.

(* the tokens are the ones the code uses *)
Example kinds_b2_tokens : map k_tok kinds_b2_named = [231; 98; 134; 16; 131; 136; 132; 130; 133; 129; 128; 166; 202; 174].
Proof. reflexivity. Qed.
Example tokenless_tokens_count : length tokenless_tokens = 222%nat.
Proof. reflexivity. Qed.
