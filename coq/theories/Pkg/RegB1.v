(* Registry of the packages of builder B1:
   LOGINACK 173, MSG 101, CAPABILITY 226, RETURNSTATUS 121, ORDERBY 169, ORDERBY2 34, ERROR 170, LANGUAGE 33,
   LOGOUT 113, login record 1000 (decoder = the independent layout decoder; the library has none),
   1001 = writeString on its own (fields (padTo #s); no decoder), 1002 / 1003 = value mask functions. *)
From Coq Require Import ZArith List Bool Lia.
Import ListNotations.
From V Require Import Base.Tree Base.Bytes Base.Parser Pkg.Iface.
From V Require Import Pkg.LoginAck Pkg.Msg Pkg.Capability Pkg.ReturnStatus Pkg.OrderBy Pkg.Error Pkg.Language Pkg.Logout Pkg.LoginRec.
Open Scope Z_scope.

Definition k_loginack : kind :=
  {| k_tok := tok_loginack; k_dec := fun _ => pmap loginack_tree dec_loginack;
     k_enc := fun t => enc_loginack (loginack_of_tree t) |}.
Definition k_msg : kind :=
  {| k_tok := tok_msg; k_dec := fun _ => pmap msg_tree dec_msg; k_enc := fun t => enc_msg (msg_of_tree t) |}.
Definition k_capability : kind :=
  {| k_tok := tok_capability; k_dec := fun _ => pmap capability_tree dec_capability;
     k_enc := fun t => enc_capability (capability_of_tree t) |}.
Definition k_returnstatus : kind :=
  {| k_tok := tok_returnstatus; k_dec := fun _ => pmap returnstatus_tree dec_returnstatus;
     k_enc := fun t => enc_returnstatus (returnstatus_of_tree t) |}.
(* context: () = no preceding ROWFMT, (n) = preceded by a ROWFMT with n columns *)
Definition k_orderby : kind :=
  {| k_tok := tok_orderby; k_dec := fun ctx => pmap orderby_tree (dec_orderby false ctx);
     k_enc := fun t => enc_orderby false (orderby_of_tree t) |}.
Definition k_orderby2 : kind :=
  {| k_tok := tok_orderby2; k_dec := fun ctx => pmap orderby_tree (dec_orderby true ctx);
     k_enc := fun t => enc_orderby true (orderby_of_tree t) |}.
Definition k_error : kind :=
  {| k_tok := tok_error; k_dec := fun _ => pmap error_tree dec_error; k_enc := fun t => enc_error (error_of_tree t) |}.
Definition k_language : kind :=
  {| k_tok := tok_language; k_dec := fun _ => pmap language_tree dec_language;
     k_enc := fun t => enc_language (language_of_tree t) |}.
Definition k_logout : kind :=
  {| k_tok := tok_logout; k_dec := fun _ => pmap logout_tree dec_logout; k_enc := fun t => enc_logout (logout_of_tree t) |}.
Definition k_loginrec : kind :=
  {| k_tok := 1000; k_dec := fun _ => pmap login_fields_tree p_login; k_enc := fun t => enc_login (login_cfg_of_tree t) |}.
Definition k_writestring : kind :=
  {| k_tok := 1001; k_dec := fun _ => fail 4; k_enc := enc_slot_tree |}.

(* the value mask functions on their own: 1002 fields (#booleans) -> valueMask.Bytes,
   1003 fields (#bytes) -> parseValueMask (one 00/01 byte per boolean) *)
Definition k_maskbytes : kind :=
  {| k_tok := 1002; k_dec := fun _ => fail 4; k_enc := fun t => Some (mask_bytes (mask_of_tree (t_nth 0 t))) |}.
Definition k_parsemask : kind :=
  {| k_tok := 1003; k_dec := fun _ => fail 4; k_enc := fun t => Some (map b2z (parse_mask (t_bytes (t_nth 0 t)))) |}.

Definition kinds_b1 : list kind :=
  [k_loginack; k_msg; k_capability; k_returnstatus; k_orderby; k_orderby2; k_error; k_language; k_logout;
   k_loginrec; k_writestring; k_maskbytes; k_parsemask].

Lemma p_slot_streamable pad : streamable (p_slot pad).
Proof. unfold p_slot. streamable_tac. Qed.

Lemma p_login_streamable : streamable p_login.
Proof.
  unfold p_login.
  repeat first [ apply p_slot_streamable | apply streamable_ret | apply streamable_take | apply streamable_u8
               | (apply streamable_bind; [|intros ?]) ].
Qed.

Lemma kinds_b1_streamable : kinds_streamable kinds_b1.
Proof.
  unfold kinds_streamable, kinds_b1.
  repeat (apply Forall_cons; [intros ctx; cbn [k_dec k_loginack k_msg k_capability k_returnstatus k_orderby k_orderby2
                                                 k_error k_language k_logout k_loginrec k_writestring k_maskbytes k_parsemask]|]);
    [ apply streamable_pmap, dec_loginack_streamable
    | apply streamable_pmap, dec_msg_streamable
    | apply streamable_pmap, dec_capability_streamable
    | apply streamable_pmap, dec_returnstatus_streamable
    | apply streamable_pmap, dec_orderby_streamable
    | apply streamable_pmap, dec_orderby_streamable
    | apply streamable_pmap, dec_error_streamable
    | apply streamable_pmap, dec_language_streamable
    | apply streamable_pmap, dec_logout_streamable
    | apply streamable_pmap, p_login_streamable
    | apply streamable_fail
    | apply streamable_fail
    | apply streamable_fail
    | apply Forall_nil ].
Qed.

(* the tokens are pairwise different: find_kind reaches every entry *)
Lemma kinds_b1_tokens : map k_tok kinds_b1 = [173; 101; 226; 121; 169; 34; 170; 33; 113; 1000; 1001; 1002; 1003].
Proof. reflexivity. Qed.
