(* TDS_OPTIONCMD 0xA6 (tds/packageOptionCmd.go; NOT reachable from LookupPackage):
   token | length u16 | command u8 | option u8 | argument length u8 | argument
   The reader discards the length field (no accounting against it). *)
From Coq Require Import ZArith List Bool Lia.
Import ListNotations.
From V Require Import Base.Tree Base.Bytes Base.BytesFacts Base.Parser Base.ParserFacts.
Open Scope Z_scope.

Record optioncmd := { oc_cmd : Z; oc_option : Z; oc_arg : bytes }.

Definition dec_optioncmd : parser optioncmd :=
  let* total := u16 in          (* if _, err := ch.Uint16(); ...   value unused *)
  let* cmd := u8 in
  let* opt := u8 in
  let* al := u8 in
  let* arg := take al in
  ret {| oc_cmd := cmd; oc_option := opt; oc_arg := arg |}.

Definition tok_optioncmd : Z := 166.
(* ch.WriteUint16(uint16(3 + len(pkg.OptionArg))) *)
Definition optioncmd_total (o : optioncmd) : Z := 3 + zlen (oc_arg o).
Definition enc_optioncmd_payload (o : optioncmd) : bytes :=
  bytes_of_le 1 (oc_cmd o mod 256) ++ bytes_of_le 1 (oc_option o mod 256) ++ lp8 (oc_arg o).
Definition enc_optioncmd_body (o : optioncmd) : bytes :=
  bytes_of_le 2 (optioncmd_total o mod 65536) ++ enc_optioncmd_payload o.
Definition enc_optioncmd (o : optioncmd) : option bytes := Some (tok_optioncmd :: enc_optioncmd_body o).

Definition wf_optioncmd (o : optioncmd) : Prop :=
  0 <= oc_cmd o < 256 /\ 0 <= oc_option o < 256 /\ zlen (oc_arg o) < 256.

Lemma dec_optioncmd_streamable : streamable dec_optioncmd.
Proof. unfold dec_optioncmd. streamable_tac. Qed.

Lemma enc_optioncmd_len o : zlen (enc_optioncmd_payload o) = optioncmd_total o.
Proof. unfold enc_optioncmd_payload, optioncmd_total. rewrite !zlen_app, !zlen_bytes_of_le, zlen_lp8. cbn [Z.of_nat Pos.of_succ_nat]. lia. Qed.

Lemma optioncmd_roundtrip o r : wf_optioncmd o -> dec_optioncmd (enc_optioncmd_body o ++ r) = POk o r.
Proof.
  intros [Hc [Ho Ha]]. pose proof (zlen_nonneg (oc_arg o)) as Hl.
  unfold dec_optioncmd, enc_optioncmd_body, enc_optioncmd_payload, optioncmd_total, lp8. rewrite <- !app_assoc.
  rewrite !Z.mod_small by lia.
  assert (Ht : 0 <= 3 + zlen (oc_arg o) < 65536) by lia.
  rewrite (bind_ok _ _ _ _ _ (u16_enc _ _ Ht)).
  rewrite (bind_ok _ _ _ _ _ (u8_enc _ _ Hc)).
  rewrite (bind_ok _ _ _ _ _ (u8_enc _ _ Ho)).
  rewrite (bind_ok _ _ _ _ _ (u8_enc _ _ (conj Hl Ha))).
  rewrite (bind_ok _ _ _ _ _ (take_app _ _)). destruct o; reflexivity.
Qed.

Definition optioncmd_tree (o : optioncmd) : tree := TL [TI (oc_cmd o); TI (oc_option o); TB (oc_arg o)].
Definition optioncmd_of_tree (t : tree) : optioncmd :=
  {| oc_cmd := t_int (t_nth 0 t); oc_option := t_int (t_nth 1 t); oc_arg := t_bytes (t_nth 2 t) |}.

Lemma optioncmd_of_tree_tree o : optioncmd_of_tree (optioncmd_tree o) = o.
Proof. destruct o; reflexivity. Qed.
