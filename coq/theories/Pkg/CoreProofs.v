From Coq Require Import ZArith List Bool Lia.
Import ListNotations.
From V Require Import Base.Tree Base.Bytes Base.BytesFacts Base.Parser Base.ParserFacts
  Pkg.GenTypes Gen.GenPkg Pkg.Iface Pkg.Field Pkg.Fmts Pkg.Done Pkg.Eed Pkg.RegCore.
Open Scope Z_scope.

Lemma read_len_streamable lb : streamable (read_len lb).
Proof. unfold read_len. streamable_tac. Qed.

Lemma read_base_streamable dt : streamable (read_base dt).
Proof. unfold read_base. destruct (is_fixed dt); [apply streamable_ret|]. apply streamable_bind; [apply read_len_streamable|]. intros l. apply streamable_ret. Qed.

Lemma dec_fmt_tail_streamable dt : streamable (dec_fmt_tail dt).
Proof.
  unfold dec_fmt_tail.
  repeat match goal with
         | |- streamable (match ?x with _ => _ end) => destruct x
         end;
  repeat first [ apply streamable_fail | apply streamable_ret | apply read_base_streamable
               | apply streamable_u8 | apply streamable_u16 | apply streamable_take
               | (apply streamable_bind; [|intros ?])
               | match goal with |- streamable (if ?c then _ else _) => destruct c end ].
Qed.

Lemma dec_paramfmt_field_streamable w : streamable (dec_paramfmt_field w).
Proof.
  unfold dec_paramfmt_field.
  repeat first [ apply streamable_ret | apply dec_fmt_tail_streamable
               | apply streamable_u8 | apply streamable_u16 | apply streamable_u32 | apply streamable_i32 | apply streamable_take
               | (apply streamable_bind; [|intros ?])
               | match goal with |- streamable (if ?c then _ else _) => destruct c end ].
Qed.

Lemma paramfmt_field_checked_streamable w : streamable (paramfmt_field_checked w).
Proof.
  unfold paramfmt_field_checked. apply streamable_bind; [apply dec_paramfmt_field_streamable|]. intros fn.
  cbv zeta. match goal with |- streamable (if ?c then _ else _) => destruct c end; [apply streamable_ret|apply streamable_fail].
Qed.

Lemma dec_paramfmt_streamable w : streamable (dec_paramfmt w).
Proof.
  unfold dec_paramfmt.
  apply streamable_bind; [destruct w; streamable_tac|]. intros total.
  apply streamable_bind; [apply streamable_u16|]. intros cnt.
  apply streamable_bind; [apply streamable_repeat_n, paramfmt_field_checked_streamable|]. intros fs.
  cbv zeta. match goal with |- streamable (if ?c then _ else _) => destruct c end; [apply streamable_fail|apply streamable_ret].
Qed.

Lemma dec_rowfmt_field_streamable w : streamable (dec_rowfmt_field w).
Proof.
  unfold dec_rowfmt_field. apply streamable_bind.
  - destruct w; [|apply streamable_ret].
    repeat first [ apply streamable_ret | apply streamable_u8 | apply streamable_take | (apply streamable_bind; [|intros ?]) ].
  - intros [[[[label cat] sch] tab] n0].
    repeat first [ apply streamable_ret | apply dec_fmt_tail_streamable
                 | apply streamable_u8 | apply streamable_u32 | apply streamable_i32 | apply streamable_i8 | apply streamable_take
                 | (apply streamable_bind; [|intros ?])
                 | match goal with |- streamable (if ?c then _ else _) => destruct c end ].
Qed.

Lemma dec_rowfmt_streamable w : streamable (dec_rowfmt w).
Proof.
  unfold dec_rowfmt.
  apply streamable_bind; [destruct w; streamable_tac|]. intros total.
  apply streamable_bind; [apply streamable_u16|]. intros cnt.
  apply streamable_bind; [apply streamable_repeat_n, dec_rowfmt_field_streamable|]. intros fs.
  cbv zeta. match goal with |- streamable (if ?c then _ else _) => destruct c end; [apply streamable_ret|apply streamable_fail].
Qed.

Lemma read_status_streamable f : streamable (read_status f).
Proof. unfold read_status. destruct (has_colstatus f); [apply streamable_u8|apply streamable_ret]. Qed.

Lemma dec_fdata_streamable f : streamable (dec_fdata f).
Proof.
  unfold dec_fdata.
  repeat match goal with
         | |- streamable (match ?x with _ => _ end) => destruct x
         end;
  repeat first [ apply streamable_fail | apply streamable_ret | apply read_status_streamable | apply read_len_streamable
               | apply streamable_u8 | apply streamable_u32 | apply streamable_take
               | (apply streamable_bind; [|intros ?])
               | match goal with |- streamable (if ?c then _ else _) => destruct c end ].
Qed.

Lemma dec_fields_streamable fs : streamable (dec_fields fs).
Proof.
  induction fs as [|f fs IH]; cbn [dec_fields]; [apply streamable_ret|].
  apply streamable_bind; [apply dec_fdata_streamable|]. intros v.
  apply streamable_bind; [exact IH|]. intros vs. apply streamable_ret.
Qed.

Lemma dec_params_streamable ctx : streamable (dec_params ctx).
Proof.
  unfold dec_params. destruct ctx as [fs|]; [|apply streamable_fail].
  destruct (params_ctx_ok fs); [apply dec_fields_streamable|apply streamable_fail].
Qed.

Lemma dec_eed_streamable : streamable dec_eed.
Proof.
  unfold dec_eed.
  repeat first [ apply streamable_ret | apply streamable_fail
               | apply streamable_u8 | apply streamable_u16 | apply streamable_u32 | apply streamable_take
               | (apply streamable_bind; [|intros ?])
               | match goal with |- streamable (if ?c then _ else _) => destruct c end ].
Qed.

Lemma dec_envmember_streamable : streamable dec_envmember.
Proof.
  unfold dec_envmember.
  repeat first [ apply streamable_ret | apply streamable_u8 | apply streamable_take
               | (apply streamable_bind; [|intros ?])
               | match goal with |- streamable (if ?c then _ else _) => destruct c end ].
Qed.

Lemma env_loop_streamable fuel : forall length n acc, streamable (env_loop fuel length n acc).
Proof.
  induction fuel as [|k IH]; intros length n acc; cbn [env_loop]; [apply streamable_fail|].
  destruct (n <? length).
  - apply streamable_bind; [apply dec_envmember_streamable|]. intros mn. apply IH.
  - destruct (length <? n); [apply streamable_fail|apply streamable_ret].
Qed.

Lemma dec_envchange_streamable : streamable dec_envchange.
Proof. unfold dec_envchange. apply streamable_bind; [apply streamable_u16|]. intros l. apply env_loop_streamable. Qed.

Theorem kinds_core_streamable : kinds_streamable kinds_core.
Proof.
  unfold kinds_streamable, kinds_core.
  repeat (apply Forall_cons;
          [ intros ctx; cbn [k_dec k_done k_eed k_envchange k_paramfmt k_rowfmt k_params]; apply streamable_pmap;
            first [ apply dec_done_streamable | apply dec_eed_streamable | apply dec_envchange_streamable
                  | apply dec_paramfmt_streamable | apply dec_rowfmt_streamable | apply dec_params_streamable ]
          | ]).
  apply Forall_nil.
Qed.
