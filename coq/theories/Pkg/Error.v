(* TDS_ERROR (tds/packageError.go, after fix e6a299b: the reader reads state and class).
   Reader: n accumulates as an int; the final check is  n != int(expectLength)  -> plain error.
   Writer: expectLength = 12 + len(msg) + len(server) + len(proc) as an int, written as uint16(expectLength);
   the length prefixes are uint16(len(msg)), uint8(len(server)), uint8(len(proc)) (silently truncating);
   the writer's own check  n != expectLength  compares two equal ints and never fires. *)
From Coq Require Import ZArith List Bool Lia.
Import ListNotations.
From V Require Import Base.Tree Base.Bytes Base.BytesFacts Base.Parser Base.ParserFacts.
Open Scope Z_scope.

Record error := {
  er_number : Z; er_state : Z; er_class : Z; er_msg : bytes; er_server : bytes; er_proc : bytes; er_line : Z }.

Definition dec_error : parser error :=
  let* expect := u16 in
  let* num := i32 in
  let* st := u8 in
  let* cl := u8 in
  let* ml := u16 in
  let* m := take ml in
  let* sl := u8 in
  let* s := take sl in
  let* pl := u8 in
  let* p := take pl in
  let* line := u16 in
  if negb (4 + 1 + 1 + 2 + ml + 1 + sl + 1 + pl + 2 =? expect) then fail 2
  else ret {| er_number := num; er_state := st; er_class := cl; er_msg := m; er_server := s; er_proc := p; er_line := line |}.

Definition tok_error : Z := 170.
Definition error_expect_length (e : error) : Z := 12 + zlen (er_msg e) + zlen (er_server e) + zlen (er_proc e).
Definition enc_error_after_length (e : error) : bytes :=
  bytes_of_le 4 (er_number e mod 4294967296) ++ bytes_of_le 1 (er_state e mod 256) ++ bytes_of_le 1 (er_class e mod 256) ++
  lp16 (er_msg e) ++ lp8 (er_server e) ++ lp8 (er_proc e) ++ bytes_of_le 2 (er_line e mod 65536).
Definition enc_error_body (e : error) : bytes :=
  bytes_of_le 2 (error_expect_length e mod 65536) ++ enc_error_after_length e.
Definition enc_error (e : error) : option bytes := Some (tok_error :: enc_error_body e).

Definition wf_error (e : error) : Prop :=
  -2147483648 <= er_number e < 2147483648 /\ 0 <= er_state e < 256 /\ 0 <= er_class e < 256 /\
  zlen (er_msg e) < 65536 /\ zlen (er_server e) < 256 /\ zlen (er_proc e) < 256 /\ 0 <= er_line e < 65536 /\
  error_expect_length e < 65536.

Lemma dec_error_streamable : streamable dec_error.
Proof. unfold dec_error. streamable_tac. Qed.

Lemma error_roundtrip e r : wf_error e -> dec_error (enc_error_body e ++ r) = POk e r.
Proof.
  intros [Hn [Hs [Hc [Hm [Hsv [Hp [Hl Ht]]]]]]]. unfold dec_error, enc_error_body, enc_error_after_length, lp16, lp8, error_expect_length in *.
  rewrite <- !app_assoc.
  pose proof (zlen_nonneg (er_msg e)) as N1. pose proof (zlen_nonneg (er_server e)) as N2. pose proof (zlen_nonneg (er_proc e)) as N3.
  rewrite (Z.mod_small (12 + _ + _ + _)) by lia.
  rewrite (Z.mod_small (er_state e)), (Z.mod_small (er_class e)), (Z.mod_small (er_line e)) by lia.
  rewrite (Z.mod_small (zlen (er_msg e))), (Z.mod_small (zlen (er_server e))), (Z.mod_small (zlen (er_proc e))) by lia.
  assert (B0 : 0 <= 12 + zlen (er_msg e) + zlen (er_server e) + zlen (er_proc e) < 65536) by lia.
  assert (B1 : 0 <= zlen (er_msg e) < 65536) by lia.
  assert (B2 : 0 <= zlen (er_server e) < 256) by lia.
  assert (B3 : 0 <= zlen (er_proc e) < 256) by lia.
  rewrite (bind_ok _ _ _ _ _ (u16_enc _ _ B0)).
  rewrite (bind_ok _ _ _ _ _ (i32_enc _ _ Hn)).
  rewrite (bind_ok _ _ _ _ _ (u8_enc _ _ Hs)).
  rewrite (bind_ok _ _ _ _ _ (u8_enc _ _ Hc)).
  rewrite (bind_ok _ _ _ _ _ (u16_enc _ _ B1)).
  rewrite (bind_ok _ _ _ _ _ (take_app _ _)).
  rewrite (bind_ok _ _ _ _ _ (u8_enc _ _ B2)).
  rewrite (bind_ok _ _ _ _ _ (take_app _ _)).
  rewrite (bind_ok _ _ _ _ _ (u8_enc _ _ B3)).
  rewrite (bind_ok _ _ _ _ _ (take_app _ _)).
  rewrite (bind_ok _ _ _ _ _ (u16_enc _ _ Hl)).
  replace (4 + 1 + 1 + 2 + zlen (er_msg e) + 1 + zlen (er_server e) + 1 + zlen (er_proc e) + 2 =? 12 + zlen (er_msg e) + zlen (er_server e) + zlen (er_proc e))
    with true by (symmetry; apply Z.eqb_eq; lia).
  destruct e; reflexivity.
Qed.

(* the length field written equals the number of bytes that follow it *)
Lemma enc_error_len e : wf_error e ->
  enc_error_body e = bytes_of_le 2 (zlen (enc_error_after_length e)) ++ enc_error_after_length e.
Proof.
  intros [Hn [Hs [Hc [Hm [Hsv [Hp [Hl Ht]]]]]]]. unfold enc_error_body. f_equal. f_equal.
  unfold enc_error_after_length, error_expect_length in *. rewrite !zlen_app, zlen_lp16, !zlen_lp8, !zlen_bytes_of_le.
  pose proof (zlen_nonneg (er_msg e)) as N1. pose proof (zlen_nonneg (er_server e)) as N2. pose proof (zlen_nonneg (er_proc e)) as N3.
  rewrite Z.mod_small by lia. change (Z.of_nat 4) with 4. change (Z.of_nat 1) with 1. change (Z.of_nat 2) with 2. lia.
Qed.

Definition error_tree (e : error) : tree :=
  TL [TI (er_number e); TI (er_state e); TI (er_class e); TB (er_msg e); TB (er_server e); TB (er_proc e); TI (er_line e)].
Definition error_of_tree (t : tree) : error :=
  {| er_number := t_int (t_nth 0 t); er_state := t_int (t_nth 1 t); er_class := t_int (t_nth 2 t);
     er_msg := t_bytes (t_nth 3 t); er_server := t_bytes (t_nth 4 t); er_proc := t_bytes (t_nth 5 t); er_line := t_int (t_nth 6 t) |}.
