(* TDS_RETURNSTATUS (tds/packageReturnStatus.go, after fix bd31c9e: the writer writes its token). *)
From Coq Require Import ZArith List Bool Lia.
Import ListNotations.
From V Require Import Base.Tree Base.Bytes Base.BytesFacts Base.Parser Base.ParserFacts.
Open Scope Z_scope.

Record returnstatus := { rs_value : Z }.

Definition dec_returnstatus : parser returnstatus :=
  let* v := i32 in ret {| rs_value := v |}.

Definition tok_returnstatus : Z := 121.
Definition enc_returnstatus_body (p : returnstatus) : bytes := bytes_of_le 4 (rs_value p mod 4294967296).
Definition enc_returnstatus (p : returnstatus) : option bytes := Some (tok_returnstatus :: enc_returnstatus_body p).

Definition wf_returnstatus (p : returnstatus) : Prop := -2147483648 <= rs_value p < 2147483648.

Lemma dec_returnstatus_streamable : streamable dec_returnstatus.
Proof. unfold dec_returnstatus. streamable_tac. Qed.

Lemma returnstatus_roundtrip p r : wf_returnstatus p -> dec_returnstatus (enc_returnstatus_body p ++ r) = POk p r.
Proof.
  intros H. unfold dec_returnstatus, enc_returnstatus_body.
  rewrite (bind_ok _ _ _ _ _ (i32_enc _ _ H)). destruct p; reflexivity.
Qed.

Lemma enc_returnstatus_len p : zlen (enc_returnstatus_body p) = 4.
Proof. unfold enc_returnstatus_body. rewrite zlen_bytes_of_le. reflexivity. Qed.

Definition returnstatus_tree (p : returnstatus) : tree := TL [TI (rs_value p)].
Definition returnstatus_of_tree (t : tree) : returnstatus := {| rs_value := t_int (t_nth 0 t) |}.
