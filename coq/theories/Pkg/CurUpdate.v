(* TDS_CURUPDATE 0x85 (tds/packageCurUpdate.go, reader repaired by a fix: commit):
   token | length u16 | cursor id i32 | [name length u8 | name]  (iff id = 0) | status u8 | table name length u8 | table name
         | [statement length u16 | statement]
   writer: statement part iff len(Stmt) > 0;  reader: statement part iff bytes are left according to the length field. *)
From Coq Require Import ZArith List Bool Lia.
Import ListNotations.
From V Require Import Base.Tree Base.Bytes Base.BytesFacts Base.Parser Base.ParserFacts Pkg.CurCommon.
Open Scope Z_scope.

Record curupdate := { cu_id : Z; cu_name : bytes; cu_status : Z; cu_table : bytes; cu_stmt : bytes }.

Definition dec_curupdate : parser curupdate :=
  let* total := u16 in
  let* hn := counted p_cur_head in
  let* st := u8 in
  let* tl := u8 in
  let* tn := take tl in
  let n := snd hn + 1 + 1 + tl in
  (* if n < int(totalLength) { stmtLength = ch.Uint16(); n += 2; pkg.Stmt = ch.String(stmtLength); n += stmtLength } *)
  let* sn := (if n <? total then (let* sl := u16 in let* s := take sl in ret (s, n + 2 + sl)) else ret ([], n)) in
  check_total (snd sn) total
    {| cu_id := fst (fst hn); cu_name := snd (fst hn); cu_status := st; cu_table := tn; cu_stmt := fst sn |}.

Definition tok_curupdate : Z := 133.
(* totalLength := 4 + 1 + 1 + len(TableName); if CursorID == 0 {+= 1 + len(Name)}; if len(Stmt) > 0 {+= 2 + len(Stmt)} *)
Definition curupdate_total (c : curupdate) : Z :=
  cur_head_total (cu_id c) (cu_name c) + 1 + 1 + zlen (cu_table c)
  + (if 0 <? zlen (cu_stmt c) then 2 + zlen (cu_stmt c) else 0).
Definition enc_curupdate_payload (c : curupdate) : bytes :=
  enc_cur_head (cu_id c) (cu_name c) ++ bytes_of_le 1 (cu_status c mod 256) ++ lp8 (cu_table c)
  ++ (if 0 <? zlen (cu_stmt c) then lp16 (cu_stmt c) else []).
Definition enc_curupdate_body (c : curupdate) : bytes :=
  bytes_of_le 2 (curupdate_total c mod 65536) ++ enc_curupdate_payload c.
Definition enc_curupdate (c : curupdate) : option bytes := Some (tok_curupdate :: enc_curupdate_body c).

Definition wf_curupdate (c : curupdate) : Prop :=
  wf_cur_head (cu_id c) (cu_name c) /\ 0 <= cu_status c < 256 /\ zlen (cu_table c) < 256 /\ curupdate_total c < 65536.

Lemma dec_curupdate_streamable : streamable dec_curupdate.
Proof. unfold dec_curupdate. streamable_tac; try apply p_cur_head_streamable; apply check_total_streamable. Qed.

Lemma enc_curupdate_len c : zlen (enc_curupdate_payload c) = curupdate_total c.
Proof.
  unfold enc_curupdate_payload, curupdate_total.
  rewrite !zlen_app, zlen_enc_cur_head, zlen_bytes_of_le, zlen_lp8.
  destruct (0 <? zlen (cu_stmt c)); [rewrite zlen_lp16|rewrite zlen_nil]; lia.
Qed.

Lemma curupdate_total_nonneg c : 0 <= curupdate_total c.
Proof. rewrite <- enc_curupdate_len. apply zlen_nonneg. Qed.

Lemma curupdate_roundtrip c r : wf_curupdate c -> dec_curupdate (enc_curupdate_body c ++ r) = POk c r.
Proof.
  intros [Hh [Hs [Htl Ht]]]. pose proof (curupdate_total_nonneg c) as Hnn.
  pose proof (zlen_nonneg (cu_table c)) as Hl. pose proof (zlen_nonneg (cu_stmt c)) as Hsl.
  assert (Hhn : 0 <= cur_head_total (cu_id c) (cu_name c)) by (rewrite <- zlen_enc_cur_head; apply zlen_nonneg).
  unfold dec_curupdate, enc_curupdate_body, enc_curupdate_payload, lp8. rewrite <- !app_assoc.
  rewrite (Z.mod_small (curupdate_total c)) by lia. rewrite (Z.mod_small (cu_status c)) by lia.
  rewrite (Z.mod_small (zlen (cu_table c))) by lia.
  rewrite (bind_ok _ _ _ _ _ (u16_enc _ _ (conj Hnn Ht))).
  rewrite (bind_ok _ _ _ _ _ (cur_head_counted _ _ _ Hh)).
  rewrite (bind_ok _ _ _ _ _ (u8_enc _ _ Hs)).
  rewrite (bind_ok _ _ _ _ _ (u8_enc _ _ (conj Hl Htl))).
  rewrite (bind_ok _ _ _ _ _ (take_app _ _)).
  cbn [fst snd]. unfold curupdate_total in *.
  destruct (Z.ltb_spec 0 (zlen (cu_stmt c))) as [Hpos|Hz].
  - match goal with |- context [if ?a <? ?b then _ else _] => replace (a <? b) with true by (symmetry; apply Z.ltb_lt; lia) end.
    assert (Hs16 : zlen (cu_stmt c) < 65536) by lia.
    unfold lp16. rewrite <- !app_assoc. rewrite (Z.mod_small (zlen (cu_stmt c))) by lia.
    match goal with |- bind ?p _ _ = _ =>
      assert (Hin : p (bytes_of_le 2 (zlen (cu_stmt c)) ++ cu_stmt c ++ r)
                    = POk (cu_stmt c, cur_head_total (cu_id c) (cu_name c) + 1 + 1 + zlen (cu_table c) + 2 + zlen (cu_stmt c)) r)
    end.
    { rewrite (bind_ok _ _ _ _ _ (u16_enc _ _ (conj Hsl Hs16))).
      rewrite (bind_ok _ _ _ _ _ (take_app _ _)). reflexivity. }
    rewrite (bind_ok _ _ _ _ _ Hin). cbn [fst snd].
    match goal with |- check_total ?a ?b _ _ = _ => replace a with b by lia end.
    rewrite check_total_ok. destruct c; reflexivity.
  - match goal with |- context [if ?a <? ?b then _ else _] => replace (a <? b) with false by (symmetry; apply Z.ltb_ge; lia) end.
    cbn [app]. unfold bind at 1, ret at 1. cbn [fst snd].
    match goal with |- check_total ?a ?b _ _ = _ => replace b with a by lia end.
    rewrite check_total_ok.
    assert (E : cu_stmt c = []) by (apply zlen_zero_nil; lia). rewrite <- E. destruct c; reflexivity.
Qed.

Definition curupdate_tree (c : curupdate) : tree :=
  TL [TI (cu_id c); TB (cu_name c); TI (cu_status c); TB (cu_table c); TB (cu_stmt c)].
Definition curupdate_of_tree (t : tree) : curupdate :=
  {| cu_id := t_int (t_nth 0 t); cu_name := t_bytes (t_nth 1 t); cu_status := t_int (t_nth 2 t);
     cu_table := t_bytes (t_nth 3 t); cu_stmt := t_bytes (t_nth 4 t) |}.

Lemma curupdate_of_tree_tree c : curupdate_of_tree (curupdate_tree c) = c.
Proof. destruct c; reflexivity. Qed.
