(* Field formats and field data (tds/field.go), the part of TDS_PARAMFMT/2, TDS_ROWFMT/2,
   TDS_PARAMS and TDS_ROW that depends on the data type.  Data-type tables come from Gen/GenPkg.v
   (ByteSize, LengthBytes, format/data class of LookupFieldFmt / LookupFieldData, preset MaxLength,
   lengths accepted by GoValue), re-tabulated from the code on every run.  No proofs here. *)
From Coq Require Import ZArith List Bool.
Import ListNotations.
From V Require Import Base.Tree Base.Bytes Base.Parser Base.ParserFacts Pkg.GenTypes Gen.GenPkg.
Open Scope Z_scope.

Definition byte_size (dt : Z) : Z := zassoc dt dt_byte_size (-1).
Definition dt_lenbytes (dt : Z) : Z := zassoc dt dt_length_bytes (-1).
Definition fmt_class (dt : Z) : Z := zassoc dt dt_fmt_class 0.
Definition data_class (dt : Z) : Z := zassoc dt dt_data_class 0.
Definition preset_maxlen (dt : Z) : Z := zassoc dt dt_preset_maxlen 0.
Definition value_len_ok (dt n : Z) : bool := vspec_ok (zassoc dt dt_valid (VList [])) n.
Definition is_fixed (dt : Z) : bool := negb (byte_size dt =? -1).
(* fieldFmtBase.LengthBytes() *)
Definition length_bytes (dt : Z) : Z := if is_fixed dt then byte_size dt else dt_lenbytes dt.

Record ffmt := {
  f_dt : Z; f_name : bytes; f_status : Z; f_usertype : Z; f_locale : bytes;
  f_maxlen : Z; f_prec : Z; f_scale : Z; f_blobtype : Z; f_classid : bytes; f_tabname : bytes;
  f_label : bytes; f_cat : bytes; f_schema : bytes; f_table : bytes }.

(* the data-type dependent tail of a format *)
Record ftail := { t_maxlen : Z; t_prec : Z; t_scale : Z; t_blobtype : Z; t_classid : bytes; t_tabname : bytes }.
Definition tail0 (m : Z) : ftail := {| t_maxlen := m; t_prec := 0; t_scale := 0; t_blobtype := 0; t_classid := []; t_tabname := [] |}.

(* readLengthBytes(ch, n): 4 -> uint32, 2 -> uint16, anything else -> uint8 *)
Definition read_len (lb : Z) : parser Z := if lb =? 4 then u32 else if lb =? 2 then u16 else u8.
Definition write_len (lb v : Z) : bytes :=
  if lb =? 4 then bytes_of_le 4 (v mod 4294967296) else if lb =? 2 then bytes_of_le 2 (v mod 65536) else bytes_of_le 1 (v mod 256).

(* readFromBase: (max length, the n it reports = LengthBytes(), which is -1 for BLOB) *)
Definition read_base (dt : Z) : parser (Z * Z) :=
  if is_fixed dt then ret (preset_maxlen dt, 0)
  else let* l := read_len (length_bytes dt) in ret (l, length_bytes dt).

(* FieldFmt.ReadFrom per format class; result: tail and the byte count the Go code reports *)
Definition dec_fmt_tail (dt : Z) : parser (ftail * Z) :=
  match fmt_class dt with
  | 1 => let* b := read_base dt in ret (tail0 (fst b), snd b)
  | 2 => let* b := read_base dt in let* sc := u8 in
         ret ({| t_maxlen := fst b; t_prec := 0; t_scale := sc; t_blobtype := 0; t_classid := []; t_tabname := [] |}, snd b + 1)
  | 3 => let* b := read_base dt in let* pr := u8 in let* sc := u8 in
         ret ({| t_maxlen := fst b; t_prec := pr; t_scale := sc; t_blobtype := 0; t_classid := []; t_tabname := [] |}, snd b + 2)
  | 4 => let* b := read_base dt in let* bt := u8 in
         if (bt =? 1) || (bt =? 2)
         then let* cl := u16 in let* cid := take cl in
              ret ({| t_maxlen := fst b; t_prec := 0; t_scale := 0; t_blobtype := bt; t_classid := cid; t_tabname := [] |}, snd b + 1 + 2 + cl)
         else ret ({| t_maxlen := fst b; t_prec := 0; t_scale := 0; t_blobtype := bt; t_classid := []; t_tabname := [] |}, snd b + 1)
  | 5 => let* b := read_base dt in let* tl := u16 in let* tn := take tl in
         ret ({| t_maxlen := fst b; t_prec := 0; t_scale := 0; t_blobtype := 0; t_classid := []; t_tabname := tn |}, snd b + 2 + tl)
  | _ => fail 10           (* LookupFieldFmt: unhandled datatype *)
  end.

(* FormatByteLength() *)
Definition format_byte_length (dt : Z) (t : ftail) : Z :=
  match fmt_class dt with
  | 1 => if is_fixed dt then 0 else length_bytes dt
  | 2 => 1 + length_bytes dt
  | 3 => 2 + length_bytes dt
  | 4 => 1 + 1 + zlen (t_classid t) + length_bytes dt
  | 5 => 2 + zlen (t_tabname t) + length_bytes dt
  | _ => 0
  end.

(* FieldFmt.WriteTo *)
Definition enc_fmt_tail (f : ffmt) : bytes :=
  let dt := f_dt f in
  let base := if is_fixed dt then [] else write_len (length_bytes dt) (f_maxlen f) in
  match fmt_class dt with
  | 1 => base
  | 2 => base ++ bytes_of_le 1 (f_scale f mod 256)
  | 3 => base ++ bytes_of_le 1 (f_prec f mod 256) ++ bytes_of_le 1 (f_scale f mod 256)
  | 4 => base ++ bytes_of_le 1 (f_blobtype f mod 256) ++
         (if (f_blobtype f =? 1) || (f_blobtype f =? 2)
          then bytes_of_le 2 (zlen (f_classid f) mod 65536) ++ f_classid f else [])
  | 5 => base ++ lp16 (f_tabname f)
  | _ => []
  end.

Definition mk_fmt (dt : Z) (name : bytes) (status usertype : Z) (locale : bytes) (t : ftail)
                  (label cat schema table : bytes) : ffmt :=
  {| f_dt := dt; f_name := name; f_status := status; f_usertype := usertype; f_locale := locale;
     f_maxlen := t_maxlen t; f_prec := t_prec t; f_scale := t_scale t; f_blobtype := t_blobtype t;
     f_classid := t_classid t; f_tabname := t_tabname t;
     f_label := label; f_cat := cat; f_schema := schema; f_table := table |}.

(* ------------------------------------------------------------------ field data *)
Record fdata := { v_status : Z; v_data : bytes; v_txtptr : bytes; v_timestamp : bytes;
                  v_serial : Z; v_subclass : bytes; v_locator : bytes }.
Definition data0 (st : Z) (d : bytes) : fdata :=
  {| v_status := st; v_data := d; v_txtptr := []; v_timestamp := []; v_serial := 0; v_subclass := []; v_locator := [] |}.

Definition has_colstatus (f : ffmt) : bool := Z.testbit (f_status f) 3.     (* status & 0x8 *)
Definition read_status (f : ffmt) : parser Z := if has_colstatus f then u8 else ret 0.

(* FieldData.ReadFrom for a format *)
Definition dec_fdata (f : ffmt) : parser fdata :=
  let dt := f_dt f in
  match data_class dt with
  | 1 | 2 =>
      let* st := read_status f in
      let* len := (if is_fixed dt then ret (length_bytes dt) else read_len (length_bytes dt)) in
      let* bs := take len in
      if value_len_ok dt len then ret (data0 st bs) else fail 20      (* GoValue error *)
  | 4 =>
      let* st := read_status f in
      let* pl := u8 in let* tp := take pl in let* ts := take 8 in
      let* dl := u32 in let* d := take dl in
      ret {| v_status := st; v_data := d; v_txtptr := tp; v_timestamp := ts; v_serial := 0; v_subclass := []; v_locator := [] |}
  | 3 => fail 12           (* BLOB data (serialised Java objects / LOB locators): NOT modelled; the harness never
                              generates BLOB columns for rows, the reader is only fuzzed for panics (fn 5) *)
  | _ => fail 11            (* LookupFieldData: unhandled datatype (reported by LastPkg) *)
  end.

(* FieldData.WriteTo for the plain and precision/scale classes (what a client sends): status byte,
   length prefix of the ENCODED value, the value bytes *)
Definition enc_fdata (f : ffmt) (v : fdata) : bytes :=
  let dt := f_dt f in
  (if has_colstatus f then bytes_of_le 1 (v_status v mod 256) else []) ++
  (if data_class dt =? 4
   then (* text pointer: pointer length + pointer, timestamp, 4-byte data length, data *)
        lp8 (v_txtptr v) ++ v_timestamp v ++ lp32 (v_data v)
   else (if is_fixed dt then [] else write_len (length_bytes dt) (zlen (v_data v))) ++ v_data v).

(* ------------------------------------------------------------------ trees *)
Definition ffmt_tree (f : ffmt) : tree :=
  TL [TI (f_dt f); TB (f_name f); TI (f_status f); TI (f_usertype f); TB (f_locale f);
      TI (f_maxlen f); TI (f_prec f); TI (f_scale f); TI (f_blobtype f); TB (f_classid f); TB (f_tabname f);
      TB (f_label f); TB (f_cat f); TB (f_schema f); TB (f_table f)].
Definition ffmt_of_tree (t : tree) : ffmt :=
  {| f_dt := t_int (t_nth 0 t); f_name := t_bytes (t_nth 1 t); f_status := t_int (t_nth 2 t); f_usertype := t_int (t_nth 3 t);
     f_locale := t_bytes (t_nth 4 t); f_maxlen := t_int (t_nth 5 t); f_prec := t_int (t_nth 6 t); f_scale := t_int (t_nth 7 t);
     f_blobtype := t_int (t_nth 8 t); f_classid := t_bytes (t_nth 9 t); f_tabname := t_bytes (t_nth 10 t);
     f_label := t_bytes (t_nth 11 t); f_cat := t_bytes (t_nth 12 t); f_schema := t_bytes (t_nth 13 t); f_table := t_bytes (t_nth 14 t) |}.
Definition fdata_tree (v : fdata) : tree :=
  TL [TI (v_status v); TB (v_data v); TB (v_txtptr v); TB (v_timestamp v); TI (v_serial v); TB (v_subclass v); TB (v_locator v)].
Definition fdata_of_tree (t : tree) : fdata :=
  {| v_status := t_int (t_nth 0 t); v_data := t_bytes (t_nth 1 t); v_txtptr := t_bytes (t_nth 2 t); v_timestamp := t_bytes (t_nth 3 t);
     v_serial := t_int (t_nth 4 t); v_subclass := t_bytes (t_nth 5 t); v_locator := t_bytes (t_nth 6 t) |}.
