(* TDS_LANGUAGE (tds/packageLanguage.go).  Length is 4 bytes = 1 (status) + len(Cmd).  The reader asks
   for int(totalLength) - 1 bytes; with totalLength = 0 that is -1, which PacketQueue.Bytes refuses and
   the site maps to ErrNotEnoughBytes (take (-1) = PNeb). *)
From Coq Require Import ZArith List Bool Lia.
Import ListNotations.
From V Require Import Base.Tree Base.Bytes Base.BytesFacts Base.Parser Base.ParserFacts.
Open Scope Z_scope.

Record language := { lg_status : Z; lg_cmd : bytes }.

Definition dec_language : parser language :=
  let* total := u32 in
  let* st := u8 in
  let* cmd := take (total - 1) in
  ret {| lg_status := st; lg_cmd := cmd |}.

Definition tok_language : Z := 33.
(* uint32(1 + len(Cmd)); byte(pkg.Status) of an int *)
Definition enc_language_body (p : language) : bytes :=
  bytes_of_le 4 ((1 + zlen (lg_cmd p)) mod 4294967296) ++ bytes_of_le 1 (lg_status p mod 256) ++ lg_cmd p.
Definition enc_language (p : language) : option bytes := Some (tok_language :: enc_language_body p).

Definition wf_language (p : language) : Prop := 0 <= lg_status p < 256 /\ 1 + zlen (lg_cmd p) < 4294967296.

Lemma dec_language_streamable : streamable dec_language.
Proof. unfold dec_language. streamable_tac. Qed.

Lemma language_roundtrip p r : wf_language p -> dec_language (enc_language_body p ++ r) = POk p r.
Proof.
  intros [Hs Hl]. unfold dec_language, enc_language_body. rewrite <- !app_assoc.
  pose proof (zlen_nonneg (lg_cmd p)) as Hnn. rewrite !Z.mod_small by lia.
  assert (H1 : 0 <= 1 + zlen (lg_cmd p) < 4294967296) by lia.
  assert (H2 : zlen (lg_cmd p) = 1 + zlen (lg_cmd p) - 1) by lia.
  rewrite (bind_ok _ _ _ _ _ (u32_enc _ _ H1)).
  rewrite (bind_ok _ _ _ _ _ (u8_enc _ _ Hs)).
  rewrite (bind_ok _ _ _ _ _ (take_app_n (1 + zlen (lg_cmd p) - 1) _ _ H2)).
  destruct p; reflexivity.
Qed.

(* the 4-byte length written equals the number of bytes after it *)
Lemma enc_language_len p : wf_language p ->
  exists rest, enc_language_body p = bytes_of_le 4 (zlen rest) ++ rest.
Proof.
  intros [Hs Hl]. exists (bytes_of_le 1 (lg_status p mod 256) ++ lg_cmd p). unfold enc_language_body.
  pose proof (zlen_nonneg (lg_cmd p)) as Hnn. rewrite zlen_app, zlen_bytes_of_le, Z.mod_small by lia. reflexivity.
Qed.

Definition language_tree (p : language) : tree := TL [TI (lg_status p); TB (lg_cmd p)].
Definition language_of_tree (t : tree) : language := {| lg_status := t_int (t_nth 0 t); lg_cmd := t_bytes (t_nth 1 t) |}.
