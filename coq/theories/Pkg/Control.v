(* TDS_CONTROL 0xAE (tds/packageControl.go; NOT reachable from LookupPackage).
   The type is a stub: ReadFrom reads nothing and succeeds, WriteTo writes nothing (not even the token). *)
From Coq Require Import ZArith List Bool Lia.
Import ListNotations.
From V Require Import Base.Tree Base.Bytes Base.BytesFacts Base.Parser Base.ParserFacts.
Open Scope Z_scope.

Definition dec_control : parser unit := ret tt.

Definition tok_control : Z := 174.
Definition enc_control (_ : unit) : option bytes := Some [].

Lemma dec_control_streamable : streamable dec_control.
Proof. unfold dec_control. streamable_tac. Qed.

(* what is written (nothing) is read back as the same (empty) package, consuming nothing *)
Lemma control_roundtrip u r : dec_control ([] ++ r) = POk u r.
Proof. destruct u. reflexivity. Qed.

Definition control_tree (_ : unit) : tree := TL [].
Definition control_of_tree (_ : tree) : unit := tt.
