(* TDS_LOGOUT (tds/packageLogout.go).  The writer writes any options byte, the reader rejects every
   value other than 0 (fmt.Errorf without the sentinel). *)
From Coq Require Import ZArith List Bool Lia.
Import ListNotations.
From V Require Import Base.Tree Base.Bytes Base.BytesFacts Base.Parser Base.ParserFacts.
Open Scope Z_scope.

Record logout := { lo_options : Z }.

Definition dec_logout : parser logout :=
  let* o := u8 in
  if o =? 0 then ret {| lo_options := o |} else fail 2.

Definition tok_logout : Z := 113.
Definition enc_logout_body (p : logout) : bytes := bytes_of_le 1 (lo_options p mod 256).
Definition enc_logout (p : logout) : option bytes := Some (tok_logout :: enc_logout_body p).

(* fits the field *)
Definition wf_logout (p : logout) : Prop := 0 <= lo_options p < 256.

Lemma dec_logout_streamable : streamable dec_logout.
Proof. unfold dec_logout. streamable_tac. Qed.

(* the reader accepts exactly the options value 0 *)
Lemma logout_roundtrip p r : lo_options p = 0 -> dec_logout (enc_logout_body p ++ r) = POk p r.
Proof.
  intros H. unfold dec_logout, enc_logout_body. rewrite H.
  assert (H0 : 0 <= 0 < 256) by lia.
  rewrite (bind_ok _ _ _ _ _ (u8_enc 0 _ H0)). destruct p as [o]; cbn in H; subst; reflexivity.
Qed.

Lemma logout_nonzero_rejected p r : wf_logout p -> lo_options p <> 0 -> dec_logout (enc_logout_body p ++ r) = PErr 2 r.
Proof.
  intros H Hn. unfold dec_logout, enc_logout_body. rewrite Z.mod_small by exact H.
  rewrite (bind_ok _ _ _ _ _ (u8_enc _ _ H)). destruct (Z.eqb_spec (lo_options p) 0) as [E|E]; [contradiction|reflexivity].
Qed.

Lemma enc_logout_len p : zlen (enc_logout_body p) = 1.
Proof. reflexivity. Qed.

Definition logout_tree (p : logout) : tree := TL [TI (lo_options p)].
Definition logout_of_tree (t : tree) : logout := {| lo_options := t_int (t_nth 0 t) |}.
