(* TokenlessPackage (tds/packageTokenless.go): what LookupPackage returns for every token it does not know.
   The channel writes the token byte back into pkg.Data and calls ReadFrom, which is bytes.Buffer.ReadFrom(ch):
   it reads until the queue reports an error; PacketQueue.Read never reports io.EOF but ErrNotEnoughBytes
   once everything available has been swallowed.  So the decoder NEVER succeeds, whatever the input.
   WriteTo writes Data as it is (no token of its own: Data[0] is the "possible token"). *)
From Coq Require Import ZArith List Bool Lia.
Import ListNotations.
From V Require Import Base.Tree Base.Bytes Base.BytesFacts Base.Parser Base.ParserFacts.
Open Scope Z_scope.

Definition dec_tokenless : parser bytes := fun _ => PNeb.

Definition enc_tokenless (data : bytes) : option bytes := Some data.

Lemma dec_tokenless_streamable : streamable dec_tokenless.
Proof. split; unfold dec_tokenless; intros; try congruence; reflexivity. Qed.

Lemma dec_tokenless_never_ok s a r : dec_tokenless s <> POk a r.
Proof. unfold dec_tokenless. congruence. Qed.

Definition tokenless_tree (data : bytes) : tree := TL [TB data].
Definition tokenless_of_tree (t : tree) : bytes := t_bytes (t_nth 0 t).
