(* Length fields whose width depends on the wide flag (DYNAMIC/DYNAMIC2, CURDECLARE/CURDECLARE3):
   if pkg.wide { ch.Uint32() } else { ch.Uint16() }   and   WriteUint32(uint32(x)) / WriteUint16(uint16(x)). *)
From Coq Require Import ZArith List Bool Lia.
Import ListNotations.
From V Require Import Base.Tree Base.Bytes Base.BytesFacts Base.Parser Base.ParserFacts.
Open Scope Z_scope.

Definition p_len (wide : bool) : parser Z := if wide then u32 else u16.
Definition len_width (wide : bool) : Z := if wide then 4 else 2.
Definition len_bound (wide : bool) : Z := if wide then 4294967296 else 65536.
Definition enc_len (wide : bool) (v : Z) : bytes :=
  if wide then bytes_of_le 4 (v mod 4294967296) else bytes_of_le 2 (v mod 65536).

Lemma p_len_streamable wide : streamable (p_len wide).
Proof. unfold p_len. streamable_tac. Qed.

Lemma zlen_enc_len wide v : zlen (enc_len wide v) = len_width wide.
Proof. unfold enc_len, len_width. destruct wide; rewrite zlen_bytes_of_le; reflexivity. Qed.

Lemma p_len_enc wide v r : 0 <= v < len_bound wide -> p_len wide (enc_len wide v ++ r) = POk v r.
Proof.
  unfold p_len, enc_len, len_bound. destruct wide; intros H; rewrite Z.mod_small by lia.
  - apply u32_enc; lia.
  - apply u16_enc; lia.
Qed.

(* length-prefixed string with a wide-dependent prefix *)
Definition lpw (wide : bool) (bs : bytes) : bytes := enc_len wide (zlen bs) ++ bs.
Definition p_lpw (wide : bool) : parser bytes := let* n := p_len wide in take n.

Lemma p_lpw_streamable wide : streamable (p_lpw wide).
Proof. unfold p_lpw, p_len. streamable_tac. Qed.

Lemma zlen_lpw wide bs : zlen (lpw wide bs) = len_width wide + zlen bs.
Proof. unfold lpw. rewrite zlen_app, zlen_enc_len. reflexivity. Qed.

Lemma p_lpw_enc wide bs r : zlen bs < len_bound wide -> p_lpw wide (lpw wide bs ++ r) = POk bs r.
Proof.
  intros H. pose proof (zlen_nonneg bs) as Hn. unfold p_lpw, lpw. rewrite <- app_assoc.
  rewrite (bind_ok _ _ _ _ _ (p_len_enc wide _ _ (conj Hn H))). apply take_app.
Qed.
