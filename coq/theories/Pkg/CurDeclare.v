(* TDS_CURDECLARE 0x86 / TDS_CURDECLARE3 0x10 (tds/packageCurDeclare.go), wide = CURDECLARE3:
   token | length u16 (u32) | name length u8 | name | options u8 (u32) | status u8 | statement length u16 (u32) | statement
         | column count u16 | column count x (name length u8 | name)
   (the code uses a 2-byte column count in both variants) *)
From Coq Require Import ZArith List Bool Lia.
Import ListNotations.
From V Require Import Base.Tree Base.Bytes Base.BytesFacts Base.Parser Base.ParserFacts Pkg.CurCommon Pkg.WideCommon.
Open Scope Z_scope.

Record curdeclare := { cd_name : bytes; cd_options : Z; cd_status : Z; cd_stmt : bytes; cd_columns : list bytes }.

(* n++ ; n += int(nameLength)  per column *)
Definition cols_total (cols : list bytes) : Z := zsum (map (fun c => 1 + zlen c) cols).

Definition dec_curdeclare (wide : bool) : parser curdeclare :=
  let* total := p_len wide in
  let* nl := u8 in
  let* name := take nl in
  let* opts := (if wide then u32 else u8) in
  let* st := u8 in
  let* sl := p_len wide in
  let* stmt := take sl in
  let* cc := u16 in
  let* cols := repeat_n (Z.to_nat cc) p_lp8 in
  check_total (1 + nl + (if wide then 4 else 1) + 1 + len_width wide + sl + 2 + cols_total cols) total
    {| cd_name := name; cd_options := opts; cd_status := st; cd_stmt := stmt; cd_columns := cols |}.

Definition tok_curdeclare (wide : bool) : Z := if wide then 16 else 134.
(* totalLength := 1 + len(Name) + 1 + 1 + 2 + len(Stmt) + 2; wide: += 3 + 2; per column += 1 + len(col) *)
Definition curdeclare_total (wide : bool) (c : curdeclare) : Z :=
  1 + zlen (cd_name c) + 1 + 1 + 2 + zlen (cd_stmt c) + 2 + (if wide then 3 + 2 else 0) + cols_total (cd_columns c).
Definition enc_curdeclare_payload (wide : bool) (c : curdeclare) : bytes :=
  lp8 (cd_name c)
  ++ (if wide then bytes_of_le 4 (cd_options c mod 4294967296) else bytes_of_le 1 (cd_options c mod 256))
  ++ bytes_of_le 1 (cd_status c mod 256)
  ++ lpw wide (cd_stmt c)
  ++ bytes_of_le 2 (zlen (cd_columns c) mod 65536)
  ++ concat (map lp8 (cd_columns c)).
Definition enc_curdeclare_body (wide : bool) (c : curdeclare) : bytes :=
  enc_len wide (curdeclare_total wide c) ++ enc_curdeclare_payload wide c.
(* the closing  n != totalLength  of the writer compares two identical sums and never fires *)
Definition enc_curdeclare (wide : bool) (c : curdeclare) : option bytes :=
  Some (tok_curdeclare wide :: enc_curdeclare_body wide c).

Definition wf_curdeclare (wide : bool) (c : curdeclare) : Prop :=
  zlen (cd_name c) < 256 /\ 0 <= cd_options c < (if wide then 4294967296 else 256) /\ 0 <= cd_status c < 256 /\
  zlen (cd_columns c) < 65536 /\ Forall (fun col => zlen col < 256) (cd_columns c) /\
  curdeclare_total wide c < len_bound wide.

Lemma dec_curdeclare_streamable wide : streamable (dec_curdeclare wide).
Proof.
  unfold dec_curdeclare. streamable_tac; try apply p_len_streamable; try apply streamable_p_lp8; apply check_total_streamable.
Qed.

Lemma zlen_concat_lp8 cols : zlen (concat (map lp8 cols)) = cols_total cols.
Proof.
  rewrite zlen_concat, map_map. unfold cols_total. f_equal. apply map_ext. intros a. apply zlen_lp8.
Qed.

Lemma cols_total_nonneg cols : 0 <= cols_total cols.
Proof. rewrite <- zlen_concat_lp8. apply zlen_nonneg. Qed.

Lemma enc_curdeclare_len wide c : zlen (enc_curdeclare_payload wide c) = curdeclare_total wide c.
Proof.
  unfold enc_curdeclare_payload, curdeclare_total.
  rewrite !zlen_app, zlen_lp8, zlen_lpw, zlen_concat_lp8, !zlen_bytes_of_le. unfold len_width.
  destruct wide; rewrite zlen_bytes_of_le; cbn [Z.of_nat Pos.of_succ_nat Pos.succ]; lia.
Qed.

Lemma curdeclare_total_nonneg wide c : 0 <= curdeclare_total wide c.
Proof. rewrite <- enc_curdeclare_len. apply zlen_nonneg. Qed.

Lemma curdeclare_roundtrip wide c r : wf_curdeclare wide c ->
  dec_curdeclare wide (enc_curdeclare_body wide c ++ r) = POk c r.
Proof.
  intros [Hnl [Ho [Hst [Hcc [Hcols Ht]]]]]. pose proof (curdeclare_total_nonneg wide c) as Hnn.
  pose proof (zlen_nonneg (cd_name c)) as Hl. pose proof (zlen_nonneg (cd_stmt c)) as Hsl.
  pose proof (zlen_nonneg (cd_columns c)) as Hcl. pose proof (cols_total_nonneg (cd_columns c)) as Hct.
  unfold dec_curdeclare, enc_curdeclare_body, enc_curdeclare_payload, lp8 at 1, lpw. rewrite <- !app_assoc.
  rewrite (Z.mod_small (cd_status c)) by lia. rewrite (Z.mod_small (zlen (cd_name c))) by lia.
  rewrite (Z.mod_small (zlen (cd_columns c))) by lia.
  rewrite (bind_ok _ _ _ _ _ (p_len_enc wide _ _ (conj Hnn Ht))).
  rewrite (bind_ok _ _ _ _ _ (u8_enc _ _ (conj Hl Hnl))).
  rewrite (bind_ok _ _ _ _ _ (take_app _ _)).
  assert (Hopt : (if wide then u32 else u8)
                   ((if wide then bytes_of_le 4 (cd_options c mod 4294967296) else bytes_of_le 1 (cd_options c mod 256))
                    ++ bytes_of_le 1 (cd_status c) ++ enc_len wide (zlen (cd_stmt c)) ++ cd_stmt c
                    ++ bytes_of_le 2 (zlen (cd_columns c)) ++ concat (map lp8 (cd_columns c)) ++ r)
                 = POk (cd_options c)
                     (bytes_of_le 1 (cd_status c) ++ enc_len wide (zlen (cd_stmt c)) ++ cd_stmt c
                      ++ bytes_of_le 2 (zlen (cd_columns c)) ++ concat (map lp8 (cd_columns c)) ++ r)).
  { destruct wide; rewrite Z.mod_small by lia; [apply u32_enc|apply u8_enc]; lia. }
  rewrite (bind_ok _ _ _ _ _ Hopt).
  rewrite (bind_ok _ _ _ _ _ (u8_enc _ _ Hst)).
  assert (Hsb : zlen (cd_stmt c) < len_bound wide).
  { unfold curdeclare_total in Ht. destruct wide; unfold len_bound in *; lia. }
  rewrite (bind_ok _ _ _ _ _ (p_len_enc wide _ _ (conj Hsl Hsb))).
  rewrite (bind_ok _ _ _ _ _ (take_app _ _)).
  rewrite (bind_ok _ _ _ _ _ (u16_enc _ _ (conj Hcl Hcc))).
  unfold zlen at 1. rewrite Nat2Z.id.
  assert (Hrep : repeat_n (length (cd_columns c)) p_lp8 (concat (map lp8 (cd_columns c)) ++ r) = POk (cd_columns c) r).
  { apply repeat_n_enc. intros x r' Hin. apply p_lp8_enc. rewrite Forall_forall in Hcols. exact (Hcols x Hin). }
  rewrite (bind_ok _ _ _ _ _ Hrep).
  match goal with |- check_total ?a ?b _ _ = _ =>
    replace a with b by (unfold curdeclare_total, len_width; destruct wide; lia) end.
  rewrite check_total_ok. destruct c; reflexivity.
Qed.

Definition curdeclare_tree (c : curdeclare) : tree :=
  TL [TB (cd_name c); TI (cd_options c); TI (cd_status c); TB (cd_stmt c); TL (map TB (cd_columns c))].
Definition curdeclare_of_tree (t : tree) : curdeclare :=
  {| cd_name := t_bytes (t_nth 0 t); cd_options := t_int (t_nth 1 t); cd_status := t_int (t_nth 2 t);
     cd_stmt := t_bytes (t_nth 3 t); cd_columns := map t_bytes (t_list (t_nth 4 t)) |}.

Lemma curdeclare_of_tree_tree c : curdeclare_of_tree (curdeclare_tree c) = c.
Proof.
  destruct c as [nm op st sm cols]. unfold curdeclare_of_tree, curdeclare_tree, t_nth. cbn [t_list nth t_bytes t_int].
  f_equal. rewrite map_map. cbn [t_bytes]. apply map_id.
Qed.
