(* TDS_CUROPEN 0x84 (tds/packageCurOpen.go):
   token | length u16 | cursor id i32 | [name length u8 | name]  (iff id = 0) | status u8 *)
From Coq Require Import ZArith List Bool Lia.
Import ListNotations.
From V Require Import Base.Tree Base.Bytes Base.BytesFacts Base.Parser Base.ParserFacts Pkg.CurCommon.
Open Scope Z_scope.

Record curopen := { co_id : Z; co_name : bytes; co_status : Z }.

Definition dec_curopen : parser curopen :=
  let* total := u16 in
  let* hn := counted p_cur_head in
  let* st := u8 in
  check_total (snd hn + 1) total {| co_id := fst (fst hn); co_name := snd (fst hn); co_status := st |}.

Definition tok_curopen : Z := 132.
(* totalLength := 4 + 1; if CursorID == 0 { totalLength += 1 + len(Name) } *)
Definition curopen_total (c : curopen) : Z := cur_head_total (co_id c) (co_name c) + 1.
Definition enc_curopen_payload (c : curopen) : bytes :=
  enc_cur_head (co_id c) (co_name c) ++ bytes_of_le 1 (co_status c mod 256).
Definition enc_curopen_body (c : curopen) : bytes :=
  bytes_of_le 2 (curopen_total c mod 65536) ++ enc_curopen_payload c.
Definition enc_curopen (c : curopen) : option bytes := Some (tok_curopen :: enc_curopen_body c).

Definition wf_curopen (c : curopen) : Prop :=
  wf_cur_head (co_id c) (co_name c) /\ 0 <= co_status c < 256 /\ curopen_total c < 65536.

Lemma dec_curopen_streamable : streamable dec_curopen.
Proof. unfold dec_curopen. streamable_tac; try apply p_cur_head_streamable; apply check_total_streamable. Qed.

Lemma enc_curopen_len c : zlen (enc_curopen_payload c) = curopen_total c.
Proof. unfold enc_curopen_payload, curopen_total. rewrite zlen_app, zlen_enc_cur_head, zlen_bytes_of_le. lia. Qed.

Lemma curopen_total_nonneg c : 0 <= curopen_total c.
Proof. rewrite <- enc_curopen_len. apply zlen_nonneg. Qed.

Lemma curopen_roundtrip c r : wf_curopen c -> dec_curopen (enc_curopen_body c ++ r) = POk c r.
Proof.
  intros [Hh [Hs Ht]]. pose proof (curopen_total_nonneg c) as Hnn.
  unfold dec_curopen, enc_curopen_body, enc_curopen_payload. rewrite <- !app_assoc.
  rewrite !Z.mod_small by lia.
  rewrite (bind_ok _ _ _ _ _ (u16_enc _ _ (conj Hnn Ht))).
  rewrite (bind_ok _ _ _ _ _ (cur_head_counted _ _ _ Hh)).
  rewrite (bind_ok _ _ _ _ _ (u8_enc _ _ Hs)).
  cbn [fst snd]. unfold curopen_total. rewrite check_total_ok. destruct c; reflexivity.
Qed.

Definition curopen_tree (c : curopen) : tree := TL [TI (co_id c); TB (co_name c); TI (co_status c)].
Definition curopen_of_tree (t : tree) : curopen :=
  {| co_id := t_int (t_nth 0 t); co_name := t_bytes (t_nth 1 t); co_status := t_int (t_nth 2 t) |}.

Lemma curopen_of_tree_tree c : curopen_of_tree (curopen_tree c) = c.
Proof. destruct c; reflexivity. Qed.
