(* Shared head of the cursor packages CURCLOSE / CURDELETE / CURFETCH / CURINFO / CUROPEN / CURUPDATE
   (tds/packageCur*.go):  CursorID int32, and ONLY IF CursorID == 0: name length (1 byte) + name.
   Reader and writer use the same condition.  A package read with CursorID <> 0 keeps Name = "". *)
From Coq Require Import ZArith List Bool Lia.
Import ListNotations.
From V Require Import Base.Tree Base.Bytes Base.BytesFacts Base.Parser Base.ParserFacts.
Open Scope Z_scope.

(* pkg.CursorID, err = ch.Int32(); if pkg.CursorID == 0 { nameLen = ch.Uint8(); pkg.Name = ch.String(nameLen) } *)
Definition p_cur_head : parser (Z * bytes) :=
  let* id := i32 in
  if id =? 0 then (let* nm := p_lp8 in ret (id, nm)) else ret (id, []).

(* ch.WriteInt32(pkg.CursorID); if pkg.CursorID == 0 { WriteUint8(uint8(len(Name))); WriteString(Name) } *)
Definition enc_cur_head (id : Z) (name : bytes) : bytes :=
  bytes_of_le 4 (id mod 4294967296) ++ (if id =? 0 then lp8 name else []).

(* the writers' length contribution: 4, plus 1 + len(Name) if CursorID == 0 *)
Definition cur_head_total (id : Z) (name : bytes) : Z := 4 + (if id =? 0 then 1 + zlen name else 0).

Definition wf_cur_head (id : Z) (name : bytes) : Prop :=
  -2147483648 <= id < 2147483648 /\ zlen name < 256 /\ (id <> 0 -> name = []).

Lemma p_cur_head_streamable : streamable p_cur_head.
Proof. unfold p_cur_head, p_lp8. streamable_tac. Qed.

Lemma zlen_enc_cur_head id name : zlen (enc_cur_head id name) = cur_head_total id name.
Proof.
  unfold enc_cur_head, cur_head_total. rewrite zlen_app, zlen_bytes_of_le.
  destruct (id =? 0); [rewrite zlen_lp8|rewrite zlen_nil]; lia.
Qed.

Lemma cur_head_enc id name r : wf_cur_head id name ->
  p_cur_head (enc_cur_head id name ++ r) = POk (id, name) r.
Proof.
  intros [Hid [Hn Hz]]. unfold p_cur_head, enc_cur_head. rewrite <- app_assoc.
  rewrite (bind_ok _ _ _ _ _ (i32_enc _ _ Hid)).
  destruct (Z.eqb_spec id 0) as [E|E].
  - rewrite (bind_ok _ _ _ _ _ (p_lp8_enc _ _ Hn)). reflexivity.
  - rewrite (Hz E). reflexivity.
Qed.

Lemma cur_head_counted id name r : wf_cur_head id name ->
  counted p_cur_head (enc_cur_head id name ++ r) = POk ((id, name), cur_head_total id name) r.
Proof.
  intros H. rewrite (counted_ok _ _ _ _ (cur_head_enc id name r H)). rewrite zlen_enc_cur_head. reflexivity.
Qed.

(* the closing comparison of every reader:  if n != totalLength { return fmt.Errorf(...) } *)
Definition check_total {A} (n total : Z) (a : A) : parser A := if n =? total then ret a else fail 1.

Lemma check_total_streamable A n total (a : A) : streamable (check_total n total a).
Proof. unfold check_total. streamable_tac. Qed.

Lemma check_total_ok {A} n (a : A) r : check_total n n a r = POk a r.
Proof. unfold check_total. rewrite Z.eqb_refl. reflexivity. Qed.
